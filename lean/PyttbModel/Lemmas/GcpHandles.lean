/-
Facts about the *generated* GCP handle definitions (`Generated/Handles.lean`) that the
C12 theorems use: positivity of EPS, the closed forms of the Huber pair and its
derivative in the three regions, the specification side of the selection table, and an
explicit copy of the negative-binomial gradient as it was at the pinned commit.
-/
import PyttbModel.Lemmas.GcpExpr
import PyttbModel.Generated.Handles
import Mathlib.Tactic.Linarith
import Mathlib.Tactic.Positivity
import Mathlib.Tactic.FieldSimp
import Mathlib.Tactic.SplitIfs
set_option linter.unusedSimpArgs false
namespace Pyttb
open Handles Expr Filter Topology

theorem EPS_pos : (0 : ℝ) < ((EPS : ℚ) : ℝ) := by
  unfold EPS; norm_num

/-- closes the algebraic identity `evalR (D loss) = evalR grad` after `simp` -/
macro "gcp_close" : tactic =>
  `(tactic| first | ring1 | (field_simp; ring1) | (field_simp; done)
                  | (simp only [Real.exp_neg]; field_simp; ring1) | (simp only [Real.exp_neg]; field_simp; done))

/-- one side condition of `Defined` (positivity of `m + EPS`, `1 + m`, `exp m + 1`, a non-zero
denominator, …) from the hypotheses in scope (`0 ≤ m`, `0 < EPS`, `b ≠ 0`, …) -/
macro "gcp_side" : tactic =>
  `(tactic| first | trivial | assumption | positivity | linarith
                  | (apply ne_of_gt; first | positivity | linarith)
                  | (apply ne_of_lt; first | positivity | linarith)
                  | (intro hcontra; first | (simp_all; done) | linarith | (exfalso; simp_all [sub_eq_zero]; done))
                  | (simp_all [sub_eq_zero]; done) | nlinarith)

/-- `Defined` of a generated expression: unfold, split the conjunction, discharge every side condition -/
macro "gcp_defined" "[" ds:Lean.Parser.Tactic.simpLemma,* "]" : tactic =>
  `(tactic| (simp only [$ds,*, Defined, evalR, noVar, isBool, Bool.and_self, Bool.and_true, Bool.true_and]
             <;> (repeat' apply And.intro) <;> (try push_cast) <;> gcp_side))

/-- the facts about a model value `m ≥ 0` that the side conditions need, in both spellings -/
macro "gcp_facts" m:term:max hm:term:max : tactic =>
  `(tactic| (have he := EPS_pos
             have h1 : 0 < $m + 1 := by linarith [$hm]
             have h1' : 0 < 1 + $m := by linarith [$hm]
             have h2 : 0 < $m + ((EPS : ℚ) : ℝ) := by linarith [$hm]
             have h2' : 0 < ((EPS : ℚ) : ℝ) + $m := by linarith [$hm]))

/-- identities between real powers of one positive base whose exponents differ by integers (`yᵇ`, `yᵇ⁻¹`,
`yᵇ⁻²`): every power is written as `yᵇ` times a power of `y⁻¹`, then `field_simp; ring` -/
macro "gcp_rpow_close" : tactic =>
  `(tactic| first
      | gcp_close
      | (simp (disch := first | assumption | positivity) only [Real.rpow_sub, Real.rpow_add, Real.rpow_one,
            Real.rpow_two, Real.rpow_natCast, sub_sub, one_add_one_eq_two] <;> gcp_close)
      | (rw [show ∀ b : ℝ, b - 1 - 1 = b - 2 from fun b => by ring] <;> gcp_close))

/-- one piece of a piecewise-polynomial identity -/
macro "pw_arith" : tactic =>
  `(tactic| first | done | linarith | nlinarith | (exfalso; linarith) | (simp_all; done))

/-- split every condition and decide the pieces by arithmetic; conditions that only become visible after a
simplification are split again (three rounds) -/
macro "pw_split" : tactic =>
  `(tactic| (split_ifs <;> first | pw_arith | (simp_all; first | pw_arith |
      (split_ifs <;> first | pw_arith | (simp_all; first | pw_arith |
        (split_ifs <;> first | pw_arith | (simp_all; pw_arith)))))))

/-- piecewise-polynomial identities in `d` (= data − model) and the threshold: unfold the generated
expression, split on the sign of `d` (which removes `|·|`, `sgn`, `√(·²)`), split every remaining
condition (`np.where`, masks, `np.minimum`, `np.clip`, …) and close each piece by (non)linear arithmetic -/
macro "piecewise" "[" ds:Lean.Parser.Tactic.simpLemma,* "]" " on " d:term : tactic =>
  `(tactic|
    (simp only [$ds,*, evalR]
     rcases lt_trichotomy $d 0 with hd | hd | hd
     · simp [indLt, indZero, sel, Real.sqrt_sq_eq_abs, abs_of_neg hd, sgn_of_neg hd]
       try pw_split
     · simp [indLt, indZero, sel, Real.sqrt_sq_eq_abs, hd, sgn_zero]
       try pw_split
     · simp [indLt, indZero, sel, Real.sqrt_sq_eq_abs, abs_of_pos hd, sgn_of_pos hd]
       try pw_split))

/-! ### specification side of the selection table -/

/-- the loss that belongs to an objective -/
def lossOf : Objective → Expr
  | .GAUSSIAN => gaussian | .BERNOULLI_ODDS => bernoulli_odds
  | .BERNOULLI_LOGIT => bernoulli_logit | .POISSON => poisson | .POISSON_LOG => poisson_log
  | .RAYLEIGH => rayleigh | .GAMMA => gamma | .HUBER => huber
  | .NEGATIVE_BINOMIAL => negative_binomial | .BETA => beta

/-- the gradient that belongs to an objective -/
def gradOf : Objective → Expr
  | .GAUSSIAN => gaussian_grad | .BERNOULLI_ODDS => bernoulli_odds_grad
  | .BERNOULLI_LOGIT => bernoulli_logit_grad | .POISSON => poisson_grad
  | .POISSON_LOG => poisson_log_grad | .RAYLEIGH => rayleigh_grad | .GAMMA => gamma_grad
  | .HUBER => huber_grad | .NEGATIVE_BINOMIAL => negative_binomial_grad | .BETA => beta_grad

/-- the infimum of the model values on which the loss is used: the losses with a
logarithm or a negative power of `m + EPS` need `m ≥ 0`, the others are total. -/
def lowerOf : Objective → Bound
  | .GAUSSIAN | .BERNOULLI_LOGIT | .POISSON_LOG | .HUBER => .negInf
  | .BERNOULLI_ODDS | .POISSON | .RAYLEIGH | .GAMMA | .NEGATIVE_BINOMIAL | .BETA => .fin 0

/-- `m` respects a lower bound -/
def Bound.holds : Bound → ℝ → Prop
  | .negInf, _ => True
  | .fin q, m => (q : ℝ) ≤ m

/-- admissible values of the extra parameter: Huber threshold `> 0`, beta `b ∉ {0, 1}`;
anything for the negative-binomial number of trials; the other losses ignore it. -/
def ParamOK : Objective → ℝ → Prop
  | .HUBER, t => 0 < t
  | .BETA, b => b ≠ 0 ∧ b ≠ 1
  | _, _ => True

/-- The negative-binomial pair as it was at the pinned commit (before the fix 782e982 in
/repo), written out by hand: loss `(num_trials + data) log(model + 1) - data log(model + EPS)`,
gradient `(num_trials + 1) / (1 + model) - data / (model + EPS)`. -/
def negbinLossPinned : Expr :=
  .sub (.mul (.add .param .data) (.log (.add .var (.const 1)))) (.mul .data (.log (.add .var (.const EPS))))

/-- `negative_binomial_grad` at the pinned commit (explicit copy, not generated). -/
def negbinGradPinned : Expr :=
  .sub (.div (.add .param (.const 1)) (.add (.const 1) .var)) (.div .data (.add .var (.const EPS)))

/-! ### Bernoulli-logit: the overflow-safe spelling of the softplus -/

/-- log-sum-exp stabilisation: `y + log (1 + e^{-y}) = log (e^y + 1)` -/
theorem log1p_exp_neg (y : ℝ) : y + Real.log (1 + Real.exp (-y)) = Real.log (Real.exp y + 1) := by
  have h1 : (0:ℝ) < 1 + Real.exp (-y) := by positivity
  have h2 : (0:ℝ) < Real.exp y := Real.exp_pos y
  calc y + Real.log (1 + Real.exp (-y)) = Real.log (Real.exp y) + Real.log (1 + Real.exp (-y)) := by rw [Real.log_exp]
    _ = Real.log (Real.exp y * (1 + Real.exp (-y))) := (Real.log_mul h2.ne' h1.ne').symm
    _ = Real.log (Real.exp y + 1) := by
        congr 1
        rw [mul_add, mul_one, ← Real.exp_add, add_neg_cancel, Real.exp_zero]

/-- the Bernoulli-logit loss in closed form and its derivative -/
theorem logit_spec_deriv (x m : ℝ) :
    HasDerivAt (fun y => Real.log (Real.exp y + 1) - x * y) (Real.exp m / (Real.exp m + 1) - x) m := by
  have h1 : (0:ℝ) < Real.exp m + 1 := by positivity
  have := (((Real.hasDerivAt_exp m).add_const 1).log h1.ne').fun_sub ((hasDerivAt_id' m).const_mul x)
  simpa using this

/-- closed form `log (e^y + 1) − x y` of a softplus spelled `max(y, 0) + log1p(exp(−|y|)) − x y` (or the like): split
on the sign of `y`, the pieces differ by the log-sum-exp identity -/
macro "softplus_closed" "[" ds:Lean.Parser.Tactic.simpLemma,* "]" " at " y:term : tactic =>
  `(tactic|
    (have k1 := log1p_exp_neg $y
     have k2 : Real.log (1 + Real.exp $y) = Real.log (Real.exp $y + 1) := by rw [add_comm]
     have k3 : Real.log (Real.exp (-$y) + 1) = Real.log (1 + Real.exp (-$y)) := by rw [add_comm]
     simp only [$ds,*, evalR]
     rcases lt_trichotomy $y 0 with hd | hd | hd
     · simp [indLt, indZero, sel, abs_of_neg hd, hd, not_lt.2 hd.le]
       try linarith
     · simp [indLt, indZero, sel, hd]
       try linarith
     · simp [indLt, indZero, sel, abs_of_pos hd, hd, not_lt.2 hd.le]
       try linarith))

/-! ### Huber -/

/-- closed form of the generated Huber loss (threshold `t ≥ 0`), whatever way the source spells the two pieces -/
theorem huber_closed (x t y : ℝ) (ht : 0 ≤ t) :
    huber.evalR x t y = if |x - y| < t then (x - y) ^ 2 else 2 * t * |x - y| - t ^ 2 := by
  piecewise [huber] on (x - y)

/-- closed form of the generated Huber gradient -/
theorem huber_grad_closed (x t y : ℝ) (ht : 0 ≤ t) :
    huber_grad.evalR x t y = if |x - y| < t then -2 * (x - y) else -(2 * t * sgn (x - y)) := by
  piecewise [huber_grad] on (x - y)

/-- Huber, open inner region `|x - m| < t` (by hand: the loss is `(x - m)²` near `m`). -/
theorem huber_deriv_inside (x t m : ℝ) (h : |x - m| < t) :
    HasDerivAt (fun m => huber.evalR x t m) (huber_grad.evalR x t m) m := by
  have ht : 0 ≤ t := (abs_nonneg _).trans h.le
  have hc : ContinuousAt (fun y : ℝ => |x - y|) m := by fun_prop
  have ev : ∀ᶠ y in 𝓝 m, |x - y| < t := hc.eventually_lt continuousAt_const h
  have hd : HasDerivAt (fun y : ℝ => (x - y) ^ 2) (-2 * (x - m)) m := by
    have := ((hasDerivAt_id' m).const_sub x).fun_pow 2
    refine this.congr_deriv ?_
    simp
  rw [huber_grad_closed _ _ _ ht, if_pos h]
  refine hd.congr_of_eventuallyEq ?_
  filter_upwards [ev] with y hy
  rw [huber_closed _ _ _ ht, if_pos hy]

/-- Huber, open outer region `t < |x - m|`. -/
theorem huber_deriv_outside (x t m : ℝ) (ht : 0 ≤ t) (h : t < |x - m|) :
    HasDerivAt (fun m => huber.evalR x t m) (huber_grad.evalR x t m) m := by
  have hc : ContinuousAt (fun y : ℝ => |x - y|) m := by fun_prop
  have ev : ∀ᶠ y in 𝓝 m, t < |x - y| := continuousAt_const.eventually_lt hc h
  have h0 : x - m ≠ 0 := by
    intro h0; rw [h0, abs_zero] at h; linarith
  have hd : HasDerivAt (fun y : ℝ => 2 * t * |x - y| - t ^ 2) (-(2 * t * sgn (x - m))) m := by
    have h1 : HasDerivAt (fun y : ℝ => x - y) (-1) m := by
      simpa using (hasDerivAt_id' m).const_sub x
    have h2 : HasDerivAt (fun y : ℝ => |x - y|) (sgn (x - m) * (-1)) m := by
      rcases lt_or_gt_of_ne h0 with hn | hp
      · have : ∀ᶠ y in 𝓝 m, x - y < 0 := h1.continuousAt.eventually_lt continuousAt_const hn
        rw [sgn_of_neg hn]
        refine (h1.neg.congr_deriv (by ring)).congr_of_eventuallyEq ?_
        filter_upwards [this] with y hy
        simp [abs_of_neg hy]
      · have : ∀ᶠ y in 𝓝 m, 0 < x - y := continuousAt_const.eventually_lt h1.continuousAt hp
        rw [sgn_of_pos hp]
        refine (h1.congr_deriv (by ring)).congr_of_eventuallyEq ?_
        filter_upwards [this] with y hy
        simp [abs_of_pos hy]
    refine ((h2.const_mul (2 * t)).sub_const (t ^ 2)).congr_deriv ?_
    ring
  rw [huber_grad_closed _ _ _ ht, if_neg (not_lt.2 h.le)]
  refine hd.congr_of_eventuallyEq ?_
  filter_upwards [ev] with y hy
  rw [huber_closed _ _ _ ht, if_neg (not_lt.2 hy.le)]

/-- Huber at the kink `|x - m| = t`: the quadratic and the linear piece meet with equal value
and equal one-sided derivatives. -/
theorem huber_deriv_kink (x t m : ℝ) (ht : 0 < t) (h : |x - m| = t) :
    HasDerivAt (fun m => huber.evalR x t m) (huber_grad.evalR x t m) m := by
  have hq : HasDerivAt (fun y : ℝ => (x - y) ^ 2) (-2 * (x - m)) m := by
    have := ((hasDerivAt_id' m).const_sub x).fun_pow 2
    refine this.congr_deriv ?_
    simp
  have hlin : ∀ c : ℝ, HasDerivAt (fun y : ℝ => 2 * t * (c * (x - y)) - t ^ 2) (-(2 * t * c)) m := by
    intro c
    have h1 : HasDerivAt (fun y : ℝ => x - y) (-1) m := by
      simpa using (hasDerivAt_id' m).const_sub x
    refine (((h1.const_mul c).const_mul (2 * t)).sub_const (t ^ 2)).congr_deriv ?_
    ring
  rw [huber_grad_closed _ _ _ ht.le, if_neg (by rw [h]; exact lt_irrefl t)]
  -- a neighbourhood of m of radius t
  have near : ∀ᶠ y in 𝓝 m, |y - m| < t := by
    have hc : ContinuousAt (fun y : ℝ => |y - m|) m := by fun_prop
    have := hc.eventually_lt (continuousAt_const (y := t)) (by simpa using ht)
    exact this
  rcases abs_eq ht.le |>.1 h with hp | hn
  · -- x - m = t : left of m is the linear region, right of m the quadratic one
    have hs : sgn (x - m) = 1 := sgn_of_pos (by linarith)
    rw [hs]
    refine hasDerivAt_of_left_right ((hlin 1).congr_deriv (by ring)) (hq.congr_deriv (by rw [hp]; ring)) ?_ ?_
    · filter_upwards [near] with y hy hle
      have : t ≤ x - y := by linarith
      rw [huber_closed _ _ _ ht.le, if_neg (not_lt.2 (le_trans this (le_abs_self _))), abs_of_nonneg (le_trans ht.le this)]
      ring
    · filter_upwards [near] with y hy hle
      have hy' := abs_lt.1 hy
      rcases eq_or_lt_of_le hle with he | hlt
      · subst he
        rw [huber_closed _ _ _ ht.le, if_neg (by rw [h]; exact lt_irrefl t), h, hp]; ring
      · rw [huber_closed _ _ _ ht.le, if_pos (abs_lt.2 ⟨by linarith, by linarith⟩)]
  · -- x - m = -t
    have hs : sgn (x - m) = -1 := sgn_of_neg (by linarith)
    rw [hs]
    refine hasDerivAt_of_left_right (hq.congr_deriv (by rw [hn]; ring)) ((hlin (-1)).congr_deriv (by ring)) ?_ ?_
    · filter_upwards [near] with y hy hle
      have hy' := abs_lt.1 hy
      rcases eq_or_lt_of_le hle with he | hlt
      · subst he
        rw [huber_closed _ _ _ ht.le, if_neg (by rw [h]; exact lt_irrefl t), h, hn]; ring
      · rw [huber_closed _ _ _ ht.le, if_pos (abs_lt.2 ⟨by linarith, by linarith⟩)]
    · filter_upwards [near] with y hy hle
      have : x - y ≤ -t := by linarith
      rw [huber_closed _ _ _ ht.le, if_neg (not_lt.2 (by rw [abs_of_nonpos (by linarith)]; linarith)),
        abs_of_nonpos (by linarith)]
      ring

end Pyttb
