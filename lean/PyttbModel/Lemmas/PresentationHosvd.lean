/-
C18, mode relabelling of HOSVD (the model of C10: `Alg/Hosvd.lean`), sequential and not.

Two runs: data `X` and data `permuteD p X` (mode `k` of the second problem is mode `p[k]` of the first), the
requested ranks relabelled (`gather ranks p`), `dimorder` mapped through `invPerm p`.  `scipy.linalg.eigh` is a
service `eigh c Z` (call number, matrix); NOTHING is assumed about it: the Gram matrix the second run hands to
it in its `c`-th call is, entry by entry, the matrix the first run hands to it in its `c`-th call, so it is the
same call.  The state of the second run is the relabelling `relabelH p st` of the state of the first after
every pass of the mode loop.
-/
import PyttbModel.Lemmas.HosvdAccept
import PyttbModel.Lemmas.PresentationRelabel

set_option linter.unusedSectionVars false
set_option linter.unusedSimpArgs false
set_option linter.unusedVariables false
namespace Pyttb
namespace Tk
open Finset CpAls

/-! ## 1. gathering and writing one position -/

/-- writing position `q[m]` and then gathering by `q` = gathering and then writing position `m` -/
theorem gather_set {q : List Nat} {N : Nat} (hq : isPermOf q N = true) (l : List Nat) (hl : l.length = N)
    {m : Nat} (hm : m < N) (a : Nat) : gather (l.set (q.getD m 0) a) q = (gather l q).set m a := by
  have hql := isPermOf_length_eq hq
  apply ext_getD (by simp)
  intro i hi
  simp only [length_gather] at hi
  have hi' : i < N := by omega
  rw [getD_gather _ _ _ hi]
  by_cases him : i = m
  · subst him
    rw [CpAls.getD_set_eq _ _ _ _ (by rw [hl]; exact isPermOf_getD_lt hq hi'),
      CpAls.getD_set_eq _ _ _ _ (by rw [length_gather]; exact hi)]
  · have hne : q.getD m 0 ≠ q.getD i 0 := fun e => him (isPermOf_getD_inj hq hi' hm e.symm)
    rw [CpAls.getD_set_ne _ _ _ hne, CpAls.getD_set_ne _ _ _ (Ne.symm him), getD_gather _ _ _ hi]

/-- un-permuting a subscript of the relabelled shape whose position `k` was overwritten -/
theorem unperm_set {p : List Nat} {N : Nat} (hp : isPermOf p N = true) (j' : List Nat) (hj : j'.length = N)
    {k : Nat} (hk : k < N) (a : Nat) :
    gather (j'.set k a) (invPerm p) = (gather j' (invPerm p)).set (p.getD k 0) a := by
  have hq := isPermOf_invPerm hp
  have hpk := isPermOf_getD_lt hp hk
  have := gather_set hq j' hj hpk a
  rwa [invPerm_getD_getD hp hk] at this

/-! ## 2. the relabelled array -/

@[simp] theorem permuteD_shape (p : List Nat) (T : Dense ℝ) : (permuteD p T).shape = gather T.shape p := rfl

theorem permuteD_WF (p : List Nat) (T : Dense ℝ) : (permuteD p T).WF := Dense.ofFn_WF _ _

theorem permuteD_get (p : List Nat) (T : Dense ℝ) {j' : List Nat} (h : InBounds (gather T.shape p) j') :
    (permuteD p T).get j' = T.get (gather j' (invPerm p)) := Dense.ofFn_get _ _ h

/-- sums over all cells of the relabelled shape -/
theorem sum_allSubs_relabel {p s : List Nat} (hp : isPermOf p s.length = true) (F : List Nat → ℝ) :
    ((allSubs (gather s p)).map fun j' => F (gather j' (invPerm p))).sum = ((allSubs s).map F).sum :=
  (ML.sum_allSubs_perm s p hp F).symm

theorem normSq_permuteD {p : List Nat} (T : Dense ℝ) (hT : T.WF) (hp : isPermOf p T.shape.length = true) :
    normSq (permuteD p T) = normSq T := by
  rw [normSq_eq _ (permuteD_WF p T), normSq_eq T hT, ← sum_allSubs, ← sum_allSubs, permuteD_shape,
    ← sum_allSubs_relabel hp]
  congr 1
  refine List.map_congr_left fun j' hj' => ?_
  rw [permuteD_get p T (mem_allSubs.1 hj')]

/-- **The mode product commutes with the relabelling**: multiplying mode `k` of the relabelled array is
multiplying mode `p[k]` of the array. -/
theorem ttmT_permuteD {p : List Nat} (T : Dense ℝ) (hp : isPermOf p T.shape.length = true) (U : Mat ℝ) {k : Nat}
    (hk : k < T.shape.length) (tr : Bool) :
    ttmT (permuteD p T) U k tr = permuteD p (ttmT T U (p.getD k 0) tr) := by
  have hpl := isPermOf_length_eq hp
  have hsh : (gather T.shape p).set k (outDim U tr) = gather (T.shape.set (p.getD k 0) (outDim U tr)) p :=
    (gather_set hp T.shape rfl hk _).symm
  have hext : (gather T.shape p).getD k 0 = T.shape.getD (p.getD k 0) 0 :=
    getD_gather _ _ _ (by rw [hpl]; exact hk)
  apply Dense.ext_get (ttmT_WF _ _ _ _) (permuteD_WF _ _)
  · rw [ttmT_shape, permuteD_shape, permuteD_shape, ttmT_shape, hsh]
  · intro j' hj'
    rw [ttmT_shape, permuteD_shape] at hj'
    have hjl : j'.length = T.shape.length := by rw [hj'.length_eq]; simp [hpl]
    rw [ttmT_get _ _ _ _ (by rw [permuteD_shape]; exact hj'),
      permuteD_get p _ (by rw [ttmT_shape, ← hsh]; exact hj'),
      ttmT_get _ _ _ _ (by
        have := inBounds_unperm (s := T.shape.set (p.getD k 0) (outDim U tr)) (p := p)
          (by rw [List.length_set]; exact hp) (by rw [← hsh]; exact hj')
        exact this),
      permuteD_shape, hext, unperm_spec p j' _ hp hjl k hk]
    refine Finset.sum_congr rfl fun a ha => ?_
    have ha' := Finset.mem_range.1 ha
    have hin : InBounds (gather T.shape p) (j'.set k a) := by
      have := inBounds_set (y := (gather T.shape p).getD k 0) hj' (b := a) (by rw [hext]; exact ha')
      rwa [set_getD_self] at this
    rw [permuteD_get p T hin, unperm_set hp j' hjl hk a]

theorem ttm_permuteD {p : List Nat} (T : Dense ℝ) (hp : isPermOf p T.shape.length = true) (U : Mat ℝ) {k : Nat}
    (hk : k < T.shape.length) (tr : Bool) :
    ttm (permuteD p T) U k tr = (ttm T U (p.getD k 0) tr).map (permuteD p) := by
  have hpl := isPermOf_length_eq hp
  have hext : (gather T.shape p).getD k 0 = T.shape.getD (p.getD k 0) 0 :=
    getD_gather _ _ _ (by rw [hpl]; exact hk)
  have hpk := isPermOf_getD_lt hp hk
  have hk' : k < (permuteD p T).shape.length := by rw [permuteD_shape, length_gather, hpl]; exact hk
  have hext' : (permuteD p T).shape.getD k 0 = T.shape.getD (p.getD k 0) 0 := hext
  unfold ttm
  by_cases h : (if tr = true then U.nrows else U.ncols) = T.shape.getD (p.getD k 0) 0
  · have c1 : (decide (p.getD k 0 < T.shape.length) && (if tr = true then U.nrows else U.ncols) == T.shape.getD (p.getD k 0) 0) = true := by
      rw [Bool.and_eq_true, decide_eq_true_eq, beq_iff_eq]; exact ⟨hpk, h⟩
    have c2 : (decide (k < (permuteD p T).shape.length) && (if tr = true then U.nrows else U.ncols) == (permuteD p T).shape.getD k 0) = true := by
      rw [Bool.and_eq_true, decide_eq_true_eq, beq_iff_eq, hext']; exact ⟨hk', h⟩
    rw [if_pos c1, if_pos c2, ttmT_permuteD T hp U hk tr]
    rfl
  · have c1 : ¬ (decide (p.getD k 0 < T.shape.length) && (if tr = true then U.nrows else U.ncols) == T.shape.getD (p.getD k 0) 0) = true := by
      rw [Bool.and_eq_true, decide_eq_true_eq, beq_iff_eq]; exact fun hh => h hh.2
    have c2 : ¬ (decide (k < (permuteD p T).shape.length) && (if tr = true then U.nrows else U.ncols) == (permuteD p T).shape.getD k 0) = true := by
      rw [Bool.and_eq_true, decide_eq_true_eq, beq_iff_eq, hext']; exact fun hh => h hh.2
    rw [if_neg c1, if_neg c2]
    rfl

/-- **The Gram matrix of the mode-`k` unfolding of the relabelled array is the Gram matrix of the mode-`p[k]`
unfolding of the array** (a sum over the other subscripts, in another order). -/
theorem gramMode_permuteD {p : List Nat} (Y : Dense ℝ) (hp : isPermOf p Y.shape.length = true) {k : Nat}
    (hk : k < Y.shape.length) : gramMode (permuteD p Y) k = gramMode Y (p.getD k 0) := by
  have hpl := isPermOf_length_eq hp
  have hext : (gather Y.shape p).getD k 0 = Y.shape.getD (p.getD k 0) 0 :=
    getD_gather _ _ _ (by rw [hpl]; exact hk)
  have hsh : (gather Y.shape p).set k 1 = gather (Y.shape.set (p.getD k 0) 1) p :=
    (gather_set hp Y.shape rfl hk _).symm
  have hp1 : isPermOf p (Y.shape.set (p.getD k 0) 1).length = true := by rw [List.length_set]; exact hp
  unfold gramMode
  simp only [permuteD_shape, hext]
  refine List.map_congr_left fun a ha => List.map_congr_left fun b hb => ?_
  have ha' := List.mem_range.1 ha
  have hb' := List.mem_range.1 hb
  rw [hsh, ← sum_allSubs_relabel hp1]
  congr 1
  refine List.map_congr_left fun j0 hj0 => ?_
  have hj0' := mem_allSubs.1 hj0
  have hjl : j0.length = Y.shape.length := by rw [hj0'.length_eq]; simp [hpl]
  have hin : ∀ c < Y.shape.getD (p.getD k 0) 0, InBounds (gather Y.shape p) (j0.set k c) := by
    intro c hc
    rw [← hsh] at hj0'
    have := inBounds_set (y := (gather Y.shape p).getD k 0) hj0' (b := c) (by rw [hext]; exact hc)
    rwa [set_getD_self] at this
  rw [permuteD_get p Y (hin a ha'), permuteD_get p Y (hin b hb'), unperm_set hp j0 hjl hk, unperm_set hp j0 hjl hk]

/-! ## 3. one pass of the mode loop, the loop -/

/-- what the loop keeps true of its state -/
structure HOK (d : Nat) (st : HState ℝ) : Prop where
  wf : st.Y.WF
  nd : st.Y.shape.length = d
  fl : st.factors.length = d
  rl : st.ranks.length = d

theorem gather_eq_gatherD (l p : List Nat) : gather l p = gatherD l p 0 := rfl

/-- **One pass of `for k in dimorder`**: pass `invPerm p [k]` of the second run in the relabelled state is
pass `k` of the first run, relabelled — the same Gram matrix goes to the same (`c`-th) call of `eigh`, so the same
eigenvalues, the same rank decision, the same factor. -/
theorem hosvdStep_relabel {p : List Nat} {d : Nat} (hp : isPermOf p d = true) (eigh : Nat → Mat ℝ → List ℝ × Mat ℝ)
    (thresh : ℝ) (seq : Bool) {st st1 : HState ℝ} (hst : HOK d st) {k : Nat} (hk : k < d)
    (h : hosvdStep realOps eigh thresh seq st k = .ok st1) :
    hosvdStep realOps eigh thresh seq (relabelH p st) ((invPerm p).getD k 0) = .ok (relabelH p st1) ∧ HOK d st1 := by
  have hpl := isPermOf_length_eq hp
  have hqk := isPermOf_invPerm_getD_lt hp hk
  have hpq : p.getD ((invPerm p).getD k 0) 0 = k := getD_invPerm_getD hp hk
  have hpY : isPermOf p st.Y.shape.length = true := by rw [hst.nd]; exact hp
  have e1 : gramMode (permuteD p st.Y) ((invPerm p).getD k 0) = gramMode st.Y k := by
    rw [gramMode_permuteD st.Y hpY (by rw [hst.nd]; exact hqk), hpq]
  have e2 : (st.trace.map (relabelRec p)).length = st.trace.length := List.length_map _
  have e3 : (gather st.ranks p).getD ((invPerm p).getD k 0) 0 = st.ranks.getD k 0 := by
    rw [getD_gather _ _ _ (by rw [hpl]; exact hqk), hpq]
  have eF : ∀ (x : Mat ℝ), (gatherD st.factors p []).set ((invPerm p).getD k 0) x = gatherD (st.factors.set k x) p [] := by
    intro x
    rw [CpAls.gatherD_set hp st.factors hst.fl [] x hqk, hpq]
  have eR : ∀ (x : Nat), (gather st.ranks p).set ((invPerm p).getD k 0) x = gather (st.ranks.set k x) p := by
    intro x
    rw [gather_eq_gatherD, CpAls.gatherD_set hp st.ranks hst.rl 0 x hqk, hpq]
    rfl
  unfold hosvdStep at h ⊢
  simp only [relabelH] at h ⊢
  rw [e1, e2, e3]
  cases hc : chooseRank realOps thresh
      ((argsortDesc realOps (eigh st.trace.length (gramMode st.Y k)).1).map fun i =>
        (eigh st.trace.length (gramMode st.Y k)).1.getD i 0) (st.ranks.getD k 0) with
  | none => rw [hc] at h; cases h
  | some r =>
    rw [hc] at h
    simp only at h ⊢
    cases seq with
    | true =>
      simp only [if_true] at h ⊢
      rw [ttm_permuteD st.Y hpY _ (by rw [hst.nd]; exact hqk) false, hpq]
      cases ht : ttm st.Y (Mat.transpose (matCols (eigh st.trace.length (gramMode st.Y k)).2
          ((argsortDesc realOps (eigh st.trace.length (gramMode st.Y k)).1).take (Gen.sliceBound r)))) k false with
      | error e => rw [ht] at h; cases h
      | ok Y' =>
        rw [ht] at h
        simp only [Except.ok.injEq] at h
        subst h
        refine ⟨?_, ?_⟩
        · simp only [Except.map, relabelH, eF, eR, List.map_append, List.map_cons, List.map_nil, relabelRec]
        · have hY := (ttm_ok ht).1
          refine ⟨by rw [hY]; exact ttmT_WF _ _ _ _, by rw [hY, ttmT_shape, List.length_set]; exact hst.nd,
            by simp [hst.fl], by simp [hst.rl]⟩
    | false =>
      simp only [Bool.false_eq_true, if_false, Except.ok.injEq] at h ⊢
      subst h
      refine ⟨?_, ⟨hst.wf, hst.nd, by simp [hst.fl], by simp [hst.rl]⟩⟩
      simp only [relabelH, eF, eR, List.map_append, List.map_cons, List.map_nil, relabelRec]

/-- **The mode loop**: over the relabelled mode list, from the relabelled state, it ends in the relabelled state. -/
theorem hosvdFold_relabel {p : List Nat} {d : Nat} (hp : isPermOf p d = true) (eigh : Nat → Mat ℝ → List ℝ × Mat ℝ)
    (thresh : ℝ) (seq : Bool) (order : List Nat) (horder : ∀ k ∈ order, k < d) {st st1 : HState ℝ} (hst : HOK d st)
    (h : order.foldlM (hosvdStep realOps eigh thresh seq) st = .ok st1) :
    (qmap p order).foldlM (hosvdStep realOps eigh thresh seq) (relabelH p st) = .ok (relabelH p st1) ∧ HOK d st1 := by
  induction order generalizing st with
  | nil =>
    simp only [List.foldlM_nil, pure, Except.pure, Except.ok.injEq] at h
    subst h
    exact ⟨rfl, hst⟩
  | cons k rest ih =>
    rw [List.foldlM_cons] at h
    cases hs : hosvdStep realOps eigh thresh seq st k with
    | error e => rw [hs] at h; cases h
    | ok s2 =>
      rw [hs] at h
      obtain ⟨r1, r2⟩ := hosvdStep_relabel hp eigh thresh seq hst (horder k (List.mem_cons_self ..)) hs
      obtain ⟨r3, r4⟩ := ih (fun m hm => horder m (List.mem_cons_of_mem _ hm)) r2 h
      refine ⟨?_, r4⟩
      show ((invPerm p).getD k 0 :: qmap p rest).foldlM _ _ = _
      rw [List.foldlM_cons, r1]
      exact r3

/-! ## 4. the core of the non-sequential variant, the Tucker tensor, the run -/

theorem foldlM_ttm_relabel {p : List Nat} {d : Nat} (hp : isPermOf p d = true) (tr : Bool) :
    ∀ (l : List (Nat × Mat ℝ)) (T : Dense ℝ), T.shape.length = d → (∀ z ∈ l, z.1 < d) →
      (l.map fun z => ((invPerm p).getD z.1 0, z.2)).foldlM (fun Y z => ttm Y z.2 z.1 tr) (permuteD p T) =
        (l.foldlM (fun Y z => ttm Y z.2 z.1 tr) T).map (permuteD p) := by
  intro l
  induction l with
  | nil => intro T _ _; rfl
  | cons z l ih =>
    intro T hT hl
    have hz := hl z (List.mem_cons_self ..)
    have hqz := isPermOf_invPerm_getD_lt hp hz
    rw [List.map_cons, List.foldlM_cons, List.foldlM_cons,
      ttm_permuteD T (by rw [hT]; exact hp) z.2 (by rw [hT]; exact hqz) tr, getD_invPerm_getD hp hz]
    cases ht : ttm T z.2 z.1 tr with
    | error e => rfl
    | ok Y1 =>
      have hY := (ttm_ok ht).1
      exact ih Y1 (by rw [hY, ttmT_shape, List.length_set]; exact hT) (fun z' hz' => hl z' (List.mem_cons_of_mem _ hz'))

/-- a successful chain of products in pairwise distinct modes: every matrix fits its mode of the ORIGINAL array -/
theorem foldlM_ttm_conds (tr : Bool) :
    ∀ (l : List (Nat × Mat ℝ)) (T Y : Dense ℝ), (l.map Prod.fst).Nodup →
      l.foldlM (fun Y z => ttm Y z.2 z.1 tr) T = .ok Y →
      ∀ z ∈ l, z.1 < T.shape.length ∧ (if tr then z.2.nrows else z.2.ncols) = T.shape.getD z.1 0 := by
  intro l
  induction l with
  | nil => intro T Y _ _ z hz; cases hz
  | cons z0 l ih =>
    intro T Y hn h z hz
    simp only [List.map_cons, List.nodup_cons, List.mem_map, not_exists, not_and] at hn
    rw [List.foldlM_cons] at h
    cases ht : ttm T z0.2 z0.1 tr with
    | error e => rw [ht] at h; cases h
    | ok Y1 =>
      rw [ht] at h
      obtain ⟨hY, h1, h2⟩ := ttm_ok ht
      rcases List.mem_cons.1 hz with rfl | hz'
      · exact ⟨h1, h2⟩
      · have := ih Y1 Y hn.2 h z hz'
        have hne : z0.1 ≠ z.1 := fun e => hn.1 z hz' e.symm
        rw [hY, ttmT_shape, List.length_set, CpAls.getD_set_ne _ _ _ hne] at this
        exact this

theorem ttmAll_relabel {p : List Nat} {d : Nat} (hp : isPermOf p d = true) (T G : Dense ℝ) (F : List (Mat ℝ))
    (hT : T.shape.length = d) (hF : F.length = d) (h : ttmAll T F true = .ok G) :
    ttmAll (permuteD p T) (gatherD F p []) true = .ok (permuteD p G) := by
  have hpl := isPermOf_length_eq hp
  -- the first run: which chain of products it is, and that every matrix fits
  unfold ttmAll ttmDims at h
  rw [hT] at h
  by_cases hd : d = 0
  · subst hd; simp [hF] at h
  have c1 : ¬ F.length > d := by omega
  have c2 : ¬ (F.length != d && F.length != (List.range d).length) = true := by simp [hF]
  have c3 : ¬ (List.range d).isEmpty = true := by simpa using hd
  rw [if_neg c1, if_neg c2, if_neg c3, ttmPairs_range] at h
  have hconds := foldlM_ttm_conds true _ T G (ascList_fst_nodup F d) h
  have hG := foldlM_ttm_ok true _ T G h
  -- the chain of the first run in the order of the second
  let l₂ : List (Nat × Mat ℝ) := p.map fun k => (k, F.getD k [])
  have hperm : l₂.Perm (ascList F d) := by
    unfold ascList
    exact (isPermOf_perm hp).symm.map _
  have hn₂ : (l₂.map Prod.fst).Nodup := by
    have : l₂.map Prod.fst = p := by simp [l₂, List.map_map, Function.comp_def]
    rw [this]; exact isPermOf_nodup hp
  have hfold₂ : l₂.foldlM (fun Y z => ttm Y z.2 z.1 true) T = .ok G := by
    rw [foldlM_ttm_succeeds true l₂ T hn₂ (fun z hz => hconds z (hperm.subset hz)), hG,
      ttmFold_perm hperm hn₂ T true]
  -- the second run
  unfold ttmAll ttmDims
  simp only [permuteD_shape, length_gather, hpl, CpAls.length_gatherD]
  rw [if_neg (by omega), if_neg (by simp), if_neg c3, ttmPairs_range]
  have hasc : ascList (gatherD F p []) d = l₂.map fun z => ((invPerm p).getD z.1 0, z.2) := by
    have hl₂ : l₂ = (List.range d).map fun k => (p.getD k 0, F.getD (p.getD k 0) []) := by
      show p.map (fun k => (k, F.getD k [])) = _
      have := congrArg (List.map fun k => (k, F.getD k [])) (CpAls.map_getD_range_perm hp).symm
      rw [this, List.map_map]
      rfl
    rw [hl₂, List.map_map]
    unfold ascList
    refine List.map_congr_left fun k hk => ?_
    have hk' := List.mem_range.1 hk
    simp only [Function.comp]
    rw [CpAls.getD_gatherD _ _ _ (by rw [hpl]; exact hk'), invPerm_getD_getD hp hk']
  rw [hasc, foldlM_ttm_relabel hp true l₂ T hT (fun z hz => by
    simp only [l₂, List.mem_map] at hz
    obtain ⟨k, hk, rfl⟩ := hz
    exact isPermOf_lt_of_mem hp hk), hfold₂]
  rfl

theorem mkTtensor_relabel {p : List Nat} {d : Nat} (hp : isPermOf p d = true) (G : Dense ℝ) (F : List (Mat ℝ))
    (hF : F.length = d) {T : Ttensor ℝ} (h : mkTtensor G F = .ok T) :
    mkTtensor (permuteD p G) (gatherD F p []) = .ok (relabelT p T) := by
  have hpl := isPermOf_length_eq hp
  unfold mkTtensor at h ⊢
  split at h
  · rename_i hc
    simp only [Except.ok.injEq] at h
    subst h
    simp only [Bool.and_eq_true, beq_iff_eq, List.all_eq_true, List.mem_range] at hc
    rw [if_pos]
    · rfl
    · simp only [Bool.and_eq_true, beq_iff_eq, List.all_eq_true, List.mem_range, permuteD_shape, length_gather,
        CpAls.length_gatherD, hpl]
      refine ⟨trivial, fun i hi => ?_⟩
      rw [CpAls.getD_gatherD _ _ _ (by rw [hpl]; exact hi), getD_gather _ _ _ (by rw [hpl]; exact hi)]
      exact hc.2 _ (by rw [hF]; exact isPermOf_getD_lt hp hi)
  · cases h

theorem ranksExceed_relabel {p : List Nat} {d : Nat} (hp : isPermOf p d = true) (r s : List Nat) (hs : s.length = d)
    (h : ranksExceed r s = false) : ranksExceed (gather r p) (gather s p) = false := by
  have hpl := isPermOf_length_eq hp
  unfold ranksExceed at h ⊢
  rw [List.any_eq_false] at h ⊢
  intro k hk
  rw [length_gather, hpl] at hk
  have hk' := List.mem_range.1 hk
  rw [getD_gather _ _ _ (by rw [hpl]; exact hk'), getD_gather _ _ _ (by rw [hpl]; exact hk')]
  exact h _ (List.mem_range.2 (by rw [hs]; exact isPermOf_getD_lt hp hk'))

theorem gatherD_replicate {β : Type} {p : List Nat} {d : Nat} (hp : isPermOf p d = true) (x : β) :
    gatherD (List.replicate d x) p x = List.replicate d x := by
  have hpl := isPermOf_length_eq hp
  have hall : ∀ k : Nat, (List.replicate d x).getD k x = x := by
    intro k
    rw [List.getD_eq_getElem?_getD]
    by_cases hk : k < d
    · simp [hk]
    · simp [List.getElem?_eq_none (show (List.replicate d x).length ≤ k by simpa using Nat.le_of_not_lt hk)]
  unfold gatherD
  rw [List.eq_replicate_iff]
  refine ⟨by simp [hpl], fun y hy => ?_⟩
  simp only [List.mem_map] at hy
  obtain ⟨k, _, rfl⟩ := hy
  exact hall k

/-- **Mode relabelling of HOSVD** (lemma form; see `C18_relabel_hosvd`). -/
theorem hosvdRun_relabel {p : List Nat} (eigh : Nat → Mat ℝ → List ℝ × Mat ℝ) (X : Dense ℝ) (hX : X.WF)
    (hp : isPermOf p X.shape.length = true) (tol : ℝ) (dimorder : Option (List Nat)) (seq : Bool)
    (ranks : Option (List Nat)) {T : Ttensor ℝ} {trace : List (ModeRec ℝ)}
    (h : hosvdRun realOps eigh X tol dimorder seq ranks = .ok (T, trace)) :
    hosvdRun realOps eigh (permuteD p X) tol (some (qmap p (modeOrder dimorder X.shape.length))) seq
        (ranks.map fun r => gather r p) =
      .ok (relabelT p T, trace.map (relabelRec p)) := by
  have hpl := isPermOf_length_eq hp
  unfold hosvdRun at h
  simp only at h
  split at h
  · cases h
  rename_i h1
  split at h
  · cases h
  rename_i h2
  split at h
  · cases h
  rename_i h3
  have h1' : (reqRanks ranks X.shape.length).length = X.shape.length := by simpa using h1
  have h2' : ranksExceed (reqRanks ranks X.shape.length) X.shape = false := by simpa using h2
  have h3' : isPermOf (modeOrder dimorder X.shape.length) X.shape.length = true := by simpa using h3
  cases hf : (modeOrder dimorder X.shape.length).foldlM
      (hosvdStep realOps eigh (Gen.eigsumthresh realOps tol (normSq X) (realOps.ofNat X.shape.length)) seq)
      ⟨X, List.replicate X.shape.length [], reqRanks ranks X.shape.length, []⟩ with
  | error e => rw [hf] at h; cases h
  | ok st =>
    rw [hf] at h
    simp only at h
    have hst0 : HOK X.shape.length ⟨X, List.replicate X.shape.length [], reqRanks ranks X.shape.length, []⟩ :=
      ⟨hX, rfl, by simp, h1'⟩
    obtain ⟨hf', hst⟩ := hosvdFold_relabel hp eigh _ seq _ (fun k hk => isPermOf_lt_of_mem h3' hk) hst0 hf
    -- the second run up to the loop
    have hreq : reqRanks (ranks.map fun r => gather r p) X.shape.length = gather (reqRanks ranks X.shape.length) p := by
      cases ranks with
      | none => exact (gatherD_replicate hp 0).symm
      | some r => rfl
    have hinit : relabelH p ⟨X, List.replicate X.shape.length [], reqRanks ranks X.shape.length, []⟩ =
        ⟨permuteD p X, List.replicate X.shape.length [], gather (reqRanks ranks X.shape.length) p, []⟩ := by
      simp only [relabelH, gatherD_replicate hp, List.map_nil]
    rw [hinit] at hf'
    unfold hosvdRun
    have hmo : ∀ o d, modeOrder (some o) d = o := fun _ _ => rfl
    simp only [permuteD_shape, length_gather, hpl, hreq, hmo, normSq_permuteD X hX hp]
    rw [if_neg (by simp [hpl]), if_neg (by
      rw [ranksExceed_relabel hp _ _ rfl h2']; simp), if_neg (by
      rw [CpAls.isPermOf_qmap hp h3']; simp)]
    rw [hf']
    simp only
    -- the core and the Tucker tensor
    cases hG : (if seq = true then Except.ok st.Y else ttmAll st.Y st.factors true) with
    | error e => rw [hG] at h; cases h
    | ok G =>
      rw [hG] at h
      simp only at h
      have hG' : (if seq = true then Except.ok (relabelH p st).Y else ttmAll (relabelH p st).Y (relabelH p st).factors true) =
          .ok (permuteD p G) := by
        cases seq with
        | true =>
          simp only [if_true, Except.ok.injEq] at hG ⊢
          rw [← hG]; rfl
        | false =>
          simp only [Bool.false_eq_true, if_false] at hG ⊢
          exact ttmAll_relabel hp st.Y G st.factors hst.nd hst.fl hG
      rw [hG']
      simp only
      cases hm : mkTtensor G st.factors with
      | error e => rw [hm] at h; cases h
      | ok T' =>
        rw [hm] at h
        simp only [Except.ok.injEq, Prod.mk.injEq] at h
        obtain ⟨rfl, rfl⟩ := h
        have hm' := mkTtensor_relabel hp G st.factors hst.fl hm
        simp only [relabelH]
        rw [hm']

end Tk
end Pyttb
