/-
C15, Kruskal tensors: `ktensor.symmetrize` keeps the value of a Kruskal tensor that is already symmetric
component by component (`Sym.kaligned` on the normalised copy), for every order, either parity, weights of
either sign or zero, zero columns.  Closed form of the stored result in that case.
-/
import PyttbModel.Ops.SymmetrizeKruskal
import PyttbModel.Lemmas.SymKruskal
import PyttbModel.Lemmas.KruskalBasic
import Mathlib.Algebra.Order.Field.Basic
import Mathlib.Algebra.Order.Ring.Abs
import Mathlib.Algebra.Ring.Parity
import Mathlib.Tactic.Ring
import Mathlib.Tactic.Linarith
import Mathlib.Tactic.FieldSimp
set_option linter.unusedSectionVars false
set_option linter.unusedSimpArgs false
namespace Pyttb
namespace Sym
open List

variable {α : Type}

/-! ### lists -/

theorem getD_map_zero {β : Type} [Zero β] (f : β → β) (hf : f 0 = 0) (l : List β) (k : Nat) :
    (l.map f).getD k 0 = f (l.getD k 0) := by
  by_cases h : k < l.length
  · exact getD_map_of_lt f l k 0 0 h
  · rw [getD_ge _ _ _ (by simpa using h), getD_ge _ _ _ (by omega), hf]

section field
variable [Field α] [LinearOrder α] [IsStrictOrderedRing α]

/-! ### the sign of a factor column against the first factor -/

/-- the instruction list of one pass of the loop: which columns of `A` point against `A0` -/
def flipsOf (A0 : Mat α) (R : Nat) (A : Mat α) : List Bool :=
  (List.range R).map fun j => decide (colDot A0 A j < 0)

/-- `-1` when column `j` of `A` is flipped in the loop, `1` otherwise -/
def ksgn (A0 A : Mat α) (j : Nat) : α := if colDot A0 A j < 0 then -1 else 1

theorem ksgn_mul_self (A0 A : Mat α) (j : Nat) : ksgn A0 A j * ksgn A0 A j = 1 := by
  unfold ksgn; split <;> simp

theorem colDot_eq (A B : Mat α) (j : Nat) :
    colDot A B j = (List.zipWith (· * ·) (A.col j) (B.col j)).sum := by
  unfold colDot Mat.col
  rw [List.zipWith_map]

theorem sum_sq_nonneg (v : List α) : 0 ≤ (v.map fun a => a * a).sum := by
  apply List.sum_nonneg
  intro x hx
  obtain ⟨a, _, rfl⟩ := List.mem_map.1 hx
  exact mul_self_nonneg a

theorem colDot_self_col (A B : Mat α) (j : Nat) (h : B.col j = A.col j) :
    colDot A B j = ((A.col j).map fun a => a * a).sum := by
  rw [colDot_eq, h, List.zipWith_self]

theorem colDot_neg_col (A B : Mat α) (j : Nat) (h : B.col j = (A.col j).map (- ·)) :
    colDot A B j = -((A.col j).map fun a => a * a).sum := by
  rw [colDot_eq, h, List.zipWith_map_right, List.zipWith_self]
  induction A.col j with
  | nil => simp
  | cons a l ih => simp only [List.map_cons, List.sum_cons, ih]; ring

theorem ksgn_self (A0 : Mat α) (j : Nat) : ksgn A0 A0 j = 1 := by
  unfold ksgn
  rw [colDot_self_col A0 A0 j rfl, if_neg (not_lt.2 (sum_sq_nonneg _))]

/-- a column that is ± the first factor's column is `ksgn` times that column, entry by entry
(for every row index, in range or not). -/
theorem aligned_entry (A0 A : Mat α) (j : Nat) (h : colPM A0 A j = true) (k : Nat) :
    Mat.get A k j = ksgn A0 A j * Mat.get A0 k j := by
  rw [Mat.get_eq_col, Mat.get_eq_col]
  unfold colPM at h
  rw [Bool.or_eq_true, beq_iff_eq, beq_iff_eq] at h
  rcases h with h | h
  · unfold ksgn
    rw [colDot_self_col A0 A j h, if_neg (not_lt.2 (sum_sq_nonneg _)), h, one_mul]
  · unfold ksgn
    rw [colDot_neg_col A0 A j h, h, getD_map_zero (- ·) neg_zero]
    by_cases hlt : -((A0.col j).map fun a => a * a).sum < 0
    · rw [if_pos hlt]; ring
    · rw [if_neg hlt]
      have h0 : ((A0.col j).map fun a => a * a).sum = 0 :=
        le_antisymm (by linarith [not_lt.1 hlt]) (sum_sq_nonneg _)
      have hz := sum_eq_zero_of_nonneg _ (by
        intro x hx
        obtain ⟨a, _, rfl⟩ := List.mem_map.1 hx
        exact mul_self_nonneg a) h0
      have hall : ∀ x ∈ A0.col j, x = 0 := by
        intro x hx
        exact mul_self_eq_zero.1 (hz _ (List.mem_map.2 ⟨x, hx, rfl⟩))
      have : (A0.col j).getD k 0 = 0 := by
        by_cases hk : k < (A0.col j).length
        · rw [List.getD_eq_getElem?_getD, List.getElem?_eq_getElem hk]
          exact hall _ (List.getElem_mem hk)
        · exact getD_ge _ _ _ (by omega)
      rw [this]; ring

/-! ### one pass of the loop on an aligned factor -/

theorem Mat.get_of_lt (A : Mat α) (k j : Nat) (hk : k < A.length) (hj : j < A[k].length) :
    Mat.get A k j = A[k][j] := by
  unfold Mat.get
  simp [List.getD_eq_getElem?_getD, hk, hj]

/-- the sign-aligned copy of an aligned factor is the first factor itself. -/
theorem flipCols_aligned (A0 A : Mat α) (R : Nat) (hl : A.length = A0.length)
    (hA0 : ∀ row ∈ A0, row.length = R) (hA : ∀ row ∈ A, row.length = R)
    (hal : ∀ j, j < R → colPM A0 A j = true) : flipCols (flipsOf A0 R A) A = A0 := by
  apply List.ext_getElem (by simp [flipCols, hl])
  intro k h1 h2
  have hk : k < A.length := by simpa [flipCols] using h1
  have hrA : A[k].length = R := hA _ (List.getElem_mem hk)
  have hrA0 : A0[k].length = R := hA0 _ (List.getElem_mem h2)
  simp only [flipCols, List.getElem_map]
  apply List.ext_getElem (by simp [flipsOf, hrA, hrA0])
  intro j hj1 hj2
  have hj : j < R := by rw [← hrA0]; exact hj2
  simp only [List.getElem_zipWith, flipsOf, List.getElem_map, List.getElem_range]
  have he := aligned_entry A0 A j (hal j hj) k
  rw [Mat.get_of_lt A k j hk (by omega), Mat.get_of_lt A0 k j h2 hj2] at he
  rw [he]
  unfold ksgn
  by_cases hlt : colDot A0 A j < 0
  · simp [hlt]
  · simp [hlt]

theorem flipVec_length (R : Nat) (f : Nat → Bool) (w : List α) (hw : w.length = R) :
    (flipVec ((List.range R).map f) w).length = R := by
  simp [flipVec, hw]

theorem flipVec_getD (R : Nat) (f : Nat → Bool) (w : List α) (hw : w.length = R) (j : Nat) (hj : j < R) :
    (flipVec ((List.range R).map f) w).getD j 0 = (if f j then -1 else 1) * w.getD j 0 := by
  have h1 : j < (flipVec ((List.range R).map f) w).length := by rw [flipVec_length R f w hw]; exact hj
  rw [List.getD_eq_getElem?_getD, List.getElem?_eq_getElem h1, List.getD_eq_getElem?_getD,
    List.getElem?_eq_getElem (by omega : j < w.length)]
  simp only [flipVec, List.getElem_zipWith, List.getElem_map, List.getElem_range, Option.getD_some]
  split <;> simp

/-- on aligned factors the loop adds the first factor once per mode and multiplies the weights by
the signs. -/
theorem ksymLoop_aligned (A0 : Mat α) (R : Nat) (hA0 : ∀ row ∈ A0, row.length = R) (rest : List (Mat α))
    (hrest : ∀ A ∈ rest, A.length = A0.length ∧ (∀ row ∈ A, row.length = R) ∧
      ∀ j, j < R → colPM A0 A j = true) (V : Mat α) (w : List α) :
    ksymLoop A0 R V w rest =
      (rest.foldl (fun V _ => matAdd V A0) V, rest.foldl (fun w A => flipVec (flipsOf A0 R A) w) w) := by
  induction rest generalizing V w with
  | nil => rfl
  | cons A rest ih =>
    obtain ⟨h1, h2, h3⟩ := hrest A List.mem_cons_self
    have := flipCols_aligned A0 A R h1 hA0 h2 h3
    unfold flipsOf at this
    simp only [ksymLoop, List.foldl_cons]
    rw [this, ih (fun B hB => hrest B (List.mem_cons_of_mem _ hB))]
    rfl

/-- `c · A`, entry by entry -/
def smulMat (c : α) (A : Mat α) : Mat α := A.map fun row => row.map (c * ·)

theorem smulMat_one (A : Mat α) : smulMat 1 A = A := by
  unfold smulMat
  simp

theorem matAdd_smulMat (c : α) (A : Mat α) : matAdd (smulMat c A) A = smulMat (c + 1) A := by
  unfold matAdd smulMat
  rw [List.zipWith_map_left, List.zipWith_self]
  apply List.map_congr_left
  intro row _
  rw [List.zipWith_map_left, List.zipWith_self]
  apply List.map_congr_left
  intro a _
  ring

theorem foldl_matAdd_smulMat {β : Type} (A0 : Mat α) (rest : List β) (c : α) :
    rest.foldl (fun V _ => matAdd V A0) (smulMat c A0) = smulMat (c + (rest.length : α)) A0 := by
  induction rest generalizing c with
  | nil => simp
  | cons B rest ih =>
    simp only [List.foldl_cons, List.length_cons, Nat.cast_succ]
    rw [matAdd_smulMat, ih]
    congr 1
    ring

theorem smulMat_div (A0 : Mat α) (n : Nat) :
    (smulMat ((n + 1 : Nat) : α) A0).map (fun row => row.map (· / ((n + 1 : Nat) : α))) = A0 := by
  have hn : ((n + 1 : Nat) : α) ≠ 0 := Nat.cast_ne_zero.2 (Nat.succ_ne_zero n)
  unfold smulMat
  rw [List.map_map]
  conv_rhs => rw [← List.map_id A0]
  apply List.map_congr_left
  intro row _
  simp only [Function.comp, List.map_map, id]
  conv_rhs => rw [← List.map_id row]
  apply List.map_congr_left
  intro a _
  simp only [Function.comp, id]
  field_simp

/-- the weights after the loop: each one multiplied by the signs of its column in all modes. -/
theorem foldl_flipVec (A0 : Mat α) (R : Nat) (rest : List (Mat α)) (w : List α) (hw : w.length = R) :
    (rest.foldl (fun w A => flipVec (flipsOf A0 R A) w) w).length = R ∧
    ∀ j, j < R → (rest.foldl (fun w A => flipVec (flipsOf A0 R A) w) w).getD j 0
      = (rest.map fun A => ksgn A0 A j).prod * w.getD j 0 := by
  induction rest generalizing w with
  | nil => simp [hw]
  | cons A rest ih =>
    simp only [List.foldl_cons, List.map_cons, List.prod_cons]
    have hl := flipVec_length R (fun j => decide (colDot A0 A j < 0)) w hw
    obtain ⟨i1, i2⟩ := ih (flipVec (flipsOf A0 R A) w) hl
    refine ⟨i1, ?_⟩
    intro j hj
    rw [i2 j hj]
    unfold flipsOf
    rw [flipVec_getD R _ w hw j hj]
    unfold ksgn
    simp only [decide_eq_true_eq]
    ring

/-! ### the stored result on an aligned normalised copy -/

/-- the hypotheses packed in `kaligned`, as propositions about the first factor `A0`. -/
def AlignedTo (A0 : Mat α) (R : Nat) (A : Mat α) : Prop :=
  A.length = A0.length ∧ (∀ row ∈ A, row.length = R) ∧ ∀ j, j < R → colPM A0 A j = true

theorem kaligned_spec (Kn : Ktensor α) (h : kaligned Kn = true) :
    ∃ A0 rest, Kn.factors = A0 :: rest ∧ ∀ A ∈ A0 :: rest, AlignedTo A0 Kn.weights.length A := by
  unfold kaligned at h
  rw [Bool.and_eq_true, Bool.and_eq_true] at h
  obtain ⟨⟨h1, h2⟩, h3⟩ := h
  cases hf : Kn.factors with
  | nil => rw [hf] at h1; simp at h1
  | cons A0 rest =>
    refine ⟨A0, rest, rfl, ?_⟩
    intro A hA
    unfold kcubicWF at h2
    rw [hf] at h2 h3
    simp only [List.getD_cons_zero] at h2 h3
    rw [List.all_eq_true] at h2 h3
    have a := h2 A hA
    have b := h3 A hA
    rw [Bool.and_eq_true, beq_iff_eq, List.all_eq_true] at a
    rw [List.all_eq_true] at b
    refine ⟨a.1, ?_, ?_⟩
    · intro row hrow
      simpa using a.2 row hrow
    · intro j hj
      exact b j (List.mem_range.2 hj)

theorem kaligned_of_spec (Kn : Ktensor α) (A0 : Mat α) (rest : List (Mat α)) (hf : Kn.factors = A0 :: rest)
    (h : ∀ A ∈ A0 :: rest, AlignedTo A0 Kn.weights.length A) : kaligned Kn = true := by
  unfold kaligned kcubicWF
  rw [hf]
  simp only [List.getD_cons_zero, List.isEmpty_cons, Bool.not_false, Bool.true_and, Bool.and_eq_true,
    List.all_eq_true]
  refine ⟨?_, ?_⟩
  · intro A hA
    obtain ⟨a, b, _⟩ := h A hA
    rw [beq_iff_eq]
    refine ⟨a, ?_⟩
    intro row hrow
    rw [beq_iff_eq]
    exact b row hrow
  · intro A hA j hj
    exact (h A hA).2.2 j (List.mem_range.1 hj)

/-- the weights of the normalised copy after the loop -/
def loopWeights (A0 : Mat α) (rest : List (Mat α)) (w : List α) : List α :=
  rest.foldl (fun w A => flipVec (flipsOf A0 w.length A) w) w

/-- which components the odd-order fix-up negates -/
def oddNeg (N : Nat) (w' : List α) : List Bool :=
  if N % 2 == 1 then w'.map fun x => decide (x < 0) else w'.map fun _ => false

theorem ncols_of_rows (A0 : Mat α) (R : Nat) (hA0 : ∀ row ∈ A0, row.length = R) (hne : A0 ≠ []) :
    A0.ncols = R := by
  cases A0 with
  | nil => exact absurd rfl hne
  | cons r t => simpa [Mat.ncols] using hA0 r List.mem_cons_self

theorem loopWeights_eq (A0 : Mat α) (rest : List (Mat α)) (w : List α) :
    loopWeights A0 rest w = rest.foldl (fun w A => flipVec (flipsOf A0 w.length A) w) w := rfl

theorem foldl_flipVec_congr (A0 : Mat α) (R : Nat) (rest : List (Mat α)) (w : List α) (hw : w.length = R) :
    rest.foldl (fun w A => flipVec (flipsOf A0 w.length A) w) w
      = rest.foldl (fun w A => flipVec (flipsOf A0 R A) w) w := by
  induction rest generalizing w with
  | nil => rfl
  | cons A rest ih =>
    simp only [List.foldl_cons]
    rw [hw]
    exact ih _ (flipVec_length R _ w hw)

/-- **Closed form.**  On an aligned normalised copy with at least one row per factor the routine returns
the first factor of the copy for every mode — with the columns of the components whose weight has become
negative negated when the order is odd — and the weights multiplied by the signs of their columns. -/
theorem ksymmetrizeCore_aligned (w : List α) (A0 : Mat α) (rest : List (Mat α))
    (h : ∀ A ∈ A0 :: rest, AlignedTo A0 w.length A) (hne : A0 ≠ []) :
    ksymmetrizeCore ⟨w, A0 :: rest⟩ =
      ⟨flipVec (oddNeg (rest.length + 1) (loopWeights A0 rest w)) (loopWeights A0 rest w),
       List.replicate (rest.length + 1) (flipCols (oddNeg (rest.length + 1) (loopWeights A0 rest w)) A0)⟩ := by
  have hA0 := (h A0 List.mem_cons_self).2.1
  have hR : A0.ncols = w.length := ncols_of_rows A0 _ hA0 hne
  unfold ksymmetrizeCore
  simp only [List.getD_cons_zero, List.length_cons, List.drop_succ_cons, List.drop_zero]
  rw [hR, ksymLoop_aligned A0 w.length hA0 rest (fun A hA => h A (List.mem_cons_of_mem _ hA))]
  simp only
  have hV : rest.foldl (fun V _ => matAdd V A0) A0 = smulMat (((rest.length + 1 : Nat)) : α) A0 := by
    have := foldl_matAdd_smulMat A0 rest (1 : α)
    rw [smulMat_one] at this
    rw [this]
    congr 1
    push_cast
    ring
  rw [hV, smulMat_div, loopWeights_eq, foldl_flipVec_congr A0 w.length rest w rfl]
  rfl

/-! ### the array of the result -/

theorem flipVec_length' (flips : List Bool) (w : List α) (h : flips.length = w.length) :
    (flipVec flips w).length = w.length := by
  simp [flipVec, h]

theorem flipVec_getD' (flips : List Bool) (w : List α) (h : flips.length = w.length) (j : Nat)
    (hj : j < w.length) :
    (flipVec flips w).getD j 0 = (if flips.getD j false then -1 else 1) * w.getD j 0 := by
  have h1 : j < (flipVec flips w).length := by rw [flipVec_length' flips w h]; exact hj
  have h2 : j < flips.length := by omega
  unfold flipVec at h1 ⊢
  simp only [List.getD_eq_getElem?_getD, List.getElem?_eq_getElem h1, List.getElem?_eq_getElem hj,
    List.getElem?_eq_getElem h2, Option.getD_some, List.getElem_zipWith]
  split <;> simp

theorem Mat.get_flipCols (neg : List Bool) (A0 : Mat α) (R : Nat) (hA0 : ∀ row ∈ A0, row.length = R)
    (hneg : neg.length = R) (k r : Nat) (hr : r < R) :
    Mat.get (flipCols neg A0) k r = (if neg.getD r false then -1 else 1) * Mat.get A0 k r := by
  unfold flipCols
  rw [Mat.get_map_rows _ _ (by simp)]
  by_cases hk : k < A0.length
  · have hrow : (A0.getD k []).length = R := by
      rw [List.getD_eq_getElem?_getD, List.getElem?_eq_getElem hk]
      exact hA0 _ (List.getElem_mem hk)
    have := flipVec_getD' neg (A0.getD k []) (by rw [hneg, hrow]) r (by rw [hrow]; exact hr)
    unfold flipVec at this
    rw [this]
    rfl
  · have hk' : A0.length ≤ k := by omega
    have e : Mat.get A0 k r = 0 := by unfold Mat.get; rw [getD_ge A0 k [] hk']; rfl
    rw [getD_ge A0 k [] hk', e]
    simp

theorem prod_zipWith_sign (A0 : Mat α) (s : Mat α → α) (r : Nat) (fs : List (Mat α)) (i : List Nat)
    (hi : i.length = fs.length) (h : ∀ A ∈ fs, ∀ k, Mat.get A k r = s A * Mat.get A0 k r) :
    (List.zipWith (fun A ik => Mat.get A ik r) fs i).prod
      = (fs.map s).prod * (i.map fun ik => Mat.get A0 ik r).prod := by
  induction fs generalizing i with
  | nil =>
    have : i = [] := List.eq_nil_of_length_eq_zero (by simpa using hi)
    subst this
    simp
  | cons A fs ih =>
    cases i with
    | nil => simp at hi
    | cons j i =>
      simp only [List.zipWith_cons_cons, List.prod_cons, List.map_cons]
      rw [ih i (by simpa using hi) (fun B hB => h B (List.mem_cons_of_mem _ hB)), h A List.mem_cons_self j]
      ring

theorem prod_map_const_mul (u : α) (f : Nat → α) (i : List Nat) :
    (i.map fun ik => u * f ik).prod = u ^ i.length * (i.map f).prod := by
  induction i with
  | nil => simp
  | cons j i ih => simp only [List.map_cons, List.prod_cons, List.length_cons, ih, pow_succ]; ring

theorem comp_replicate (w' : List α) (V : Mat α) (n r : Nat) (i : List Nat) (hi : i.length = n) :
    (⟨w', List.replicate n V⟩ : Ktensor α).comp r i = (i.map fun ik => Mat.get V ik r).prod := by
  unfold Ktensor.comp
  simp only
  rw [← hi, zipWith_replicate_left']

theorem oddNeg_length (N : Nat) (w' : List α) : (oddNeg N w').length = w'.length := by
  unfold oddNeg; split <;> simp

theorem oddNeg_sign (N : Nat) (w' : List α) (r : Nat) :
    (if (oddNeg N w').getD r false then (-1 : α) else 1) = 1 ∨
    ((if (oddNeg N w').getD r false then (-1 : α) else 1) = -1 ∧ N % 2 = 1) := by
  unfold oddNeg
  by_cases hN : (N % 2 == 1) = true
  · rw [if_pos hN]
    have hN' : N % 2 = 1 := by simpa using hN
    by_cases hb : (w'.map fun x => decide (x < 0)).getD r false = true
    · right; rw [if_pos hb]; exact ⟨rfl, hN'⟩
    · left; rw [if_neg hb]
  · rw [if_neg hN]
    left
    have : (w'.map fun _ => false).getD r false = false := by
      by_cases hr : r < w'.length
      · rw [getD_map_of_lt _ _ _ 0 _ hr]
      · exact getD_ge _ _ _ (by simpa using hr)
    rw [this]
    simp

/-- **Value.**  On an aligned normalised copy (at least one row per factor) the result denotes the array the
copy denotes. -/
theorem ksymmetrizeCore_get_of_aligned_rows (w : List α) (A0 : Mat α) (rest : List (Mat α))
    (h : ∀ A ∈ A0 :: rest, AlignedTo A0 w.length A) (hne : A0 ≠ []) (i : List Nat)
    (hi : i.length = rest.length + 1) :
    (ksymmetrizeCore ⟨w, A0 :: rest⟩).get i = (⟨w, A0 :: rest⟩ : Ktensor α).get i := by
  have hA0 := (h A0 List.mem_cons_self).2.1
  rw [ksymmetrizeCore_aligned w A0 rest h hne]
  obtain ⟨hl, hw'⟩ := foldl_flipVec A0 w.length rest w rfl
  rw [← foldl_flipVec_congr A0 w.length rest w rfl, ← loopWeights_eq] at hl hw'
  have hnl := oddNeg_length (rest.length + 1) (loopWeights A0 rest w)
  apply Ktensor.get_congr i
  · simp only [Ktensor.ncomp]
    rw [flipVec_length' _ _ hnl, hl]
  · intro r hr
    simp only [Ktensor.ncomp] at hr
    rw [flipVec_getD' _ _ hnl r (by rw [hl]; exact hr), hw' r hr, comp_replicate _ _ _ _ _ hi]
    have e1 : ∀ ik, Mat.get (flipCols (oddNeg (rest.length + 1) (loopWeights A0 rest w)) A0) ik r
        = (if (oddNeg (rest.length + 1) (loopWeights A0 rest w)).getD r false then -1 else 1) * Mat.get A0 ik r :=
      fun ik => Mat.get_flipCols _ A0 w.length hA0 (by rw [hnl, hl]) ik r hr
    simp only [e1]
    rw [prod_map_const_mul, hi]
    have e2 : (⟨w, A0 :: rest⟩ : Ktensor α).comp r i
        = ((A0 :: rest).map fun A => ksgn A0 A r).prod * (i.map fun ik => Mat.get A0 ik r).prod := by
      unfold Ktensor.comp
      exact prod_zipWith_sign A0 (fun A => ksgn A0 A r) r (A0 :: rest) i (by simpa using hi)
        (fun A hA k => aligned_entry A0 A r ((h A hA).2.2 r hr) k)
    rw [e2]
    simp only [List.map_cons, List.prod_cons, ksgn_self, one_mul]
    rcases oddNeg_sign (rest.length + 1) (loopWeights A0 rest w) r with hu | ⟨hu, hodd⟩
    · rw [hu]; simp only [one_pow, one_mul]; ring
    · rw [hu]
      have ho : Odd (rest.length + 1) := Nat.odd_iff.2 hodd
      rw [ho.neg_one_pow]
      ring

/-! ### factors without rows -/

theorem ksymmetrizeCore_eq (Kn : Ktensor α) :
    ksymmetrizeCore Kn =
      ⟨flipVec (oddNeg Kn.factors.length
          (ksymLoop (Kn.factors.getD 0 []) (Kn.factors.getD 0 []).ncols (Kn.factors.getD 0 []) Kn.weights
            (Kn.factors.drop 1)).2)
        (ksymLoop (Kn.factors.getD 0 []) (Kn.factors.getD 0 []).ncols (Kn.factors.getD 0 []) Kn.weights
            (Kn.factors.drop 1)).2,
       List.replicate Kn.factors.length (flipCols (oddNeg Kn.factors.length
          (ksymLoop (Kn.factors.getD 0 []) (Kn.factors.getD 0 []).ncols (Kn.factors.getD 0 []) Kn.weights
            (Kn.factors.drop 1)).2)
         ((ksymLoop (Kn.factors.getD 0 []) (Kn.factors.getD 0 []).ncols (Kn.factors.getD 0 []) Kn.weights
            (Kn.factors.drop 1)).1.map fun row => row.map (· / (Kn.factors.length : α))))⟩ := rfl

theorem ksymLoop_nil_fst (fm0 : Mat α) (R : Nat) (w : List α) (rest : List (Mat α)) :
    (ksymLoop fm0 R [] w rest).1 = [] := by
  induction rest generalizing w with
  | nil => rfl
  | cons A rest ih =>
    simp only [ksymLoop, matAdd, List.zipWith_nil_left]
    exact ih _

/-- a Kruskal tensor of order >= 1 whose first factor has no rows denotes the zero function. -/
theorem get_eq_zero_of_first_empty (K : Ktensor α) (hN : 0 < K.factors.length)
    (h0 : K.factors.getD 0 [] = []) (i : List Nat) (hi : i.length = K.factors.length) : K.get i = 0 := by
  unfold Ktensor.get
  apply List.sum_eq_zero
  intro x hx
  obtain ⟨r, _, rfl⟩ := List.mem_map.1 hx
  rw [Ktensor.comp_eq_zero K 0 r i hN hi (by rw [h0]; rfl), mul_zero]

theorem ksymmetrizeCore_get_of_empty (Kn : Ktensor α) (hN : 0 < Kn.factors.length)
    (h0 : Kn.factors.getD 0 [] = []) (i : List Nat) (hi : i.length = Kn.factors.length) :
    (ksymmetrizeCore Kn).get i = Kn.get i := by
  rw [get_eq_zero_of_first_empty Kn hN h0 i hi]
  apply get_eq_zero_of_first_empty
  · rw [ksymmetrizeCore_eq]; simpa using hN
  · rw [ksymmetrizeCore_eq]
    simp only [h0, ksymLoop_nil_fst]
    obtain ⟨n, hn⟩ := Nat.exists_eq_succ_of_ne_zero (Nat.pos_iff_ne_zero.1 hN)
    rw [hn]
    simp [List.replicate_succ, flipCols]
  · rw [ksymmetrizeCore_eq]; simpa using hi

/-- **Value, every case.**  When the normalised copy passes `kaligned`, the result of the routine denotes
the array the copy denotes. -/
theorem ksymmetrizeCore_get_of_aligned (Kn : Ktensor α) (h : kaligned Kn = true) (i : List Nat)
    (hi : i.length = Kn.factors.length) : (ksymmetrizeCore Kn).get i = Kn.get i := by
  obtain ⟨A0, rest, hf, hal⟩ := kaligned_spec Kn h
  by_cases hne : A0 = []
  · exact ksymmetrizeCore_get_of_empty Kn (by rw [hf]; simp) (by rw [hf, hne]; rfl) i hi
  · have hK : Kn = ⟨Kn.weights, A0 :: rest⟩ := by cases Kn; simp_all
    rw [hK]
    rw [hf] at hi
    exact ksymmetrizeCore_get_of_aligned_rows Kn.weights A0 rest hal hne i (by simpa using hi)

end field
end Sym
end Pyttb
