/-
C14: the post-processing of `nvecs` (order by `-|w|`, first `r`, sign rule) relative to the
contract of the eigen-solver service.
-/
import PyttbModel.Lemmas.NvecsBasic
import Mathlib.Algebra.Order.Ring.Abs
import Mathlib.Algebra.Order.Field.Basic
import Mathlib.Algebra.Order.BigOperators.Ring.Finset
import Mathlib.Tactic.Linarith
namespace Pyttb

open Finset

variable {α : Type}

/-! ### magnitudes and the ordering permutation -/

theorem absM_eq_abs [Field α] [LinearOrder α] [IsStrictOrderedRing α] (x : α) : absM x = |x| := by
  unfold absM
  split
  · rename_i h; rw [abs_of_neg h]
  · rename_i h; rw [abs_of_nonneg (not_lt.1 h)]

theorem argsortDescAbs_perm [LT α] [DecidableLT α] [Neg α] [Zero α] (w : List α) :
    (argsortDescAbs w).Perm (List.range w.length) := List.mergeSort_perm _ _

theorem length_argsortDescAbs [LT α] [DecidableLT α] [Neg α] [Zero α] (w : List α) :
    (argsortDescAbs w).length = w.length := by
  rw [(argsortDescAbs_perm w).length_eq, List.length_range]

theorem argsortDescAbs_nodup [LT α] [DecidableLT α] [Neg α] [Zero α] (w : List α) :
    (argsortDescAbs w).Nodup := (argsortDescAbs_perm w).nodup_iff.2 List.nodup_range

theorem argsortDescAbs_lt [LT α] [DecidableLT α] [Neg α] [Zero α] (w : List α) (k : Nat) (hk : k < w.length) :
    (argsortDescAbs w).getD k 0 < w.length := by
  have hl := length_argsortDescAbs w
  rw [List.getD_eq_getElem?_getD, List.getElem?_eq_getElem (by rw [hl]; exact hk), Option.getD_some]
  have := (argsortDescAbs_perm w).mem_iff.1 (List.getElem_mem (by rw [hl]; exact hk))
  exact List.mem_range.1 this

/-- distinct positions of the ordering permutation hold distinct indices. -/
theorem argsortDescAbs_inj [LT α] [DecidableLT α] [Neg α] [Zero α] (w : List α) (j k : Nat)
    (hj : j < w.length) (hk : k < w.length)
    (h : (argsortDescAbs w).getD j 0 = (argsortDescAbs w).getD k 0) : j = k := by
  have hl := length_argsortDescAbs w
  rw [List.getD_eq_getElem?_getD, List.getD_eq_getElem?_getD,
    List.getElem?_eq_getElem (by rw [hl]; exact hj), List.getElem?_eq_getElem (by rw [hl]; exact hk)] at h
  simp only [Option.getD_some] at h
  exact (List.Nodup.getElem_inj_iff (argsortDescAbs_nodup w)).1 h

/-- the ordering permutation lists the eigenvalues by decreasing magnitude. -/
theorem argsortDescAbs_sorted [Field α] [LinearOrder α] [IsStrictOrderedRing α] (w : List α) (k l : Nat)
    (hkl : k ≤ l) (hl : l < w.length) :
    |w.getD ((argsortDescAbs w).getD l 0) 0| ≤ |w.getD ((argsortDescAbs w).getD k 0) 0| := by
  rcases Nat.eq_or_lt_of_le hkl with h | h
  · subst h; exact le_refl _
  have hlen := length_argsortDescAbs w
  have hpw := List.pairwise_mergeSort
    (le := fun i j => !(decide (absM (w.getD i 0) < absM (w.getD j 0))))
    (by
      intro a b c hab hbc
      simp only [Bool.not_eq_true', decide_eq_false_iff_not, not_lt] at hab hbc ⊢
      exact le_trans hbc hab)
    (by
      intro a b
      simp only [Bool.or_eq_true, Bool.not_eq_true', decide_eq_false_iff_not, not_lt]
      exact le_total _ _)
    (List.range w.length)
  rw [List.pairwise_iff_getElem] at hpw
  have := hpw k l (by change k < (argsortDescAbs w).length; omega)
    (by change l < (argsortDescAbs w).length; omega) h
  simp only [Bool.not_eq_true', decide_eq_false_iff_not, not_lt] at this
  rw [absM_eq_abs, absM_eq_abs] at this
  have e : ∀ t (ht : t < (argsortDescAbs w).length), (argsortDescAbs w).getD t 0 = (argsortDescAbs w)[t] := by
    intro t ht; simp [List.getD_eq_getElem?_getD, ht]
  rw [e k (by omega), e l (by omega)]
  exact this

/-! ### entries after column selection -/

theorem getD_take {β : Type} (l : List β) (r k : Nat) (d : β) (hk : k < r) : (l.take r).getD k d = l.getD k d := by
  simp [List.getD_eq_getElem?_getD, hk]

theorem length_takeCols_permCols [Zero α] (V : Mat α) (p : List Nat) (r : Nat) :
    (takeCols (permCols V p) r).length = V.length := by simp [takeCols, permCols]

theorem rows_takeCols_permCols [Zero α] (V : Mat α) (p : List Nat) (r : Nat) (hr : r ≤ p.length) :
    ∀ row ∈ takeCols (permCols V p) r, row.length = r := by
  intro row h
  simp only [takeCols, permCols, List.map_map, List.mem_map] at h
  obtain ⟨x, _, rfl⟩ := h
  simp [gatherD, hr]

/-- `v[:, p][:, :r]` entry-wise. -/
theorem get_takeCols_permCols [Zero α] (V : Mat α) (p : List Nat) (r i k : Nat) (hi : i < V.length)
    (hk : k < r) (hr : r ≤ p.length) :
    (takeCols (permCols V p) r).get i k = V.get i (p.getD k 0) := by
  unfold takeCols permCols Mat.get
  rw [List.map_map, getD_map (d := []) _ _ _ _ hi]
  simp only [Function.comp]
  rw [getD_take _ _ _ _ hk]
  unfold gatherD
  rw [getD_map (d := 0) _ _ _ _ (by omega)]

/-! ### the sign rule -/

theorem argmaxAbs_go_spec [Field α] [LinearOrder α] [IsStrictOrderedRing α] (col : List α) :
    ∀ (ys : List α) (k bi : Nat) (best : α), col.drop k = ys → bi < k → k ≤ col.length →
      best = |col.getD bi 0| → (∀ i, i < k → |col.getD i 0| ≤ best) →
      argmaxAbs.go best bi k ys < col.length ∧
        ∀ i, i < col.length → |col.getD i 0| ≤ |col.getD (argmaxAbs.go best bi k ys) 0| := by
  intro ys
  induction ys with
  | nil =>
    intro k bi best hd hbi hk hbest hall
    have hkl : k = col.length := by
      have := congrArg List.length hd
      simp at this; omega
    refine ⟨by simp [argmaxAbs.go]; omega, ?_⟩
    intro i hi
    simp only [argmaxAbs.go]
    rw [← hbest]
    exact hall i (by omega)
  | cons y ys ih =>
    intro k bi best hd hbi hk hbest hall
    have hklt : k < col.length := by
      have := congrArg List.length hd
      simp at this; omega
    have hy : col.getD k 0 = y := by
      have h0 := congrArg (fun l => l.getD 0 0) hd
      simpa [List.getD_eq_getElem?_getD, hklt] using h0
    have hd' : col.drop (k + 1) = ys := by
      have := congrArg List.tail hd
      simpa using this
    simp only [argmaxAbs.go]
    split
    · rename_i hlt
      rw [absM_eq_abs] at hlt ⊢
      apply ih (k + 1) k |y| hd' (by omega) (by omega) (by rw [hy])
      intro i hi
      rcases Nat.lt_succ_iff_lt_or_eq.1 hi with h | h
      · exact le_of_lt (lt_of_le_of_lt (hall i h) hlt)
      · rw [h, hy]
    · rename_i hlt
      rw [absM_eq_abs] at hlt
      apply ih (k + 1) bi best hd' (by omega) (by omega) hbest
      intro i hi
      rcases Nat.lt_succ_iff_lt_or_eq.1 hi with h | h
      · exact hall i h
      · rw [h, hy]; exact not_lt.1 hlt

/-- `np.argmax(np.abs(col))` points at an entry of largest magnitude. -/
theorem argmaxAbs_spec [Field α] [LinearOrder α] [IsStrictOrderedRing α] (col : List α) (h : 0 < col.length) :
    argmaxAbs col < col.length ∧ ∀ i, i < col.length → |col.getD i 0| ≤ |col.getD (argmaxAbs col) 0| := by
  cases col with
  | nil => simp at h
  | cons x xs =>
    simp only [argmaxAbs]
    rw [absM_eq_abs]
    apply argmaxAbs_go_spec (x :: xs) xs 1 0 |x| (by simp) (by omega) (by simp) (by simp)
    intro i hi
    have : i = 0 := by omega
    subst this
    simp

/-- the sign of column `k` chosen by the `flipsign` block. -/
def flipOf [LT α] [DecidableLT α] [Neg α] [Zero α] (V : Mat α) (k : Nat) : Bool :=
  let col := V.map fun row => row.getD k 0
  decide (col.getD (argmaxAbs col) 0 < 0)

theorem length_flipSigns [LT α] [DecidableLT α] [Neg α] [Zero α] (V : Mat α) : (flipSigns V).length = V.length := by
  simp [flipSigns]

theorem rows_flipSigns [LT α] [DecidableLT α] [Neg α] [Zero α] (V : Mat α) (r : Nat)
    (hV : ∀ row ∈ V, row.length = r) : ∀ row ∈ flipSigns V, row.length = r := by
  intro row h
  simp only [flipSigns, List.mem_map] at h
  obtain ⟨x, hx, rfl⟩ := h
  have h0 : (V.getD 0 []).length = r := by
    cases V with
    | nil => simp at hx
    | cons a V => simpa using hV a (by simp)
  have h0' : (V[0]?.getD []).length = r := by rw [← List.getD_eq_getElem?_getD]; exact h0
  simp [hV x hx, h0']

theorem getD_zipWith_flip [Neg α] [Zero α] (row : List α) (flips : List Bool) (k : Nat) (hk : k < row.length)
    (hk2 : k < flips.length) :
    (List.zipWith (fun x (f : Bool) => if f then -x else x) row flips).getD k 0 =
      if flips.getD k false then - row.getD k 0 else row.getD k 0 := by
  simp [List.getD_eq_getElem?_getD, hk, hk2]

theorem get_flipSigns [LT α] [DecidableLT α] [Neg α] [Zero α] (V : Mat α) (r i k : Nat)
    (hV : ∀ row ∈ V, row.length = r) (hi : i < V.length) (hk : k < r) :
    (flipSigns V).get i k = if flipOf V k then - V.get i k else V.get i k := by
  have h0 : (V.getD 0 []).length = r := getD_row_length hV 0 (by omega)
  have hrow : (V.getD i []).length = r := getD_row_length hV i hi
  unfold flipSigns Mat.get
  rw [getD_map (d := []) _ _ _ _ hi, h0, getD_zipWith_flip _ _ k (by rw [hrow]; exact hk) (by simp [hk]),
    getD_map_range _ _ _ _ hk]
  rfl

/-- After the `flipsign` block every column has an entry that equals the column's largest
magnitude (so an entry of largest magnitude is non-negative, positive unless the column is zero). -/
theorem flipSigns_rule [Field α] [LinearOrder α] [IsStrictOrderedRing α] (V : Mat α) (r k : Nat)
    (hV : ∀ row ∈ V, row.length = r) (hm : 0 < V.length) (hk : k < r) :
    ∃ idx, idx < V.length ∧ ∀ i, i < V.length → |(flipSigns V).get i k| ≤ (flipSigns V).get idx k := by
  set col := V.map fun row => row.getD k 0 with hcol
  have hcl : col.length = V.length := by simp [hcol]
  obtain ⟨h1, h2⟩ := argmaxAbs_spec col (by omega)
  have hget : ∀ i, i < V.length → col.getD i 0 = V.get i k := by
    intro i hi
    rw [hcol, getD_map (d := []) _ _ _ _ hi]; rfl
  refine ⟨argmaxAbs col, by omega, ?_⟩
  intro i hi
  have hidx : argmaxAbs col < V.length := by omega
  rw [get_flipSigns V r i k hV hi hk, get_flipSigns V r _ k hV hidx hk]
  have hle := h2 i (by omega)
  rw [hget i hi, hget _ hidx] at hle
  have hf : flipOf V k = decide (V.get (argmaxAbs col) k < 0) := by
    unfold flipOf
    simp only [← hcol]
    rw [hget _ hidx]
  rw [hf]
  by_cases hneg : V.get (argmaxAbs col) k < 0
  · simp only [hneg, decide_true, if_true, abs_neg]
    rw [abs_of_neg hneg] at hle
    exact hle
  · simp only [hneg, decide_false, Bool.false_eq_true, if_false]
    rw [abs_of_nonneg (not_lt.1 hneg)] at hle
    exact hle

/-! ### the result relative to the service contract -/

/-- every entry of the result is `± V[i, p[k]]`, with one sign per column. -/
theorem nvecsPost_entry [Field α] [LinearOrder α] [IsStrictOrderedRing α] (w : List α) (V : Mat α)
    (m K r : Nat) (flip : Bool) (hw : w.length = K) (hrows : V.length = m) (hr : r ≤ K) :
    (nvecsPost w V r flip).length = m ∧ (∀ row ∈ nvecsPost w V r flip, row.length = r) ∧
    ∃ σ : Nat → α, (∀ k, σ k * σ k = 1) ∧
      ∀ i k, i < m → k < r → (nvecsPost w V r flip).get i k = σ k * V.get i ((argsortDescAbs w).getD k 0) := by
  set p := argsortDescAbs w with hp
  have hpl : p.length = K := by rw [hp, length_argsortDescAbs, hw]
  set R0 := takeCols (permCols V p) r with hR0
  have hR0l : R0.length = m := by rw [hR0, length_takeCols_permCols, hrows]
  have hR0r : ∀ row ∈ R0, row.length = r := rows_takeCols_permCols V p r (by omega)
  have hR0g : ∀ i k, i < m → k < r → R0.get i k = V.get i (p.getD k 0) := by
    intro i k hi hk
    exact get_takeCols_permCols V p r i k (by omega) hk (by omega)
  unfold nvecsPost
  simp only [← hp, ← hR0]
  cases flip with
  | false =>
    refine ⟨hR0l, hR0r, fun _ => 1, by simp, ?_⟩
    intro i k hi hk
    simp [hR0g i k hi hk]
  | true =>
    simp only [if_true]
    refine ⟨by rw [length_flipSigns, hR0l], rows_flipSigns R0 r hR0r,
      fun k => if flipOf R0 k then -1 else 1, ?_, ?_⟩
    · intro k
      by_cases h : flipOf R0 k = true <;> simp [h]
    · intro i k hi hk
      rw [get_flipSigns R0 r i k hR0r (by omega) hk, hR0g i k hi hk]
      by_cases h : flipOf R0 k = true <;> simp [h]

theorem nvecsPost_contract [Field α] [LinearOrder α] [IsStrictOrderedRing α] (G V : Mat α) (w : List α)
    (m K r : Nat) (flip : Bool) (hc : EigContract G m K w V) (hr : r ≤ K) :
    (argsortDescAbs w).Perm (List.range K) ∧
    (nvecsPost w V r flip).length = m ∧ (∀ row ∈ nvecsPost w V r flip, row.length = r) ∧
    OrthonormalCols (nvecsPost w V r flip) m r ∧
    (∀ k, k < r → IsEigCol G (nvecsPost w V r flip) m k (w.getD ((argsortDescAbs w).getD k 0) 0)) ∧
    (∀ k l, k ≤ l → l < K →
      |w.getD ((argsortDescAbs w).getD l 0) 0| ≤ |w.getD ((argsortDescAbs w).getD k 0) 0|) := by
  obtain ⟨h1, h2, σ, hσ, hent⟩ := nvecsPost_entry w V m K r flip hc.wlen hc.rows hr
  have hplt : ∀ k, k < K → (argsortDescAbs w).getD k 0 < K := by
    intro k hk
    have := argsortDescAbs_lt w k (by rw [hc.wlen]; exact hk)
    rwa [hc.wlen] at this
  refine ⟨by have := argsortDescAbs_perm w; rwa [hc.wlen] at this, h1, h2, ?_, ?_, ?_⟩
  · intro j k hj hk
    unfold colDot
    rw [sum_map_range]
    have : ∑ i ∈ range m, (nvecsPost w V r flip).get i j * (nvecsPost w V r flip).get i k =
        σ j * σ k * ∑ i ∈ range m, V.get i ((argsortDescAbs w).getD j 0) * V.get i ((argsortDescAbs w).getD k 0) := by
      rw [Finset.mul_sum]
      apply Finset.sum_congr rfl
      intro i hi
      rw [hent i j (Finset.mem_range.1 hi) hj, hent i k (Finset.mem_range.1 hi) hk]
      ring
    rw [this]
    have ho := hc.ortho _ _ (hplt j (by omega)) (hplt k (by omega))
    unfold colDot at ho
    rw [sum_map_range] at ho
    rw [ho]
    by_cases hjk : j = k
    · subst hjk; simp [hσ j]
    · have : (argsortDescAbs w).getD j 0 ≠ (argsortDescAbs w).getD k 0 := by
        intro h
        exact hjk (argsortDescAbs_inj w j k (by rw [hc.wlen]; omega) (by rw [hc.wlen]; omega) h)
      rw [if_neg this, if_neg hjk, mul_zero]
  · intro k hk i hi
    unfold mulCol
    rw [sum_map_range]
    have he := hc.eig _ (hplt k (by omega)) i hi
    unfold mulCol at he
    rw [sum_map_range] at he
    rw [hent i k hi hk]
    calc ∑ l ∈ range m, G.get i l * (nvecsPost w V r flip).get l k
        = σ k * ∑ l ∈ range m, G.get i l * V.get l ((argsortDescAbs w).getD k 0) := by
          rw [Finset.mul_sum]
          apply Finset.sum_congr rfl
          intro l hl
          rw [hent l k (Finset.mem_range.1 hl) hk]; ring
      _ = _ := by rw [he]; ring
  · intro k l hkl hl
    exact argsortDescAbs_sorted w k l hkl (by rw [hc.wlen]; exact hl)

/-- eigenvalues of a Gram matrix `X Xᵀ` that come with a unit eigenvector are non-negative. -/
theorem gram_eigenvalue_nonneg [Field α] [LinearOrder α] [IsStrictOrderedRing α] (X V : Mat α) (m P k : Nat)
    (lam : α) (hX : X.length = m) (hXr : ∀ row ∈ X, row.length = P)
    (he : IsEigCol (matMulT X X) V m k lam) (hu : colDot V m k k = 1) : 0 ≤ lam := by
  have hG : ∀ i l, i < m → l < m → (matMulT X X).get i l = ∑ c ∈ range P, X.get i c * X.get l c := by
    intro i l hi hl
    exact get_matMulT_sum X X P i l hXr hXr (by omega) (by omega)
  have h1 : lam = ∑ i ∈ range m, V.get i k * (lam * V.get i k) := by
    unfold colDot at hu
    rw [sum_map_range] at hu
    calc lam = lam * ∑ i ∈ range m, V.get i k * V.get i k := by rw [hu, mul_one]
      _ = _ := by rw [Finset.mul_sum]; apply Finset.sum_congr rfl; intro i _; ring
  have h2 : ∑ i ∈ range m, V.get i k * (lam * V.get i k) =
      ∑ c ∈ range P, (∑ i ∈ range m, V.get i k * X.get i c) * (∑ i ∈ range m, V.get i k * X.get i c) := by
    calc ∑ i ∈ range m, V.get i k * (lam * V.get i k)
        = ∑ i ∈ range m, ∑ l ∈ range m, ∑ c ∈ range P, (V.get i k * X.get i c) * (V.get l k * X.get l c) := by
          apply Finset.sum_congr rfl
          intro i hi
          have := he i (Finset.mem_range.1 hi)
          unfold mulCol at this
          rw [sum_map_range] at this
          rw [← this, Finset.mul_sum]
          apply Finset.sum_congr rfl
          intro l hl
          rw [hG i l (Finset.mem_range.1 hi) (Finset.mem_range.1 hl), Finset.sum_mul, Finset.mul_sum]
          apply Finset.sum_congr rfl
          intro c _
          ring
      _ = ∑ c ∈ range P, ∑ i ∈ range m, ∑ l ∈ range m, (V.get i k * X.get i c) * (V.get l k * X.get l c) := by
          have : ∀ i ∈ range m, ∑ l ∈ range m, ∑ c ∈ range P, (V.get i k * X.get i c) * (V.get l k * X.get l c) =
              ∑ c ∈ range P, ∑ l ∈ range m, (V.get i k * X.get i c) * (V.get l k * X.get l c) := by
            intro i _; rw [Finset.sum_comm]
          rw [Finset.sum_congr rfl this, Finset.sum_comm]
      _ = _ := by
          apply Finset.sum_congr rfl
          intro c _
          rw [Finset.sum_mul_sum]
  rw [h1, h2]
  apply Finset.sum_nonneg
  intro c _
  exact mul_self_nonneg _

/-- everything after the Gram matrix, for the representations that use the column ordering on both
paths (`tensor`, `ktensor`, `ttensor`), and for `sptensor` on the iterative path. -/
theorem nvecsFromGram_contract [Field α] [LinearOrder α] [IsStrictOrderedRing α] (svc : EigService α)
    (sparseRep : Bool) (y : Mat α) (m r : Nat) (flip : Bool) (hy : y.length = m) (hr : r ≤ m)
    (hpath : sparseRep = true → nvecsPath m r = .iter) (hs : ServiceOK svc sparseRep y m r) :
    (nvecsFromGram svc sparseRep y r flip).length = m ∧
    (∀ row ∈ nvecsFromGram svc sparseRep y r flip, row.length = r) ∧
    OrthonormalCols (nvecsFromGram svc sparseRep y r flip) m r ∧
    ∃ lam : Nat → α, (∀ k, k < r → IsEigCol y (nvecsFromGram svc sparseRep y r flip) m k (lam k)) ∧
      (∀ k l, k ≤ l → l < r → |lam l| ≤ |lam k|) := by
  unfold nvecsFromGram
  unfold ServiceOK at hs
  rw [hy]
  cases hp : nvecsPath m r with
  | iter =>
    rw [hp] at hs
    simp only at hs ⊢
    obtain ⟨_, h1, h2, h3, h4, h5⟩ := nvecsPost_contract y (svc.eigsh y r).2 (svc.eigsh y r).1 m r r flip hs (le_refl r)
    exact ⟨h1, h2, h3, _, h4, fun k l hkl hl => h5 k l hkl hl⟩
  | dense =>
    rw [hp] at hs
    cases sparseRep with
    | true => have := hpath rfl; rw [hp] at this; cases this
    | false =>
      simp only [Bool.false_eq_true, if_false] at hs ⊢
      obtain ⟨_, h1, h2, h3, h4, h5⟩ := nvecsPost_contract y (svc.eigh y).2 (svc.eigh y).1 m m r flip hs hr
      exact ⟨h1, h2, h3, _, h4, fun k l hkl hl => h5 k l hkl (by omega)⟩

end Pyttb
