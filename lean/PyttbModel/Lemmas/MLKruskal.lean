/-
C02 — Kruskal kernels (`ktensor.ttv`, `mttkrp`, `innerprod`, `norm`): every one of them rests on
"the sum of a separable function over a fiber is a product of one-mode sums".
-/
import PyttbModel.Lemmas.MLSumFull
import PyttbModel.Lemmas.MLMttkrpW
import PyttbModel.Lemmas.MLTtvUser
import PyttbModel.Lemmas.MLSparseMttkrp
import Mathlib.Tactic.Ring
namespace Pyttb
namespace MLK

open ML

variable {α : Type}

/-! ### separable sums -/

/-- `Σ_k ∏_n g_n(k_n) = ∏_n Σ_x g_n(x)` over all cells of a shape. -/
theorem sum_allSubs_zipWith [CommSemiring α] (s : List Nat) (gs : List (Nat → α)) (h : gs.length = s.length) :
    ((allSubs s).map fun k => (List.zipWith (fun (g : Nat → α) x => g x) gs k).prod).sum =
      (List.zipWith (fun (g : Nat → α) n => sumRange n g) gs s).prod := by
  induction s generalizing gs with
  | nil =>
    rw [allSubs_nil]
    simp
  | cons a s ih =>
    cases gs with
    | nil => simp at h
    | cons g gs =>
      rw [sum_allSubs_cons]
      simp only [List.zipWith_cons_cons, List.prod_cons]
      rw [← ih gs (by simpa using h), ← List.sum_map_mul_left]
      apply sum_congr
      intro k _
      unfold sumRange
      rw [← List.sum_map_mul_right]

/-- The same with the modes listed: `Σ_{j ∈ cells of s[ds]} ∏_q G(d_q, j_q) = ∏_{d ∈ ds} Σ_{x < s_d} G(d, x)`. -/
theorem sum_allSubs_sel [CommSemiring α] (s ds : List Nat) (G : Nat → Nat → α) :
    ((allSubs (gather s ds)).map fun j => (List.zipWith G ds j).prod).sum =
      (ds.map fun d => sumRange (s.getD d 0) (G d)).prod := by
  have := sum_allSubs_zipWith (gather s ds) (ds.map G) (by simp)
  rw [show (List.zipWith (fun (g : Nat → α) n => sumRange n g) (ds.map G) (gather s ds)) =
      ds.map fun d => sumRange (s.getD d 0) (G d) by
    unfold gather
    rw [List.zipWith_map_left, List.zipWith_map_right]
    induction ds with
    | nil => rfl
    | cons d ds ih => simp] at this
  rw [← this]
  apply sum_congr
  intro j _
  rw [List.zipWith_map_left]

/-- A product over all modes splits along a permutation `rem ++ sel` of the modes. -/
theorem prod_range_split [CommMonoid α] (N : Nat) (rem sel : List Nat) (hp : isPermOf (rem ++ sel) N = true)
    (h : Nat → α) : ((List.range N).map h).prod = (rem.map h).prod * (sel.map h).prod := by
  rw [((isPermOf_perm hp).map h).prod_eq, List.map_append, List.prod_append]

theorem map_getD_eq_zipWith {β : Type} (ds : List Nat) (k : List Nat) (f : Nat → Nat → β) :
    (ds.map fun d => f d (k.getD d 0)) = List.zipWith f ds (gather k ds) := by
  unfold gather
  rw [List.zipWith_map_right]
  induction ds with
  | nil => rfl
  | cons d ds ih => simp

/-- **Separable sum over a fiber.** With the modes split into the fixed ones `rem` (coordinates `i`)
and the summed ones `sel`: `Σ_{k ∈ fiber} ∏_{d∈rem} f_d(k_d) · ∏_{d∈sel} g_d(k_d) =
∏_{d∈rem} f_d(i_d) · ∏_{d∈sel} Σ_x g_d(x)`. -/
theorem fiber_sum_split [CommSemiring α] (s rem sel i : List Nat) (hp : isPermOf (rem ++ sel) s.length = true)
    (hi : InBounds (gather s rem) i) (f g : Nat → Nat → α) :
    ((Spec.fiber s rem i).map fun k =>
        (rem.map fun d => f d (k.getD d 0)).prod * (sel.map fun d => g d (k.getD d 0)).prod).sum =
      (List.zipWith f rem i).prod * (sel.map fun d => sumRange (s.getD d 0) (g d)).prod := by
  rw [fiber_sum s rem sel i hp hi, ← sum_allSubs_sel, ← List.sum_map_mul_left]
  apply sum_congr
  intro j hj
  have hil : i.length = rem.length := by rw [hi.length_eq, length_gather]
  have hjl : j.length = sel.length := by rw [(mem_allSubs.1 hj).length_eq, length_gather]
  obtain ⟨h1, h2⟩ := gather_unperm_left hp hil hjl
  rw [map_getD_eq_zipWith rem, map_getD_eq_zipWith sel, h1, h2]

/-- All cells = the fiber over nothing. -/
theorem fiber_nil (s : List Nat) : Spec.fiber s [] [] = allSubs s := by
  unfold Spec.fiber
  rw [List.filter_eq_self]; intro k _; rfl

/-- `Σ_k ∏_{n<N} g_n(k_n) = ∏_{n<N} Σ_x g_n(x)`. -/
theorem sum_allSubs_prod [CommSemiring α] (s : List Nat) (g : Nat → Nat → α) :
    ((allSubs s).map fun k => ((List.range s.length).map fun d => g d (k.getD d 0)).prod).sum =
      ((List.range s.length).map fun d => sumRange (s.getD d 0) (g d)).prod := by
  have := fiber_sum_split s [] (List.range s.length) [] (by simpa using isPermOf_range s.length) trivial
    (fun _ _ => (1 : α)) g
  rw [fiber_nil] at this
  simpa using this

/-! ### list helpers -/

theorem map_range_getD_self {β : Type} (l : List β) (d : β) : (List.range l.length).map (fun k => l.getD k d) = l := by
  apply List.ext_getElem (by simp)
  intro k h1 h2
  simp [List.getD_eq_getElem?_getD, List.getElem?_eq_getElem h2]

theorem sum_eq_range_getD [AddCommMonoid α] (l : List α) (R : Nat) (h : l.length = R) :
    l.sum = ((List.range R).map fun r => l.getD r 0).sum := by
  subst h
  rw [map_range_getD_self]

theorem getD_map' {β γ : Type} (f : β → γ) (l : List β) (k : Nat) (d : β) : (l.map f).getD k (f d) = f (l.getD k d) := by
  simp only [List.getD_eq_getElem?_getD, List.getElem?_map]
  cases l[k]? <;> rfl

theorem map_eq_range_getD {β γ : Type} (l : List β) (d : β) (f : β → γ) :
    l.map f = (List.range l.length).map fun k => f (l.getD k d) := by
  conv => lhs; rw [← map_range_getD_self l d, List.map_map]
  rfl

/-! ### Kruskal denotation -/

theorem kshape_length (K : Ktensor α) : K.shape.length = K.factors.length := by simp [Ktensor.shape]

theorem kshape_getD (K : Ktensor α) (d : Nat) : K.shape.getD d 0 = (K.factors.getD d []).length :=
  getD_map' List.length K.factors d []

theorem comp_eq_range [CommSemiring α] (K : Ktensor α) (r : Nat) (k : List Nat) (hk : k.length = K.factors.length) :
    K.comp r k = ((List.range K.factors.length).map fun d => (K.factors.getD d []).get (k.getD d 0) r).prod :=
  facProd_eq_range K.factors k r _ rfl hk

/-- Entry of `A.T @ v`. -/
theorem tmulVec_getD [Add α] [Mul α] [Zero α] (A : Mat α) (v : List α) (R r : Nat) (hr : r < R) :
    (A.tmulVec v R).getD r 0 = sumRange A.length fun a => A.get a r * v.getD a 0 :=
  getD_map_range _ _ _ _ hr

theorem length_tmulVec [Add α] [Mul α] [Zero α] (A : Mat α) (v : List α) (R : Nat) : (A.tmulVec v R).length = R := by
  simp [Mat.tmulVec]

/-- Entry of `A.T @ B`. -/
theorem tmul_get [Add α] [Mul α] [Zero α] (A B : Mat α) (Ra Rb r q : Nat) (hr : r < Ra) (hq : q < Rb) :
    (A.tmul B Ra Rb).get r q = sumRange A.length fun a => A.get a r * B.get a q :=
  get_tab Ra Rb _ r q hr hq

/-- The denotation of a scalar-or-Kruskal result. -/
def kresGet [Add α] [Mul α] [One α] [Zero α] : ScalarOr α (Ktensor α) → List Nat → α
  | .scalar v, _ => v
  | .obj K, i => K.get i

def kresShape : ScalarOr α (Ktensor α) → List Nat
  | .scalar _ => []
  | .obj K => K.shape

/-! ### `ttv` -/

/-- What `ttv` of a Kruskal tensor is specified to be, computed: each component contracts the
selected factors with the vectors and keeps the others. -/
theorem spec_ttv_kruskal [CommSemiring α] (K : Ktensor α) (sel : List Nat) (hnd : sel.Nodup)
    (hlt : ∀ d ∈ sel, d < K.factors.length) (w : Nat → Nat → α) (i : List Nat)
    (hi : InBounds (gather K.shape (complDims K.factors.length sel)) i) :
    Spec.ttv K.den sel w i = ((List.range K.ncomp).map fun r => K.weights.getD r 0 *
      ((List.zipWith (fun d x => (K.factors.getD d []).get x r) (complDims K.factors.length sel) i).prod *
        (sel.map fun d => sumRange (K.factors.getD d []).length fun x =>
          (K.factors.getD d []).get x r * w d x).prod)).sum := by
  set N := K.factors.length with hN
  set rem := complDims N sel with hrem
  have hp : isPermOf (rem ++ sel) N = true := isPermOf_compl_append N sel hnd hlt
  have hp' : isPermOf (rem ++ sel) K.shape.length = true := by rw [kshape_length]; exact hp
  show ((Spec.fiber K.shape (complDims K.shape.length sel) i).map fun k => K.get k * Spec.selProd sel w k).sum = _
  rw [kshape_length, ← hN, ← hrem]
  have hterm : ∀ k ∈ Spec.fiber K.shape rem i, K.get k * Spec.selProd sel w k =
      ((List.range K.ncomp).map fun r => K.weights.getD r 0 *
        ((rem.map fun d => (K.factors.getD d []).get (k.getD d 0) r).prod *
         (sel.map fun d => (K.factors.getD d []).get (k.getD d 0) r * w d (k.getD d 0)).prod)).sum := by
    intro k hk
    have hkl : k.length = N := by rw [(mem_fiber.1 hk).1.length_eq, kshape_length]
    unfold Ktensor.get
    rw [← List.sum_map_mul_right]
    apply sum_congr
    intro r _
    rw [comp_eq_range K r k hkl, prod_range_split N rem sel hp, List.prod_map_mul]
    unfold Spec.selProd
    ring
  rw [List.map_congr_left hterm, sum_comm]
  apply sum_congr
  intro r _
  rw [List.sum_map_mul_left, fiber_sum_split K.shape rem sel i hp' hi (fun d x => (K.factors.getD d []).get x r)
    (fun d x => (K.factors.getD d []).get x r * w d x)]
  congr 3
  apply List.map_congr_left
  intro d _
  rw [kshape_getD]

/-- The weights after the multiply loop of `ktensor.ttv`. -/
theorem ttv_weights [CommSemiring α] (F : List (Mat α)) (R : Nat) (pairs : List (Nat × List α)) (w0 : List α)
    (hw0 : w0.length = R) :
    (pairs.foldl (fun w p => List.zipWith (· * ·) w ((F.getD p.1 []).tmulVec p.2 R)) w0).length = R ∧
    ∀ r, r < R → (pairs.foldl (fun w p => List.zipWith (· * ·) w ((F.getD p.1 []).tmulVec p.2 R)) w0).getD r 0 =
      w0.getD r 0 * (pairs.map fun p => sumRange (F.getD p.1 []).length fun a =>
        (F.getD p.1 []).get a r * p.2.getD a 0).prod := by
  induction pairs generalizing w0 with
  | nil => exact ⟨hw0, fun r _ => by simp⟩
  | cons p ps ih =>
    have hl : (List.zipWith (· * ·) w0 ((F.getD p.1 []).tmulVec p.2 R)).length = R := by
      rw [List.length_zipWith, hw0, length_tmulVec, Nat.min_self]
    obtain ⟨h1, h2⟩ := ih _ hl
    refine ⟨h1, ?_⟩
    intro r hr
    rw [List.foldl_cons, h2 r hr, getD_zipWith_mul', tmulVec_getD _ _ _ _ hr, List.map_cons, List.prod_cons, mul_assoc]

theorem gatherD_shape (F : List (Mat α)) (rem : List Nat) :
    (gatherD F rem []).map List.length = gather (F.map List.length) rem := by
  unfold gatherD gather
  rw [List.map_map]
  apply List.map_congr_left
  intro d _
  exact (getD_map' List.length F d []).symm

/-- **Kruskal `ttv`** after mode designation: distinct in-range modes, vectors as long as the
factor has rows.  All modes selected → the scalar `Σ_r λ'_r`; otherwise the Kruskal tensor over
the remaining factors with the new weights.  Either way the result denotes `Spec.ttv`. -/
theorem kruskal_ttvCore_spec [CommSemiring α] (K : Ktensor α) (pairs : List (Nat × List α))
    (hnd : (pairs.map (·.1)).Nodup) (hlt : ∀ p ∈ pairs, p.1 < K.factors.length)
    (hlen : ∀ p ∈ pairs, p.2.length = K.shape.getD p.1 0)
    (w : Nat → Nat → α) (hw : ∀ p ∈ pairs, ∀ k, w p.1 k = p.2.getD k 0) :
    ∃ r, K.ttvCore pairs = .ok r ∧ kresShape r = Spec.ttvShape K.shape (pairs.map (·.1)) ∧
      (∀ K', r = .obj K' → K'.weights.length = K.weights.length ∧
        K'.factors = gatherD K.factors (complDims K.factors.length (pairs.map (·.1))) []) ∧
      ∀ i, InBounds (kresShape r) i → kresGet r i = Spec.ttv K.den (pairs.map (·.1)) w i := by
  set N := K.factors.length with hN
  set sel := pairs.map (·.1) with hsel
  set rem := complDims N sel with hrem
  have hselt : ∀ d ∈ sel, d < N := by
    intro d hd
    obtain ⟨p, hp, rfl⟩ := List.mem_map.1 hd
    exact hlt p hp
  obtain ⟨g1, g2⟩ := ttv_guards K.shape pairs (fun d => (K.factors.getD d []).length) hnd
    (fun p hp => by rw [hlen p hp, kshape_getD])
  rw [← hsel] at g2
  obtain ⟨l1, l2⟩ := ttv_weights K.factors K.ncomp pairs K.weights rfl
  set neww := pairs.foldl (fun w p => List.zipWith (· * ·) w ((K.factors.getD p.1 []).tmulVec p.2 K.ncomp)) K.weights
    with hneww
  have hshape : Spec.ttvShape K.shape sel = gather K.shape rem := by
    unfold Spec.ttvShape; rw [kshape_length]
  have hprod : ∀ r, (pairs.map fun p => sumRange (K.factors.getD p.1 []).length fun a =>
        (K.factors.getD p.1 []).get a r * p.2.getD a 0).prod =
      (sel.map fun d => sumRange (K.factors.getD d []).length fun x => (K.factors.getD d []).get x r * w d x).prod := by
    intro r
    rw [hsel, List.map_map]
    congr 1
    apply List.map_congr_left
    intro p hp
    apply sumRange_congr
    intro a _
    show _ = _ * w p.1 a
    rw [hw p hp]
  by_cases hre : rem.isEmpty = true
  · have hrem0 : rem = [] := List.isEmpty_iff.1 hre
    refine ⟨.scalar neww.sum, ?_, ?_, ?_, ?_⟩
    · unfold Ktensor.ttvCore
      simp only [g1, g2, Bool.false_eq_true, if_false, ← hN, ← hsel, ← hrem, hre, if_true, ← hneww]
    · rw [hshape, hrem0]; rfl
    · intro K' h; cases h
    · intro i hi
      have hi' : InBounds (gather K.shape (complDims K.factors.length sel)) i := by
        rw [← hN, ← hrem, hrem0]; exact hi
      rw [spec_ttv_kruskal K sel hnd hselt w i hi', ← hN, ← hrem, hrem0]
      show neww.sum = _
      rw [sum_eq_range_getD neww K.ncomp l1]
      apply sum_congr
      intro r hr
      rw [l2 r (List.mem_range.1 hr), hprod r]
      simp
  · refine ⟨.obj ⟨neww, gatherD K.factors rem []⟩, ?_, ?_, ?_, ?_⟩
    · unfold Ktensor.ttvCore
      simp only [g1, g2, Bool.false_eq_true, if_false, ← hN, ← hsel, ← hrem, hre, ← hneww]
    · rw [hshape]
      exact gatherD_shape K.factors rem
    · intro K' h
      cases h
      exact ⟨l1, rfl⟩
    · intro i hi
      have hi' : InBounds (gather K.shape rem) i := by
        have : kresShape (.obj (⟨neww, gatherD K.factors rem []⟩ : Ktensor α)) = gather K.shape rem :=
          gatherD_shape K.factors rem
        rw [← this]; exact hi
      rw [spec_ttv_kruskal K sel hnd hselt w i hi']
      show Ktensor.get ⟨neww, gatherD K.factors rem []⟩ i = _
      unfold Ktensor.get Ktensor.ncomp
      simp only
      rw [l1]
      apply sum_congr
      intro r hr
      rw [l2 r (List.mem_range.1 hr), hprod r]
      have : Ktensor.comp ⟨neww, gatherD K.factors rem []⟩ r i =
          (List.zipWith (fun d x => (K.factors.getD d []).get x r) rem i).prod := by
        unfold Ktensor.comp gatherD
        simp only
        rw [List.zipWith_map_left]
      rw [this, ← hN, ← hrem]
      ring

end MLK
end Pyttb
