/-
C02 — Kruskal kernels (`ktensor.ttv`, `mttkrp`, `innerprod`, `norm`): every one of them rests on
"the sum of a separable function over a fiber is a product of one-mode sums".
-/
import PyttbModel.Lemmas.MLSumFull
import PyttbModel.Lemmas.MLMttkrpW
import PyttbModel.Lemmas.MLTtvUser
import PyttbModel.Lemmas.MLSparseMttkrp
import Mathlib.Tactic.Ring
namespace Pyttb
namespace MLK

open ML

variable {α : Type}

/-! ### separable sums -/

/-- `Σ_k ∏_n g_n(k_n) = ∏_n Σ_x g_n(x)` over all cells of a shape. -/
theorem sum_allSubs_zipWith [CommSemiring α] (s : List Nat) (gs : List (Nat → α)) (h : gs.length = s.length) :
    ((allSubs s).map fun k => (List.zipWith (fun (g : Nat → α) x => g x) gs k).prod).sum =
      (List.zipWith (fun (g : Nat → α) n => sumRange n g) gs s).prod := by
  induction s generalizing gs with
  | nil =>
    rw [allSubs_nil]
    simp
  | cons a s ih =>
    cases gs with
    | nil => simp at h
    | cons g gs =>
      rw [sum_allSubs_cons]
      simp only [List.zipWith_cons_cons, List.prod_cons]
      rw [← ih gs (by simpa using h), ← List.sum_map_mul_left]
      apply sum_congr
      intro k _
      unfold sumRange
      rw [← List.sum_map_mul_right]

/-- The same with the modes listed: `Σ_{j ∈ cells of s[ds]} ∏_q G(d_q, j_q) = ∏_{d ∈ ds} Σ_{x < s_d} G(d, x)`. -/
theorem sum_allSubs_sel [CommSemiring α] (s ds : List Nat) (G : Nat → Nat → α) :
    ((allSubs (gather s ds)).map fun j => (List.zipWith G ds j).prod).sum =
      (ds.map fun d => sumRange (s.getD d 0) (G d)).prod := by
  have := sum_allSubs_zipWith (gather s ds) (ds.map G) (by simp)
  rw [show (List.zipWith (fun (g : Nat → α) n => sumRange n g) (ds.map G) (gather s ds)) =
      ds.map fun d => sumRange (s.getD d 0) (G d) by
    unfold gather
    rw [List.zipWith_map_left, List.zipWith_map_right]
    induction ds with
    | nil => rfl
    | cons d ds ih => simp] at this
  rw [← this]
  apply sum_congr
  intro j _
  rw [List.zipWith_map_left]

/-- A product over all modes splits along a permutation `rem ++ sel` of the modes. -/
theorem prod_range_split [CommMonoid α] (N : Nat) (rem sel : List Nat) (hp : isPermOf (rem ++ sel) N = true)
    (h : Nat → α) : ((List.range N).map h).prod = (rem.map h).prod * (sel.map h).prod := by
  rw [((isPermOf_perm hp).map h).prod_eq, List.map_append, List.prod_append]

theorem map_getD_eq_zipWith {β : Type} (ds : List Nat) (k : List Nat) (f : Nat → Nat → β) :
    (ds.map fun d => f d (k.getD d 0)) = List.zipWith f ds (gather k ds) := by
  unfold gather
  rw [List.zipWith_map_right]
  induction ds with
  | nil => rfl
  | cons d ds ih => simp

/-- **Separable sum over a fiber.** With the modes split into the fixed ones `rem` (coordinates `i`)
and the summed ones `sel`: `Σ_{k ∈ fiber} ∏_{d∈rem} f_d(k_d) · ∏_{d∈sel} g_d(k_d) =
∏_{d∈rem} f_d(i_d) · ∏_{d∈sel} Σ_x g_d(x)`. -/
theorem fiber_sum_split [CommSemiring α] (s rem sel i : List Nat) (hp : isPermOf (rem ++ sel) s.length = true)
    (hi : InBounds (gather s rem) i) (f g : Nat → Nat → α) :
    ((Spec.fiber s rem i).map fun k =>
        (rem.map fun d => f d (k.getD d 0)).prod * (sel.map fun d => g d (k.getD d 0)).prod).sum =
      (List.zipWith f rem i).prod * (sel.map fun d => sumRange (s.getD d 0) (g d)).prod := by
  rw [fiber_sum s rem sel i hp hi, ← sum_allSubs_sel, ← List.sum_map_mul_left]
  apply sum_congr
  intro j hj
  have hil : i.length = rem.length := by rw [hi.length_eq, length_gather]
  have hjl : j.length = sel.length := by rw [(mem_allSubs.1 hj).length_eq, length_gather]
  obtain ⟨h1, h2⟩ := gather_unperm_left hp hil hjl
  rw [map_getD_eq_zipWith rem, map_getD_eq_zipWith sel, h1, h2]

/-- All cells = the fiber over nothing. -/
theorem fiber_nil (s : List Nat) : Spec.fiber s [] [] = allSubs s := by
  unfold Spec.fiber
  rw [List.filter_eq_self]; intro k _; rfl

/-- `Σ_k ∏_{n<N} g_n(k_n) = ∏_{n<N} Σ_x g_n(x)`. -/
theorem sum_allSubs_prod [CommSemiring α] (s : List Nat) (g : Nat → Nat → α) :
    ((allSubs s).map fun k => ((List.range s.length).map fun d => g d (k.getD d 0)).prod).sum =
      ((List.range s.length).map fun d => sumRange (s.getD d 0) (g d)).prod := by
  have := fiber_sum_split s [] (List.range s.length) [] (by simpa using isPermOf_range s.length) trivial
    (fun _ _ => (1 : α)) g
  rw [fiber_nil] at this
  simpa using this

/-! ### list helpers -/

theorem map_range_getD_self {β : Type} (l : List β) (d : β) : (List.range l.length).map (fun k => l.getD k d) = l := by
  apply List.ext_getElem (by simp)
  intro k h1 h2
  simp [List.getD_eq_getElem?_getD, List.getElem?_eq_getElem h2]

theorem sum_eq_range_getD [AddCommMonoid α] (l : List α) (R : Nat) (h : l.length = R) :
    l.sum = ((List.range R).map fun r => l.getD r 0).sum := by
  subst h
  rw [map_range_getD_self]

theorem getD_map' {β γ : Type} (f : β → γ) (l : List β) (k : Nat) (d : β) : (l.map f).getD k (f d) = f (l.getD k d) := by
  simp only [List.getD_eq_getElem?_getD, List.getElem?_map]
  cases l[k]? <;> rfl

theorem map_eq_range_getD {β γ : Type} (l : List β) (d : β) (f : β → γ) :
    l.map f = (List.range l.length).map fun k => f (l.getD k d) := by
  conv => lhs; rw [← map_range_getD_self l d, List.map_map]
  rfl

/-! ### Kruskal denotation -/

theorem kshape_length (K : Ktensor α) : K.shape.length = K.factors.length := by simp [Ktensor.shape]

theorem kshape_getD (K : Ktensor α) (d : Nat) : K.shape.getD d 0 = (K.factors.getD d []).length :=
  getD_map' List.length K.factors d []

theorem comp_eq_range [CommSemiring α] (K : Ktensor α) (r : Nat) (k : List Nat) (hk : k.length = K.factors.length) :
    K.comp r k = ((List.range K.factors.length).map fun d => (K.factors.getD d []).get (k.getD d 0) r).prod :=
  facProd_eq_range K.factors k r _ rfl hk

/-- Entry of `A.T @ v`. -/
theorem tmulVec_getD [Add α] [Mul α] [Zero α] (A : Mat α) (v : List α) (R r : Nat) (hr : r < R) :
    (A.tmulVec v R).getD r 0 = sumRange A.length fun a => A.get a r * v.getD a 0 :=
  getD_map_range _ _ _ _ hr

theorem length_tmulVec [Add α] [Mul α] [Zero α] (A : Mat α) (v : List α) (R : Nat) : (A.tmulVec v R).length = R := by
  simp [Mat.tmulVec]

/-- Entry of `A.T @ B`. -/
theorem tmul_get [Add α] [Mul α] [Zero α] (A B : Mat α) (Ra Rb r q : Nat) (hr : r < Ra) (hq : q < Rb) :
    (A.tmul B Ra Rb).get r q = sumRange A.length fun a => A.get a r * B.get a q :=
  get_tab Ra Rb _ r q hr hq

/-- The denotation of a scalar-or-Kruskal result. -/
def kresGet [Add α] [Mul α] [One α] [Zero α] : ScalarOr α (Ktensor α) → List Nat → α
  | .scalar v, _ => v
  | .obj K, i => K.get i

def kresShape : ScalarOr α (Ktensor α) → List Nat
  | .scalar _ => []
  | .obj K => K.shape

/-! ### `ttv` -/

/-- What `ttv` of a Kruskal tensor is specified to be, computed: each component contracts the
selected factors with the vectors and keeps the others. -/
theorem spec_ttv_kruskal [CommSemiring α] (K : Ktensor α) (sel : List Nat) (hnd : sel.Nodup)
    (hlt : ∀ d ∈ sel, d < K.factors.length) (w : Nat → Nat → α) (i : List Nat)
    (hi : InBounds (gather K.shape (complDims K.factors.length sel)) i) :
    Spec.ttv K.den sel w i = ((List.range K.ncomp).map fun r => K.weights.getD r 0 *
      ((List.zipWith (fun d x => (K.factors.getD d []).get x r) (complDims K.factors.length sel) i).prod *
        (sel.map fun d => sumRange (K.factors.getD d []).length fun x =>
          (K.factors.getD d []).get x r * w d x).prod)).sum := by
  set N := K.factors.length with hN
  set rem := complDims N sel with hrem
  have hp : isPermOf (rem ++ sel) N = true := isPermOf_compl_append N sel hnd hlt
  have hp' : isPermOf (rem ++ sel) K.shape.length = true := by rw [kshape_length]; exact hp
  show ((Spec.fiber K.shape (complDims K.shape.length sel) i).map fun k => K.get k * Spec.selProd sel w k).sum = _
  rw [kshape_length, ← hN, ← hrem]
  have hterm : ∀ k ∈ Spec.fiber K.shape rem i, K.get k * Spec.selProd sel w k =
      ((List.range K.ncomp).map fun r => K.weights.getD r 0 *
        ((rem.map fun d => (K.factors.getD d []).get (k.getD d 0) r).prod *
         (sel.map fun d => (K.factors.getD d []).get (k.getD d 0) r * w d (k.getD d 0)).prod)).sum := by
    intro k hk
    have hkl : k.length = N := by rw [(mem_fiber.1 hk).1.length_eq, kshape_length]
    unfold Ktensor.get
    rw [← List.sum_map_mul_right]
    apply sum_congr
    intro r _
    rw [comp_eq_range K r k hkl, prod_range_split N rem sel hp, List.prod_map_mul]
    unfold Spec.selProd
    ring
  rw [List.map_congr_left hterm, sum_comm]
  apply sum_congr
  intro r _
  rw [List.sum_map_mul_left, fiber_sum_split K.shape rem sel i hp' hi (fun d x => (K.factors.getD d []).get x r)
    (fun d x => (K.factors.getD d []).get x r * w d x)]
  congr 3
  apply List.map_congr_left
  intro d _
  rw [kshape_getD]

/-- The weights after the multiply loop of `ktensor.ttv`. -/
theorem ttv_weights [CommSemiring α] (F : List (Mat α)) (R : Nat) (pairs : List (Nat × List α)) (w0 : List α)
    (hw0 : w0.length = R) :
    (pairs.foldl (fun w p => List.zipWith (· * ·) w ((F.getD p.1 []).tmulVec p.2 R)) w0).length = R ∧
    ∀ r, r < R → (pairs.foldl (fun w p => List.zipWith (· * ·) w ((F.getD p.1 []).tmulVec p.2 R)) w0).getD r 0 =
      w0.getD r 0 * (pairs.map fun p => sumRange (F.getD p.1 []).length fun a =>
        (F.getD p.1 []).get a r * p.2.getD a 0).prod := by
  induction pairs generalizing w0 with
  | nil => exact ⟨hw0, fun r _ => by simp⟩
  | cons p ps ih =>
    have hl : (List.zipWith (· * ·) w0 ((F.getD p.1 []).tmulVec p.2 R)).length = R := by
      rw [List.length_zipWith, hw0, length_tmulVec, Nat.min_self]
    obtain ⟨h1, h2⟩ := ih _ hl
    refine ⟨h1, ?_⟩
    intro r hr
    rw [List.foldl_cons, h2 r hr, getD_zipWith_mul', tmulVec_getD _ _ _ _ hr, List.map_cons, List.prod_cons, mul_assoc]

theorem gatherD_shape (F : List (Mat α)) (rem : List Nat) :
    (gatherD F rem []).map List.length = gather (F.map List.length) rem := by
  unfold gatherD gather
  rw [List.map_map]
  apply List.map_congr_left
  intro d _
  exact (getD_map' List.length F d []).symm

/-- **Kruskal `ttv`** after mode designation: distinct in-range modes, vectors as long as the
factor has rows.  All modes selected → the scalar `Σ_r λ'_r`; otherwise the Kruskal tensor over
the remaining factors with the new weights.  Either way the result denotes `Spec.ttv`. -/
theorem kruskal_ttvCore_spec [CommSemiring α] (K : Ktensor α) (pairs : List (Nat × List α))
    (hnd : (pairs.map (·.1)).Nodup) (hlt : ∀ p ∈ pairs, p.1 < K.factors.length)
    (hlen : ∀ p ∈ pairs, p.2.length = K.shape.getD p.1 0)
    (w : Nat → Nat → α) (hw : ∀ p ∈ pairs, ∀ k, w p.1 k = p.2.getD k 0) :
    ∃ r, K.ttvCore pairs = .ok r ∧ kresShape r = Spec.ttvShape K.shape (pairs.map (·.1)) ∧
      (∀ K', r = .obj K' → K'.weights.length = K.weights.length ∧
        K'.factors = gatherD K.factors (complDims K.factors.length (pairs.map (·.1))) []) ∧
      ((∃ v, r = .scalar v) ↔ complDims K.factors.length (pairs.map (·.1)) = []) ∧
      ∀ i, InBounds (kresShape r) i → kresGet r i = Spec.ttv K.den (pairs.map (·.1)) w i := by
  set N := K.factors.length with hN
  set sel := pairs.map (·.1) with hsel
  set rem := complDims N sel with hrem
  have hselt : ∀ d ∈ sel, d < N := by
    intro d hd
    obtain ⟨p, hp, rfl⟩ := List.mem_map.1 hd
    exact hlt p hp
  obtain ⟨g1, g2⟩ := ttv_guards K.shape pairs (fun d => (K.factors.getD d []).length) hnd
    (fun p hp => by rw [hlen p hp, kshape_getD])
  rw [← hsel] at g2
  obtain ⟨l1, l2⟩ := ttv_weights K.factors K.ncomp pairs K.weights rfl
  set neww := pairs.foldl (fun w p => List.zipWith (· * ·) w ((K.factors.getD p.1 []).tmulVec p.2 K.ncomp)) K.weights
    with hneww
  have hshape : Spec.ttvShape K.shape sel = gather K.shape rem := by
    unfold Spec.ttvShape; rw [kshape_length]
  have hprod : ∀ r, (pairs.map fun p => sumRange (K.factors.getD p.1 []).length fun a =>
        (K.factors.getD p.1 []).get a r * p.2.getD a 0).prod =
      (sel.map fun d => sumRange (K.factors.getD d []).length fun x => (K.factors.getD d []).get x r * w d x).prod := by
    intro r
    rw [hsel, List.map_map]
    congr 1
    apply List.map_congr_left
    intro p hp
    apply sumRange_congr
    intro a _
    show _ = _ * w p.1 a
    rw [hw p hp]
  by_cases hre : rem.isEmpty = true
  · have hrem0 : rem = [] := List.isEmpty_iff.1 hre
    refine ⟨.scalar neww.sum, ?_, ?_, ?_, ⟨fun _ => hrem0, fun _ => ⟨_, rfl⟩⟩, ?_⟩
    · unfold Ktensor.ttvCore
      simp only [g1, g2, Bool.false_eq_true, if_false, ← hN, ← hsel, ← hrem, hre, if_true, ← hneww]
    · rw [hshape, hrem0]; rfl
    · intro K' h; cases h
    · intro i hi
      have hi' : InBounds (gather K.shape (complDims K.factors.length sel)) i := by
        rw [← hN, ← hrem, hrem0]; exact hi
      rw [spec_ttv_kruskal K sel hnd hselt w i hi', ← hN, ← hrem, hrem0]
      show neww.sum = _
      rw [sum_eq_range_getD neww K.ncomp l1]
      apply sum_congr
      intro r hr
      rw [l2 r (List.mem_range.1 hr), hprod r]
      simp
  · refine ⟨.obj ⟨neww, gatherD K.factors rem []⟩, ?_, ?_, ?_,
      ⟨(fun ⟨v, h⟩ => by cases h), fun h => absurd (by rw [h]; rfl) hre⟩, ?_⟩
    · unfold Ktensor.ttvCore
      simp only [g1, g2, Bool.false_eq_true, if_false, ← hN, ← hsel, ← hrem, hre, ← hneww]
    · rw [hshape]
      exact gatherD_shape K.factors rem
    · intro K' h
      cases h
      exact ⟨l1, rfl⟩
    · intro i hi
      have hi' : InBounds (gather K.shape rem) i := by
        have : kresShape (.obj (⟨neww, gatherD K.factors rem []⟩ : Ktensor α)) = gather K.shape rem :=
          gatherD_shape K.factors rem
        rw [← this]; exact hi
      rw [spec_ttv_kruskal K sel hnd hselt w i hi']
      show Ktensor.get ⟨neww, gatherD K.factors rem []⟩ i = _
      unfold Ktensor.get Ktensor.ncomp
      simp only
      rw [l1]
      apply sum_congr
      intro r hr
      rw [l2 r (List.mem_range.1 hr), hprod r]
      have : Ktensor.comp ⟨neww, gatherD K.factors rem []⟩ r i =
          (List.zipWith (fun d x => (K.factors.getD d []).get x r) rem i).prod := by
        unfold Ktensor.comp gatherD
        simp only
        rw [List.zipWith_map_left]
      rw [this, ← hN, ← hrem]
      ring

/-- A vector whose length differs from the extent of its mode is rejected. -/
theorem kruskal_ttvCore_rejects [Add α] [Mul α] [Zero α] (K : Ktensor α) (pairs : List (Nat × List α))
    (h : ∃ p ∈ pairs, p.2.length ≠ K.shape.getD p.1 0) : K.ttvCore pairs = .error .reject := by
  unfold Ktensor.ttvCore
  have : pairs.any (fun p => p.2.length != (K.factors.getD p.1 []).length) = true := by
    rw [List.any_eq_true]
    obtain ⟨p, hp, hne⟩ := h
    refine ⟨p, hp, ?_⟩
    rw [← kshape_getD]
    simpa using hne
  simp only [this, if_true]

/-- **Kruskal `ttv` as called** with `dims` in any order and one vector per listed mode. -/
theorem kruskal_ttv_dims [CommSemiring α] (K : Ktensor α) (d : List Nat) (vs : List (List α))
    (hd : d.Nodup) (hN : ∀ x ∈ d, x < K.factors.length) (hl : vs.length = d.length)
    (hsz : ∀ p ∈ d.zip vs, p.2.length = K.shape.getD p.1 0)
    (w : Nat → Nat → α) (hw : ∀ p ∈ d.zip vs, ∀ k, w p.1 k = p.2.getD k 0) :
    ∃ r, K.ttv vs (some (d.map Int.ofNat)) none = .ok r ∧ kresShape r = Spec.ttvShape K.shape d ∧
      ((∃ v, r = .scalar v) ↔ complDims K.factors.length d = []) ∧
      ∀ i, InBounds (kresShape r) i → kresGet r i = Spec.ttv K.den d w i := by
  obtain ⟨pairs, e, hs, hp⟩ := resolve_dims_P K.factors.length vs d hd hN hl
  obtain ⟨f1, f2, f3, f4⟩ := pairs_facts K.shape List.length d vs pairs hd
    (by rw [kshape_length]; exact hN) hl hsz hs hp
  obtain ⟨r, hr, hsh, _, hk, hg⟩ := kruskal_ttvCore_spec K pairs f1 (by rw [← kshape_length]; exact f2) f3 w
    (fun p hp' => hw p (hp.subset hp'))
  refine ⟨r, by unfold Ktensor.ttv; rw [e]; exact hr, by rw [hsh, spec_ttvShape_perm _ f4],
    by rw [hk, complDims_perm f4], ?_⟩
  intro i hi
  rw [hg i hi, spec_ttv_perm _ f4]

/-! ### inner product and norm -/

/-- `Σ_k ∏ₙ Aₙ[kₙ,r] · ∏ₙ Bₙ[kₙ,q] = ∏ₙ (AₙᵀBₙ)[r,q]`. -/
theorem sum_comp_mul [CommSemiring α] (K L : Ktensor α) (hs : K.shape = L.shape) (r q : Nat) :
    ((allSubs K.shape).map fun k => K.comp r k * L.comp q k).sum =
      ((List.range K.factors.length).map fun d => sumRange (K.factors.getD d []).length fun x =>
        (K.factors.getD d []).get x r * (L.factors.getD d []).get x q).prod := by
  have hL : L.factors.length = K.factors.length := by rw [← kshape_length, ← hs, kshape_length]
  have := sum_allSubs_prod K.shape (fun d x => (K.factors.getD d []).get x r * (L.factors.getD d []).get x q)
  rw [kshape_length] at this
  rw [show ((List.range K.factors.length).map fun d => sumRange (K.factors.getD d []).length fun x =>
        (K.factors.getD d []).get x r * (L.factors.getD d []).get x q) =
      (List.range K.factors.length).map fun d => sumRange (K.shape.getD d 0) fun x =>
        (K.factors.getD d []).get x r * (L.factors.getD d []).get x q from
    List.map_congr_left (fun d _ => by rw [kshape_getD]), ← this]
  apply sum_congr
  intro k hk
  have hkl : k.length = K.factors.length := by rw [(mem_allSubs.1 hk).length_eq, kshape_length]
  rw [comp_eq_range K r k hkl, comp_eq_range L q k (by rw [hL]; exact hkl), hL, List.prod_map_mul]

/-- What the inner product of two Kruskal tensors is specified to be, computed: the weighted sum
of the Hadamard product of the Gram matrices. -/
theorem spec_inner_kruskal [CommSemiring α] (K L : Ktensor α) (hs : K.shape = L.shape) :
    Spec.inner K.den L.den = sumRange K.ncomp fun r => sumRange L.ncomp fun q =>
      (K.weights.getD r 0 * L.weights.getD q 0) *
        ((List.range K.factors.length).map fun d => sumRange (K.factors.getD d []).length fun x =>
          (K.factors.getD d []).get x r * (L.factors.getD d []).get x q).prod := by
  show ((allSubs K.shape).map fun k => K.get k * L.get k).sum = _
  have hterm : ∀ k ∈ allSubs K.shape, K.get k * L.get k =
      ((List.range K.ncomp).map fun r => ((List.range L.ncomp).map fun q =>
        (K.weights.getD r 0 * L.weights.getD q 0) * (K.comp r k * L.comp q k)).sum).sum := by
    intro k _
    unfold Ktensor.get
    rw [← List.sum_map_mul_right]
    apply sum_congr
    intro r _
    rw [← List.sum_map_mul_left]
    apply sum_congr
    intro q _
    ring
  rw [List.map_congr_left hterm, sum_comm]
  unfold sumRange
  apply sum_congr
  intro r _
  rw [sum_comm]
  apply sum_congr
  intro q _
  rw [List.sum_map_mul_left, sum_comp_mul K L hs]
  rfl

/-- **Kruskal · Kruskal inner product** (Hadamard product of the Gram matrices `AₙᵀBₙ`, weighted). -/
theorem kruskal_innerprodK_spec [CommSemiring α] (K L : Ktensor α) (hs : K.shape = L.shape) :
    K.innerprodK L = .ok (Spec.inner K.den L.den) := by
  unfold Ktensor.innerprodK
  have : (K.shape != L.shape) = false := by simp [hs]
  rw [this]
  simp only [Bool.false_eq_true, if_false]
  rw [spec_inner_kruskal K L hs]
  congr 1
  apply sumRange_congr
  intro r hr
  apply sumRange_congr
  intro q hq
  rw [foldl_mul_eq]
  congr 2
  apply List.map_congr_left
  intro d _
  exact tmul_get _ _ _ _ _ _ hr hq

theorem kruskal_innerprodK_rejects [Add α] [Mul α] [Zero α] (K L : Ktensor α) (hs : K.shape ≠ L.shape) :
    K.innerprodK L = .error .reject := by
  unfold Ktensor.innerprodK
  have : (K.shape != L.shape) = true := by simp [hs]
  rw [this]; rfl

/-- **Kruskal norm**: the sum of the coefficient matrix `λλᵀ ∗ ⊛ₙ AₙᵀAₙ` is `Σ_k ⟦K⟧[k]²`. -/
theorem kruskal_normSq_spec [CommSemiring α] (K : Ktensor α) : K.normSq = Spec.normSq K.den := by
  show _ = Spec.inner K.den K.den
  rw [spec_inner_kruskal K K rfl]
  unfold Ktensor.normSq
  simp only
  apply sumRange_congr
  intro r hr
  apply sumRange_congr
  intro q hq
  rw [foldl_mul_eq (β := Mat α) K.factors (fun A => (A.tmul A K.ncomp K.ncomp).get r q),
    map_eq_range_getD K.factors []]
  congr 2
  apply List.map_congr_left
  intro d _
  exact tmul_get _ _ _ _ _ _ hr hq

/-! ### `mttkrp` -/

theorem filter_mode_eq_fiber (s : List Nat) (n i : Nat) :
    (allSubs s).filter (fun k => k.getD n 0 == i) = Spec.fiber s [n] [i] := by
  unfold Spec.fiber
  apply List.filter_congr
  intro k _
  exact (length_one_beq _ _).symm

/-- What `mttkrp` of a Kruskal tensor is specified to be, computed. -/
theorem spec_mttkrp_kruskal [CommSemiring α] (K : Ktensor α) (Uf : Nat → Nat → Nat → α) (lam : Nat → α)
    (n i r : Nat) (hn : n < K.factors.length) (hi : i < (K.factors.getD n []).length) :
    Spec.mttkrp K.den Uf lam n i r = lam r * sumRange K.ncomp fun r' => K.weights.getD r' 0 *
      ((K.factors.getD n []).get i r' * ((others K.factors.length n).map fun m =>
        sumRange (K.factors.getD m []).length fun x => (K.factors.getD m []).get x r' * Uf m x r).prod) := by
  set N := K.factors.length with hN
  have hp : isPermOf ([n] ++ others N n) N = true := isPermOf_mode_first N n hn
  have hp' : isPermOf ([n] ++ others N n) K.shape.length = true := by rw [kshape_length]; exact hp
  have hi' : InBounds (gather K.shape [n]) [i] := by
    show InBounds [K.shape.getD n 0] [i]
    exact ⟨by rw [kshape_getD]; exact hi, trivial⟩
  show lam r * (((allSubs K.shape).filter fun k => k.getD n 0 == i).map fun k =>
    K.get k * (((List.range K.shape.length).filter (· != n)).map fun m => Uf m (k.getD m 0) r).prod).sum = _
  rw [filter_mode_eq_fiber, kshape_length, ← hN]
  congr 1
  have hterm : ∀ k ∈ Spec.fiber K.shape [n] [i],
      K.get k * ((others N n).map fun m => Uf m (k.getD m 0) r).prod =
      ((List.range K.ncomp).map fun r' => K.weights.getD r' 0 *
        (([n].map fun d => (K.factors.getD d []).get (k.getD d 0) r').prod *
         ((others N n).map fun d => (K.factors.getD d []).get (k.getD d 0) r' * Uf d (k.getD d 0) r).prod)).sum := by
    intro k hk
    have hkl : k.length = N := by rw [(mem_fiber.1 hk).1.length_eq, kshape_length]
    unfold Ktensor.get
    rw [← List.sum_map_mul_right]
    apply sum_congr
    intro r' _
    rw [comp_eq_range K r' k hkl, prod_range_split N [n] (others N n) hp, List.prod_map_mul]
    ring
  show ((Spec.fiber K.shape [n] [i]).map fun k =>
    K.get k * ((others N n).map fun m => Uf m (k.getD m 0) r).prod).sum = _
  rw [List.map_congr_left hterm, sum_comm]
  unfold sumRange
  apply sum_congr
  intro r' _
  rw [List.sum_map_mul_left, fiber_sum_split K.shape [n] (others N n) [i] hp' hi'
    (fun d x => (K.factors.getD d []).get x r') (fun d x => (K.factors.getD d []).get x r' * Uf d x r)]
  congr 2
  · simp
  · congr 1
    apply List.map_congr_left
    intro d _
    rw [kshape_getD]
    rfl

/-- The column count the `mttkrp` kernels read off the factor list. -/
theorem mttkrp_R (fs : List (Mat α)) (n N R : Nat) (hN2 : 2 ≤ N) (hn : n < N)
    (hcols : ∀ m, m < N → m ≠ n → ∀ row ∈ fs.getD m [], row.length = R)
    (hpos : ∀ m, m < N → m ≠ n → 0 < (fs.getD m []).length) :
    (if n == 0 then (fs.getD 1 []).ncols else (fs.getD 0 []).ncols) = R := by
  by_cases h0 : n = 0
  · subst h0
    simp only [beq_self_eq_true, if_true]
    exact ncols_eq _ R (hcols 1 (by omega) (by omega)) (hpos 1 (by omega) (by omega))
  · have : (n == 0) = false := by simpa using h0
    rw [this]
    simp only [Bool.false_eq_true, if_false]
    exact ncols_eq _ R (hcols 0 (by omega) (fun h => h0 h.symm)) (hpos 0 (by omega) (fun h => h0 h.symm))

/-- **Kruskal `mttkrp`**, for the factor list `get_mttkrp_factors` hands on. -/
theorem kruskal_mttkrp_fs [CommSemiring α] (K : Ktensor α) (Uop : KOperand α) (fs : List (Mat α)) (n R : Nat)
    (hfs : getMttkrpFactors Uop n K.factors.length = .ok fs)
    (hN2 : 2 ≤ K.factors.length) (hn : n < K.factors.length)
    (hrows : ∀ m, m < K.factors.length → m ≠ n → (fs.getD m []).length = (K.factors.getD m []).length)
    (hcols : ∀ m, m < K.factors.length → m ≠ n → ∀ row ∈ fs.getD m [], row.length = R)
    (hpos : ∀ m, m < K.factors.length → m ≠ n → 0 < (K.factors.getD m []).length) :
    ∃ V, K.mttkrp Uop n = .ok V ∧ V.length = (K.factors.getD n []).length ∧ (∀ row ∈ V, row.length = R) ∧
      ∀ i r, i < (K.factors.getD n []).length → r < R →
        V.get i r = Spec.mttkrp K.den (fun m x c => (fs.getD m []).get x c) (fun _ => 1) n i r := by
  set N := K.factors.length with hN
  have hR := mttkrp_R fs n N R hN2 hn hcols (fun m hm hmn => by rw [hrows m hm hmn]; exact hpos m hm hmn)
  have hguard : (List.range N).any (fun i => i != n &&
      ((fs.getD i []).length != (K.factors.getD i []).length ||
        !(fs.getD i []).isShape (fs.getD i []).length R)) = false := by
    rw [List.any_eq_false]
    intro m hm
    have hm' := List.mem_range.1 hm
    by_cases hmn : m = n
    · simp [hmn]
    · have h1 := hrows m hm' hmn
      have h2 : (fs.getD m []).isShape (fs.getD m []).length R = true := by
        unfold Mat.isShape
        rw [Bool.and_eq_true]
        refine ⟨by simp, ?_⟩
        rw [List.all_eq_true]
        intro row hrow
        simpa using hcols m hm' hmn row hrow
      have h3 : (m != n) = true := by simpa using hmn
      rw [h3, h2, h1]; simp
  refine ⟨(K.factors.getD n []).mulD ((List.range K.ncomp).map fun r' => (List.range R).map fun r =>
      ((List.range N).filter (· != n)).foldl
        (fun acc i => acc * ((K.factors.getD i []).tmul (fs.getD i []) K.ncomp R).get r' r) (K.weights.getD r' 0))
      (K.factors.getD n []).length K.ncomp R, ?_, by simp [Mat.mulD], ?_, ?_⟩
  · unfold Ktensor.mttkrp
    simp only [← hN, hfs, hR]
    rw [if_neg (by omega), if_neg (by omega), hguard]
    simp only [Bool.false_eq_true, if_false]
  · intro row hrow
    obtain ⟨a, _, rfl⟩ := List.mem_map.1 hrow
    simp
  · intro i r hi hr
    rw [mulD_get _ _ _ _ _ _ _ hi hr, spec_mttkrp_kruskal K _ _ n i r hn hi, one_mul]
    apply sumRange_congr
    intro r' hr'
    rw [get_tab _ _ _ _ _ hr' hr, foldl_mul_eq, ← hN]
    rw [show ((List.range N).filter (· != n)) = others N n from rfl]
    have : ((others N n).map fun i => ((K.factors.getD i []).tmul (fs.getD i []) K.ncomp R).get r' r) =
        (others N n).map fun m => sumRange (K.factors.getD m []).length fun x =>
          (K.factors.getD m []).get x r' * (fs.getD m []).get x r :=
      List.map_congr_left (fun m _ => tmul_get _ _ _ _ _ _ hr' hr)
    rw [this]
    ring

/-- **Kruskal `mttkrp` with a factor list.** -/
theorem kruskal_mttkrp_list_spec [CommSemiring α] (K : Ktensor α) (U : List (Mat α)) (n R : Nat)
    (hN2 : 2 ≤ K.factors.length) (hn : n < K.factors.length) (hlen : U.length = K.factors.length)
    (hrows : ∀ m, m < K.factors.length → m ≠ n → (U.getD m []).length = (K.factors.getD m []).length)
    (hcols : ∀ m, m < K.factors.length → m ≠ n → ∀ row ∈ U.getD m [], row.length = R)
    (hpos : ∀ m, m < K.factors.length → m ≠ n → 0 < (K.factors.getD m []).length) :
    ∃ V, K.mttkrp (.list U) n = .ok V ∧ V.length = (K.factors.getD n []).length ∧ (∀ row ∈ V, row.length = R) ∧
      ∀ i r, i < (K.factors.getD n []).length → r < R →
        V.get i r = Spec.mttkrp K.den (fun m x c => (U.getD m []).get x c) (fun _ => 1) n i r := by
  apply kruskal_mttkrp_fs K (.list U) U n R ?_ hN2 hn hrows hcols hpos
  unfold getMttkrpFactors
  simp [hlen]

/-- What `get_mttkrp_factors` returns for a Kruskal operand, and why that is the right thing: the
specification with the returned list and unit weights is the specification with the operand's
factors and weights. -/
theorem getMttkrpFactors_kruskal [CommSemiring α] (L : Ktensor α) (n N R : Nat) (hN2 : 2 ≤ N) (hn : n < N)
    (hlen : L.factors.length = N) (hw : L.weights.length = R) :
    ∃ fs, getMttkrpFactors (.kruskal L) n N = .ok fs ∧
      (∀ m, m < N → (fs.getD m []).length = (L.factors.getD m []).length) ∧
      (∀ m, m < N → (∀ row ∈ L.factors.getD m [], row.length = R) → ∀ row ∈ fs.getD m [], row.length = R) ∧
      ∀ X : Den α, X.shape.length = N → ∀ i r,
        Spec.mttkrp X (fun m x c => (fs.getD m []).get x c) (fun _ => 1) n i r =
          Spec.mttkrp X (fun m x c => (L.factors.getD m []).get x c) (fun r => L.weights.getD r 0) n i r := by
  set mm := (if n == 0 then 1 else 0) with hmmdef
  have hmmN : mm < N := by rw [hmmdef]; split <;> omega
  have hmmn : mm ≠ n := by
    rw [hmmdef]
    by_cases h0 : n = 0
    · subst h0; simp
    · have : (n == 0) = false := by simpa using h0
      rw [this]; simp only [Bool.false_eq_true, if_false]; exact fun h => h0 h.symm
  set U' := absorbWeights L.weights L.factors n with hU'
  have hU'len : U'.length = N := by simp [hU', absorbWeights, hlen]
  have hU'get : ∀ m, m < N → U'.getD m [] =
      if m = mm then (L.factors.getD m []).map (fun row => List.zipWith (· * ·) row L.weights)
      else L.factors.getD m [] := fun m hm => absorbWeights_getD L.weights L.factors n m (by rw [hlen]; exact hm)
  have hgmf : getMttkrpFactors (.kruskal L) n N = .ok U' := by
    unfold getMttkrpFactors
    simp only [← hmmdef, ← hU']
    have h1 : ¬ (mm ≥ L.factors.length) := by rw [hlen]; omega
    have h2 : (U'.length != N) = false := by rw [hU'len]; exact bne_self_eq_false _
    simp [h1, h2]
  refine ⟨U', hgmf, ?_, ?_, ?_⟩
  · intro m hm
    rw [hU'get m hm]
    split
    · rw [List.length_map]
    · rfl
  · intro m hm hc row hrow
    rw [hU'get m hm] at hrow
    split at hrow
    · obtain ⟨row', hr', rfl⟩ := List.mem_map.1 hrow
      rw [List.length_zipWith, hc row' hr', hw, Nat.min_self]
    · exact hc row hrow
  · intro X hX i r
    rw [← spec_mttkrp_absorb X (fun m x c => (L.factors.getD m []).get x c)
      (fun r => L.weights.getD r 0) n mm i r (by rw [hX]; exact hmmN) hmmn]
    unfold Spec.mttkrp Spec.sumOver
    congr 1
    apply sum_congr
    intro k _
    congr 2
    apply List.map_congr_left
    intro m hm
    have hm' : m < N := by rw [← hX]; exact List.mem_range.1 (List.mem_filter.1 hm).1
    simp only
    rw [hU'get m hm']
    by_cases h : m = mm
    · rw [if_pos h, if_pos h, get_scaled_rows]
    · rw [if_neg h, if_neg h]

/-- **Kruskal `mttkrp` with a Kruskal operand** (its weights scale the columns). -/
theorem kruskal_mttkrp_kruskal_spec [CommSemiring α] (K L : Ktensor α) (n R : Nat)
    (hN2 : 2 ≤ K.factors.length) (hn : n < K.factors.length) (hlen : L.factors.length = K.factors.length)
    (hw : L.weights.length = R)
    (hrows : ∀ m, m < K.factors.length → m ≠ n → (L.factors.getD m []).length = (K.factors.getD m []).length)
    (hcols : ∀ m, m < K.factors.length → m ≠ n → ∀ row ∈ L.factors.getD m [], row.length = R)
    (hpos : ∀ m, m < K.factors.length → m ≠ n → 0 < (K.factors.getD m []).length) :
    ∃ V, K.mttkrp (.kruskal L) n = .ok V ∧ V.length = (K.factors.getD n []).length ∧ (∀ row ∈ V, row.length = R) ∧
      ∀ i r, i < (K.factors.getD n []).length → r < R →
        V.get i r = Spec.mttkrp K.den (fun m x c => (L.factors.getD m []).get x c)
          (fun r => L.weights.getD r 0) n i r := by
  obtain ⟨fs, hfs, f1, f2, f3⟩ := getMttkrpFactors_kruskal L n K.factors.length R hN2 hn hlen hw
  obtain ⟨V, hV, hV1, hV2, hval⟩ := kruskal_mttkrp_fs K (.kruskal L) fs n R hfs hN2 hn
    (fun m hm hmn => by rw [f1 m hm]; exact hrows m hm hmn)
    (fun m hm hmn => f2 m hm (hcols m hm hmn)) hpos
  refine ⟨V, hV, hV1, hV2, ?_⟩
  intro i r hi hr
  rw [hval i r hi hr, f3 K.den (kshape_length K) i r]

end MLK
end Pyttb
