/-
Run-level composition of the CP-ALS lemmas: invariants of a pass, the final loop state,
the clean-up, the reported values.
-/
import PyttbModel.Lemmas.CpAls
import PyttbModel.Lemmas.CpAlsNormalForm

set_option linter.unusedSectionVars false
set_option linter.unusedSimpArgs false
namespace Pyttb.CpAls
open Pyttb

section runlevel
variable {α : Type} [Field α] [LinearOrder α] [IsStrictOrderedRing α]

/-- `M.arrange()` then `M.fixsigns()` when requested. -/
def cleanup (o : NumOps α) (fix : Bool) (M0 : Ktensor α) : Ktensor α :=
  if fix then fixsigns o (arrange o M0) else arrange o M0

theorem finish_M (D : Data α) (o : NumOps α) (P : Params α) (di od : List Nat) (K : Ktensor α) (st : State α) :
    (finish D o P di od K st).M = cleanup o P.fixsigns ⟨st.weights, st.U⟩ := rfl

theorem cleanup_spec {o : NumOps α} (ho : o.Lawful) (fix : Bool) (K : Ktensor α) :
    (cleanup o fix K).factors.length = K.factors.length ∧ (cleanup o fix K).weights.length = K.weights.length ∧
    (∀ m, ((cleanup o fix K).factors.getD m []).length = (K.factors.getD m []).length) ∧
    NormalCols o (cleanup o fix K) ∧ (∀ w ∈ (cleanup o fix K).weights, 0 ≤ w) ∧
    (cleanup o fix K).weights.Pairwise (fun a b => b ≤ a) ∧
    (∀ m < K.factors.length, ∀ row ∈ (cleanup o fix K).factors.getD m [], row.length = K.weights.length) := by
  obtain ⟨a1, a2, a3, a4, a5, a6, a7⟩ := arrange_spec ho K
  unfold cleanup
  cases fix with
  | false => exact ⟨a1, a2, a3, a4, a5, a6, a7⟩
  | true =>
    obtain ⟨f1, f2, f3, f4, f5⟩ := fixsigns_spec (o := o) (arrange o K) a4
    simp only [if_true]
    refine ⟨by rw [f1, a1], by rw [f2, a2], fun m => by rw [f3, a3], f4, by rw [f2]; exact a5, by rw [f2]; exact a6,
      fun m hm row hrow => ?_⟩
    rw [f5 m (by rw [a1]; exact hm) row hrow, a2]

/-- What a pass preserves / establishes. -/
structure PassInv (D : Data α) (rank : Nat) (st : State α) : Prop where
  shape : ShapeOK D.shape rank st.U
  gram : GramOK rank st

theorem closePass_fields (o : NumOps α) (stoptol : α) (it : Nat) (fitold nr fit : α) (st1 : State α) :
    (closePass o stoptol it fitold nr fit st1).U = st1.U ∧
    (closePass o stoptol it fitold nr fit st1).UtU = st1.UtU ∧
    (closePass o stoptol it fitold nr fit st1).weights = st1.weights ∧
    (closePass o stoptol it fitold nr fit st1).Umttkrp = st1.Umttkrp ∧
    (closePass o stoptol it fitold nr fit st1).iteration = it ∧
    (closePass o stoptol it fitold nr fit st1).fit = fit ∧
    (closePass o stoptol it fitold nr fit st1).normresidual = nr ∧
    (closePass o stoptol it fitold nr fit st1).stop = Gen.stopTest o it (Gen.fitchange o fitold fit) stoptol :=
  ⟨rfl, rfl, rfl, rfl, rfl, rfl, rfl, rfl⟩

theorem iterStep_inv {D : Data α} {S : Services α} {o : NumOps α} {rank : Nat} {stoptol : α} {dims : List Nat}
    {it : Nat} {st st' : State α} (h : iterStep D S o rank stoptol dims it st = .ok st')
    (hI : PassInv D rank st) :
    PassInv D rank st' ∧ st'.iteration = it ∧ (dims ≠ [] → st'.weights.length = rank) := by
  obtain ⟨st1, hf, rfl⟩ := iterStep_ok h
  have hs := foldlM_shape dims hf hI.shape
  have hg := gramOK_foldlM dims hf hI.gram
  exact ⟨⟨hs.1, hg⟩, rfl, hs.2⟩

theorem passInv_init {D : Data α} {rank : Nat} (dims : List Nat) {K : Ktensor α}
    (hK : ShapeOK D.shape rank K.factors) : PassInv D rank (initState D rank dims K) :=
  ⟨hK, gramOK_init D rank dims K⟩

/-- Everything known about the final loop state of a successful run. -/
theorem run_final {D : Data α} {S : Services α} {o : NumOps α} {P : Params α} {init : Init α} {out : Output α}
    (h : run D S o P init = .ok out) (hi : InitOK D P.rank init) :
    ∃ di od dims K sprev st,
      setup D P init = .ok (di, od, dims, K) ∧ P.maxiters ≠ 0 ∧
      out = finish D o P di od K st ∧
      PassInv D P.rank sprev ∧
      iterStep D S o P.rank P.stoptol dims st.iteration sprev = .ok st ∧
      PassInv D P.rank st ∧ st.weights.length = P.rank ∧
      st.iteration < P.maxiters ∧ (st.stop = true ∨ st.iteration + 1 = P.maxiters) ∧
      dims ≠ [] ∧ dims.getLastD 0 < D.shape.length := by
  obtain ⟨di, od, dims, K, st, hs, hm, hl, rfl⟩ := run_ok h
  obtain ⟨s1, s2, s3, s4, s5, s6, s7⟩ := setup_spec hs hi
  have hspec := loopFrom_spec (iterStep D S o P.rank P.stoptol dims) (PassInv D P.rank)
    (fun k s s' hinv hstep => by
      have := iterStep_inv hstep hinv
      exact ⟨this.1, this.2.1⟩)
    P.maxiters 0 _ st (Nat.pos_of_ne_zero hm) (passInv_init dims s1) hl
  obtain ⟨i1, _, i3, i4, sprev, i5, i6⟩ := hspec
  have hw := (iterStep_inv i6 i5).2.2 s3
  have hlast : dims.getLastD 0 < D.shape.length := by
    have hmem : dims.getLastD 0 ∈ dims := by
      rw [List.getLastD_eq_getLast?, List.getLast?_eq_some_getLast s3]
      exact List.getLast_mem s3
    have hmem' : dims.getLastD 0 ∈ di.filter (fun d => od.contains d) := s6 ▸ hmem
    exact isPermOf_lt s5 _ (List.mem_filter.1 hmem').1
  exact ⟨di, od, dims, K, sprev, st, hs, hm, rfl, i5, i6, i1, hw, by omega, by simpa using i4, s3, hlast⟩

/-- `ktensor.norm()` squared is the squared Frobenius norm of the array the Kruskal tensor
denotes (the Kruskal norm identity; `Lemmas/CpAlsKnorm.lean` proves it). -/
def KnormLaw (α : Type) [Field α] (s : List Nat) : Prop :=
  ∀ (w : List α) (U : List (Mat α)), ShapeOK s w.length U →
    knormSq w U = ip s (Ktensor.get ⟨w, U⟩) (Ktensor.get ⟨w, U⟩)

theorem knorm_mul_self {o : NumOps α} (ho : o.Lawful) {s : List Nat} (hkn : KnormLaw α s) (w : List α)
    (U : List (Mat α)) (hU : ShapeOK s w.length U) :
    knorm o w U * knorm o w U = ip s (Ktensor.get ⟨w, U⟩) (Ktensor.get ⟨w, U⟩) := by
  unfold knorm
  rw [(ho.sqrt_abs_sq _).2, hkn w U hU, abs_of_nonneg (ip_self_nonneg _ _)]

/-- The pair `(normresidual, fit)` computed by `report` from `‖X‖`, `‖M‖`, `⟨X, M⟩`. -/
theorem report_spec {o : NumOps α} (ho : o.Lawful) (s : List Nat) (X M : List Nat → α) (nx nm ipr : α)
    (hM : nm * nm = ip s M M) (hI : ipr = ip s X M) :
    (nx ≠ 0 → nx * nx = ip s X X →
      0 ≤ (report o nx nm ipr).1 ∧
      (report o nx nm ipr).1 * (report o nx nm ipr).1 = ip s (fun i => X i - M i) (fun i => X i - M i) ∧
      (report o nx nm ipr).2 = 1 - (report o nx nm ipr).1 / nx) ∧
    (nx = 0 →
      (report o nx nm ipr).1 = ip s M M - 2 * ip s X M ∧ (report o nx nm ipr).2 = ip s M M - 2 * ip s X M) := by
  constructor
  · intro hnz hX
    have hb : Gen.branchZero o nx = false := by
      rw [Gen.branchZero, Bool.eq_false_iff, Ne, ho.isZero_iff]; exact hnz
    have h := normresidual_spec ho s X M nx nm ipr hX hM hI
    simp only [report, hb, Bool.false_eq_true, if_false]
    exact ⟨h.1, h.2, fit_spec ho _ _⟩
  · intro hz
    have hb : Gen.branchZero o nx = true := by rw [Gen.branchZero, ho.isZero_iff]; exact hz
    have h := normresidualZero_spec ho s X M nm ipr hM hI
    simp only [report, hb, if_true]
    exact ⟨h.1, h.2⟩

/-- The values a pass reports are about the model `[[weights; U]]` it has just assembled. -/
theorem iterStep_report {D : Data α} {S : Services α} {o : NumOps α} (ho : o.Lawful) {rank : Nat} {stoptol : α}
    {dims : List Nat} {it : Nat} {st st' : State α} {X : List Nat → α}
    (h : iterStep D S o rank stoptol dims it st = .ok st') (hI : PassInv D rank st)
    (hne : dims ≠ []) (hlast : dims.getLastD 0 < D.shape.length)
    (hD : DataLaws D X) (hkn : KnormLaw α D.shape) :
    let M : List Nat → α := Ktensor.get ⟨st'.weights, st'.U⟩
    iprodOf rank (D.shape.getD (dims.getLastD 0) 0) (st'.U.getD (dims.getLastD 0) []) st'.Umttkrp st'.weights
        = ip D.shape X M ∧
    (D.norm ≠ 0 → D.norm * D.norm = ip D.shape X X →
      0 ≤ st'.normresidual ∧
      st'.normresidual * st'.normresidual = ip D.shape (fun i => X i - M i) (fun i => X i - M i) ∧
      st'.fit = 1 - st'.normresidual / D.norm) ∧
    (D.norm = 0 →
      st'.normresidual = ip D.shape M M - 2 * ip D.shape X M ∧ st'.fit = ip D.shape M M - 2 * ip D.shape X M) := by
  obtain ⟨st1, hf, rfl⟩ := iterStep_ok h
  have hs := foldlM_shape dims hf hI.shape
  have hw := hs.2 hne
  have hip := sweep_iprod hD dims hne hlast hI.shape hf
  have hnm := knorm_mul_self ho hkn st1.weights st1.U (by rw [hw]; exact hs.1)
  have hr := report_spec ho D.shape X (Ktensor.get ⟨st1.weights, st1.U⟩) D.norm (knorm o st1.weights st1.U) _ hnm hip
  dsimp only [closePass, passReport]
  exact ⟨hip, hr.1, hr.2⟩

end runlevel
end Pyttb.CpAls
