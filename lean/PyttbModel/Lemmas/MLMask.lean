/-
C02 — `ktensor.mask`: the values of the Kruskal tensor at the mask's subscripts.
-/
import PyttbModel.Lemmas.MLSparse
import PyttbModel.Lemmas.MLSparseTtm
import PyttbModel.Ops.MultilinearKT
namespace Pyttb
namespace ML

variable {α : Type}

theorem foldl_add_eq [AddCommMonoid α] {β : Type} (l : List β) (g : β → α) (v : α) :
    l.foldl (fun acc p => acc + g p) v = v + (l.map g).sum := by
  induction l generalizing v with
  | nil => simp
  | cons a l ih => rw [List.foldl_cons, ih, List.map_cons, List.sum_cons, add_assoc]

theorem zipWith_get_eq_range [CommSemiring α] (fs : List (Mat α)) (i : List Nat) (r : Nat) (h : i.length = fs.length) :
    (List.zipWith (fun (A : Mat α) ik => Mat.get A ik r) fs i).prod =
      ((List.range fs.length).map fun k => (fs.getD k []).get (i.getD k 0) r).prod := by
  congr 1
  apply List.ext_getElem
  · simp [h]
  · intro k h1 h2
    simp only [List.length_map, List.length_range] at h2
    simp [List.getD_eq_getElem?_getD, List.getElem?_eq_getElem h2, List.getElem?_eq_getElem (h ▸ h2)]

/-- **`ktensor.mask`**: for a mask of the same order and no larger extents, the result lists the
entries `Σ_j λ_j ∏_k A_k[i_k, j]` of the Kruskal tensor at the mask's subscripts, in their order. -/
theorem kruskal_mask_spec [CommSemiring α] (K : Ktensor α) (wshape : List Nat) (wsubs : List (List Nat))
    (hl : wshape.length = K.factors.length) (hle : ∀ p ∈ wshape.zip K.shape, p.1 ≤ p.2)
    (hsub : ∀ i ∈ wsubs, i.length = K.factors.length) :
    K.mask wshape wsubs = .ok (wsubs.map K.get) := by
  unfold Ktensor.mask
  have g1 : (wshape.length != K.factors.length) = false := by rw [hl]; exact bne_self_eq_false _
  have g2 : ((wshape.zip K.shape).any fun p => decide (p.1 > p.2)) = false := by
    rw [List.any_eq_false]; intro p hp; have := hle p hp; simp; omega
  simp only [g1, g2, Bool.false_eq_true, if_false]
  congr 1
  apply List.map_congr_left
  intro i hi
  rw [foldl_add_eq, zero_add]
  show _ = ((List.range K.ncomp).map fun r => K.weights.getD r 0 * K.comp r i).sum
  congr 1
  apply List.map_congr_left
  intro j _
  rw [foldl_mul_eq]
  show _ = K.weights.getD j 0 * (List.zipWith (fun A ik => Mat.get A ik j) K.factors i).prod
  rw [zipWith_get_eq_range K.factors i j (hsub i hi)]

theorem kruskal_mask_rejects [Add α] [Mul α] [Zero α] (K : Ktensor α) (wshape : List Nat) (wsubs : List (List Nat))
    (h : wshape.length ≠ K.factors.length ∨ ∃ p ∈ wshape.zip K.shape, p.1 > p.2) :
    K.mask wshape wsubs = .error .reject := by
  unfold Ktensor.mask
  rcases h with h | ⟨p, hp, hgt⟩
  · have : (wshape.length != K.factors.length) = true := by simpa using h
    rw [this]; rfl
  · by_cases h1 : (wshape.length != K.factors.length) = true
    · rw [h1]; rfl
    · have h1' : (wshape.length != K.factors.length) = false := by simpa using h1
      have : ((wshape.zip K.shape).any fun p => decide (p.1 > p.2)) = true := by
        rw [List.any_eq_true]; exact ⟨p, hp, by simpa using hgt⟩
      rw [h1', this]; rfl

/-- **Tucker `full` with a sparse core** goes through the sparse `ttm` kernel and returns exactly what
`full` returns for the same Tucker tensor with the core expanded. -/
theorem tuckerS_full_eq [CommSemiring α] [DecidableEq α] (T : TtensorS α) (hS : T.core.WF) :
    T.full = (⟨T.core.full, T.factors⟩ : Ttensor α).full := by
  unfold TtensorS.full Ttensor.full
  exact sparse_ttm_eq_full T.core hS _ none none false

end ML
end Pyttb
