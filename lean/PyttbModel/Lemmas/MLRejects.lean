/-
C02 — the reject branches of the Kruskal / Tucker / sum-tensor kernels (and of the sparse-core Tucker
kernels): what each kernel refuses, as theorems about the models.
-/
import PyttbModel.Ops.MultilinearTS
import PyttbModel.Lemmas.MLSum
namespace Pyttb
namespace MLK
open ML

variable {α : Type}

theorem reject_eq (e : Reject) : e = .reject := by cases e; rfl

/-! ### `get_mttkrp_factors` -/

/-- `get_mttkrp_factors` refuses a factor list or a Kruskal tensor with another number of factors than the
tensor has modes, and a Kruskal tensor without the factor the weights would be absorbed into. -/
theorem getMttkrpFactors_rejects [Mul α] (U : KOperand α) (n N : Nat)
    (h : match U with
      | .list L => L.length ≠ N
      | .kruskal K => K.factors.length ≠ N ∨ K.factors.length ≤ (if n == 0 then 1 else 0)) :
    getMttkrpFactors U n N = .error .reject := by
  unfold getMttkrpFactors
  cases U with
  | list L =>
    have : (L.length != N) = true := by simpa using h
    simp only [this, if_true]
  | kruskal K =>
    simp only
    by_cases h1 : (if n == 0 then 1 else 0) ≥ K.factors.length
    · rw [if_pos h1]
    · rw [if_neg h1]
      rcases h with h | h
      · have hl : (absorbWeights K.weights K.factors n).length = K.factors.length := by simp [absorbWeights]
        have : ((absorbWeights K.weights K.factors n).length != N) = true := by rw [hl]; simpa using h
        rw [this, if_pos rfl]
      · exact absurd h (by omega)

/-! ### `mttkrp` -/

/-- Whatever `get_mttkrp_factors` refuses, `mttkrp` of every representation refuses (a dense or sparse tensor of
order < 2 is refused before). -/
theorem part_mttkrp_rejects_factors [Add α] [Mul α] [Zero α] [BEq α] (p : ML.Part α) (U : KOperand α) (n : Nat)
    (h : getMttkrpFactors U n p.shape.length = .error .reject) : p.mttkrp U n = .error .reject := by
  cases p with
  | dense t =>
    show t.mttkrp U n = _
    unfold Dense.mttkrp
    have h' : getMttkrpFactors U n t.shape.length = .error .reject := h
    split
    · rfl
    · rw [h']
  | sparse s =>
    show s.mttkrp U n = _
    unfold Sparse.mttkrp
    have h' : getMttkrpFactors U n s.shape.length = .error .reject := h
    simp only
    split
    · rfl
    · rw [h']
  | kruskal k =>
    show k.mttkrp U n = _
    unfold Ktensor.mttkrp
    have h' : getMttkrpFactors U n k.factors.length = .error .reject := by rw [← kshape_length]; exact h
    simp only [h']
  | tucker t =>
    show t.mttkrp U n = _
    unfold Ttensor.mttkrp
    have h' : getMttkrpFactors U n t.factors.length = .error .reject := by rw [← tshape_length]; exact h
    simp only [h']

/-- A mode index that is not a mode is refused by the sparse, Kruskal and Tucker `mttkrp`. -/
theorem part_mttkrp_rejects_mode [Add α] [Mul α] [Zero α] [BEq α] (p : ML.Part α) (U : KOperand α) (n : Nat)
    (hn : p.shape.length ≤ n) (hp : ∀ t, p ≠ .dense t) : p.mttkrp U n = .error .reject := by
  cases p with
  | dense t => exact absurd rfl (hp t)
  | sparse s =>
    show s.mttkrp U n = _
    unfold Sparse.mttkrp
    have : n ≥ s.shape.length := hn
    simp only [this, if_true]
  | kruskal k =>
    show k.mttkrp U n = _
    unfold Ktensor.mttkrp
    have : n ≥ k.factors.length := by rw [← kshape_length]; exact hn
    simp only
    cases hf : getMttkrpFactors U n k.factors.length with
    | error e => rw [reject_eq e]
    | ok fs => simp only [this, if_true]
  | tucker t =>
    show t.mttkrp U n = _
    unfold Ttensor.mttkrp
    have : n ≥ t.factors.length := by rw [← tshape_length]; exact hn
    simp only
    cases hf : getMttkrpFactors U n t.factors.length with
    | error e => rw [reject_eq e]
    | ok fs => simp only [this, if_true]

/-- A factor matrix (of a mode other than `n`) whose number of rows is not the extent of its mode is refused by the
Tucker `mttkrp` (`UₘᵀVₘ` cannot be formed), dense or sparse core alike. -/
theorem tucker_mttkrp_rejects_rows [Add α] [Mul α] [Zero α] [BEq α] (F : List (Mat α)) (cd : Dense α) (cs : Sparse α)
    (U : List (Mat α)) (n m : Nat) (hm : m < F.length) (hmn : m ≠ n)
    (hrow : (U.getD m []).length ≠ (F.getD m []).length) :
    Ttensor.mttkrp ⟨cd, F⟩ (.list U) n = .error .reject ∧ TtensorS.mttkrp ⟨cs, F⟩ (.list U) n = .error .reject := by
  have hg : (List.range F.length).any (fun i => i != n && (U.getD i []).length != (F.getD i []).length) = true := by
    rw [List.any_eq_true]
    refine ⟨m, List.mem_range.2 hm, ?_⟩
    have h1 : (m != n) = true := by simpa using hmn
    have h2 : ((U.getD m []).length != (F.getD m []).length) = true := by simpa using hrow
    rw [h1, h2]; rfl
  constructor
  · unfold Ttensor.mttkrp
    simp only
    cases hf : getMttkrpFactors (.list U) n F.length with
    | error e => rw [reject_eq e]
    | ok fs =>
      have hfs : fs = U := by
        unfold getMttkrpFactors at hf
        simp only at hf
        split at hf
        · cases hf
        · exact (Except.ok.inj hf).symm
      subst hfs
      simp only
      split <;> rfl
  · unfold TtensorS.mttkrp
    simp only
    cases hf : getMttkrpFactors (.list U) n F.length with
    | error e => rw [reject_eq e]
    | ok fs =>
      have hfs : fs = U := by
        unfold getMttkrpFactors at hf
        simp only at hf
        split at hf
        · cases hf
        · exact (Except.ok.inj hf).symm
      subst hfs
      simp only
      split <;> rfl

/-- The sparse-core Tucker `mttkrp` refuses what `get_mttkrp_factors` refuses and a mode index that is not a mode. -/
theorem tuckerS_mttkrp_rejects [Add α] [Mul α] [Zero α] [BEq α] (T : TtensorS α) (U : KOperand α) (n : Nat)
    (h : getMttkrpFactors U n T.factors.length = .error .reject ∨ T.factors.length ≤ n) :
    T.mttkrp U n = .error .reject := by
  unfold TtensorS.mttkrp
  simp only
  cases hf : getMttkrpFactors U n T.factors.length with
  | error e => rw [reject_eq e]
  | ok fs =>
    rcases h with h | h
    · rw [hf] at h; cases h
    · have : n ≥ T.factors.length := h
      simp only [this, if_true]

/-! ### `ttv`: a mode listed twice -/

theorem eraseDups_length_le' : ∀ (k : Nat) (m : List Nat), m.length ≤ k → m.eraseDups.length ≤ m.length := by
  intro k
  induction k with
  | zero =>
    intro m hm
    have : m = [] := List.length_eq_zero_iff.1 (by omega)
    subst this
    simp
  | succ k ih =>
    intro m hm
    cases m with
    | nil => simp
    | cons b m =>
      rw [List.eraseDups_cons]
      have h1 := List.length_filter_le (fun c => !c == b) m
      have h2 := ih (m.filter fun c => !c == b) (by simp only [List.length_cons] at hm; omega)
      simp only [List.length_cons]
      omega

theorem eraseDups_length_lt_of_dup {l : List Nat} (h : ¬ l.Nodup) : l.eraseDups.length ≠ l.length := by
  induction l with
  | nil => exact absurd List.nodup_nil h
  | cons a l ih =>
    rw [List.eraseDups_cons]
    by_cases ha : a ∈ l
    · have hf : (l.filter fun b => !b == a).length < l.length := by
        apply List.length_filter_lt_length_iff_exists.2
        exact ⟨a, ha, by simp⟩
      have := eraseDups_length_le' _ (l.filter fun b => !b == a) (Nat.le_refl _)
      simp only [List.length_cons]
      omega
    · have hl : ¬ l.Nodup := fun hn => h (List.nodup_cons.2 ⟨ha, hn⟩)
      have hfe : l.filter (fun b => !b == a) = l := by
        rw [List.filter_eq_self]
        intro b hb
        have : b ≠ a := fun e => ha (e ▸ hb)
        simpa using this
      rw [hfe]
      simp only [List.length_cons]
      have := ih hl
      omega

/-- The Kruskal `ttv` kernel refuses a mode that is paired twice (the sizes being right). -/
theorem kruskal_ttvCore_rejects_dup [Add α] [Mul α] [Zero α] (K : Ktensor α) (pairs : List (Nat × List α))
    (hdup : ¬ (pairs.map (·.1)).Nodup) : K.ttvCore pairs = .error .reject := by
  unfold Ktensor.ttvCore
  simp only
  split
  · rfl
  · have : ((pairs.map (·.1)).eraseDups.length != (pairs.map (·.1)).length) = true := by
      simpa using eraseDups_length_lt_of_dup hdup
    rw [this, if_pos rfl]

/-! ### `ttm` of a Tucker tensor -/

/-- `ttensor.ttm` refuses a matrix whose size does not fit the extent of its mode (and whatever mode designation
`tt_dimscheck` refuses). -/
theorem tucker_ttm_rejects [Add α] [Mul α] [Zero α] (T : Ttensor α) (Ms : List (Dense.MatArg α))
    (dims excl : Option (List Int)) (tr : Bool) :
    (resolveModes T.factors.length Ms dims excl = .error .reject → T.ttm Ms dims excl tr = .error .reject) ∧
    (∀ pairs, resolveModes T.factors.length Ms dims excl = .ok pairs →
      (∃ p ∈ pairs, (if tr then p.2.m else p.2.n) ≠ (T.factors.getD p.1 []).length) →
      T.ttm Ms dims excl tr = .error .reject) := by
  constructor
  · intro h
    unfold Ttensor.ttm
    simp only [h]
  · intro pairs h ⟨p, hp, hne⟩
    unfold Ttensor.ttm
    simp only [h]
    have : pairs.any (fun p => (if tr then p.2.m else p.2.n) != (T.factors.getD p.1 []).length) = true := by
      rw [List.any_eq_true]
      exact ⟨p, hp, by simpa using hne⟩
    rw [this, if_pos rfl]

/-! ### inner products -/

theorem sparse_innerprodSparse_rejects [Add α] [Mul α] [Zero α] (S O : Sparse α) (hs : S.shape ≠ O.shape) :
    S.innerprodSparse O = .error .reject := by
  unfold Sparse.innerprodSparse
  have : (S.shape != O.shape) = true := by simp [hs]
  rw [this]; rfl

theorem sparse_innerprodDense_rejects' [Add α] [Mul α] [Zero α] (S : Sparse α) (Z : Dense α) (hs : S.shape ≠ Z.shape) :
    S.innerprodDense Z = .error .reject := by
  unfold Sparse.innerprodDense
  have : (S.shape != Z.shape) = true := by simp [hs]
  rw [this]; rfl

theorem tucker_innerprodSparse_rejects [Add α] [Mul α] [Zero α] [BEq α] (T : Ttensor α) (S : Sparse α)
    (hs : T.shape ≠ S.shape) : T.innerprodSparse S = .error .reject := by
  unfold Ttensor.innerprodSparse
  have : (T.shape != S.shape) = true := by simp [hs]
  rw [this]; rfl

theorem kruskalVia_rejects [Add α] [Mul α] [Zero α] [BEq α] (K : Ktensor α) (o : ML.Part α) (hs : K.shape ≠ o.shape) :
    ML.Part.kruskalVia K o = .error .reject := by
  unfold ML.Part.kruskalVia
  have : (K.shape != o.shape) = true := by simp [hs]
  rw [this]; rfl

/-- **`x.innerprod(y)` of two objects of different shapes is refused**, for every pair of representations
(all 16 dispatch cases). -/
theorem part_innerprod_rejects [Add α] [Mul α] [Zero α] [BEq α] (x y : ML.Part α) (hs : x.shape ≠ y.shape) :
    x.innerprod y = .error .reject := by
  have hs' : y.shape ≠ x.shape := fun h => hs h.symm
  cases x with
  | dense a =>
    cases y with
    | dense b => exact dense_innerprod_rejects a b hs
    | sparse b => exact sparse_innerprodDense_rejects' b a hs'
    | kruskal b => exact kruskalVia_rejects b (.dense a) hs'
    | tucker b => exact tucker_innerprodDense_rejects b a hs'
  | sparse a =>
    cases y with
    | dense b => exact sparse_innerprodDense_rejects' a b hs
    | sparse b => exact sparse_innerprodSparse_rejects a b hs
    | kruskal b => exact kruskalVia_rejects b (.sparse a) hs'
    | tucker b => exact tucker_innerprodSparse_rejects b a hs'
  | kruskal a =>
    cases y with
    | dense b => exact kruskalVia_rejects a (.dense b) hs
    | sparse b => exact kruskalVia_rejects a (.sparse b) hs
    | kruskal b => exact kruskal_innerprodK_rejects a b hs
    | tucker b => exact kruskalVia_rejects a (.tucker b) hs
  | tucker a =>
    cases y with
    | dense b => exact tucker_innerprodDense_rejects a b hs
    | sparse b => exact tucker_innerprodSparse_rejects a b hs
    | kruskal b => exact kruskalVia_rejects b (.tucker a) hs'
    | tucker b => exact tucker_innerprodT_rejects a b hs

/-- The sparse-core Tucker inner products refuse an operand of another shape. -/
theorem tuckerS_innerprod_rejects [Add α] [Mul α] [Zero α] [BEq α] (T : TtensorS α) :
    (∀ S : Sparse α, T.shape ≠ S.shape → T.innerprodSparse S = .error .reject) ∧
    (∀ K : Ktensor α, K.shape ≠ T.shape → T.innerprodKruskal K = .error .reject) := by
  constructor
  · intro S hs
    unfold TtensorS.innerprodSparse
    have : (T.shape != S.shape) = true := by simp [hs]
    rw [this]; rfl
  · intro K hs
    unfold TtensorS.innerprodKruskal
    have : (K.shape != T.shape) = true := by simp [hs]
    rw [this]; rfl

/-! ### sum tensors -/

theorem mapM_reject {γ δ : Type} (l : List γ) (f : γ → Except Reject δ) (h : ∃ x ∈ l, f x = .error .reject) :
    l.mapM f = .error .reject := by
  induction l with
  | nil => obtain ⟨x, hx, _⟩ := h; cases hx
  | cons a l ih =>
    rw [List.mapM_cons]
    cases ha : f a with
    | error e => rw [reject_eq e]; rfl
    | ok v =>
      obtain ⟨x, hx, he⟩ := h
      rcases List.mem_cons.1 hx with rfl | hmem
      · rw [ha] at he; cases he
      · rw [ih ⟨x, hmem, he⟩]; rfl

/-- A sum tensor without parts, or with a part whose `mttkrp` is refused, is refused. -/
theorem sum_mttkrp_rejects [Add α] [Mul α] [Zero α] [BEq α] (S : ML.Sumtensor α) (U : KOperand α) (n : Nat)
    (h : S = [] ∨ ∃ p ∈ S, p.mttkrp U n = .error .reject) : ML.Sumtensor.mttkrp S U n = .error .reject := by
  unfold ML.Sumtensor.mttkrp
  cases S with
  | nil => rfl
  | cons p0 ps =>
    simp only
    rcases h with h | h
    · cases h
    · cases h0 : p0.mttkrp U n with
      | error e => rw [reject_eq e]
      | ok v =>
        simp only
        apply foldlM_step_reject ps
        obtain ⟨q, hq, he⟩ := h
        rcases List.mem_cons.1 hq with rfl | hmem
        · rw [h0] at he; cases he
        · exact ⟨q, hmem, fun a => by simp only [he]⟩

/-- A sum tensor with a part whose `ttv` is refused is refused. -/
theorem sum_ttv_rejects [Add α] [Mul α] [Zero α] [BEq α] (S : ML.Sumtensor α) (vs : List (List α))
    (dims excl : Option (List Int)) (h : ∃ p ∈ S, p.ttv vs dims excl = .error .reject) :
    ML.Sumtensor.ttv S vs dims excl = .error .reject := by
  unfold ML.Sumtensor.ttv
  rw [mapM_reject S _ h]

/-- `sumtensor.full()` without parts, or with a part that cannot be expanded, is refused. -/
theorem sum_full_rejects [Add α] [Mul α] [Zero α] (S : ML.Sumtensor α)
    (h : S = [] ∨ ∃ p ∈ S, p.full = .error .reject) : ML.Sumtensor.full S = .error .reject := by
  unfold ML.Sumtensor.full
  cases S with
  | nil => rfl
  | cons p0 ps =>
    simp only
    rcases h with h | h
    · cases h
    · cases h0 : p0.full with
      | error e => rw [reject_eq e]
      | ok v =>
        simp only
        apply foldlM_step_reject ps
        obtain ⟨q, hq, he⟩ := h
        rcases List.mem_cons.1 hq with rfl | hmem
        · rw [h0] at he; cases he
        · exact ⟨q, hmem, fun a => by unfold ML.Sumtensor.addPart; simp only [he]⟩

end MLK
end Pyttb
