/-
Concrete inputs used by the counterexample theorems and the non-vacuity examples of
Props/C13, and the feasibility predicate of the L-BFGS-B contract.
-/
import PyttbModel.Alg.Optim
namespace Pyttb
open Opt

/-- A vector of factor entries within the bounds handed to the optimiser. -/
def C13Feasible {α : Type} [LE α] (lb : Option α) (v : List α) : Prop := ∀ l, lb = some l → ∀ x ∈ v, l ≤ x

/-- An SGD run used by the counterexamples: one epoch of one step, estimates 8 then 7. -/
def c13Hyper : Hyper Rat := ⟨1 / 2, 1 / 2, 1, 1, 1, none, 1 / 2, 1 / 2, 1 / 1024⟩

def c13Init : Ktensor Rat := ⟨[1], [[[1], [2]], [[3]]]⟩

def c13F : Nat → Ktensor Rat → Rat := fun k _ => if k = 0 then 8 else 7

def c13G : Nat → Ktensor Rat → Factors Rat := fun _ _ => [[[2], [0]], [[0]]]

/-- A square root that is exact on the two arguments the counterexample uses. -/
def c13Sqrt : Rat → Rat := fun x => if x = 4 then 2 else if x = 9 then 3 else 0

/-- estimates 8, 9 (failed), 7, 10 (failed → stop); gradients constant. -/
def c13F2 : Nat → Ktensor Rat → Rat := fun k _ => [8, 9, 7, 10].getD k 0

def c13Hyper2 : Hyper Rat := ⟨1 / 2, 1 / 2, 1, 2, 5, none, 1 / 2, 1 / 2, 1 / 1024⟩


end Pyttb
