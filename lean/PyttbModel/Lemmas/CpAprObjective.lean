/-
Lemmas for C11 (CP-APR), part 6: the sum of ALL entries of a Kruskal tensor factorises over
the modes; for L1-normalised non-negative columns with the weights absorbed in mode 0 it is
the sum of factor 0 — the second term of `tt_loglikelihood`.
-/
import PyttbModel.Lemmas.CpAprDenote
set_option linter.unusedSectionVars false
set_option linter.unusedVariables false
namespace Pyttb.CpApr
open Pyttb.CpApr.Gen

variable {α : Type} [Field α] [LinearOrder α] [IsStrictOrderedRing α]

/-- Sum of column `r`. -/
def colSum (A : Mat α) (r : Nat) : α := sumOver A.length fun i => A.get i r

/-! ### list-sum algebra -/

theorem sum_map_flatMap {β γ : Type} (l : List β) (f : β → List γ) (g : γ → α) :
    ((l.flatMap f).map g).sum = (l.map fun x => ((f x).map g).sum).sum := by
  induction l with
  | nil => simp
  | cons x xs ih => simp [List.flatMap_cons, List.map_append, List.sum_append, ih]

theorem sum_swap {β : Type} (L : List β) (R : Nat) (f : β → Nat → α) :
    (L.map fun x => ((List.range R).map fun r => f x r).sum).sum =
    ((List.range R).map fun r => (L.map fun x => f x r).sum).sum := by
  induction L with
  | nil => simp
  | cons x xs ih =>
    simp only [List.map_cons, List.sum_cons]
    rw [ih, ← List.sum_map_add]

theorem allSubs_nil : allSubs [] = [[]] := by
  simp [allSubs, numel, ind2sub]

/-- One component summed over all subscripts is the product of its column sums. -/
theorem sum_comp_allSubs (r : Nat) : ∀ fs : List (Mat α),
    ((allSubs (fs.map List.length)).map fun i =>
      (List.zipWith (fun (A : Mat α) ik => A.get ik r) fs i).prod).sum =
    (fs.map fun A => colSum A r).prod := by
  intro fs
  induction fs with
  | nil => simp [allSubs_nil]
  | cons A fs ih =>
    rw [List.map_cons, allSubs_cons, sum_map_flatMap]
    have e : ∀ t : List Nat,
        (((List.range A.length).map fun i => i :: t).map fun i =>
          (List.zipWith (fun (A : Mat α) ik => A.get ik r) (A :: fs) i).prod).sum =
        colSum A r * (List.zipWith (fun (A : Mat α) ik => A.get ik r) fs t).prod := by
      intro t
      rw [List.map_map]
      show ((List.range A.length).map fun i =>
        A.get i r * (List.zipWith (fun (A : Mat α) ik => A.get ik r) fs t).prod).sum = _
      rw [List.sum_map_mul_right]
      rfl
    simp only [e]
    rw [List.sum_map_mul_left, ih, List.map_cons, List.prod_cons]

/-- The sum of all entries of a Kruskal tensor: `Σ_r λ_r ∏ₙ (column sum of Aₙ[:, r])`. -/
theorem sum_get_allSubs (K : Ktensor α) :
    ((allSubs (K.factors.map List.length)).map K.get).sum =
    ((List.range K.weights.length).map fun r =>
      vget K.weights r * (K.factors.map fun A => colSum A r).prod).sum := by
  unfold Ktensor.get Ktensor.ncomp Ktensor.comp
  rw [sum_swap]
  apply congrArg
  apply List.map_congr_left
  intro r _
  rw [List.sum_map_mul_left, sum_comp_allSubs]
  rfl

theorem prod_eq_one_of_all {l : List α} (h : ∀ x ∈ l, x = 1) : l.prod = 1 := by
  induction l with
  | nil => simp
  | cons x xs ih =>
    rw [List.prod_cons, h x (by simp), ih (fun y hy => h y (by simp [hy])), one_mul]

/-- With unit weights, and for every component either all column sums beyond mode 0 equal to one
or the column of mode 0 summing to zero, the sum of all entries is the sum of the column sums of
factor 0. -/
theorem sum_get_eq_colSums (K : Ktensor α) (A0 : Mat α) (rest : List (Mat α))
    (hK : K.factors = A0 :: rest)
    (hw : ∀ r < K.weights.length, vget K.weights r = 1)
    (hcols : ∀ r < K.weights.length, (∀ A ∈ rest, colSum A r = 1) ∨ colSum A0 r = 0) :
    ((allSubs (K.factors.map List.length)).map K.get).sum =
    ((List.range K.weights.length).map fun r => colSum A0 r).sum := by
  rw [sum_get_allSubs]
  apply congrArg
  apply List.map_congr_left
  intro r hr
  have hr' := List.mem_range.mp hr
  rw [hw r hr', one_mul, hK, List.map_cons, List.prod_cons]
  rcases hcols r hr' with h | h
  · rw [prod_eq_one_of_all, mul_one]
    intro x hx
    simp only [List.mem_map] at hx
    obtain ⟨A, hA, rfl⟩ := hx
    exact h A hA
  · rw [h, zero_mul]

theorem map_range_getD_self {β : Type} (l : List β) (d : β) :
    (List.range l.length).map (fun k => l.getD k d) = l := by
  apply List.ext_getElem (by simp)
  intro k h1 h2
  simp only [List.getElem_map, List.getElem_range]
  rw [List.getD_eq_getElem?_getD, List.getElem?_eq_getElem h2]
  rfl

/-- `np.sum(A)` of an `I × R` matrix is the sum of its column sums. -/
theorem matSum_eq_colSums {A : Mat α} {R : Nat} (hrows : ∀ row ∈ A, row.length = R) :
    matSum A = ((List.range R).map fun r => colSum A r).sum := by
  unfold matSum colSum sumOver
  rw [← sum_swap]
  conv_lhs => rw [← map_range_getD_self A []]
  rw [List.map_map]
  apply congrArg
  apply List.map_congr_left
  intro i hi
  have hi' := List.mem_range.mp hi
  simp only [Function.comp]
  have hlen : (A.getD i []).length = R := by
    rw [List.getD_eq_getElem?_getD, List.getElem?_eq_getElem hi']
    exact hrows _ (List.getElem_mem hi')
  conv_lhs => rw [← map_range_getD_self (A.getD i []) 0, hlen]
  rfl

/-! ### column sums of a normalised non-negative model -/

section cols
variable (log : α → α)

theorem colSum_tab {I R : Nat} (f : Nat → Nat → α) {r : Nat} (hr : r < R) :
    colSum (tab I R f) r = sumOver I fun i => f i r := by
  unfold colSum sumOver
  rw [tab_length]
  apply congrArg
  apply List.map_congr_left
  intro i hi
  exact tab_get f (List.mem_range.mp hi) hr

theorem colNorm1_eq_colSum {A : Mat α} (h : NonnegM A) (r : Nat) :
    colNorm1 (NumOps.ofField log) A r = colSum A r := by
  unfold colNorm1 colSum sumOver
  apply congrArg
  apply List.map_congr_left
  intro i _
  exact abs_of_nonneg (get_nonneg h i r)

theorem tab_get_self {A : Mat α} {R : Nat} (hrows : ∀ row ∈ A, row.length = R) :
    tab A.length R (fun i r => A.get i r) = A := by
  unfold tab
  apply List.ext_getElem (by simp)
  intro i h1 h2
  simp only [List.getElem_map, List.getElem_range]
  have hrow : (A[i]).length = R := hrows _ (List.getElem_mem h2)
  have e : A.getD i [] = A[i] := by
    rw [List.getD_eq_getElem?_getD, List.getElem?_eq_getElem h2]; rfl
  unfold Mat.get
  rw [e, ← hrow]
  exact map_range_getD_self (A[i]) 0

theorem set_factor_self (K : Ktensor α) (n : Nat) : K.factors.set n (factor K n) = K.factors := by
  unfold factor
  by_cases hn : n < K.factors.length
  · apply List.ext_getElem (by simp)
    intro i h1 h2
    rw [List.getElem_set]
    split
    · next h => subst h; rw [List.getD_eq_getElem?_getD, List.getElem?_eq_getElem h2]; rfl
    · rfl
  · rw [List.set_eq_of_length_le (Nat.le_of_not_lt hn)]

/-- For a non-negative well-shaped model the sign flip does nothing. -/
theorem flipNeg_eq_self {K : Ktensor α} (h : NonnegK K) {shape : List Nat} {R : Nat}
    (hs : ShapeK shape R K) : flipNeg (NumOps.ofField log) K = K := by
  obtain ⟨hw, hf⟩ := flipNeg_eq_of_nonneg log h
  have e : tab (factor K 0).length K.weights.length (fun i r => (factor K 0).get i r) = factor K 0 := by
    rw [hs.1]; exact tab_get_self (factor_isMat hs 0)
  rw [e, set_factor_self] at hf
  cases hfl : flipNeg (NumOps.ofField log) K with
  | mk w f =>
    rw [hfl] at hw hf
    simp only at hw hf
    cases K
    simp only at hw hf
    rw [hw, hf]

/-- Modes `< k` have, for every component, column sum one — or column sum zero and weight zero. -/
def ColsNormed (R : Nat) (K : Ktensor α) (k : Nat) : Prop :=
  ∀ n < k, ∀ r < R, colSum (factor K n) r = 1 ∨ (colSum (factor K n) r = 0 ∧ vget K.weights r = 0)

theorem normalizeMode_cols {K : Ktensor α} (h : NonnegK K) {R : Nat} (hR : K.weights.length = R) {k : Nat}
    (hk : k < K.factors.length) (hc : ColsNormed R K k) :
    ColsNormed R (normalizeMode (NumOps.ofField log) K k) (k + 1) := by
  intro n hn r hr
  have hrK : r < K.weights.length := hR ▸ hr
  have hwr : vget (normalizeMode (NumOps.ofField log) K k).weights r =
      vget K.weights r * colNorm1 (NumOps.ofField log) (factor K k) r := by
    unfold normalizeMode
    simp only
    rw [vget_map_range hrK, vget_map_range hrK]
  by_cases hnk : n = k
  · subst hnk
    have hfac : factor (normalizeMode (NumOps.ofField log) K n) n = tab (factor K n).length K.weights.length
        (fun i r => if (NumOps.ofField log).lt 0
            (vget ((List.range K.weights.length).map (colNorm1 (NumOps.ofField log) (factor K n))) r)
          then (1 / vget ((List.range K.weights.length).map (colNorm1 (NumOps.ofField log) (factor K n))) r) *
            (factor K n).get i r
          else (factor K n).get i r) := by
      unfold normalizeMode
      exact factor_set_self hk _
    rw [hfac, colSum_tab _ hrK, vget_map_range hrK, hwr, colNorm1_eq_colSum log (factor_nonneg h n)]
    by_cases hpos : 0 < colSum (factor K n) r
    · left
      have hlt : (NumOps.ofField log).lt 0 (colSum (factor K n) r) = true := decide_eq_true hpos
      simp only [hlt, if_true]
      unfold sumOver
      rw [List.sum_map_mul_left]
      show 1 / colSum (factor K n) r * colSum (factor K n) r = 1
      field_simp
    · right
      have hlt : (NumOps.ofField log).lt 0 (colSum (factor K n) r) = false := decide_eq_false hpos
      have hz : colSum (factor K n) r = 0 :=
        le_antisymm (not_lt.mp hpos) (sumOver_nonneg fun i => get_nonneg (factor_nonneg h n) i r)
      simp only [hlt]
      refine ⟨?_, by rw [hz, mul_zero]⟩
      exact hz
  · have hlt : n < k := by omega
    have hfac : factor (normalizeMode (NumOps.ofField log) K k) n = factor K n := by
      unfold normalizeMode
      exact factor_set_ne (Ne.symm hnk) _
    rw [hfac, hwr]
    rcases hc n hlt r hr with h1 | ⟨h1, h2⟩
    · exact Or.inl h1
    · exact Or.inr ⟨h1, by rw [h2, zero_mul]⟩

theorem foldl_normalize_cols {K : Ktensor α} (h : NonnegK K) :
    ∀ k, k ≤ K.factors.length →
      NonnegK ((List.range k).foldl (normalizeMode (NumOps.ofField log)) K) ∧
      ((List.range k).foldl (normalizeMode (NumOps.ofField log)) K).factors.length = K.factors.length ∧
      ((List.range k).foldl (normalizeMode (NumOps.ofField log)) K).weights.length = K.weights.length ∧
      ColsNormed K.weights.length ((List.range k).foldl (normalizeMode (NumOps.ofField log)) K) k := by
  intro k
  induction k with
  | zero =>
    intro _
    exact ⟨h, rfl, rfl, fun n hn => absurd hn (Nat.not_lt_zero n)⟩
  | succ k ih =>
    intro hk
    obtain ⟨h1, h2, h3, h4⟩ := ih (Nat.le_of_succ_le hk)
    rw [List.range_succ, List.foldl_append, List.foldl_cons, List.foldl_nil]
    refine ⟨normalizeMode_nonneg log h1 k, by rw [normalizeMode_nfactors, h2],
      by rw [normalizeMode_nweights, h3], ?_⟩
    exact normalizeMode_cols log h1 h3 (by rw [h2]; exact hk) h4

theorem normalize1_cols {K : Ktensor α} (h : NonnegK K) {shape : List Nat} {R : Nat}
    (hs : ShapeK shape R K) :
    ColsNormed R (normalize1 (NumOps.ofField log) K) K.factors.length := by
  unfold normalize1
  rw [flipNeg_eq_self log (normalizeAll_nonneg log h) (normalizeAll_shape _ hs)]
  have := (foldl_normalize_cols log h K.factors.length le_rfl).2.2.2
  rw [hs.1] at this
  exact this

/-- THE LEMMA behind the second term of `tt_loglikelihood`: after
`normalize(weight_factor=0, normtype=1)` of a non-negative model, the sum of all entries of the
tensor equals `np.sum(factor_matrices[0])`. -/
theorem normalizeAbsorb0_sum {K : Ktensor α} (h : NonnegK K) {shape : List Nat} {R : Nat}
    (hs : ShapeK shape R K) (hN : 0 < shape.length) :
    ((allSubs shape).map (normalizeAbsorb0 (NumOps.ofField log) K).get).sum =
      matSum (factor (normalizeAbsorb0 (NumOps.ofField log) K) 0) := by
  have hs0 := normalize1_shape (NumOps.ofField log) hs
  have hcols := normalize1_cols log h hs
  have hNf : 0 < K.factors.length := by
    have := congrArg List.length hs.2.1
    rw [List.length_map] at this
    omega
  have hN0 : (normalize1 (NumOps.ofField log) K).factors.length = K.factors.length :=
    normalize1_nfactors _ K
  generalize hK0 : normalize1 (NumOps.ofField log) K = K0 at hs0 hcols hN0
  unfold normalizeAbsorb0
  rw [hK0]
  have hs1 := absorb0_shape hs0
  obtain ⟨A0, rest, hfac⟩ : ∃ A0 rest, K0.factors = A0 :: rest := by
    cases hf : K0.factors with
    | nil => rw [hf] at hN0; simp at hN0; omega
    | cons A0 rest => exact ⟨A0, rest, rfl⟩
  have hfactor0 : factor K0 0 = A0 := by unfold factor; rw [hfac]; rfl
  have hB : (absorb0 K0).factors =
      (tab A0.length K0.weights.length fun i r => A0.get i r * vget K0.weights r) :: rest := by
    unfold absorb0
    simp only
    rw [hfactor0, hfac]
    rfl
  have hfB : factor (absorb0 K0) 0 =
      tab A0.length K0.weights.length fun i r => A0.get i r * vget K0.weights r := by
    unfold factor; rw [hB]; rfl
  have hwlen : (absorb0 K0).weights.length = K0.weights.length := by simp [absorb0]
  rw [← hs1.2.1, sum_get_eq_colSums (absorb0 K0) _ rest hB]
  · rw [hfB, hwlen]
    exact (matSum_eq_colSums tab_row_length).symm
  · intro r hr
    rw [hwlen] at hr
    exact vget_map_const_one hr
  · intro r hr
    rw [hwlen] at hr
    have hrR : r < R := hs0.1 ▸ hr
    by_cases hall : ∀ A ∈ rest, colSum A r = 1
    · exact Or.inl hall
    · right
      simp only [not_forall] at hall
      obtain ⟨A, hA, hne⟩ := hall
      obtain ⟨m, hm, rfl⟩ := List.mem_iff_getElem.mp hA
      have hfm : factor K0 (m + 1) = rest[m] := by
        unfold factor
        rw [hfac, List.getD_eq_getElem?_getD]
        simp [hm]
      have hm1 : m + 1 < K.factors.length := by
        rw [← hN0, hfac]; simpa using hm
      rcases hcols (m + 1) hm1 r hrR with h1 | ⟨_, h2⟩
      · rw [hfm] at h1; exact absurd h1 hne
      · rw [colSum_tab _ hr]
        unfold sumOver
        rw [h2]
        simp

end cols

/-! ### the first term: the model value at a subscript -/

section terms

theorem foldl_mul_eq (a : α) (l : List α) : l.foldl (· * ·) a = a * l.prod := by
  induction l generalizing a with
  | nil => simp
  | cons x xs ih => rw [List.foldl_cons, ih, List.prod_cons, mul_assoc]

theorem compL_eq_comp (K : Ktensor α) (r : Nat) (sub : List Nat) : compL K r sub = K.comp r sub := by
  unfold compL Ktensor.comp
  cases List.zipWith (fun (A : Mat α) ik => A.get ik r) K.factors sub with
  | nil => simp
  | cons a rest => simp only [List.prod_cons]; exact foldl_mul_eq a rest

/-- With unit weights the row sum `np.sum(A, axis=1)` of the sparse path is the model entry. -/
theorem sumOver_compL_eq_get (K : Ktensor α) (hw : ∀ r < K.weights.length, vget K.weights r = 1)
    (sub : List Nat) : (sumOver K.weights.length fun r => compL K r sub) = K.get sub := by
  unfold sumOver Ktensor.get Ktensor.ncomp
  apply congrArg
  apply List.map_congr_left
  intro r hr
  have := hw r (List.mem_range.mp hr)
  unfold vget at this
  rw [this, one_mul, compL_eq_comp]

end terms

/-! ### `tt_loglikelihood` -/

section loglik
variable (log : α → α)

theorem logLik_model (o : NumOps α) (X : Data α) (K : Ktensor α) :
    (logLik o X K).1 = normalizeAbsorb0 o K := by
  unfold logLik; cases X <;> rfl

theorem normalizeAbsorb0_unit_weights (o : NumOps α) (K : Ktensor α) :
    ∀ r < (normalizeAbsorb0 o K).weights.length, vget (normalizeAbsorb0 o K).weights r = 1 := by
  intro r hr
  unfold normalizeAbsorb0 absorb0 at hr ⊢
  simp only [List.length_map] at hr
  exact vget_map_const_one hr

theorem logLik_dense (T : Dense α) {K : Ktensor α} (h : NonnegK K) {R : Nat} (hs : ShapeK T.shape R K)
    (hN : 0 < T.shape.length) :
    (logLik (NumOps.ofField log) (.dense T) K).2 =
      ((List.range (numel T.shape)).map fun k =>
        if vget T.data k = 0 then 0
        else vget T.data k * log ((normalizeAbsorb0 (NumOps.ofField log) K).get (ind2sub T.shape k))).sum -
      ((allSubs T.shape).map (normalizeAbsorb0 (NumOps.ofField log) K).get).sum := by
  rw [normalizeAbsorb0_sum log h hs hN]
  show llCombine _ _ = _
  unfold llCombine
  congr 2
  apply List.map_congr_left
  intro k _
  unfold llTermDense
  show (if decide (vget T.data k = 0) = true then _ else _) = _
  simp only [decide_eq_true_eq]
  rfl

theorem logLik_sparse (S : Sparse α) {K : Ktensor α} (h : NonnegK K) {R : Nat} (hs : ShapeK S.shape R K)
    (hN : 0 < S.shape.length) :
    (logLik (NumOps.ofField log) (.sparse S) K).2 =
      ((List.range S.subs.length).map fun k =>
        vget S.vals k * log ((normalizeAbsorb0 (NumOps.ofField log) K).get (S.subs.getD k []))).sum -
      ((allSubs S.shape).map (normalizeAbsorb0 (NumOps.ofField log) K).get).sum := by
  rw [normalizeAbsorb0_sum log h hs hN]
  show llCombine _ _ = _
  unfold llCombine
  congr 2
  apply List.map_congr_left
  intro k _
  unfold llTermSparse
  rw [sumOver_compL_eq_get _ (normalizeAbsorb0_unit_weights _ K)]
  rfl

end loglik

end Pyttb.CpApr
