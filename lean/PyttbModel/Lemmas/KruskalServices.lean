/-
C08 lemmas: the concrete services satisfy the laws the theorems assume.  `colNorm` for the
1-norm and the max-norm are norms outright; the 2-norm is a norm for any `sqrt` with
`sqrt x ≥ 0` and `sqrt x * sqrt x = x` on `x ≥ 0`; the stable insertion argsort returns a
sorting permutation.
-/
import PyttbModel.Lemmas.KruskalSigns
set_option linter.unusedSectionVars false
namespace Pyttb

variable {α : Type}

section field
variable [Field α] [LinearOrder α] [IsStrictOrderedRing α]

open Ktensor

/-! ### 1-norm -/

theorem sum_absOf_nonneg (v : List α) : 0 ≤ (v.map absOf).sum := by
  induction v with
  | nil => simp
  | cons x v ih => simp only [List.map_cons, List.sum_cons]; exact add_nonneg (absOf_nonneg x) ih

theorem norm1_laws (sqrt : α → α) : NormLaws (colNorm sqrt .one : List α → α) := by
  refine ⟨fun v => sum_absOf_nonneg v, ?_, ?_⟩
  · intro v
    simp only [colNorm]
    induction v with
    | nil => simp
    | cons x v ih =>
      intro h y hy
      simp only [List.map_cons, List.sum_cons] at h
      have h1 := absOf_nonneg x
      have h2 := sum_absOf_nonneg v
      have hx : absOf x = 0 := by linarith
      have hv : (v.map absOf).sum = 0 := by linarith
      rcases List.mem_cons.1 hy with rfl | hy
      · rw [absOf_eq_abs] at hx; exact abs_eq_zero.1 hx
      · exact ih hv y hy
  · intro c v
    simp only [colNorm, List.map_map]
    rw [← List.sum_map_mul_left]
    congr 1
    apply List.map_congr_left
    intro x _
    simp only [Function.comp, absOf_eq_abs, abs_mul]

/-! ### max-norm -/

theorem maxStep_eq (m a : α) : (if m < a then a else m) = max m a := by
  rcases lt_or_ge m a with h | h
  · rw [if_pos h, max_eq_right h.le]
  · rw [if_neg (not_lt.2 h), max_eq_left h]

theorem foldl_max_ge (v : List α) (m : α) :
    m ≤ v.foldl (fun m x => if m < absOf x then absOf x else m) m ∧
    ∀ x ∈ v, absOf x ≤ v.foldl (fun m x => if m < absOf x then absOf x else m) m := by
  induction v generalizing m with
  | nil => simp
  | cons y v ih =>
    simp only [List.foldl_cons, maxStep_eq]
    obtain ⟨h1, h2⟩ := ih (max m (absOf y))
    simp only [maxStep_eq] at h1 h2
    refine ⟨le_trans (le_max_left _ _) h1, ?_⟩
    intro x hx
    rcases List.mem_cons.1 hx with rfl | hx
    · exact le_trans (le_max_right _ _) h1
    · exact h2 x hx

theorem foldl_max_smul (c : α) (v : List α) (m : α) :
    (v.map (c * ·)).foldl (fun m x => if m < absOf x then absOf x else m) (|c| * m)
      = |c| * v.foldl (fun m x => if m < absOf x then absOf x else m) m := by
  induction v generalizing m with
  | nil => simp
  | cons y v ih =>
    simp only [List.map_cons, List.foldl_cons, maxStep_eq]
    have : max (|c| * m) (absOf (c * y)) = |c| * max m (absOf y) := by
      rw [absOf_eq_abs, absOf_eq_abs, abs_mul, mul_max_of_nonneg _ _ (abs_nonneg c)]
    rw [this]
    have := ih (max m (absOf y))
    simp only [maxStep_eq] at this
    exact this

theorem normInf_laws (sqrt : α → α) : NormLaws (colNorm sqrt .inf : List α → α) := by
  refine ⟨fun v => (foldl_max_ge v 0).1, ?_, ?_⟩
  · intro v h x hx
    simp only [colNorm] at h
    have := (foldl_max_ge v 0).2 x hx
    rw [h] at this
    have h0 : absOf x = 0 := le_antisymm this (absOf_nonneg x)
    rw [absOf_eq_abs] at h0
    exact abs_eq_zero.1 h0
  · intro c v
    simp only [colNorm]
    have := foldl_max_smul c v 0
    rw [mul_zero] at this
    exact this

/-! ### 2-norm -/

theorem sum_sq_nonneg (v : List α) : 0 ≤ (v.map fun x => x * x).sum := by
  induction v with
  | nil => simp
  | cons x v ih => simp only [List.map_cons, List.sum_cons]; exact add_nonneg (mul_self_nonneg x) ih

theorem norm2_laws (sqrt : α → α) (hs1 : ∀ x, 0 ≤ x → 0 ≤ sqrt x) (hs2 : ∀ x, 0 ≤ x → sqrt x * sqrt x = x) :
    NormLaws (colNorm sqrt .two : List α → α) := by
  refine ⟨fun v => hs1 _ (sum_sq_nonneg v), ?_, ?_⟩
  · intro v h
    simp only [colNorm] at h
    have hs : (v.map fun x => x * x).sum = 0 := by
      have := hs2 _ (sum_sq_nonneg v)
      rw [h, mul_zero] at this
      exact this.symm
    clear h
    induction v with
    | nil => simp
    | cons x v ih =>
      intro y hy
      simp only [List.map_cons, List.sum_cons] at hs
      have h1 := mul_self_nonneg x
      have h2 := sum_sq_nonneg v
      have hx : x * x = 0 := by linarith
      have hv : (v.map fun x => x * x).sum = 0 := by linarith
      rcases List.mem_cons.1 hy with rfl | hy
      · exact mul_self_eq_zero.1 hx
      · exact ih hv y hy
  · intro c v
    simp only [colNorm, List.map_map]
    have e : (v.map ((fun x => x * x) ∘ fun x => c * x)).sum = (c * c) * (v.map fun x => x * x).sum := by
      rw [← List.sum_map_mul_left]
      congr 1
      apply List.map_congr_left
      intro x _
      simp only [Function.comp]
      ring
    rw [e]
    have hn := sum_sq_nonneg v
    have hcc : 0 ≤ c * c * (v.map fun x => x * x).sum := mul_nonneg (mul_self_nonneg c) hn
    apply (mul_self_inj (hs1 _ hcc) (mul_nonneg (abs_nonneg c) (hs1 _ hn))).1
    rw [hs2 _ hcc, mul_mul_mul_comm, hs2 _ hn, abs_mul_abs_self]

/-! ### the stable argsort -/

theorem insertIdx_perm (w : List α) (k : Nat) (acc : List Nat) : (insertIdx w k acc).Perm (k :: acc) := by
  induction acc with
  | nil => exact List.Perm.refl _
  | cons j js ih =>
    unfold insertIdx
    split
    · exact List.Perm.refl _
    · exact (List.Perm.cons j ih).trans (List.Perm.swap k j js)

theorem insertIdx_sorted (w : List α) (k : Nat) (acc : List Nat)
    (h : acc.Pairwise fun a b => w.getD a 0 ≤ w.getD b 0) :
    (insertIdx w k acc).Pairwise fun a b => w.getD a 0 ≤ w.getD b 0 := by
  induction acc with
  | nil => exact List.pairwise_singleton _ _
  | cons j js ih =>
    unfold insertIdx
    rw [List.pairwise_cons] at h
    split
    · rename_i hlt
      rw [List.pairwise_cons]
      refine ⟨?_, List.pairwise_cons.2 h⟩
      intro x hx
      rcases List.mem_cons.1 hx with rfl | hx
      · exact hlt.le
      · exact le_trans hlt.le (h.1 x hx)
    · rename_i hge
      rw [List.pairwise_cons]
      refine ⟨?_, ih h.2⟩
      intro x hx
      rcases List.mem_cons.1 ((insertIdx_perm w k js).mem_iff.1 hx) with rfl | hx
      · exact not_lt.1 hge
      · exact h.1 x hx

theorem foldl_insertIdx (w : List α) (l acc : List Nat)
    (h : acc.Pairwise fun a b => w.getD a 0 ≤ w.getD b 0) :
    (l.foldl (fun acc k => insertIdx w k acc) acc).Perm (l ++ acc) ∧
    (l.foldl (fun acc k => insertIdx w k acc) acc).Pairwise fun a b => w.getD a 0 ≤ w.getD b 0 := by
  induction l generalizing acc with
  | nil => exact ⟨List.Perm.refl _, h⟩
  | cons k l ih =>
    simp only [List.foldl_cons]
    obtain ⟨h1, h2⟩ := ih (insertIdx w k acc) (insertIdx_sorted w k acc h)
    refine ⟨h1.trans ?_, h2⟩
    exact ((List.Perm.append_left l (insertIdx_perm w k acc)).trans List.perm_middle)

theorem argsortStable_perm (w : List α) : isPermOf (argsortStable w) w.length = true := by
  rw [isPermOf_iff_perm]
  have := (foldl_insertIdx w (List.range w.length) [] List.Pairwise.nil).1
  simp only [List.append_nil] at this
  exact this.symm

theorem argsortStable_sorted (w : List α) :
    ((argsortStable w).map fun k => w.getD k 0).Pairwise (· ≤ ·) := by
  rw [List.pairwise_map]
  exact (foldl_insertIdx w (List.range w.length) [] List.Pairwise.nil).2

/-- The standard services are lawful for any square root and N-th root with the defining
properties on non-negative numbers. -/
theorem std_lawful (sqrt : α → α) (root : Nat → α → α)
    (hs1 : ∀ x, 0 ≤ x → 0 ≤ sqrt x) (hs2 : ∀ x, 0 ≤ x → sqrt x * sqrt x = x)
    (hr : ∀ (N : Nat) (x : α), 0 < N → 0 ≤ x → (root N x) ^ N = x) :
    (Services.std sqrt root).Lawful := by
  refine ⟨?_, argsortStable_perm, argsortStable_sorted, hr⟩
  intro nt
  cases nt
  · exact norm1_laws sqrt
  · exact norm2_laws sqrt hs1 hs2
  · exact normInf_laws sqrt

end field
end Pyttb
