/-
C14: the matrix formed by `ttensor.nvecs` (through the core) is the Gram matrix of the mode-n
unfolding of the array the Tucker tensor denotes.
-/
import PyttbModel.Lemmas.NvecsGramSparse
import PyttbModel.Lemmas.KhatriRao
namespace Pyttb

open Finset

variable {α : Type}

/-! ### `to_tenmat(cdims=[n])`: the other modes (increasing) index the rows -/

theorem isPermOf_modeLast (N n : Nat) (hn : n < N) : isPermOf (complDims N [n] ++ [n]) N = true := by
  rw [isPermOf_iff]
  refine ⟨by simp [length_complDims_single N n hn]; omega, ?_⟩
  intro m hm
  by_cases h : m = n
  · simp [h]
  · simp [complDims, hm, h]

theorem gather_invPerm_modeLast (N n a : Nat) (j : List Nat) (hn : n < N) (hj : j.length = N - 1) :
    gather (j ++ [a]) (invPerm (complDims N [n] ++ [n])) = insAt j n a := by
  have hp := isPermOf_modeLast N n hn
  have hnj : n ≤ j.length := by omega
  have hl : (insAt j n a).length = N := by rw [length_insAt j n a hnj]; omega
  symm
  rw [← gather_eq_iff hp hl (by simp; omega)]
  rw [gather_append, gather_cons, gather_nil, getD_insAt_self j n a hnj]
  congr 1
  have := gather_complDims (insAt j n a) n (by omega)
  rw [hl] at this
  rw [this, eraseIdx_insAt j n a hnj]

theorem toTenmat_colmode [Zero α] (T : Dense α) (n : Nat) (hn : n < T.shape.length) :
    T.toTenmat none (some [n]) none =
      .ok ⟨T.shape, complDims T.shape.length [n], [n],
        ⟨[numel (gather T.shape (complDims T.shape.length [n])), numel (gather T.shape [n])],
          (T.transpose (complDims T.shape.length [n] ++ [n])).data⟩⟩ := by
  have hp := isPermOf_modeLast T.shape.length n hn
  have hperm := permute_nonempty_c14 T _ (by simp) hp
  simp only [Dense.toTenmat, gatherWrapDims]
  simp [hn, hp, hperm]

/-- entry `(c, a)` of the transposed mode-n unfolding. -/
theorem unfold_entry_col [Zero α] (T : Dense α) (n a c : Nat) (hn : n < T.shape.length)
    (ha : a < T.shape.getD n 0) (hc : c < numel (T.shape.eraseIdx n)) :
    (⟨[numel (gather T.shape (complDims T.shape.length [n])), numel (gather T.shape [n])],
        (T.transpose (complDims T.shape.length [n] ++ [n])).data⟩ : Dense α).get [c, a] =
      T.get (insAt (ind2sub (T.shape.eraseIdx n) c) n a) := by
  have hrest := gather_complDims T.shape n hn
  set rest := T.shape.eraseIdx n with hrest_def
  have hsh : gather T.shape (complDims T.shape.length [n] ++ [n]) = rest ++ [T.shape.getD n 0] := by
    rw [gather_append, hrest]; rfl
  have hjb : InBounds rest (ind2sub rest c) := ind2sub_inBounds hc
  have hjl : (ind2sub rest c).length = T.shape.length - 1 := by
    rw [hjb.length_eq, hrest_def, List.length_eraseIdx]; simp [hn]
  have hib : InBounds (gather T.shape (complDims T.shape.length [n] ++ [n])) (ind2sub rest c ++ [a]) := by
    rw [hsh, inBounds_iff_getD]
    have h1 := (inBounds_iff_getD rest (ind2sub rest c)).1 hjb
    refine ⟨by simp [h1.1], ?_⟩
    intro k hk
    simp only [List.length_append, List.length_singleton] at hk
    by_cases hkr : k < rest.length
    · have := h1.2 k hkr
      simp only [List.getD_eq_getElem?_getD] at this ⊢
      rw [List.getElem?_append_left (by rw [h1.1]; exact hkr), List.getElem?_append_left hkr]
      exact this
    · have hk' : k = rest.length := by omega
      subst hk'
      simp only [List.getD_eq_getElem?_getD]
      rw [List.getElem?_append_right (by rw [h1.1]), List.getElem?_append_right (le_refl _)]
      simpa [h1.1] using ha
  have hg := transpose_get_c14 T (complDims T.shape.length [n] ++ [n]) hib
  rw [gather_invPerm_modeLast T.shape.length n a _ hn hjl] at hg
  rw [← hg]
  simp only [Dense.get, Dense.transpose, Dense.ofFn_shape]
  congr 1
  rw [hsh, hrest, sub2ind_append_singleton rest _ _ _ hjb.length_eq, sub2ind_ind2sub hc]
  simp [sub2ind, numel]

end Pyttb
