/-
C14: the matrix formed by `ttensor.nvecs` (through the core) is the Gram matrix of the mode-n
unfolding of the array the Tucker tensor denotes.
-/
import PyttbModel.Lemmas.NvecsGramSparse
import PyttbModel.Lemmas.KhatriRao
namespace Pyttb

open Finset

variable {α : Type}

/-! ### `to_tenmat(cdims=[n])`: the other modes (increasing) index the rows -/

theorem isPermOf_modeLast (N n : Nat) (hn : n < N) : isPermOf (complDims N [n] ++ [n]) N = true := by
  rw [isPermOf_iff]
  refine ⟨by simp [length_complDims_single N n hn]; omega, ?_⟩
  intro m hm
  by_cases h : m = n
  · simp [h]
  · simp [complDims, hm, h]

theorem gather_invPerm_modeLast (N n a : Nat) (j : List Nat) (hn : n < N) (hj : j.length = N - 1) :
    gather (j ++ [a]) (invPerm (complDims N [n] ++ [n])) = insAt j n a := by
  have hp := isPermOf_modeLast N n hn
  have hnj : n ≤ j.length := by omega
  have hl : (insAt j n a).length = N := by rw [length_insAt j n a hnj]; omega
  symm
  rw [← gather_eq_iff hp hl (by simp; omega)]
  rw [gather_append, gather_cons, gather_nil, getD_insAt_self j n a hnj]
  congr 1
  have := gather_complDims (insAt j n a) n (by omega)
  rw [hl] at this
  rw [this, eraseIdx_insAt j n a hnj]

theorem toTenmat_colmode [Zero α] (T : Dense α) (n : Nat) (hn : n < T.shape.length) :
    T.toTenmat none (some [n]) none =
      .ok ⟨T.shape, complDims T.shape.length [n], [n],
        ⟨[numel (gather T.shape (complDims T.shape.length [n])), numel (gather T.shape [n])],
          (T.transpose (complDims T.shape.length [n] ++ [n])).data⟩⟩ := by
  have hp := isPermOf_modeLast T.shape.length n hn
  have hperm := permute_nonempty_c14 T _ (by simp) hp
  simp only [Dense.toTenmat, gatherWrapDims]
  simp [hn, hp, hperm]

/-- entry `(c, a)` of the transposed mode-n unfolding. -/
theorem unfold_entry_col [Zero α] (T : Dense α) (n a c : Nat) (hn : n < T.shape.length)
    (ha : a < T.shape.getD n 0) (hc : c < numel (T.shape.eraseIdx n)) :
    (⟨[numel (gather T.shape (complDims T.shape.length [n])), numel (gather T.shape [n])],
        (T.transpose (complDims T.shape.length [n] ++ [n])).data⟩ : Dense α).get [c, a] =
      T.get (insAt (ind2sub (T.shape.eraseIdx n) c) n a) := by
  have hrest := gather_complDims T.shape n hn
  set rest := T.shape.eraseIdx n with hrest_def
  have hsh : gather T.shape (complDims T.shape.length [n] ++ [n]) = rest ++ [T.shape.getD n 0] := by
    rw [gather_append, hrest]; rfl
  have hjb : InBounds rest (ind2sub rest c) := ind2sub_inBounds hc
  have hjl : (ind2sub rest c).length = T.shape.length - 1 := by
    rw [hjb.length_eq, hrest_def, List.length_eraseIdx]; simp [hn]
  have hib : InBounds (gather T.shape (complDims T.shape.length [n] ++ [n])) (ind2sub rest c ++ [a]) := by
    rw [hsh, inBounds_iff_getD]
    have h1 := (inBounds_iff_getD rest (ind2sub rest c)).1 hjb
    refine ⟨by simp [h1.1], ?_⟩
    intro k hk
    simp only [List.length_append, List.length_singleton] at hk
    by_cases hkr : k < rest.length
    · have := h1.2 k hkr
      simp only [List.getD_eq_getElem?_getD] at this ⊢
      rw [List.getElem?_append_left (by rw [h1.1]; exact hkr), List.getElem?_append_left hkr]
      exact this
    · have hk' : k = rest.length := by omega
      subst hk'
      simp only [List.getD_eq_getElem?_getD]
      rw [List.getElem?_append_right (by rw [h1.1]), List.getElem?_append_right (le_refl _)]
      simpa [h1.1] using ha
  have hg := transpose_get_c14 T (complDims T.shape.length [n] ++ [n]) hib
  rw [gather_invPerm_modeLast T.shape.length n a _ hn hjl] at hg
  rw [← hg]
  simp only [Dense.get, Dense.transpose, Dense.ofFn_shape]
  congr 1
  rw [hsh, hrest, sub2ind_append_singleton rest _ _ _ hjb.length_eq, sub2ind_ind2sub hc]
  simp [sub2ind, numel]

/-! ### sums over all subscripts, with one mode split off -/

theorem list_sum_comm [AddCommMonoid α] {β γ : Type} (l₁ : List β) (l₂ : List γ) (f : β → γ → α) :
    (l₁.map fun x => (l₂.map fun y => f x y).sum).sum = (l₂.map fun y => (l₁.map fun x => f x y).sum).sum := by
  induction l₁ with
  | nil => simp
  | cons x l₁ ih => simp only [List.map_cons, List.sum_cons, ih, List.sum_map_add]

theorem sum_allSubs_cons [AddCommMonoid α] (e : Nat) (s : List Nat) (f : List Nat → α) :
    ((allSubs (e :: s)).map f).sum = ((allSubs s).map fun t => ((List.range e).map fun x => f (x :: t)).sum).sum := by
  rw [allSubs_cons, List.map_flatMap, List.flatMap_def, List.sum_flatten, List.map_map]
  congr 1
  apply List.map_congr_left
  intro t _
  simp only [Function.comp, List.map_map]
  rfl

/-- every subscript of `s` is a subscript of the other modes with a coordinate of mode `n` inserted. -/
theorem sum_allSubs_insAt [AddCommMonoid α] (s : List Nat) (n : Nat) (hn : n < s.length) (f : List Nat → α) :
    ((allSubs s).map f).sum =
      ((allSubs (s.eraseIdx n)).map fun j => ((List.range (s.getD n 0)).map fun p => f (insAt j n p)).sum).sum := by
  induction s generalizing n f with
  | nil => simp at hn
  | cons e s ih =>
    cases n with
    | zero =>
      rw [sum_allSubs_cons]
      simp [insAt_zero]
    | succ n =>
      simp only [List.length_cons, Nat.add_lt_add_iff_right] at hn
      rw [sum_allSubs_cons, List.eraseIdx_cons_succ, sum_allSubs_cons,
        ih n hn (fun t => ((List.range e).map fun x => f (x :: t)).sum)]
      congr 1
      apply List.map_congr_left
      intro j _
      simp only [List.getD_cons_succ, insAt_cons_succ]
      rw [list_sum_comm]

/-! ### products over the modes -/

/-- insertion at position `n` for any element type. -/
def insAtG {γ : Type} (j : List γ) (n : Nat) (a : γ) : List γ := j.take n ++ a :: j.drop n

theorem insAt_eq_insAtG (j : List Nat) (n a : Nat) : insAt j n a = insAtG j n a := rfl

theorem insAtG_zero {γ : Type} (j : List γ) (a : γ) : insAtG j 0 a = a :: j := by simp [insAtG]

theorem insAtG_cons_succ {γ : Type} (x : γ) (j : List γ) (n : Nat) (a : γ) :
    insAtG (x :: j) (n + 1) a = x :: insAtG j n a := by simp [insAtG]

theorem zip_insAtG {γ δ : Type} (x : List γ) (y : List δ) (n : Nat) (a : γ) (b : δ)
    (hl : x.length = y.length) (hn : n ≤ x.length) :
    (insAtG x n a).zip (insAtG y n b) = insAtG (x.zip y) n (a, b) := by
  induction n generalizing x y with
  | zero => simp [insAtG_zero]
  | succ n ih =>
    cases x with
    | nil => simp at hn
    | cons x0 xs =>
      cases y with
      | nil => simp at hl
      | cons y0 ys =>
        simp only [List.length_cons, Nat.add_right_cancel_iff, Nat.add_le_add_iff_right] at hl hn
        simp only [insAtG_cons_succ, List.zip_cons_cons, ih xs ys hl hn]

theorem prod_zipWith_insAtG {β γ : Type} [CommMonoid α] (g : β → γ → α) (Fs : List β) (j : List γ) (n : Nat)
    (a : γ) (d : β) (hn : n < Fs.length) (hj : j.length = Fs.length - 1) :
    (List.zipWith g Fs (insAtG j n a)).prod = g (Fs.getD n d) a * (List.zipWith g (Fs.eraseIdx n) j).prod := by
  induction Fs generalizing n j with
  | nil => simp at hn
  | cons A Fs ih =>
    cases n with
    | zero => simp [insAtG_zero]
    | succ n =>
      simp only [List.length_cons, Nat.add_lt_add_iff_right] at hn
      cases j with
      | nil => simp at hj; omega
      | cons x j =>
        simp only [List.length_cons, Nat.add_sub_cancel] at hj
        rw [insAtG_cons_succ, List.zipWith_cons_cons, List.prod_cons, List.eraseIdx_cons_succ,
          List.zipWith_cons_cons, List.prod_cons, ih j n hn (by omega)]
        simp only [List.getD_cons_succ]
        rw [mul_left_comm]

/-- `∏_k V_k[i_k, l_k]` as it appears in `ttm` and in the Tucker denotation. -/
def vprod [Mul α] [One α] [Zero α] (Vs : List (Mat α)) (i l : List Nat) : α :=
  (List.zipWith (fun (V : Mat α) (p : Nat × Nat) => V.get p.1 p.2) Vs (i.zip l)).prod

theorem vprod_insAt [CommSemiring α] (Vs : List (Mat α)) (c l : List Nat) (n a p : Nat) (hn : n < Vs.length)
    (hc : c.length = Vs.length - 1) (hl : l.length = Vs.length - 1) :
    vprod Vs (insAt c n a) (insAt l n p) = (Vs.getD n []).get a p * vprod (Vs.eraseIdx n) c l := by
  unfold vprod
  rw [insAt_eq_insAtG, insAt_eq_insAtG, zip_insAtG c l n a p (by omega) (by omega)]
  exact prod_zipWith_insAtG _ Vs (c.zip l) n (a, p) [] hn (by simp [hc, hl])

theorem vprod_eq_prod_range [CommSemiring α] (Vs : List (Mat α)) (i l : List Nat) (M : Nat) (hV : Vs.length = M)
    (hi : i.length = M) (hl : l.length = M) :
    vprod Vs i l = ∏ k ∈ range M, (Vs.getD k []).get (i.getD k 0) (l.getD k 0) := by
  rw [← prod_map_range]
  unfold vprod
  congr 1
  apply List.ext_getElem
  · simp [hV, hi, hl]
  · intro k h1 h2
    simp only [List.length_zipWith, List.length_zip, hV, hi, hl, Nat.min_self] at h1
    simp [List.getD_eq_getElem?_getD, hV, hi, hl, h1]

/-- the sum over all subscripts of a product over the modes is the product of per-mode sums
(position-indexed form). -/
theorem sum_allSubs_prod_range [CommSemiring α] (s : List Nat) (f : Nat → Nat → α) :
    ((allSubs s).map fun j => ∏ k ∈ range s.length, f k (j.getD k 0)).sum =
      ∏ k ∈ range s.length, ∑ t ∈ range (s.getD k 0), f k t := by
  have h := sum_allSubs_prod_zipWith (fun k t => f k t) (fun k => s.getD k 0) (List.range s.length)
  have hs : (List.range s.length).map (fun k => s.getD k 0) = s := gather_range s
  rw [hs] at h
  rw [← prod_map_range]
  have hr : ((List.range s.length).map fun A => ((List.range (s.getD A 0)).map (f A)).sum) =
      (List.range s.length).map fun k => ∑ t ∈ range (s.getD k 0), f k t := by
    apply List.map_congr_left
    intro k _
    rw [sum_map_range]
  rw [← hr, ← h]
  congr 1
  apply List.map_congr_left
  intro j hj
  have hjl : j.length = s.length := (mem_allSubs.1 hj).length_eq
  rw [← prod_map_range]
  congr 1
  apply List.ext_getElem
  · simp [hjl]
  · intro k h1 h2
    simp only [List.length_map, List.length_range] at h1
    simp [List.getD_eq_getElem?_getD, hjl, h1]

/-! ### the Tucker Gram matrix -/

/-- position `k` of a list without its `n`-th element. -/
def skipIdx (n k : Nat) : Nat := if k < n then k else k + 1

theorem getD_eraseIdx {β : Type} (l : List β) (n k : Nat) (d : β) :
    (l.eraseIdx n).getD k d = l.getD (skipIdx n k) d := by
  unfold skipIdx
  simp only [List.getD_eq_getElem?_getD, List.getElem?_eraseIdx]
  split <;> rfl

theorem skipIdx_ne (n k : Nat) : skipIdx n k ≠ n := by unfold skipIdx; split <;> omega

theorem skipIdx_lt (n k N : Nat) (hn : n < N) (hk : k < N - 1) : skipIdx n k < N := by
  unfold skipIdx; split <;> omega

theorem eraseIdx_congr (l₁ l₂ : List Nat) (n : Nat) (hl : l₁.length = l₂.length)
    (h : ∀ k, k ≠ n → l₁.getD k 0 = l₂.getD k 0) : l₁.eraseIdx n = l₂.eraseIdx n := by
  apply ext_getD (by simp [List.length_eraseIdx, hl])
  intro k _
  rw [getD_eraseIdx, getD_eraseIdx]
  exact h _ (skipIdx_ne n k)

section tucker
variable [CommSemiring α] (T : Ttensor α)

theorem nvecsVs_length (n : Nat) : (T.nvecsVs n).length = T.factors.length := by simp [Ttensor.nvecsVs]

theorem nvecsVs_self (n : Nat) (hn : n < T.factors.length) : (T.nvecsVs n).getD n [] = T.factors.getD n [] := by
  unfold Ttensor.nvecsVs
  rw [getD_map_range _ _ _ _ hn]
  simp

theorem nvecsVs_ne (n k : Nat) (hk : k < T.factors.length) (hkn : k ≠ n) :
    (T.nvecsVs n).getD k [] = gramCols (T.factors.getD k []) (T.core.shape.getD k 0) := by
  unfold Ttensor.nvecsVs
  rw [getD_map_range _ _ _ _ hk]
  simp [hkn]

/-- extents of `H = G.ttm(V)`: the core's, except `size` in mode `n`. -/
theorem nvecsVs_lengths (hT : T.WFn) (n : Nat) (hn : n < T.factors.length) :
    ((T.nvecsVs n).map List.length).length = T.core.shape.length ∧
    ((T.nvecsVs n).map List.length).getD n 0 = (T.factors.getD n []).length ∧
    ((T.nvecsVs n).map List.length).eraseIdx n = T.core.shape.eraseIdx n := by
  have hlen : ((T.nvecsVs n).map List.length).length = T.core.shape.length := by
    rw [List.length_map, nvecsVs_length, hT.len]
  refine ⟨hlen, ?_, ?_⟩
  · rw [getD_map (d := []) _ _ _ _ (by rw [nvecsVs_length]; exact hn), nvecsVs_self T n hn]
  · apply eraseIdx_congr _ _ n hlen
    intro k hkn
    by_cases hk : k < T.factors.length
    · rw [getD_map (d := []) _ _ _ _ (by rw [nvecsVs_length]; exact hk), nvecsVs_ne T n k hk hkn, length_gramCols]
    · have h1 : ((T.nvecsVs n).map List.length).length ≤ k := by rw [hlen, ← hT.len]; omega
      have h2 : T.core.shape.length ≤ k := by rw [← hT.len]; omega
      rw [getD0_of_le _ _ h1, getD0_of_le _ _ h2]

theorem ttmList_nvecsVs (hT : T.WFn) (n : Nat) (hn : n < T.factors.length) :
    T.core.ttmListNv (T.nvecsVs n) = .ok (Dense.ofFn ((T.nvecsVs n).map List.length) fun i =>
      ((allSubs T.core.shape).map fun l => vprod (T.nvecsVs n) i l * T.core.get l).sum) := by
  unfold Dense.ttmListNv
  have h1 : ((T.nvecsVs n).length != T.core.shape.length) = false := by
    rw [nvecsVs_length, hT.len]; simp
  have h2 : ((List.range (T.nvecsVs n).length).any fun k =>
      ((T.nvecsVs n).getD k []).any fun row => row.length != T.core.shape.getD k 0) = false := by
    rw [List.any_eq_false]
    intro k hk
    rw [nvecsVs_length] at hk
    have hk' := List.mem_range.1 hk
    rw [Bool.not_eq_true, List.any_eq_false]
    intro row hrow
    by_cases hkn : k = n
    · subst hkn
      rw [nvecsVs_self T k hn] at hrow
      simp [hT.rows k hn row hrow]
    · rw [nvecsVs_ne T n k hk' hkn] at hrow
      simp [rows_gramCols _ _ row hrow]
  simp only [h1, h2, Bool.false_eq_true, if_false]
  rfl

end tucker

theorem Ttensor.get_eq_vprod [CommSemiring α] (T : Ttensor α) (i : List Nat) :
    T.get i = ((allSubs T.core.shape).map fun l => T.core.get l * vprod T.factors i l).sum := rfl

theorem Ttensor.shape_getD (T : Ttensor α) (k : Nat) : T.shape.getD k 0 = (T.factors.getD k []).length := by
  unfold Ttensor.shape
  by_cases h : k < T.factors.length
  · rw [getD_map (d := []) _ _ _ _ h]
  · simp [List.getD_eq_getElem?_getD, Nat.le_of_not_lt h]

/-- the 2-way array of `to_tenmat(cdims=[n])`. -/
def colMat [Zero α] (D : Dense α) (n : Nat) : Dense α :=
  ⟨[numel (gather D.shape (complDims D.shape.length [n])), numel (gather D.shape [n])],
    (D.transpose (complDims D.shape.length [n] ++ [n])).data⟩

theorem colMat_shape0 [Zero α] (D : Dense α) (n : Nat) (hn : n < D.shape.length) :
    (colMat D n).shape.getD 0 0 = numel (D.shape.eraseIdx n) := by
  simp only [colMat, List.getD_cons_zero]
  rw [gather_complDims D.shape n hn]

theorem colMat_shape1 [Zero α] (D : Dense α) (n : Nat) : (colMat D n).shape.getD 1 0 = D.shape.getD n 0 := by
  simp [colMat, numel]

theorem colMat_get [Zero α] (D : Dense α) (n a c : Nat) (hn : n < D.shape.length)
    (ha : a < D.shape.getD n 0) (hc : c < numel (D.shape.eraseIdx n)) :
    (colMat D n).toMat.get c a = D.get (insAt (ind2sub (D.shape.eraseIdx n) c) n a) := by
  rw [get_toMat _ c a (by rw [colMat_shape0 D n hn]; exact hc) (by rw [colMat_shape1]; exact ha)]
  exact unfold_entry_col D n a c hn ha hc

theorem nvecsGram_tucker_eq [Add α] [Mul α] [Zero α] [One α] (T : Ttensor α) (n : Nat) (hn : n < T.factors.length)
    (H : Dense α) (hH : T.core.ttmListNv (T.nvecsVs n) = .ok H) (hnH : n < H.shape.length)
    (hncs : n < T.core.shape.length) :
    T.nvecsGram n = .ok (matMulN (transposeN (colMat H n).toMat (T.factors.getD n []).length)
      (matMulT (colMat T.core n).toMat (T.factors.getD n [])) (T.factors.getD n []).length) := by
  unfold Ttensor.nvecsGram
  have hge : ¬ (n ≥ T.factors.length) := by omega
  simp only [hge, if_false, hH, toTenmat_colmode H n hnH, toTenmat_colmode T.core n hncs]
  rfl

theorem gram_tucker [CommSemiring α] (T : Ttensor α) (hT : T.WFn) (n : Nat) (hn : n < T.factors.length) :
    ∃ Y, T.nvecsGram n = .ok Y ∧ Y.length = T.shape.getD n 0 ∧ (∀ row ∈ Y, row.length = T.shape.getD n 0) ∧
      ∀ a b, a < T.shape.getD n 0 → b < T.shape.getD n 0 → Y.get a b = gramSpec T.get T.shape n a b := by
  have hN : T.core.shape.length = T.factors.length := hT.len.symm
  have hncs : n < T.core.shape.length := by rw [hN]; exact hn
  obtain ⟨hHl, hHn, hHe⟩ := nvecsVs_lengths T hT n hn
  have hnH0 : n < ((T.nvecsVs n).map List.length).length := by rw [hHl]; exact hncs
  have hY := nvecsGram_tucker_eq T n hn _ (ttmList_nvecsVs T hT n hn) hnH0 hncs
  set Un := T.factors.getD n [] with hUn
  have hI : T.shape.getD n 0 = Un.length := T.shape_getD n
  have hUnrows : ∀ row ∈ Un, row.length = T.core.shape.getD n 0 := hT.rows n hn
  set Vs := T.nvecsVs n with hVs
  have hVsl : Vs.length = T.factors.length := nvecsVs_length T n
  set H : Dense α := Dense.ofFn (Vs.map List.length) (fun i =>
    ((allSubs T.core.shape).map fun l => vprod Vs i l * T.core.get l).sum) with hH
  have hHshape : H.shape = Vs.map List.length := rfl
  have hnH : n < H.shape.length := hnH0
  set rest := T.core.shape.eraseIdx n with hrest
  have hrestlen : rest.length = T.factors.length - 1 := by
    rw [hrest, List.length_eraseIdx, hN]; simp [hn]
  have hHrest : H.shape.eraseIdx n = rest := hHe
  have hHn' : H.shape.getD n 0 = Un.length := hHn
  have hDH0 : (colMat H n).shape.getD 0 0 = numel rest := by rw [colMat_shape0 H n hnH, hHrest]
  have hDH1 : (colMat H n).shape.getD 1 0 = Un.length := by rw [colMat_shape1, hHn']
  have hDG0 : (colMat T.core n).shape.getD 0 0 = numel rest := colMat_shape0 T.core n hncs
  have hDG1 : (colMat T.core n).shape.getD 1 0 = T.core.shape.getD n 0 := colMat_shape1 T.core n
  have hHnT : ∀ c a, c < numel rest → a < Un.length →
      (colMat H n).toMat.get c a = H.get (insAt (ind2sub rest c) n a) := by
    intro c a hc ha
    rw [colMat_get H n a c hnH (by rw [hHn']; exact ha) (by rw [hHrest]; exact hc), hHrest]
  have hGnT : ∀ c q, c < numel rest → q < T.core.shape.getD n 0 →
      (colMat T.core n).toMat.get c q = T.core.get (insAt (ind2sub rest c) n q) := by
    intro c q hc hq
    exact colMat_get T.core n q c hncs hq hc
  refine ⟨_, hY, ?_, ?_, ?_⟩
  · rw [length_matMulN, length_transposeN, hI]
  · intro row h; rw [rows_matMulN _ _ _ row h, hI]
  · intro a b ha hb
    rw [hI] at ha hb
    set srest := T.shape.eraseIdx n with hsrest
    have hsrestlen : srest.length = T.factors.length - 1 := by
      rw [hsrest, List.length_eraseIdx, Ttensor.shape, List.length_map]; simp [hn]
    set Gf : Nat → Nat → α := fun c q => T.core.get (insAt (ind2sub rest c) n q) with hGf
    set Fw : Nat → Nat → α := fun c l => vprod (Vs.eraseIdx n) (ind2sub rest c) (ind2sub rest l) with hFw
    set E : Nat → Nat → α := fun j l => vprod (T.factors.eraseIdx n) (ind2sub srest j) (ind2sub rest l) with hE
    set u : Nat → Nat → α := fun x l => ∑ p ∈ range (T.core.shape.getD n 0), Un.get x p * Gf l p with hu
    -- the model side, entry-wise
    have hXl : (matMulT (colMat T.core n).toMat Un).length = numel rest := by
      rw [length_matMulT, length_toMat, hDG0]
    have hmodel : (matMulN (transposeN (colMat H n).toMat Un.length) (matMulT (colMat T.core n).toMat Un)
        Un.length).get a b = ∑ c ∈ range (numel rest), H.get (insAt (ind2sub rest c) n a) * u b c := by
      rw [get_matMulN_sum _ _ Un.length a b
        (by intro row h; rw [rows_transposeN _ _ row h, hXl, length_toMat, hDH0])
        (by rw [length_transposeN]; exact ha) hb, hXl]
      apply Finset.sum_congr rfl
      intro c hc
      have hc' := Finset.mem_range.1 hc
      rw [get_transposeN _ _ a c ha (by rw [length_toMat, hDH0]; exact hc'), hHnT c a hc' ha,
        get_matMulT_sum (colMat T.core n).toMat Un (T.core.shape.getD n 0) c b
          (by intro row h; rw [rows_toMat _ row h, hDG1]) hUnrows
          (by rw [length_toMat, hDG0]; exact hc') hb]
      congr 1
      apply Finset.sum_congr rfl
      intro q hq
      rw [hGnT c q hc' (Finset.mem_range.1 hq), mul_comm]
    rw [hmodel]
    -- H through the split of mode n
    have hHget : ∀ c, c < numel rest → H.get (insAt (ind2sub rest c) n a) =
        ∑ l ∈ range (numel rest), u a l * Fw c l := by
      intro c hc
      have hcb : InBounds rest (ind2sub rest c) := ind2sub_inBounds hc
      have hib : InBounds (Vs.map List.length) (insAt (ind2sub rest c) n a) :=
        inBounds_insAt (by rw [hHl]; exact hncs) (by rw [hHe]; exact hcb) (by rw [hHn]; exact ha)
      rw [hH, Dense.ofFn_get _ _ hib, sum_allSubs_insAt T.core.shape n hncs, sum_map_allSubs]
      apply Finset.sum_congr rfl
      intro l hl
      rw [sum_map_range, hu, Finset.sum_mul]
      apply Finset.sum_congr rfl
      intro p _
      rw [vprod_insAt Vs _ _ n a p (by rw [hVsl]; exact hn) (by rw [length_ind2sub, hVsl, hrestlen])
        (by rw [length_ind2sub, hVsl, hrestlen]), hVs, nvecsVs_self T n hn]
      ring
    -- the Tucker denotation through the split of mode n
    have hTget : ∀ j x, T.get (insAt (ind2sub srest j) n x) = ∑ l ∈ range (numel rest), u x l * E j l := by
      intro j x
      rw [Ttensor.get_eq_vprod, sum_allSubs_insAt T.core.shape n hncs, sum_map_allSubs]
      apply Finset.sum_congr rfl
      intro l _
      rw [sum_map_range, hu, Finset.sum_mul]
      apply Finset.sum_congr rfl
      intro p _
      rw [vprod_insAt T.factors _ _ n x p hn (by rw [length_ind2sub, hsrestlen])
        (by rw [length_ind2sub, hrestlen])]
      ring
    -- Σ_j E j c · E j l is the product of the per-mode Gram entries
    have hS : ∀ c l, c < numel rest → l < numel rest →
        ∑ j ∈ range (numel srest), E j c * E j l = Fw c l := by
      intro c l hc hl
      have hcb := (inBounds_iff_getD rest (ind2sub rest c)).1 (ind2sub_inBounds hc)
      have hlb := (inBounds_iff_getD rest (ind2sub rest l)).1 (ind2sub_inBounds hl)
      have hEr : ∀ j x, E j x = ∏ k ∈ range (T.factors.length - 1),
          ((T.factors.eraseIdx n).getD k []).get ((ind2sub srest j).getD k 0) ((ind2sub rest x).getD k 0) := by
        intro j x
        exact vprod_eq_prod_range _ _ _ _ (by rw [List.length_eraseIdx]; simp [hn])
          (by rw [length_ind2sub, hsrestlen]) (by rw [length_ind2sub, hrestlen])
      have hFr : Fw c l = ∏ k ∈ range (T.factors.length - 1),
          ((Vs.eraseIdx n).getD k []).get ((ind2sub rest c).getD k 0) ((ind2sub rest l).getD k 0) :=
        vprod_eq_prod_range _ _ _ _ (by rw [List.length_eraseIdx, hVsl]; simp [hn])
          (by rw [length_ind2sub, hrestlen]) (by rw [length_ind2sub, hrestlen])
      rw [hFr]
      simp only [hEr, ← Finset.prod_mul_distrib]
      rw [← sum_map_allSubs srest (fun j' => ∏ k ∈ range (T.factors.length - 1),
        (((T.factors.eraseIdx n).getD k []).get (j'.getD k 0) ((ind2sub rest c).getD k 0) *
          ((T.factors.eraseIdx n).getD k []).get (j'.getD k 0) ((ind2sub rest l).getD k 0)))]
      rw [← hsrestlen, sum_allSubs_prod_range srest (fun k t =>
        ((T.factors.eraseIdx n).getD k []).get t ((ind2sub rest c).getD k 0) *
          ((T.factors.eraseIdx n).getD k []).get t ((ind2sub rest l).getD k 0))]
      apply Finset.prod_congr rfl
      intro k hk
      have hk' : k < T.factors.length - 1 := by rw [← hsrestlen]; exact Finset.mem_range.1 hk
      have hsk := skipIdx_lt n k T.factors.length hn hk'
      have e1 : (T.factors.eraseIdx n).getD k [] = T.factors.getD (skipIdx n k) [] := getD_eraseIdx _ _ _ _
      have e2 : (Vs.eraseIdx n).getD k [] =
          gramCols (T.factors.getD (skipIdx n k) []) (T.core.shape.getD (skipIdx n k) 0) := by
        rw [getD_eraseIdx]; exact nvecsVs_ne T n _ hsk (skipIdx_ne n k)
      have e3 : srest.getD k 0 = (T.factors.getD (skipIdx n k) []).length := by
        rw [hsrest, getD_eraseIdx, T.shape_getD]
      have e4 : ∀ x, x < numel rest → (ind2sub rest x).getD k 0 < T.core.shape.getD (skipIdx n k) 0 := by
        intro x hx
        have := ((inBounds_iff_getD rest (ind2sub rest x)).1 (ind2sub_inBounds hx)).2 k (by rw [hrestlen]; exact hk')
        rwa [hrest, getD_eraseIdx] at this
      rw [e1, e2, e3, get_gramCols _ _ _ _ (e4 c hc) (e4 l hl)]
    -- the specification side
    unfold gramSpec
    rw [sum_map_allSubs]
    simp only [← hsrest, hTget]
    calc ∑ c ∈ range (numel rest), H.get (insAt (ind2sub rest c) n a) * u b c
        = ∑ l ∈ range (numel rest), ∑ c ∈ range (numel rest), u a l * u b c * Fw c l := by
          rw [Finset.sum_comm]
          apply Finset.sum_congr rfl
          intro c hc
          rw [hHget c (Finset.mem_range.1 hc), Finset.sum_mul]
          apply Finset.sum_congr rfl
          intro l _
          ring
      _ = ∑ l ∈ range (numel rest), ∑ c ∈ range (numel rest), ∑ j ∈ range (numel srest),
            (u a l * E j l) * (u b c * E j c) := by
          apply Finset.sum_congr rfl
          intro l hl
          apply Finset.sum_congr rfl
          intro c hc
          rw [← hS c l (Finset.mem_range.1 hc) (Finset.mem_range.1 hl), Finset.mul_sum]
          apply Finset.sum_congr rfl
          intro j _
          ring
      _ = ∑ j ∈ range (numel srest), (∑ l ∈ range (numel rest), u a l * E j l) *
            (∑ c ∈ range (numel rest), u b c * E j c) := by
          symm
          simp only [Finset.sum_mul_sum]
          rw [Finset.sum_comm]
          apply Finset.sum_congr rfl
          intro l _
          rw [Finset.sum_comm]

/-! ### all representations hand the solver the same matrix -/

theorem Mat.ext_get [Zero α] {A B : Mat α} (m c : Nat) (hA : A.length = m) (hB : B.length = m)
    (hAr : ∀ row ∈ A, row.length = c) (hBr : ∀ row ∈ B, row.length = c)
    (h : ∀ i j, i < m → j < c → A.get i j = B.get i j) : A = B := by
  apply List.ext_getElem (by rw [hA, hB])
  intro i h1 h2
  have hi : i < m := by omega
  apply List.ext_getElem (by rw [hAr _ (List.getElem_mem h1), hBr _ (List.getElem_mem h2)])
  intro j h3 h4
  have hj : j < c := by rw [hAr _ (List.getElem_mem h1)] at h3; exact h3
  have := h i j hi hj
  simp only [Mat.get, List.getD_eq_getElem?_getD, List.getElem?_eq_getElem h1, List.getElem?_eq_getElem h2,
    Option.getD_some, List.getElem?_eq_getElem h3, List.getElem?_eq_getElem h4] at this
  exact this

/-- two results that both are the Gram matrix of the same array are the same matrix. -/
theorem gram_unique [Add α] [Mul α] [Zero α] {Y₁ Y₂ : Mat α} {m : Nat} (g₁ g₂ : List Nat → α) (shape : List Nat)
    (n : Nat) (hn : n < shape.length) (hm : shape.getD n 0 = m)
    (h₁ : Y₁.length = m ∧ (∀ row ∈ Y₁, row.length = m) ∧
      ∀ a b, a < m → b < m → Y₁.get a b = gramSpec g₁ shape n a b)
    (h₂ : Y₂.length = m ∧ (∀ row ∈ Y₂, row.length = m) ∧
      ∀ a b, a < m → b < m → Y₂.get a b = gramSpec g₂ shape n a b)
    (hd : ∀ i, InBounds shape i → g₁ i = g₂ i) : Y₁ = Y₂ := by
  apply Mat.ext_get m m h₁.1 h₂.1 h₁.2.1 h₂.2.1
  intro a b ha hb
  rw [h₁.2.2 a b ha hb, h₂.2.2 a b ha hb]
  exact gramSpec_congr g₁ g₂ shape n a b hd hn (by rw [hm]; exact ha) (by rw [hm]; exact hb)

end Pyttb
