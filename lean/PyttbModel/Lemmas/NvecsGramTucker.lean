/-
C14: the matrix formed by `ttensor.nvecs` (through the core) is the Gram matrix of the mode-n
unfolding of the array the Tucker tensor denotes.
-/
import PyttbModel.Lemmas.NvecsGramSparse
import PyttbModel.Lemmas.KhatriRao
namespace Pyttb

open Finset

variable {α : Type}

/-! ### `to_tenmat(cdims=[n])`: the other modes (increasing) index the rows -/

theorem isPermOf_modeLast (N n : Nat) (hn : n < N) : isPermOf (complDims N [n] ++ [n]) N = true := by
  rw [isPermOf_iff]
  refine ⟨by simp [length_complDims_single N n hn]; omega, ?_⟩
  intro m hm
  by_cases h : m = n
  · simp [h]
  · simp [complDims, hm, h]

theorem gather_invPerm_modeLast (N n a : Nat) (j : List Nat) (hn : n < N) (hj : j.length = N - 1) :
    gather (j ++ [a]) (invPerm (complDims N [n] ++ [n])) = insAt j n a := by
  have hp := isPermOf_modeLast N n hn
  have hnj : n ≤ j.length := by omega
  have hl : (insAt j n a).length = N := by rw [length_insAt j n a hnj]; omega
  symm
  rw [← gather_eq_iff hp hl (by simp; omega)]
  rw [gather_append, gather_cons, gather_nil, getD_insAt_self j n a hnj]
  congr 1
  have := gather_complDims (insAt j n a) n (by omega)
  rw [hl] at this
  rw [this, eraseIdx_insAt j n a hnj]

theorem toTenmat_colmode [Zero α] (T : Dense α) (n : Nat) (hn : n < T.shape.length) :
    T.toTenmat none (some [n]) none =
      .ok ⟨T.shape, complDims T.shape.length [n], [n],
        ⟨[numel (gather T.shape (complDims T.shape.length [n])), numel (gather T.shape [n])],
          (T.transpose (complDims T.shape.length [n] ++ [n])).data⟩⟩ := by
  have hp := isPermOf_modeLast T.shape.length n hn
  have hperm := permute_nonempty_c14 T _ (by simp) hp
  simp only [Dense.toTenmat, gatherWrapDims]
  simp [hn, hp, hperm]

/-- entry `(c, a)` of the transposed mode-n unfolding. -/
theorem unfold_entry_col [Zero α] (T : Dense α) (n a c : Nat) (hn : n < T.shape.length)
    (ha : a < T.shape.getD n 0) (hc : c < numel (T.shape.eraseIdx n)) :
    (⟨[numel (gather T.shape (complDims T.shape.length [n])), numel (gather T.shape [n])],
        (T.transpose (complDims T.shape.length [n] ++ [n])).data⟩ : Dense α).get [c, a] =
      T.get (insAt (ind2sub (T.shape.eraseIdx n) c) n a) := by
  have hrest := gather_complDims T.shape n hn
  set rest := T.shape.eraseIdx n with hrest_def
  have hsh : gather T.shape (complDims T.shape.length [n] ++ [n]) = rest ++ [T.shape.getD n 0] := by
    rw [gather_append, hrest]; rfl
  have hjb : InBounds rest (ind2sub rest c) := ind2sub_inBounds hc
  have hjl : (ind2sub rest c).length = T.shape.length - 1 := by
    rw [hjb.length_eq, hrest_def, List.length_eraseIdx]; simp [hn]
  have hib : InBounds (gather T.shape (complDims T.shape.length [n] ++ [n])) (ind2sub rest c ++ [a]) := by
    rw [hsh, inBounds_iff_getD]
    have h1 := (inBounds_iff_getD rest (ind2sub rest c)).1 hjb
    refine ⟨by simp [h1.1], ?_⟩
    intro k hk
    simp only [List.length_append, List.length_singleton] at hk
    by_cases hkr : k < rest.length
    · have := h1.2 k hkr
      simp only [List.getD_eq_getElem?_getD] at this ⊢
      rw [List.getElem?_append_left (by rw [h1.1]; exact hkr), List.getElem?_append_left hkr]
      exact this
    · have hk' : k = rest.length := by omega
      subst hk'
      simp only [List.getD_eq_getElem?_getD]
      rw [List.getElem?_append_right (by rw [h1.1]), List.getElem?_append_right (le_refl _)]
      simpa [h1.1] using ha
  have hg := transpose_get_c14 T (complDims T.shape.length [n] ++ [n]) hib
  rw [gather_invPerm_modeLast T.shape.length n a _ hn hjl] at hg
  rw [← hg]
  simp only [Dense.get, Dense.transpose, Dense.ofFn_shape]
  congr 1
  rw [hsh, hrest, sub2ind_append_singleton rest _ _ _ hjb.length_eq, sub2ind_ind2sub hc]
  simp [sub2ind, numel]

/-! ### sums over all subscripts, with one mode split off -/

theorem list_sum_comm [AddCommMonoid α] {β γ : Type} (l₁ : List β) (l₂ : List γ) (f : β → γ → α) :
    (l₁.map fun x => (l₂.map fun y => f x y).sum).sum = (l₂.map fun y => (l₁.map fun x => f x y).sum).sum := by
  induction l₁ with
  | nil => simp
  | cons x l₁ ih => simp only [List.map_cons, List.sum_cons, ih, List.sum_map_add]

theorem sum_allSubs_cons [AddCommMonoid α] (e : Nat) (s : List Nat) (f : List Nat → α) :
    ((allSubs (e :: s)).map f).sum = ((allSubs s).map fun t => ((List.range e).map fun x => f (x :: t)).sum).sum := by
  rw [allSubs_cons, List.map_flatMap, List.flatMap_def, List.sum_flatten, List.map_map]
  congr 1
  apply List.map_congr_left
  intro t _
  simp [Function.comp, List.map_map]

/-- every subscript of `s` is a subscript of the other modes with a coordinate of mode `n` inserted. -/
theorem sum_allSubs_insAt [AddCommMonoid α] (s : List Nat) (n : Nat) (hn : n < s.length) (f : List Nat → α) :
    ((allSubs s).map f).sum =
      ((allSubs (s.eraseIdx n)).map fun j => ((List.range (s.getD n 0)).map fun p => f (insAt j n p)).sum).sum := by
  induction s generalizing n f with
  | nil => simp at hn
  | cons e s ih =>
    cases n with
    | zero =>
      rw [sum_allSubs_cons]
      simp [insAt_zero]
    | succ n =>
      simp only [List.length_cons, Nat.add_lt_add_iff_right] at hn
      rw [sum_allSubs_cons, List.eraseIdx_cons_succ, sum_allSubs_cons,
        ih n hn (fun t => ((List.range e).map fun x => f (x :: t)).sum)]
      congr 1
      apply List.map_congr_left
      intro j _
      simp only [List.getD_cons_succ, insAt_cons_succ]
      rw [list_sum_comm]

/-! ### products over the modes -/

/-- insertion at position `n` for any element type. -/
def insAtG {γ : Type} (j : List γ) (n : Nat) (a : γ) : List γ := j.take n ++ a :: j.drop n

theorem insAt_eq_insAtG (j : List Nat) (n a : Nat) : insAt j n a = insAtG j n a := rfl

theorem insAtG_zero {γ : Type} (j : List γ) (a : γ) : insAtG j 0 a = a :: j := by simp [insAtG]

theorem insAtG_cons_succ {γ : Type} (x : γ) (j : List γ) (n : Nat) (a : γ) :
    insAtG (x :: j) (n + 1) a = x :: insAtG j n a := by simp [insAtG]

theorem zip_insAtG {γ δ : Type} (x : List γ) (y : List δ) (n : Nat) (a : γ) (b : δ)
    (hl : x.length = y.length) (hn : n ≤ x.length) :
    (insAtG x n a).zip (insAtG y n b) = insAtG (x.zip y) n (a, b) := by
  induction n generalizing x y with
  | zero => simp [insAtG_zero]
  | succ n ih =>
    cases x with
    | nil => simp at hn
    | cons x0 xs =>
      cases y with
      | nil => simp at hl
      | cons y0 ys =>
        simp only [List.length_cons, Nat.add_right_cancel_iff, Nat.add_le_add_iff_right] at hl hn
        simp only [insAtG_cons_succ, List.zip_cons_cons, ih xs ys hl hn]

theorem prod_zipWith_insAtG {β γ : Type} [CommMonoid α] (g : β → γ → α) (Fs : List β) (j : List γ) (n : Nat)
    (a : γ) (d : β) (hn : n < Fs.length) (hj : j.length = Fs.length - 1) :
    (List.zipWith g Fs (insAtG j n a)).prod = g (Fs.getD n d) a * (List.zipWith g (Fs.eraseIdx n) j).prod := by
  induction Fs generalizing n j with
  | nil => simp at hn
  | cons A Fs ih =>
    cases n with
    | zero => simp [insAtG_zero]
    | succ n =>
      simp only [List.length_cons, Nat.add_lt_add_iff_right] at hn
      cases j with
      | nil => simp at hj; omega
      | cons x j =>
        simp only [List.length_cons, Nat.add_sub_cancel] at hj
        rw [insAtG_cons_succ, List.zipWith_cons_cons, List.prod_cons, List.eraseIdx_cons_succ,
          List.zipWith_cons_cons, List.prod_cons, ih j n hn (by omega)]
        simp only [List.getD_cons_succ]
        rw [mul_left_comm]

/-- `∏_k V_k[i_k, l_k]` as it appears in `ttm` and in the Tucker denotation. -/
def vprod [Mul α] [One α] [Zero α] (Vs : List (Mat α)) (i l : List Nat) : α :=
  (List.zipWith (fun (V : Mat α) (p : Nat × Nat) => V.get p.1 p.2) Vs (i.zip l)).prod

theorem vprod_insAt [CommSemiring α] (Vs : List (Mat α)) (c l : List Nat) (n a p : Nat) (hn : n < Vs.length)
    (hc : c.length = Vs.length - 1) (hl : l.length = Vs.length - 1) :
    vprod Vs (insAt c n a) (insAt l n p) = (Vs.getD n []).get a p * vprod (Vs.eraseIdx n) c l := by
  unfold vprod
  rw [insAt_eq_insAtG, insAt_eq_insAtG, zip_insAtG c l n a p (by omega) (by omega)]
  exact prod_zipWith_insAtG _ Vs (c.zip l) n (a, p) [] hn (by simp [hc, hl])

theorem vprod_eq_prod_range [CommSemiring α] (Vs : List (Mat α)) (i l : List Nat) (M : Nat) (hV : Vs.length = M)
    (hi : i.length = M) (hl : l.length = M) :
    vprod Vs i l = ∏ k ∈ range M, (Vs.getD k []).get (i.getD k 0) (l.getD k 0) := by
  rw [← prod_map_range]
  unfold vprod
  congr 1
  apply List.ext_getElem
  · simp [hV, hi, hl]
  · intro k h1 h2
    simp only [List.length_zipWith, List.length_zip, hV, hi, hl, Nat.min_self] at h1
    simp [List.getD_eq_getElem?_getD, hV, hi, hl, h1]

/-- the sum over all subscripts of a product over the modes is the product of per-mode sums
(position-indexed form). -/
theorem sum_allSubs_prod_range [CommSemiring α] (s : List Nat) (f : Nat → Nat → α) :
    ((allSubs s).map fun j => ∏ k ∈ range s.length, f k (j.getD k 0)).sum =
      ∏ k ∈ range s.length, ∑ t ∈ range (s.getD k 0), f k t := by
  have h := sum_allSubs_prod_zipWith (fun k t => f k t) (fun k => s.getD k 0) (List.range s.length)
  have hs : (List.range s.length).map (fun k => s.getD k 0) = s := gather_range s
  rw [hs] at h
  rw [← prod_map_range]
  have hr : ((List.range s.length).map fun A => ((List.range (s.getD A 0)).map (f A)).sum) =
      (List.range s.length).map fun k => ∑ t ∈ range (s.getD k 0), f k t := by
    apply List.map_congr_left
    intro k _
    rw [sum_map_range]
  rw [← hr, ← h]
  congr 1
  apply List.map_congr_left
  intro j hj
  have hjl : j.length = s.length := (mem_allSubs.1 hj).length_eq
  rw [← prod_map_range]
  congr 1
  apply List.ext_getElem
  · simp [hjl]
  · intro k h1 h2
    simp only [List.length_map, List.length_range] at h1
    simp [List.getD_eq_getElem?_getD, hjl, h1]

end Pyttb
