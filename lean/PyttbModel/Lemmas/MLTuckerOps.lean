/-
C02 — Tucker kernels (`ttensor.ttv`, `ttm`, `mttkrp`, `innerprod`, `norm`).  A Tucker tensor (like a
Kruskal tensor) is a sum of separable terms `c_t ∏_d E_t(d, k_d)`; the definitions applied to such a
sum are computed once (`Decomp`), then matched with what the code computes on the core.
-/
import PyttbModel.Lemmas.MLKruskal
import PyttbModel.Lemmas.MLInner
namespace Pyttb
namespace MLK

open ML

variable {α : Type}

/-! ### sums over all cells, fiber by fiber -/

theorem sum_allSubs_fibers [AddCommMonoid α] (s rem sel : List Nat) (hp : isPermOf (rem ++ sel) s.length = true)
    (F : List Nat → α) :
    ((allSubs s).map F).sum =
      ((allSubs (gather s rem)).map fun i => ((Spec.fiber s rem i).map F).sum).sum := by
  rw [sum_allSubs_perm s (rem ++ sel) hp F, gather_append, sum_allSubs_append, sum_comm]
  apply sum_congr
  intro i hi
  rw [fiber_sum s rem sel i hp (mem_allSubs.1 hi)]

/-! ### operands that are sums of separable terms -/

/-- `X[k] = Σ_{t ∈ L} c_t ∏_{d<N} E_t(d, k_d)` at every cell. -/
def Decomp {τ : Type} [CommSemiring α] (X : Den α) (L : List τ) (c : τ → α) (E : τ → Nat → Nat → α) : Prop :=
  ∀ k, InBounds X.shape k →
    X.get k = (L.map fun t => c t * ((List.range X.shape.length).map fun d => E t d (k.getD d 0)).prod).sum

/-- `ttv` of a sum of separable terms. -/
theorem decomp_ttv {τ : Type} [CommSemiring α] (X : Den α) (L : List τ) (c : τ → α) (E : τ → Nat → Nat → α)
    (hX : Decomp X L c E) (sel : List Nat) (hnd : sel.Nodup) (hlt : ∀ d ∈ sel, d < X.shape.length)
    (w : Nat → Nat → α) (i : List Nat) (hi : InBounds (gather X.shape (complDims X.shape.length sel)) i) :
    Spec.ttv X sel w i = (L.map fun t => c t *
      ((List.zipWith (E t) (complDims X.shape.length sel) i).prod *
        (sel.map fun d => sumRange (X.shape.getD d 0) fun x => E t d x * w d x).prod)).sum := by
  set N := X.shape.length with hN
  set rem := complDims N sel with hrem
  have hp : isPermOf (rem ++ sel) N = true := isPermOf_compl_append N sel hnd hlt
  show ((Spec.fiber X.shape rem i).map fun k => X.get k * Spec.selProd sel w k).sum = _
  have hterm : ∀ k ∈ Spec.fiber X.shape rem i, X.get k * Spec.selProd sel w k =
      (L.map fun t => c t * ((rem.map fun d => E t d (k.getD d 0)).prod *
         (sel.map fun d => E t d (k.getD d 0) * w d (k.getD d 0)).prod)).sum := by
    intro k hk
    rw [hX k (mem_fiber.1 hk).1, ← List.sum_map_mul_right]
    apply sum_congr
    intro t _
    rw [← hN, prod_range_split N rem sel hp, List.prod_map_mul]
    unfold Spec.selProd
    ring
  rw [List.map_congr_left hterm, sum_comm]
  apply sum_congr
  intro t _
  rw [List.sum_map_mul_left, fiber_sum_split X.shape rem sel i hp hi (E t) (fun d x => E t d x * w d x)]

/-- `ttm` of a sum of separable terms. -/
theorem decomp_ttm {τ : Type} [CommSemiring α] (X : Den α) (L : List τ) (c : τ → α) (E : τ → Nat → Nat → α)
    (hX : Decomp X L c E) (sel : List Nat) (hnd : sel.Nodup) (hlt : ∀ d ∈ sel, d < X.shape.length)
    (M : Nat → Nat → Nat → α) (i : List Nat)
    (hi : InBounds (gather X.shape (complDims X.shape.length sel)) (gather i (complDims X.shape.length sel))) :
    Spec.ttm X sel M i = (L.map fun t => c t *
      (((complDims X.shape.length sel).map fun d => E t d (i.getD d 0)).prod *
        (sel.map fun d => sumRange (X.shape.getD d 0) fun x => E t d x * M d (i.getD d 0) x).prod)).sum := by
  set N := X.shape.length with hN
  set rem := complDims N sel with hrem
  have hp : isPermOf (rem ++ sel) N = true := isPermOf_compl_append N sel hnd hlt
  show ((Spec.fiber X.shape rem (gather i rem)).map fun k =>
    X.get k * (sel.map fun d => M d (i.getD d 0) (k.getD d 0)).prod).sum = _
  have hterm : ∀ k ∈ Spec.fiber X.shape rem (gather i rem),
      X.get k * (sel.map fun d => M d (i.getD d 0) (k.getD d 0)).prod =
      (L.map fun t => c t * ((rem.map fun d => E t d (k.getD d 0)).prod *
         (sel.map fun d => E t d (k.getD d 0) * M d (i.getD d 0) (k.getD d 0)).prod)).sum := by
    intro k hk
    rw [hX k (mem_fiber.1 hk).1, ← List.sum_map_mul_right]
    apply sum_congr
    intro t _
    rw [← hN, prod_range_split N rem sel hp, List.prod_map_mul]
    ring
  rw [List.map_congr_left hterm, sum_comm]
  apply sum_congr
  intro t _
  rw [List.sum_map_mul_left, fiber_sum_split X.shape rem sel (gather i rem) hp hi (E t)
    (fun d x => E t d x * M d (i.getD d 0) x), ← map_getD_eq_zipWith]

/-- `mttkrp` of a sum of separable terms. -/
theorem decomp_mttkrp {τ : Type} [CommSemiring α] (X : Den α) (L : List τ) (c : τ → α) (E : τ → Nat → Nat → α)
    (hX : Decomp X L c E) (Uf : Nat → Nat → Nat → α) (lam : Nat → α)
    (n i r : Nat) (hn : n < X.shape.length) (hi : i < X.shape.getD n 0) :
    Spec.mttkrp X Uf lam n i r = lam r * (L.map fun t => c t *
      (E t n i * ((others X.shape.length n).map fun m =>
        sumRange (X.shape.getD m 0) fun x => E t m x * Uf m x r).prod)).sum := by
  set N := X.shape.length with hN
  have hp : isPermOf ([n] ++ others N n) N = true := isPermOf_mode_first N n hn
  have hi' : InBounds (gather X.shape [n]) [i] := ⟨hi, trivial⟩
  show lam r * (((allSubs X.shape).filter fun k => k.getD n 0 == i).map fun k =>
    X.get k * (((List.range X.shape.length).filter (· != n)).map fun m => Uf m (k.getD m 0) r).prod).sum = _
  rw [filter_mode_eq_fiber]
  congr 1
  have hterm : ∀ k ∈ Spec.fiber X.shape [n] [i],
      X.get k * ((others N n).map fun m => Uf m (k.getD m 0) r).prod =
      (L.map fun t => c t * (([n].map fun d => E t d (k.getD d 0)).prod *
         ((others N n).map fun d => E t d (k.getD d 0) * Uf d (k.getD d 0) r).prod)).sum := by
    intro k hk
    rw [hX k (mem_fiber.1 hk).1, ← List.sum_map_mul_right]
    apply sum_congr
    intro t _
    rw [← hN, prod_range_split N [n] (others N n) hp, List.prod_map_mul]
    ring
  show ((Spec.fiber X.shape [n] [i]).map fun k =>
    X.get k * ((others N n).map fun m => Uf m (k.getD m 0) r).prod).sum = _
  rw [List.map_congr_left hterm, sum_comm]
  apply sum_congr
  intro t _
  rw [List.sum_map_mul_left, fiber_sum_split X.shape [n] (others N n) [i] hp hi' (E t)
    (fun d x => E t d x * Uf d x r)]
  simp

/-- Inner product of two sums of separable terms over one shape. -/
theorem decomp_inner {τ σ : Type} [CommSemiring α] (X Y : Den α) (L : List τ) (c : τ → α) (E : τ → Nat → Nat → α)
    (L' : List σ) (c' : σ → α) (E' : σ → Nat → Nat → α) (hX : Decomp X L c E) (hY : Decomp Y L' c' E')
    (hs : X.shape = Y.shape) :
    Spec.inner X Y = (L.map fun t => (L'.map fun u => (c t * c' u) *
      ((List.range X.shape.length).map fun d => sumRange (X.shape.getD d 0) fun x => E t d x * E' u d x).prod).sum).sum := by
  show ((allSubs X.shape).map fun k => X.get k * Y.get k).sum = _
  have hterm : ∀ k ∈ allSubs X.shape, X.get k * Y.get k =
      (L.map fun t => (L'.map fun u => (c t * c' u) *
        ((List.range X.shape.length).map fun d => E t d (k.getD d 0) * E' u d (k.getD d 0)).prod).sum).sum := by
    intro k hk
    have hk' := mem_allSubs.1 hk
    rw [hX k hk', hY k (hs ▸ hk'), ← List.sum_map_mul_right]
    apply sum_congr
    intro t _
    rw [← List.sum_map_mul_left]
    apply sum_congr
    intro u _
    rw [← hs, List.prod_map_mul]
    ring
  rw [List.map_congr_left hterm, sum_comm]
  apply sum_congr
  intro t _
  rw [sum_comm]
  apply sum_congr
  intro u _
  rw [List.sum_map_mul_left, sum_allSubs_prod X.shape (fun d x => E t d x * E' u d x)]

/-- The inner product is symmetric. -/
theorem spec_inner_comm [CommSemiring α] (X Y : Den α) (hs : X.shape = Y.shape) : Spec.inner X Y = Spec.inner Y X := by
  unfold Spec.inner Spec.sumOver
  rw [hs]
  apply sum_congr
  intro k _
  exact mul_comm _ _

/-- The inner product only reads the in-bounds cells. -/
theorem spec_inner_congr [CommSemiring α] (X X' Y Y' : Den α) (hs : X.shape = X'.shape)
    (hx : ∀ k, InBounds X.shape k → X.get k = X'.get k) (hy : ∀ k, InBounds X.shape k → Y.get k = Y'.get k) :
    Spec.inner X Y = Spec.inner X' Y' := by
  unfold Spec.inner Spec.sumOver
  rw [← hs]
  apply sum_congr
  intro k hk
  rw [hx k (mem_allSubs.1 hk), hy k (mem_allSubs.1 hk)]

/-! ### the Tucker denotation is such a sum -/

theorem tshape_length (T : Ttensor α) : T.shape.length = T.factors.length := by simp [Ttensor.shape]

theorem tshape_getD (T : Ttensor α) (d : Nat) : T.shape.getD d 0 = (T.factors.getD d []).length :=
  getD_map' List.length T.factors d []

theorem tucker_decomp' [CommSemiring α] (T : Ttensor α) (hlen : T.factors.length = T.core.shape.length) :
    Decomp T.den (allSubs T.core.shape) T.core.get (fun j d x => (T.factors.getD d []).get x (j.getD d 0)) := by
  intro k hk
  have hkl : k.length = T.factors.length := by rw [hk.length_eq]; exact tshape_length T
  show T.get k = _
  unfold Ttensor.get
  apply sum_congr
  intro j hj
  have hjl : j.length = T.factors.length := by rw [(mem_allSubs.1 hj).length_eq, hlen]
  rw [prod_zipWith_range T.factors [] (fun U a b => Mat.get U a b) k j hkl hjl]
  show _ = T.core.get j * ((List.range T.shape.length).map _).prod
  rw [tshape_length]

theorem tucker_decomp [CommSemiring α] (T : Ttensor α) (hT : TuckerWF T) :
    Decomp T.den (allSubs T.core.shape) T.core.get (fun j d x => (T.factors.getD d []).get x (j.getD d 0)) :=
  tucker_decomp' T hT.len

/-! ### dense `ttm` with one matrix for every mode -/

/-- `X.ttm(Ms)` / `X.ttm(Ms, transpose=True)` with one matrix per mode and no mode designation. -/
theorem dense_ttm_all [CommSemiring α] (X : Dense α) (hX : X.WF) (Ms : List (Dense.MatArg α)) (tr : Bool)
    (hN : 1 ≤ X.shape.length) (hl : Ms.length = X.shape.length)
    (hsz : ∀ d, d < X.shape.length →
      (if tr then (Ms.getD d ⟨[], 0, 0⟩).m else (Ms.getD d ⟨[], 0, 0⟩).n) = X.shape.getD d 0) :
    ∃ Y, X.ttm Ms none none tr = .ok Y ∧ Y.WF ∧ Y.shape.length = X.shape.length ∧
      (∀ d, d < X.shape.length →
        Y.shape.getD d 0 = if tr then (Ms.getD d ⟨[], 0, 0⟩).n else (Ms.getD d ⟨[], 0, 0⟩).m) ∧
      ∀ i, InBounds Y.shape i → Y.get i = ((allSubs X.shape).map fun k => X.get k *
        ((List.range X.shape.length).map fun d =>
          if tr then (Ms.getD d ⟨[], 0, 0⟩).rows.get (k.getD d 0) (i.getD d 0)
          else (Ms.getD d ⟨[], 0, 0⟩).rows.get (i.getD d 0) (k.getD d 0)).prod).sum := by
  set N := X.shape.length with hNc
  obtain ⟨pairs, e, hs, hp⟩ := resolve_dims_P N Ms (List.range N) List.nodup_range
    (fun x hx => List.mem_range.1 hx) (by simp [hl])
  have hsorted : (((List.range N).zip Ms).map (·.1)).Pairwise (· < ·) := by
    rw [List.map_fst_zip (by simp [hl])]
    exact List.pairwise_lt_range
  have hpairs : pairs = (List.range N).zip Ms := pairs_unique hs hsorted hp
  subst hpairs
  have hres : resolveModes N Ms none none = .ok ((List.range N).zip Ms) := by rw [resolve_none, e]
  have hkeys : (((List.range N).zip Ms).map (·.1)) = List.range N := List.map_fst_zip (by simp [hl])
  have hmem : ∀ p ∈ (List.range N).zip Ms, p.1 < N ∧ p.2 = Ms.getD p.1 ⟨[], 0, 0⟩ := by
    intro p hp'
    rw [← hl, zip_range_eq_map Ms ⟨[], 0, 0⟩] at hp'
    obtain ⟨k, hk, rfl⟩ := List.mem_map.1 hp'
    exact ⟨by rw [← hl]; exact List.mem_range.1 hk, rfl⟩
  have hmemd : ∀ d, d < N → (d, Ms.getD d ⟨[], 0, 0⟩) ∈ (List.range N).zip Ms := by
    intro d hd
    rw [← hl, zip_range_eq_map Ms ⟨[], 0, 0⟩]
    exact List.mem_map.2 ⟨d, List.mem_range.2 (by rw [hl]; exact hd), rfl⟩
  set Mf : Nat → Nat → Nat → α := fun d a b =>
    if tr then (Ms.getD d ⟨[], 0, 0⟩).rows.get b a else (Ms.getD d ⟨[], 0, 0⟩).rows.get a b with hMf
  obtain ⟨Y, e1, w1, l1, _, r1, g1⟩ := dense_ttmList_spec X hX tr Mf ((List.range N).zip Ms)
    (by rw [hkeys]; exact List.nodup_range) (fun p hp' => (hmem p hp').1)
    (by
      intro p hp'
      obtain ⟨h1, h2⟩ := hmem p hp'
      rw [h2]
      exact hsz p.1 h1)
    (by
      intro p hp' a b
      rw [(hmem p hp').2])
  have hfull : X.ttm Ms none none tr = .ok Y := by
    unfold Dense.ttm
    rw [← hNc, hres]
    cases hz : (List.range N).zip Ms with
    | nil =>
      have : ((List.range N).zip Ms).length = N := by simp [hl]
      rw [hz] at this; simp at this; omega
    | cons a l => simp only; rw [← hz]; exact e1
  refine ⟨Y, hfull, w1, l1, ?_, ?_⟩
  · intro d hd
    exact r1 _ (hmemd d hd)
  · intro i hi
    rw [g1 i hi, hkeys]
    unfold Spec.ttm Spec.sumOver
    have hrem : complDims X.den.shape.length (List.range N) = [] := complDims_range N
    simp only [hrem]
    have hf : Spec.fiber X.den.shape [] (gather i []) = allSubs X.shape := fiber_nil X.shape
    rw [hf]
    rfl

/-- A tensor is determined by its extents. -/
theorem shape_ext {s t : List Nat} (hl : s.length = t.length) (h : ∀ d, d < s.length → s.getD d 0 = t.getD d 0) :
    s = t := ext_getD hl (fun k hk => h k hk)

/-! ### Tucker inner products and norm -/

theorem facArgs_getD (T : Ttensor α) (d : Nat) :
    (T.factors.map fun U => (⟨U, U.length, U.ncols⟩ : Dense.MatArg α)).getD d ⟨[], 0, 0⟩ =
      ⟨T.factors.getD d [], (T.factors.getD d []).length, (T.factors.getD d []).ncols⟩ :=
  getD_map' (fun U => (⟨U, U.length, U.ncols⟩ : Dense.MatArg α)) T.factors d []

/-- **Tucker · dense inner product**, both branches: through `full()` when the tensor is smaller
than its core, otherwise `D.ttm(factors, transpose=True)` against the core. -/
theorem tucker_innerprodDense_spec [CommSemiring α] (T : Ttensor α) (hT : TuckerWF T) (hN : 1 ≤ T.factors.length)
    (D : Dense α) (hD : D.WF) (hs : T.shape = D.shape) :
    T.innerprodDense D = .ok (Spec.inner T.den D.den) := by
  unfold Ttensor.innerprodDense
  have : (T.shape != D.shape) = false := by simp [hs]
  rw [this]
  simp only [Bool.false_eq_true, if_false]
  by_cases hb : numel T.shape < numel T.core.shape
  · rw [if_pos hb]
    obtain ⟨Z, hZ, zs, zw, zg⟩ := tucker_full_spec T hT hN
    simp only [hZ]
    rw [dense_innerprod_spec Z D zw hD (zs.trans hs)]
    congr 1
    exact spec_inner_congr Z.den T.den D.den D.den zs zg (fun _ _ => rfl)
  · rw [if_neg hb]
    have hDl : D.shape.length = T.factors.length := by rw [← hs, tshape_length]
    obtain ⟨Z, hZ, zw, zl, zsh, zg⟩ := dense_ttm_all D hD
      (T.factors.map fun U => (⟨U, U.length, U.ncols⟩ : Dense.MatArg α)) true (by rw [hDl]; exact hN)
      (by rw [List.length_map, hDl])
      (by
        intro d _
        rw [facArgs_getD]
        simp only [if_true]
        rw [← hs, tshape_getD])
    simp only [hZ]
    have zshape : Z.shape = T.core.shape := by
      apply shape_ext (by rw [zl, hDl, hT.len])
      intro d hd
      rw [zl] at hd
      rw [zsh d hd, facArgs_getD]
      simp only [if_true]
      exact hT.cols d (by rw [← hDl]; exact hd)
    rw [dense_innerprod_spec Z T.core zw hT.core zshape]
    congr 1
    show ((allSubs Z.shape).map fun j => Z.get j * T.core.get j).sum =
      ((allSubs T.shape).map fun k => T.get k * D.get k).sum
    have h1 : ∀ j ∈ allSubs Z.shape, Z.get j * T.core.get j =
        ((allSubs T.shape).map fun k => T.core.get j *
          ((List.range T.factors.length).map fun d => (T.factors.getD d []).get (k.getD d 0) (j.getD d 0)).prod *
          D.get k).sum := by
      intro j hj
      rw [zg j (mem_allSubs.1 hj), ← List.sum_map_mul_right, hs, hDl]
      apply sum_congr
      intro k _
      have : ((List.range T.factors.length).map fun d =>
          if true = true then
            ((T.factors.map fun U => (⟨U, U.length, U.ncols⟩ : Dense.MatArg α)).getD d ⟨[], 0, 0⟩).rows.get
              (k.getD d 0) (j.getD d 0)
          else ((T.factors.map fun U => (⟨U, U.length, U.ncols⟩ : Dense.MatArg α)).getD d ⟨[], 0, 0⟩).rows.get
              (j.getD d 0) (k.getD d 0)) =
          (List.range T.factors.length).map fun d => (T.factors.getD d []).get (k.getD d 0) (j.getD d 0) := by
        apply List.map_congr_left
        intro d _
        rw [if_pos rfl, facArgs_getD]
      rw [this]
      ring
    have h2 : ∀ k ∈ allSubs T.shape, T.get k * D.get k =
        ((allSubs Z.shape).map fun j => T.core.get j *
          ((List.range T.factors.length).map fun d => (T.factors.getD d []).get (k.getD d 0) (j.getD d 0)).prod *
          D.get k).sum := by
      intro k hk
      have := tucker_decomp T hT k (mem_allSubs.1 hk)
      rw [show T.get k = T.den.get k from rfl, this, ← List.sum_map_mul_right, zshape]
      apply sum_congr
      intro j _
      show _ * ((List.range T.shape.length).map _).prod * _ = _
      rw [tshape_length]
    rw [List.map_congr_left h1, List.map_congr_left h2, sum_comm]

theorem tucker_innerprodDense_rejects [Add α] [Mul α] [Zero α] (T : Ttensor α) (D : Dense α) (hs : T.shape ≠ D.shape) :
    T.innerprodDense D = .error .reject := by
  unfold Ttensor.innerprodDense
  have : (T.shape != D.shape) = true := by simp [hs]
  rw [this]; rfl

/-- **Tucker · sparse inner product** on the `full()` branch (tensor smaller than its core). -/
theorem tucker_innerprodSparse_full [CommSemiring α] [DecidableEq α] (T : Ttensor α) (hT : TuckerWF T)
    (hN : 1 ≤ T.factors.length) (S : Sparse α) (hS : S.WF) (hs : T.shape = S.shape)
    (hb : numel T.shape < numel T.core.shape) :
    T.innerprodSparse S = .ok (Spec.inner T.den S.den) := by
  unfold Ttensor.innerprodSparse
  have : (T.shape != S.shape) = false := by simp [hs]
  rw [this]
  simp only [Bool.false_eq_true, if_false]
  rw [if_pos hb]
  obtain ⟨Z, hZ, zs, zw, zg⟩ := tucker_full_spec T hT hN
  simp only [hZ]
  rw [sparse_innerprodDense_spec S hS Z (hs.symm.trans zs.symm)]
  congr 1
  rw [spec_inner_comm S.den Z.den (hs.symm.trans zs.symm)]
  exact spec_inner_congr Z.den T.den S.den S.den zs zg (fun _ _ => rfl)

/-- The Gram-matrix route: `B.core.ttm([AₙᵀBₙ])` paired with `A.core` is the inner product. -/
theorem tucker_gram [CommSemiring α] (A B : Ttensor α) (hA : TuckerWF A) (hB : TuckerWF B)
    (hN : 1 ≤ A.factors.length) (hs : A.shape = B.shape) :
    ∃ J, B.core.ttm ((List.range A.factors.length).map fun i =>
        (⟨(A.factors.getD i []).tmul (B.factors.getD i []) (A.core.shape.getD i 0) (B.core.shape.getD i 0),
          A.core.shape.getD i 0, B.core.shape.getD i 0⟩ : Dense.MatArg α)) none none false = .ok J ∧
      J.WF ∧ J.shape = A.core.shape ∧ Spec.inner A.core.den J.den = Spec.inner A.den B.den := by
  set N := A.factors.length with hNdef
  have hBl : B.factors.length = N := by rw [← tshape_length, ← hs, tshape_length]
  have hBc : B.core.shape.length = N := by rw [← hB.len, hBl]
  set W := (List.range N).map fun i =>
    (⟨(A.factors.getD i []).tmul (B.factors.getD i []) (A.core.shape.getD i 0) (B.core.shape.getD i 0),
      A.core.shape.getD i 0, B.core.shape.getD i 0⟩ : Dense.MatArg α) with hW
  have hWget : ∀ d, d < N → W.getD d ⟨[], 0, 0⟩ =
      ⟨(A.factors.getD d []).tmul (B.factors.getD d []) (A.core.shape.getD d 0) (B.core.shape.getD d 0),
        A.core.shape.getD d 0, B.core.shape.getD d 0⟩ := fun d hd => getD_map_range _ _ _ _ hd
  obtain ⟨J, hJ, jw, jl, jsh, jg⟩ := dense_ttm_all B.core hB.core W false (by rw [hBc]; exact hN)
    (by rw [hW, List.length_map, List.length_range, hBc])
    (by
      intro d hd
      rw [hBc] at hd
      rw [hWget d hd]
      simp)
  have jshape : J.shape = A.core.shape := by
    apply shape_ext (by rw [jl, hBc, ← hA.len])
    intro d hd
    rw [jl] at hd
    rw [jsh d hd, hWget d (hBc ▸ hd)]
    simp
  refine ⟨J, hJ, jw, jshape, ?_⟩
  rw [decomp_inner A.den B.den _ _ _ _ _ _ (tucker_decomp A hA) (tucker_decomp B hB) hs]
  show ((allSubs A.core.shape).map fun j => A.core.get j * J.get j).sum = _
  apply sum_congr
  intro j hj
  have hjb : InBounds A.core.shape j := mem_allSubs.1 hj
  rw [jg j (jshape ▸ hjb), ← List.sum_map_mul_left]
  apply sum_congr
  intro j' hj'
  have hjb' : InBounds B.core.shape j' := mem_allSubs.1 hj'
  rw [hBc]
  show _ = _ * ((List.range A.shape.length).map _).prod
  rw [tshape_length, ← hNdef]
  have : ((List.range N).map fun d =>
      if false = true then (W.getD d ⟨[], 0, 0⟩).rows.get (j'.getD d 0) (j.getD d 0)
      else (W.getD d ⟨[], 0, 0⟩).rows.get (j.getD d 0) (j'.getD d 0)) =
      (List.range N).map fun d => sumRange (A.shape.getD d 0) fun x =>
        (A.factors.getD d []).get x (j.getD d 0) * (B.factors.getD d []).get x (j'.getD d 0) := by
    apply List.map_congr_left
    intro d hd
    have hd' := List.mem_range.1 hd
    rw [if_neg (by simp), hWget d hd', tshape_getD]
    exact tmul_get _ _ _ _ _ _ (hjb.getD_lt (by rw [← hA.len]; exact hd')) (hjb'.getD_lt (by rw [hBc]; exact hd'))
  rw [this]
  exact (mul_assoc _ _ _).symm

/-- **Tucker · Tucker inner product** (the operand with the smaller core comes first). -/
theorem tucker_innerprodT_spec [CommSemiring α] (T O : Ttensor α) (hT : TuckerWF T) (hO : TuckerWF O)
    (hN : 1 ≤ T.factors.length) (hs : T.shape = O.shape) :
    T.innerprodT O = .ok (Spec.inner T.den O.den) := by
  unfold Ttensor.innerprodT
  have : (T.shape != O.shape) = false := by simp [hs]
  rw [this]
  simp only [Bool.false_eq_true, if_false]
  by_cases hb : numel T.core.shape > numel O.core.shape
  · have hN' : 1 ≤ O.factors.length := by rw [← tshape_length, ← hs, tshape_length]; exact hN
    obtain ⟨J, hJ, jw, jshape, jg⟩ := tucker_gram O T hO hT hN' hs.symm
    simp only [if_pos hb, hJ]
    rw [dense_innerprod_spec O.core J hO.core jw jshape.symm, jg, spec_inner_comm O.den T.den hs.symm]
  · obtain ⟨J, hJ, jw, jshape, jg⟩ := tucker_gram T O hT hO hN hs
    simp only [if_neg hb, hJ]
    rw [dense_innerprod_spec T.core J hT.core jw jshape.symm, jg]

theorem tucker_innerprodT_rejects [Add α] [Mul α] [Zero α] (T O : Ttensor α) (hs : T.shape ≠ O.shape) :
    T.innerprodT O = .error .reject := by
  unfold Ttensor.innerprodT
  have : (T.shape != O.shape) = true := by simp [hs]
  rw [this]; rfl

/-- **Tucker norm**, both branches (Gram matrices when the tensor is larger than its core, `full()`
otherwise): the square of `norm()` is `Σ_k ⟦T⟧[k]²`. -/
theorem tucker_normSq_spec [CommSemiring α] (T : Ttensor α) (hT : TuckerWF T) (hN : 1 ≤ T.factors.length) :
    T.normSq = .ok (Spec.normSq T.den) := by
  unfold Ttensor.normSq
  by_cases hb : numel T.shape > numel T.core.shape
  · obtain ⟨J, hJ, jw, jshape, jg⟩ := tucker_gram T T hT hT hN rfl
    simp only [if_pos hb, hJ]
    rw [dense_innerprod_spec J T.core jw hT.core jshape, spec_inner_comm J.den T.core.den jshape, jg]
    rfl
  · obtain ⟨Z, hZ, zs, zw, zg⟩ := tucker_full_spec T hT hN
    simp only [if_neg hb, hZ]
    rw [dense_normSq_spec Z zw]
    congr 1
    exact spec_inner_congr Z.den T.den Z.den T.den zs zg zg

/-! ### Tucker `ttv` -/

/-- The denotation of a scalar-or-Tucker result. -/
def tresGet [Add α] [Mul α] [One α] [Zero α] : ScalarOr α (Ttensor α) → List Nat → α
  | .scalar v, _ => v
  | .obj T, i => T.get i

def tresShape : ScalarOr α (Ttensor α) → List Nat
  | .scalar _ => []
  | .obj T => T.shape

/-- The dense `ttv` kernel hands back a tensor only when a mode is left. -/
theorem dense_ttvCore_obj_pos [Add α] [Mul α] [Zero α] (T : Dense α) (pairs : List (Nat × List α)) (t : Dense α)
    (h : T.ttvCore pairs = .ok (.obj t)) : 0 < t.shape.length := by
  unfold Dense.ttvCore at h
  simp only at h
  split at h
  · cases h
  · split at h
    · cases h
    · generalize Dense.ttvLoop (α := α) _ _ _ = r at h
      split at h
      · rename_i hpos
        injection h with h
        injection h with h
        subst h
        exact hpos
      · cases h

theorem zipWith_gatherD_zip [Zero α] (F : List (Mat α)) (rem i : List Nat) (jof : Nat → Nat) (hl : i.length = rem.length) :
    List.zipWith (fun (U : Mat α) (p : Nat × Nat) => Mat.get U p.1 p.2) (gatherD F rem []) (i.zip (rem.map jof)) =
      List.zipWith (fun d x => (F.getD d []).get x (jof d)) rem i := by
  induction rem generalizing i with
  | nil => simp [gatherD]
  | cons d rem ih =>
    cases i with
    | nil => simp at hl
    | cons x i =>
      have := ih i (by simpa using hl)
      simp only [gatherD, List.map_cons, List.zip_cons_cons, List.zipWith_cons_cons] at this ⊢
      rw [this]

/-- Summing the core's `ttv` against a function of the remaining coordinates. -/
theorem core_ttv_sum [CommSemiring α] (G : Dense α) (rem sel : List Nat) (hp : isPermOf (rem ++ sel) G.shape.length = true)
    (hrem : rem = complDims G.shape.length sel)
    (w' : Nat → Nat → α) (Φ : List Nat → α) :
    ((allSubs (gather G.shape rem)).map fun j' => Spec.ttv G.den sel w' j' * Φ j').sum =
      ((allSubs G.shape).map fun j => G.get j * Spec.selProd sel w' j * Φ (gather j rem)).sum := by
  rw [sum_allSubs_fibers G.shape rem sel hp]
  apply sum_congr
  intro j' _
  show ((Spec.fiber G.shape (complDims G.shape.length sel) j').map fun k => G.get k * Spec.selProd sel w' k).sum * _ = _
  rw [← hrem, ← List.sum_map_mul_right]
  apply sum_congr
  intro j hj
  rw [(mem_fiber.1 hj).2]

theorem getD_of_length_le (l : List α) [Zero α] (k : Nat) (h : l.length ≤ k) : l.getD k 0 = 0 := by
  rw [List.getD_eq_getElem?_getD, List.getElem?_eq_none h]; rfl

/-- **Tucker `ttv`** after mode designation: the selected factors are contracted with their vectors
(`Uₙᵀv`), the core is multiplied by the results (dense `ttv`), the other factors are kept. -/
theorem tucker_ttvCore_spec [CommSemiring α] (T : Ttensor α) (hT : TuckerWF T) (pairs : List (Nat × List α))
    (hnd : (pairs.map (·.1)).Nodup) (hlt : ∀ p ∈ pairs, p.1 < T.factors.length)
    (hlen : ∀ p ∈ pairs, p.2.length = T.shape.getD p.1 0)
    (w : Nat → Nat → α) (hw : ∀ p ∈ pairs, ∀ k, w p.1 k = p.2.getD k 0) :
    ∃ r, T.ttvCore pairs = .ok r ∧ tresShape r = Spec.ttvShape T.shape (pairs.map (·.1)) ∧
      ((∃ v, r = .scalar v) ↔ complDims T.factors.length (pairs.map (·.1)) = []) ∧
      ∀ i, InBounds (tresShape r) i → tresGet r i = Spec.ttv T.den (pairs.map (·.1)) w i := by
  set N := T.factors.length with hN
  have hNc : T.core.shape.length = N := hT.len.symm
  set sel := pairs.map (·.1) with hsel
  set rem := complDims N sel with hrem
  have hselt : ∀ d ∈ sel, d < N := by
    intro d hd
    obtain ⟨p, hp, rfl⟩ := List.mem_map.1 hd
    exact hlt p hp
  have hp : isPermOf (rem ++ sel) N = true := isPermOf_compl_append N sel hnd hselt
  set W := pairs.map fun p => (p.1, (T.factors.getD p.1 []).tmulVec p.2 (T.core.shape.getD p.1 0)) with hW
  have hWsel : W.map (·.1) = sel := by rw [hW, List.map_map]; rfl
  set w' : Nat → Nat → α := fun d x => if x < T.core.shape.getD d 0 then
    sumRange (T.factors.getD d []).length (fun a => (T.factors.getD d []).get a x * w d a) else 0 with hw'def
  have hw' : ∀ q ∈ W, ∀ k, w' q.1 k = q.2.getD k 0 := by
    intro q hq k
    obtain ⟨p, hp', rfl⟩ := List.mem_map.1 hq
    simp only [hw'def]
    by_cases hk : k < T.core.shape.getD p.1 0
    · rw [if_pos hk, tmulVec_getD _ _ _ _ hk]
      apply sumRange_congr
      intro a _
      rw [hw p hp']
    · rw [if_neg hk, getD_of_length_le _ _ (by rw [length_tmulVec]; omega)]
  obtain ⟨r, hr, hsh, hg⟩ := dense_ttvCore_spec T.core hT.core W (by rw [hWsel]; exact hnd)
    (by
      intro q hq
      obtain ⟨p, hp', rfl⟩ := List.mem_map.1 hq
      rw [hNc]; exact hlt p hp')
    (by
      intro q hq
      obtain ⟨p, hp', rfl⟩ := List.mem_map.1 hq
      exact length_tmulVec _ _ _)
    w' hw'
  rw [hWsel] at hsh hg
  have hcshape : Spec.ttvShape T.core.shape sel = gather T.core.shape rem := by
    unfold Spec.ttvShape; rw [hNc]
  have htshape : Spec.ttvShape T.shape sel = gather T.shape rem := by
    unfold Spec.ttvShape; rw [tshape_length]
  have hguard : pairs.any (fun p => p.2.length != (T.factors.getD p.1 []).length) = false := by
    rw [List.any_eq_false]
    intro p hp'
    rw [hlen p hp', tshape_getD]; simp
  -- the common value
  have hval : ∀ (i : List Nat), InBounds (gather T.shape rem) i → ∀ (Φ : List Nat → α),
      (∀ j, Φ (gather j rem) = (List.zipWith (fun d x => (T.factors.getD d []).get x (j.getD d 0)) rem i).prod) →
      ((allSubs (gather T.core.shape rem)).map fun j' => Spec.ttv T.core.den sel w' j' * Φ j').sum =
        Spec.ttv T.den sel w i := by
    intro i hi Φ hΦ
    rw [core_ttv_sum T.core rem sel (by rw [hNc]; exact hp) (by rw [hNc]) w' Φ]
    have := decomp_ttv T.den _ _ _ (tucker_decomp T hT) sel hnd
      (by intro d hd; show d < T.shape.length; rw [tshape_length]; exact hselt d hd) w i
      (by show InBounds (gather T.shape (complDims T.shape.length sel)) i; rw [tshape_length]; exact hi)
    rw [this]
    apply sum_congr
    intro j hj
    have hjb := mem_allSubs.1 hj
    rw [hΦ j]
    show _ = T.core.get j * ((List.zipWith _ (complDims T.shape.length sel) i).prod * _)
    rw [tshape_length, ← hN, ← hrem]
    have : Spec.selProd sel w' j = (sel.map fun d => sumRange (T.den.shape.getD d 0) fun x =>
        (T.factors.getD d []).get x (j.getD d 0) * w d x).prod := by
      unfold Spec.selProd
      congr 1
      apply List.map_congr_left
      intro d hd
      simp only [hw'def]
      rw [if_pos (hjb.getD_lt (by rw [hNc]; exact hselt d hd))]
      show _ = sumRange (T.shape.getD d 0) _
      rw [tshape_getD]
    rw [this]
    simp only [sumRange]
    ring
  cases r with
  | scalar v =>
    have hrem0 : rem = [] := by
      have : ([] : List Nat) = gather T.core.shape rem := by rw [← hcshape, ← hsh]; rfl
      have hl := congrArg List.length this
      simp at hl
      exact List.length_eq_zero_iff.1 hl.symm
    refine ⟨.scalar v, ?_, ?_, ⟨fun _ => hrem0, fun _ => ⟨_, rfl⟩⟩, ?_⟩
    · unfold Ttensor.ttvCore
      simp only [← hN, hguard, ← hsel, ← hrem, ← hW, hr, hrem0, List.isEmpty_nil, Bool.false_eq_true, if_false, if_true]
    · rw [htshape, hrem0]; rfl
    · intro i hi
      have hi0 : i = [] := by
        change InBounds [] i at hi
        cases i <;> simp_all [InBounds]
      subst hi0
      have h1 := hg [] (by rw [hsh, hcshape, hrem0]; trivial)
      have h2 := hval [] (by rw [hrem0]; trivial) (fun _ => 1) (by intro j; rw [hrem0]; simp)
      rw [hrem0] at h2
      simp only [gather_nil, allSubs_nil, List.map_cons, List.map_nil, List.sum_cons, List.sum_nil, mul_one, add_zero] at h2
      show v = _
      rw [← h2, ← h1]
      rfl
  | obj c =>
    have hcs : c.shape = gather T.core.shape rem := by rw [← hcshape, ← hsh]; rfl
    have hremne : rem.isEmpty = false := by
      have := dense_ttvCore_obj_pos T.core W c hr
      rw [hcs, length_gather] at this
      cases hrm : rem with
      | nil => rw [hrm] at this; simp at this
      | cons a l => rfl
    refine ⟨.obj ⟨c, gatherD T.factors rem []⟩, ?_, ?_,
      ⟨(fun ⟨v, h⟩ => by cases h), fun h => by rw [h] at hremne; cases hremne⟩, ?_⟩
    · unfold Ttensor.ttvCore
      simp only [← hN, hguard, ← hsel, ← hrem, ← hW, hr, hremne, Bool.false_eq_true, if_false]
    · rw [htshape]
      exact gatherD_shape T.factors rem
    · intro i hi
      have hi' : InBounds (gather T.shape rem) i := by
        have : tresShape (.obj (⟨c, gatherD T.factors rem []⟩ : Ttensor α)) = gather T.shape rem :=
          gatherD_shape T.factors rem
        rw [← this]; exact hi
      have hil : i.length = rem.length := by rw [hi'.length_eq, length_gather]
      rw [← hval i hi' (fun j' => (List.zipWith (fun (U : Mat α) (p : Nat × Nat) => Mat.get U p.1 p.2)
        (gatherD T.factors rem []) (i.zip j')).prod)
        (by intro j; rw [show gather j rem = rem.map fun k => j.getD k 0 from rfl, zipWith_gatherD_zip _ _ _ _ hil])]
      show Ttensor.get ⟨c, gatherD T.factors rem []⟩ i = _
      unfold Ttensor.get
      simp only
      rw [hcs]
      apply sum_congr
      intro j' hj'
      have := hg j' (by
        show InBounds c.shape j'
        rw [hcs]; exact mem_allSubs.1 hj')
      rw [← this]
      rfl

/-- A vector whose length differs from the extent of its mode is rejected. -/
theorem tucker_ttvCore_rejects [Add α] [Mul α] [Zero α] (T : Ttensor α) (pairs : List (Nat × List α))
    (h : ∃ p ∈ pairs, p.2.length ≠ T.shape.getD p.1 0) : T.ttvCore pairs = .error .reject := by
  unfold Ttensor.ttvCore
  have : pairs.any (fun p => p.2.length != (T.factors.getD p.1 []).length) = true := by
    rw [List.any_eq_true]
    obtain ⟨p, hp, hne⟩ := h
    refine ⟨p, hp, ?_⟩
    rw [← tshape_getD]
    simpa using hne
  simp only [this, if_true]

/-- **Tucker `ttv` as called** with `dims` in any order and one vector per listed mode. -/
theorem tucker_ttv_dims [CommSemiring α] (T : Ttensor α) (hT : TuckerWF T) (d : List Nat) (vs : List (List α))
    (hd : d.Nodup) (hN : ∀ x ∈ d, x < T.factors.length) (hl : vs.length = d.length)
    (hsz : ∀ p ∈ d.zip vs, p.2.length = T.shape.getD p.1 0)
    (w : Nat → Nat → α) (hw : ∀ p ∈ d.zip vs, ∀ k, w p.1 k = p.2.getD k 0) :
    ∃ r, T.ttv vs (some (d.map Int.ofNat)) none = .ok r ∧ tresShape r = Spec.ttvShape T.shape d ∧
      ((∃ v, r = .scalar v) ↔ complDims T.factors.length d = []) ∧
      ∀ i, InBounds (tresShape r) i → tresGet r i = Spec.ttv T.den d w i := by
  obtain ⟨pairs, e, hs, hp⟩ := resolve_dims_P T.factors.length vs d hd hN hl
  obtain ⟨f1, f2, f3, f4⟩ := pairs_facts T.shape List.length d vs pairs hd
    (by rw [tshape_length]; exact hN) hl hsz hs hp
  obtain ⟨r, hr, hsh, hk, hg⟩ := tucker_ttvCore_spec T hT pairs f1 (by rw [← tshape_length]; exact f2) f3 w
    (fun p hp' => hw p (hp.subset hp'))
  refine ⟨r, by unfold Ttensor.ttv; rw [e]; exact hr, by rw [hsh, spec_ttvShape_perm _ f4],
    by rw [hk, complDims_perm f4], ?_⟩
  intro i hi
  rw [hg i hi, spec_ttv_perm _ f4]

/-! ### Tucker `ttm` -/

theorem lookup_of_mem_nodup {β : Type} (l : List (Nat × β)) (hnd : (l.map (·.1)).Nodup) (d : Nat) (v : β)
    (h : (d, v) ∈ l) : l.lookup d = some v := by
  induction l with
  | nil => cases h
  | cons a l ih =>
    obtain ⟨a1, a2⟩ := a
    simp only [List.map_cons, List.nodup_cons] at hnd
    rcases List.mem_cons.1 h with heq | hmem
    · injection heq with h1 h2
      subst h1; subst h2
      simp
    · have hne : d ≠ a1 := by
        intro e
        subst e
        exact hnd.1 (List.mem_map.2 ⟨(d, v), hmem, rfl⟩)
      have : (d == a1) = false := by simpa using hne
      rw [List.lookup_cons, this]
      exact ih hnd.2 hmem

theorem lookup_none_of_not_mem {β : Type} (l : List (Nat × β)) (d : Nat) (h : d ∉ l.map (·.1)) :
    l.lookup d = none := by
  induction l with
  | nil => rfl
  | cons a l ih =>
    obtain ⟨a1, a2⟩ := a
    simp only [List.map_cons, List.mem_cons, not_or] at h
    have : (d == a1) = false := by simpa using h.1
    rw [List.lookup_cons, this]
    exact ih h.2

theorem length_mulD [Add α] [Mul α] [Zero α] (A B : Mat α) (m k n : Nat) : (A.mulD B m k n).length = m := by
  simp [Mat.mulD]

/-- **Tucker `ttm`** for resolved modes: the matrices multiply the factors; the core is kept. -/
theorem tucker_ttm_pairs [CommSemiring α] (T : Ttensor α) (hT : TuckerWF T) (Ms : List (Dense.MatArg α))
    (dims excl : Option (List Int)) (tr : Bool) (Mf : Nat → Nat → Nat → α)
    (pairs : List (Nat × Dense.MatArg α)) (hres : resolveModes T.factors.length Ms dims excl = .ok pairs)
    (hnd : (pairs.map (·.1)).Nodup) (hlt : ∀ p ∈ pairs, p.1 < T.factors.length)
    (hsz : ∀ p ∈ pairs, (if tr then p.2.m else p.2.n) = T.shape.getD p.1 0)
    (hM : ∀ p ∈ pairs, ∀ a b, Mf p.1 a b = if tr then p.2.rows.get b a else p.2.rows.get a b) :
    ∃ T', T.ttm Ms dims excl tr = .ok T' ∧ T'.core = T.core ∧ T'.shape.length = T.shape.length ∧
      (∀ m, m < T.factors.length → m ∉ pairs.map (·.1) → T'.factors.getD m [] = T.factors.getD m []) ∧
      (∀ p ∈ pairs, T'.shape.getD p.1 0 = if tr then p.2.n else p.2.m) ∧
      ∀ i, InBounds T'.shape i → T'.get i = Spec.ttm T.den (pairs.map (·.1)) Mf i := by
  set N := T.factors.length with hN
  have hNc : T.core.shape.length = N := hT.len.symm
  set sel := pairs.map (·.1) with hsel
  set rem := complDims N sel with hrem
  have hselt : ∀ d ∈ sel, d < N := by
    intro d hd
    obtain ⟨p, hp, rfl⟩ := List.mem_map.1 hd
    exact hlt p hp
  have hp : isPermOf (rem ++ sel) N = true := isPermOf_compl_append N sel hnd hselt
  have hrevnd : (pairs.reverse.map (·.1)).Nodup := by
    rw [List.map_reverse]; exact List.nodup_reverse.2 hnd
  set newf : Nat → Mat α := fun d =>
    match pairs.reverse.lookup d with
    | none => T.factors.getD d []
    | some M =>
      if tr then (M.rows.tr M.m M.n).mulD (T.factors.getD d []) M.n M.m (T.core.shape.getD d 0)
      else M.rows.mulD (T.factors.getD d []) M.m M.n (T.core.shape.getD d 0) with hnewf
  have hkeep : ∀ m, m ∉ sel → newf m = T.factors.getD m [] := by
    intro m hm
    simp only [hnewf]
    rw [lookup_none_of_not_mem pairs.reverse m (by rw [List.map_reverse, List.mem_reverse]; exact hm)]
  have hnew : ∀ p ∈ pairs, newf p.1 =
      if tr then (p.2.rows.tr p.2.m p.2.n).mulD (T.factors.getD p.1 []) p.2.n p.2.m (T.core.shape.getD p.1 0)
      else p.2.rows.mulD (T.factors.getD p.1 []) p.2.m p.2.n (T.core.shape.getD p.1 0) := by
    intro p hp'
    simp only [hnewf]
    rw [lookup_of_mem_nodup pairs.reverse hrevnd p.1 p.2 (List.mem_reverse.2 hp')]
  set T' : Ttensor α := ⟨T.core, (List.range N).map newf⟩ with hT'
  have hT'get : ∀ m, m < N → T'.factors.getD m [] = newf m := fun m hm => getD_map_range _ _ _ _ hm
  have hT'len : T'.factors.length = N := by simp [hT']
  have hshape_new : ∀ p ∈ pairs, T'.shape.getD p.1 0 = if tr then p.2.n else p.2.m := by
    intro p hp'
    rw [tshape_getD, hT'get p.1 (hlt p hp'), hnew p hp']
    cases tr <;> simp [length_mulD]
  have hshape_keep : ∀ m, m < N → m ∉ sel → T'.shape.getD m 0 = T.shape.getD m 0 := by
    intro m hm hms
    rw [tshape_getD, tshape_getD, hT'get m hm, hkeep m hms]
  have hguard : pairs.any (fun p => (if tr then p.2.m else p.2.n) != (T.factors.getD p.1 []).length) = false := by
    rw [List.any_eq_false]
    intro p hp'
    rw [hsz p hp', tshape_getD]; simp
  refine ⟨T', ?_, rfl, by rw [tshape_length, tshape_length, hT'len], ?_, hshape_new, ?_⟩
  · unfold Ttensor.ttm
    simp only [← hN, hres, hguard, Bool.false_eq_true, if_false]
    rfl
  · intro m hm hms
    rw [hT'get m hm, hkeep m hms]
  · intro i hi
    have hil : i.length = N := by rw [hi.length_eq, tshape_length, hT'len]
    have hirem : InBounds (gather T.shape rem) (gather i rem) := by
      have h1 : gather T.shape rem = gather T'.shape rem := by
        apply gather_congr
        intro k hk
        exact (hshape_keep k (complDims_lt hk) (mem_complDims.1 hk).2).symm
      rw [h1]
      apply hi.gather
      intro k hk
      rw [tshape_length, hT'len]
      exact complDims_lt hk
    have hspec := decomp_ttm T.den _ _ _ (tucker_decomp T hT) sel hnd
      (by intro d hd; show d < T.shape.length; rw [tshape_length]; exact hselt d hd) Mf i
      (by show InBounds (gather T.shape (complDims T.shape.length sel)) (gather i (complDims T.shape.length sel))
          rw [tshape_length]; exact hirem)
    rw [hspec]
    have hdec := tucker_decomp' T' (by rw [hT'len]; exact hNc.symm) i hi
    rw [show T'.get i = T'.den.get i from rfl, hdec]
    apply sum_congr
    intro j hj
    have hjb : InBounds T.core.shape j := mem_allSubs.1 hj
    show T.core.get j * ((List.range T'.shape.length).map _).prod =
      T.core.get j * (((complDims T.shape.length sel).map _).prod * _)
    rw [tshape_length, tshape_length, hT'len, ← hN, ← hrem, prod_range_split N rem sel hp]
    congr 2
    · congr 1
      apply List.map_congr_left
      intro d hd
      simp only
      rw [hT'get d (complDims_lt hd), hkeep d (mem_complDims.1 hd).2]
    · rw [hsel, List.map_map, List.map_map]
      congr 1
      apply List.map_congr_left
      intro p hp'
      have hpN := hlt p hp'
      have hid : i.getD p.1 0 < (if tr then p.2.n else p.2.m) := by
        rw [← hshape_new p hp']
        exact hi.getD_lt (by rw [tshape_length, hT'len]; exact hpN)
      have hjd : j.getD p.1 0 < T.core.shape.getD p.1 0 := hjb.getD_lt (by rw [hNc]; exact hpN)
      have hszp := hsz p hp'
      simp only [Function.comp_def]
      show (T'.factors.getD p.1 []).get (i.getD p.1 0) (j.getD p.1 0) =
        sumRange (T.shape.getD p.1 0) fun x => (T.factors.getD p.1 []).get x (j.getD p.1 0) * Mf p.1 (i.getD p.1 0) x
      rw [hT'get p.1 hpN, hnew p hp']
      cases tr with
      | false =>
        simp only [Bool.false_eq_true, if_false] at hid hszp ⊢
        rw [mulD_get _ _ _ _ _ _ _ hid hjd, hszp]
        apply sumRange_congr
        intro x _
        rw [hM p hp']
        simp only [Bool.false_eq_true, if_false]
        exact mul_comm _ _
      | true =>
        simp only [if_true] at hid hszp ⊢
        rw [mulD_get _ _ _ _ _ _ _ hid hjd, hszp]
        apply sumRange_congr
        intro x hx
        rw [hM p hp', tr_get _ _ _ _ _ (hszp ▸ hx) hid]
        simp only [if_true]
        exact mul_comm _ _

/-- The value `ttm` is specified to have depends on the set of selected modes only. -/
theorem spec_ttm_perm [CommSemiring α] (X : Den α) {a b : List Nat} (h : a.Perm b) (M : Nat → Nat → Nat → α)
    (i : List Nat) : Spec.ttm X a M i = Spec.ttm X b M i := by
  unfold Spec.ttm
  simp only
  rw [complDims_perm h]
  unfold Spec.sumOver
  apply sum_congr
  intro k _
  rw [(h.map _).prod_eq]

/-- **Tucker `ttm` as called** with `dims` in any order and one matrix per listed mode. -/
theorem tucker_ttm_dims [CommSemiring α] (T : Ttensor α) (hT : TuckerWF T) (d : List Nat) (Ms : List (Dense.MatArg α))
    (tr : Bool) (Mf : Nat → Nat → Nat → α)
    (hd : d.Nodup) (hN : ∀ x ∈ d, x < T.factors.length) (hl : Ms.length = d.length)
    (hsz : ∀ p ∈ d.zip Ms, (if tr then p.2.m else p.2.n) = T.shape.getD p.1 0)
    (hM : ∀ p ∈ d.zip Ms, ∀ a b, Mf p.1 a b = if tr then p.2.rows.get b a else p.2.rows.get a b) :
    ∃ T', T.ttm Ms (some (d.map Int.ofNat)) none tr = .ok T' ∧ T'.core = T.core ∧
      T'.shape.length = T.shape.length ∧
      (∀ m, m < T.factors.length → m ∉ d → T'.factors.getD m [] = T.factors.getD m []) ∧
      (∀ p ∈ d.zip Ms, T'.shape.getD p.1 0 = if tr then p.2.n else p.2.m) ∧
      ∀ i, InBounds T'.shape i → T'.get i = Spec.ttm T.den d Mf i := by
  obtain ⟨pairs, e, hs, hp⟩ := resolve_dims_P T.factors.length Ms d hd hN hl
  have hfst : (pairs.map (·.1)).Perm d := by
    have := hp.map Prod.fst
    rwa [List.map_fst_zip (Nat.le_of_eq hl.symm)] at this
  obtain ⟨T', h1, h2, h3, h4, h5, h6⟩ := tucker_ttm_pairs T hT Ms (some (d.map Int.ofNat)) none tr Mf pairs e
    (hs.imp (fun h => Nat.ne_of_lt h)) (fun p hp' => hN p.1 (hfst.subset (List.mem_map_of_mem hp')))
    (fun p hp' => hsz p (hp.subset hp')) (fun p hp' => hM p (hp.subset hp'))
  refine ⟨T', h1, h2, h3, ?_, ?_, ?_⟩
  · intro m hm hmd
    exact h4 m hm (fun h => hmd (hfst.subset h))
  · intro p hp'
    exact h5 p (hp.symm.subset hp')
  · intro i hi
    rw [h6 i hi, spec_ttm_perm _ hfst]

/-! ### Tucker `mttkrp` -/

/-- **Tucker `mttkrp`**, for the factor list `get_mttkrp_factors` hands on: the Gram-type matrices
`UₘᵀVₘ` go into a dense `mttkrp` of the core, whose result is multiplied by `Uₙ`. -/
theorem tucker_mttkrp_fs [CommSemiring α] (T : Ttensor α) (hT : TuckerWF T) (Uop : KOperand α)
    (fs : List (Mat α)) (n R : Nat)
    (hfs : getMttkrpFactors Uop n T.factors.length = .ok fs)
    (hN2 : 2 ≤ T.factors.length) (hn : n < T.factors.length)
    (hrows : ∀ m, m < T.factors.length → m ≠ n → (fs.getD m []).length = (T.factors.getD m []).length)
    (hcols : ∀ m, m < T.factors.length → m ≠ n → ∀ row ∈ fs.getD m [], row.length = R)
    (hpos : ∀ m, m < T.factors.length → m ≠ n → 0 < (T.factors.getD m []).length)
    (hcpos : ∀ e ∈ T.core.shape, 0 < e) :
    ∃ V, T.mttkrp Uop n = .ok V ∧ V.length = (T.factors.getD n []).length ∧ (∀ row ∈ V, row.length = R) ∧
      ∀ i r, i < (T.factors.getD n []).length → r < R →
        V.get i r = Spec.mttkrp T.den (fun m x c => (fs.getD m []).get x c) (fun _ => 1) n i r := by
  set N := T.factors.length with hN
  have hNc : T.core.shape.length = N := hT.len.symm
  have hfpos : ∀ m, m < N → m ≠ n → 0 < (fs.getD m []).length :=
    fun m hm hmn => by rw [hrows m hm hmn]; exact hpos m hm hmn
  have hR := mttkrp_R fs n N R hN2 hn hcols hfpos
  have hnc : ∀ m, m < N → m ≠ n → (fs.getD m []).ncols = R :=
    fun m hm hmn => ncols_eq _ R (hcols m hm hmn) (hfpos m hm hmn)
  set W : List (Mat α) := (List.range N).map fun i =>
    if i == n then [] else (T.factors.getD i []).tmul (fs.getD i []) (T.core.shape.getD i 0) (fs.getD i []).ncols with hW
  have hWget : ∀ m, m < N → m ≠ n → W.getD m [] =
      (T.factors.getD m []).tmul (fs.getD m []) (T.core.shape.getD m 0) R := by
    intro m hm hmn
    rw [hW, getD_map_range _ _ _ _ hm]
    have : (m == n) = false := by simpa using hmn
    rw [this, hnc m hm hmn]
    rfl
  have hguard : (List.range N).any (fun i => i != n &&
      (fs.getD i []).length != (T.factors.getD i []).length) = false := by
    rw [List.any_eq_false]
    intro m hm
    have hm' := List.mem_range.1 hm
    by_cases hmn : m = n
    · simp [hmn]
    · have h3 : (m != n) = true := by simpa using hmn
      rw [h3, hrows m hm' hmn]; simp
  obtain ⟨Y, hY, hval⟩ := dense_mttkrpCore_spec T.core W n R hT.core (by rw [hNc]; exact hN2) (by rw [hNc]; exact hn)
    (by rw [hW, List.length_map, List.length_range, hNc])
    (by
      intro m hm hmn
      rw [hNc] at hm
      rw [hWget m hm hmn]
      simp [Mat.tmul])
    (by
      intro m hm hmn row hrow
      rw [hNc] at hm
      rw [hWget m hm hmn] at hrow
      obtain ⟨a, _, rfl⟩ := List.mem_map.1 hrow
      simp)
    hcpos
  refine ⟨(T.factors.getD n []).mulD Y (T.factors.getD n []).length (T.core.shape.getD n 0) R, ?_, length_mulD _ _ _ _ _,
    ?_, ?_⟩
  · unfold Ttensor.mttkrp
    simp only [← hN, hfs, hR]
    rw [if_neg (by omega), hguard]
    simp only [Bool.false_eq_true, if_false, ← hW, hY]
  · intro row hrow
    obtain ⟨a, _, rfl⟩ := List.mem_map.1 hrow
    simp
  · intro i r hi hr
    rw [mulD_get _ _ _ _ _ _ _ hi hr]
    have hspec := decomp_mttkrp T.den _ _ _ (tucker_decomp T hT) (fun m x c => (fs.getD m []).get x c) (fun _ => 1)
      n i r (by show n < T.shape.length; rw [tshape_length]; exact hn)
      (by show i < T.shape.getD n 0; rw [tshape_getD]; exact hi)
    rw [hspec, one_mul]
    -- all core cells, grouped by their coordinate `n`
    have hp : isPermOf ([n] ++ others N n) T.core.shape.length = true := by
      rw [hNc]; exact isPermOf_mode_first N n hn
    rw [sum_allSubs_fibers T.core.shape [n] (others N n) hp]
    show _ = ((allSubs [T.core.shape.getD n 0]).map _).sum
    rw [allSubs_singleton, List.map_map]
    unfold sumRange
    apply sum_congr
    intro c hc
    have hc' := List.mem_range.1 hc
    rw [hval c r hc' hr]
    show _ * (1 * (((allSubs T.core.shape).filter fun k => k.getD n 0 == c).map fun k =>
      T.core.get k * (((List.range T.core.shape.length).filter (· != n)).map fun m =>
        (W.getD m []).get (k.getD m 0) r).prod).sum) = _
    rw [one_mul, filter_mode_eq_fiber, ← List.sum_map_mul_left]
    apply sum_congr
    intro j hj
    obtain ⟨hjb, hjg⟩ := mem_fiber.1 hj
    have hjn : j.getD n 0 = c := by
      have : [j.getD n 0] = [c] := hjg
      exact List.head_eq_of_cons_eq this
    show _ = T.core.get j * ((T.factors.getD n []).get i (j.getD n 0) * ((others T.shape.length n).map _).prod)
    rw [hjn, hNc, tshape_length, ← hN]
    have : (((List.range N).filter (· != n)).map fun m => (W.getD m []).get (j.getD m 0) r) =
        (others N n).map fun m => sumRange (T.den.shape.getD m 0) fun x =>
          (T.factors.getD m []).get x (j.getD m 0) * (fs.getD m []).get x r := by
      apply List.map_congr_left
      intro m hm
      obtain ⟨hm1, hm2⟩ := List.mem_filter.1 hm
      have hmN := List.mem_range.1 hm1
      have hmn : m ≠ n := by simpa using hm2
      rw [hWget m hmN hmn, tmul_get _ _ _ _ _ _ (hjb.getD_lt (by rw [hNc]; exact hmN)) hr]
      show _ = sumRange (T.shape.getD m 0) _
      rw [tshape_getD]
    rw [this]
    simp only [sumRange]
    ring

/-- **Tucker `mttkrp` with a factor list.** -/
theorem tucker_mttkrp_list_spec [CommSemiring α] (T : Ttensor α) (hT : TuckerWF T) (U : List (Mat α)) (n R : Nat)
    (hN2 : 2 ≤ T.factors.length) (hn : n < T.factors.length) (hlen : U.length = T.factors.length)
    (hrows : ∀ m, m < T.factors.length → m ≠ n → (U.getD m []).length = (T.factors.getD m []).length)
    (hcols : ∀ m, m < T.factors.length → m ≠ n → ∀ row ∈ U.getD m [], row.length = R)
    (hpos : ∀ m, m < T.factors.length → m ≠ n → 0 < (T.factors.getD m []).length)
    (hcpos : ∀ e ∈ T.core.shape, 0 < e) :
    ∃ V, T.mttkrp (.list U) n = .ok V ∧ V.length = (T.factors.getD n []).length ∧ (∀ row ∈ V, row.length = R) ∧
      ∀ i r, i < (T.factors.getD n []).length → r < R →
        V.get i r = Spec.mttkrp T.den (fun m x c => (U.getD m []).get x c) (fun _ => 1) n i r := by
  apply tucker_mttkrp_fs T hT (.list U) U n R ?_ hN2 hn hrows hcols hpos hcpos
  unfold getMttkrpFactors
  simp [hlen]

/-- **Tucker `mttkrp` with a Kruskal operand** (its weights scale the columns). -/
theorem tucker_mttkrp_kruskal_spec [CommSemiring α] (T : Ttensor α) (hT : TuckerWF T) (L : Ktensor α) (n R : Nat)
    (hN2 : 2 ≤ T.factors.length) (hn : n < T.factors.length) (hlen : L.factors.length = T.factors.length)
    (hw : L.weights.length = R)
    (hrows : ∀ m, m < T.factors.length → m ≠ n → (L.factors.getD m []).length = (T.factors.getD m []).length)
    (hcols : ∀ m, m < T.factors.length → m ≠ n → ∀ row ∈ L.factors.getD m [], row.length = R)
    (hpos : ∀ m, m < T.factors.length → m ≠ n → 0 < (T.factors.getD m []).length)
    (hcpos : ∀ e ∈ T.core.shape, 0 < e) :
    ∃ V, T.mttkrp (.kruskal L) n = .ok V ∧ V.length = (T.factors.getD n []).length ∧ (∀ row ∈ V, row.length = R) ∧
      ∀ i r, i < (T.factors.getD n []).length → r < R →
        V.get i r = Spec.mttkrp T.den (fun m x c => (L.factors.getD m []).get x c)
          (fun r => L.weights.getD r 0) n i r := by
  obtain ⟨fs, hfs, f1, f2, f3⟩ := getMttkrpFactors_kruskal L n T.factors.length R hN2 hn hlen hw
  obtain ⟨V, hV, hV1, hV2, hval⟩ := tucker_mttkrp_fs T hT (.kruskal L) fs n R hfs hN2 hn
    (fun m hm hmn => by rw [f1 m hm]; exact hrows m hm hmn)
    (fun m hm hmn => f2 m hm (hcols m hm hmn)) hpos hcpos
  refine ⟨V, hV, hV1, hV2, ?_⟩
  intro i r hi hr
  rw [hval i r hi hr, f3 T.den (tshape_length T) i r]

end MLK
end Pyttb
