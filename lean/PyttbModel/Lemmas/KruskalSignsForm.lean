/-
C08 lemmas: the normal form reached by `fixsigns()`: in every component at most one mode keeps
a negative entry of largest magnitude (exactly one when their number was odd).
-/
import PyttbModel.Lemmas.KruskalSigns
set_option linter.unusedSectionVars false
namespace Pyttb
namespace Ktensor

variable {α : Type}

/-- the modes whose column `r` has a negative entry of largest magnitude -/
def negModes [Neg α] [Zero α] [LT α] [DecidableLT α] (K : Ktensor α) (r : Nat) : List Nat :=
  (List.range K.ndims).filter fun n => decide (maxAbsEntry ((K.factors.getD n []).col r) < 0)

theorem filter_not_take_eq_drop (l : List Nat) (k : Nat) (h : l.Nodup) :
    l.filter (fun x => !(l.take k).contains x) = l.drop k := by
  induction l generalizing k with
  | nil => simp
  | cons a l ih =>
    cases k with
    | zero => simp
    | succ k =>
      rw [List.nodup_cons] at h
      simp only [List.take_succ_cons, List.drop_succ_cons, List.filter_cons, List.contains_cons, BEq.rfl,
        Bool.true_or, Bool.not_true, Bool.false_eq_true, if_false]
      rw [← ih k h.2]
      apply List.filter_congr
      intro x hx
      have : (x == a) = false := by
        rw [beq_eq_false_iff_ne]
        rintro rfl
        exact h.1 hx
      simp [this]

section field
variable [Field α] [LinearOrder α] [IsStrictOrderedRing α]

theorem absOf_neg_one_mul (x : α) : absOf (-1 * x) = absOf x := by
  rw [absOf_eq_abs, absOf_eq_abs, abs_mul]
  simp

theorem maxAbsEntry_neg (v : List α) : maxAbsEntry (v.map (-1 * ·)) = -1 * maxAbsEntry v := by
  cases v with
  | nil => simp [maxAbsEntry]
  | cons x xs =>
    simp only [maxAbsEntry, List.map_cons]
    induction xs generalizing x with
    | nil => simp
    | cons y ys ih =>
      simp only [List.map_cons, List.foldl_cons, absOf_neg_one_mul]
      split
      · exact ih y
      · exact ih x

/-! ### columns after negating one column -/

theorem negCol_col (K : Ktensor α) (n r m r' : Nat) (hn : n < K.factors.length) (hr' : r' < K.ncomp) :
    ((negCol K n r).factors.getD m []).col r'
      = if m = n ∧ r' = r then ((K.factors.getD m []).col r').map (-1 * ·) else (K.factors.getD m []).col r' := by
  unfold negCol
  by_cases hm : m = n
  · subst hm
    simp only [List.getD_eq_getElem?_getD, List.getElem?_set_self hn, Option.getD_some, true_and]
    rw [Mat.col_scaleL, getD_map_range _ _ _ _ hr']
    by_cases hr : r' = r
    · subst hr; simp
    · have : (r' == r) = false := by rw [beq_eq_false_iff_ne]; exact hr
      simp only [this, Bool.false_eq_true, if_false, hr, one_mul]
      simp
  · simp [List.getD_eq_getElem?_getD, List.getElem?_set_ne (Ne.symm hm), hm]

theorem foldl_negCol_col (K : Ktensor α) (ms : List Nat) (r : Nat) (hms : ∀ n ∈ ms, n < K.factors.length)
    (hnd : ms.Nodup) (m r' : Nat) (hr' : r' < K.ncomp) :
    (((ms.foldl (fun K n => negCol K n r) K)).factors.getD m []).col r'
      = if m ∈ ms ∧ r' = r then ((K.factors.getD m []).col r').map (-1 * ·) else (K.factors.getD m []).col r' := by
  induction ms generalizing K with
  | nil => simp
  | cons n ms ih =>
    simp only [List.foldl_cons]
    rw [List.nodup_cons] at hnd
    have hn := hms n (List.mem_cons_self ..)
    rw [ih (negCol K n r) (fun x hx => by rw [negCol_ndims]; exact hms x (List.mem_cons_of_mem _ hx)) hnd.2
      (by rw [negCol_ncomp]; exact hr')]
    rw [negCol_col K n r m r' hn hr']
    by_cases hr : r' = r
    · subst hr
      by_cases hmn : m = n
      · subst hmn
        simp [hnd.1]
      · by_cases hmm : m ∈ ms <;> simp [hmn, hmm]
    · simp [hr]

/-! ### one component -/

theorem fixsignsComp_flips (K : Ktensor α) (r : Nat) :
    fixsignsComp K r = ((negModes K r).take (2 * ((negModes K r).length / 2))).foldl (fun K n => negCol K n r) K :=
  rfl

theorem negModes_nodup (K : Ktensor α) (r : Nat) : (negModes K r).Nodup :=
  List.nodup_range.sublist List.filter_sublist

theorem negModes_lt (K : Ktensor α) (r : Nat) : ∀ n ∈ negModes K r, n < K.factors.length := by
  intro n hn
  simp only [negModes, List.mem_filter, List.mem_range, ndims] at hn
  exact hn.1

theorem fixsignsComp_col (K : Ktensor α) (r m r' : Nat) (hr' : r' < K.ncomp) :
    ((fixsignsComp K r).factors.getD m []).col r'
      = if m ∈ (negModes K r).take (2 * ((negModes K r).length / 2)) ∧ r' = r
          then ((K.factors.getD m []).col r').map (-1 * ·) else (K.factors.getD m []).col r' := by
  rw [fixsignsComp_flips]
  exact foldl_negCol_col K _ r (fun n hn => negModes_lt K r n (List.mem_of_mem_take hn))
    ((negModes_nodup K r).sublist (List.take_sublist _ _)) m r' hr'

theorem fixsignsComp_neg_pred (K : Ktensor α) (r n : Nat) (hr : r < K.ncomp) :
    decide (maxAbsEntry (((fixsignsComp K r).factors.getD n []).col r) < 0)
      = (!((negModes K r).take (2 * ((negModes K r).length / 2))).contains n
          && decide (maxAbsEntry ((K.factors.getD n []).col r) < 0)) := by
  rw [fixsignsComp_col K r n r hr]
  by_cases hmem : n ∈ (negModes K r).take (2 * ((negModes K r).length / 2))
  · have hneg : maxAbsEntry ((K.factors.getD n []).col r) < 0 := by
      have := List.mem_of_mem_take hmem
      simp only [negModes, List.mem_filter, decide_eq_true_eq] at this
      exact this.2
    have hc : ((negModes K r).take (2 * ((negModes K r).length / 2))).contains n = true := by
      simpa using hmem
    rw [if_pos ⟨hmem, rfl⟩, maxAbsEntry_neg, hc]
    simp only [Bool.not_true, Bool.false_and, decide_eq_false_iff_not, not_lt]
    linarith
  · have hc : ((negModes K r).take (2 * ((negModes K r).length / 2))).contains n = false := by
      simpa using hmem
    rw [if_neg (fun h => hmem h.1), hc]
    simp

/-- after the pass for component `r`, the modes still negative in `r` are the ones that were not
paired: none or one -/
theorem negModes_fixsignsComp_self (K : Ktensor α) (r : Nat) (hr : r < K.ncomp) :
    negModes (fixsignsComp K r) r = (negModes K r).drop (2 * ((negModes K r).length / 2)) := by
  rw [← filter_not_take_eq_drop _ _ (negModes_nodup K r)]
  generalize hT : (negModes K r).take (2 * ((negModes K r).length / 2)) = T
  unfold negModes
  rw [ndims_eq, (fixsignsComp_reparam K r).ndims, ← ndims_eq, List.filter_filter]
  apply List.filter_congr
  intro n _
  rw [← hT]
  exact fixsignsComp_neg_pred K r n hr

theorem negModes_fixsignsComp_other (K : Ktensor α) (r r' : Nat) (hne : r' ≠ r) (hr' : r' < K.ncomp) :
    negModes (fixsignsComp K r) r' = negModes K r' := by
  unfold negModes
  rw [ndims_eq, (fixsignsComp_reparam K r).ndims, ← ndims_eq]
  apply List.filter_congr
  intro n _
  rw [fixsignsComp_col K r n r' hr']
  simp [hne]

theorem foldl_fixsignsComp_other (K : Ktensor α) (rs : List Nat) (r : Nat) (hr : r < K.ncomp) (hnot : r ∉ rs) :
    negModes (rs.foldl fixsignsComp K) r = negModes K r := by
  induction rs generalizing K with
  | nil => rfl
  | cons r0 rs ih =>
    simp only [List.foldl_cons]
    rw [List.mem_cons, not_or] at hnot
    rw [ih (fixsignsComp K r0) (by rw [(fixsignsComp_reparam K r0).ncomp]; exact hr) hnot.2]
    exact negModes_fixsignsComp_other K r0 r hnot.1 hr

theorem foldl_fixsignsComp_form (K : Ktensor α) (rs : List Nat) (hnd : rs.Nodup) (hrs : ∀ r ∈ rs, r < K.ncomp) :
    ∀ r ∈ rs, negModes (rs.foldl fixsignsComp K) r
      = (negModes K r).drop (2 * ((negModes K r).length / 2)) := by
  induction rs generalizing K with
  | nil => intro r hr; cases hr
  | cons r0 rs ih =>
    rw [List.nodup_cons] at hnd
    intro r hr
    simp only [List.foldl_cons]
    have hnc := (fixsignsComp_reparam K r0).ncomp
    rcases List.mem_cons.1 hr with rfl | hr'
    · rw [foldl_fixsignsComp_other _ rs r (by rw [hnc]; exact hrs r (List.mem_cons_self ..)) hnd.1]
      exact negModes_fixsignsComp_self K r (hrs r (List.mem_cons_self ..))
    · have hne : r ≠ r0 := fun e => hnd.1 (e ▸ hr')
      rw [ih (fixsignsComp K r0) hnd.2 (fun x hx => by rw [hnc]; exact hrs x (List.mem_cons_of_mem _ hx)) r hr',
        negModes_fixsignsComp_other K r0 r hne (hrs r (List.mem_cons_of_mem _ hr'))]

/-- Normal form of `fixsigns()`: in component `r` the modes that still have a negative entry of
largest magnitude are what is left of the original ones after pairing — at most one, and none
when their number was even. -/
theorem fixsigns_form (K : Ktensor α) (r : Nat) (hr : r < K.ncomp) :
    (negModes (fixsigns K) r).length = (negModes K r).length % 2 := by
  unfold fixsigns
  rw [foldl_fixsignsComp_form K _ List.nodup_range (fun x hx => List.mem_range.1 hx) r (List.mem_range.2 hr),
    List.length_drop]
  omega

end field
end Ktensor
end Pyttb
