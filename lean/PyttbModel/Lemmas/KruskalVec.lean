/-
C08 lemmas: `tovec` / `from_vector` round trip (blocks of a flattened list, F-order reshape).
-/
import PyttbModel.Lemmas.KruskalNormalize
namespace Pyttb

variable {α : Type}

/-! ### blocks of a flattened list -/

theorem flatten_getD_block {β : Type} (bs : List (List β)) (n : Nat) (hb : ∀ b ∈ bs, b.length = n)
    (i r : Nat) (d : β) (hi : i < n) (hr : r < bs.length) :
    bs.flatten.getD (i + n * r) d = (bs.getD r []).getD i d := by
  induction bs generalizing r with
  | nil => simp at hr
  | cons b bs ih =>
    have hbl : b.length = n := hb b (List.mem_cons_self ..)
    rw [List.flatten_cons]
    cases r with
    | zero =>
      simp only [Nat.mul_zero, Nat.add_zero, List.getD_cons_zero]
      rw [List.getD_eq_getElem?_getD, List.getD_eq_getElem?_getD,
        List.getElem?_append_left (by omega)]
    | succ r =>
      simp only [List.getD_cons_succ]
      rw [← ih (fun b' h => hb b' (List.mem_cons_of_mem _ h)) r (by simpa using hr)]
      rw [List.getD_eq_getElem?_getD, List.getD_eq_getElem?_getD,
        List.getElem?_append_right (by rw [hbl, Nat.mul_succ]; omega)]
      congr 2
      rw [hbl, Nat.mul_succ]
      omega

theorem flatten_drop_take_block {β : Type} (bs : List (List β)) (n : Nat) (hn : n < bs.length) :
    (bs.flatten.drop ((bs.take n).map List.length).sum).take (bs.getD n []).length = bs.getD n [] := by
  induction bs generalizing n with
  | nil => simp at hn
  | cons b bs ih =>
    rw [List.flatten_cons]
    cases n with
    | zero =>
      simp only [List.take_zero, List.map_nil, List.sum_nil, List.drop_zero, List.getD_cons_zero]
      exact List.take_left' rfl
    | succ n =>
      simp only [List.take_succ_cons, List.map_cons, List.sum_cons, List.getD_cons_succ]
      rw [List.drop_append, List.drop_eq_nil_of_le (by omega), List.nil_append]
      have : b.length + ((bs.take n).map List.length).sum - b.length = ((bs.take n).map List.length).sum := by
        omega
      rw [this]
      exact ih n (by simpa using hn)

/-! ### the block of one factor matrix and its reshape -/

/-- `A` column by column, as `tovec` writes it. -/
def colBlock [Zero α] (A : Mat α) (R : Nat) : List α := (List.range R).flatMap fun r => A.col r

theorem length_colBlock [Zero α] (A : Mat α) (R : Nat) : (colBlock A R).length = R * A.length := by
  unfold colBlock
  rw [List.length_flatMap]
  simp [Mat.col]

theorem reshapeCols_colBlock [Zero α] (A : Mat α) (R : Nat) (hA : ∀ row ∈ A, row.length = R) :
    reshapeCols (colBlock A R) A.length R = A := by
  unfold reshapeCols
  apply List.ext_getElem
  · simp
  · intro i h1 h2
    simp only [List.length_map, List.length_range] at h1
    simp only [List.getElem_map, List.getElem_range]
    apply List.ext_getElem
    · simp [hA _ (List.getElem_mem h2)]
    · intro r h3 h4
      simp only [List.length_map, List.length_range] at h3
      simp only [List.getElem_map, List.getElem_range]
      unfold colBlock
      rw [List.flatMap_def, flatten_getD_block _ A.length (by
          intro b hb
          obtain ⟨k, _, rfl⟩ := List.mem_map.1 hb
          simp [Mat.col]) i r 0 h1 (by simpa using h3)]
      rw [getD_map_range _ _ _ _ h3]
      unfold Mat.col
      rw [getD_map_of_lt _ _ _ [] _ h1]
      simp [List.getD_eq_getElem?_getD, h1, h4]

namespace Ktensor

theorem tovec_eq [Zero α] (K : Ktensor α) (w : Bool) :
    K.tovec w = (if w then K.weights else []) ++ (K.factors.map fun A => colBlock A K.ncomp).flatten := by
  unfold tovec colBlock
  rw [List.flatMap_def]

theorem sum_take_blocks [Zero α] (fs : List (Mat α)) (R n : Nat) :
    (((fs.map fun A => colBlock A R).take n).map List.length).sum = R * ((fs.map List.length).take n).sum := by
  induction fs generalizing n with
  | nil => simp
  | cons A fs ih =>
    cases n with
    | zero => simp
    | succ n =>
      simp only [List.map_cons, List.take_succ_cons, List.sum_cons, length_colBlock, ih n]
      ring

theorem length_tovec [Zero α] (K : Ktensor α) (w : Bool) :
    (K.tovec w).length = K.ncomp * (K.shape.sum + if w then 1 else 0) := by
  rw [tovec_eq, List.length_append, List.length_flatten]
  have := sum_take_blocks K.factors K.ncomp K.factors.length
  rw [List.take_of_length_le (by simp), List.take_of_length_le (by simp)] at this
  rw [this]
  unfold Ktensor.shape
  cases w <;> simp [ncomp, Nat.mul_add, Nat.add_comm]

theorem tovec_segment [Zero α] (K : Ktensor α) (w : Bool) (n : Nat) (h1 : n < K.factors.length) :
    ((K.tovec w).drop (K.ncomp * (K.shape.take n).sum + if w = true then K.ncomp else 0)).take
        (K.ncomp * (K.factors[n]).length) = colBlock K.factors[n] K.ncomp := by
  rw [tovec_eq]
  have hpre : (if w = true then K.weights else []).length = (if w = true then K.ncomp else 0) := by
    cases w <;> simp [ncomp]
  rw [List.drop_append, List.drop_eq_nil_of_le (by rw [hpre]; omega), List.nil_append, hpre]
  have e1 : K.ncomp * (K.shape.take n).sum + (if w = true then K.ncomp else 0)
      - (if w = true then K.ncomp else 0) = K.ncomp * (K.shape.take n).sum := by omega
  rw [e1]
  have hb := flatten_drop_take_block (K.factors.map fun A => colBlock A K.ncomp) n (by simpa using h1)
  rw [sum_take_blocks] at hb
  have e2 : (K.factors.map fun A => colBlock A K.ncomp).getD n [] = colBlock K.factors[n] K.ncomp := by
    simp [List.getD_eq_getElem?_getD, h1]
  rw [e2, length_colBlock] at hb
  exact hb

/-- `from_vector(tovec(K, w), K.shape, w)` gives back `K` (`w = true`) or `K` with unit weights
(`w = false`). -/
theorem fromVector_tovec [Zero α] [One α] (K : Ktensor α) (w : Bool) (hK : K.WF) (hN : K.factors ≠ [])
    (hpos : 0 < K.shape.sum + if w then 1 else 0) :
    fromVector (K.tovec w) K.shape w
      = .ok ⟨if w then K.weights else List.replicate K.ncomp 1, K.factors⟩ := by
  have hlen := length_tovec K w
  unfold fromVector
  simp only
  have htot : (K.shape.sum + if w = true then 1 else 0) ≠ 0 := by omega
  rw [if_neg (by simpa using htot)]
  rw [if_neg (by rw [hlen]; simp)]
  rw [if_neg (by simp [Ktensor.shape]; exact hN)]
  have hR : (K.tovec w).length / (K.shape.sum + if w = true then 1 else 0) = K.ncomp := by
    rw [hlen]; exact Nat.mul_div_cancel _ hpos
  rw [hR]
  congr 2
  · cases w
    · rfl
    · simp only [if_true]
      rw [tovec_eq]
      exact List.take_left' rfl
  · apply List.ext_getElem
    · simp [Ktensor.shape]
    · intro n h1 h2
      simp only [List.length_map, List.length_range, Ktensor.shape] at h1
      simp only [List.getElem_map, List.getElem_range]
      have hs : K.shape.getD n 0 = (K.factors[n]).length := by
        simp [Ktensor.shape, List.getD_eq_getElem?_getD, h1]
      rw [hs]
      have hseg := tovec_segment K w n h1
      rw [hseg]
      exact reshapeCols_colBlock _ _ (hK _ (List.getElem_mem h2))

/-! ### `update` -/

theorem updateStep_weights [Zero α] (data : List α) (loc : Nat) (Kc : Ktensor α)
    (h : loc + Kc.ncomp ≤ data.length) :
    updateStep data (loc, Kc) (-1) = .ok (loc + Kc.ncomp, ⟨(data.drop loc).take Kc.ncomp, Kc.factors⟩) := by
  unfold updateStep
  simp only [BEq.rfl, if_true]
  rw [if_neg (by simp; omega)]

theorem updateStep_mode [Zero α] (data : List α) (loc : Nat) (Kc : Ktensor α) (n : Nat)
    (hn : n < Kc.factors.length)
    (h : loc + (Kc.factors.getD n []).length * Kc.ncomp ≤ data.length) :
    updateStep data (loc, Kc) (Int.ofNat n)
      = .ok (loc + (Kc.factors.getD n []).length * Kc.ncomp,
          ⟨Kc.weights, Kc.factors.set n (reshapeCols ((data.drop loc).take ((Kc.factors.getD n []).length * Kc.ncomp))
            (Kc.factors.getD n []).length Kc.ncomp)⟩) := by
  unfold updateStep
  have a : (Int.ofNat n == -1) = false := by
    rw [beq_eq_false_iff_ne]
    intro e
    have : (0 : Int) ≤ Int.ofNat n := Int.natCast_nonneg n
    omega
  simp only [a, Bool.false_eq_true, if_false]
  rw [if_pos (by simp [ndims]; exact hn)]
  rw [ndims_eq, wrapIdx_ofNat hn]
  simp only
  rw [if_neg (by intro hc; have := of_decide_eq_true hc; omega)]

theorem update_modes_sorted (N : Nat) :
    ((((-1 : Int) :: (List.range N).map Int.ofNat).zip
      (((-1 : Int) :: (List.range N).map Int.ofNat).tail)).all fun p => decide (p.1 ≤ p.2)) = true := by
  rw [List.all_eq_true]
  intro p hp
  simp only [decide_eq_true_eq]
  obtain ⟨k, hk1, hk2⟩ := List.getElem_of_mem hp
  simp only [List.length_zip, List.length_cons, List.length_map, List.length_range] at hk1
  rw [List.getElem_zip] at hk2
  rw [← hk2]
  simp only
  cases k with
  | zero => simp [List.getElem_cons_zero]
  | succ k =>
    simp only [List.getElem_cons_succ, List.getElem_map, List.getElem_range]
    simp

/-- state of the `update` loop after the weights and the first `k` modes -/
theorem update_invariant [Zero α] (K L : Ktensor α) (hL : L.WF) (hs : K.shape = L.shape)
    (k : Nat) (hk : k ≤ L.factors.length) :
    ((List.range k).map Int.ofNat).foldlM (updateStep (L.tovec true))
        (L.ncomp, (⟨L.weights, K.factors⟩ : Ktensor α))
      = .ok (L.ncomp * (L.shape.take k).sum + L.ncomp,
          ⟨L.weights, L.factors.take k ++ K.factors.drop k⟩) := by
  have hlenF : K.factors.length = L.factors.length := by
    have := congrArg List.length hs
    simpa [Ktensor.shape] using this
  induction k with
  | zero => simp [List.foldlM_nil]; rfl
  | succ k ih =>
    rw [List.range_succ, List.map_append, List.foldlM_append, ih (by omega)]
    simp only [List.map_cons, List.map_nil, List.foldlM_cons, List.foldlM_nil, except_ok_bind, bind_pure]
    have hkL : k < L.factors.length := by omega
    have hkK : k < K.factors.length := by omega
    -- the current factor at position k is still K's, of the same height as L's
    have hcur : ((L.factors.take k ++ K.factors.drop k).getD k []) = K.factors[k] := by
      rw [List.getD_eq_getElem?_getD, List.getElem?_append_right (by simp)]
      simp [List.length_take, Nat.min_eq_left (Nat.le_of_lt hkL), hkK]
    have hheight : (K.factors[k]).length = (L.factors[k]).length := by
      have := congrArg (fun l => l.getD k 0) hs
      simpa [Ktensor.shape, List.getD_eq_getElem?_getD, hkK, hkL] using this
    have hlenK : k < (L.factors.take k ++ K.factors.drop k).length := by
      simp [List.length_take, Nat.min_eq_left (Nat.le_of_lt hkL)]; omega
    have hdata := length_tovec L true
    have hseg := tovec_segment L true k hkL
    simp only [if_true] at hseg hdata
    -- enough data
    have hsum : (L.shape.take (k + 1)).sum = (L.shape.take k).sum + (L.factors[k]).length := by
      have : L.shape.take (k + 1) = L.shape.take k ++ [(L.factors[k]).length] := by
        rw [List.take_add_one]
        simp [Ktensor.shape, hkL]
      rw [this, List.sum_append]
      simp
    have hle : (L.shape.take (k + 1)).sum ≤ L.shape.sum := by
      have := List.sum_take_add_sum_drop L.shape (k + 1)
      omega
    rw [updateStep_mode _ _ _ k hlenK (by
      rw [hcur, hheight, hdata]
      simp only [ncomp_mk]
      have : L.ncomp * (L.shape.take k).sum + L.ncomp + (L.factors[k]).length * L.weights.length
          = L.ncomp * (L.shape.take (k + 1)).sum + L.ncomp := by
        rw [hsum, Nat.mul_add, ← ncomp_eq, Nat.mul_comm (L.factors[k]).length]; omega
      rw [this, Nat.mul_add, Nat.mul_one]
      exact Nat.add_le_add_right (Nat.mul_le_mul_left _ hle) _)]
    rw [hcur, hheight]
    simp only [ncomp_mk]
    congr 2
    · rw [hsum, Nat.mul_add, ← ncomp_eq, Nat.mul_comm (L.factors[k]).length]; omega
    · congr 1
      have hA : ∀ row ∈ L.factors[k], row.length = L.ncomp := hL _ (List.getElem_mem hkL)
      rw [← ncomp_eq, Nat.mul_comm (L.factors[k]).length, hseg, reshapeCols_colBlock _ _ hA]
      -- replacing position k of (L.take k ++ K.drop k) by L[k] gives L.take (k+1) ++ K.drop (k+1)
      apply List.ext_getElem
      · simp [List.length_take]; omega
      · intro j h1 h2
        rw [List.getElem_set]
        by_cases hj : j < k
        · rw [if_neg (by omega), List.getElem_append_left (by simp [List.length_take]; omega),
            List.getElem_append_left (by simp [List.length_take]; omega)]
          simp
        · by_cases hjk : j = k
          · subst hjk
            rw [if_pos rfl, List.getElem_append_left (by simp [List.length_take]; omega)]
            simp
          · rw [if_neg (by omega), List.getElem_append_right (by simp [List.length_take]; omega),
              List.getElem_append_right (by simp [List.length_take]; omega)]
            simp [List.length_take, Nat.min_eq_left (Nat.le_of_lt hkL), Nat.min_eq_left hk]
            congr 1
            omega

theorem update_tovec [Zero α] (K L : Ktensor α) (hL : L.WF) (hs : K.shape = L.shape)
    (hR : K.ncomp = L.ncomp) :
    K.update ((-1 : Int) :: (List.range K.factors.length).map Int.ofNat) (L.tovec true) = .ok L := by
  have hlenF : K.factors.length = L.factors.length := by
    have := congrArg List.length hs
    simpa [Ktensor.shape] using this
  unfold update
  rw [update_modes_sorted]
  simp only [Bool.not_true, Bool.false_eq_true, if_false, List.foldlM_cons]
  have hdata := length_tovec L true
  simp only [if_true] at hdata
  rw [updateStep_weights _ _ _ (by rw [hdata, hR, Nat.mul_add]; omega)]
  simp only [except_ok_bind, Nat.zero_add, List.drop_zero]
  have hw : (L.tovec true).take K.ncomp = L.weights := by
    rw [tovec_eq, hR]
    exact List.take_left' rfl
  rw [hw, hR, hlenF, update_invariant K L hL hs L.factors.length (le_refl _)]
  simp only [Except.map]
  rw [List.take_of_length_le (le_refl _), List.drop_eq_nil_of_le (by omega), List.append_nil]

end Ktensor
end Pyttb
