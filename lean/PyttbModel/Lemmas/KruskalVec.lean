/-
C08 lemmas: `tovec` / `from_vector` round trip (blocks of a flattened list, F-order reshape).
-/
import PyttbModel.Lemmas.KruskalAlgebra
namespace Pyttb

variable {α : Type}

/-! ### blocks of a flattened list -/

theorem flatten_getD_block {β : Type} (bs : List (List β)) (n : Nat) (hb : ∀ b ∈ bs, b.length = n)
    (i r : Nat) (d : β) (hi : i < n) (hr : r < bs.length) :
    bs.flatten.getD (i + n * r) d = (bs.getD r []).getD i d := by
  induction bs generalizing r with
  | nil => simp at hr
  | cons b bs ih =>
    have hbl : b.length = n := hb b (List.mem_cons_self ..)
    rw [List.flatten_cons]
    cases r with
    | zero =>
      simp only [Nat.mul_zero, Nat.add_zero, List.getD_cons_zero]
      rw [List.getD_eq_getElem?_getD, List.getD_eq_getElem?_getD,
        List.getElem?_append_left (by omega)]
    | succ r =>
      simp only [List.getD_cons_succ]
      rw [← ih (fun b' h => hb b' (List.mem_cons_of_mem _ h)) r (by simpa using hr)]
      rw [List.getD_eq_getElem?_getD, List.getD_eq_getElem?_getD,
        List.getElem?_append_right (by rw [hbl, Nat.mul_succ]; omega)]
      congr 2
      rw [hbl, Nat.mul_succ]
      omega

theorem flatten_drop_take_block {β : Type} (bs : List (List β)) (n : Nat) (hn : n < bs.length) :
    (bs.flatten.drop ((bs.take n).map List.length).sum).take (bs.getD n []).length = bs.getD n [] := by
  induction bs generalizing n with
  | nil => simp at hn
  | cons b bs ih =>
    rw [List.flatten_cons]
    cases n with
    | zero =>
      simp only [List.take_zero, List.map_nil, List.sum_nil, List.drop_zero, List.getD_cons_zero]
      exact List.take_left' rfl
    | succ n =>
      simp only [List.take_succ_cons, List.map_cons, List.sum_cons, List.getD_cons_succ]
      rw [List.drop_append, List.drop_eq_nil_of_le (by omega), List.nil_append]
      have : b.length + ((bs.take n).map List.length).sum - b.length = ((bs.take n).map List.length).sum := by
        omega
      rw [this]
      exact ih n (by simpa using hn)

/-! ### the block of one factor matrix and its reshape -/

/-- `A` column by column, as `tovec` writes it. -/
def colBlock [Zero α] (A : Mat α) (R : Nat) : List α := (List.range R).flatMap fun r => A.col r

theorem length_colBlock [Zero α] (A : Mat α) (R : Nat) : (colBlock A R).length = R * A.length := by
  unfold colBlock
  rw [List.length_flatMap]
  simp [Mat.col]

theorem reshapeCols_colBlock [Zero α] (A : Mat α) (R : Nat) (hA : ∀ row ∈ A, row.length = R) :
    reshapeCols (colBlock A R) A.length R = A := by
  unfold reshapeCols
  apply List.ext_getElem
  · simp
  · intro i h1 h2
    simp only [List.length_map, List.length_range] at h1
    simp only [List.getElem_map, List.getElem_range]
    apply List.ext_getElem
    · simp [hA _ (List.getElem_mem h2)]
    · intro r h3 h4
      simp only [List.length_map, List.length_range] at h3
      simp only [List.getElem_map, List.getElem_range]
      unfold colBlock
      rw [List.flatMap_def, flatten_getD_block _ A.length (by
          intro b hb
          obtain ⟨k, _, rfl⟩ := List.mem_map.1 hb
          simp [Mat.col]) i r 0 h1 (by simpa using h3)]
      rw [getD_map_range _ _ _ _ h3]
      unfold Mat.col
      rw [getD_map_of_lt _ _ _ [] _ h1]
      simp [List.getD_eq_getElem?_getD, h1, h4]

namespace Ktensor

theorem tovec_eq [Zero α] (K : Ktensor α) (w : Bool) :
    K.tovec w = (if w then K.weights else []) ++ (K.factors.map fun A => colBlock A K.ncomp).flatten := by
  unfold tovec colBlock
  rw [List.flatMap_def]

theorem sum_take_blocks [Zero α] (fs : List (Mat α)) (R n : Nat) :
    (((fs.map fun A => colBlock A R).take n).map List.length).sum = R * ((fs.map List.length).take n).sum := by
  induction fs generalizing n with
  | nil => simp
  | cons A fs ih =>
    cases n with
    | zero => simp
    | succ n =>
      simp only [List.map_cons, List.take_succ_cons, List.sum_cons, length_colBlock, ih n]
      ring

theorem length_tovec [Zero α] (K : Ktensor α) (w : Bool) :
    (K.tovec w).length = K.ncomp * (K.shape.sum + if w then 1 else 0) := by
  rw [tovec_eq, List.length_append, List.length_flatten]
  have := sum_take_blocks K.factors K.ncomp K.factors.length
  rw [List.take_of_length_le (by simp), List.take_of_length_le (by simp)] at this
  rw [this]
  unfold Ktensor.shape
  cases w <;> simp [ncomp, Nat.mul_add, Nat.add_comm]

/-- `from_vector(tovec(K, w), K.shape, w)` gives back `K` (`w = true`) or `K` with unit weights
(`w = false`). -/
theorem fromVector_tovec [Zero α] [One α] (K : Ktensor α) (w : Bool) (hK : K.WF) (hN : K.factors ≠ [])
    (hpos : 0 < K.shape.sum + if w then 1 else 0) :
    fromVector (K.tovec w) K.shape w
      = .ok ⟨if w then K.weights else List.replicate K.ncomp 1, K.factors⟩ := by
  have hlen := length_tovec K w
  unfold fromVector
  simp only
  have htot : (K.shape.sum + if w = true then 1 else 0) ≠ 0 := by omega
  rw [if_neg (by simpa using htot)]
  rw [if_neg (by rw [hlen]; simp)]
  rw [if_neg (by simp [Ktensor.shape]; exact hN)]
  have hR : (K.tovec w).length / (K.shape.sum + if w = true then 1 else 0) = K.ncomp := by
    rw [hlen]; exact Nat.mul_div_cancel _ hpos
  rw [hR]
  congr 2
  · cases w
    · rfl
    · simp only [if_true]
      rw [tovec_eq]
      exact List.take_left' rfl
  · apply List.ext_getElem
    · simp [Ktensor.shape]
    · intro n h1 h2
      simp only [List.length_map, List.length_range, Ktensor.shape] at h1
      simp only [List.getElem_map, List.getElem_range]
      have hs : K.shape.getD n 0 = (K.factors[n]).length := by
        simp [Ktensor.shape, List.getD_eq_getElem?_getD, h1]
      rw [hs]
      have hseg : ((K.tovec w).drop (K.ncomp * (K.shape.take n).sum + if w = true then K.ncomp else 0)).take
          (K.ncomp * (K.factors[n]).length) = colBlock K.factors[n] K.ncomp := by
        rw [tovec_eq]
        have hpre : (if w = true then K.weights else []).length = (if w = true then K.ncomp else 0) := by
          cases w <;> simp [ncomp]
        rw [List.drop_append, List.drop_eq_nil_of_le (by rw [hpre]; omega), List.nil_append, hpre]
        have e1 : K.ncomp * (K.shape.take n).sum + (if w = true then K.ncomp else 0)
            - (if w = true then K.ncomp else 0) = K.ncomp * (K.shape.take n).sum := by omega
        rw [e1]
        have hb := flatten_drop_take_block (K.factors.map fun A => colBlock A K.ncomp) n (by simpa using h1)
        rw [sum_take_blocks] at hb
        have e2 : (K.factors.map fun A => colBlock A K.ncomp).getD n [] = colBlock K.factors[n] K.ncomp := by
          simp [List.getD_eq_getElem?_getD, h1]
        rw [e2, length_colBlock] at hb
        exact hb
      rw [hseg]
      exact reshapeCols_colBlock _ _ (hK _ (List.getElem_mem h2))

end Ktensor
end Pyttb
