/-
Monotonicity of CP-ALS in the list model (`Alg/CpAls.lean`): a mode update does not increase
`‖X − [[weights; U]]‖²`, hence neither does a sweep.

The bridge from the list kernels to the least-squares argument is made at the level of finite
sums (no `Matrix`): with `Â = U_n · diag(weights)`, `Y = ∗_{m≠n} U_mᵀU_m` (the coefficient matrix
the code forms) and `B = mttkrp(X, U, n)`,

  `‖X − [[w; U]]‖² = ‖X‖² + Σ_i ( Â_i Y Â_iᵀ − 2 B_i · Â_i )`,

from the Kruskal norm identity (`knormLaw`) and the MTTKRP law of the data (`DataLaws`).  `Y` and
`B` do not depend on mode `n`; `Y` is symmetric and positive semi-definite (a Hadamard product of
Gram matrices); the answer `A0` of the solver satisfies `A0 · Y = B`; so `Â := A0` minimises the
right-hand side row by row.  Re-scaling the columns and moving the scale into the weights does
not change `Â`.
-/
import PyttbModel.Lemmas.CpAlsKnorm
import Mathlib.Algebra.BigOperators.Group.Finset.Sigma
import Mathlib.Algebra.Order.BigOperators.Group.Finset

set_option linter.unusedSectionVars false
set_option linter.unusedSimpArgs false
namespace Pyttb.CpAls
open Pyttb Finset

/-! ### the quadratic form of one row -/

section quad
variable {α : Type} [Field α] [LinearOrder α] [IsStrictOrderedRing α]

/-- `x Y yᵀ` over the first `R` indices. -/
def bform (R : Nat) (Y : Nat → Nat → α) (x y : Nat → α) : α :=
  ∑ a ∈ range R, ∑ b ∈ range R, x a * y b * Y a b

/-- `x Y xᵀ − 2 c·x`: the part of the squared residual that depends on row `x` of the factor. -/
def qrow (R : Nat) (Y : Nat → Nat → α) (c x : Nat → α) : α :=
  bform R Y x x - 2 * ∑ r ∈ range R, c r * x r

theorem bform_congr {R : Nat} {Y Y' : Nat → Nat → α} {x x' y y' : Nat → α}
    (hY : ∀ a < R, ∀ b < R, Y a b = Y' a b) (hx : ∀ a < R, x a = x' a) (hy : ∀ a < R, y a = y' a) :
    bform R Y x y = bform R Y' x' y' := by
  unfold bform
  refine sum_congr rfl fun a ha => sum_congr rfl fun b hb => ?_
  rw [hY a (mem_range.1 ha) b (mem_range.1 hb), hx a (mem_range.1 ha), hy b (mem_range.1 hb)]

theorem qrow_congr {R : Nat} {Y Y' : Nat → Nat → α} {c c' x x' : Nat → α}
    (hY : ∀ a < R, ∀ b < R, Y a b = Y' a b) (hc : ∀ a < R, c a = c' a) (hx : ∀ a < R, x a = x' a) :
    qrow R Y c x = qrow R Y' c' x' := by
  unfold qrow
  rw [bform_congr hY hx hx]
  congr 2
  refine sum_congr rfl fun r hr => ?_
  rw [hc r (mem_range.1 hr), hx r (mem_range.1 hr)]

theorem bform_sub_sub (R : Nat) (Y : Nat → Nat → α) (x y : Nat → α) :
    bform R Y (fun a => x a - y a) (fun a => x a - y a) =
      bform R Y x x - bform R Y x y - bform R Y y x + bform R Y y y := by
  unfold bform
  simp only [← sum_sub_distrib, ← sum_add_distrib]
  refine sum_congr rfl fun a _ => sum_congr rfl fun b _ => ?_
  ring

theorem bform_symm {R : Nat} {Y : Nat → Nat → α} (hsym : ∀ a < R, ∀ b < R, Y a b = Y b a) (x y : Nat → α) :
    bform R Y x y = bform R Y y x := by
  unfold bform
  rw [sum_comm]
  refine sum_congr rfl fun a ha => sum_congr rfl fun b hb => ?_
  rw [hsym b (mem_range.1 hb) a (mem_range.1 ha)]
  ring

/-- Row-wise least squares: if `y Y = c` (normal equations), `Y` symmetric and positive
semi-definite, then `y` minimises `x ↦ x Y xᵀ − 2 c·x`. -/
theorem qrow_min {R : Nat} {Y : Nat → Nat → α} (hsym : ∀ a < R, ∀ b < R, Y a b = Y b a)
    (hpsd : ∀ d : Nat → α, 0 ≤ bform R Y d d) {c y : Nat → α}
    (hne : ∀ r < R, ∑ a ∈ range R, y a * Y a r = c r) (x : Nat → α) :
    qrow R Y c y ≤ qrow R Y c x := by
  have hlin : ∀ z : Nat → α, ∑ r ∈ range R, c r * z r = bform R Y y z := by
    intro z
    unfold bform
    rw [sum_comm]
    refine sum_congr rfl fun r hr => ?_
    rw [← hne r (mem_range.1 hr), sum_mul]
    refine sum_congr rfl fun a _ => ?_
    ring
  have h := hpsd (fun a => x a - y a)
  rw [bform_sub_sub, bform_symm hsym x y] at h
  unfold qrow
  rw [hlin, hlin]
  linarith

/-- A Hadamard product of Gram matrices is positive semi-definite (Schur product theorem for
Gram factors, by induction over the list of factors). -/
theorem bform_prod_gram_nonneg (R : Nat) (K : Nat → Nat) (F : Nat → Nat → Nat → α) (L : List Nat) :
    ∀ d : Nat → α, 0 ≤ bform R (fun a b => prodOver L fun m => ∑ k ∈ range (K m), F m k a * F m k b) d d := by
  induction L with
  | nil =>
    intro d
    have : bform R (fun _ _ => (1 : α)) d d = (∑ a ∈ range R, d a) * (∑ a ∈ range R, d a) := by
      unfold bform
      rw [sum_mul_sum]
      refine sum_congr rfl fun a _ => sum_congr rfl fun b _ => ?_
      ring
    simp only [prodOver, List.map_nil, List.foldr_nil]
    rw [this]
    exact mul_self_nonneg _
  | cons m L ih =>
    intro d
    have hsplit : bform R (fun a b => prodOver (m :: L) fun m => ∑ k ∈ range (K m), F m k a * F m k b) d d =
        ∑ k ∈ range (K m),
          bform R (fun a b => prodOver L fun m => ∑ k ∈ range (K m), F m k a * F m k b)
            (fun a => d a * F m k a) (fun a => d a * F m k a) := by
      unfold bform
      symm
      rw [sum_comm (s := range (K m)) (t := range R)]
      refine sum_congr rfl fun a _ => ?_
      rw [sum_comm (s := range (K m)) (t := range R)]
      refine sum_congr rfl fun b _ => ?_
      simp only [prodOver, List.map_cons, List.foldr_cons]
      rw [mul_comm (d a * d b), sum_mul, sum_mul]
      refine sum_congr rfl fun k _ => ?_
      ring
    rw [hsplit]
    exact sum_nonneg fun k _ => ih _

end quad

/-! ### the squared residual as a function of one factor -/

section expand
variable {α : Type} [Field α]

theorem prodOver_congr {l : List Nat} {f g : Nat → α} (h : ∀ m ∈ l, f m = g m) : prodOver l f = prodOver l g := by
  unfold prodOver
  rw [List.map_congr_left h]

/-- Split the factor of mode `n` off a product over all modes. -/
theorem prodOver_range_split (f : Nat → α) {N n : Nat} (hn : n < N) :
    prodOver (List.range N) f = f n * prodOver ((List.range N).filter (· != n)) f := by
  unfold prodOver
  simp only [← List.prod_eq_foldr]
  induction N with
  | zero => omega
  | succ N ih =>
    rw [List.range_succ, List.filter_append, List.map_append, List.map_append, List.prod_append, List.prod_append]
    by_cases h : n = N
    · subst h
      have h1 : (List.range n).filter (· != n) = List.range n := by
        rw [List.filter_eq_self]
        intro m hm
        have := List.mem_range.1 hm
        simp only [bne_iff_ne, ne_eq]
        omega
      have h2 : [n].filter (· != n) = [] := by simp
      rw [h1, h2]
      simp [mul_comm]
    · have hn' : n < N := by omega
      have h2 : [N].filter (· != n) = [N] := by
        rw [List.filter_eq_self]
        intro m hm
        simp only [List.mem_singleton] at hm
        subst hm
        simp only [bne_iff_ne, ne_eq]
        omega
      rw [ih hn', h2, mul_assoc]

theorem gram_get (A : Mat α) (R : Nat) {a b : Nat} (ha : a < R) (hb : b < R) :
    (gram A R).get a b = ∑ i ∈ range A.length, A.get i a * A.get i b := by
  rw [gram, get_tab _ _ _ ha hb, sumRange_eq]

/-- `(∗_{m≠n} U_mᵀU_m)[a, b]`: the coefficient matrix of the update of mode `n`. -/
def otherGram (U : List (Mat α)) (N R n a b : Nat) : α :=
  prodOver ((List.range N).filter (· != n)) fun m => (gram (U.getD m []) R).get a b

/-- `‖[[w; U]]‖² = Σ_i Â_i Y Â_iᵀ` with `Â = U_n diag(w)`, `Y = ∗_{m≠n} U_mᵀU_m`. -/
theorem ip_self_expand (s : List Nat) (w : List α) (U : List (Mat α)) (hU : ShapeOK s w.length U)
    {n : Nat} (hn : n < s.length) :
    ip s (Ktensor.get ⟨w, U⟩) (Ktensor.get ⟨w, U⟩) =
      ∑ i ∈ range (s.getD n 0), bform w.length (otherGram U s.length w.length n)
        (fun a => (U.getD n []).get i a * w.getD a 0) (fun a => (U.getD n []).get i a * w.getD a 0) := by
  rw [← knormLaw s w U hU]
  unfold knormSq bform
  simp only [sumRange_eq]
  rw [sum_comm (s := range (s.getD n 0)) (t := range w.length)]
  refine sum_congr rfl fun a ha => ?_
  rw [sum_comm (s := range (s.getD n 0)) (t := range w.length)]
  refine sum_congr rfl fun b hb => ?_
  rw [hU.1, prodOver_range_split _ hn, gram_get _ _ (mem_range.1 ha) (mem_range.1 hb), (hU.2 n hn).1]
  unfold otherGram
  rw [← sum_mul, ← mul_assoc, mul_sum]
  congr 1
  refine sum_congr rfl fun i _ => ?_
  ring

/-- `⟨X, [[w; U]]⟩ = Σ_i B_i · Â_i` with `B = mttkrp(X, U, n)`. -/
theorem ip_data_expand {D : Data α} {X : List Nat → α} (hD : DataLaws D X) (w : List α) (U : List (Mat α))
    (hU : ShapeOK D.shape w.length U) {n : Nat} (hn : n < D.shape.length) :
    ip D.shape X (Ktensor.get ⟨w, U⟩) =
      ∑ i ∈ range (D.shape.getD n 0), ∑ r ∈ range w.length,
        (D.mttkrp U n).get i r * ((U.getD n []).get i r * w.getD r 0) := by
  rw [hD.mttkrp_law w U n hn hU]
  simp only [sumRange_eq]
  rw [sum_comm]
  refine sum_congr rfl fun i _ => sum_congr rfl fun r _ => ?_
  ring

end expand

section expand_ord
variable {α : Type} [Field α] [LinearOrder α] [IsStrictOrderedRing α]

/-- `‖X − [[w; U]]‖² = ‖X‖² + Σ_i (Â_i Y Â_iᵀ − 2 B_i · Â_i)`. -/
theorem resid_expand {D : Data α} {X : List Nat → α} (hD : DataLaws D X) (w : List α) (U : List (Mat α))
    (hU : ShapeOK D.shape w.length U) {n : Nat} (hn : n < D.shape.length) :
    ip D.shape (fun i => X i - Ktensor.get ⟨w, U⟩ i) (fun i => X i - Ktensor.get ⟨w, U⟩ i) =
      ip D.shape X X + ∑ i ∈ range (D.shape.getD n 0),
        qrow w.length (otherGram U D.shape.length w.length n) (fun r => (D.mttkrp U n).get i r)
          (fun a => (U.getD n []).get i a * w.getD a 0) := by
  rw [ip_sub_sub, ip_self_expand D.shape w U hU hn, ip_data_expand hD w U hU hn]
  unfold qrow
  rw [sum_sub_distrib, ← mul_sum]
  ring

/-- An array of norm zero is orthogonal to everything. -/
theorem ip_eq_zero_of_self (s : List Nat) (X M : List Nat → α) (h : ip s M M = 0) : ip s X M = 0 := by
  unfold ip at h ⊢
  generalize allSubs s = l at h ⊢
  induction l with
  | nil => simp
  | cons i l ih =>
    simp only [List.map_cons, List.sum_cons] at h ⊢
    have h1 : 0 ≤ M i * M i := mul_self_nonneg _
    have h2 : 0 ≤ (l.map fun i => M i * M i).sum := by
      apply List.sum_nonneg
      intro x hx
      obtain ⟨j, _, rfl⟩ := List.mem_map.1 hx
      exact mul_self_nonneg _
    have h3 : M i * M i = 0 := by linarith
    have h4 : (l.map fun i => M i * M i).sum = 0 := by linarith
    rw [mul_self_eq_zero.1 h3, ih h4]
    simp

/-- If the coefficient matrix vanishes the model is the zero array: `‖X − [[w; U]]‖² = ‖X‖²`. -/
theorem resid_of_otherGram_zero {D : Data α} (X : List Nat → α) (w : List α) (U : List (Mat α))
    (hU : ShapeOK D.shape w.length U) {n : Nat} (hn : n < D.shape.length)
    (hY : ∀ a < w.length, ∀ b < w.length, otherGram U D.shape.length w.length n a b = 0) :
    ip D.shape (fun i => X i - Ktensor.get ⟨w, U⟩ i) (fun i => X i - Ktensor.get ⟨w, U⟩ i) = ip D.shape X X := by
  have h0 : ip D.shape (Ktensor.get ⟨w, U⟩) (Ktensor.get ⟨w, U⟩) = 0 := by
    rw [ip_self_expand D.shape w U hU hn]
    refine sum_eq_zero fun i _ => ?_
    rw [bform_congr (Y' := fun _ _ => 0) hY (fun _ _ => rfl) (fun _ _ => rfl)]
    simp [bform]
  rw [ip_sub_sub, h0, ip_eq_zero_of_self _ _ _ h0]
  ring

theorem otherGram_symm (U : List (Mat α)) (N R n : Nat) :
    ∀ a < R, ∀ b < R, otherGram U N R n a b = otherGram U N R n b a := by
  intro a ha b hb
  unfold otherGram
  refine prodOver_congr fun m _ => ?_
  rw [gram_get _ _ ha hb, gram_get _ _ hb ha]
  refine sum_congr rfl fun i _ => mul_comm _ _

theorem otherGram_psd (U : List (Mat α)) (N R n : Nat) (d : Nat → α) : 0 ≤ bform R (otherGram U N R n) d d := by
  have := bform_prod_gram_nonneg R (fun m => (U.getD m []).length) (fun m k a => (U.getD m []).get k a)
    ((List.range N).filter (· != n)) d
  rwa [bform_congr (Y' := otherGram U N R n) (x' := d) (y' := d) ?_ (fun _ _ => rfl) (fun _ _ => rfl)] at this
  intro a ha b hb
  unfold otherGram
  refine prodOver_congr fun m _ => ?_
  rw [gram_get _ _ ha hb]

theorem otherGram_set (U : List (Mat α)) (N R n : Nat) (A : Mat α) (a b : Nat) :
    otherGram (U.set n A) N R n a b = otherGram U N R n a b := by
  unfold otherGram
  refine prodOver_congr fun m hm => ?_
  simp only [List.mem_filter, List.mem_range, bne_iff_ne, ne_eq] at hm
  rw [getD_set_ne _ _ _ (Ne.symm hm.2)]

theorem coef_get_otherGram {rank : Nat} {st : State α} (hG : GramOK rank st) {N : Nat} (hN : st.U.length = N)
    (n : Nat) {a r : Nat} (ha : a < rank) (hr : r < rank) :
    (coef st.UtU N rank n).get a r = otherGram st.U N rank n a r := by
  unfold coef otherGram
  rw [get_tab _ _ _ ha hr]
  refine prodOver_congr fun m hm => ?_
  simp only [List.mem_filter, List.mem_range] at hm
  rw [hG.2 m (by rw [hN]; exact hm.1)]

/-! ### the column scale -/

theorem list_sum_sq_eq_zero (c : List α) (h : (c.map fun x => x * x).sum = 0) : ∀ x ∈ c, x = 0 := by
  induction c with
  | nil => simp
  | cons y c ih =>
    simp only [List.map_cons, List.sum_cons] at h
    have h1 : 0 ≤ y * y := mul_self_nonneg _
    have h2 : 0 ≤ (c.map fun x => x * x).sum := by
      apply List.sum_nonneg
      intro x hx
      obtain ⟨j, _, rfl⟩ := List.mem_map.1 hx
      exact mul_self_nonneg _
    intro x hx
    rcases List.mem_cons.1 hx with rfl | hx
    · exact mul_self_eq_zero.1 (by linarith)
    · exact ih (by linarith) x hx

theorem list_sum_sq_nonneg (c : List α) : 0 ≤ (c.map fun x => x * x).sum := by
  apply List.sum_nonneg
  intro x hx
  obtain ⟨j, _, rfl⟩ := List.mem_map.1 hx
  exact mul_self_nonneg _

/-- From the second pass on the column scale is at least one. -/
theorem colWeight_later_pos {o : NumOps α} (ho : o.Lawful) {it : Nat} (hit : 0 < it) (c : List α) :
    0 < Gen.colWeight o it c := by
  have h0 : Gen.firstIteration it = false := by simp [Gen.firstIteration]; omega
  simp only [Gen.colWeight, h0, Bool.false_eq_true, if_false, Gen.colWeightLater, NumOps.max, ho.ofNat_eq,
    Nat.cast_one]
  split
  · exact zero_lt_one
  · rename_i h
    rw [ho.lt_iff] at h
    exact lt_of_lt_of_le zero_lt_one (not_lt.1 h)

/-- A column scale of zero: the column is entirely zero. -/
theorem colWeight_eq_zero {o : NumOps α} (ho : o.Lawful) (it : Nat) (c : List α) (h : Gen.colWeight o it c = 0) :
    ∀ x ∈ c, x = 0 := by
  by_cases hit : 0 < it
  · exact absurd h (colWeight_later_pos ho hit c).ne'
  · have h0 : Gen.firstIteration it = true := by simp [Gen.firstIteration]; omega
    simp only [Gen.colWeight, h0, if_true, Gen.colWeightFirst, sumL] at h
    have := ho.sqrt_mul_self _ (list_sum_sq_nonneg c)
    rw [h, mul_zero] at this
    exact list_sum_sq_eq_zero c this.symm

theorem colWeights_getD (o : NumOps α) (it I rank : Nat) (A : Mat α) {r : Nat} (hr : r < rank) :
    (colWeights o it I rank A).getD r 0 = Gen.colWeight o it (col A I r) := by
  simp [colWeights, List.getD_eq_getElem?_getD, hr]

/-- The scaled factor times the column scale is the solver's answer, when no `0/0` occurs: the
scales are all non-zero, or all zero (then the answer is the zero matrix and is not divided). -/
theorem scaleCols_mul_reg {o : NumOps α} (ho : o.Lawful) (it I R : Nat) (A : Mat α)
    (hreg : (∀ r < R, (colWeights o it I R A).getD r 0 ≠ 0) ∨ (∀ r < R, (colWeights o it I R A).getD r 0 = 0))
    {i r : Nat} (hi : i < I) (hr : r < R) :
    (scaleCols o I R A (colWeights o it I R A)).get i r * (colWeights o it I R A).getD r 0 = A.get i r := by
  rcases hreg with hreg | hreg
  · exact scaleCols_mul ho I R A _ hreg hi hr
  · have hz := hreg r hr
    rw [hz, mul_zero]
    rw [colWeights_getD _ _ _ _ _ hr] at hz
    refine (colWeight_eq_zero ho it _ hz (A.get i r) ?_).symm
    unfold col
    exact List.mem_map.2 ⟨i, List.mem_range.2 hi, rfl⟩

theorem allZero_tab {o : NumOps α} (ho : o.Lawful) (I R : Nat) (f : Nat → Nat → α)
    (h : allZero o (tab I R f) = true) : ∀ i < I, ∀ r < R, f i r = 0 := by
  intro i hi r hr
  unfold allZero tab at h
  rw [List.all_eq_true] at h
  have h1 := h ((List.range R).map fun r => f i r) (List.mem_map.2 ⟨i, List.mem_range.2 hi, rfl⟩)
  rw [List.all_eq_true] at h1
  have h2 := h1 (f i r) (List.mem_map.2 ⟨r, List.mem_range.2 hr, rfl⟩)
  exact (ho.isZero_iff _).1 h2

/-! ### a mode update, a sweep -/

/-- `‖X − [[weights; U]]‖²` for the model held in a state. -/
def resid2 (D : Data α) (X : List Nat → α) (st : State α) : α :=
  ip D.shape (fun i => X i - Ktensor.get ⟨st.weights, st.U⟩ i) (fun i => X i - Ktensor.get ⟨st.weights, st.U⟩ i)

/-- The new column scales are all non-zero or all zero (no `0/0` in `Unew / weights`). -/
def ScaleRegular (rank : Nat) (st' : State α) : Prop :=
  (∀ r < rank, st'.weights.getD r 0 ≠ 0) ∨ (∀ r < rank, st'.weights.getD r 0 = 0)

/-- One mode update does not increase the squared residual. -/
theorem modeUpdate_resid_le {D : Data α} {S : Services α} {o : NumOps α} (ho : o.Lawful) (hS : SolveContract S)
    {X : List Nat → α} (hD : DataLaws D X) {rank it last n : Nat} {st st' : State α}
    (h : modeUpdate D S o rank it last n st = .ok st') (hI : PassInv D rank st)
    (hw : st.weights.length = rank) (hn : n < D.shape.length) (hreg : ScaleRegular rank st') :
    resid2 D X st' ≤ resid2 D X st := by
  have hU := hI.shape
  have hsh := modeUpdate_shape h hU
  have hnU : n < st.U.length := by rw [hU.1]; exact hn
  obtain ⟨A0, hsolve, rfl⟩ := modeUpdate_ok h
  unfold resid2
  unfold ScaleRegular at hreg
  rw [applyUpdate_weights] at hreg hsh ⊢
  rw [applyUpdate_U] at hsh ⊢
  have hwl := length_colWeights o it (D.shape.getD n 0) rank A0
  have hU0 : ShapeOK D.shape st.weights.length st.U := by rw [hw]; exact hU
  have hU1 : ShapeOK D.shape (colWeights o it (D.shape.getD n 0) rank A0).length
      (st.U.set n (scaleCols o (D.shape.getD n 0) rank A0 (colWeights o it (D.shape.getD n 0) rank A0))) := by
    rw [hwl]; exact hsh.1
  unfold solveStep at hsolve
  by_cases hz : allZero o (coef st.UtU D.shape.length rank n) = true
  · -- the guard branch: the coefficient matrix is zero, both models are the zero array
    have hY : ∀ a < rank, ∀ b < rank, otherGram st.U D.shape.length rank n a b = 0 := by
      intro a ha b hb
      rw [← coef_get_otherGram hI.gram hU.1 n ha hb]
      have := allZero_tab ho rank rank _ hz a ha b hb
      rw [coef, get_tab _ _ _ ha hb]
      exact this
    rw [resid_of_otherGram_zero X _ _ hU0 hn (by rw [hw]; exact hY),
      resid_of_otherGram_zero X _ _ hU1 hn (by
        rw [hwl]; intro a ha b hb; rw [otherGram_set]; exact hY a ha b hb)]
  · -- the solve branch
    rw [if_neg hz] at hsolve
    rw [resid_expand hD _ _ hU0 hn, resid_expand hD _ _ hU1 hn, hwl, hw, hD.mttkrp_indep,
      getD_set_eq _ _ _ _ hnU]
    refine add_le_add (le_refl _) (sum_le_sum fun i hi => ?_)
    rw [qrow_congr (Y' := otherGram st.U D.shape.length rank n) (c' := fun r => (D.mttkrp st.U n).get i r)
      (x' := fun a => A0.get i a) (fun a _ b _ => otherGram_set _ _ _ _ _ _ _) (fun _ _ => rfl)
      (fun a ha => scaleCols_mul_reg ho it _ rank A0 hreg (mem_range.1 hi) ha)]
    refine qrow_min (otherGram_symm _ _ _ _) (otherGram_psd _ _ _ _) (fun r hr => ?_) _
    have hc := hS n _ _ _ hsolve rank i r (length_coef _ _ _ _) hr
    rw [← hc, sumRange_eq]
    refine sum_congr rfl fun a ha => ?_
    rw [coef_get_otherGram hI.gram hU.1 n (mem_range.1 ha) hr]

/-- Every successful mode update of the sweep over `dims` started in `st` ends in a state with `P`. -/
def SweepAll (step : Nat → State α → Except Reject (State α)) (P : State α → Prop) :
    List Nat → State α → Prop
  | [], _ => True
  | n :: rest, st => ∀ st1, step n st = .ok st1 → P st1 ∧ SweepAll step P rest st1

/-- From the second pass on every update of a sweep has non-zero column scales. -/
theorem sweepAll_later {D : Data α} {S : Services α} {o : NumOps α} (ho : o.Lawful) {rank it last : Nat}
    (hit : 0 < it) (dims : List Nat) (st : State α) :
    SweepAll (fun n s => modeUpdate D S o rank it last n s) (ScaleRegular rank) dims st := by
  induction dims generalizing st with
  | nil => trivial
  | cons n rest ih =>
    intro st1 h1
    refine ⟨Or.inl fun r hr => ?_, ih st1⟩
    obtain ⟨A0, _, rfl⟩ := modeUpdate_ok h1
    rw [applyUpdate_weights, colWeights_getD _ _ _ _ _ hr]
    exact (colWeight_later_pos ho hit _).ne'

theorem passInv_modeUpdate {D : Data α} {S : Services α} {o : NumOps α} {rank it last n : Nat} {st st' : State α}
    (h : modeUpdate D S o rank it last n st = .ok st') (hI : PassInv D rank st) :
    PassInv D rank st' ∧ st'.weights.length = rank :=
  ⟨⟨(modeUpdate_shape h hI.shape).1, gramOK_modeUpdate h hI.gram⟩, (modeUpdate_shape h hI.shape).2⟩

/-- A sweep does not increase the squared residual. -/
theorem sweep_resid_le {D : Data α} {S : Services α} {o : NumOps α} (ho : o.Lawful) (hS : SolveContract S)
    {X : List Nat → α} (hD : DataLaws D X) {rank it last : Nat} (dims : List Nat) {st st1 : State α}
    (h : dims.foldlM (fun s n => modeUpdate D S o rank it last n s) st = .ok st1) (hI : PassInv D rank st)
    (hw : st.weights.length = rank) (hdims : ∀ n ∈ dims, n < D.shape.length)
    (hreg : SweepAll (fun n s => modeUpdate D S o rank it last n s) (ScaleRegular rank) dims st) :
    resid2 D X st1 ≤ resid2 D X st := by
  induction dims generalizing st with
  | nil => simp [List.foldlM] at h; cases h; exact le_refl _
  | cons n rest ih =>
    rw [List.foldlM_cons] at h
    cases hm : modeUpdate D S o rank it last n st with
    | error e => rw [hm] at h; cases h
    | ok s1 =>
      rw [hm] at h
      obtain ⟨hr1, hr2⟩ := hreg s1 hm
      have hI1 := passInv_modeUpdate hm hI
      have h1 := modeUpdate_resid_le ho hS hD hm hI hw (hdims n List.mem_cons_self) hr1
      have h2 := ih h hI1.1 hI1.2 (fun m hm' => hdims m (List.mem_cons_of_mem _ hm')) hr2
      exact le_trans h2 h1

/-- A pass does not increase the squared residual. -/
theorem iterStep_resid_le {D : Data α} {S : Services α} {o : NumOps α} (ho : o.Lawful) (hS : SolveContract S)
    {X : List Nat → α} (hD : DataLaws D X) {rank : Nat} {stoptol : α} {dims : List Nat} {it : Nat}
    {st st' : State α} (h : iterStep D S o rank stoptol dims it st = .ok st') (hI : PassInv D rank st)
    (hw : st.weights.length = rank) (hdims : ∀ n ∈ dims, n < D.shape.length)
    (hreg : SweepAll (fun n s => modeUpdate D S o rank it (dims.getLastD 0) n s) (ScaleRegular rank) dims st) :
    resid2 D X st' ≤ resid2 D X st := by
  obtain ⟨st1, hf, rfl⟩ := iterStep_ok h
  exact (sweep_resid_le ho hS hD dims hf hI hw hdims hreg : resid2 D X st1 ≤ resid2 D X st)

/-- Smaller residual, larger fit. -/
theorem fit_le_of_resid {nx nr nr' f f' : α} (hx : 0 < nx) (h0 : 0 ≤ nr) (h0' : 0 ≤ nr')
    (hsq : nr' * nr' ≤ nr * nr) (hf : f = 1 - nr / nx) (hf' : f' = 1 - nr' / nx) : nr' ≤ nr ∧ f ≤ f' := by
  have hle : nr' ≤ nr := by
    by_contra hc
    have := mul_self_lt_mul_self h0 (not_le.1 hc)
    linarith
  refine ⟨hle, ?_⟩
  rw [hf, hf']
  have := div_le_div_of_nonneg_right hle hx.le
  linarith

end expand_ord

/-! ### the loop -/

section trace
variable {α : Type}

/-- `tr` lists the states after the successive passes `k, k+1, …` of the loop started in `st`. -/
def IsTrace (step : Nat → State α → Except Reject (State α)) : Nat → State α → List (State α) → Prop
  | _, _, [] => True
  | k, st, s :: tr => step k st = .ok s ∧ IsTrace step (k + 1) s tr

/-- The loop returns the state after its last pass. -/
theorem loopFrom_trace (step : Nat → State α → Except Reject (State α)) :
    ∀ (fuel k : Nat) (st st' : State α), loopFrom step fuel k st = .ok st' →
      ∃ tr, IsTrace step k st tr ∧ tr.getLastD st = st' ∧ (0 < fuel → tr ≠ []) := by
  intro fuel
  induction fuel with
  | zero =>
    intro k st st' h
    simp only [loopFrom, Except.ok.injEq] at h
    exact ⟨[], trivial, by simpa using h, fun h => absurd h (lt_irrefl 0)⟩
  | succ fuel ih =>
    intro k st st' h
    unfold loopFrom at h
    cases hs : step k st with
    | error e => rw [hs] at h; cases h
    | ok s1 =>
      rw [hs] at h
      by_cases hstop : s1.stop = true
      · simp only [bind, Except.bind, hstop, if_true] at h
        cases h
        exact ⟨[st'], ⟨hs, trivial⟩, by simp, fun _ => by simp⟩
      · simp only [bind, Except.bind, hstop] at h
        obtain ⟨tr, h1, h2, _⟩ := ih (k + 1) s1 st' h
        exact ⟨s1 :: tr, ⟨hs, h1⟩, by rw [List.getLastD_cons]; exact h2, fun _ => by simp⟩

theorem isTrace_iteration {step : Nat → State α → Except Reject (State α)}
    (hit : ∀ k s s', step k s = .ok s' → s'.iteration = k) :
    ∀ (tr : List (State α)) (k : Nat) (st : State α), IsTrace step k st tr → tr ≠ [] →
      (tr.getLastD st).iteration + 1 = k + tr.length := by
  intro tr
  induction tr with
  | nil => intro k st _ h; exact absurd rfl h
  | cons s tr ih =>
    intro k st h _
    rw [List.getLastD_cons]
    by_cases htr : tr = []
    · subst htr
      simp [hit k st s h.1]
    · have := ih (k + 1) s h.2 htr
      simp only [List.length_cons]
      omega

end trace

section run
variable {α : Type} [Field α] [LinearOrder α] [IsStrictOrderedRing α]

/-- A state whose `normresidual` and `fit` are the residual and fit of the model it holds. -/
structure Reported (D : Data α) (X : List Nat → α) (rank : Nat) (s : State α) : Prop where
  inv : PassInv D rank s
  wlen : s.weights.length = rank
  nonneg : 0 ≤ s.normresidual
  sq : s.normresidual * s.normresidual = resid2 D X s
  fit : s.fit = 1 - s.normresidual / D.norm

theorem iterStep_reported {D : Data α} {S : Services α} {o : NumOps α} (ho : o.Lawful) {rank : Nat} {stoptol : α}
    {dims : List Nat} {it : Nat} {st st' : State α} {X : List Nat → α}
    (h : iterStep D S o rank stoptol dims it st = .ok st') (hI : PassInv D rank st)
    (hne : dims ≠ []) (hlast : dims.getLastD 0 < D.shape.length) (hD : DataLaws D X)
    (hnz : D.norm ≠ 0) (hnorm : D.norm * D.norm = ip D.shape X X) : Reported D X rank st' := by
  have h1 := iterStep_inv h hI
  have h2 := (iterStep_report ho h hI hne hlast hD (knormLaw _)).2.1 hnz hnorm
  exact ⟨h1.1, h1.2.2 hne, h2.1, h2.2.1, h2.2.2⟩

/-- Two consecutive passes: the second (any pass but the very first of the run) reports a residual
that is not larger and a fit that is not smaller. -/
theorem iterStep_fit_le {D : Data α} {S : Services α} {o : NumOps α} (ho : o.Lawful) (hS : SolveContract S)
    {X : List Nat → α} (hD : DataLaws D X) {rank : Nat} {stoptol : α} {dims : List Nat} {it : Nat}
    {st st' : State α} (h : iterStep D S o rank stoptol dims it st = .ok st') (hit : 0 < it)
    (hR : Reported D X rank st) (hne : dims ≠ []) (hdims : ∀ n ∈ dims, n < D.shape.length)
    (hpos : 0 < D.norm) (hnorm : D.norm * D.norm = ip D.shape X X) :
    Reported D X rank st' ∧ st'.normresidual ≤ st.normresidual ∧ st.fit ≤ st'.fit := by
  have hlast : dims.getLastD 0 < D.shape.length := by
    apply hdims
    rw [List.getLastD_eq_getLast?, List.getLast?_eq_some_getLast hne]
    exact List.getLast_mem hne
  have hR' := iterStep_reported ho h hR.inv hne hlast hD hpos.ne' hnorm
  have hle := iterStep_resid_le ho hS hD h hR.inv hR.wlen hdims (sweepAll_later ho hit _ _)
  rw [← hR.sq, ← hR'.sq] at hle
  exact ⟨hR', fit_le_of_resid hpos hR.nonneg hR'.nonneg hle hR.fit hR'.fit⟩

/-- Along the passes of the loop, from any pass but the very first, residuals do not increase
and fits do not decrease. -/
theorem trace_monotone {D : Data α} {S : Services α} {o : NumOps α} (ho : o.Lawful) (hS : SolveContract S)
    {X : List Nat → α} (hD : DataLaws D X) {rank : Nat} {stoptol : α} {dims : List Nat}
    (hne : dims ≠ []) (hdims : ∀ n ∈ dims, n < D.shape.length)
    (hpos : 0 < D.norm) (hnorm : D.norm * D.norm = ip D.shape X X) :
    ∀ (tr : List (State α)) (k : Nat) (st : State α), 0 < k → Reported D X rank st →
      IsTrace (iterStep D S o rank stoptol dims) k st tr →
      (st :: tr).Pairwise fun s s' => s'.normresidual ≤ s.normresidual ∧ s.fit ≤ s'.fit := by
  intro tr
  induction tr with
  | nil => intro k st _ _ _; simp
  | cons s tr ih =>
    intro k st hk hR h
    obtain ⟨hR', h1, h2⟩ := iterStep_fit_le ho hS hD h.1 hk hR hne hdims hpos hnorm
    have hp := ih (k + 1) s (Nat.succ_pos k) hR' h.2
    refine List.Pairwise.cons ?_ hp
    intro x hx
    rcases List.mem_cons.1 hx with rfl | hx
    · exact ⟨h1, h2⟩
    · have := (List.pairwise_cons.1 hp).1 x hx
      exact ⟨le_trans this.1 h1, le_trans h2 this.2⟩

end run

end Pyttb.CpAls
