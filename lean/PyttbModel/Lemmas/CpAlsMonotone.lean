/-
Monotonicity of CP-ALS in the list model (`Alg/CpAls.lean`): a mode update does not increase
`‖X − [[weights; U]]‖²`, hence neither does a sweep.

The bridge from the list kernels to the least-squares argument is made at the level of finite
sums (no `Matrix`): with `Â = U_n · diag(weights)`, `Y = ∗_{m≠n} U_mᵀU_m` (the coefficient matrix
the code forms) and `B = mttkrp(X, U, n)`,

  `‖X − [[w; U]]‖² = ‖X‖² + Σ_i ( Â_i Y Â_iᵀ − 2 B_i · Â_i )`,

from the Kruskal norm identity (`knormLaw`) and the MTTKRP law of the data (`DataLaws`).  `Y` and
`B` do not depend on mode `n`; `Y` is symmetric and positive semi-definite (a Hadamard product of
Gram matrices); the answer `A0` of the solver satisfies `A0 · Y = B`; so `Â := A0` minimises the
right-hand side row by row.  Re-scaling the columns and moving the scale into the weights does
not change `Â`.
-/
import PyttbModel.Lemmas.CpAlsKnorm

set_option linter.unusedSectionVars false
set_option linter.unusedSimpArgs false
namespace Pyttb.CpAls
open Pyttb Finset

/-! ### the quadratic form of one row -/

section quad
variable {α : Type} [Field α] [LinearOrder α] [IsStrictOrderedRing α]

/-- `x Y yᵀ` over the first `R` indices. -/
def bform (R : Nat) (Y : Nat → Nat → α) (x y : Nat → α) : α :=
  ∑ a ∈ range R, ∑ b ∈ range R, x a * y b * Y a b

/-- `x Y xᵀ − 2 c·x`: the part of the squared residual that depends on row `x` of the factor. -/
def qrow (R : Nat) (Y : Nat → Nat → α) (c x : Nat → α) : α :=
  bform R Y x x - 2 * ∑ r ∈ range R, c r * x r

theorem bform_congr {R : Nat} {Y Y' : Nat → Nat → α} {x x' y y' : Nat → α}
    (hY : ∀ a < R, ∀ b < R, Y a b = Y' a b) (hx : ∀ a < R, x a = x' a) (hy : ∀ a < R, y a = y' a) :
    bform R Y x y = bform R Y' x' y' := by
  unfold bform
  refine sum_congr rfl fun a ha => sum_congr rfl fun b hb => ?_
  rw [hY a (mem_range.1 ha) b (mem_range.1 hb), hx a (mem_range.1 ha), hy b (mem_range.1 hb)]

theorem qrow_congr {R : Nat} {Y Y' : Nat → Nat → α} {c c' x x' : Nat → α}
    (hY : ∀ a < R, ∀ b < R, Y a b = Y' a b) (hc : ∀ a < R, c a = c' a) (hx : ∀ a < R, x a = x' a) :
    qrow R Y c x = qrow R Y' c' x' := by
  unfold qrow
  rw [bform_congr hY hx hx]
  congr 2
  refine sum_congr rfl fun r hr => ?_
  rw [hc r (mem_range.1 hr), hx r (mem_range.1 hr)]

theorem bform_sub_sub (R : Nat) (Y : Nat → Nat → α) (x y : Nat → α) :
    bform R Y (fun a => x a - y a) (fun a => x a - y a) =
      bform R Y x x - bform R Y x y - bform R Y y x + bform R Y y y := by
  unfold bform
  simp only [← sum_sub_distrib, ← sum_add_distrib]
  refine sum_congr rfl fun a _ => sum_congr rfl fun b _ => ?_
  ring

theorem bform_symm {R : Nat} {Y : Nat → Nat → α} (hsym : ∀ a < R, ∀ b < R, Y a b = Y b a) (x y : Nat → α) :
    bform R Y x y = bform R Y y x := by
  unfold bform
  rw [sum_comm]
  refine sum_congr rfl fun a ha => sum_congr rfl fun b hb => ?_
  rw [hsym b (mem_range.1 hb) a (mem_range.1 ha)]
  ring

/-- Row-wise least squares: if `y Y = c` (normal equations), `Y` symmetric and positive
semi-definite, then `y` minimises `x ↦ x Y xᵀ − 2 c·x`. -/
theorem qrow_min {R : Nat} {Y : Nat → Nat → α} (hsym : ∀ a < R, ∀ b < R, Y a b = Y b a)
    (hpsd : ∀ d : Nat → α, 0 ≤ bform R Y d d) {c y : Nat → α}
    (hne : ∀ r < R, ∑ a ∈ range R, y a * Y a r = c r) (x : Nat → α) :
    qrow R Y c y ≤ qrow R Y c x := by
  have hlin : ∀ z : Nat → α, ∑ r ∈ range R, c r * z r = bform R Y y z := by
    intro z
    unfold bform
    rw [sum_comm]
    refine sum_congr rfl fun r hr => ?_
    rw [← hne r (mem_range.1 hr), sum_mul]
    refine sum_congr rfl fun a _ => ?_
    ring
  have h := hpsd (fun a => x a - y a)
  rw [bform_sub_sub, bform_symm hsym x y] at h
  unfold qrow
  rw [hlin, hlin]
  linarith

/-- A Hadamard product of Gram matrices is positive semi-definite (Schur product theorem for
Gram factors, by induction over the list of factors). -/
theorem bform_prod_gram_nonneg (R : Nat) (K : Nat → Nat) (F : Nat → Nat → Nat → α) (L : List Nat) :
    ∀ d : Nat → α, 0 ≤ bform R (fun a b => prodOver L fun m => ∑ k ∈ range (K m), F m k a * F m k b) d d := by
  induction L with
  | nil =>
    intro d
    have : bform R (fun _ _ => (1 : α)) d d = (∑ a ∈ range R, d a) * (∑ a ∈ range R, d a) := by
      unfold bform
      rw [sum_mul_sum]
      refine sum_congr rfl fun a _ => sum_congr rfl fun b _ => ?_
      ring
    simp only [prodOver, List.map_nil, List.foldr_nil]
    rw [this]
    exact mul_self_nonneg _
  | cons m L ih =>
    intro d
    have hsplit : bform R (fun a b => prodOver (m :: L) fun m => ∑ k ∈ range (K m), F m k a * F m k b) d d =
        ∑ k ∈ range (K m),
          bform R (fun a b => prodOver L fun m => ∑ k ∈ range (K m), F m k a * F m k b)
            (fun a => d a * F m k a) (fun a => d a * F m k a) := by
      unfold bform
      rw [sum_comm' (s := range (K m)) (t := fun _ => range R) (t' := range R) (s' := fun _ => range (K m))
        (by intro x y; simp [and_comm])]
      refine sum_congr rfl fun a _ => ?_
      rw [sum_comm' (s := range (K m)) (t := fun _ => range R) (t' := range R) (s' := fun _ => range (K m))
        (by intro x y; simp [and_comm])]
      refine sum_congr rfl fun b _ => ?_
      simp only [prodOver, List.map_cons, List.foldr_cons]
      rw [mul_comm (d a * d b), sum_mul, sum_mul]
      refine sum_congr rfl fun k _ => ?_
      ring
    rw [hsplit]
    exact sum_nonneg fun k _ => ih _

end quad

end Pyttb.CpAls
