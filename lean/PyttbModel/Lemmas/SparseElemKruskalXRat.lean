/-
C03: `sptensor / ktensor` at the extended rationals the driver executes it at: reading a
rational Kruskal tensor at `XRat` commutes with the component loop, so the divisor is the finite
number `max(eps, K[j])` and no hypothesis about division is left.
-/
import PyttbModel.Lemmas.SparseElemKruskalDiv
import Mathlib.Algebra.Ring.Rat
import Mathlib.Data.List.GetD
namespace Pyttb
open SpElem

namespace XRat
theorem one_def : (1 : XRat) = .fin 1 := rfl
theorem fin_add (a b : Rat) : (.fin a : XRat) + .fin b = .fin (a + b) := rfl
theorem fin_mul (a b : Rat) : (.fin a : XRat) * .fin b = .fin (a * b) := rfl
theorem max_fin_fin (a b : Rat) : max (.fin a : XRat) (.fin b) = .fin (if a < b then b else a) := by
  show XRat.maximum (.fin a) (.fin b) = _
  simp only [XRat.maximum]
  split <;> rfl
end XRat

theorem matGet_toX (F : Mat Rat) (n r : Nat) :
    Mat.get (F.map fun row => row.map XRat.fin) n r = .fin (Mat.get F n r) := by
  unfold Mat.get
  have h1 : (F.map fun row => row.map XRat.fin).getD n [] = (F.getD n []).map XRat.fin :=
    List.getD_map (l := F) (d := []) (n := n) (fun row : List Rat => row.map XRat.fin)
  rw [h1]
  exact List.getD_map (l := F.getD n []) (d := (0 : Rat)) (n := r) XRat.fin

theorem foldl_mul_fin (l : List Rat) (a : Rat) :
    (l.map XRat.fin).foldl (· * ·) (.fin a) = .fin (l.foldl (· * ·) a) := by
  induction l generalizing a with
  | nil => rfl
  | cons x l ih => simp only [List.map_cons, List.foldl_cons, XRat.fin_mul, ih]

theorem foldl_add_fin {β : Type} (l : List β) (t : β → Rat) (a : Rat) :
    l.foldl (fun acc r => acc + XRat.fin (t r)) (.fin a) = .fin (l.foldl (fun acc r => acc + t r) a) := by
  induction l generalizing a with
  | nil => rfl
  | cons x l ih => simp only [List.foldl_cons, XRat.fin_add, ih]

/-- the component loop run on the `XRat` reading of `K` accumulates the `XRat` reading of what it
accumulates on `K`. -/
theorem kentry_toX (K : Ktensor Rat) (j : List Nat) : kentry K.toX j = .fin (kentry K j) := by
  unfold kentry
  have hin : (fun (acc : XRat) (r : Nat) =>
      acc + (List.zipWith (fun (F : Mat XRat) n => Mat.get F n r) K.toX.factors j).foldl (· * ·)
        (1 * K.toX.weights.getD r 0))
      = fun acc r => acc + XRat.fin ((List.zipWith (fun (F : Mat Rat) n => Mat.get F n r) K.factors j).foldl (· * ·)
        (1 * K.weights.getD r 0)) := by
    funext acc r
    congr 1
    have hz : List.zipWith (fun (F : Mat XRat) n => Mat.get F n r) K.toX.factors j
        = (List.zipWith (fun (F : Mat Rat) n => Mat.get F n r) K.factors j).map XRat.fin := by
      simp only [Ktensor.toX, List.zipWith_map_left, List.map_zipWith, matGet_toX]
    have hw : K.toX.weights.getD r 0 = .fin (K.weights.getD r 0) :=
      List.getD_map (l := K.weights) (d := (0 : Rat)) (n := r) XRat.fin
    rw [hz, hw, XRat.one_def, XRat.fin_mul, foldl_mul_fin]
  have hn : K.toX.ncomp = K.ncomp := by simp [Ktensor.ncomp, Ktensor.toX]
  rw [hin, hn]
  exact foldl_add_fin _ _ 0

theorem toX_shape (K : Ktensor Rat) : K.toX.shape = K.shape := by
  simp [Ktensor.shape, Ktensor.toX, List.map_map, Function.comp_def]

/-- `S / K` at the extended rationals, no hypothesis about division left: finite stored values,
rational Kruskal tensor. -/
theorem divK_xrat (A : Sparse XRat) (hA : A.WF) (K : Ktensor Rat) (hs : A.shape = K.shape)
    (hne : A.subs ≠ []) (hfa : ∀ x ∈ A.vals, ∃ q : Rat, x = .fin q) :
    ∃ R, divK (.fin floatEps) A K.toX = .ok R ∧ R.WF ∧ R.shape = A.shape ∧ R.subs = A.subs ∧
      ∀ i, R.get i = if i ∈ A.subs then
        A.get i / .fin (if floatEps < K.get i then K.get i else floatEps) else 0 := by
  have hk : ∀ j, max (XRat.fin floatEps) (kentry K.toX j)
      = .fin (if floatEps < K.get j then K.get j else floatEps) := by
    intro j
    rw [kentry_toX, kentry_eq_get, XRat.max_fin_fin]
  have := divK_raw_spec (.fin floatEps) A hA K.toX (hs.trans (toX_shape K).symm) hne (by
    intro j hj
    rw [hk]
    have hm : A.get j ∈ A.vals := by
      rw [Sparse.vals_eq_map_get A hA]; exact List.mem_map.2 ⟨j, hj, rfl⟩
    obtain ⟨p, hp⟩ := hfa _ hm
    have hp0 : p ≠ 0 := by
      intro h0
      exact A.get_ne_zero_of_mem hA j hj (by rw [hp, h0]; rfl)
    rw [hp]
    exact XRat.fin_div_fin_ne_zero p _ hp0)
  simpa only [hk] using this

end Pyttb
