/-
Real semantics of the GCP handle expressions (`Alg/GcpExpr.lean`) and the correctness of
the symbolic differentiator `Expr.D`, proved once:
`Defined e x p m → HasDerivAt (fun m => evalR e x p m) (evalR (D e) x p m) m`.
-/
import PyttbModel.Alg.GcpExpr
import Mathlib.Analysis.SpecialFunctions.Pow.Deriv
import Mathlib.Analysis.Calculus.Deriv.Abs
namespace Pyttb
open Real Filter Topology

/-- sign of a real number as a real number (`np.sign`). -/
noncomputable def sgn (v : ℝ) : ℝ := if 0 < v then 1 else if v < 0 then -1 else 0

theorem sgn_of_pos {v : ℝ} (h : 0 < v) : sgn v = 1 := by simp [sgn, h]
theorem sgn_of_neg {v : ℝ} (h : v < 0) : sgn v = -1 := by simp [sgn, h, not_lt.2 h.le]
theorem sgn_zero : sgn 0 = 0 := by simp [sgn]
theorem sgn_mul_self (v : ℝ) : sgn v * v = |v| := by
  rcases lt_trichotomy v 0 with h | h | h
  · simp [sgn_of_neg h, abs_of_neg h]
  · simp [h, sgn_zero]
  · simp [sgn_of_pos h, abs_of_pos h]

namespace Expr

/-- Evaluation over ℝ at data value `x`, extra parameter `p`, model value `m`. -/
noncomputable def evalR (x p : ℝ) : Expr → ℝ → ℝ
  | var, m => m
  | data, _ => x
  | param, _ => p
  | const q, _ => (q : ℝ)
  | pi, _ => Real.pi
  | add a b, m => a.evalR x p m + b.evalR x p m
  | sub a b, m => a.evalR x p m - b.evalR x p m
  | mul a b, m => a.evalR x p m * b.evalR x p m
  | div a b, m => a.evalR x p m / b.evalR x p m
  | neg a, m => - a.evalR x p m
  | powNat a n, m => a.evalR x p m ^ n
  | powReal a q, m => a.evalR x p m ^ q.evalR x p m
  | log a, m => Real.log (a.evalR x p m)
  | exp a, m => Real.exp (a.evalR x p m)
  | abs a, m => |a.evalR x p m|
  | sign a, m => sgn (a.evalR x p m)
  | lt a b, m => if a.evalR x p m < b.evalR x p m then 1 else 0
  | lnot a, m => if a.evalR x p m = 0 then 1 else 0

/-- Where the expression is a differentiable function of the model value in the way the
differentiator assumes: no division by zero, logarithms and real powers of positive
numbers only (real exponents not depending on the model value), no `abs` / `sign` at
zero, no comparison at equality, `logical_not` of truth values only. -/
def Defined (x p : ℝ) : Expr → ℝ → Prop
  | var, _ | data, _ | param, _ | const _, _ | pi, _ => True
  | add a b, m | sub a b, m | mul a b, m => a.Defined x p m ∧ b.Defined x p m
  | div a b, m => a.Defined x p m ∧ b.Defined x p m ∧ b.evalR x p m ≠ 0
  | neg a, m | powNat a _, m | exp a, m => a.Defined x p m
  | powReal a q, m => a.Defined x p m ∧ q.noVar = true ∧ 0 < a.evalR x p m
  | log a, m => a.Defined x p m ∧ 0 < a.evalR x p m
  | abs a, m | sign a, m => a.Defined x p m ∧ a.evalR x p m ≠ 0
  | lt a b, m => a.Defined x p m ∧ b.Defined x p m ∧ a.evalR x p m ≠ b.evalR x p m
  | lnot a, m => a.isBool = true ∧ a.Defined x p m

theorem evalR_noVar (x p : ℝ) : ∀ (e : Expr), e.noVar = true → ∀ m m', e.evalR x p m = e.evalR x p m'
  | var, h, _, _ => by simp [noVar] at h
  | data, _, _, _ | param, _, _, _ | const _, _, _, _ | pi, _, _, _ => rfl
  | add a b, h, m, m' | sub a b, h, m, m' | mul a b, h, m, m' | div a b, h, m, m'
  | powReal a b, h, m, m' | lt a b, h, m, m' => by
      simp only [noVar, Bool.and_eq_true] at h
      simp only [evalR, evalR_noVar x p a h.1 m m', evalR_noVar x p b h.2 m m']
  | neg a, h, m, m' | powNat a _, h, m, m' | log a, h, m, m' | exp a, h, m, m'
  | abs a, h, m, m' | sign a, h, m, m' | lnot a, h, m, m' => by
      simp only [noVar] at h
      simp only [evalR, evalR_noVar x p a h m m']

theorem evalR_isBool (x p : ℝ) : ∀ (e : Expr), e.isBool = true → ∀ m, e.evalR x p m = 0 ∨ e.evalR x p m = 1
  | lt a b, _, m => by
      simp only [evalR]; split <;> simp
  | lnot a, _, m => by
      simp only [evalR]; split <;> simp
  | var, h, _ | data, h, _ | param, h, _ | const _, h, _ | pi, h, _ | add _ _, h, _ | sub _ _, h, _
  | mul _ _, h, _ | div _ _, h, _ | neg _, h, _ | powNat _ _, h, _ | powReal _ _, h, _ | log _, h, _
  | exp _, h, _ | abs _, h, _ | sign _, h, _ => by simp [isBool] at h

/-- `logical_not` of a truth value is `1 -` it. -/
theorem evalR_lnot_of_isBool (x p : ℝ) (e : Expr) (h : e.isBool = true) (m : ℝ) :
    (lnot e).evalR x p m = 1 - e.evalR x p m := by
  rcases evalR_isBool x p e h m with h0 | h1
  · simp [evalR, h0]
  · simp [evalR, h1]

private theorem hasDerivAt_sgn {f : ℝ → ℝ} {f' m : ℝ} (hf : HasDerivAt f f' m) (h0 : f m ≠ 0) :
    HasDerivAt (fun y => sgn (f y)) 0 m := by
  rcases lt_or_gt_of_ne h0 with h | h
  · have : ∀ᶠ y in 𝓝 m, f y < 0 := hf.continuousAt.eventually_lt continuousAt_const h
    refine (hasDerivAt_const m (-1 : ℝ)).congr_of_eventuallyEq ?_
    filter_upwards [this] with y hy using sgn_of_neg hy
  · have : ∀ᶠ y in 𝓝 m, 0 < f y := continuousAt_const.eventually_lt hf.continuousAt h
    refine (hasDerivAt_const m (1 : ℝ)).congr_of_eventuallyEq ?_
    filter_upwards [this] with y hy using sgn_of_pos hy

private theorem hasDerivAt_absf {f : ℝ → ℝ} {f' m : ℝ} (hf : HasDerivAt f f' m) (h0 : f m ≠ 0) :
    HasDerivAt (fun y => |f y|) (sgn (f m) * f') m := by
  rcases lt_or_gt_of_ne h0 with h | h
  · have : ∀ᶠ y in 𝓝 m, f y < 0 := hf.continuousAt.eventually_lt continuousAt_const h
    rw [sgn_of_neg h]
    refine (hf.neg.congr_deriv (by ring)).congr_of_eventuallyEq ?_
    filter_upwards [this] with y hy
    simp [abs_of_neg hy]
  · have : ∀ᶠ y in 𝓝 m, 0 < f y := continuousAt_const.eventually_lt hf.continuousAt h
    rw [sgn_of_pos h]
    refine (hf.congr_deriv (by ring)).congr_of_eventuallyEq ?_
    filter_upwards [this] with y hy
    simp [abs_of_pos hy]

private theorem hasDerivAt_ltf {f g : ℝ → ℝ} {f' g' m : ℝ} (hf : HasDerivAt f f' m)
    (hg : HasDerivAt g g' m) (h0 : f m ≠ g m) :
    HasDerivAt (fun y => if f y < g y then (1 : ℝ) else 0) 0 m := by
  rcases lt_or_gt_of_ne h0 with h | h
  · have : ∀ᶠ y in 𝓝 m, f y < g y := hf.continuousAt.eventually_lt hg.continuousAt h
    refine (hasDerivAt_const m (1 : ℝ)).congr_of_eventuallyEq ?_
    filter_upwards [this] with y hy
    simp [hy]
  · have : ∀ᶠ y in 𝓝 m, g y < f y := hg.continuousAt.eventually_lt hf.continuousAt h
    refine (hasDerivAt_const m (0 : ℝ)).congr_of_eventuallyEq ?_
    filter_upwards [this] with y hy
    simp [not_lt.2 hy.le]

/-- **The differentiator is correct**: wherever the expression is `Defined`, the function
`m ↦ evalR e x p m` has derivative `evalR (D e) x p m` at `m`. -/
theorem hasDerivAt_D (x p : ℝ) : ∀ (e : Expr) (m : ℝ), e.Defined x p m →
    HasDerivAt (fun m => e.evalR x p m) (e.D.evalR x p m) m
  | var, m, _ => by simpa [evalR, D] using hasDerivAt_id' m
  | data, m, _ => by simpa [evalR, D] using hasDerivAt_const m x
  | param, m, _ => by simpa [evalR, D] using hasDerivAt_const m p
  | const q, m, _ => by simpa [evalR, D] using hasDerivAt_const m (q : ℝ)
  | pi, m, _ => by simpa [evalR, D] using hasDerivAt_const m Real.pi
  | add a b, m, h => by
      simpa [evalR, D] using (hasDerivAt_D x p a m h.1).fun_add (hasDerivAt_D x p b m h.2)
  | sub a b, m, h => by
      simpa [evalR, D] using (hasDerivAt_D x p a m h.1).fun_sub (hasDerivAt_D x p b m h.2)
  | mul a b, m, h => by
      simpa [evalR, D] using (hasDerivAt_D x p a m h.1).fun_mul (hasDerivAt_D x p b m h.2)
  | div a b, m, h => by
      simpa [evalR, D] using (hasDerivAt_D x p a m h.1).fun_div (hasDerivAt_D x p b m h.2.1) h.2.2
  | neg a, m, h => by
      simpa [evalR, D] using (hasDerivAt_D x p a m h).fun_neg
  | powNat a n, m, h => by
      simpa [evalR, D] using (hasDerivAt_D x p a m h).fun_pow n
  | powReal a q, m, h => by
      have hq : ∀ y, q.evalR x p y = q.evalR x p m := fun y => evalR_noVar x p q h.2.1 y m
      have := (hasDerivAt_D x p a m h.1).rpow_const (p := q.evalR x p m) (Or.inl h.2.2.ne')
      simp only [evalR, D, hq]
      refine this.congr_deriv ?_
      simp only [Rat.cast_one]
      ring
  | log a, m, h => by
      simpa [evalR, D] using (hasDerivAt_D x p a m h.1).log h.2.ne'
  | exp a, m, h => by
      simpa [evalR, D] using (hasDerivAt_D x p a m h).exp
  | abs a, m, h => by
      simpa [evalR, D] using hasDerivAt_absf (hasDerivAt_D x p a m h.1) h.2
  | sign a, m, h => by
      simpa [evalR, D] using hasDerivAt_sgn (hasDerivAt_D x p a m h.1) h.2
  | lt a b, m, h => by
      simpa [evalR, D] using hasDerivAt_ltf (hasDerivAt_D x p a m h.1) (hasDerivAt_D x p b m h.2.1) h.2.2
  | lnot a, m, h => by
      have e : (fun y => (lnot a).evalR x p y) = fun y => 1 - a.evalR x p y :=
        funext (evalR_lnot_of_isBool x p a h.1)
      rw [e]
      simpa [evalR, D] using (hasDerivAt_D x p a m h.2).const_sub 1

end Expr

/-- A function that agrees with `g` to the left of `a` and with `h` to the right, both
differentiable at `a` with the same derivative, is differentiable at `a`. -/
theorem hasDerivAt_of_left_right {f g h : ℝ → ℝ} {a f' : ℝ}
    (hg : HasDerivAt g f' a) (hh : HasDerivAt h f' a)
    (hl : ∀ᶠ y in 𝓝 a, y ≤ a → f y = g y) (hr : ∀ᶠ y in 𝓝 a, a ≤ y → f y = h y) :
    HasDerivAt f f' a := by
  have hfa : f a = g a := hl.self_of_nhds le_rfl
  have hfa' : f a = h a := hr.self_of_nhds le_rfl
  have hL : HasDerivWithinAt f f' (Set.Iic a) a := by
    refine hg.hasDerivWithinAt.congr_of_eventuallyEq ?_ hfa
    exact eventually_nhdsWithin_iff.2 (hl.mono fun y hy hmem => hy hmem)
  have hR : HasDerivWithinAt f f' (Set.Ici a) a := by
    refine hh.hasDerivWithinAt.congr_of_eventuallyEq ?_ hfa'
    exact eventually_nhdsWithin_iff.2 (hr.mono fun y hy hmem => hy hmem)
  have := hL.union hR
  rwa [Set.Iic_union_Ici, hasDerivWithinAt_univ] at this

end Pyttb
