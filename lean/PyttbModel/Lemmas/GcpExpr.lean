/-
Real semantics of the GCP handle expressions (`Alg/GcpExpr.lean`) and the correctness of
the symbolic differentiator `Expr.D`, proved once:
`Defined e x p m → HasDerivAt (fun m => evalR e x p m) (evalR (D e) x p m) m`.
-/
import PyttbModel.Alg.GcpExpr
import Mathlib.Analysis.SpecialFunctions.Pow.Deriv
import Mathlib.Analysis.Calculus.Deriv.Abs
import Mathlib.Analysis.SpecialFunctions.Sqrt
namespace Pyttb
open Real Filter Topology

/-- sign of a real number as a real number (`np.sign`). -/
noncomputable def sgn (v : ℝ) : ℝ := if 0 < v then 1 else if v < 0 then -1 else 0

theorem sgn_of_pos {v : ℝ} (h : 0 < v) : sgn v = 1 := by simp [sgn, h]
theorem sgn_of_neg {v : ℝ} (h : v < 0) : sgn v = -1 := by simp [sgn, h, not_lt.2 h.le]
theorem sgn_zero : sgn 0 = 0 := by simp [sgn]
theorem sgn_mul_self (v : ℝ) : sgn v * v = |v| := by
  rcases lt_trichotomy v 0 with h | h | h
  · simp [sgn_of_neg h, abs_of_neg h]
  · simp [h, sgn_zero]
  · simp [sgn_of_pos h, abs_of_pos h]

/-- `1` where `u < v`, `0` elsewhere (a NumPy comparison as a number).  The three selectors are separate
functions so that unfolding them after their arguments have been evaluated leaves conditions (and their
decidability instances) about the evaluated arguments. -/
noncomputable def indLt (u v : ℝ) : ℝ := if u < v then 1 else 0
/-- `np.logical_not` as a number -/
noncomputable def indZero (u : ℝ) : ℝ := if u = 0 then 1 else 0
/-- `np.where(c, u, v)` -/
noncomputable def sel (c u v : ℝ) : ℝ := if c = 0 then v else u

namespace Expr

/-- Evaluation over ℝ at data value `x`, extra parameter `p`, model value `m`. -/
noncomputable def evalR (x p : ℝ) : Expr → ℝ → ℝ
  | var, m => m
  | data, _ => x
  | param, _ => p
  | const q, _ => (q : ℝ)
  | pi, _ => Real.pi
  | add a b, m => a.evalR x p m + b.evalR x p m
  | sub a b, m => a.evalR x p m - b.evalR x p m
  | mul a b, m => a.evalR x p m * b.evalR x p m
  | div a b, m => a.evalR x p m / b.evalR x p m
  | neg a, m => - a.evalR x p m
  | powNat a n, m => a.evalR x p m ^ n
  | powReal a q, m => a.evalR x p m ^ q.evalR x p m
  | log a, m => Real.log (a.evalR x p m)
  | exp a, m => Real.exp (a.evalR x p m)
  | abs a, m => |a.evalR x p m|
  | sign a, m => sgn (a.evalR x p m)
  | lt a b, m => indLt (a.evalR x p m) (b.evalR x p m)
  | lnot a, m => indZero (a.evalR x p m)
  | sqrt a, m => Real.sqrt (a.evalR x p m)
  | ite c a b, m => sel (c.evalR x p m) (a.evalR x p m) (b.evalR x p m)

/-- Where the expression is a differentiable function of the model value in the way the
differentiator assumes: no division by zero, logarithms, square roots and real powers of
positive numbers only (real exponents not depending on the model value), no `abs` / `sign`
at zero, no comparison at equality, `logical_not` of truth values only; a selection
(`np.where`, `np.maximum`, …) has a truth value as its condition, away from the condition's
switching points, and only the selected branch has to be defined. -/
def Defined (x p : ℝ) : Expr → ℝ → Prop
  | var, _ | data, _ | param, _ | const _, _ | pi, _ => True
  | add a b, m | sub a b, m | mul a b, m => a.Defined x p m ∧ b.Defined x p m
  | div a b, m => a.Defined x p m ∧ b.Defined x p m ∧ b.evalR x p m ≠ 0
  | neg a, m | powNat a _, m | exp a, m => a.Defined x p m
  | powReal a q, m => a.Defined x p m ∧ q.noVar = true ∧ 0 < a.evalR x p m
  | log a, m | sqrt a, m => a.Defined x p m ∧ 0 < a.evalR x p m
  | abs a, m | sign a, m => a.Defined x p m ∧ a.evalR x p m ≠ 0
  | lt a b, m => a.Defined x p m ∧ b.Defined x p m ∧ a.evalR x p m ≠ b.evalR x p m
  | lnot a, m => a.isBool = true ∧ a.Defined x p m
  | ite c a b, m => c.isBool = true ∧ c.Defined x p m ∧
      (if c.evalR x p m = 0 then b.Defined x p m else a.Defined x p m)

theorem evalR_noVar (x p : ℝ) (e : Expr) : e.noVar = true → ∀ m m', e.evalR x p m = e.evalR x p m' := by
  induction e with
  | var => intro h; simp [noVar] at h
  | data | param | const _ | pi => intro _ _ _; rfl
  | add a b iha ihb | sub a b iha ihb | mul a b iha ihb | div a b iha ihb | powReal a b iha ihb
  | lt a b iha ihb =>
      intro h m m'
      simp only [noVar, Bool.and_eq_true] at h
      simp only [evalR, iha h.1 m m', ihb h.2 m m']
  | neg a iha | powNat a _ iha | log a iha | exp a iha | abs a iha | sign a iha | lnot a iha
  | sqrt a iha =>
      intro h m m'
      simp only [noVar] at h
      simp only [evalR, iha h m m']
  | ite c a b ihc iha ihb =>
      intro h m m'
      simp only [noVar, Bool.and_eq_true] at h
      simp only [evalR, ihc h.1.1 m m', iha h.1.2 m m', ihb h.2 m m']

theorem evalR_isBool (x p : ℝ) (e : Expr) : e.isBool = true → ∀ m, e.evalR x p m = 0 ∨ e.evalR x p m = 1 := by
  induction e with
  | lt a b _ _ => intro _ m; simp only [evalR, indLt]; split <;> simp
  | lnot a _ => intro _ m; simp only [evalR, indZero]; split <;> simp
  | mul a b iha ihb =>
      intro h m
      simp only [isBool, Bool.and_eq_true] at h
      rcases iha h.1 m with h0 | h1 <;> rcases ihb h.2 m with h0' | h1' <;> simp [evalR, *]
  | var | data | param | const _ | pi | add _ _ _ _ | sub _ _ _ _ | div _ _ _ _ | neg _ _
  | powNat _ _ _ | powReal _ _ _ _ | log _ _ | exp _ _ | abs _ _ | sign _ _ | sqrt _ _
  | ite _ _ _ _ _ _ => intro h; simp [isBool] at h

/-- `logical_not` of a truth value is `1 -` it. -/
theorem evalR_lnot_of_isBool (x p : ℝ) (e : Expr) (h : e.isBool = true) (m : ℝ) :
    (lnot e).evalR x p m = 1 - e.evalR x p m := by
  rcases evalR_isBool x p e h m with h0 | h1
  · simp [evalR, indZero, h0]
  · simp [evalR, indZero, h1]

private theorem hasDerivAt_sgn {f : ℝ → ℝ} {f' m : ℝ} (hf : HasDerivAt f f' m) (h0 : f m ≠ 0) :
    HasDerivAt (fun y => sgn (f y)) 0 m := by
  rcases lt_or_gt_of_ne h0 with h | h
  · have : ∀ᶠ y in 𝓝 m, f y < 0 := hf.continuousAt.eventually_lt continuousAt_const h
    refine (hasDerivAt_const m (-1 : ℝ)).congr_of_eventuallyEq ?_
    filter_upwards [this] with y hy using sgn_of_neg hy
  · have : ∀ᶠ y in 𝓝 m, 0 < f y := continuousAt_const.eventually_lt hf.continuousAt h
    refine (hasDerivAt_const m (1 : ℝ)).congr_of_eventuallyEq ?_
    filter_upwards [this] with y hy using sgn_of_pos hy

private theorem hasDerivAt_absf {f : ℝ → ℝ} {f' m : ℝ} (hf : HasDerivAt f f' m) (h0 : f m ≠ 0) :
    HasDerivAt (fun y => |f y|) (sgn (f m) * f') m := by
  rcases lt_or_gt_of_ne h0 with h | h
  · have : ∀ᶠ y in 𝓝 m, f y < 0 := hf.continuousAt.eventually_lt continuousAt_const h
    rw [sgn_of_neg h]
    refine (hf.neg.congr_deriv (by ring)).congr_of_eventuallyEq ?_
    filter_upwards [this] with y hy
    simp [abs_of_neg hy]
  · have : ∀ᶠ y in 𝓝 m, 0 < f y := continuousAt_const.eventually_lt hf.continuousAt h
    rw [sgn_of_pos h]
    refine (hf.congr_deriv (by ring)).congr_of_eventuallyEq ?_
    filter_upwards [this] with y hy
    simp [abs_of_pos hy]

/-- a comparison away from equality keeps its value on a neighbourhood -/
private theorem eventually_ltf {f g : ℝ → ℝ} {m : ℝ} (hf : ContinuousAt f m) (hg : ContinuousAt g m)
    (h0 : f m ≠ g m) :
    ∀ᶠ y in 𝓝 m, (if f y < g y then (1 : ℝ) else 0) = if f m < g m then 1 else 0 := by
  rcases lt_or_gt_of_ne h0 with h | h
  · filter_upwards [hf.eventually_lt hg h] with y hy
    simp [hy, h]
  · filter_upwards [hg.eventually_lt hf h] with y hy
    simp [not_lt.2 hy.le, not_lt.2 h.le]

/-- **The differentiator is correct**, together with the fact it needs for selections: a
truth value that is `Defined` at `m` keeps its value on a neighbourhood of `m`. -/
theorem hasDerivAt_D_and_const (x p : ℝ) (e : Expr) :
    (∀ m, e.Defined x p m → HasDerivAt (fun m => e.evalR x p m) (e.D.evalR x p m) m) ∧
    (e.isBool = true → ∀ m, e.Defined x p m → ∀ᶠ y in 𝓝 m, e.evalR x p y = e.evalR x p m) := by
  induction e with
  | var => exact ⟨fun m _ => by simpa [evalR, D] using hasDerivAt_id' m, fun h => by simp [isBool] at h⟩
  | data => exact ⟨fun m _ => by simpa [evalR, D] using hasDerivAt_const m x, fun h => by simp [isBool] at h⟩
  | param => exact ⟨fun m _ => by simpa [evalR, D] using hasDerivAt_const m p, fun h => by simp [isBool] at h⟩
  | const q => exact ⟨fun m _ => by simpa [evalR, D] using hasDerivAt_const m (q : ℝ), fun h => by simp [isBool] at h⟩
  | pi => exact ⟨fun m _ => by simpa [evalR, D] using hasDerivAt_const m Real.pi, fun h => by simp [isBool] at h⟩
  | add a b iha ihb =>
      exact ⟨fun m h => by simpa [evalR, D] using (iha.1 m h.1).fun_add (ihb.1 m h.2),
        fun h => by simp [isBool] at h⟩
  | sub a b iha ihb =>
      exact ⟨fun m h => by simpa [evalR, D] using (iha.1 m h.1).fun_sub (ihb.1 m h.2),
        fun h => by simp [isBool] at h⟩
  | mul a b iha ihb =>
      refine ⟨fun m h => by simpa [evalR, D] using (iha.1 m h.1).fun_mul (ihb.1 m h.2), fun hb m h => ?_⟩
      simp only [isBool, Bool.and_eq_true] at hb
      filter_upwards [iha.2 hb.1 m h.1, ihb.2 hb.2 m h.2] with y h1 h2
      simp only [evalR, h1, h2]
  | div a b iha ihb =>
      exact ⟨fun m h => by simpa [evalR, D] using (iha.1 m h.1).fun_div (ihb.1 m h.2.1) h.2.2,
        fun h => by simp [isBool] at h⟩
  | neg a iha =>
      exact ⟨fun m h => by simpa [evalR, D] using (iha.1 m h).fun_neg, fun h => by simp [isBool] at h⟩
  | powNat a n iha =>
      exact ⟨fun m h => by simpa [evalR, D] using (iha.1 m h).fun_pow n, fun h => by simp [isBool] at h⟩
  | powReal a q iha _ =>
      refine ⟨fun m h => ?_, fun h => by simp [isBool] at h⟩
      have hq : ∀ y, q.evalR x p y = q.evalR x p m := fun y => evalR_noVar x p q h.2.1 y m
      have := (iha.1 m h.1).rpow_const (p := q.evalR x p m) (Or.inl h.2.2.ne')
      simp only [evalR, D, hq]
      refine this.congr_deriv ?_
      simp only [Rat.cast_one]
      ring
  | log a iha =>
      exact ⟨fun m h => by simpa [evalR, D] using (iha.1 m h.1).log h.2.ne', fun h => by simp [isBool] at h⟩
  | exp a iha =>
      exact ⟨fun m h => by simpa [evalR, D] using (iha.1 m h).exp, fun h => by simp [isBool] at h⟩
  | abs a iha =>
      exact ⟨fun m h => by simpa [evalR, D] using hasDerivAt_absf (iha.1 m h.1) h.2,
        fun h => by simp [isBool] at h⟩
  | sign a iha =>
      exact ⟨fun m h => by simpa [evalR, D] using hasDerivAt_sgn (iha.1 m h.1) h.2,
        fun h => by simp [isBool] at h⟩
  | lt a b iha ihb =>
      have hc : ∀ m, (lt a b).Defined x p m →
          ∀ᶠ y in 𝓝 m, (lt a b).evalR x p y = (lt a b).evalR x p m := fun m h =>
        eventually_ltf (iha.1 m h.1).continuousAt (ihb.1 m h.2.1).continuousAt h.2.2
      refine ⟨fun m h => ?_, fun _ => hc⟩
      have : HasDerivAt (fun _ : ℝ => (lt a b).evalR x p m) 0 m := hasDerivAt_const m _
      simpa [D, evalR] using this.congr_of_eventuallyEq (hc m h)
  | lnot a iha =>
      refine ⟨fun m h => ?_, fun hb m h => ?_⟩
      · have e : (fun y => (lnot a).evalR x p y) = fun y => 1 - a.evalR x p y :=
          funext (evalR_lnot_of_isBool x p a h.1)
        rw [e]
        simpa [evalR, D] using (iha.1 m h.2).const_sub 1
      · filter_upwards [iha.2 h.1 m h.2] with y hy
        simp only [evalR, hy]
  | sqrt a iha =>
      refine ⟨fun m h => ?_, fun h => by simp [isBool] at h⟩
      have := (iha.1 m h.1).sqrt h.2.ne'
      simpa [evalR, D] using this
  | ite c a b ihc iha ihb =>
      refine ⟨fun m h => ?_, fun h => by simp [isBool] at h⟩
      have hev := ihc.2 h.1 m h.2.1
      by_cases h0 : c.evalR x p m = 0
      · have hb : b.Defined x p m := by simpa [h0] using h.2.2
        have := (ihb.1 m hb).congr_of_eventuallyEq (f₁ := fun y => (ite c a b).evalR x p y) (by
          filter_upwards [hev] with y hy
          simp only [evalR, sel, hy, h0, if_true])
        simpa [evalR, D, sel, h0] using this
      · have ha : a.Defined x p m := by simpa [h0] using h.2.2
        have := (iha.1 m ha).congr_of_eventuallyEq (f₁ := fun y => (ite c a b).evalR x p y) (by
          filter_upwards [hev] with y hy
          simp only [evalR, sel, hy, h0, if_false])
        simpa [evalR, D, sel, h0] using this

/-- **The differentiator is correct**: wherever the expression is `Defined`, the function
`m ↦ evalR e x p m` has derivative `evalR (D e) x p m` at `m`. -/
theorem hasDerivAt_D (x p : ℝ) (e : Expr) (m : ℝ) (h : e.Defined x p m) :
    HasDerivAt (fun m => e.evalR x p m) (e.D.evalR x p m) m :=
  (hasDerivAt_D_and_const x p e).1 m h

end Expr

/-- A function that agrees with `g` to the left of `a` and with `h` to the right, both
differentiable at `a` with the same derivative, is differentiable at `a`. -/
theorem hasDerivAt_of_left_right {f g h : ℝ → ℝ} {a f' : ℝ}
    (hg : HasDerivAt g f' a) (hh : HasDerivAt h f' a)
    (hl : ∀ᶠ y in 𝓝 a, y ≤ a → f y = g y) (hr : ∀ᶠ y in 𝓝 a, a ≤ y → f y = h y) :
    HasDerivAt f f' a := by
  have hfa : f a = g a := hl.self_of_nhds le_rfl
  have hfa' : f a = h a := hr.self_of_nhds le_rfl
  have hL : HasDerivWithinAt f f' (Set.Iic a) a := by
    refine hg.hasDerivWithinAt.congr_of_eventuallyEq ?_ hfa
    exact eventually_nhdsWithin_iff.2 (hl.mono fun y hy hmem => hy hmem)
  have hR : HasDerivWithinAt f f' (Set.Ici a) a := by
    refine hh.hasDerivWithinAt.congr_of_eventuallyEq ?_ hfa'
    exact eventually_nhdsWithin_iff.2 (hr.mono fun y hy hmem => hy hmem)
  have := hL.union hR
  rwa [Set.Iic_union_Ici, hasDerivWithinAt_univ] at this

end Pyttb
