/-
C15, the class-based version: the class exemplar of a subscript (group coordinates sorted) is the
subscript moved by a member order, two subscripts have the same exemplar iff a member order maps
one to the other, so "every entry equals its exemplar" is `IsSym`, and the class average
(`accumarray` sums and counts) is the specification average.
-/
import PyttbModel.Lemmas.SymDense
namespace Pyttb
namespace Sym
open List

variable {α : Type}

/-! ### sorting -/

theorem sortNat_perm (l : List Nat) : (sortNat l).Perm l := mergeSort_perm l _

theorem sortNat_eq_of_perm {l₁ l₂ : List Nat} (h : l₁.Perm l₂) : sortNat l₁ = sortNat l₂ := by
  have tr : ∀ (a b c : Nat), decide (a ≤ b) = true → decide (b ≤ c) = true → decide (a ≤ c) = true := by
    intro a b c h1 h2; simp at *; omega
  have tot : ∀ (a b : Nat), (decide (a ≤ b) || decide (b ≤ a)) = true := by
    intro a b; simp; omega
  apply Perm.eq_of_pairwise (le := fun a b => decide (a ≤ b) = true)
  · intro a b _ _ h1 h2; simp at h1 h2; omega
  · exact pairwise_mergeSort tr tot l₁
  · exact pairwise_mergeSort tr tot l₂
  · exact ((sortNat_perm l₁).trans h).trans (sortNat_perm l₂).symm

/-- a rearrangement of `g.map f` is `c.map f` for a rearrangement `c` of `g`. -/
theorem exists_perm_map {β γ : Type} (f : β → γ) {l' l : List γ} (h : l'.Perm l) :
    ∀ g : List β, l = g.map f → ∃ c : List β, c.Perm g ∧ c.map f = l' := by
  induction h with
  | nil => intro g hg; exact ⟨g, Perm.refl _, hg.symm⟩
  | cons x _ ih =>
    intro g hg
    cases g with
    | nil => simp at hg
    | cons a g' =>
      simp only [map_cons, cons.injEq] at hg
      obtain ⟨c, hc1, hc2⟩ := ih g' hg.2
      exact ⟨a :: c, hc1.cons a, by simp [hc2, hg.1]⟩
  | swap x y l0 =>
    intro g hg
    cases g with
    | nil => simp at hg
    | cons a g' =>
      cases g' with
      | nil => simp at hg
      | cons b g0 =>
        simp only [map_cons, cons.injEq] at hg
        exact ⟨b :: a :: g0, Perm.swap _ _ _, by simp [hg.1, hg.2.1, hg.2.2]⟩
  | trans _ _ ih1 ih2 =>
    intro g hg
    obtain ⟨c1, h11, h12⟩ := ih2 g hg
    obtain ⟨c2, h21, h22⟩ := ih1 c1 h12.symm
    exact ⟨c2, h21.trans h11, h22⟩

/-! ### the class exemplar is reached by a member order -/

theorem classSub_eq_gather {n : Nat} {g : List Nat} (V : ValidGroups n [g]) {i : List Nat} (hi : i.length = n) :
    ∃ r, GroupPerm [g] n r ∧ classSub g i = gather i r := by
  have hg := V.1 g (mem_singleton.2 rfl)
  obtain ⟨c, hc1, hc2⟩ := exists_perm_map (fun k => i.getD k 0) (sortNat_perm (gather i g)) g rfl
  have hc2' : gather i c = sortNat (gather i g) := hc2
  have hl : g.length = c.length := hc1.length_eq.symm
  refine ⟨scatter (List.range n) g c, groupPerm_scatter hg.1 hg.2 hc1, ?_⟩
  unfold classSub
  apply ext_getD (by simp [hi])
  intro m hm
  simp only [length_scatter, hi] at hm
  have hsl : g.length = (sortNat (gather i g)).length := by
    rw [(sortNat_perm _).length_eq]; simp
  rw [getD_gather _ _ _ (by simpa using hm),
    getD_scatter i g _ hg.1 hsl (by simpa [hi] using hg.2),
    getD_scatter _ g c hg.1 hl (by simpa using hg.2)]
  by_cases hmg : m ∈ g
  · rw [if_pos hmg, if_pos hmg, ← hc2', getD_gather _ _ _ (by rw [← hl]; exact idxOf_lt_length_of_mem hmg)]
  · rw [if_neg hmg, if_neg hmg, getD_range n m hm]

theorem classSub_gather {n : Nat} {g : List Nat} (V : ValidGroups n [g]) {i r : List Nat} (hi : i.length = n)
    (hr : GroupPerm [g] n r) : classSub g (gather i r) = classSub g i := by
  have hg := V.1 g (mem_singleton.2 rfl)
  have h1 : gather (gather i r) g = gather i (gather r g) :=
    gather_gather i r g (by intro x hx; rw [hr.length_eq]; exact hg.2 x hx)
  have h2 : (gather i (gather r g)).Perm (gather i g) := by
    unfold gather
    exact (hr.gather_perm V (mem_singleton.2 rfl)).map _
  have h3 : sortNat (gather (gather i r) g) = sortNat (gather i g) := by
    rw [h1]; exact sortNat_eq_of_perm h2
  unfold classSub
  rw [h3]
  have hsl : g.length = (sortNat (gather i g)).length := by
    rw [(sortNat_perm _).length_eq]; simp
  apply ext_getD (by simp [hr.length_eq, hi])
  intro m hm
  simp only [length_scatter, length_gather, hr.length_eq] at hm
  rw [getD_scatter _ g _ hg.1 hsl (by simpa [hr.length_eq] using hg.2),
    getD_scatter _ g _ hg.1 hsl (by simpa [hi] using hg.2)]
  by_cases hmg : m ∈ g
  · rw [if_pos hmg, if_pos hmg]
  · rw [if_neg hmg, if_neg hmg, getD_gather _ _ _ (by rw [hr.length_eq]; exact hm),
      hr.fix_of_not_mem hm (by simpa using hmg)]

/-- same exemplar iff one subscript is the other moved by a member order. -/
theorem classSub_eq_iff {n : Nat} {g : List Nat} (V : ValidGroups n [g]) {i j : List Nat}
    (hi : i.length = n) (hj : j.length = n) :
    classSub g i = classSub g j ↔ ∃ r, GroupPerm [g] n r ∧ i = gather j r := by
  constructor
  · intro h
    obtain ⟨r1, hr1, e1⟩ := classSub_eq_gather V hi
    obtain ⟨r2, hr2, e2⟩ := classSub_eq_gather V hj
    refine ⟨gather r2 (invPerm r1), hr2.comp V hr1.inv, ?_⟩
    rw [← comp_assoc hr2.1 hr1.inv.1, ← e2, ← h, e1, comp_assoc hr1.1 hr1.inv.1, comp_invPerm hr1.1,
      gather_range_of_length hi]
  · rintro ⟨r, hr, rfl⟩
    exact classSub_gather V hj hr

theorem classSub_inBounds {s g : List Nat} (V : ValidGroups s.length [g]) (hs : SizesOK s [g])
    {i : List Nat} (hi : InBounds s i) : InBounds s (classSub g i) := by
  obtain ⟨r, hr, e⟩ := classSub_eq_gather V hi.length_eq
  rw [e]; exact hr.inBounds hs hi

/-! ### "every entry equals its exemplar" is symmetry for the group -/

theorem all_zipWith_beq_map {β : Type} [BEq α] [LawfulBEq α] (l : List β) (f h : β → α) :
    (List.zipWith (· == ·) (l.map f) (l.map h)).all id = true ↔ ∀ x ∈ l, f x = h x := by
  induction l with
  | nil => simp
  | cons a l ih =>
    simp only [map_cons, zipWith_cons_cons, all_cons, Bool.and_eq_true, id, beq_iff_eq, ih, mem_cons,
      forall_eq_or_imp]

theorem classCheck_iff [Zero α] [BEq α] [LawfulBEq α] (T : Dense α) (hT : T.WF) (g : List Nat) :
    classCheck T g = true ↔ ∀ i, InBounds T.shape i → T.get i = T.get (classSub g i) := by
  unfold classCheck
  rw [Dense.data_eq_map_get T hT]
  rw [all_zipWith_beq_map]
  simp only [mem_allSubs]

theorem classCheck_iff_isSym [Zero α] [BEq α] [LawfulBEq α] (T : Dense α) (hT : T.WF) {g : List Nat}
    (V : ValidGroups T.shape.length [g]) (hs : SizesOK T.shape [g]) :
    classCheck T g = true ↔ IsSym T [g] := by
  rw [classCheck_iff T hT g, isSym_iff T hs]
  constructor
  · intro h p hp j hj
    have hjp := hp.inBounds hs hj
    rw [h _ hjp, classSub_gather V hj.length_eq hp, ← h j hj]
  · intro h i hi
    obtain ⟨r, hr, e⟩ := classSub_eq_gather V hi.length_eq
    rw [e, h r hr i hi]

end Sym
end Pyttb
