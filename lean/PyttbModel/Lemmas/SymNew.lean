/-
C15, the class-based version: the class exemplar of a subscript (group coordinates sorted) is the
subscript moved by a member order, two subscripts have the same exemplar iff a member order maps
one to the other, so "every entry equals its exemplar" is `IsSym`, and the class average
(`accumarray` sums and counts) is the specification average.
-/
import PyttbModel.Lemmas.SymDense
namespace Pyttb
namespace Sym
open List

variable {α : Type}

/-! ### sorting -/

theorem insertNat_perm (a : Nat) (l : List Nat) : (insertNat a l).Perm (a :: l) := by
  induction l with
  | nil => exact Perm.refl _
  | cons b l ih =>
    unfold insertNat
    by_cases h : a ≤ b
    · rw [if_pos h]
    · rw [if_neg h]; exact (ih.cons b).trans (Perm.swap _ _ _)

theorem sortNat_perm (l : List Nat) : (sortNat l).Perm l := by
  induction l with
  | nil => exact Perm.refl _
  | cons a l ih =>
    show (insertNat a (sortNat l)).Perm (a :: l)
    exact (insertNat_perm a _).trans (ih.cons a)

theorem pairwise_insertNat (a : Nat) (l : List Nat) (h : l.Pairwise (· ≤ ·)) :
    (insertNat a l).Pairwise (· ≤ ·) := by
  induction l with
  | nil => simp [insertNat]
  | cons b l ih =>
    rw [pairwise_cons] at h
    unfold insertNat
    by_cases hab : a ≤ b
    · rw [if_pos hab, pairwise_cons]
      refine ⟨?_, pairwise_cons.2 h⟩
      intro x hx
      rcases mem_cons.1 hx with rfl | hx
      · exact hab
      · exact Nat.le_trans hab (h.1 x hx)
    · rw [if_neg hab, pairwise_cons]
      refine ⟨?_, ih h.2⟩
      intro x hx
      have hx' := (insertNat_perm a l).subset hx
      rcases mem_cons.1 hx' with rfl | hx'
      · omega
      · exact h.1 x hx'

theorem pairwise_sortNat (l : List Nat) : (sortNat l).Pairwise (· ≤ ·) := by
  induction l with
  | nil => simp [sortNat]
  | cons a l ih => exact pairwise_insertNat a _ ih

theorem sortNat_eq_of_perm {l₁ l₂ : List Nat} (h : l₁.Perm l₂) : sortNat l₁ = sortNat l₂ := by
  apply Perm.eq_of_pairwise (le := fun a b => a ≤ b)
  · intro a b _ _ h1 h2; omega
  · exact pairwise_sortNat l₁
  · exact pairwise_sortNat l₂
  · exact ((sortNat_perm l₁).trans h).trans (sortNat_perm l₂).symm

/-- a rearrangement of `g.map f` is `c.map f` for a rearrangement `c` of `g`. -/
theorem exists_perm_map {β γ : Type} (f : β → γ) {l' l : List γ} (h : l'.Perm l) :
    ∀ g : List β, l = g.map f → ∃ c : List β, c.Perm g ∧ c.map f = l' := by
  induction h with
  | nil => intro g hg; exact ⟨g, Perm.refl _, hg.symm⟩
  | cons x _ ih =>
    intro g hg
    cases g with
    | nil => simp at hg
    | cons a g' =>
      simp only [map_cons, cons.injEq] at hg
      obtain ⟨c, hc1, hc2⟩ := ih g' hg.2
      exact ⟨a :: c, hc1.cons a, by simp [hc2, hg.1]⟩
  | swap x y l0 =>
    intro g hg
    cases g with
    | nil => simp at hg
    | cons a g' =>
      cases g' with
      | nil => simp at hg
      | cons b g0 =>
        simp only [map_cons, cons.injEq] at hg
        exact ⟨b :: a :: g0, Perm.swap _ _ _, by simp [hg.1, hg.2.1, hg.2.2]⟩
  | trans _ _ ih1 ih2 =>
    intro g hg
    obtain ⟨c1, h11, h12⟩ := ih2 g hg
    obtain ⟨c2, h21, h22⟩ := ih1 c1 h12.symm
    exact ⟨c2, h21.trans h11, h22⟩

/-! ### the class exemplar is reached by a member order -/

theorem classSub_eq_gather {n : Nat} {g : List Nat} (V : ValidGroups n [g]) {i : List Nat} (hi : i.length = n) :
    ∃ r, GroupPerm [g] n r ∧ classSub g i = gather i r := by
  have hg := V.1 g (mem_singleton.2 rfl)
  obtain ⟨c, hc1, hc2⟩ := exists_perm_map (fun k => i.getD k 0) (sortNat_perm (gather i g)) g rfl
  have hc2' : gather i c = sortNat (gather i g) := hc2
  have hl : g.length = c.length := hc1.length_eq.symm
  refine ⟨scatter (List.range n) g c, groupPerm_scatter hg.1 hg.2 hc1, ?_⟩
  unfold classSub
  apply ext_getD (by simp [hi])
  intro m hm
  simp only [length_scatter, hi] at hm
  have hsl : g.length = (sortNat (gather i g)).length := by
    rw [(sortNat_perm _).length_eq]; simp
  rw [getD_gather _ _ _ (by simpa using hm),
    getD_scatter i g _ hg.1 hsl (by simpa [hi] using hg.2),
    getD_scatter _ g c hg.1 hl (by simpa using hg.2)]
  by_cases hmg : m ∈ g
  · rw [if_pos hmg, if_pos hmg, ← hc2', getD_gather _ _ _ (by rw [← hl]; exact idxOf_lt_length_of_mem hmg)]
  · rw [if_neg hmg, if_neg hmg, getD_range n m hm]

theorem classSub_gather {n : Nat} {g : List Nat} (V : ValidGroups n [g]) {i r : List Nat} (hi : i.length = n)
    (hr : GroupPerm [g] n r) : classSub g (gather i r) = classSub g i := by
  have hg := V.1 g (mem_singleton.2 rfl)
  have h1 : gather (gather i r) g = gather i (gather r g) :=
    gather_gather i r g (by intro x hx; rw [hr.length_eq]; exact hg.2 x hx)
  have h2 : (gather i (gather r g)).Perm (gather i g) := by
    unfold gather
    exact (hr.gather_perm V (mem_singleton.2 rfl)).map _
  have h3 : sortNat (gather (gather i r) g) = sortNat (gather i g) := by
    rw [h1]; exact sortNat_eq_of_perm h2
  unfold classSub
  rw [h3]
  have hsl : g.length = (sortNat (gather i g)).length := by
    rw [(sortNat_perm _).length_eq]; simp
  apply ext_getD (by simp [hr.length_eq, hi])
  intro m hm
  simp only [length_scatter, length_gather, hr.length_eq] at hm
  rw [getD_scatter _ g _ hg.1 hsl (by simpa [hr.length_eq] using hg.2),
    getD_scatter _ g _ hg.1 hsl (by simpa [hi] using hg.2)]
  by_cases hmg : m ∈ g
  · rw [if_pos hmg, if_pos hmg]
  · rw [if_neg hmg, if_neg hmg, getD_gather _ _ _ (by rw [hr.length_eq]; exact hm),
      hr.fix_of_not_mem hm (by simpa using hmg)]

/-- same exemplar iff one subscript is the other moved by a member order. -/
theorem classSub_eq_iff {n : Nat} {g : List Nat} (V : ValidGroups n [g]) {i j : List Nat}
    (hi : i.length = n) (hj : j.length = n) :
    classSub g i = classSub g j ↔ ∃ r, GroupPerm [g] n r ∧ i = gather j r := by
  constructor
  · intro h
    obtain ⟨r1, hr1, e1⟩ := classSub_eq_gather V hi
    obtain ⟨r2, hr2, e2⟩ := classSub_eq_gather V hj
    refine ⟨gather r2 (invPerm r1), hr2.comp V hr1.inv, ?_⟩
    rw [← comp_assoc hr2.1 hr1.inv.1, ← e2, ← h, e1, comp_assoc hr1.1 hr1.inv.1, comp_invPerm hr1.1,
      gather_range_of_length hi]
  · rintro ⟨r, hr, rfl⟩
    exact classSub_gather V hj hr

theorem classSub_inBounds {s g : List Nat} (V : ValidGroups s.length [g]) (hs : SizesOK s [g])
    {i : List Nat} (hi : InBounds s i) : InBounds s (classSub g i) := by
  obtain ⟨r, hr, e⟩ := classSub_eq_gather V hi.length_eq
  rw [e]; exact hr.inBounds hs hi

/-! ### "every entry equals its exemplar" is symmetry for the group -/

theorem all_zipWith_beq_map {β : Type} [BEq α] [LawfulBEq α] (l : List β) (f h : β → α) :
    (List.zipWith (· == ·) (l.map f) (l.map h)).all id = true ↔ ∀ x ∈ l, f x = h x := by
  induction l with
  | nil => simp
  | cons a l ih =>
    simp only [map_cons, zipWith_cons_cons, all_cons, Bool.and_eq_true, id, beq_iff_eq, ih, mem_cons,
      forall_eq_or_imp]

theorem classCheck_iff [Zero α] [BEq α] [LawfulBEq α] (T : Dense α) (hT : T.WF) (g : List Nat) :
    classCheck T g = true ↔ ∀ i, InBounds T.shape i → T.get i = T.get (classSub g i) := by
  unfold classCheck
  rw [Dense.data_eq_map_get T hT]
  rw [all_zipWith_beq_map]
  simp only [mem_allSubs]

theorem classCheck_iff_isSym [Zero α] [BEq α] [LawfulBEq α] (T : Dense α) (hT : T.WF) {g : List Nat}
    (V : ValidGroups T.shape.length [g]) (hs : SizesOK T.shape [g]) :
    classCheck T g = true ↔ IsSym T [g] := by
  rw [classCheck_iff T hT g, isSym_iff T hs]
  constructor
  · intro h p hp j hj
    have hjp := hp.inBounds hs hj
    rw [h _ hjp, classSub_gather V hj.length_eq hp, ← h j hj]
  · intro h i hi
    obtain ⟨r, hr, e⟩ := classSub_eq_gather V hi.length_eq
    rw [e, h r hr i hi]

/-! ### the class average is the specification average (one group) -/

theorem nodup_allSubs (s : List Nat) : (allSubs s).Nodup := by
  unfold allSubs
  apply nodup_range.map_on
  intro x hx y hy h
  rw [mem_range] at hx hy
  rw [← sub2ind_ind2sub hx, h, sub2ind_ind2sub hy]

theorem le_foldl_max_nat (l : List Nat) (a : Nat) : a ≤ l.foldl max a ∧ ∀ x ∈ l, x ≤ l.foldl max a := by
  induction l generalizing a with
  | nil => simp
  | cons y ys ih =>
    simp only [foldl_cons, mem_cons, forall_eq_or_imp]
    have := ih (max a y)
    exact ⟨Nat.le_trans (Nat.le_max_left a y) this.1, Nat.le_trans (Nat.le_max_right a y) this.1, this.2⟩

theorem accumAt_map [AddCommMonoid α] {β : Type} (l : List β) (key : β → Nat) (val : β → α) (L : Nat) :
    accumAt (l.map key) (l.map val) L = ((l.filter fun x => key x == L).map val).sum := by
  unfold accumAt
  rw [zip_map', filter_map, map_map]
  rfl

theorem getD_accumarray [AddCommMonoid α] (idx : List Nat) (vals : List α) {L : Nat} (hL : L ∈ idx) :
    (accumarray idx vals).getD L 0 = accumAt idx vals L := by
  have hlt : L < idx.foldl max 0 + 1 := Nat.lt_succ_of_le ((le_foldl_max_nat idx 0).2 L hL)
  simp [accumarray, List.getD_eq_getElem?_getD, hlt]

theorem length_accumarray [AddCommMonoid α] (idx : List Nat) (vals : List α) :
    (accumarray idx vals).length = idx.foldl max 0 + 1 := by simp [accumarray]

/-- the subscripts with the same exemplar as `j`. -/
def classOf (s g j : List Nat) : List (List Nat) :=
  (allSubs s).filter fun i => decide (classSub g i = classSub g j)

theorem mem_classOf {s g j i : List Nat} :
    i ∈ classOf s g j ↔ InBounds s i ∧ classSub g i = classSub g j := by
  simp [classOf, mem_allSubs]

theorem nodup_classOf (s g j : List Nat) : (classOf s g j).Nodup := (nodup_allSubs s).filter _

/-- the entries computed by the averaging branch of the loop body. -/
theorem symStepNew_avg_get [Field α] [DecidableEq α] (T : Dense α) (hT : T.WF) {g : List Nat}
    (V : ValidGroups T.shape.length [g]) (hs : SizesOK T.shape [g]) (hc : classCheck T g = false)
    {j : List Nat} (hj : InBounds T.shape j) :
    (symStepNew T g).shape = T.shape ∧ (symStepNew T g).WF ∧
    (symStepNew T g).get j = ((classOf T.shape g j).map T.get).sum / ((classOf T.shape g j).length : α) := by
  have hform : symStepNew T g = Dense.ofFn T.shape fun i =>
      (List.zipWith (· / ·)
        (accumarray ((allSubs T.shape).map fun i => sub2ind T.shape (classSub g i)) T.data)
        (accumarray ((allSubs T.shape).map fun i => sub2ind T.shape (classSub g i))
          ((allSubs T.shape).map fun _ => (1 : α)))).getD (sub2ind T.shape (classSub g i)) 0 := by
    simp only [symStepNew, hc, Bool.false_eq_true, if_false, Dense.ofFn, map_map, Function.comp_def]
  rw [hform]
  refine ⟨rfl, Dense.ofFn_WF _ _, ?_⟩
  rw [Dense.ofFn_get _ _ hj]
  set lin := (allSubs T.shape).map fun i => sub2ind T.shape (classSub g i) with hlin
  have hL : sub2ind T.shape (classSub g j) ∈ lin := by
    rw [hlin, mem_map]; exact ⟨j, mem_allSubs.2 hj, rfl⟩
  have hlt : sub2ind T.shape (classSub g j) < lin.foldl max 0 + 1 :=
    Nat.lt_succ_of_le ((le_foldl_max_nat lin 0).2 _ hL)
  rw [getD_zipWith' _ _ _ _ 0 0 0 (by rw [length_accumarray]; exact hlt) (by rw [length_accumarray]; exact hlt),
    getD_accumarray _ _ hL, getD_accumarray _ _ hL]
  have hfilter : ((allSubs T.shape).filter fun i => sub2ind T.shape (classSub g i) == sub2ind T.shape (classSub g j)) =
      classOf T.shape g j := by
    unfold classOf
    apply filter_congr
    intro i hi
    have hi' := mem_allSubs.1 hi
    have h1 := classSub_inBounds V hs hi'
    have h2 := classSub_inBounds V hs hj
    by_cases h : classSub g i = classSub g j
    · simp [h]
    · have : sub2ind T.shape (classSub g i) ≠ sub2ind T.shape (classSub g j) := by
        intro e; apply h
        rw [← ind2sub_sub2ind h1, e, ind2sub_sub2ind h2]
      simp [h, this]
  conv => lhs; rw [Dense.data_eq_map_get T hT]
  rw [hlin, accumAt_map, accumAt_map, hfilter]
  congr 1
  simp

/-- moving every subscript of a class by a member order permutes the class. -/
theorem classOf_map_gather_perm {s g j : List Nat} (V : ValidGroups s.length [g]) (hs : SizesOK s [g])
    {p : List Nat} (hp : GroupPerm [g] s.length p) :
    ((classOf s g j).map fun i => gather i p).Perm (classOf s g j) := by
  have hinj : ∀ x ∈ classOf s g j, ∀ y ∈ classOf s g j, gather x p = gather y p → x = y := by
    intro x hx y hy h
    exact gather_perm_inj hp.1 (mem_classOf.1 hx).1.length_eq (mem_classOf.1 hy).1.length_eq h
  rw [perm_ext_iff_of_nodup ((nodup_classOf s g j).map_on hinj) (nodup_classOf s g j)]
  intro x
  simp only [mem_map, mem_classOf]
  constructor
  · rintro ⟨i, ⟨hi1, hi2⟩, rfl⟩
    exact ⟨hp.inBounds hs hi1, by rw [classSub_gather V hi1.length_eq hp, hi2]⟩
  · rintro ⟨hx1, hx2⟩
    refine ⟨gather x (invPerm p), ⟨hp.inv.inBounds hs hx1, ?_⟩, ?_⟩
    · rw [classSub_gather V hx1.length_eq hp.inv, hx2]
    · rw [comp_assoc hp.inv.1 hp.1, invPerm_comp hp.1, gather_range_of_length hx1.length_eq]

/-- the class average equals the average over the member orders. -/
theorem class_average_eq_spec [Field α] [CharZero α] (T : Dense α) {g : List Nat}
    (V : ValidGroups T.shape.length [g]) (hs : SizesOK T.shape [g]) {j : List Nat} (hj : InBounds T.shape j) :
    ((classOf T.shape g j).map T.get).sum / ((classOf T.shape g j).length : α) = (symSpec T [g]).get j := by
  have hjC : j ∈ classOf T.shape g j := mem_classOf.2 ⟨hj, rfl⟩
  have hCne : ((classOf T.shape g j).length : α) ≠ 0 :=
    Nat.cast_ne_zero.2 (by have := length_pos_of_mem hjC; omega)
  have hPne : ((groupPerms T.shape.length [g]).length : α) ≠ 0 :=
    Nat.cast_ne_zero.2 (by have := length_groupPerms_pos [g] T.shape.length; omega)
  -- (a) the specification is constant on the class
  have ha : ∀ i ∈ classOf T.shape g j, (symSpec T [g]).get i = (symSpec T [g]).get j := by
    intro i hi
    obtain ⟨hi1, hi2⟩ := mem_classOf.1 hi
    obtain ⟨r, hr, rfl⟩ := (classSub_eq_iff V hi1.length_eq hj.length_eq).1 hi2
    exact symSpec_invariant T V hs hr hj
  -- (b) the class sums of the specification and of the tensor agree
  have hb : ((classOf T.shape g j).map (symSpec T [g]).get).sum = ((classOf T.shape g j).map T.get).sum := by
    have h1 : ((classOf T.shape g j).map (symSpec T [g]).get) =
        (classOf T.shape g j).map fun i =>
          ((groupPerms T.shape.length [g]).map fun p => T.get (gather i p)).sum /
            ((groupPerms T.shape.length [g]).length : α) := by
      apply map_congr_left
      intro i hi
      exact symSpec_get T [g] (mem_classOf.1 hi).1
    rw [h1, sum_map_div', sum_map_sum_comm]
    have h2 : ((groupPerms T.shape.length [g]).map fun p =>
          ((classOf T.shape g j).map fun i => T.get (gather i p)).sum) =
        (groupPerms T.shape.length [g]).map fun _ => ((classOf T.shape g j).map T.get).sum := by
      apply map_congr_left
      intro p hp
      have := ((classOf_map_gather_perm (j := j) V hs (mem_groupPerms.1 hp)).map T.get).sum_eq
      rwa [map_map] at this
    rw [h2, sum_const_div _ (groupPerms_ne_nil _ _)]
  rw [← hb]
  have h3 : ((classOf T.shape g j).map (symSpec T [g]).get) =
      (classOf T.shape g j).map fun _ => (symSpec T [g]).get j := map_congr_left ha
  rw [h3, sum_const_div _ (ne_nil_of_mem hjC)]

/-- one pass of the loop body is the specification average for that group. -/
theorem symStepNew_eq_spec [Field α] [CharZero α] [DecidableEq α] (T : Dense α) (hT : T.WF) {g : List Nat}
    (V : ValidGroups T.shape.length [g]) (hs : SizesOK T.shape [g]) :
    symStepNew T g = symSpec T [g] := by
  by_cases hc : classCheck T g = true
  · have : symStepNew T g = T := by simp [symStepNew, hc]
    rw [this]
    exact (symSpec_fixes T hT hs ((classCheck_iff_isSym T hT V hs).1 hc)).symm
  · have hc' : classCheck T g = false := by simpa using hc
    have h0 := fun j hj => symStepNew_avg_get T hT V hs hc' (j := j) hj
    -- shape and well-formedness do not depend on `j`
    have hshape : (symStepNew T g).shape = T.shape := by
      simp only [symStepNew, hc', Bool.false_eq_true, if_false]
    have hwf : (symStepNew T g).WF := by
      simp only [symStepNew, hc', Bool.false_eq_true, if_false, Dense.WF, length_map, length_allSubs]
    apply Dense.ext_get hwf (symSpec_WF T [g]) hshape
    intro j hj
    rw [hshape] at hj
    rw [(h0 j hj).2.2, class_average_eq_spec T V hs hj]

/-! ### all groups, in order -/

theorem symStepNew_shape [Add α] [Zero α] [One α] [Div α] [BEq α] (T : Dense α) (g : List Nat) :
    (symStepNew T g).shape = T.shape := by
  unfold symStepNew
  by_cases hc : classCheck T g = true
  · simp [hc]
  · simp [hc]

/-- what the class-based `symmetrize` checks on its way through the groups. -/
def AcceptedNew (s : List Nat) : List (List Nat) → Prop
  | [] => True
  | g :: rest => g ≠ [] ∧ (∀ m ∈ g, m < s.length) ∧ (∀ a ∈ g, ∀ b ∈ g, s.getD a 0 = s.getD b 0) ∧
      (∀ h ∈ rest, ∀ m, m ∈ g → ¬ m ∈ h) ∧ AcceptedNew s rest

theorem acceptedNew_iff (s : List Nat) (grps : List (List Nat)) :
    AcceptedNew s grps ↔ (∀ g ∈ grps, g ≠ []) ∧ InRangeAll s.length grps ∧ SizesOK s grps ∧ NoOverlap grps := by
  induction grps with
  | nil => simp [AcceptedNew, InRangeAll, SizesOK, NoOverlap]
  | cons g gs ih =>
    simp only [AcceptedNew, ih, InRangeAll, SizesOK, NoOverlap, mem_cons, forall_eq_or_imp, pairwise_cons]
    constructor
    · rintro ⟨h1, h2, h3, h4, h5, h6, h7, h8⟩
      exact ⟨⟨h1, h5⟩, ⟨h2, h6⟩, ⟨h3, h7⟩, ⟨h4, h8⟩⟩
    · rintro ⟨⟨h1, h5⟩, ⟨h2, h6⟩, ⟨h3, h7⟩, ⟨h4, h8⟩⟩
      exact ⟨h1, h2, h3, h4, h5, h6, h7, h8⟩

theorem symmetrizeNewGo_step [Add α] [Zero α] [One α] [Div α] [BEq α] (D : Dense α) (g : List Nat)
    (rest : List (List Nat)) (h1 : g ≠ []) (h2 : ∀ m ∈ g, m < D.shape.length)
    (h3 : ∀ a ∈ g, ∀ b ∈ g, D.shape.getD a 0 = D.shape.getD b 0)
    (h4 : ∀ h ∈ rest, ∀ m, m ∈ g → ¬ m ∈ h) :
    symmetrizeNewGo D (g :: rest) = symmetrizeNewGo (symStepNew D g) rest := by
  have c1 : (g.isEmpty || !inRange D.shape.length g) = false := by
    have : inRange D.shape.length g = true := by simpa [inRange] using h2
    simp [h1, this]
  have c2 : sameSizes D.shape g = true := (sameSizes_iff _ _).2 h3
  have c3 : rest.any (fun h => h.any g.contains) = false := (rest_overlap_false_iff g rest).2 h4
  simp only [symmetrizeNewGo, c1, c2, c3, Bool.not_true, Bool.false_eq_true, if_false]

/-- the class-based version returns the specification average. -/
theorem symmetrizeNewGo_eq_spec [Field α] [CharZero α] [DecidableEq α] :
    ∀ (grps : List (List Nat)) (T : Dense α), T.WF → ValidGroups T.shape.length grps →
      SizesOK T.shape grps → (∀ g ∈ grps, g ≠ []) → symmetrizeNewGo T grps = .ok (symSpec T grps) := by
  intro grps
  induction grps with
  | nil =>
    intro T hT _ hs _
    simp only [symmetrizeNewGo]
    rw [symSpec_fixes T hT hs (isSym_nil T)]
  | cons g gs ih =>
    intro T hT V hs hne
    rw [symmetrizeNewGo_step T g gs (hne g mem_cons_self) (V.1 g mem_cons_self).2
      (hs g mem_cons_self) (fun h hh m hm => V.disjoint_head hh hm)]
    rw [symStepNew_eq_spec T hT V.head (sizesOK_head hs), symSpec_cons T V hs]
    exact ih (symSpec T [g]) (symSpec_WF T [g]) (by simpa using V.tail) (by simpa using sizesOK_tail hs)
      (fun h hh => hne h (mem_cons_of_mem _ hh))

/-- anything the checks do not accept is rejected. -/
theorem symmetrizeNewGo_rejects [Add α] [Zero α] [One α] [Div α] [BEq α] :
    ∀ (grps : List (List Nat)) (D : Dense α), ¬ AcceptedNew D.shape grps →
      symmetrizeNewGo D grps = .error .reject := by
  intro grps
  induction grps with
  | nil => intro D h; exact absurd trivial h
  | cons g gs ih =>
    intro D h
    by_cases h1 : g = []
    · subst h1; simp [symmetrizeNewGo]
    by_cases h2 : ∀ m ∈ g, m < D.shape.length
    · by_cases h3 : ∀ a ∈ g, ∀ b ∈ g, D.shape.getD a 0 = D.shape.getD b 0
      · by_cases h4 : ∀ h ∈ gs, ∀ m, m ∈ g → ¬ m ∈ h
        · rw [symmetrizeNewGo_step D g gs h1 h2 h3 h4]
          apply ih
          rw [symStepNew_shape]
          intro h5
          exact h ⟨h1, h2, h3, h4, h5⟩
        · have c1 : (g.isEmpty || !inRange D.shape.length g) = false := by
            have : inRange D.shape.length g = true := by simpa [inRange] using h2
            simp [h1, this]
          have c2 : sameSizes D.shape g = true := (sameSizes_iff _ _).2 h3
          have c3 : gs.any (fun h => h.any g.contains) = true := by
            cases hc : gs.any (fun h => h.any g.contains) with
            | true => rfl
            | false => exact absurd ((rest_overlap_false_iff g gs).1 hc) h4
          simp only [symmetrizeNewGo, c1, c2, c3, Bool.not_true, Bool.false_eq_true, if_false, if_true]
      · have c1 : (g.isEmpty || !inRange D.shape.length g) = false := by
          have : inRange D.shape.length g = true := by simpa [inRange] using h2
          simp [h1, this]
        have c2 : sameSizes D.shape g = false := by
          cases hc : sameSizes D.shape g with
          | false => rfl
          | true => exact absurd ((sameSizes_iff _ _).1 hc) h3
        simp only [symmetrizeNewGo, c1, c2, Bool.not_false, Bool.false_eq_true, if_false, if_true]
    · have c1 : (g.isEmpty || !inRange D.shape.length g) = true := by
        have : inRange D.shape.length g = false := by
          cases hc : inRange D.shape.length g with
          | false => rfl
          | true => exact absurd (by simpa [inRange] using hc) h2
        simp [this]
      simp only [symmetrizeNewGo, c1, if_true]

/-! ### the class-based symmetry test -/

theorem issymmetricNewGo_spec [Zero α] [BEq α] [LawfulBEq α] (T : Dense α) (hT : T.WF) :
    ∀ (grps : List (List Nat)), ValidGroups T.shape.length grps → SizesOK T.shape grps →
      (∀ g ∈ grps, g ≠ []) → ∃ b, issymmetricNewGo T grps = .ok b ∧ (b = true ↔ IsSym T grps) := by
  intro grps
  induction grps with
  | nil => intro _ _ _; exact ⟨true, rfl, by simp [isSym_nil]⟩
  | cons g gs ih =>
    intro V hs hne
    obtain ⟨b, hb1, hb2⟩ := ih V.tail (sizesOK_tail hs) (fun h hh => hne h (mem_cons_of_mem _ hh))
    have c1 : (g.isEmpty || !inRange T.shape.length g) = false := by
      have : inRange T.shape.length g = true := by simpa [inRange] using (V.1 g mem_cons_self).2
      simp [hne g mem_cons_self, this]
    have c2 : sameSizes T.shape g = true := (sameSizes_iff _ _).2 (hs g mem_cons_self)
    have hcc := classCheck_iff_isSym T hT V.head (sizesOK_head hs)
    by_cases hc : classCheck T g = true
    · refine ⟨b, ?_, ?_⟩
      · simp only [issymmetricNewGo, c1, c2, hc, Bool.not_true, Bool.false_eq_true, if_false]
        exact hb1
      · rw [isSym_cons T V hs, hb2]
        constructor
        · intro h; exact ⟨hcc.1 hc, h⟩
        · intro h; exact h.2
    · refine ⟨false, ?_, ?_⟩
      · have hc' : classCheck T g = false := by simpa using hc
        simp only [issymmetricNewGo, c1, c2, hc', Bool.not_true, Bool.not_false, Bool.false_eq_true,
          if_false, if_true]
      · rw [isSym_cons T V hs]
        constructor
        · intro h; exact absurd h (by simp)
        · intro h; exact absurd (hcc.2 h.1) hc

/-- some group has modes of different extents: the class-based test answers `False`. -/
theorem issymmetricNewGo_unequal [Zero α] [BEq α] (T : Dense α) :
    ∀ (grps : List (List Nat)), InRangeAll T.shape.length grps → (∀ g ∈ grps, g ≠ []) →
      ¬ SizesOK T.shape grps → issymmetricNewGo T grps = .ok false := by
  intro grps
  induction grps with
  | nil => intro _ _ h; exact absurd (by simp [SizesOK]) h
  | cons g gs ih =>
    intro hr hne hs
    have c1 : (g.isEmpty || !inRange T.shape.length g) = false := by
      have : inRange T.shape.length g = true := by simpa [inRange] using hr g mem_cons_self
      simp [hne g mem_cons_self, this]
    by_cases h3 : sameSizes T.shape g = true
    · by_cases hc : classCheck T g = true
      · simp only [issymmetricNewGo, c1, h3, hc, Bool.not_true, Bool.false_eq_true, if_false]
        apply ih (fun h hh => hr h (mem_cons_of_mem _ hh)) (fun h hh => hne h (mem_cons_of_mem _ hh))
        intro h
        apply hs
        intro h' hh'
        rcases mem_cons.1 hh' with rfl | hh'
        · exact (sameSizes_iff _ _).1 h3
        · exact h h' hh'
      · have hc' : classCheck T g = false := by simpa using hc
        simp only [issymmetricNewGo, c1, h3, hc', Bool.not_true, Bool.not_false, Bool.false_eq_true,
          if_false, if_true]
    · have h3' : sameSizes T.shape g = false := by simpa using h3
      simp only [issymmetricNewGo, c1, h3', Bool.not_false, Bool.false_eq_true, if_false, if_true]

end Sym
end Pyttb
