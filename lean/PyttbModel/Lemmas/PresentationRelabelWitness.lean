/-
A concrete instance for the non-vacuity example of `C18_relabel_cpals_run`: the `2 × 1` array
`[[a], [b]]` behind the interface `data21`, its transpose `[[a, b]]` (the relabelling by `p = [1, 0]`)
behind `data12`, over any ordered field; rank one, the `1 × 1` solver `solve1`.
-/
import PyttbModel.Lemmas.PresentationRelabel

set_option linter.unusedSimpArgs false
set_option linter.unusedVariables false
set_option linter.unusedSectionVars false
namespace Pyttb.CpAls
open Pyttb

section witness
variable {α : Type} [Field α] [LinearOrder α] [IsStrictOrderedRing α]

/-- the `2 × 1` array `[[a], [b]]` -/
def x21 (a b : α) : List Nat → α := fun i => if i = [0, 0] then a else if i = [1, 0] then b else 0

/-- `[[a], [b]]` as a data object (`nx` is what `norm()` answers) -/
def data21 (a b nx : α) : Data α :=
  { shape := [2, 1], norm := nx,
    mttkrp := fun U n =>
      if n = 0 then tab 2 ((U.getD 1 []).getD 0 []).length fun i r => (if i = 0 then a else b) * (U.getD 1 []).get 0 r
      else if n = 1 then tab 1 ((U.getD 0 []).getD 0 []).length fun _ r =>
        a * (U.getD 0 []).get 0 r + b * (U.getD 0 []).get 1 r
      else [],
    innerprod := fun K => ip [2, 1] (x21 a b) K.get,
    nvecs := none }

/-- the relabelled array: `[[a, b]]`, as the function `permute` defines it -/
def x12 (a b : α) : List Nat → α := fun j' => x21 a b (gather j' (invPerm [1, 0]))

/-- `[[a, b]]` as a data object -/
def data12 (a b nx : α) : Data α :=
  { shape := [1, 2], norm := nx,
    mttkrp := fun U n =>
      if n = 0 then tab 1 ((U.getD 1 []).getD 0 []).length fun _ r =>
        a * (U.getD 1 []).get 0 r + b * (U.getD 1 []).get 1 r
      else if n = 1 then tab 2 ((U.getD 0 []).getD 0 []).length fun i r => (if i = 0 then a else b) * (U.getD 0 []).get 0 r
      else [],
    innerprod := fun K => ip [1, 2] (x12 a b) K.get,
    nvecs := none }

theorem allSubs21' : allSubs [2, 1] = [[0, 0], [1, 0]] := by decide
theorem allSubs12' : allSubs [1, 2] = [[0, 0], [0, 1]] := by decide

theorem x12_00 (a b : α) : x12 a b [0, 0] = a := by
  have : gather [0, 0] (invPerm [1, 0]) = [0, 0] := by decide
  simp [x12, this, x21]
theorem x12_01 (a b : α) : x12 a b [0, 1] = b := by
  have : gather [0, 1] (invPerm [1, 0]) = [1, 0] := by decide
  simp [x12, this, x21]

theorem rowlen_of_shape {s : List Nat} {R : Nat} {U : List (Mat α)} (hU : ShapeOK s R U) {n : Nat} (hn : n < s.length)
    (hpos : 0 < s.getD n 0) : ((U.getD n []).getD 0 []).length = R := by
  have h := hU.2 n hn
  have h0 : 0 < (U.getD n []).length := by rw [h.1]; exact hpos
  have : (U.getD n []).getD 0 [] = (U.getD n [])[0] := by
    rw [List.getD_eq_getElem?_getD, List.getElem?_eq_getElem h0]; rfl
  rw [this]
  exact h.2 _ (List.getElem_mem h0)

theorem data21_laws (a b nx : α) : DataLaws (data21 a b nx) (x21 a b) := by
  refine ⟨fun K _ => rfl, ?_, ?_⟩
  · intro w U n hn hU
    have hlen : U.length = 2 := hU.1
    match U, hlen with
    | [A, B], _ =>
      have hB : (B.getD 0 []).length = w.length := rowlen_of_shape (s := [2, 1]) hU (n := 1) (by decide) (by decide)
      have hA : (A.getD 0 []).length = w.length := rowlen_of_shape (s := [2, 1]) hU (n := 0) (by decide) (by decide)
      simp only [List.getD_eq_getElem?_getD] at hA hB
      show ip [2, 1] (x21 a b) _ = _
      have hn' : n = 0 ∨ n = 1 := by
        have : n < 2 := hn
        omega
      have hK : ∀ i : Nat, Ktensor.get ⟨w, [A, B]⟩ [i, 0] =
          ∑ r ∈ Finset.range w.length, w.getD r 0 * (A.get i r * B.get 0 r) := by
        intro i
        rw [ktensor_get_eq]
        refine Finset.sum_congr rfl fun r _ => ?_
        simp [compOf]
      rcases hn' with rfl | rfl
      · simp only [ip, allSubs21', List.map_cons, List.map_nil, List.sum_cons, List.sum_nil, hK, x21, data21,
          sumRange_eq]
        norm_num [Finset.sum_range_succ, Finset.mul_sum, ← Finset.sum_add_distrib, hB]
        refine Finset.sum_congr rfl fun r hr => ?_
        rw [get_tab 2 _ _ (by decide : 0 < 2) (Finset.mem_range.1 hr),
          get_tab 2 _ _ (by decide : 1 < 2) (Finset.mem_range.1 hr)]
        norm_num
        ring
      · simp only [ip, allSubs21', List.map_cons, List.map_nil, List.sum_cons, List.sum_nil, hK, x21, data21,
          sumRange_eq]
        norm_num [Finset.sum_range_succ, Finset.mul_sum, ← Finset.sum_add_distrib, hA]
        refine Finset.sum_congr rfl fun r hr => ?_
        rw [get_tab 1 _ _ (by decide : 0 < 1) (Finset.mem_range.1 hr)]
        ring
  · intro U n A
    by_cases h0 : n = 0
    · subst h0; simp [data21, getD_set_ne]
    · by_cases h1 : n = 1
      · subst h1; simp [data21, getD_set_ne]
      · simp [data21, h0, h1]

theorem data12_laws (a b nx : α) : DataLaws (data12 a b nx) (x12 a b) := by
  refine ⟨fun K _ => rfl, ?_, ?_⟩
  · intro w U n hn hU
    have hlen : U.length = 2 := hU.1
    match U, hlen with
    | [A, B], _ =>
      have hB : (B.getD 0 []).length = w.length := rowlen_of_shape (s := [1, 2]) hU (n := 1) (by decide) (by decide)
      have hA : (A.getD 0 []).length = w.length := rowlen_of_shape (s := [1, 2]) hU (n := 0) (by decide) (by decide)
      simp only [List.getD_eq_getElem?_getD] at hA hB
      show ip [1, 2] (x12 a b) _ = _
      have hn' : n = 0 ∨ n = 1 := by
        have : n < 2 := hn
        omega
      have hK : ∀ j : Nat, Ktensor.get ⟨w, [A, B]⟩ [0, j] =
          ∑ r ∈ Finset.range w.length, w.getD r 0 * (A.get 0 r * B.get j r) := by
        intro j
        rw [ktensor_get_eq]
        refine Finset.sum_congr rfl fun r _ => ?_
        simp [compOf]
      rcases hn' with rfl | rfl
      · simp only [ip, allSubs12', List.map_cons, List.map_nil, List.sum_cons, List.sum_nil, hK, x12_00, x12_01,
          data12, sumRange_eq]
        norm_num [Finset.sum_range_succ, Finset.mul_sum, ← Finset.sum_add_distrib, hB]
        refine Finset.sum_congr rfl fun r hr => ?_
        rw [get_tab 1 _ _ (by decide : 0 < 1) (Finset.mem_range.1 hr)]
        ring
      · simp only [ip, allSubs12', List.map_cons, List.map_nil, List.sum_cons, List.sum_nil, hK, x12_00, x12_01,
          data12, sumRange_eq]
        norm_num [Finset.sum_range_succ, Finset.mul_sum, ← Finset.sum_add_distrib, hA]
        refine Finset.sum_congr rfl fun r hr => ?_
        rw [get_tab 2 _ _ (by decide : 0 < 2) (Finset.mem_range.1 hr),
          get_tab 2 _ _ (by decide : 1 < 2) (Finset.mem_range.1 hr)]
        norm_num
        ring
  · intro U n A
    by_cases h0 : n = 0
    · subst h0; simp [data12, getD_set_ne]
    · by_cases h1 : n = 1
      · subst h1; simp [data12, getD_set_ne]
      · simp [data12, h0, h1]

theorem data21_shaped (a b nx : α) : MttkrpShaped (data21 a b nx) := by
  intro U n R hn hU
  have hn' : n = 0 ∨ n = 1 := by
    have : n < 2 := hn
    omega
  rcases hn' with rfl | rfl
  · have := rowlen_of_shape (s := [2, 1]) hU (n := 1) (by decide) (by decide)
    simp only [data21, if_true]
    rw [this]; exact isMat_tab _ _ _
  · have := rowlen_of_shape (s := [2, 1]) hU (n := 0) (by decide) (by decide)
    simp only [data21]
    rw [this]; exact isMat_tab _ _ _

theorem data12_shaped (a b nx : α) : MttkrpShaped (data12 a b nx) := by
  intro U n R hn hU
  have hn' : n = 0 ∨ n = 1 := by
    have : n < 2 := hn
    omega
  rcases hn' with rfl | rfl
  · have := rowlen_of_shape (s := [1, 2]) hU (n := 1) (by decide) (by decide)
    simp only [data12, if_true]
    rw [this]; exact isMat_tab _ _ _
  · have := rowlen_of_shape (s := [1, 2]) hU (n := 0) (by decide) (by decide)
    simp only [data12]
    rw [this]; exact isMat_tab _ _ _

/-- options: rank one, two passes, second mode first, only… all modes optimised, report recomputed, signs fixed -/
def params21 : Params α :=
  { rank := 1, stoptol := 0, maxiters := 2, dimorder := some [1, 0], optdims := none, printing := true,
    fixsigns := true }

/-- start: all ones -/
def start21 : Ktensor α := ⟨[1], [[[1], [1]], [[1]]]⟩

theorem setup21 (a b nx : α) :
    setup (data21 a b nx) params21 (.given start21) = .ok ([1, 0], [0, 1], [1, 0], start21) := by
  rfl

theorem relabelHyp21 (a b nx : α) :
    RelabelHyp (data21 a b nx) (data12 a b nx) (solve1 : Services α) solve1 [1, 0] :=
  relabelHyp_of_laws (p := [1, 0]) (show isPermOf [1, 0] 2 = true by decide) (data21_laws a b nx) (data12_laws a b nx) rfl rfl
    (data21_shaped a b nx) (data12_shaped a b nx) (fun _ _ _ _ => rfl)

/-- ℝ-free non-vacuity: over every ordered field with a lawful `NumOps`, the `2 × 1` array `[[a], [b]]` and its
transpose satisfy all hypotheses of `run_relabel` for `p = [1, 0]`, and the first run returns. -/
theorem instance21 {o : NumOps α} (ho : o.Lawful) (a b nx : α) :
    ∃ out : Output α,
      RelabelHyp (data21 a b nx) (data12 a b nx) (solve1 : Services α) solve1 [1, 0] ∧
      DataLaws (data21 a b nx) (x21 a b) ∧
      DataLaws (data12 a b nx) (fun j' => x21 a b (gather j' (invPerm [1, 0]))) ∧
      InitOK (data21 a b nx) (params21 : Params α).rank (.given start21) ∧
      run (data21 a b nx) solve1 o params21 (.given start21) = .ok out := by
  obtain ⟨out, hout⟩ := run_ok1 ho (data21 a b nx) params21 (.given start21) (setup21 a b nx) (Nat.succ_ne_zero 1) rfl
  exact ⟨out, relabelHyp21 a b nx, data21_laws a b nx, data12_laws a b nx, trivial, hout⟩

end witness
end Pyttb.CpAls
