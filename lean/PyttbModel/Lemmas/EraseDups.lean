/-!
`List.eraseDups` keeps the length exactly when the list has no repetitions.  Core Lean only.
-/
namespace Pyttb

theorem eraseDups_length_le {β : Type} [BEq β] (l : List β) : l.eraseDups.length ≤ l.length := by
  generalize hn : l.length = n
  induction n using Nat.strongRecOn generalizing l with
  | _ n ih =>
    cases l with
    | nil => simp at hn; subst hn; simp
    | cons a as =>
      rw [List.eraseDups_cons]
      have hle : (as.filter fun b => !b == a).length ≤ as.length := List.length_filter_le ..
      have hlen : (as.filter fun b => !b == a).length < n := by
        subst hn
        exact Nat.lt_succ_of_le hle
      have := ih _ hlen _ rfl
      simp only [List.length_cons] at hn ⊢
      omega

theorem filter_ne_eq_self {β : Type} [BEq β] [LawfulBEq β] (a : β) (as : List β) (h : a ∉ as) :
    (as.filter fun b => !b == a) = as := by
  rw [List.filter_eq_self]
  intro b hb
  have : b ≠ a := fun e => h (e ▸ hb)
  simpa using this

theorem eraseDups_length_eq_iff {β : Type} [BEq β] [LawfulBEq β] (l : List β) :
    l.eraseDups.length = l.length ↔ l.Nodup := by
  induction l with
  | nil => simp
  | cons a as ih =>
    rw [List.eraseDups_cons, List.nodup_cons]
    simp only [List.length_cons]
    constructor
    · intro h
      have h1 := eraseDups_length_le (as.filter fun b => !b == a)
      have h2 : (as.filter fun b => !b == a).length ≤ as.length := List.length_filter_le ..
      have h3 : (as.filter fun b => !b == a).length = as.length := by omega
      have ha : a ∉ as := by
        intro hmem
        have := (List.length_filter_eq_length_iff.1 h3) a hmem
        simp at this
      rw [filter_ne_eq_self a as ha] at h
      exact ⟨ha, ih.1 (by omega)⟩
    · rintro ⟨ha, hnd⟩
      rw [filter_ne_eq_self a as ha, ih.2 hnd]

theorem eraseDups_length_bne_false {β : Type} [BEq β] [LawfulBEq β] (l : List β) (h : l.Nodup) :
    (l.eraseDups.length != l.length) = false := by
  rw [(eraseDups_length_eq_iff l).2 h]; simp

theorem eraseDups_length_bne_true {β : Type} [BEq β] [LawfulBEq β] (l : List β) (h : ¬ l.Nodup) :
    (l.eraseDups.length != l.length) = true := by
  have : l.eraseDups.length ≠ l.length := fun e => h ((eraseDups_length_eq_iff l).1 e)
  simpa using this

end Pyttb
