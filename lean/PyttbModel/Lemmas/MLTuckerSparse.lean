/-
C02 — `ttensor.innerprod(sptensor)` on both sides of its size switch: the sparse `ttm` side reduces
to the dense kernel on the expanded tensor.
-/
import PyttbModel.Lemmas.MLTuckerOps
import PyttbModel.Lemmas.MLSparseTtm
namespace Pyttb
namespace MLK
open ML

variable {α : Type}

theorem spec_inner_congr_right [CommSemiring α] (X Y Y' : Den α)
    (hg : ∀ k, InBounds X.shape k → Y.get k = Y'.get k) : Spec.inner X Y = Spec.inner X Y' := by
  unfold Spec.inner Spec.sumOver
  apply sum_congr
  intro k hk
  rw [hg k (mem_allSubs.1 hk)]

/-- **Tucker · sparse inner product**, both branches: through `full()` when the tensor is smaller
than its core, otherwise `sptensor.ttm(factors, transpose=True)` against the core. -/
theorem tucker_innerprodSparse_spec [CommSemiring α] [DecidableEq α] (T : Ttensor α) (hT : TuckerWF T)
    (hN : 1 ≤ T.factors.length) (S : Sparse α) (hS : S.WF) (hs : T.shape = S.shape) :
    T.innerprodSparse S = .ok (Spec.inner T.den S.den) := by
  by_cases hb : numel T.shape < numel T.core.shape
  · exact tucker_innerprodSparse_full T hT hN S hS hs hb
  · have hd := tucker_innerprodDense_spec T hT hN S.full (full_WF S) hs
    have heq : T.innerprodSparse S = T.innerprodDense S.full := by
      unfold Ttensor.innerprodSparse Ttensor.innerprodDense
      rw [full_shape, if_neg hb, if_neg hb, sparse_ttm_eq_full S hS]
    rw [heq, hd]
    congr 1
    exact spec_inner_congr_right T.den S.full.den S.den
      (fun k hk => (sp_full_at S hS k (by rw [← hs]; exact hk)).1)

end MLK
end Pyttb
