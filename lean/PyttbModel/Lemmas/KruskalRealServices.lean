/-
C08: the hypotheses of the theorems are satisfiable — over the reals the standard services
(1-, 2-, max-norm, stable argsort, `x ↦ x^(1/N)`) are lawful.
-/
import PyttbModel.Lemmas.KruskalServices
import Mathlib.Analysis.SpecialFunctions.Pow.Real
import Mathlib.Analysis.Real.Sqrt
namespace Pyttb

/-- the services over ℝ: `Real.sqrt` and `x ^ (1/N)` -/
noncomputable def realServices : Services ℝ :=
  Services.std Real.sqrt (fun N x => x ^ ((N : ℝ)⁻¹))

theorem realServices_lawful : realServices.Lawful :=
  std_lawful Real.sqrt _ (fun x _ => Real.sqrt_nonneg x) (fun x hx => Real.mul_self_sqrt hx)
    (fun N x hN hx => Real.rpow_inv_natCast_pow hx (Nat.pos_iff_ne_zero.1 hN))

end Pyttb
