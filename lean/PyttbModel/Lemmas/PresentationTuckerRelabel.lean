/-
C18, whole-run mode relabelling of Tucker-ALS (the model of C10: `Alg/TuckerAls.lean`).

Two runs: data `X` and `permuteD p X`, the rank vector, the start and `dimorder` relabelled.  The projection
`ttm(U, exclude_dims=n, transpose=True)` multiplies the other modes in INCREASING order — a different order for
the two problems; products in distinct modes commute (`ttmFold_perm`).  The Gram matrix `nvecs` sees for mode
`invPerm p [n]` of the second problem is the Gram matrix it sees for mode `n` of the first; as for scaling, the
contract `NvecsSpec` and the determinacy hypothesis `DetRun` (about the FIRST run) make the two answers equal.
-/
import PyttbModel.Lemmas.PresentationHosvd
import PyttbModel.Lemmas.PresentationTucker
import PyttbModel.Lemmas.TuckerAlsThm

set_option linter.unusedSectionVars false
set_option linter.unusedSimpArgs false
set_option linter.unusedVariables false
namespace Pyttb
namespace Tk
open Finset CpAls

/-! ## 1. the projection on all factors but one -/

theorem complDims_relabel_perm {p : List Nat} {d : Nat} (hp : isPermOf p d = true) {n : Nat} (hn : n < d) :
    ((complDims d [(invPerm p).getD n 0]).map fun m' => p.getD m' 0).Perm (complDims d [n]) := by
  have hpq : p.getD ((invPerm p).getD n 0) 0 = n := getD_invPerm_getD hp hn
  have hqn := isPermOf_invPerm_getD_lt hp hn
  rw [List.perm_ext_iff_of_nodup]
  · intro m
    simp only [List.mem_map, mem_complDims]
    constructor
    · rintro ⟨m', ⟨hm', hne⟩, rfl⟩
      exact ⟨isPermOf_getD_lt hp hm', fun e => hne (isPermOf_getD_inj hp hm' hqn (by rw [e, hpq]))⟩
    · rintro ⟨hm, hne⟩
      refine ⟨(invPerm p).getD m 0, ⟨isPermOf_invPerm_getD_lt hp hm, fun e => hne ?_⟩, getD_invPerm_getD hp hm⟩
      exact isPermOf_getD_inj (isPermOf_invPerm hp) hm hn e
  · refine List.Nodup.map_on ?_ (List.nodup_range.filter _)
    intro a ha b hb e
    exact isPermOf_getD_inj hp (mem_complDims.1 ha).1 (mem_complDims.1 hb).1 e
  · exact List.nodup_range.filter _

/-- **The projection on all factors but mode `invPerm p [n]` of the relabelled problem is the relabelled
projection on all factors but mode `n`.** -/
theorem ttmExcl_relabel {p : List Nat} {d : Nat} (hp : isPermOf p d = true) (T Y : Dense ℝ) (U : List (Mat ℝ))
    (hT : T.shape.length = d) (hU : U.length = d) {n : Nat} (tr : Bool) (h : ttmExcl T U n tr = .ok Y) :
    ttmExcl (permuteD p T) (gatherD U p []) ((invPerm p).getD n 0) tr = .ok (permuteD p Y) := by
  have hpl := isPermOf_length_eq hp
  -- the first run
  unfold ttmExcl at h
  split at h
  swap
  · cases h
  rename_i hn
  rw [hT] at hn
  have hlen := length_complDims d n hn
  unfold ttmDims at h
  rw [hT] at h
  have c1 : ¬ U.length > d := by omega
  have c2 : ¬ (U.length != d && U.length != (complDims d [n]).length) = true := by simp [hU]
  rw [if_neg c1, if_neg c2] at h
  by_cases hne : (complDims d [n]).isEmpty = true
  · rw [if_pos hne] at h; cases h
  rw [if_neg hne, ttmPairs_by_mode U _ (by omega)] at h
  have hconds := foldlM_ttm_conds tr _ T Y (exclList_fst_nodup U d n) h
  have hY := foldlM_ttm_ok tr _ T Y h
  -- the chain of the first run in the order of the second
  have hqn := isPermOf_invPerm_getD_lt hp hn
  let l₂ : List (Nat × Mat ℝ) := (complDims d [(invPerm p).getD n 0]).map fun m' => (p.getD m' 0, U.getD (p.getD m' 0) [])
  have hperm : l₂.Perm (exclList U d n) := by
    have := (complDims_relabel_perm hp hn).map fun m => (m, U.getD m [])
    simpa [l₂, exclList, List.map_map, Function.comp_def] using this
  have hn₂ : (l₂.map Prod.fst).Nodup := by
    have := (exclList_fst_nodup U d n)
    exact (hperm.map Prod.fst).nodup_iff.2 this
  have hfold₂ : l₂.foldlM (fun Y z => ttm Y z.2 z.1 tr) T = .ok Y := by
    rw [foldlM_ttm_succeeds tr l₂ T hn₂ (fun z hz => hconds z (hperm.subset hz)), hY,
      ttmFold_perm hperm hn₂ T tr]
    rfl
  -- the second run
  have hlen' := length_complDims d _ hqn
  unfold ttmExcl
  rw [if_pos (by rw [permuteD_shape, length_gather, hpl]; exact hqn)]
  unfold ttmDims
  simp only [permuteD_shape, length_gather, hpl, CpAls.length_gatherD]
  rw [if_neg (by omega), if_neg (by simp), if_neg (by
    intro he
    have : (complDims d [(invPerm p).getD n 0]).length = 0 := by simpa using he
    have : (complDims d [n]).length = 0 := by omega
    exact hne (by simpa using this)),
    ttmPairs_by_mode _ _ (by rw [CpAls.length_gatherD, hpl]; omega)]
  have hpairs : ((complDims d [(invPerm p).getD n 0]).map fun k => (k, (gatherD U p []).getD k [])) =
      l₂.map fun z => ((invPerm p).getD z.1 0, z.2) := by
    simp only [l₂, List.map_map, Function.comp_def]
    refine List.map_congr_left fun k hk => ?_
    have hk' := (mem_complDims.1 hk).1
    rw [CpAls.getD_gatherD _ _ _ (by rw [hpl]; exact hk'), invPerm_getD_getD hp hk']
  rw [hpairs, foldlM_ttm_relabel hp tr l₂ T hT (fun z hz => by
    simp only [l₂, List.mem_map] at hz
    obtain ⟨k, hk, rfl⟩ := hz
    exact isPermOf_getD_lt hp (mem_complDims.1 hk).1), hfold₂]
  rfl

/-- the product with the factor of the one mode that was left out -/
theorem ttmDims_single_relabel {p : List Nat} {d : Nat} (hp : isPermOf p d = true) (T G : Dense ℝ) (U : List (Mat ℝ))
    (hT : T.shape.length = d) (hU : U.length = d) {n : Nat} (hn : n < d) (tr : Bool)
    (h : ttmDims T U [n] tr = .ok G) :
    ttmDims (permuteD p T) (gatherD U p []) [(invPerm p).getD n 0] tr = .ok (permuteD p G) := by
  have hpl := isPermOf_length_eq hp
  have hqn := isPermOf_invPerm_getD_lt hp hn
  have hpairs : ∀ (V : List (Mat ℝ)) (m : Nat), V.length = d → m < d → ttmPairs V [m] = [(m, V.getD m [])] := by
    intro V m hV hm
    unfold ttmPairs
    by_cases h1 : d = 1
    · subst h1
      have : m = 0 := by omega
      subst this
      simp [hV]
    · rw [if_neg (by simp [hV]; omega)]
      rfl
  unfold ttmDims at h ⊢
  simp only [permuteD_shape, length_gather, hpl, CpAls.length_gatherD, hT] at h ⊢
  rw [if_neg (by omega), if_neg (by simp [hU]), if_neg (by simp), hpairs U n hU hn] at h
  rw [if_neg (by omega), if_neg (by simp), if_neg (by simp),
    hpairs _ _ (by rw [CpAls.length_gatherD, hpl]) hqn, CpAls.getD_gatherD _ _ _ (by rw [hpl]; exact hqn),
    getD_invPerm_getD hp hn]
  have := foldlM_ttm_relabel hp tr [(n, U.getD n [])] T hT (fun z hz => by
    simp only [List.mem_singleton] at hz; subst hz; exact hn)
  simp only [List.map_cons, List.map_nil] at this
  rw [this, h]
  rfl

/-! ## 2. `nvecs`, one mode update, the sweep -/

/-- **Where the contract determines the answer, `nvecs` for mode `invPerm p [n]` of the relabelled array is `nvecs`
for mode `n` of the array**: the Gram matrices of the two unfoldings are the same matrix. -/
theorem nvecs_relabel {nvecs : Nat → Dense ℝ → Nat → Nat → Mat ℝ} (hC : NvecsSpec nvecs) {p : List Nat} {d : Nat}
    (hp : isPermOf p d = true) (c : Nat) (W : Dense ℝ) (hW : W.shape.length = d) {n : Nat} (hn : n < d) (r : Nat)
    (hdet : ∃! A, LeadSpec (gramMode W n) (W.shape.getD n 0) r A) :
    nvecs c (permuteD p W) ((invPerm p).getD n 0) r = nvecs c W n r := by
  have hpl := isPermOf_length_eq hp
  have hqn := isPermOf_invPerm_getD_lt hp hn
  have hpq : p.getD ((invPerm p).getD n 0) 0 = n := getD_invPerm_getD hp hn
  have eZ : gramMode (permuteD p W) ((invPerm p).getD n 0) = gramMode W n := by
    rw [gramMode_permuteD W (by rw [hW]; exact hp) (by rw [hW]; exact hqn), hpq]
  have eM : (permuteD p W).shape.getD ((invPerm p).getD n 0) 0 = W.shape.getD n 0 := by
    rw [permuteD_shape, getD_gather _ _ _ (by rw [hpl]; exact hqn), hpq]
  obtain ⟨A, hA, huniq⟩ := hdet
  have h1 := hC c W n r ⟨A, hA⟩
  have h2 := hC c (permuteD p W) ((invPerm p).getD n 0) r ⟨A, by rw [eZ, eM]; exact hA⟩
  rw [eZ, eM] at h2
  rw [huniq _ h1, huniq _ h2]

theorem rankAt_relabel {p : List Nat} {d : Nat} (hp : isPermOf p d = true) (R : List Nat) (hR : R.length = d) {n r : Nat}
    (hn : n < d) (h : rankAt R n = .ok r) : rankAt (gather R p) ((invPerm p).getD n 0) = .ok r := by
  have hpl := isPermOf_length_eq hp
  have hqn := isPermOf_invPerm_getD_lt hp hn
  have hr := rankAt_ok h
  unfold rankAt
  have : (gather R p)[(invPerm p).getD n 0]? = some r := by
    have hlt : (invPerm p).getD n 0 < (gather R p).length := by rw [length_gather, hpl]; exact hqn
    rw [List.getElem?_eq_getElem hlt]
    have := getD_gather R p _ (by rw [hpl]; exact hqn)
    rw [getD0_of_lt _ _ hlt, getD_invPerm_getD hp hn] at this
    rw [this, hr]
  rw [this]

/-- what the mode loop keeps true of its state -/
structure SwOK (d : Nat) (st : SweepSt ℝ) : Prop where
  ul : st.U.length = d
  ut : ∀ Ut n, st.Utilde = some (Ut, n) → Ut.shape.length = d ∧ n < d

/-- **One pass of `for n in dimorder`** of the second run is the pass of the first, relabelled. -/
theorem sweepStep_relabel {nvecs : Nat → Dense ℝ → Nat → Nat → Mat ℝ} (hC : NvecsSpec nvecs) {p : List Nat} {d : Nat}
    (hp : isPermOf p d = true) (X : Dense ℝ) (hX : X.shape.length = d) (R : List Nat) (hR : R.length = d)
    {st st1 : SweepSt ℝ} (hst : SwOK d st) {n : Nat} (hn : n < d) (hdet : DetStep X R st n)
    (h : sweepStep nvecs X R st n = .ok st1) :
    sweepStep nvecs (permuteD p X) (gather R p) (relabelSw p st) ((invPerm p).getD n 0) = .ok (relabelSw p st1) ∧
    SwOK d st1 := by
  have hpl := isPermOf_length_eq hp
  have hqn := isPermOf_invPerm_getD_lt hp hn
  have hpq : p.getD ((invPerm p).getD n 0) 0 = n := getD_invPerm_getD hp hn
  unfold sweepStep at h ⊢
  simp only [relabelSw]
  cases hU : ttmExcl X st.U n true with
  | error e => rw [hU] at h; cases h
  | ok Ut =>
    rw [hU] at h
    simp only at h
    cases hr : rankAt R n with
    | error e => rw [hr] at h; cases h
    | ok r =>
      rw [hr] at h
      simp only [Except.ok.injEq] at h
      subst h
      have hUtl : Ut.shape.length = d := by
        have := (ttmExcl_ok (by rw [hst.ul, hX]) hU).2
        rw [this, ttmFold_shape_length, hX]
      rw [ttmExcl_relabel hp X Ut st.U hX hst.ul true hU, rankAt_relabel hp R hR hn hr]
      simp only
      rw [nvecs_relabel hC hp st.calls Ut hUtl hn r (hdet Ut r hU hr),
        CpAls.gatherD_set hp st.U hst.ul [] _ hqn, hpq]
      refine ⟨rfl, ⟨by simp [hst.ul], fun Ut' n' he => ?_⟩⟩
      simp only [Option.some.injEq, Prod.mk.injEq] at he
      obtain ⟨rfl, rfl⟩ := he
      exact ⟨hUtl, hn⟩

theorem foldlM_sweepStep_relabel {nvecs : Nat → Dense ℝ → Nat → Nat → Mat ℝ} (hC : NvecsSpec nvecs) {p : List Nat} {d : Nat}
    (hp : isPermOf p d = true) (X : Dense ℝ) (hX : X.shape.length = d) (R : List Nat) (hR : R.length = d)
    (order : List Nat) (horder : ∀ n ∈ order, n < d) {st st1 : SweepSt ℝ} (hst : SwOK d st)
    (hdet : DetSweep nvecs X R order st) (h : order.foldlM (sweepStep nvecs X R) st = .ok st1) :
    (qmap p order).foldlM (sweepStep nvecs (permuteD p X) (gather R p)) (relabelSw p st) = .ok (relabelSw p st1) ∧
    SwOK d st1 := by
  induction order generalizing st with
  | nil =>
    simp only [List.foldlM_nil, pure, Except.pure, Except.ok.injEq] at h
    subst h
    exact ⟨rfl, hst⟩
  | cons n rest ih =>
    rw [List.foldlM_cons] at h
    cases hs : sweepStep nvecs X R st n with
    | error e => rw [hs] at h; cases h
    | ok s2 =>
      rw [hs] at h
      obtain ⟨r1, r2⟩ := sweepStep_relabel hC hp X hX R hR hst (horder n (List.mem_cons_self ..)) hdet.1 hs
      obtain ⟨r3, r4⟩ := ih (fun m hm => horder m (List.mem_cons_of_mem _ hm)) r2 (hdet.2 s2 hs) h
      refine ⟨?_, r4⟩
      show ((invPerm p).getD n 0 :: qmap p rest).foldlM _ _ = _
      rw [List.foldlM_cons, r1]
      exact r3

theorem ttmDims_single_ok {T G : Dense ℝ} {U : List (Mat ℝ)} {d n : Nat} (hT : T.shape.length = d) (hU : U.length = d)
    (hn : n < d) {tr : Bool} (h : ttmDims T U [n] tr = .ok G) : G.WF ∧ G.shape.length = d := by
  have hG := (ttmDims_ok h).1
  have hne : ttmPairs U [n] ≠ [] := by
    unfold ttmPairs; split <;> simp
  have hl : (ttmPairs U [n]).length = 1 := by
    unfold ttmPairs; split <;> simp
  match hp : ttmPairs U [n], hl with
  | [z], _ =>
    rw [hp] at hG
    rw [hG]
    exact ⟨ttmT_WF _ _ _ _, by rw [ttmFold_shape_length, hT]⟩

/-- **The sweep and the core.** -/
theorem sweep_relabel {nvecs : Nat → Dense ℝ → Nat → Nat → Mat ℝ} (hC : NvecsSpec nvecs) {p : List Nat} {d : Nat}
    (hp : isPermOf p d = true) (X : Dense ℝ) (hX : X.shape.length = d) (R : List Nat) (hR : R.length = d)
    (order : List Nat) (horder : ∀ n ∈ order, n < d) (U : List (Mat ℝ)) (hU : U.length = d) (calls : Nat)
    (hdet : DetSweep nvecs X R order ⟨U, none, calls⟩) {U1 : List (Mat ℝ)} {core : Dense ℝ} {calls1 : Nat}
    (h : sweep nvecs X R order U calls = .ok (U1, core, calls1)) :
    sweep nvecs (permuteD p X) (gather R p) (qmap p order) (gatherD U p []) calls =
      .ok (gatherD U1 p [], permuteD p core, calls1) ∧ U1.length = d ∧ core.WF ∧ core.shape.length = d := by
  unfold sweep at h ⊢
  cases hf : order.foldlM (sweepStep nvecs X R) ⟨U, none, calls⟩ with
  | error e => rw [hf] at h; cases h
  | ok st =>
    rw [hf] at h
    obtain ⟨r1, r2⟩ := foldlM_sweepStep_relabel hC hp X hX R hR order horder
      (st := ⟨U, none, calls⟩) ⟨hU, fun _ _ he => by cases he⟩ hdet hf
    have e0 : relabelSw p ⟨U, none, calls⟩ = ⟨gatherD U p [], none, calls⟩ := rfl
    rw [e0] at r1
    rw [r1]
    obtain ⟨Us, Ut, cs⟩ := st
    cases Ut with
    | none => cases h
    | some z =>
      obtain ⟨Ut, n⟩ := z
      simp only at h
      obtain ⟨hUt, hn⟩ := r2.ut Ut n rfl
      cases hc : ttmDims Ut Us [n] true with
      | error e => rw [hc] at h; cases h
      | ok G =>
        rw [hc] at h
        simp only [Except.ok.injEq, Prod.mk.injEq] at h
        obtain ⟨rfl, rfl, rfl⟩ := h
        simp only [relabelSw, Option.map_some]
        rw [ttmDims_single_relabel hp Ut G Us hUt r2.ul hn true hc]
        exact ⟨rfl, r2.ul, ttmDims_single_ok hUt r2.ul hn hc⟩

/-! ## 3. the iteration, the start, the run -/

theorem tnorm_permuteD {p : List Nat} (T : Dense ℝ) (hT : T.WF) (hp : isPermOf p T.shape.length = true) :
    tnorm realOps (permuteD p T) = tnorm realOps T := by
  simp only [tnorm, normSq_permuteD T hT hp]

/-- **The iteration**: the same fits, residuals and stop decisions; factors relabelled, cores permuted. -/
theorem iterate_relabel {nvecs : Nat → Dense ℝ → Nat → Nat → Mat ℝ} (hC : NvecsSpec nvecs) {p : List Nat} {d : Nat}
    (hp : isPermOf p d = true) (X : Dense ℝ) (hX : X.shape.length = d) (normX stoptol : ℝ) (R : List Nat)
    (hR : R.length = d) (order : List Nat) (horder : ∀ n ∈ order, n < d) :
    ∀ (fuel it : Nat) (U : List (Mat ℝ)) (fitold : ℝ) (calls : Nat) (recs : List (IterRec ℝ)), U.length = d →
      DetIter nvecs X R order fuel U calls →
      iterate realOps nvecs X normX stoptol R order fuel it U fitold calls = .ok recs →
      iterate realOps nvecs (permuteD p X) normX stoptol (gather R p) (qmap p order) fuel it (gatherD U p []) fitold calls =
        .ok (recs.map (relabelIter p)) ∧ ∀ r ∈ recs, r.factors.length = d := by
  intro fuel
  induction fuel with
  | zero =>
    intro it U fitold calls recs _ _ h
    simp only [iterate, Except.ok.injEq] at h ⊢
    subst h; exact ⟨rfl, fun r hr => by cases hr⟩
  | succ fuel ih =>
    intro it U fitold calls recs hU hdet h
    unfold iterate at h ⊢
    cases hs : sweep nvecs X R order U calls with
    | error e => rw [hs] at h; cases h
    | ok t =>
      obtain ⟨U1, core, calls1⟩ := t
      rw [hs] at h
      obtain ⟨r1, hU1, hcw, hcl⟩ := sweep_relabel hC hp X hX R hR order horder U hU calls hdet.1 hs
      rw [r1]
      simp only at h ⊢
      rw [tnorm_permuteD core hcw (by rw [hcl]; exact hp)]
      by_cases hstop : Gen.stopTest realOps (Gen.fitchange realOps fitold
          (Gen.fit realOps (Gen.normresidual realOps normX (tnorm realOps core)) normX)) stoptol = true
      · rw [if_pos hstop] at h ⊢
        simp only [Except.ok.injEq] at h ⊢
        subst h
        refine ⟨rfl, fun r hr => ?_⟩
        simp only [List.mem_singleton] at hr
        subst hr; exact hU1
      · rw [if_neg hstop] at h ⊢
        cases hi : iterate realOps nvecs X normX stoptol R order fuel (it + 1) U1
            (Gen.fit realOps (Gen.normresidual realOps normX (tnorm realOps core)) normX) calls1 with
        | error e => rw [hi] at h; cases h
        | ok rest =>
          rw [hi] at h
          simp only [Except.ok.injEq] at h
          subst h
          obtain ⟨q1, q2⟩ := ih (it + 1) U1 _ calls1 rest hU1 (hdet.2 U1 core calls1 hs) hi
          rw [q1]
          refine ⟨rfl, fun r hr => ?_⟩
          rcases List.mem_cons.1 hr with rfl | hr'
          · exact hU1
          · exact q2 r hr'

theorem checkInitShape_relabel {p : List Nat} {d : Nat} (hp : isPermOf p d = true) (X : Dense ℝ) (hX : X.shape.length = d)
    (R : List Nat) (hR : R.length = d) (Us : List (Mat ℝ)) {n : Nat} (hn : n < d)
    (h : checkInitShape X R Us n = .ok ()) :
    checkInitShape (permuteD p X) (gather R p) (gatherD Us p []) ((invPerm p).getD n 0) = .ok () := by
  have hpl := isPermOf_length_eq hp
  have hqn := isPermOf_invPerm_getD_lt hp hn
  have hpq : p.getD ((invPerm p).getD n 0) 0 = n := getD_invPerm_getD hp hn
  unfold checkInitShape at h ⊢
  cases hr : rankAt R n with
  | error e => rw [hr] at h; cases h
  | ok r =>
    rw [hr] at h
    rw [rankAt_relabel hp R hR hn hr]
    simp only at h ⊢
    rw [CpAls.getD_gatherD _ _ _ (by rw [hpl]; exact hqn), permuteD_shape, getD_gather _ _ _ (by rw [hpl]; exact hqn), hpq]
    exact h

theorem mapM_checkInit_relabel {p : List Nat} {d : Nat} (hp : isPermOf p d = true) (X : Dense ℝ) (hX : X.shape.length = d)
    (R : List Nat) (hR : R.length = d) (Us : List (Mat ℝ)) (l : List Nat) (hl : ∀ n ∈ l, n < d) {us : List Unit}
    (h : l.mapM (checkInitShape X R Us) = .ok us) :
    ∃ us', (qmap p l).mapM (checkInitShape (permuteD p X) (gather R p) (gatherD Us p [])) = .ok us' := by
  induction l generalizing us with
  | nil => exact ⟨[], rfl⟩
  | cons n rest ih =>
    rw [List.mapM_cons] at h
    cases h1 : checkInitShape X R Us n with
    | error e => rw [h1] at h; cases h
    | ok u =>
      rw [h1] at h
      cases h2 : rest.mapM (checkInitShape X R Us) with
      | error e => rw [h2] at h; cases h
      | ok us2 =>
        obtain ⟨us', hus'⟩ := ih (fun m hm => hl m (List.mem_cons_of_mem _ hm)) h2
        refine ⟨() :: us', ?_⟩
        show ((invPerm p).getD n 0 :: qmap p rest).mapM _ = _
        rw [List.mapM_cons, checkInitShape_relabel hp X hX R hR Us (hl n (List.mem_cons_self ..)) h1, hus']
        rfl

theorem fillInit_relabel {p : List Nat} {d : Nat} (hp : isPermOf p d = true) (R : List Nat) (hR : R.length = d)
    (svc svc' : Nat → Nat → Nat → Mat ℝ)
    (hsvc : ∀ c n r, n < d → svc' c ((invPerm p).getD n 0) r = svc c n r) :
    ∀ (l : List Nat), (∀ n ∈ l, n < d) → ∀ (st st1 : List (Mat ℝ) × Nat), st.1.length = d →
      l.foldlM (fillInit svc R) st = .ok st1 →
      (qmap p l).foldlM (fillInit svc' (gather R p)) (gatherD st.1 p [], st.2) = .ok (gatherD st1.1 p [], st1.2) := by
  intro l
  induction l with
  | nil =>
    intro _ st st1 _ h
    simp only [List.foldlM_nil, pure, Except.pure, Except.ok.injEq] at h
    subst h; rfl
  | cons n rest ih =>
    intro hl st st1 hst h
    have hn := hl n (List.mem_cons_self ..)
    have hqn := isPermOf_invPerm_getD_lt hp hn
    rw [List.foldlM_cons] at h
    cases hf : fillInit svc R st n with
    | error e => rw [hf] at h; cases h
    | ok s2 =>
      rw [hf] at h
      unfold fillInit at hf
      cases hr : rankAt R n with
      | error e => rw [hr] at hf; cases hf
      | ok r =>
        rw [hr] at hf
        simp only [Except.ok.injEq] at hf
        subst hf
        have := ih (fun m hm => hl m (List.mem_cons_of_mem _ hm)) _ st1 (by simp [hst]) h
        show ((invPerm p).getD n 0 :: qmap p rest).foldlM _ _ = _
        rw [List.foldlM_cons]
        unfold fillInit
        rw [rankAt_relabel hp R hR hn hr]
        simp only
        rw [hsvc st.2 n r hn, CpAls.gatherD_set hp st.1 hst [] _ hqn, getD_invPerm_getD hp hn]
        exact this

/-- For `init = "nvecs"` the start is an answer of the service about the data; there (only) the relation between
the two starts is a hypothesis. -/
def InitRelabelOK (nvecs : Nat → Dense ℝ → Nat → Nat → Mat ℝ) (p : List Nat) (X : Dense ℝ) : Init ℝ → Prop
  | .list _ => True
  | .str s => (s.toLower == "nvecs" || s.toLower == "eigs") = true →
      ∀ c n r, n < X.shape.length → nvecs c (permuteD p X) ((invPerm p).getD n 0) r = nvecs c X n r

theorem qmap_tail (p : List Nat) (l : List Nat) : (qmap p l).tail = qmap p l.tail := by
  cases l <;> rfl

theorem initGuess_relabel {nvecs : Nat → Dense ℝ → Nat → Nat → Mat ℝ} (uniform : Nat → Nat → Nat → Mat ℝ) {p : List Nat}
    {d : Nat} (hp : isPermOf p d = true) (X : Dense ℝ) (hX : X.shape.length = d) (R : List Nat) (hR : R.length = d)
    (order : List Nat) (horder : ∀ n ∈ order, n < d) (init : Init ℝ) (hinit : InitRelabelOK nvecs p X init)
    {Uinit : List (Mat ℝ)} {calls : Nat} (h : initGuess nvecs uniform X R order init = .ok (Uinit, calls)) :
    initGuess nvecs uniform (permuteD p X) (gather R p) (qmap p order) (relabelTInit p init) =
      .ok (gatherD Uinit p [], calls) := by
  have hpl := isPermOf_length_eq hp
  have htail : ∀ n ∈ order.tail, n < d := fun n hn => horder n (List.mem_of_mem_tail hn)
  have hrepl : gatherD (List.replicate d ([] : Mat ℝ)) p [] = List.replicate d [] := gatherD_replicate hp []
  cases init with
  | list Us =>
    unfold initGuess at h ⊢
    simp only [relabelTInit, permuteD_shape, length_gather, hpl, CpAls.length_gatherD, hX] at h ⊢
    split at h
    · cases h
    rename_i hlen
    rw [if_neg (by simp)]
    cases hm : order.tail.mapM (checkInitShape X R Us) with
    | error e => rw [hm] at h; cases h
    | ok us =>
      rw [hm] at h
      simp only [Except.ok.injEq, Prod.mk.injEq] at h
      obtain ⟨rfl, rfl⟩ := h
      obtain ⟨us', hus'⟩ := mapM_checkInit_relabel hp X hX R hR Us order.tail htail hm
      rw [qmap_tail, hus']
  | str s =>
    unfold initGuess at h ⊢
    simp only [relabelTInit, permuteD_shape, length_gather, hpl, hX] at h ⊢
    by_cases h1 : (s.toLower == "random") = true
    · rw [if_pos h1] at h ⊢
      cases hf : order.tail.foldlM (fillInit (fun c n r => uniform c (X.shape.getD n 0) r) R) (List.replicate d [], 0) with
      | error e => rw [hf] at h; cases h
      | ok st =>
        rw [hf] at h
        simp only [Except.ok.injEq, Prod.mk.injEq] at h
        obtain ⟨rfl, rfl⟩ := h
        have := fillInit_relabel hp R hR (fun c n r => uniform c (X.shape.getD n 0) r)
          (fun c n r => uniform c ((gather X.shape p).getD n 0) r) (fun c n r hn => by
            show uniform c ((gather X.shape p).getD ((invPerm p).getD n 0) 0) r = uniform c (X.shape.getD n 0) r
            rw [getD_gather _ _ _ (by rw [hpl]; exact isPermOf_invPerm_getD_lt hp hn), getD_invPerm_getD hp hn])
          order.tail htail (List.replicate d [], 0) st (by simp) hf
        simp only [hrepl] at this
        rw [qmap_tail, this]
    · rw [if_neg h1] at h ⊢
      by_cases h2 : (s.toLower == "nvecs" || s.toLower == "eigs") = true
      · rw [if_pos h2] at h ⊢
        have := fillInit_relabel hp R hR (fun c n r => nvecs c X n r)
          (fun c n r => nvecs c (permuteD p X) n r) (fun c n r hn => hinit h2 c n r (by rw [hX]; exact hn))
          order.tail htail (List.replicate d [], 0) (Uinit, calls) (by simp) h
        simp only [hrepl] at this
        rw [qmap_tail, this]
      · rw [if_neg h2] at h; cases h

theorem parseRank_of_length (l : List Nat) (N : Nat) (h : l.length = N) : parseRank l N = l := by
  unfold parseRank
  match l, h with
  | [r], h => simp at h; subst h; rfl
  | [], _ => rfl
  | _ :: _ :: _, _ => rfl

/-- **Whole-run mode relabelling of Tucker-ALS** (lemma form; see `C18_relabel_tucker_run`). -/
theorem tuckerAlsRun_relabel {nvecs : Nat → Dense ℝ → Nat → Nat → Mat ℝ} (hC : NvecsSpec nvecs)
    (uniform : Nat → Nat → Nat → Mat ℝ) {p : List Nat} (X : Dense ℝ) (hX : X.WF)
    (hp : isPermOf p X.shape.length = true) (rank : List Nat) (stoptol : ℝ) (maxiters : Int)
    (dimorder : Option (List Nat)) (init : Init ℝ) (hinit : InitRelabelOK nvecs p X init)
    (hdet : DetRun nvecs uniform X rank maxiters dimorder init) {out : TaOut ℝ} {recs : List (IterRec ℝ)}
    (h : tuckerAlsRun realOps nvecs uniform X rank stoptol maxiters dimorder init = .ok (out, recs)) :
    tuckerAlsRun realOps nvecs uniform (permuteD p X) (gather (parseRank rank X.shape.length) p) stoptol maxiters
        (some (qmap p (modeOrder dimorder X.shape.length))) (relabelTInit p init) =
      .ok (relabelOut p out, recs.map (relabelIter p)) := by
  have hpl := isPermOf_length_eq hp
  obtain ⟨hR, hR1, hR2⟩ := tuckerAlsRun_ranks h
  obtain ⟨hpos, hperm, Uinit, calls, r, hig, hit, hlast, hsol, hui, hiters, hnr, hfit⟩ := tuckerAlsRun_ok h
  have horder : ∀ n ∈ modeOrder dimorder X.shape.length, n < X.shape.length := fun n hn => isPermOf_lt_of_mem hperm hn
  have hig' := initGuess_relabel uniform hp X rfl _ hR _ horder init hinit hig
  obtain ⟨hit', hfl⟩ := iterate_relabel hC hp X rfl (tnorm realOps X) stoptol _ hR _ horder maxiters.toNat 0 Uinit 0 calls recs
    (initGuess_length hig) (hdet Uinit calls hig) hit
  have hrl : r.factors.length = X.shape.length := hfl r (List.mem_of_getLast? hlast)
  -- the Tucker tensor of the first run
  have hm : mkTtensor r.core r.factors = .ok out.solution := by
    unfold tuckerAlsRun at h
    simp only at h
    split at h
    · cases h
    split at h
    · cases h
    split at h
    · cases h
    split at h
    · cases h
    rw [hig] at h
    simp only at h
    rw [hit] at h
    simp only at h
    rw [hlast] at h
    simp only at h
    cases hmk : mkTtensor r.core r.factors with
    | error e => rw [hmk] at h; cases h
    | ok T =>
      rw [hmk] at h
      simp only [Except.ok.injEq, Prod.mk.injEq] at h
      rw [← h.1]
  have hm' := mkTtensor_relabel hp r.core r.factors hrl hm
  have hgl : (gather (parseRank rank X.shape.length) p).length = X.shape.length := by rw [length_gather, hpl]
  have hany : (gather (parseRank rank X.shape.length) p).any (fun r => decide (r < 1)) = false := by
    rw [List.any_eq_false]
    intro x hx
    simp only [gather, List.mem_map] at hx
    obtain ⟨k, hk, rfl⟩ := hx
    have hk' := isPermOf_lt_of_mem hp hk
    have : (parseRank rank X.shape.length).getD k 0 ∈ parseRank rank X.shape.length :=
      getD0_mem _ _ (by rw [hR]; exact hk')
    have := hR1 _ this
    simp only [decide_eq_true_eq, not_lt]
    exact this
  have hexc : ranksExceed (gather (parseRank rank X.shape.length) p) (gather X.shape p) = false :=
    ranksExceed_relabel hp _ _ rfl (ranksExceed_false.2 hR2)
  have hmo : ∀ o d, modeOrder (some o) d = o := fun _ _ => rfl
  unfold tuckerAlsRun
  simp only [permuteD_shape, length_gather, hpl, parseRank_of_length _ _ hgl, hmo,
    tnorm_permuteD X hX hp]
  rw [if_neg (by omega), if_neg (by simp [hpl]), if_neg (by rw [hany, hexc]; simp), if_neg (by
    rw [CpAls.isPermOf_qmap hp hperm]; simp), hig']
  simp only
  rw [hit']
  simp only [List.getLast?_map, hlast, Option.map_some, relabelIter]
  rw [hm']
  simp only [relabelOut, hsol, hui, hiters, hnr, hfit]

end Tk
end Pyttb
