/-
C04, dense class: one step and whole histories over the accepted operations.
-/
import PyttbModel.Lemmas.MutArrayDenseList
set_option linter.unusedSimpArgs false
set_option linter.unusedVariables false
set_option linter.unusedSectionVars false

namespace Pyttb

variable {α : Type}

/-! ### one step and whole histories -/

/-- The operations of the property's domain for the dense class, at a state of shape `s`:
subscript arrays (any right-hand side), linear keys (on a tensor of order ≥ 1) and non-empty
region keys of integers and slices, or with ONE index list in a position where NumPy's
advanced indexing is the rectangular region (`listPatternN`: the list comes after integers
only, or after slices and integers with all integers next to it); region writes take a
scalar, or an array / tensor that has exactly the shape of the region; a region read with an
index list has no empty list and a tensor result for the class (`listReadOk`).
Not contained: the forms of known finding K04 (several index lists; an integer separated
from the list by a slice with a slice in front of the list). -/
def IdxOp.acceptedAt (s : List Nat) : IdxOp α → Bool
  | .write (.region parts) rhs =>
    !parts.isEmpty && rhsFits s parts rhs && (parts.all RPart.simple || listKeyOk true s parts)
  | .write (.subs _) _ => true
  | .write _ _ => !s.isEmpty
  | .read (.region parts) => !parts.isEmpty && (parts.all RPart.simple || listReadOk s parts)
  | .read (.subs _) => true
  | .read _ => !s.isEmpty

/-- Every operation of the history is of a proved form at the state it is applied to. -/
def AcceptedHist [Zero α] : MArr α → List (IdxOp α) → Prop
  | _, [] => True
  | m, op :: ops => op.acceptedAt m.shape = true ∧ AcceptedHist (m.step op).1 ops

theorem Dense.setItem_refines [Zero α] {T : Dense α} {m : MArr α} (h : DRel T m) (key : Key) (rhs : Rhs α)
    (hp : (IdxOp.write key rhs).acceptedAt T.shape = true) : RefW (T.setItem key rhs) (m.write key rhs) := by
  apply RefW.of_eq h
  cases key with
  | subs rows => exact Dense.setSubscripts_eq T rows rhs
  | region parts =>
    simp only [IdxOp.acceptedAt, Bool.and_eq_true, Bool.or_eq_true, Bool.not_eq_true',
      List.isEmpty_eq_false_iff] at hp
    rcases hp.2 with hs | hl
    · exact Dense.setSubtensor_eq T parts rhs hs hp.1.1 hp.1.2
    · exact Dense.setSubtensor_list_eq T parts rhs hp.1.1 hl hp.1.2
  | lin i =>
    have hs : T.shape ≠ [] := by simpa [IdxOp.acceptedAt] using hp
    show T.setLinear (.lin i) rhs = _
    exact Dense.setLinear_eq T hs (.lin i) rhs (by intro r; simp) (by intro r; simp)
  | linSlice a b c =>
    have hs : T.shape ≠ [] := by simpa [IdxOp.acceptedAt] using hp
    show T.setLinear (.linSlice a b c) rhs = _
    exact Dense.setLinear_eq T hs (.linSlice a b c) rhs (by intro r; simp) (by intro r; simp)
  | linList is =>
    have hs : T.shape ≠ [] := by simpa [IdxOp.acceptedAt] using hp
    show T.setLinear (.linList is) rhs = _
    exact Dense.setLinear_eq T hs (.linList is) rhs (by intro r; simp) (by intro r; simp)

theorem Dense.getItem_refines [Zero α] {T : Dense α} {m : MArr α} (h : DRel T m) (key : Key)
    (hp : (IdxOp.read key : IdxOp α).acceptedAt T.shape = true) : T.getItem key = m.read key := by
  cases key with
  | subs rows => exact Dense.getItem_subs h rows
  | region parts =>
    simp only [IdxOp.acceptedAt, Bool.and_eq_true, Bool.or_eq_true, Bool.not_eq_true',
      List.isEmpty_eq_false_iff] at hp
    rcases hp.2 with hs | hl
    · exact Dense.getItem_region h parts hs hp.1
    · exact Dense.getItem_region_list h parts hp.1 hl
  | lin i =>
    have hs : T.shape ≠ [] := by simpa [IdxOp.acceptedAt] using hp
    exact Dense.getItem_linear h hs (.lin i) (by intro r; simp) (by intro r; simp)
  | linSlice a b c =>
    have hs : T.shape ≠ [] := by simpa [IdxOp.acceptedAt] using hp
    exact Dense.getItem_linear h hs (.linSlice a b c) (by intro r; simp) (by intro r; simp)
  | linList is =>
    have hs : T.shape ≠ [] := by simpa [IdxOp.acceptedAt] using hp
    exact Dense.getItem_linear h hs (.linList is) (by intro r; simp) (by intro r; simp)

/-- One operation on related states: equal output (value read / written / rejected) and
related states afterwards. -/
theorem Dense.step_refines [Zero α] {T : Dense α} {m : MArr α} (h : DRel T m) (op : IdxOp α)
    (hp : op.acceptedAt T.shape = true) :
    DRel (T.step op).1 (m.step op).1 ∧ (T.step op).2 = (m.step op).2 := by
  cases op with
  | write key rhs =>
    have hr := Dense.setItem_refines h key rhs hp
    simp only [Dense.step, MArr.step]
    cases h1 : T.setItem key rhs with
    | error e =>
      cases h2 : m.write key rhs with
      | error e' => exact ⟨h, rfl⟩
      | ok m' => rw [h1, h2] at hr; exact absurd hr (by simp [RefW])
    | ok T' =>
      cases h2 : m.write key rhs with
      | error e' => rw [h1, h2] at hr; exact absurd hr (by simp [RefW])
      | ok m' => rw [h1, h2] at hr; exact ⟨hr, rfl⟩
  | read key =>
    have hr := Dense.getItem_refines h key hp
    simp only [Dense.step, MArr.step, hr]
    cases m.read key with
    | error e => exact ⟨h, rfl⟩
    | ok v => exact ⟨h, rfl⟩

/-- Any history: the dense tensor and the abstract array stay related and every step
returns the same output. -/
theorem Dense.run_refines [Zero α] {T : Dense α} {m : MArr α} (h : DRel T m) (ops : List (IdxOp α))
    (hp : AcceptedHist m ops) :
    DRel (T.run ops).1 (m.run ops).1 ∧ (T.run ops).2 = (m.run ops).2 := by
  induction ops generalizing T m with
  | nil => exact ⟨h, rfl⟩
  | cons op ops ih =>
    obtain ⟨hp1, hp2⟩ := hp
    have hs := Dense.step_refines h op (by rw [h.shape]; exact hp1)
    have := ih hs.1 hp2
    simp only [Dense.run, MArr.run]
    exact ⟨this.1, by rw [hs.2, this.2]⟩

end Pyttb
