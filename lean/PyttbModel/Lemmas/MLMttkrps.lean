/-
C02 — `tensor.mttkrps`: all `N` matricized products from two partial products, peeled mode by mode
(`mttv_mid` contracts the trailing block, `mttv_left` the leading mode).
-/
import PyttbModel.Lemmas.MLMttkrpW
namespace Pyttb
namespace ML

variable {α : Type}

/-- The modes `lo .. hi-1` of a shape. -/
def midS (s : List Nat) (lo hi : Nat) : List Nat := (s.drop lo).take (hi - lo)

/-- The partial product with the modes `lo .. hi-1` left free: every other mode is contracted with
column `r` of its factor. -/
def PP [CommSemiring α] (T : Dense α) (U : List (Mat α)) (lo hi : Nat) (j : List Nat) (r : Nat) : α :=
  ((allSubs (T.shape.drop hi)).map fun b => ((allSubs (T.shape.take lo)).map fun a =>
    T.get (a ++ j ++ b) * (facProd (U.take lo) a r * facProd (U.drop hi) b r)).sum).sum

theorem midS_cons (s : List Nat) (lo hi : Nat) (h1 : lo < hi) (h2 : hi ≤ s.length) :
    midS s lo hi = s.getD lo 0 :: midS s (lo + 1) hi := by
  unfold midS
  have hlo : lo < s.length := by omega
  rw [List.drop_eq_getElem_cons hlo, show hi - lo = (hi - (lo + 1)) + 1 by omega, List.take_succ_cons,
    List.getD_eq_getElem?_getD, List.getElem?_eq_getElem hlo]
  rfl

theorem midS_single (s : List Nat) (lo : Nat) (h : lo < s.length) : midS s lo (lo + 1) = [s.getD lo 0] := by
  rw [midS_cons s lo (lo + 1) (by omega) (by omega)]
  unfold midS; simp

theorem take_succ_eq (s : List Nat) (lo : Nat) (h : lo < s.length) : s.take (lo + 1) = s.take lo ++ [s.getD lo 0] := by
  rw [List.take_succ, List.getD_eq_getElem?_getD, List.getElem?_eq_getElem h]; rfl

theorem drop_eq_mid_append (s : List Nat) (lo hi : Nat) (h1 : lo ≤ hi) :
    s.drop lo = midS s lo hi ++ s.drop hi := by
  unfold midS
  have : s.drop hi = (s.drop lo).drop (hi - lo) := by rw [List.drop_drop]; congr 1; omega
  rw [this, List.take_append_drop]

theorem facProd_append [CommSemiring α] (A B : List (Mat α)) (a b : List Nat) (r : Nat) (h : A.length = a.length) :
    facProd (A ++ B) (a ++ b) r = facProd A a r * facProd B b r := by
  unfold facProd
  rw [List.zipWith_append h, List.prod_append]

theorem facProd_single [CommSemiring α] (M : Mat α) (x r : Nat) : facProd [M] [x] r = M.get x r := by
  simp [facProd]

/-- Lemma B: contracting the leading free mode. -/
theorem PP_left [CommSemiring α] (T : Dense α) (U : List (Mat α)) (lo hi : Nat) (j' : List Nat) (r : Nat)
    (hlo : lo < T.shape.length) (hU : U.length = T.shape.length) :
    sumRange (T.shape.getD lo 0) (fun x => PP T U lo hi (x :: j') r * (U.getD lo []).get x r) =
      PP T U (lo + 1) hi j' r := by
  unfold PP sumRange
  rw [take_succ_eq T.shape lo hlo]
  have hUt : U.take (lo + 1) = U.take lo ++ [U.getD lo []] := by
    rw [List.take_succ, List.getD_eq_getElem?_getD, List.getElem?_eq_getElem (hU ▸ hlo)]; rfl
  rw [hUt]
  -- right-hand side: split the last coordinate of the leading block off
  have hR : ∀ b, ((allSubs (T.shape.take lo ++ [T.shape.getD lo 0])).map fun a =>
      T.get (a ++ j' ++ b) * (facProd (U.take lo ++ [U.getD lo []]) a r * facProd (U.drop hi) b r)).sum =
      ((List.range (T.shape.getD lo 0)).map fun x => ((allSubs (T.shape.take lo)).map fun a =>
        T.get (a ++ (x :: j') ++ b) * (facProd (U.take lo) a r * facProd (U.drop hi) b r) * (U.getD lo []).get x r).sum).sum := by
    intro b
    rw [sum_allSubs_snoc]
    apply sum_congr
    intro x _
    apply sum_congr
    intro a ha
    have hal : (U.take lo).length = a.length := by
      rw [(mem_allSubs.1 ha).length_eq, List.length_take, List.length_take, hU]
    rw [facProd_append _ _ _ _ _ hal, facProd_single]
    have : a ++ [x] ++ j' ++ b = a ++ (x :: j') ++ b := by simp
    rw [this]
    ring
  rw [List.map_congr_left (fun b _ => hR b)]
  -- left-hand side: distribute and swap
  have hL : ∀ x, ((allSubs (T.shape.drop hi)).map fun b => ((allSubs (T.shape.take lo)).map fun a =>
      T.get (a ++ (x :: j') ++ b) * (facProd (U.take lo) a r * facProd (U.drop hi) b r)).sum).sum *
        (U.getD lo []).get x r =
      ((allSubs (T.shape.drop hi)).map fun b => ((allSubs (T.shape.take lo)).map fun a =>
        T.get (a ++ (x :: j') ++ b) * (facProd (U.take lo) a r * facProd (U.drop hi) b r) * (U.getD lo []).get x r).sum).sum := by
    intro x
    rw [← List.sum_map_mul_right]
    apply sum_congr
    intro b _
    rw [← List.sum_map_mul_right]
  rw [List.map_congr_left (fun x _ => hL x), sum_comm]

/-- Lemma C: contracting the trailing free modes. -/
theorem PP_mid [CommSemiring α] (T : Dense α) (U : List (Mat α)) (lo hi : Nat) (i r : Nat)
    (h1 : lo + 1 ≤ hi) (h2 : hi ≤ T.shape.length) (hU : U.length = T.shape.length) :
    ((allSubs (midS T.shape (lo + 1) hi)).map fun c =>
      PP T U lo hi (i :: c) r * facProd ((U.drop (lo + 1)).take (hi - (lo + 1))) c r).sum =
      PP T U lo (lo + 1) [i] r := by
  unfold PP
  rw [drop_eq_mid_append T.shape (lo + 1) hi h1, sum_allSubs_append]
  have hUd : U.drop (lo + 1) = (U.drop (lo + 1)).take (hi - (lo + 1)) ++ U.drop hi := by
    have : U.drop hi = (U.drop (lo + 1)).drop (hi - (lo + 1)) := by rw [List.drop_drop]; congr 1; omega
    rw [this, List.take_append_drop]
  -- right: Σ_b Σ_c Σ_a ; left: Σ_c (Σ_b Σ_a) * FP c
  have hR : ∀ b, ((allSubs (midS T.shape (lo + 1) hi)).map fun c => ((allSubs (T.shape.take lo)).map fun a =>
      T.get (a ++ [i] ++ (c ++ b)) * (facProd (U.take lo) a r * facProd (U.drop (lo + 1)) (c ++ b) r)).sum).sum =
      ((allSubs (midS T.shape (lo + 1) hi)).map fun c => ((allSubs (T.shape.take lo)).map fun a =>
        T.get (a ++ (i :: c) ++ b) * (facProd (U.take lo) a r * facProd (U.drop hi) b r) *
          facProd ((U.drop (lo + 1)).take (hi - (lo + 1))) c r).sum).sum := by
    intro b
    apply sum_congr
    intro c hc
    apply sum_congr
    intro a _
    have hcl : ((U.drop (lo + 1)).take (hi - (lo + 1))).length = c.length := by
      rw [(mem_allSubs.1 hc).length_eq]
      unfold midS
      rw [List.length_take, List.length_take, List.length_drop, List.length_drop, hU]
    have hfp : facProd (U.drop (lo + 1)) (c ++ b) r =
        facProd ((U.drop (lo + 1)).take (hi - (lo + 1))) c r * facProd (U.drop hi) b r := by
      conv_lhs => rw [hUd]
      exact facProd_append _ _ _ _ _ hcl
    have : a ++ [i] ++ (c ++ b) = a ++ (i :: c) ++ b := by simp
    rw [hfp, this]
    ring
  rw [List.map_congr_left (fun b _ => hR b), sum_comm]
  apply sum_congr
  intro c _
  rw [← List.sum_map_mul_right]
  apply sum_congr
  intro b _
  rw [← List.sum_map_mul_right]


/-- What `mttkrps` assumes about its operands: one `s_m × R` factor per mode, positive extents. -/
structure KPre (T : Dense α) (U : List (Mat α)) (R : Nat) : Prop where
  wf : T.WF
  len : U.length = T.shape.length
  rows : ∀ m, m < T.shape.length → (U.getD m []).length = T.shape.getD m 0
  cols : ∀ m, m < T.shape.length → ∀ row ∈ U.getD m [], row.length = R
  pos : ∀ e ∈ T.shape, 0 < e

theorem KPre.map_length {T : Dense α} {U : List (Mat α)} {R : Nat} (H : KPre T U R) :
    U.map List.length = T.shape := by
  apply List.ext_getElem
  · simp [H.len]
  · intro m h1 h2
    have := H.rows m h2
    rw [List.getD_eq_getElem?_getD, List.getElem?_eq_getElem (by rw [H.len]; exact h2),
      List.getD_eq_getElem?_getD, List.getElem?_eq_getElem h2] at this
    simpa using this

/-- Facts about a block `U[lo:hi]` of the factor list. -/
theorem KPre.block {T : Dense α} {U : List (Mat α)} {R : Nat} (H : KPre T U R) (lo hi : Nat)
    (h1 : lo < hi) (h2 : hi ≤ T.shape.length) :
    ((U.drop lo).take (hi - lo)) ≠ [] ∧
    (∀ M ∈ (U.drop lo).take (hi - lo), ∀ row ∈ M, row.length = R) ∧
    (∀ M ∈ (U.drop lo).take (hi - lo), 0 < M.length) ∧
    ((U.drop lo).take (hi - lo)).map List.length = midS T.shape lo hi := by
  have hmem : ∀ M ∈ (U.drop lo).take (hi - lo), ∃ m, m < T.shape.length ∧ M = U.getD m [] := by
    intro M hM
    have hMU : M ∈ U := List.mem_of_mem_drop (List.mem_of_mem_take hM)
    obtain ⟨m, hm, rfl⟩ := List.getElem_of_mem hMU
    refine ⟨m, by rw [← H.len]; exact hm, ?_⟩
    rw [List.getD_eq_getElem?_getD, List.getElem?_eq_getElem hm]; rfl
  refine ⟨?_, ?_, ?_, ?_⟩
  · intro h
    have := congrArg List.length h
    rw [List.length_take, List.length_drop, H.len] at this
    simp at this; omega
  · intro M hM
    obtain ⟨m, hm, rfl⟩ := hmem M hM
    exact H.cols m hm
  · intro M hM
    obtain ⟨m, hm, rfl⟩ := hmem M hM
    rw [H.rows m hm]
    apply H.pos
    rw [List.getD_eq_getElem?_getD, List.getElem?_eq_getElem hm]
    exact List.getElem_mem _
  · unfold midS
    rw [← H.map_length, List.map_take, List.map_drop]

theorem numel_midS_cons (s : List Nat) (lo hi : Nat) (h1 : lo < hi) (h2 : hi ≤ s.length) :
    numel (midS s lo hi) = s.getD lo 0 * numel (midS s (lo + 1) hi) := by
  rw [midS_cons s lo hi h1 h2, numel_cons]

theorem midS_pos (s : List Nat) (lo hi : Nat) (hpos : ∀ e ∈ s, 0 < e) : ∀ e ∈ midS s lo hi, 0 < e := by
  intro e he
  exact hpos e (List.mem_of_mem_drop (List.mem_of_mem_take he))

/-- **One loop of `mttkrps`**: starting from the partial product with the modes `k .. stop-1` free, the
`fuel` values `V[k], V[k+1], …` and the final `W` are the matricized products of the modes
`k, …, stop-1`. -/
theorem mttkrpsLoop_spec [CommSemiring α] (T : Dense α) (U : List (Mat α)) (R : Nat) (H : KPre T U R)
    (stop : Nat) (hstop : stop ≤ T.shape.length) :
    ∀ (fuel k : Nat) (W : Mat α) (wr : Nat), k + fuel + 1 = stop → wr = numel (midS T.shape k stop) →
      (∀ jj, InBounds (midS T.shape k stop) jj → ∀ r, r < R →
        W.get (sub2ind (midS T.shape k stop) jj) r = PP T U k stop jj r) →
      ∃ Vs Wf, Dense.mttkrpsLoop U R stop fuel k W wr = .ok (Vs, Wf) ∧ Vs.length = fuel ∧
        (∀ t, t < fuel → ∀ i r, i < T.shape.getD (k + t) 0 → r < R →
          (Vs.getD t []).get i r = PP T U (k + t) (k + t + 1) [i] r) ∧
        (∀ i r, i < T.shape.getD (stop - 1) 0 → r < R → Wf.get i r = PP T U (stop - 1) stop [i] r) := by
  intro fuel
  induction fuel with
  | zero =>
    intro k W wr hk _ hW
    refine ⟨[], W, rfl, rfl, fun t ht => absurd ht (by omega), ?_⟩
    intro i r hi hr
    have hks : stop - 1 = k := by omega
    have hk1 : stop = k + 1 := by omega
    rw [hks] at hi ⊢
    have hmid : midS T.shape k stop = [T.shape.getD k 0] := by
      rw [hk1]; exact midS_single T.shape k (by omega)
    have := hW [i] (by rw [hmid]; exact ⟨hi, trivial⟩) r hr
    rw [hmid] at this
    simp only [sub2ind, Nat.mul_zero, Nat.add_zero] at this
    rw [this, hk1]
  | succ fuel ih =>
    intro k W wr hk hwr hW
    have hk1 : k + 1 < stop := by omega
    have hkN : k < T.shape.length := by omega
    set sk := T.shape.getD k 0 with hsk
    set mid' := midS T.shape (k + 1) stop with hmid'
    have hmid : midS T.shape k stop = sk :: mid' := midS_cons T.shape k stop (by omega) hstop
    have hskpos : 0 < sk := by
      apply H.pos
      rw [hsk, List.getD_eq_getElem?_getD, List.getElem?_eq_getElem hkN]
      exact List.getElem_mem _
    have hmidpos : 0 < numel mid' := numel_pos _ (midS_pos _ _ _ H.pos)
    have hwr' : wr = sk * numel mid' := by rw [hwr, hmid, numel_cons]
    -- mttv_mid
    obtain ⟨hne, hR, hposl, hmap⟩ := H.block (k + 1) stop hk1 hstop
    obtain ⟨K, hK, hKl⟩ := kr_exists _ R hne hR hposl
    rw [hmap] at hKl
    have hKpos : 0 < K.length := by rw [hKl]; exact hmidpos
    have hKc : K.ncols = R := ncols_eq K R (kr_rows _ R K hK hR) hKpos
    have hlead : wr / K.length = sk := by
      rw [hwr', hKl]; exact Nat.mul_div_cancel _ hmidpos
    have hUk : (U.getD k []).length = sk := H.rows k hkN
    have hrest : wr / (U.getD k []).length = numel mid' := by
      rw [hUk, hwr']; exact Nat.mul_div_cancel_left _ hskpos
    -- invariant for the next round
    have hW' : ∀ jj, InBounds mid' jj → ∀ r, r < R →
        (mttvLeft W wr (U.getD k []) R).1.get (sub2ind mid' jj) r = PP T U (k + 1) stop jj r := by
      intro jj hjj r hr
      have hrest' : wr / sk = numel mid' := by rw [← hUk]; exact hrest
      unfold mttvLeft
      simp only [hUk, hrest']
      rw [get_tab _ _ _ _ _ (sub2ind_lt hjj) hr, ← PP_left T U k stop jj r hkN H.len]
      apply sumRange_congr
      intro x hx
      have := hW (x :: jj) (by rw [hmid]; exact ⟨hx, hjj⟩) r hr
      rw [hmid] at this
      simp only [sub2ind] at this
      rw [this]
    have hwr2 : (mttvLeft W wr (U.getD k []) R).2 = numel mid' := by
      unfold mttvLeft; simp only [hrest]
    obtain ⟨Vs, Wf, e, hl, hV, hWf⟩ := ih (k + 1) _ _ (by omega) hwr2 hW'
    have hg : ((U.getD k []).length == 0 || wr % (U.getD k []).length != 0) = false := by
      rw [hUk, hwr']
      have : sk * numel mid' % sk = 0 := Nat.mul_mod_right _ _
      simp [this]; omega
    set V0 : Mat α := (List.range sk).map fun a => (List.range R).map fun j =>
          sumRange K.length fun b => W.get (a + sk * b) j * K.get b j with hV0
    have hmidV : mttvMid W wr ((U.drop (k + 1)).take (stop - (k + 1))) = .ok V0 := by
      unfold mttvMid
      have : ((U.drop (k + 1)).take (stop - (k + 1))).isEmpty = false := by
        simpa using hne
      rw [this]
      simp only [Bool.false_eq_true, if_false, hK, hKc, hlead]
      rfl
    refine ⟨V0 :: Vs, Wf, ?_, by simp [hl], ?_, hWf⟩
    · rw [Dense.mttkrpsLoop, hmidV]
      simp only [hg, Bool.false_eq_true, if_false, e]
    · intro t ht i r hi hr
      cases t with
      | zero =>
        simp only [Nat.add_zero] at hi ⊢
        show Mat.get V0 i r = _
        rw [hV0, get_tab _ _ _ _ _ hi hr, ← PP_mid T U k stop i r (by omega) hstop H.len]
        unfold sumRange
        rw [hKl, sum_range_allSubs mid']
        apply sum_congr
        intro c hc
        have hcb := mem_allSubs.1 hc
        have := hW (i :: c) (by rw [hmid]; exact ⟨hi, hcb⟩) r hr
        rw [hmid] at this
        simp only [sub2ind] at this
        rw [this]
        have hke := kr_entry _ R K hK hne hR c (by rw [hmap]; exact hcb) r hr
        rw [hmap] at hke
        rw [hke]
      | succ t =>
        have := hV t (by omega) i r (by rw [show k + 1 + t = k + (t + 1) by omega]; exact hi) hr
        rw [show k + 1 + t = k + (t + 1) by omega] at this
        simpa using this


/-- The specification of `mttkrp` for mode `n` is the partial product with only mode `n` free. -/
theorem spec_mttkrp_PP [CommSemiring α] (T : Dense α) (U : List (Mat α)) (R : Nat) (H : KPre T U R)
    (n i r : Nat) (hn : n < T.shape.length) (hi : i < T.shape.getD n 0) :
    Spec.mttkrp T.den (fun m x c => (U.getD m []).get x c) (fun _ => 1) n i r = PP T U n (n + 1) [i] r := by
  have hs : T.shape = T.shape.take n ++ T.shape.getD n 0 :: T.shape.drop (n + 1) := by
    rw [List.getD_eq_getElem?_getD, List.getElem?_eq_getElem hn]; simp
  have hna : (T.shape.take n).length = n := by rw [List.length_take]; omega
  rw [spec_mttkrp_blocks T U n i r _ _ _ hs hna hi H.len]
  unfold PP
  apply sum_congr
  intro jb _
  apply sum_congr
  intro ja hja
  congr 1
  show _ = T.data.getD (sub2ind T.shape (ja ++ [i] ++ jb)) 0
  have : sub2ind T.shape (ja ++ [i] ++ jb) =
      sub2ind (T.shape.take n ++ T.shape.getD n 0 :: T.shape.drop (n + 1)) (ja ++ (i :: jb)) := by
    rw [← hs]; simp
  rw [this, sub2ind_append _ _ _ _ (mem_allSubs.1 hja).length_eq]
  rfl

theorem midS_zero (s : List Nat) (hi : Nat) : midS s 0 hi = s.take hi := by simp [midS]

theorem midS_to_end (s : List Nat) (lo : Nat) : midS s lo s.length = s.drop lo := by
  unfold midS
  rw [List.take_of_length_le (by simp)]

theorem minSplit_go_bound (ss : List Nat) (hpos : ∀ e ∈ ss, 0 < e) :
    ∀ (mL mR idx idxMin : Nat), mR = numel ss → 1 ≤ mL →
      minSplit.go mL mR idx idxMin ss + 1 < idx + ss.length ∨ minSplit.go mL mR idx idxMin ss = idxMin := by
  induction ss with
  | nil => intro mL mR idx idxMin _ _; right; rfl
  | cons s ss ih =>
    intro mL mR idx idxMin hmR hmL
    have hs : 0 < s := hpos s (List.mem_cons_self ..)
    have hdiv : mR / s = numel ss := by rw [hmR, numel_cons]; exact Nat.mul_div_cancel_left _ hs
    unfold minSplit.go
    simp only [hdiv]
    by_cases hlt : mL < numel ss
    · rw [if_pos hlt]
      have hne : ss ≠ [] := by
        intro h; rw [h] at hlt; simp at hlt; omega
      have hlen : 1 ≤ ss.length := by
        cases ss with
        | nil => exact absurd rfl hne
        | cons _ _ => simp
      rcases ih (fun e he => hpos e (List.mem_cons_of_mem _ he)) (mL * s) (numel ss) (idx + 1) idx rfl
        (Nat.mul_pos hmL hs) with h | h
      · left; simp only [List.length_cons]; omega
      · left; rw [h]; simp only [List.length_cons]; omega
    · rw [if_neg hlt]; right; trivial

theorem minSplit_bound (s : List Nat) (hpos : ∀ e ∈ s, 0 < e) (hN : 2 ≤ s.length) :
    minSplit s + 1 < s.length := by
  cases s with
  | nil => simp at hN
  | cons s0 rest =>
    show minSplit.go s0 (numel rest) 1 0 rest + 1 < _
    rcases minSplit_go_bound rest (fun e he => hpos e (List.mem_cons_of_mem _ he)) s0 (numel rest) 1 0 rfl
      (hpos s0 (List.mem_cons_self ..)) with h | h
    · simp only [List.length_cons]; omega
    · rw [h]; simp only [List.length_cons] at hN ⊢; omega

theorem getD_app_left {β : Type} (l1 l2 : List β) (n : Nat) (d : β) (h : n < l1.length) :
    (l1 ++ l2).getD n d = l1.getD n d := by
  rw [List.getD_eq_getElem?_getD, List.getElem?_append_left h, ← List.getD_eq_getElem?_getD]

theorem getD_app_right {β : Type} (l1 l2 : List β) (n : Nat) (d : β) (h : l1.length ≤ n) :
    (l1 ++ l2).getD n d = l2.getD (n - l1.length) d := by
  rw [List.getD_eq_getElem?_getD, List.getElem?_append_right h, ← List.getD_eq_getElem?_getD]

/-- **`mttkrps` for any admissible split index**: the `N` results are the matricized products of
the `N` modes. -/
theorem dense_mttkrpsAt_spec [CommSemiring α] (T : Dense α) (U : List (Mat α)) (R : Nat) (H : KPre T U R)
    (sp : Nat) (hsp : sp + 1 < T.shape.length) :
    ∃ V, T.mttkrpsAt U sp = .ok V ∧ V.length = T.shape.length ∧
      ∀ n i r, n < T.shape.length → i < T.shape.getD n 0 → r < R →
        (V.getD n []).get i r =
          Spec.mttkrp T.den (fun m x c => (U.getD m []).get x c) (fun _ => 1) n i r := by
  set N := T.shape.length with hN
  set sa := T.shape.take (sp + 1) with hsa
  set sb := T.shape.drop (sp + 1) with hsb
  have hshape : T.shape = sa ++ sb := (List.take_append_drop _ _).symm
  have hposa : 0 < numel sa := numel_pos _ (fun e he => H.pos e (List.mem_of_mem_take he))
  have hposb : 0 < numel sb := numel_pos _ (fun e he => H.pos e (List.mem_of_mem_drop he))
  have htotal : numel T.shape = numel sa * numel sb := by
    conv_lhs => rw [hshape]
    exact numel_append _ _
  have hdata : ∀ a b, a.length = sa.length →
      T.get (a ++ b) = T.data.getD (sub2ind sa a + numel sa * sub2ind sb b) 0 := by
    intro a b hl
    show T.data.getD (sub2ind T.shape (a ++ b)) 0 = _
    conv_lhs => rw [hshape]
    rw [sub2ind_append _ _ _ _ hl]
  -- right Khatri-Rao factor and the first partial product
  obtain ⟨hne1, hR1, hpos1, hmap1⟩ := H.block (sp + 1) N hsp (Nat.le_refl _)
  have hUd : (U.drop (sp + 1)).take (N - (sp + 1)) = U.drop (sp + 1) := by
    rw [List.take_of_length_le]; rw [List.length_drop, H.len]
  rw [hUd] at hne1 hR1 hpos1 hmap1
  rw [hN, midS_to_end] at hmap1
  obtain ⟨K, hK, hKl⟩ := kr_exists _ R hne1 hR1 hpos1
  rw [hmap1] at hKl
  have hKc : K.ncols = R := ncols_eq K R (kr_rows _ R K hK hR1) (by rw [hKl]; exact hposb)
  have hwr0 : numel T.shape / K.length = numel sa := by
    rw [htotal, hKl]; exact Nat.mul_div_cancel _ hposb
  have hmid0 : midS T.shape 0 (sp + 1) = sa := midS_zero _ _
  have hW0 : ∀ jj, InBounds (midS T.shape 0 (sp + 1)) jj → ∀ r, r < R →
      ((reshape2 T.data (numel sa) (numel sb)).mulD K (numel sa) (numel sb) R).get
        (sub2ind (midS T.shape 0 (sp + 1)) jj) r = PP T U 0 (sp + 1) jj r := by
    intro jj hjj r hr
    rw [hmid0] at hjj ⊢
    have hp : sub2ind sa jj < numel sa := sub2ind_lt hjj
    rw [mulD_get _ _ _ _ _ _ _ hp hr]
    unfold sumRange PP
    rw [sum_range_allSubs sb]
    apply sum_congr
    intro b hb
    have hbb := mem_allSubs.1 hb
    rw [reshape2_get _ _ _ _ _ hp (sub2ind_lt hbb)]
    have hke := kr_entry _ R K hK hne1 hR1 b (by rw [hmap1]; exact hbb) r hr
    rw [hmap1] at hke
    simp only [List.take_zero, allSubs_nil, List.map_cons, List.map_nil, List.sum_cons, List.sum_nil,
      add_zero, List.nil_append]
    rw [hke, hdata jj b hjj.length_eq]
    simp [facProd]
  obtain ⟨accA, Wa, eA, lA, vA, wA⟩ := mttkrpsLoop_spec T U R H (sp + 1) (by omega) sp 0 _ (numel sa)
    (by omega) (by rw [hmid0]) hW0
  -- left Khatri-Rao factor and the second partial product
  obtain ⟨hne2, hR2, hpos2, hmap2⟩ := H.block 0 (sp + 1) (by omega) (by omega)
  have hUt : (U.drop 0).take (sp + 1 - 0) = U.take (sp + 1) := by simp
  rw [hUt] at hne2 hR2 hpos2 hmap2
  rw [hmid0] at hmap2
  obtain ⟨K2, hK2, hK2l⟩ := kr_exists _ R hne2 hR2 hpos2
  rw [hmap2] at hK2l
  have hK2c : K2.ncols = R := ncols_eq K2 R (kr_rows _ R K2 hK2 hR2) (by rw [hK2l]; exact hposa)
  have hwr1 : numel T.shape / K2.length = numel sb := by
    rw [htotal, hK2l]; exact Nat.mul_div_cancel_left _ hposa
  have hmid1 : midS T.shape (sp + 1) N = sb := by rw [hN]; exact midS_to_end _ _
  have hW1 : ∀ jj, InBounds (midS T.shape (sp + 1) N) jj → ∀ r, r < R →
      (((reshape2 T.data (numel sa) (numel sb)).tr (numel sa) (numel sb)).mulD K2 (numel sb) (numel sa) R).get
        (sub2ind (midS T.shape (sp + 1) N) jj) r = PP T U (sp + 1) N jj r := by
    intro jj hjj r hr
    rw [hmid1] at hjj ⊢
    have hq : sub2ind sb jj < numel sb := sub2ind_lt hjj
    rw [mulD_get _ _ _ _ _ _ _ hq hr]
    unfold sumRange PP
    rw [sum_range_allSubs sa]
    have hdN : T.shape.drop N = [] := by rw [hN]; simp
    have hUN : U.drop N = [] := by rw [hN, ← H.len]; simp
    simp only [hdN, hUN, allSubs_nil, List.map_cons, List.map_nil, List.sum_cons, List.sum_nil, add_zero,
      List.append_nil]
    apply sum_congr
    intro a ha
    have hab := mem_allSubs.1 ha
    rw [tr_get _ _ _ _ _ (sub2ind_lt hab) hq, reshape2_get _ _ _ _ _ (sub2ind_lt hab) hq]
    have hke := kr_entry _ R K2 hK2 hne2 hR2 a (by rw [hmap2]; exact hab) r hr
    rw [hmap2] at hke
    rw [hke, hdata a jj hab.length_eq]
    simp [facProd]
  obtain ⟨accB, Wb, eB, lB, vB, wB⟩ := mttkrpsLoop_spec T U R H N (Nat.le_refl _) (N - 1 - (sp + 1)) (sp + 1) _
    (numel sb) (by omega) (by rw [hmid1]) hW1
  -- run the model
  have g1 : (numel sb == 0 || numel T.shape % numel sb != 0) = false := by
    have h1 : (numel sb == 0) = false := by simp; omega
    have h2 : (numel T.shape % numel sb != 0) = false := by rw [htotal, Nat.mul_mod_left]; rfl
    rw [h1, h2]; rfl
  have g2 : (numel sa == 0 || numel T.shape % numel sa != 0 || R != R) = false := by
    have h1 : (numel sa == 0) = false := by simp; omega
    have h2 : (numel T.shape % numel sa != 0) = false := by rw [htotal, Nat.mul_mod_right]; rfl
    rw [h1, h2]; simp
  rw [hKl] at hwr0
  rw [hK2l] at hwr1
  refine ⟨accA ++ [Wa] ++ accB ++ [Wb], ?_, by simp [lA, lB]; omega, ?_⟩
  · unfold Dense.mttkrpsAt
    simp only [← hN, ← hsb, hK, hKc, hKl, g1, Bool.false_eq_true, if_false, hK2, hK2l, hK2c, g2]
    rw [hwr0, eA]
    simp only [hwr1, eB]
  · intro n i r hn hi hr
    rw [spec_mttkrp_PP T U R H n i r hn hi]
    have lAB : (accA ++ [Wa]).length = sp + 1 := by simp [lA]
    have lABB : (accA ++ [Wa] ++ accB).length = N - 1 := by simp [lA, lB]; omega
    by_cases h1 : n < sp
    · have : (accA ++ [Wa] ++ accB ++ [Wb]).getD n [] = accA.getD n [] := by
        rw [getD_app_left _ _ _ _ (by rw [lABB]; omega), getD_app_left _ _ _ _ (by rw [lAB]; omega),
          getD_app_left _ _ _ _ (by rw [lA]; exact h1)]
      rw [this]
      have := vA n h1 i r (by rw [Nat.zero_add]; exact hi) hr
      rw [Nat.zero_add] at this
      exact this
    · by_cases h2 : n = sp
      · have : (accA ++ [Wa] ++ accB ++ [Wb]).getD n [] = Wa := by
          rw [getD_app_left _ _ _ _ (by rw [lABB]; omega), getD_app_left _ _ _ _ (by rw [lAB]; omega),
            getD_app_right _ _ _ _ (by rw [lA]; omega), lA, h2, Nat.sub_self]
          rfl
        rw [this, h2]
        have := wA i r (by rw [Nat.add_sub_cancel, ← h2]; exact hi) hr
        rw [Nat.add_sub_cancel] at this
        exact this
      · by_cases h3 : n < N - 1
        · have : (accA ++ [Wa] ++ accB ++ [Wb]).getD n [] = accB.getD (n - sp - 1) [] := by
            rw [getD_app_left _ _ _ _ (by rw [lABB]; exact h3), getD_app_right _ _ _ _ (by rw [lAB]; omega), lAB]
            congr 1
          rw [this]
          have := vB (n - sp - 1) (by omega) i r (by rw [show sp + 1 + (n - sp - 1) = n by omega]; exact hi) hr
          rw [show sp + 1 + (n - sp - 1) = n by omega] at this
          exact this
        · have hnl : n = N - 1 := by omega
          have : (accA ++ [Wa] ++ accB ++ [Wb]).getD n [] = Wb := by
            rw [getD_app_right _ _ _ _ (by rw [lABB]; omega), lABB, hnl, Nat.sub_self]
            rfl
          rw [this, hnl]
          have := wB i r (by rw [← hnl]; exact hi) hr
          rw [show N - 1 + 1 = N by omega]
          exact this

theorem spec_mttkrp_lam [CommSemiring α] (X : Den α) (Uf : Nat → Nat → Nat → α) (lam : Nat → α) (n i r : Nat) :
    Spec.mttkrp X Uf lam n i r = lam r * Spec.mttkrp X Uf (fun _ => 1) n i r := by
  unfold Spec.mttkrp
  rw [one_mul]

/-- **`tensor.mttkrps(list)`**: the split index the code chooses (`min_split`) is admissible, and the
`N` results are the `N` matricized products. -/
theorem dense_mttkrps_list_spec [CommSemiring α] (T : Dense α) (U : List (Mat α)) (R : Nat) (H : KPre T U R)
    (hN2 : 2 ≤ T.shape.length) :
    ∃ V, T.mttkrps (.list U) = .ok V ∧ V.length = T.shape.length ∧
      ∀ n i r, n < T.shape.length → i < T.shape.getD n 0 → r < R →
        (V.getD n []).get i r =
          Spec.mttkrp T.den (fun m x c => (U.getD m []).get x c) (fun _ => 1) n i r := by
  obtain ⟨V, e, l, g⟩ := dense_mttkrpsAt_spec T U R H (minSplit T.shape) (minSplit_bound T.shape H.pos hN2)
  refine ⟨V, ?_, l, g⟩
  unfold Dense.mttkrps
  have : (U.length != T.shape.length) = false := by rw [H.len]; exact bne_self_eq_false _
  simp only [this, Bool.false_eq_true, if_false, e]

/-- **`tensor.mttkrps(ktensor)`** (after the fix): column `r` of every result carries the weight `λ_r`. -/
theorem dense_mttkrps_kruskal_spec [CommSemiring α] (T : Dense α) (K : Ktensor α) (R : Nat)
    (H : KPre T K.factors R) (hw : K.weights.length = R) (hN2 : 2 ≤ T.shape.length) :
    ∃ V, T.mttkrps (.kruskal K) = .ok V ∧ V.length = T.shape.length ∧
      ∀ n i r, n < T.shape.length → i < T.shape.getD n 0 → r < R →
        (V.getD n []).get i r =
          Spec.mttkrp T.den (fun m x c => (K.factors.getD m []).get x c) (fun r => K.weights.getD r 0) n i r := by
  obtain ⟨V, e, l, g⟩ := dense_mttkrpsAt_spec T K.factors R H (minSplit T.shape)
    (minSplit_bound T.shape H.pos hN2)
  refine ⟨V.map fun M => M.map fun row => List.zipWith (· * ·) row K.weights, ?_, by simp [l], ?_⟩
  · unfold Dense.mttkrps
    have : (K.factors.length != T.shape.length) = false := by rw [H.len]; exact bne_self_eq_false _
    simp only [this, Bool.false_eq_true, if_false, e]
  · intro n i r hn hi hr
    have hnl : n < V.length := by rw [l]; exact hn
    have : (V.map fun M => M.map fun row => List.zipWith (· * ·) row K.weights).getD n [] =
        (V.getD n []).map fun row => List.zipWith (· * ·) row K.weights := by
      simp [List.getD_eq_getElem?_getD, List.getElem?_map, List.getElem?_eq_getElem hnl]
    rw [this, get_scaled_rows, g n i r hn hi hr, spec_mttkrp_lam _ _ (fun r => K.weights.getD r 0), mul_comm]

end ML
end Pyttb
