/-
Lemmas for C11 (CP-APR): the model `Alg/CpApr.lean` instantiated with the lawful services of a
linear ordered field keeps weights and factor entries non-negative, keeps shapes, and its
bookkeeping lists in step.
-/
import Mathlib.Algebra.Order.Field.Basic
import Mathlib.Algebra.Order.BigOperators.Group.List
import Mathlib.Algebra.BigOperators.Group.List.Basic
import Mathlib.Tactic.Ring
import Mathlib.Tactic.Linarith
import Mathlib.Tactic.Positivity
import PyttbModel.Alg.CpApr
set_option linter.unusedSectionVars false
set_option linter.unusedVariables false
namespace Pyttb.CpApr
open Pyttb.CpApr.Gen

variable {α : Type} [Field α] [LinearOrder α] [IsStrictOrderedRing α]

/-- The lawful number-system services of a linear ordered field (`log` stays a parameter). -/
def NumOps.ofField (log : α → α) : NumOps α :=
  ⟨log, fun a b => decide (a < b), fun a b => decide (a ≤ b), fun a => |a|, fun a => decide (a = 0), fun _ => true⟩

/-- All entries of a vector are non-negative. -/
def NonnegL (l : List α) : Prop := ∀ x ∈ l, 0 ≤ x
/-- All entries of a matrix are non-negative. -/
def NonnegM (A : Mat α) : Prop := ∀ row ∈ A, ∀ x ∈ row, 0 ≤ x
/-- Weights and all factor entries of a Kruskal tensor are non-negative. -/
def NonnegK (K : Ktensor α) : Prop := NonnegL K.weights ∧ ∀ A ∈ K.factors, NonnegM A

/-- Rank-`R` Kruskal tensor of the given shape. -/
def ShapeK (shape : List Nat) (R : Nat) (K : Ktensor α) : Prop :=
  K.weights.length = R ∧ K.factors.map List.length = shape ∧
    ∀ A ∈ K.factors, ∀ row ∈ A, row.length = R

section basics

theorem vget_nonneg {l : List α} (h : NonnegL l) (k : Nat) : 0 ≤ vget l k := by
  unfold vget
  rw [List.getD_eq_getElem?_getD]
  cases hk : l[k]? with
  | none => simp
  | some v => exact h v (List.mem_of_getElem? hk)

theorem getD_row_nonneg {A : Mat α} (h : NonnegM A) (i : Nat) : NonnegL (A.getD i []) := by
  rw [List.getD_eq_getElem?_getD]
  cases hk : A[i]? with
  | none => intro x hx; simp at hx
  | some v => exact h v (List.mem_of_getElem? hk)

theorem get_nonneg {A : Mat α} (h : NonnegM A) (i r : Nat) : 0 ≤ A.get i r :=
  vget_nonneg (getD_row_nonneg h i) r

theorem tab_nonneg {I R : Nat} {f : Nat → Nat → α} (h : ∀ i r, 0 ≤ f i r) : NonnegM (tab I R f) := by
  intro row hrow x hx
  unfold tab at hrow
  simp only [List.mem_map, List.mem_range] at hrow
  obtain ⟨i, _, rfl⟩ := hrow
  simp only [List.mem_map, List.mem_range] at hx
  obtain ⟨r, _, rfl⟩ := hx
  exact h i r

theorem tab_length (I R : Nat) (f : Nat → Nat → α) : (tab I R f).length = I := by
  simp [tab]

theorem tab_row_length {I R : Nat} {f : Nat → Nat → α} : ∀ row ∈ tab I R f, row.length = R := by
  intro row hrow
  unfold tab at hrow
  simp only [List.mem_map, List.mem_range] at hrow
  obtain ⟨i, _, rfl⟩ := hrow
  simp

theorem factor_nonneg {K : Ktensor α} (h : NonnegK K) (n : Nat) : NonnegM (factor K n) := by
  unfold factor
  rw [List.getD_eq_getElem?_getD]
  cases hk : K.factors[n]? with
  | none => intro row hrow; simp at hrow
  | some A => exact h.2 A (List.mem_of_getElem? hk)

theorem nonnegK_set {w : List α} {fs : List (Mat α)} {n : Nat} {A : Mat α}
    (hw : NonnegL w) (hf : ∀ B ∈ fs, NonnegM B) (hA : NonnegM A) :
    NonnegK (⟨w, fs.set n A⟩ : Ktensor α) := by
  refine ⟨hw, ?_⟩
  intro B hB
  rcases List.mem_or_eq_of_mem_set hB with h | h
  · exact hf B h
  · exact h ▸ hA

theorem sumOver_nonneg {n : Nat} {f : Nat → α} (h : ∀ k, 0 ≤ f k) : 0 ≤ sumOver n f := by
  unfold sumOver
  apply List.sum_nonneg
  intro x hx
  simp only [List.mem_map] at hx
  obtain ⟨k, _, rfl⟩ := hx
  exact h k

theorem maximum_cases (log : α → α) (a b : α) :
    (NumOps.ofField log).maximum a b = a ∨ (NumOps.ofField log).maximum a b = b := by
  unfold NumOps.maximum
  split <;> simp

theorem maximum_eq_max (log : α → α) (a b : α) : (NumOps.ofField log).maximum a b = max a b := by
  unfold NumOps.maximum NumOps.ofField
  simp only [decide_eq_true_eq]
  split
  · next h => exact (max_eq_right h.le).symm
  · next h => exact (max_eq_left (not_lt.mp h)).symm

theorem minimum_eq_min (log : α → α) (a b : α) : (NumOps.ofField log).minimum a b = min a b := by
  unfold NumOps.minimum NumOps.ofField
  simp only [decide_eq_true_eq]
  split
  · next h => exact (min_eq_right h.le).symm
  · next h => exact (min_eq_left (not_lt.mp h)).symm

theorem foldl_maximum_nonneg (log : α → α) (xs : List α) (x : α) (hx : 0 ≤ x) (h : NonnegL xs) :
    0 ≤ xs.foldl (NumOps.ofField log).maximum x := by
  induction xs generalizing x with
  | nil => simpa
  | cons y ys ih =>
    rw [List.foldl_cons]
    apply ih
    · rcases maximum_cases log x y with e | e <;> rw [e]
      · exact hx
      · exact h y (by simp)
    · intro z hz; exact h z (by simp [hz])

theorem maxD_nonneg (log : α → α) {l : List α} (h : NonnegL l) : 0 ≤ maxD (NumOps.ofField log) l := by
  cases l with
  | nil => simp [maxD]
  | cons x xs =>
    exact foldl_maximum_nonneg log xs x (h x (by simp)) (fun z hz => h z (by simp [hz]))

theorem nonnegL_set {l : List α} {k : Nat} {v : α} (h : NonnegL l) (hv : 0 ≤ v) : NonnegL (l.set k v) := by
  intro x hx
  rcases List.mem_or_eq_of_mem_set hx with h' | h'
  · exact h x h'
  · exact h' ▸ hv

theorem nonnegL_append {l : List α} {v : α} (h : NonnegL l) (hv : 0 ≤ v) : NonnegL (l ++ [v]) := by
  intro x hx
  simp only [List.mem_append, List.mem_singleton] at hx
  rcases hx with h' | h'
  · exact h x h'
  · exact h' ▸ hv

theorem nonnegM_set {A : Mat α} {k : Nat} {row : List α} (h : NonnegM A) (hr : NonnegL row) :
    NonnegM (A.set k row) := by
  intro x hx
  rcases List.mem_or_eq_of_mem_set hx with h' | h'
  · exact h x h'
  · exact h' ▸ hr

end basics

/-! ### Kruskal re-parameterisations keep the sign -/

section ktensor
variable (log : α → α)

theorem redistribute_nonneg {K : Ktensor α} (h : NonnegK K) (n : Nat) : NonnegK (redistribute K n) := by
  unfold redistribute
  apply nonnegK_set
  · intro x hx
    simp only [List.mem_map] at hx
    obtain ⟨_, _, rfl⟩ := hx
    exact zero_le_one
  · exact h.2
  · exact tab_nonneg fun i r => mul_nonneg (get_nonneg (factor_nonneg h n) i r) (vget_nonneg h.1 r)

theorem colNorm1_nonneg (A : Mat α) (r : Nat) : 0 ≤ colNorm1 (NumOps.ofField log) A r :=
  sumOver_nonneg fun _ => abs_nonneg _

theorem nrm_nonneg (A : Mat α) (R : Nat) :
    NonnegL ((List.range R).map (colNorm1 (NumOps.ofField log) A)) := by
  intro x hx
  simp only [List.mem_map] at hx
  obtain ⟨r, _, rfl⟩ := hx
  exact colNorm1_nonneg log A r

theorem normalizeMode_nonneg {K : Ktensor α} (h : NonnegK K) (n : Nat) :
    NonnegK (normalizeMode (NumOps.ofField log) K n) := by
  unfold normalizeMode
  apply nonnegK_set
  · intro x hx
    simp only [List.mem_map] at hx
    obtain ⟨r, _, rfl⟩ := hx
    exact mul_nonneg (vget_nonneg h.1 r) (vget_nonneg (nrm_nonneg log _ _) r)
  · exact h.2
  · apply tab_nonneg
    intro i r
    have ha := get_nonneg (factor_nonneg h n) i r
    split
    · next hpos =>
      have hpos' : 0 < vget ((List.range K.weights.length).map (colNorm1 (NumOps.ofField log) (factor K n))) r := by
        simpa [NumOps.ofField] using hpos
      exact mul_nonneg (one_div_pos.mpr hpos').le ha
    · exact ha

theorem foldl_inv {σ β : Type} (P : σ → Prop) (f : σ → β → σ) (hf : ∀ s x, P s → P (f s x)) :
    ∀ (l : List β) (s : σ), P s → P (l.foldl f s) := by
  intro l
  induction l with
  | nil => intro s hs; simpa
  | cons x xs ih => intro s hs; rw [List.foldl_cons]; exact ih _ (hf s x hs)

theorem normalizeMode_nfactors (o : NumOps α) (K : Ktensor α) (n : Nat) :
    (normalizeMode o K n).factors.length = K.factors.length := by
  simp [normalizeMode]

theorem normalizeAll_nonneg {K : Ktensor α} (h : NonnegK K) :
    NonnegK (normalizeAll (NumOps.ofField log) K) := by
  unfold normalizeAll
  exact foldl_inv NonnegK _ (fun s n hs => normalizeMode_nonneg log hs n) _ _ h

theorem flipNeg_eq_of_nonneg {K : Ktensor α} (h : NonnegK K) :
    (flipNeg (NumOps.ofField log) K).weights = K.weights ∧
    (flipNeg (NumOps.ofField log) K).factors =
      K.factors.set 0 (tab (factor K 0).length K.weights.length fun i r => (factor K 0).get i r) := by
  unfold flipNeg
  constructor
  · show K.weights.map _ = K.weights
    conv_rhs => rw [← List.map_id K.weights]
    apply List.map_congr_left
    intro w hw
    have : ¬ w < 0 := not_lt.mpr (h.1 w hw)
    simp [NumOps.ofField, this]
  · show K.factors.set 0 _ = K.factors.set 0 _
    congr 1
    unfold tab
    apply List.map_congr_left
    intro i _
    apply List.map_congr_left
    intro r _
    have : ¬ vget K.weights r < 0 := not_lt.mpr (vget_nonneg h.1 r)
    simp [NumOps.ofField, this]

theorem flipNeg_nonneg {K : Ktensor α} (h : NonnegK K) : NonnegK (flipNeg (NumOps.ofField log) K) := by
  obtain ⟨hw, hf⟩ := flipNeg_eq_of_nonneg log h
  refine ⟨hw ▸ h.1, ?_⟩
  rw [hf]
  exact (nonnegK_set h.1 h.2 (tab_nonneg fun i r => get_nonneg (factor_nonneg h 0) i r)).2

theorem normalize1_nonneg {K : Ktensor α} (h : NonnegK K) : NonnegK (normalize1 (NumOps.ofField log) K) :=
  flipNeg_nonneg log (normalizeAll_nonneg log h)

theorem absorb0_nonneg {K : Ktensor α} (h : NonnegK K) : NonnegK (absorb0 K) := by
  unfold absorb0
  apply nonnegK_set
  · intro x hx
    simp only [List.mem_map] at hx
    obtain ⟨_, _, rfl⟩ := hx
    exact zero_le_one
  · exact h.2
  · exact tab_nonneg fun i r => mul_nonneg (get_nonneg (factor_nonneg h 0) i r) (vget_nonneg h.1 r)

theorem arrange_nonneg {K : Ktensor α} (h : NonnegK K) (p : List Nat) : NonnegK (arrange K p) := by
  unfold arrange
  constructor
  · intro x hx
    simp only [List.mem_map] at hx
    obtain ⟨k, _, rfl⟩ := hx
    exact vget_nonneg h.1 k
  · intro A hA row hrow x hx
    simp only [List.mem_map] at hA
    obtain ⟨B, hB, rfl⟩ := hA
    simp only [List.mem_map] at hrow
    obtain ⟨row0, hrow0, rfl⟩ := hrow
    simp only [List.mem_map] at hx
    obtain ⟨k, _, rfl⟩ := hx
    exact vget_nonneg (h.2 B hB row0 hrow0) k

theorem normalizeSort_nonneg {K : Ktensor α} (h : NonnegK K) (sortPerm : List α → List Nat) :
    NonnegK (normalizeSort (NumOps.ofField log) sortPerm K) := by
  unfold normalizeSort
  have h1 := normalize1_nonneg log h
  simp only
  split
  · exact arrange_nonneg h1 _
  · exact h1

theorem normalizeAbsorb0_nonneg {K : Ktensor α} (h : NonnegK K) :
    NonnegK (normalizeAbsorb0 (NumOps.ofField log) K) :=
  absorb0_nonneg (normalize1_nonneg log h)

end ktensor

end Pyttb.CpApr
