/-
C04, sparse class: rectangular-region keys (`_set_subtensor` with a scalar, region reads).
-/
import PyttbModel.Lemmas.MutArraySparse
namespace Pyttb

variable {α : Type}

/-! ### the key: rewrite of negative integers, new size, index lists -/

/-- the key element is an open slice (no stop) -/
def RPart.isOpenSlice : RPart → Bool
  | .slice _ none _ => true
  | _ => false

theorem sp_part (ext : Option Nat) (p : RPart) (hopen : ¬ (ext = none ∧ p.isOpenSlice = true)) :
    (do let q ← Sparse.rewriteNegPart ext p; let e ← Sparse.newExtScalar ext q; let l ← Sparse.partIdx e q
        pure (e, l) : Except Reject (Nat × List Nat)) =
    (MArr.regionPart (ext.getD 0) ext.isNone true p).map (fun r => (r.1, r.2.1)) := by
  cases p with
  | int i =>
    cases ext with
    | none =>
      simp only [Sparse.rewriteNegPart, Sparse.newExtScalar, Sparse.partIdx, MArr.regionPart, bind, Except.bind,
        pure, Except.pure, Except.map, Option.getD_none, Option.isNone_none]
      by_cases hi : i < 0
      · have h1 : ¬ 0 ≤ i := by omega
        have h2 : ¬ 0 ≤ i + ((0 : Nat) : Int) := by omega
        simp [hi, h1, h2]
      · have h1 : 0 ≤ i := by omega
        simp [hi, h1]
    | some e =>
      simp only [Sparse.rewriteNegPart, Sparse.newExtScalar, Sparse.partIdx, MArr.regionPart, bind, Except.bind,
        pure, Except.pure, Except.map, Option.getD_some, Option.isNone_some]
      by_cases hi : i < 0
      · have h1 : ¬ 0 ≤ i := by omega
        simp only [hi, h1, if_true, if_false]
        by_cases h3 : 0 ≤ i + (e : Int)
        · have h4 : ¬ ((e : Int) + i < 0) := by omega
          have h5 : 0 ≤ (e : Int) + i := by omega
          have h6 : max e (((e : Int) + i).toNat + 1) = e := by omega
          have h7 : ((e : Int) + i).toNat = (i + (e : Int)).toNat := by rw [Int.add_comm]
          simp [h3, h4, h5, h7]
          omega
        · have h4 : ((e : Int) + i < 0) := by omega
          simp [h3, h4]
      · have h1 : 0 ≤ i := by omega
        simp [hi, h1]
  | list is =>
    cases ext with
    | none =>
      simp only [Sparse.rewriteNegPart, Sparse.newExtScalar, Sparse.partIdx, MArr.regionPart, bind, Except.bind,
        pure, Except.pure, Except.map, Option.getD_none, Option.isNone_none]
      by_cases he : is.isEmpty = true
      · simp [he]
      · simp [he]
    | some e =>
      simp only [Sparse.rewriteNegPart, Sparse.newExtScalar, Sparse.partIdx, MArr.regionPart, bind, Except.bind,
        pure, Except.pure, Except.map, Option.getD_some, Option.isNone_some]
      by_cases he : is.isEmpty = true
      · simp [he]
      · simp [he]
  | slice a b c =>
    cases ext with
    | none =>
      cases b with
      | none => exact absurd ⟨rfl, rfl⟩ hopen
      | some b =>
        simp only [Sparse.rewriteNegPart, Sparse.newExtScalar, Sparse.partIdx, MArr.regionPart, MArr.sliceExtent,
          bind, Except.bind, pure, Except.pure, Except.map, Option.getD_none, Option.isNone_none, if_true]
        by_cases hb : 0 ≤ b
        · have : max 0 b.toNat = b.toNat := by omega
          simp only [hb, if_true, this]
          rcases pySlice b.toNat a (some b) c with _ | l <;> rfl
        · simp [hb]
    | some e =>
      simp only [Sparse.rewriteNegPart, Sparse.newExtScalar, Sparse.partIdx, MArr.regionPart, MArr.sliceExtent,
        bind, Except.bind, pure, Except.pure, Except.map, Option.getD_some, Option.isNone_some, if_true]
      cases b with
      | none =>
        simp only [Bool.false_eq_true, if_false]
        rcases pySlice e a none c with _ | l <;> rfl
      | some b =>
        by_cases hb : 0 ≤ b
        · have h1 : (if (e : Int) < b then b.toNat else e) = max e b.toNat := by
            split <;> omega
          simp only [hb, if_true, h1]
          rcases pySlice (max e b.toNat) a (some b) c with _ | l <;> rfl
        · have h1 : (if (e : Int) < b then b.toNat else e) = e := by
            split <;> omega
          simp only [hb, if_false, h1, Bool.false_eq_true]
          rcases pySlice e a (some b) c with _ | l <;> rfl

/-- no new mode is addressed by an open slice -/
def noOpenNew : List Nat → List RPart → Bool
  | _, [] => true
  | [], p :: ps => !p.isOpenSlice && noOpenNew [] ps
  | _ :: es, _ :: ps => noOpenNew es ps

theorem except_bind_swap3 {A B C A' B' C' E : Type} (a : Except Reject A) (b : A → Except Reject B)
    (c : B → A → Except Reject C) (a' : Except Reject A') (b' : A' → Except Reject B')
    (c' : B' → A' → Except Reject C') (k : B → B' → C → C' → E) :
    (do let x ← a; let x' ← a'; let y ← b x; let y' ← b' x'; let z ← c y x; let z' ← c' y' x'
        pure (k y y' z z') : Except Reject E) =
    (do let r ← (do let x ← a; let y ← b x; let z ← c y x; pure (y, z) : Except Reject (B × C))
        let r' ← (do let x' ← a'; let y' ← b' x'; let z' ← c' y' x'; pure (y', z') : Except Reject (B' × C'))
        pure (k r.1 r'.1 r.2 r'.2)) := by
  rcases a with ⟨⟨⟩⟩ | x
  · rfl
  · simp only [bind, Except.bind, pure, Except.pure]
    rcases b x with ⟨⟨⟩⟩ | y
    · rcases a' with ⟨⟨⟩⟩ | x' <;> rfl
    · simp only
      rcases c y x with ⟨⟨⟩⟩ | z
      · rcases a' with ⟨⟨⟩⟩ | x'
        · rfl
        · simp only
          rcases b' x' with ⟨⟨⟩⟩ | y' <;> rfl
      · simp only
        rcases a' with ⟨⟨⟩⟩ | x'
        · rfl
        · simp only
          rcases b' x' with ⟨⟨⟩⟩ | y'
          · rfl
          · simp only
            rcases c' y' x' with ⟨⟨⟩⟩ | z' <;> rfl

theorem sp_region (s : List Nat) (parts : List RPart) (h : noOpenNew s parts = true) :
    (do let ps ← Sparse.rewriteNeg s parts; let s' ← Sparse.newSizeScalar s ps; let idx ← Sparse.regionIdx s' ps
        pure (s', idx) : Except Reject (List Nat × List (List Nat))) =
    (MArr.regionParts true s parts).map (fun rs => (rs.map (·.1), rs.map (·.2.1))) := by
  induction parts generalizing s with
  | nil =>
    cases s with
    | nil => rfl
    | cons e es => rfl
  | cons p ps ih =>
    cases s with
    | nil =>
      simp only [noOpenNew, Bool.and_eq_true, Bool.not_eq_true'] at h
      have h1 := sp_part none p (by simp [h.1])
      have h2 := ih [] h.2
      simp only [Option.getD_none, Option.isNone_none] at h1
      have swap := except_bind_swap3 (Sparse.rewriteNegPart none p) (Sparse.newExtScalar none)
        (fun e q => Sparse.partIdx e q) (Sparse.rewriteNeg [] ps) (Sparse.newSizeScalar [])
        (fun es qs => Sparse.regionIdx es qs) (fun e es l ls => (e :: es, l :: ls))
      calc _ = (do let q ← Sparse.rewriteNegPart none p; let qs ← Sparse.rewriteNeg [] ps
                   let e ← Sparse.newExtScalar none q; let es ← Sparse.newSizeScalar [] qs
                   let l ← Sparse.partIdx e q; let ls ← Sparse.regionIdx es qs
                   pure (e :: es, l :: ls) : Except Reject (List Nat × List (List Nat))) := by
            simp only [Sparse.rewriteNeg, bind, Except.bind, pure, Except.pure]
            rcases Sparse.rewriteNegPart none p with ⟨⟨⟩⟩ | q
            · rfl
            · rcases Sparse.rewriteNeg [] ps with ⟨⟨⟩⟩ | qs
              · rfl
              · simp only [Sparse.newSizeScalar, bind, Except.bind, pure, Except.pure]
                rcases Sparse.newExtScalar none q with ⟨⟨⟩⟩ | e
                · rfl
                · rcases Sparse.newSizeScalar [] qs with ⟨⟨⟩⟩ | es
                  · rfl
                  · simp only [Sparse.regionIdx, bind, Except.bind, pure, Except.pure]
                    rcases Sparse.partIdx e q with ⟨⟨⟩⟩ | l
                    · rfl
                    · rcases Sparse.regionIdx es qs with ⟨⟨⟩⟩ | ls <;> rfl
        _ = _ := by
            rw [swap, h1, h2]
            simp only [MArr.regionParts, Bool.not_true, Bool.false_eq_true, ↓reduceIte, bind, Except.bind, pure,
              Except.pure, Except.map]
            rcases MArr.regionPart 0 true true p with ⟨⟨⟩⟩ | r
            · rfl
            · rcases MArr.regionParts true [] ps with ⟨⟨⟩⟩ | rs <;> rfl
    | cons e0 es0 =>
      simp only [noOpenNew] at h
      have h1 := sp_part (some e0) p (by simp)
      have h2 := ih es0 h
      simp only [Option.getD_some, Option.isNone_some] at h1
      have swap := except_bind_swap3 (Sparse.rewriteNegPart (some e0) p) (Sparse.newExtScalar (some e0))
        (fun e q => Sparse.partIdx e q) (Sparse.rewriteNeg es0 ps) (Sparse.newSizeScalar es0)
        (fun es qs => Sparse.regionIdx es qs) (fun e es l ls => (e :: es, l :: ls))
      calc _ = (do let q ← Sparse.rewriteNegPart (some e0) p; let qs ← Sparse.rewriteNeg es0 ps
                   let e ← Sparse.newExtScalar (some e0) q; let es ← Sparse.newSizeScalar es0 qs
                   let l ← Sparse.partIdx e q; let ls ← Sparse.regionIdx es qs
                   pure (e :: es, l :: ls) : Except Reject (List Nat × List (List Nat))) := by
            simp only [Sparse.rewriteNeg, bind, Except.bind, pure, Except.pure]
            rcases Sparse.rewriteNegPart (some e0) p with ⟨⟨⟩⟩ | q
            · rfl
            · rcases Sparse.rewriteNeg es0 ps with ⟨⟨⟩⟩ | qs
              · rfl
              · simp only [Sparse.newSizeScalar, bind, Except.bind, pure, Except.pure]
                rcases Sparse.newExtScalar (some e0) q with ⟨⟨⟩⟩ | e
                · rfl
                · rcases Sparse.newSizeScalar es0 qs with ⟨⟨⟩⟩ | es
                  · rfl
                  · simp only [Sparse.regionIdx, bind, Except.bind, pure, Except.pure]
                    rcases Sparse.partIdx e q with ⟨⟨⟩⟩ | l
                    · rfl
                    · rcases Sparse.regionIdx es qs with ⟨⟨⟩⟩ | ls <;> rfl
        _ = _ := by
            rw [swap, h1, h2]
            simp only [MArr.regionParts, bind, Except.bind, pure, Except.pure, Except.map]
            rcases MArr.regionPart e0 false true p with ⟨⟨⟩⟩ | r
            · rfl
            · rcases MArr.regionParts true es0 ps with ⟨⟨⟩⟩ | rs <;> rfl


end Pyttb
