/-
C04, sparse class: rectangular-region keys (`_set_subtensor` with a scalar, region reads).
-/
import PyttbModel.Lemmas.MutArraySparse
set_option linter.unusedSimpArgs false
set_option linter.unusedVariables false
set_option linter.unusedSectionVars false

namespace Pyttb

variable {α : Type}

/-! ### the key: rewrite of negative integers, new size, index lists -/

/-- the key element is an open slice (no stop) -/
def RPart.isOpenSlice : RPart → Bool
  | .slice _ none _ => true
  | _ => false

theorem sp_part (ext : Option Nat) (p : RPart) (hopen : ¬ (ext = none ∧ p.isOpenSlice = true)) :
    (do let q ← Sparse.rewriteNegPart ext p; let e ← Sparse.newExtScalar ext q; let l ← Sparse.partIdx e q
        pure (e, l) : Except Reject (Nat × List Nat)) =
    (MArr.regionPart (ext.getD 0) ext.isNone true p).map (fun r => (r.1, r.2.1)) := by
  cases p with
  | int i =>
    cases ext with
    | none =>
      simp only [Sparse.rewriteNegPart, Sparse.newExtScalar, Sparse.partIdx, MArr.regionPart, bind, Except.bind,
        pure, Except.pure, Except.map, Option.getD_none, Option.isNone_none]
      by_cases hi : i < 0
      · have h1 : ¬ 0 ≤ i := by omega
        have h2 : ¬ 0 ≤ i + ((0 : Nat) : Int) := by omega
        simp [hi, h1, h2]
      · have h1 : 0 ≤ i := by omega
        simp [hi, h1]
    | some e =>
      simp only [Sparse.rewriteNegPart, Sparse.newExtScalar, Sparse.partIdx, MArr.regionPart, bind, Except.bind,
        pure, Except.pure, Except.map, Option.getD_some, Option.isNone_some]
      by_cases hi : i < 0
      · have h1 : ¬ 0 ≤ i := by omega
        simp only [hi, h1, if_true, if_false]
        by_cases h3 : 0 ≤ i + (e : Int)
        · have h4 : ¬ ((e : Int) + i < 0) := by omega
          have h5 : 0 ≤ (e : Int) + i := by omega
          have h6 : max e (((e : Int) + i).toNat + 1) = e := by omega
          have h7 : ((e : Int) + i).toNat = (i + (e : Int)).toNat := by rw [Int.add_comm]
          simp [h3, h4, h5, h7]
          omega
        · have h4 : ((e : Int) + i < 0) := by omega
          simp [h3, h4]
      · have h1 : 0 ≤ i := by omega
        simp [hi, h1]
  | list is =>
    cases ext with
    | none =>
      simp only [Sparse.rewriteNegPart, Sparse.newExtScalar, Sparse.partIdx, MArr.regionPart, bind, Except.bind,
        pure, Except.pure, Except.map, Option.getD_none, Option.isNone_none]
      by_cases he : is.isEmpty = true
      · simp [he]
      · simp [he]
    | some e =>
      simp only [Sparse.rewriteNegPart, Sparse.newExtScalar, Sparse.partIdx, MArr.regionPart, bind, Except.bind,
        pure, Except.pure, Except.map, Option.getD_some, Option.isNone_some]
      by_cases he : is.isEmpty = true
      · simp [he]
      · simp [he]
  | slice a b c =>
    cases ext with
    | none =>
      cases b with
      | none => exact absurd ⟨rfl, rfl⟩ hopen
      | some b =>
        simp only [Sparse.rewriteNegPart, Sparse.newExtScalar, Sparse.partIdx, MArr.regionPart, MArr.sliceExtent,
          bind, Except.bind, pure, Except.pure, Except.map, Option.getD_none, Option.isNone_none, if_true]
        by_cases hb : 0 ≤ b
        · have : max 0 b.toNat = b.toNat := by omega
          simp only [hb, if_true, this]
          rcases pySlice b.toNat a (some b) c with _ | l <;> rfl
        · simp [hb]
    | some e =>
      simp only [Sparse.rewriteNegPart, Sparse.newExtScalar, Sparse.partIdx, MArr.regionPart, MArr.sliceExtent,
        bind, Except.bind, pure, Except.pure, Except.map, Option.getD_some, Option.isNone_some, if_true]
      cases b with
      | none =>
        simp only [Bool.false_eq_true, if_false]
        rcases pySlice e a none c with _ | l <;> rfl
      | some b =>
        by_cases hb : 0 ≤ b
        · have h1 : (if (e : Int) < b then b.toNat else e) = max e b.toNat := by
            split <;> omega
          simp only [hb, if_true, h1]
          rcases pySlice (max e b.toNat) a (some b) c with _ | l <;> rfl
        · have h1 : (if (e : Int) < b then b.toNat else e) = e := by
            split <;> omega
          simp only [hb, if_false, h1, Bool.false_eq_true]
          rcases pySlice e a (some b) c with _ | l <;> rfl

/-- A key element that may address a NEW mode in the proved fragment: an integer, an index
list, or a slice with an explicit stop ≥ 1 (an open slice in a new mode is refused by the
class; a stop ≤ 0 would create a mode of extent 0). -/
def RPart.okForNewMode : RPart → Bool
  | .slice _ (some b) _ => decide (1 ≤ b)
  | .slice _ none _ => false
  | _ => true

/-- every new mode is addressed by an admissible key element -/
def newModesOk : List Nat → List RPart → Bool
  | _, [] => true
  | [], p :: ps => p.okForNewMode && newModesOk [] ps
  | _ :: es, _ :: ps => newModesOk es ps

theorem not_open_of_ok {p : RPart} (h : p.okForNewMode = true) : p.isOpenSlice = false := by
  cases p with
  | int i => rfl
  | list l => rfl
  | slice a b c => cases b with
    | none => simp [RPart.okForNewMode] at h
    | some b => rfl

theorem except_bind_swap3 {A B C A' B' C' E : Type} (a : Except Reject A) (b : A → Except Reject B)
    (c : B → A → Except Reject C) (a' : Except Reject A') (b' : A' → Except Reject B')
    (c' : B' → A' → Except Reject C') (k : B → B' → C → C' → E) :
    (do let x ← a; let x' ← a'; let y ← b x; let y' ← b' x'; let z ← c y x; let z' ← c' y' x'
        pure (k y y' z z') : Except Reject E) =
    (do let r ← (do let x ← a; let y ← b x; let z ← c y x; pure (y, z) : Except Reject (B × C))
        let r' ← (do let x' ← a'; let y' ← b' x'; let z' ← c' y' x'; pure (y', z') : Except Reject (B' × C'))
        pure (k r.1 r'.1 r.2 r'.2)) := by
  rcases a with ⟨⟨⟩⟩ | x
  · rfl
  · simp only [bind, Except.bind, pure, Except.pure]
    rcases b x with ⟨⟨⟩⟩ | y
    · rcases a' with ⟨⟨⟩⟩ | x' <;> rfl
    · simp only
      rcases c y x with ⟨⟨⟩⟩ | z
      · rcases a' with ⟨⟨⟩⟩ | x'
        · rfl
        · simp only
          rcases b' x' with ⟨⟨⟩⟩ | y' <;> rfl
      · simp only
        rcases a' with ⟨⟨⟩⟩ | x'
        · rfl
        · simp only
          rcases b' x' with ⟨⟨⟩⟩ | y'
          · rfl
          · simp only
            rcases c' y' x' with ⟨⟨⟩⟩ | z' <;> rfl

theorem sp_region (s : List Nat) (parts : List RPart) (h : newModesOk s parts = true) :
    (do let ps ← Sparse.rewriteNeg s parts; let s' ← Sparse.newSizeScalar s ps; let idx ← Sparse.regionIdx s' ps
        pure (s', idx) : Except Reject (List Nat × List (List Nat))) =
    (MArr.regionParts true s parts).map (fun rs => (rs.map (·.1), rs.map (·.2.1))) := by
  induction parts generalizing s with
  | nil =>
    cases s with
    | nil => rfl
    | cons e es => rfl
  | cons p ps ih =>
    cases s with
    | nil =>
      simp only [newModesOk, Bool.and_eq_true] at h
      have h1 := sp_part none p (by simp [not_open_of_ok h.1])
      have h2 := ih [] h.2
      simp only [Option.getD_none, Option.isNone_none] at h1
      have swap := except_bind_swap3 (Sparse.rewriteNegPart none p) (Sparse.newExtScalar none)
        (fun e q => Sparse.partIdx e q) (Sparse.rewriteNeg [] ps) (Sparse.newSizeScalar [])
        (fun es qs => Sparse.regionIdx es qs) (fun e es l ls => (e :: es, l :: ls))
      calc _ = (do let q ← Sparse.rewriteNegPart none p; let qs ← Sparse.rewriteNeg [] ps
                   let e ← Sparse.newExtScalar none q; let es ← Sparse.newSizeScalar [] qs
                   let l ← Sparse.partIdx e q; let ls ← Sparse.regionIdx es qs
                   pure (e :: es, l :: ls) : Except Reject (List Nat × List (List Nat))) := by
            simp only [Sparse.rewriteNeg, bind, Except.bind, pure, Except.pure]
            rcases Sparse.rewriteNegPart none p with ⟨⟨⟩⟩ | q
            · rfl
            · rcases Sparse.rewriteNeg [] ps with ⟨⟨⟩⟩ | qs
              · rfl
              · simp only [Sparse.newSizeScalar, bind, Except.bind, pure, Except.pure]
                rcases Sparse.newExtScalar none q with ⟨⟨⟩⟩ | e
                · rfl
                · rcases Sparse.newSizeScalar [] qs with ⟨⟨⟩⟩ | es
                  · rfl
                  · simp only [Sparse.regionIdx, bind, Except.bind, pure, Except.pure]
                    rcases Sparse.partIdx e q with ⟨⟨⟩⟩ | l
                    · rfl
                    · rcases Sparse.regionIdx es qs with ⟨⟨⟩⟩ | ls <;> rfl
        _ = _ := by
            rw [swap, h1, h2]
            simp only [MArr.regionParts, Bool.not_true, Bool.false_eq_true, ↓reduceIte, bind, Except.bind, pure,
              Except.pure, Except.map]
            rcases MArr.regionPart 0 true true p with ⟨⟨⟩⟩ | r
            · rfl
            · rcases MArr.regionParts true [] ps with ⟨⟨⟩⟩ | rs <;> rfl
    | cons e0 es0 =>
      simp only [newModesOk] at h
      have h1 := sp_part (some e0) p (by simp)
      have h2 := ih es0 h
      simp only [Option.getD_some, Option.isNone_some] at h1
      have swap := except_bind_swap3 (Sparse.rewriteNegPart (some e0) p) (Sparse.newExtScalar (some e0))
        (fun e q => Sparse.partIdx e q) (Sparse.rewriteNeg es0 ps) (Sparse.newSizeScalar es0)
        (fun es qs => Sparse.regionIdx es qs) (fun e es l ls => (e :: es, l :: ls))
      calc _ = (do let q ← Sparse.rewriteNegPart (some e0) p; let qs ← Sparse.rewriteNeg es0 ps
                   let e ← Sparse.newExtScalar (some e0) q; let es ← Sparse.newSizeScalar es0 qs
                   let l ← Sparse.partIdx e q; let ls ← Sparse.regionIdx es qs
                   pure (e :: es, l :: ls) : Except Reject (List Nat × List (List Nat))) := by
            simp only [Sparse.rewriteNeg, bind, Except.bind, pure, Except.pure]
            rcases Sparse.rewriteNegPart (some e0) p with ⟨⟨⟩⟩ | q
            · rfl
            · rcases Sparse.rewriteNeg es0 ps with ⟨⟨⟩⟩ | qs
              · rfl
              · simp only [Sparse.newSizeScalar, bind, Except.bind, pure, Except.pure]
                rcases Sparse.newExtScalar (some e0) q with ⟨⟨⟩⟩ | e
                · rfl
                · rcases Sparse.newSizeScalar es0 qs with ⟨⟨⟩⟩ | es
                  · rfl
                  · simp only [Sparse.regionIdx, bind, Except.bind, pure, Except.pure]
                    rcases Sparse.partIdx e q with ⟨⟨⟩⟩ | l
                    · rfl
                    · rcases Sparse.regionIdx es qs with ⟨⟨⟩⟩ | ls <;> rfl
        _ = _ := by
            rw [swap, h1, h2]
            simp only [MArr.regionParts, bind, Except.bind, pure, Except.pure, Except.map]
            rcases MArr.regionPart e0 false true p with ⟨⟨⟩⟩ | r
            · rfl
            · rcases MArr.regionParts true es0 ps with ⟨⟨⟩⟩ | rs <;> rfl


/-! ### the shape after a region write -/

theorem regionPart_grow_ge {ext : Nat} {p : RPart} {r : Nat × List Nat × Bool}
    (h : MArr.regionPart ext false true p = .ok r) : ext ≤ r.1 := by
  cases p with
  | int i =>
    simp only [MArr.regionPart] at h
    split at h
    · split at h
      · cases h; exact Nat.le_max_left _ _
      · cases h
    · split at h
      · cases h; exact Nat.le_refl _
      · cases h
  | list is =>
    simp only [MArr.regionPart] at h
    split at h
    · cases h
    · split at h
      · cases h; exact Nat.le_max_left _ _
      · cases h
  | slice a b c =>
    simp only [MArr.regionPart, bind, Except.bind] at h
    cases he : MArr.sliceExtent ext false true b with
    | error e => rw [he] at h; cases h
    | ok e =>
      rw [he] at h
      simp only at h
      cases hs : pySlice e a b c with
      | error e' => rw [hs] at h; cases h
      | ok idx =>
        rw [hs] at h
        cases h
        show ext ≤ e
        unfold MArr.sliceExtent at he
        simp only [if_true] at he
        cases b with
        | none => simp only [Bool.false_eq_true, if_false] at he; cases he; exact Nat.le_refl _
        | some b =>
          simp only at he
          split at he
          · cases he; exact Nat.le_max_left _ _
          · simp only [Bool.false_eq_true, if_false] at he
            cases he; exact Nat.le_refl _

theorem regionPart_new_pos {p : RPart} {r : Nat × List Nat × Bool} (hok : p.okForNewMode = true)
    (h : MArr.regionPart 0 true true p = .ok r) : 1 ≤ r.1 := by
  cases p with
  | int i =>
    simp only [MArr.regionPart] at h
    split at h
    · split at h
      · cases h; show 1 ≤ max 0 (i.toNat + 1); omega
      · cases h
    · split at h
      · next h1 h2 => omega
      · cases h
  | list is =>
    simp only [MArr.regionPart] at h
    split at h
    · cases h
    · split at h
      · cases h; show 1 ≤ max 0 (maxNat is + 1); omega
      · cases h
  | slice a b c =>
    cases b with
    | none => simp [RPart.okForNewMode] at hok
    | some b =>
      have hb : 1 ≤ b := by simpa [RPart.okForNewMode] using hok
      simp only [MArr.regionPart, MArr.sliceExtent, if_true, bind, Except.bind] at h
      have h0 : 0 ≤ b := by omega
      simp only [h0, if_true] at h
      cases hs : pySlice (max 0 b.toNat) a (some b) c with
      | error e' => rw [hs] at h; cases h
      | ok idx => rw [hs] at h; cases h; show 1 ≤ max 0 b.toNat; omega

/-- After a region write the shape has at least the old order, every old extent is kept
or enlarged and every new mode has extent at least 1. -/
theorem regionParts_grow_props {s : List Nat} {parts : List RPart} {rs : List (Nat × List Nat × Bool)}
    (h : MArr.regionParts true s parts = .ok rs) (hok : newModesOk s parts = true) :
    s.length ≤ rs.length ∧
    (∀ k, k < s.length → s.getD k 0 ≤ (rs.map (·.1)).getD k 0) ∧
    (∀ k, s.length ≤ k → k < rs.length → 1 ≤ (rs.map (·.1)).getD k 0) := by
  induction parts generalizing s rs with
  | nil =>
    cases s with
    | nil => simp [MArr.regionParts] at h; subst h; simp
    | cons e es => simp [MArr.regionParts] at h
  | cons p ps ih =>
    cases s with
    | nil =>
      simp only [newModesOk, Bool.and_eq_true] at hok
      simp only [MArr.regionParts, Bool.not_true, Bool.false_eq_true, ↓reduceIte, bind, Except.bind, pure,
        Except.pure] at h
      cases h1 : MArr.regionPart 0 true true p with
      | error e => rw [h1] at h; cases h
      | ok r =>
        rw [h1] at h
        cases h2 : MArr.regionParts true [] ps with
        | error e => rw [h2] at h; cases h
        | ok rs' =>
          rw [h2] at h
          cases h
          obtain ⟨_, _, i3⟩ := ih h2 hok.2
          refine ⟨by simp, by intro k hk; simp at hk, ?_⟩
          intro k _ hk
          cases k with
          | zero => simpa using regionPart_new_pos hok.1 h1
          | succ k => simpa using i3 k (by simp) (by simpa using hk)
    | cons e es =>
      simp only [newModesOk] at hok
      simp only [MArr.regionParts, bind, Except.bind, pure, Except.pure] at h
      cases h1 : MArr.regionPart e false true p with
      | error e' => rw [h1] at h; cases h
      | ok r =>
        rw [h1] at h
        cases h2 : MArr.regionParts true es ps with
        | error e' => rw [h2] at h; cases h
        | ok rs' =>
          rw [h2] at h
          cases h
          obtain ⟨i1, i2, i3⟩ := ih h2 hok
          refine ⟨by simpa using i1, ?_, ?_⟩
          · intro k hk
            cases k with
            | zero => simpa using regionPart_grow_ge h1
            | succ k => simpa using i2 k (by simpa using hk)
          · intro k hk hk'
            cases k with
            | zero => simp at hk
            | succ k => simpa using i3 k (by simpa using hk) (by simpa using hk')

/-! ### membership in a region -/

theorem mem_outerF_iff (ls : List (List Nat)) (t : List Nat) : t ∈ outerF ls ↔ Sparse.inRegionB ls t = true := by
  induction ls generalizing t with
  | nil => cases t <;> simp [outerF, Sparse.inRegionB]
  | cons l ls ih =>
    simp only [outerF, List.mem_flatMap, List.mem_map]
    cases t with
    | nil =>
      simp only [Sparse.inRegionB]
      constructor
      · rintro ⟨_, _, _, _, h⟩; cases h
      · intro h; cases h
    | cons x xs =>
      simp only [Sparse.inRegionB, Bool.and_eq_true, List.contains_eq_mem, decide_eq_true_eq, ← ih]
      constructor
      · rintro ⟨t', ht', i, hi, he⟩
        cases he
        exact ⟨hi, ht'⟩
      · rintro ⟨h1, h2⟩
        exact ⟨xs, h2, x, h1, rfl⟩

theorem mem_outerC_iff (ls : List (List Nat)) (t : List Nat) : t ∈ outerC ls ↔ Sparse.inRegionB ls t = true := by
  induction ls generalizing t with
  | nil => cases t <;> simp [outerC, Sparse.inRegionB]
  | cons l ls ih =>
    simp only [outerC, List.mem_flatMap, List.mem_map]
    cases t with
    | nil =>
      simp only [Sparse.inRegionB]
      constructor
      · rintro ⟨_, _, _, _, h⟩; cases h
      · intro h; cases h
    | cons x xs =>
      simp only [Sparse.inRegionB, Bool.and_eq_true, List.contains_eq_mem, decide_eq_true_eq, ← ih]
      constructor
      · rintro ⟨i, hi, t', ht', he⟩
        cases he
        exact ⟨hi, ht'⟩
      · rintro ⟨h1, h2⟩
        exact ⟨x, h1, xs, h2, rfl⟩

/-! ### deleting / assigning a set of cells of a stored sparse tensor -/

theorem scatter1_const_getD [Zero α] (vals : List α) (ks : List Nat) (v : α) (k : Nat) (hk : k < vals.length) :
    (scatter1 vals (ks.map fun j => (j, v))).getD k 0 = if k ∈ ks then v else vals.getD k 0 := by
  unfold scatter1
  induction ks generalizing vals with
  | nil => simp
  | cons j ks ih =>
    simp only [List.map_cons, List.foldl_cons]
    rw [ih (vals.set j v) (by simpa using hk)]
    by_cases h1 : k ∈ ks
    · simp [h1]
    · by_cases h2 : k = j
      · subst h2
        simp [h1, List.getD_eq_getElem?_getD, List.getElem?_set, hk]
      · have h3 : ¬ j = k := fun h => h2 h.symm
        simp [h1, h2, List.getD_eq_getElem?_getD, List.getElem?_set, h3]

section ra
variable [AddMonoid α] [DecidableEq α]

theorem kvSum_zip_eq (subs1 : List (List Nat)) (vals : List α) (hn : subs1.Nodup) (hl : subs1.length = vals.length)
    (i : List Nat) :
    kvSum (subs1.zip vals) i = if i ∈ subs1 then vals.getD (subs1.idxOf i) 0 else 0 := by
  rw [zip_eq_map_range subs1 vals hl [] 0,
    kvSum_positions subs1 hn (fun k => vals.getD k 0) _ List.nodup_range (by simp) i]
  by_cases hs : i ∈ subs1
  · have : subs1.idxOf i < subs1.length := List.idxOf_lt_length_iff.2 hs
    simp [hs, this]
  · simp [hs]

/-- Deleting the stored entries that satisfy `R` (the zero right-hand side). -/
theorem region_delete (subs1 : List (List Nat)) (vals : List α) (hn : subs1.Nodup) (hl : subs1.length = vals.length)
    (R : List Nat → Bool) (keep : List Nat)
    (hkeep : keep = setdiff1d (List.range subs1.length)
      ((List.range subs1.length).filter fun k => R (subs1.getD k []))) :
    (keep.map fun k => subs1.getD k []).length = (keep.map fun k => vals.getD k 0).length ∧
    (keep.map fun k => subs1.getD k []).Nodup ∧
    (∀ x ∈ keep.map fun k => subs1.getD k [], x ∈ subs1) ∧
    (∀ v ∈ keep.map fun k => vals.getD k 0, v ∈ vals) ∧
    ∀ i, kvSum ((keep.map fun k => subs1.getD k []).zip (keep.map fun k => vals.getD k 0)) i =
      if R i = true then 0 else kvSum (subs1.zip vals) i := by
  have hmem : ∀ k, k ∈ keep ↔ k < subs1.length ∧ R (subs1.getD k []) = false := by
    intro k
    rw [hkeep, setdiff1d_of_sorted _ _ List.pairwise_lt_range, List.mem_filter, List.mem_range]
    constructor
    · rintro ⟨hk, hnot⟩
      refine ⟨hk, ?_⟩
      cases hR : R (subs1.getD k []) with
      | false => rfl
      | true =>
        have : k ∈ (List.range subs1.length).filter fun k => R (subs1.getD k []) := by
          rw [List.mem_filter]; exact ⟨List.mem_range.2 hk, hR⟩
        rw [List.contains_eq_mem, decide_eq_true this] at hnot
        cases hnot
    · rintro ⟨hk, hR⟩
      refine ⟨hk, ?_⟩
      have : k ∉ (List.range subs1.length).filter fun k => R (subs1.getD k []) := by
        rw [List.mem_filter]; rintro ⟨_, h2⟩; rw [hR] at h2; cases h2
      rw [List.contains_eq_mem, decide_eq_false this]
      rfl
  have hnod : keep.Nodup := by
    rw [hkeep, setdiff1d_of_sorted _ _ List.pairwise_lt_range]
    exact List.Nodup.sublist List.filter_sublist List.nodup_range
  have hlt : ∀ k ∈ keep, k < subs1.length := fun k hk => ((hmem k).1 hk).1
  refine ⟨by simp, ?_, ?_, ?_, ?_⟩
  · apply nodup_map_on _ hnod
    intro x hx y hy hxy
    rw [getD_eq_getElem_nil _ _ (hlt x hx), getD_eq_getElem_nil _ _ (hlt y hy)] at hxy
    exact (List.getElem_inj hn).1 hxy
  · intro x hx
    obtain ⟨k, hk, rfl⟩ := List.mem_map.1 hx
    rw [getD_eq_getElem_nil _ _ (hlt k hk)]
    exact List.getElem_mem _
  · intro v hv
    obtain ⟨k, hk, rfl⟩ := List.mem_map.1 hv
    have hk' : k < vals.length := hl ▸ hlt k hk
    rw [List.getD_eq_getElem?_getD, List.getElem?_eq_getElem hk']
    exact List.getElem_mem _
  · intro i
    rw [zip_map_map, kvSum_positions subs1 hn (fun k => vals.getD k 0) keep hnod hlt i, kvSum_zip_eq subs1 vals hn hl i]
    by_cases hs : i ∈ subs1
    · have hk0 : subs1.idxOf i < subs1.length := List.idxOf_lt_length_iff.2 hs
      have hgetD : subs1.getD (subs1.idxOf i) [] = i := by
        rw [getD_eq_getElem_nil _ _ hk0]; exact List.getElem_idxOf hk0
      have hk : subs1.idxOf i ∈ keep ↔ R i = false := by rw [hmem, hgetD]; simp [hk0]
      cases hR : R i with
      | true =>
        have : subs1.idxOf i ∉ keep := by rw [hk, hR]; simp
        simp [hs, this]
      | false =>
        have : subs1.idxOf i ∈ keep := by rw [hk, hR]
        simp [hs, this]
    · simp [hs]

/-- Assigning the non-zero value `v` to every cell that satisfies `R`: stored entries in
the set get the value, the missing ones are appended. -/
theorem region_assign (subs1 : List (List Nat)) (vals : List α) (hn : subs1.Nodup) (hl : subs1.length = vals.length)
    (R : List Nat → Bool) (v : α) (loc : List Nat) (fresh : List (List Nat))
    (hloc : ∀ k, k ∈ loc ↔ k < subs1.length ∧ R (subs1.getD k []) = true)
    (hfn : fresh.Nodup) (hfm : ∀ r, r ∈ fresh ↔ R r = true ∧ r ∉ subs1) :
    (subs1 ++ fresh).length = (scatter1 vals (loc.map fun k => (k, v)) ++ fresh.map fun _ => v).length ∧
    (subs1 ++ fresh).Nodup ∧
    (∀ x ∈ scatter1 vals (loc.map fun k => (k, v)) ++ fresh.map fun _ => v, x ∈ vals ∨ x = v) ∧
    ∀ i, kvSum ((subs1 ++ fresh).zip (scatter1 vals (loc.map fun k => (k, v)) ++ fresh.map fun _ => v)) i =
      if R i = true then v else kvSum (subs1.zip vals) i := by
  have hsl : (scatter1 vals (loc.map fun k => (k, v))).length = vals.length := scatter1_length _ _
  refine ⟨by simp [hsl, hl], ?_, ?_, ?_⟩
  · rw [List.nodup_append]
    refine ⟨hn, hfn, ?_⟩
    intro a ha b hb hab
    exact ((hfm b).1 hb).2 (hab ▸ ha)
  · intro x hx
    rcases List.mem_append.1 hx with h | h
    · obtain ⟨k, hk, rfl⟩ := List.mem_iff_getElem.1 h
      have hk' : k < vals.length := hsl ▸ hk
      have := scatter1_const_getD vals loc v k hk'
      rw [List.getD_eq_getElem?_getD, List.getElem?_eq_getElem hk] at this
      simp only [Option.getD_some] at this
      rw [this]
      split
      · right; rfl
      · left
        rw [List.getD_eq_getElem?_getD, List.getElem?_eq_getElem hk']
        exact List.getElem_mem _
    · obtain ⟨r, _, rfl⟩ := List.mem_map.1 h
      right; rfl
  · intro i
    rw [List.zip_append (by rw [hsl, hl]), kvSum_append,
      kvSum_zip_eq subs1 _ hn (by rw [hsl, hl]) i, kvSum_zip_eq subs1 vals hn hl i]
    have hfz : fresh.zip (fresh.map fun _ => v) = fresh.map fun r => (r, v) := by
      rw [List.zip_map_right, zip_self_eq, List.map_map]; rfl
    rw [hfz, kvSum_map fresh (fun _ => v) i hfn]
    by_cases hs : i ∈ subs1
    · have hk0 : subs1.idxOf i < subs1.length := List.idxOf_lt_length_iff.2 hs
      have hgetD : subs1.getD (subs1.idxOf i) [] = i := by
        rw [getD_eq_getElem_nil _ _ hk0]; exact List.getElem_idxOf hk0
      have hnf : i ∉ fresh := fun hc => ((hfm i).1 hc).2 hs
      rw [scatter1_const_getD vals loc v _ (hl ▸ hk0)]
      have hk : subs1.idxOf i ∈ loc ↔ R i = true := by rw [hloc, hgetD]; simp [hk0]
      cases hR : R i with
      | true =>
        have : subs1.idxOf i ∈ loc := hk.2 hR
        simp [hs, this, hnf]
      | false =>
        have : subs1.idxOf i ∉ loc := by rw [hk, hR]; simp
        simp [hs, this, hnf]
    · cases hR : R i with
      | true =>
        have : i ∈ fresh := (hfm i).2 ⟨hR, hs⟩
        simp [hs, this]
      | false =>
        have : i ∉ fresh := fun hc => by have := ((hfm i).1 hc).1; rw [hR] at this; cases this
        simp [hs, this]

end ra

/-! ### `tt_intersect_rows` / `tt_setdiff_rows` on subscript rows -/

theorem map_ofNat_inj {r1 r2 : List Nat} (h : r1.map Int.ofNat = r2.map Int.ofNat) : r1 = r2 := by
  induction r1 generalizing r2 with
  | nil => cases r2 with
    | nil => rfl
    | cons b r2 => simp at h
  | cons a r1 ih => cases r2 with
    | nil => simp at h
    | cons b r2 =>
      simp only [List.map_cons, List.cons.injEq] at h
      rw [ih h.2, Int.ofNat.inj h.1]

theorem mem_toIntRows {l : List (List Nat)} {r : List Nat} : r.map Int.ofNat ∈ toIntRows l ↔ r ∈ l := by
  unfold toIntRows
  rw [List.mem_map]
  constructor
  · rintro ⟨x, hx, he⟩; rw [← map_ofNat_inj he]; exact hx
  · intro h; exact ⟨r, h, rfl⟩

theorem toIntRows_getD (l : List (List Nat)) (k : Nat) : (toIntRows l).getD k [] = (l.getD k []).map Int.ofNat := by
  unfold toIntRows
  simp only [List.getD_eq_getElem?_getD, List.getElem?_map]
  cases l[k]? <;> rfl

theorem toIntRows_nodup {l : List (List Nat)} (h : l.Nodup) : (toIntRows l).Nodup :=
  nodup_map_on _ h (fun _ _ _ _ he => map_ofNat_inj he)

theorem firstOccIdx_of_nodup {A : List Row} (h : A.Nodup) (k : Nat) : k ∈ firstOccIdx A ↔ k < A.length := by
  rw [mem_firstOccIdx]
  constructor
  · exact fun h => h.1
  · intro hk
    refine ⟨hk, ?_⟩
    intro j hj he
    rw [getD_of_lt A j (by omega), getD_of_lt A k hk] at he
    have := (List.getElem_inj h).1 he
    omega

/-- positions of the stored subscripts that lie in `addsubs` -/
theorem mem_loc (subs' addsubs : List (List Nat)) (hn : subs'.Nodup) (k : Nat) :
    k ∈ intersectRows (toIntRows subs') (toIntRows addsubs) ↔ k < subs'.length ∧ subs'.getD k [] ∈ addsubs := by
  have hA := toIntRows_nodup hn
  have hlen : (toIntRows subs').length = subs'.length := by simp [toIntRows]
  constructor
  · intro hk
    have h1 := intersect_mem _ _ k hk
    have h2 := (mem_intersect_iff _ _ k h1).1 hk
    rw [firstOccIdx_of_nodup hA, hlen] at h1
    rw [toIntRows_getD, mem_toIntRows] at h2
    exact ⟨h1, h2⟩
  · rintro ⟨h1, h2⟩
    have h1' : k ∈ firstOccIdx (toIntRows subs') := by rw [firstOccIdx_of_nodup hA, hlen]; exact h1
    rw [mem_intersect_iff _ _ k h1', toIntRows_getD, mem_toIntRows]
    exact h2

/-- the distinct rows of `addsubs` that are not stored -/
theorem fresh_spec (subs' addsubs : List (List Nat)) :
    ((setdiffRows (toIntRows addsubs) (toIntRows subs')).map fun k => addsubs.getD k []).Nodup ∧
    ∀ r, r ∈ (setdiffRows (toIntRows addsubs) (toIntRows subs')).map (fun k => addsubs.getD k []) ↔
      r ∈ addsubs ∧ r ∉ subs' := by
  rw [setdiff_spec]
  have hlen : (toIntRows addsubs).length = addsubs.length := by simp [toIntRows]
  constructor
  · apply nodup_map_on
    · exact List.Nodup.sublist List.filter_sublist
        (List.Pairwise.imp (fun h => Nat.ne_of_lt h) (firstOccIdx_pairwise _))
    · intro x hx y hy hxy
      have hx' := (List.mem_filter.1 hx).1
      have hy' := (List.mem_filter.1 hy).1
      apply firstOccIdx_inj hx' hy'
      rw [toIntRows_getD, toIntRows_getD, hxy]
  · intro r
    rw [List.mem_map]
    constructor
    · rintro ⟨k, hk, rfl⟩
      obtain ⟨hk1, hk2⟩ := List.mem_filter.1 hk
      have hlt : k < addsubs.length := by rw [← hlen]; exact ((mem_firstOccIdx _ k).1 hk1).1
      refine ⟨?_, ?_⟩
      · rw [getD_eq_getElem_nil _ _ hlt]; exact List.getElem_mem _
      · intro hc
        rw [toIntRows_getD] at hk2
        have : (toIntRows subs').contains ((addsubs.getD k []).map Int.ofNat) = true := by
          rw [List.contains_eq_mem, decide_eq_true (mem_toIntRows.2 hc)]
        rw [this] at hk2
        cases hk2
    · rintro ⟨h1, h2⟩
      obtain ⟨k, hk, rfl⟩ := List.mem_iff_getElem.1 h1
      obtain ⟨j, hj, he⟩ := exists_firstOcc (toIntRows addsubs) k (by rw [hlen]; exact hk)
      rw [toIntRows_getD, toIntRows_getD] at he
      have he' := map_ofNat_inj he
      rw [getD_eq_getElem_nil _ _ hk] at he'
      refine ⟨j, ?_, he'⟩
      rw [List.mem_filter]
      refine ⟨hj, ?_⟩
      rw [toIntRows_getD, he', List.contains_eq_mem]
      have : ¬ (addsubs[k].map Int.ofNat ∈ toIntRows subs') := fun hc => h2 (mem_toIntRows.1 hc)
      rw [decide_eq_false this]
      rfl

/-! ### the region write refines the specification -/

theorem kvLast_const [Zero α] (l : List (List Nat)) (v : α) (i : List Nat) (hi : i ∈ l) :
    kvLast (l.map fun t => (t, v)) i = v := by
  unfold kvLast
  cases hf : (l.map fun t => (t, v)).reverse.find? (fun e => e.1 == i) with
  | none =>
    rw [List.find?_eq_none] at hf
    exact absurd (by simp) (hf (i, v) (List.mem_reverse.2 (List.mem_map.2 ⟨i, hi, rfl⟩)))
  | some e =>
    have := List.mem_reverse.1 (List.mem_of_find?_eq_some hf)
    obtain ⟨t, _, rfl⟩ := List.mem_map.1 this
    rfl

theorem zip_replicate_eq_map {β γ : Type} (l : List β) (v : γ) : l.zip (List.replicate l.length v) = l.map fun t => (t, v) := by
  induction l with
  | nil => rfl
  | cons a l ih => simp [List.replicate_succ, ih]

theorem padSubs_nil (w : Nat) : Sparse.padSubs [] w = [] := rfl

section rr
variable [AddMonoid α] [DecidableEq α]

/-- The stored tensor after `_set_subtensor` with a scalar represents the specification's
result: the enlarged array with every cell of the region set to the scalar. -/
theorem regionScalarApply_spec {S : Sparse α} {m : MArr α} (h : SRel S m) (s' : List Nat) (idx : List (List Nat))
    (v : α) (hnw : S.shape.length ≤ s'.length)
    (h1 : ∀ k, k < S.shape.length → S.shape.getD k 0 ≤ s'.getD k 0)
    (h2 : ∀ k, S.shape.length ≤ k → k < s'.length → 1 ≤ s'.getD k 0)
    (hidx : ∀ t, Sparse.inRegionB idx t = true → InBounds s' t) :
    SRel (Sparse.regionScalarApply S s' idx v) ((m.grow s').assignAll ((outerF idx).map fun t => (t, v))) := by
  have hlenS := Sparse.subs_length h.wf
  have hsubs' : (if S.subs.isEmpty then S.subs else Sparse.padSubs S.subs s'.length) = Sparse.padSubs S.subs s'.length := by
    split
    · next he =>
      have : S.subs = [] := by simpa using he
      rw [this]; rfl
    · rfl
  have hpn : (Sparse.padSubs S.subs s'.length).Nodup := padSubs_nodup S.subs _ _ hlenS h.wf.nodup
  have hpl : (Sparse.padSubs S.subs s'.length).length = S.vals.length := by simp [Sparse.padSubs, h.wf.len]
  have hpin : ∀ x ∈ Sparse.padSubs S.subs s'.length, InBounds s' x := by
    intro x hx
    unfold Sparse.padSubs at hx
    obtain ⟨r, hr, rfl⟩ := List.mem_map.1 hx
    rw [hlenS r hr]
    exact inBounds_pad (h.wf.inb r hr) s'.length rfl hnw h1 h2
  have hgrow := kvSum_pad_eq_grow h s'.length s' hnw rfl h1 h2
  -- the specification's cells
  have hspec : ∀ i, ((m.grow s').assignAll ((outerF idx).map fun t => (t, v))).get i =
      if Sparse.inRegionB idx i = true then v else (m.grow s').get i := by
    intro i
    have hkeys : ((outerF idx).map fun t => (t, v)).map (·.1) = outerF idx := by
      rw [List.map_map]; exact List.map_id _
    by_cases hb : InBounds s' i
    · rw [MArr.assignAll_get _ _ i (by rw [MArr.grow_shape]; exact hb), hkeys]
      by_cases hR : Sparse.inRegionB idx i = true
      · have : i ∈ outerF idx := (mem_outerF_iff idx i).2 hR
        rw [if_pos this, if_pos hR, kvLast_const _ v i this]
      · have : i ∉ outerF idx := fun hc => hR ((mem_outerF_iff idx i).1 hc)
        rw [if_neg this, if_neg hR]
    · have hR : ¬ Sparse.inRegionB idx i = true := fun hc => hb (hidx i hc)
      rw [if_neg hR, MArr.get_of_not_inBounds (m.grow s') (by exact hb),
        MArr.get_of_not_inBounds _ (by rw [MArr.assignAll_shape, MArr.grow_shape]; exact hb)]
  unfold Sparse.regionScalarApply
  simp only [hsubs']
  by_cases hv : v = 0
  · -- zero: delete the region
    have hvb : (v == 0) = true := by simpa using hv
    simp only [hvb, if_true]
    have hrm : (if (Sparse.padSubs S.subs s'.length).isEmpty then []
        else Sparse.subdims (⟨s', Sparse.padSubs S.subs s'.length, S.vals⟩ : Sparse α) idx) =
        (List.range (Sparse.padSubs S.subs s'.length).length).filter
          fun k => Sparse.inRegionB idx ((Sparse.padSubs S.subs s'.length).getD k []) := by
      split
      · next he =>
        have : Sparse.padSubs S.subs s'.length = [] := by simpa using he
        rw [this]; rfl
      · rfl
    rw [hrm]
    obtain ⟨e1, e2, e3, e4, e5⟩ := region_delete (Sparse.padSubs S.subs s'.length) S.vals hpn hpl
      (Sparse.inRegionB idx) _ rfl
    refine ⟨⟨e1, ?_, e2, ?_⟩, ?_, ?_⟩
    · intro x hx; exact hpin x (e3 x hx)
    · intro w hw; exact h.wf.nz w (e4 w hw)
    · show s' = _
      rw [MArr.assignAll_shape, MArr.grow_shape]
    · intro i
      rw [hspec i]
      refine (e5 i).trans ?_
      rw [hgrow i, hv]
  · -- non-zero: overwrite and append
    have hvb : (v == 0) = false := by simpa using hv
    simp only [hvb, Bool.false_eq_true, if_false]
    by_cases hemp : (Sparse.padSubs S.subs s'.length).isEmpty = true
    · have hnil : Sparse.padSubs S.subs s'.length = [] := by simpa using hemp
      have hvnil : S.vals = [] := by
        have := hpl; rw [hnil] at this
        exact List.eq_nil_of_length_eq_zero this.symm
      simp only [hemp, if_true]
      have hfn : (outerC idx).eraseDups.Nodup := eraseDups_nodup _
      have hfm : ∀ r, r ∈ (outerC idx).eraseDups ↔ Sparse.inRegionB idx r = true ∧ r ∉ ([] : List (List Nat)) := by
        intro r; rw [List.mem_eraseDups, mem_outerC_iff]; simp
      obtain ⟨e1, e2, e3, e5⟩ := region_assign ([] : List (List Nat)) ([] : List α) List.nodup_nil rfl
        (Sparse.inRegionB idx) v [] (outerC idx).eraseDups (by intro k; simp) hfn hfm
      simp only [List.nil_append, List.map_nil, scatter1, List.foldl_nil] at e1 e2 e3 e5
      refine ⟨⟨e1, ?_, e2, ?_⟩, ?_, ?_⟩
      · intro x hx; exact hidx x ((hfm x).1 hx).1
      · intro w hw
        rcases e3 w hw with hc | hc
        · cases hc
        · rw [hc]; simpa using hv
      · show s' = _
        rw [MArr.assignAll_shape, MArr.grow_shape]
      · intro i
        rw [hspec i]
        refine (e5 i).trans ?_
        rw [← hgrow i, hnil, hvnil]
    · have hemp' : (Sparse.padSubs S.subs s'.length).isEmpty = false := by
        cases hq : (Sparse.padSubs S.subs s'.length).isEmpty with
        | true => exact absurd hq hemp
        | false => rfl
      simp only [hemp', Bool.false_eq_true, if_false]
      obtain ⟨hfn, hfm'⟩ := fresh_spec (Sparse.padSubs S.subs s'.length) (outerC idx)
      have hfm : ∀ r, r ∈ (setdiffRows (toIntRows (outerC idx)) (toIntRows (Sparse.padSubs S.subs s'.length))).map
          (fun k => (outerC idx).getD k []) ↔
          Sparse.inRegionB idx r = true ∧ r ∉ Sparse.padSubs S.subs s'.length := by
        intro r; rw [hfm' r, mem_outerC_iff]
      have hloc : ∀ k, k ∈ intersectRows (toIntRows (Sparse.padSubs S.subs s'.length)) (toIntRows (outerC idx)) ↔
          k < (Sparse.padSubs S.subs s'.length).length ∧
            Sparse.inRegionB idx ((Sparse.padSubs S.subs s'.length).getD k []) = true := by
        intro k; rw [mem_loc _ _ hpn k, mem_outerC_iff]
      obtain ⟨e1, e2, e3, e5⟩ := region_assign (Sparse.padSubs S.subs s'.length) S.vals hpn hpl
        (Sparse.inRegionB idx) v _ _ hloc hfn hfm
      refine ⟨⟨e1, ?_, e2, ?_⟩, ?_, ?_⟩
      · intro x hx
        rcases List.mem_append.1 hx with hc | hc
        · exact hpin x hc
        · exact hidx x ((hfm x).1 hc).1
      · intro w hw
        rcases e3 w hw with hc | hc
        · exact h.wf.nz w hc
        · rw [hc]; simpa using hv
      · show s' = _
        rw [MArr.assignAll_shape, MArr.grow_shape]
      · intro i
        rw [hspec i]
        refine (e5 i).trans ?_
        rw [hgrow i]

/-- `S[region] = scalar` (zero included) refines the specification, for integer, slice and
index-list key elements, with growth of extents and order. -/
theorem Sparse.setRegionScalar_refines {S : Sparse α} {m : MArr α} (h : SRel S m) (parts : List RPart) (v : α)
    (hne : parts ≠ []) (hok : newModesOk S.shape parts = true) :
    RefWS (S.setItem (.region parts) (.scalar v)) (m.write (.region parts) (.scalar v)) := by
  have hM : S.setItem (.region parts) (.scalar v) =
      (do let r ← (do let ps ← Sparse.rewriteNeg S.shape parts; let s' ← Sparse.newSizeScalar S.shape ps
                      let idx ← Sparse.regionIdx s' ps
                      pure (s', idx) : Except Reject (List Nat × List (List Nat)))
          Except.ok (Sparse.regionScalarApply S r.1 r.2 v)) := by
    rw [Sparse.setItem_region_scalar]
    simp only [Sparse.setSubtensorScalar, bind, Except.bind, pure, Except.pure]
    rcases Sparse.rewriteNeg S.shape parts with ⟨⟨⟩⟩ | ps
    · rfl
    · simp only
      rcases Sparse.newSizeScalar S.shape ps with ⟨⟨⟩⟩ | s'
      · rfl
      · simp only
        rcases Sparse.regionIdx s' ps with ⟨⟨⟩⟩ | idx <;> rfl
  rw [hM, sp_region S.shape parts hok]
  have hemp : parts.isEmpty = false := by cases parts <;> simp_all
  simp only [MArr.write, MArr.resolveWrite, hemp, Bool.false_eq_true, ↓reduceIte, ← h.shape]
  cases hr : MArr.regionParts true S.shape parts with
  | error e => simp [RefWS, Except.map, bind, Except.bind]
  | ok rs =>
    simp only [RefWS, Except.map, bind, Except.bind, MArr.regionValues, pure, Except.pure]
    rw [zip_replicate_eq_map]
    obtain ⟨g1, g2, g3⟩ := regionParts_grow_props hr hok
    apply regionScalarApply_spec h
    · simpa using g1
    · exact g2
    · intro k hk hk'; exact g3 k hk (by simpa using hk')
    · intro t ht
      exact outerF_inBounds rs (regionParts_lt hr) t ((mem_outerF_iff _ t).2 ht)

end rr

/-! ### reading a single element: an all-integer region key -/

/-- every key element is an integer inside `-extent .. extent-1` (and the key has as many
elements as the tensor has modes) -/
def intsInRange : List Nat → List RPart → Bool
  | [], [] => true
  | e :: es, .int i :: ps => decide (-(e : Int) ≤ i) && decide (i < (e : Int)) && intsInRange es ps
  | _, _ => false

/-- the subscript an in-range all-integer key addresses -/
def intsTarget : List Nat → List RPart → List Nat
  | e :: es, .int i :: ps => (if i < 0 then (i + (e : Int)).toNat else i.toNat) :: intsTarget es ps
  | _, _ => []

theorem ints_resolve (s : List Nat) (parts : List RPart) (h : intsInRange s parts = true) :
    InBounds s (intsTarget s parts) ∧
    Sparse.rewriteNeg s parts = .ok ((intsTarget s parts).map fun (x : Nat) => RPart.int (x : Int)) ∧
    Sparse.regionIdx s ((intsTarget s parts).map fun (x : Nat) => RPart.int (x : Int)) =
      .ok ((intsTarget s parts).map fun x => [x]) ∧
    MArr.regionParts false s parts =
      .ok (List.zipWith (fun e x => (e, [x], false)) s (intsTarget s parts)) := by
  induction parts generalizing s with
  | nil =>
    cases s with
    | nil => exact ⟨trivial, rfl, rfl, rfl⟩
    | cons e es => simp [intsInRange] at h
  | cons p ps ih =>
    cases s with
    | nil => simp [intsInRange] at h
    | cons e es =>
      cases p with
      | slice a b c => simp [intsInRange] at h
      | list l => simp [intsInRange] at h
      | int i =>
        simp only [intsInRange, Bool.and_eq_true, decide_eq_true_eq] at h
        obtain ⟨⟨h1, h2⟩, h3⟩ := h
        obtain ⟨i1, i2, i3, i4⟩ := ih es h3
        simp only [intsTarget, List.map_cons]
        by_cases hneg : i < 0
        · have hx' : ¬ (0 : Int) ≤ i := by omega
          have hnn : 0 ≤ i + (e : Int) := by omega
          have hcast : (((i + (e : Int)).toNat : Nat) : Int) = (e : Int) + i := by omega
          refine ⟨?_, ?_, ?_, ?_⟩
          · simp only [hneg, if_true, InBounds]; exact ⟨by omega, i1⟩
          · simp only [Sparse.rewriteNeg, Sparse.rewriteNegPart, hneg, if_true, i2, bind, Except.bind, hcast]
          · simp only [hneg, if_true, Sparse.regionIdx, Sparse.partIdx, i3, bind, Except.bind]
            have : (0 : Int) ≤ ((i + (e : Int)).toNat : Int) := by omega
            rw [if_pos this]
            simp only [Int.toNat_natCast]
          · simp only [MArr.regionParts, MArr.regionPart, hx', if_false, hnn, if_true, hneg, i4, bind, Except.bind,
              pure, Except.pure, List.zipWith_cons_cons]
        · have hx : (0 : Int) ≤ i := by omega
          have hlt : i.toNat < e := by omega
          have hcast : ((i.toNat : Nat) : Int) = i := by omega
          refine ⟨?_, ?_, ?_, ?_⟩
          · simp only [hneg, if_false, InBounds]; exact ⟨hlt, i1⟩
          · simp only [Sparse.rewriteNeg, Sparse.rewriteNegPart, hneg, if_false, i2, bind, Except.bind, hcast]
          · simp only [hneg, if_false, Sparse.regionIdx, Sparse.partIdx, i3, bind, Except.bind]
            have : (0 : Int) ≤ ((i.toNat : Nat) : Int) := by omega
            rw [if_pos this]
            simp only [Int.toNat_natCast]
          · have hmax : max e (i.toNat + 1) = e := by omega
            simp only [MArr.regionParts, MArr.regionPart, hx, if_true, hlt, true_or, hneg, if_false, i4, bind,
              Except.bind, pure, Except.pure, List.zipWith_cons_cons, hmax]

theorem zipWith_idx (s t : List Nat) (hl : t.length = s.length) :
    (List.zipWith (fun e x => ((e, [x], false) : Nat × List Nat × Bool)) s t).map (·.2.1) = t.map fun x => [x] := by
  induction s generalizing t with
  | nil => cases t with
    | nil => rfl
    | cons a t => simp at hl
  | cons e s ih => cases t with
    | nil => simp at hl
    | cons a t => simp [ih t (by simpa using hl)]

theorem zipWith_kept (s t : List Nat) :
    MArr.keptShape (List.zipWith (fun e x => ((e, [x], false) : Nat × List Nat × Bool)) s t) = [] := by
  unfold MArr.keptShape
  induction s generalizing t with
  | nil => rfl
  | cons e s ih => cases t with
    | nil => rfl
    | cons a t => simpa using ih t

theorem outerF_singletons (t : List Nat) : outerF (t.map fun x => [x]) = [t] := by
  induction t with
  | nil => rfl
  | cons a t ih => simp [outerF, ih]

theorem inRegionB_singletons (t r : List Nat) : Sparse.inRegionB (t.map fun x => [x]) r = (r == t) := by
  induction t generalizing r with
  | nil => cases r <;> rfl
  | cons a t ih =>
    cases r with
    | nil => rfl
    | cons b r =>
      simp only [List.map_cons, Sparse.inRegionB, ih]
      by_cases hab : b = a
      · subst hab; simp
      · have h1 : ([a].contains b) = false := by simp [hab]
        have h2 : ((b :: r) == (a :: t)) = false := by
          simp [hab]
        rw [h1, h2]; rfl

theorem range_filter_succ (n : Nat) (p : Nat → Bool) :
    (List.range (n + 1)).filter p = (if p 0 then [0] else []) ++ ((List.range n).filter (fun k => p (k + 1))).map (· + 1) := by
  rw [List.range_succ_eq_map, List.filter_cons, List.filter_map]
  split <;> rfl

section rd
variable [AddMonoid α] [DecidableEq α]

theorem filter_lookup (subs : List (List Nat)) (vals : List α) (hn : subs.Nodup) (t : List Nat) :
    ((List.range subs.length).filter fun k => subs.getD k [] == t).map (fun k => vals.getD k 0) =
      if t ∈ subs then [vals.getD (subs.idxOf t) 0] else [] := by
  induction subs generalizing vals with
  | nil => simp
  | cons a subs ih =>
    simp only [List.nodup_cons] at hn
    rw [List.length_cons, range_filter_succ]
    have ih' := ih vals.tail hn.2
    have hshift : ((List.range subs.length).filter fun k => (a :: subs).getD (k + 1) [] == t) =
        (List.range subs.length).filter fun k => subs.getD k [] == t := by
      apply List.filter_congr; intro k _; simp
    rw [hshift, List.map_append, List.map_map]
    have hvals : ((fun k => vals.getD k 0) ∘ fun x => x + 1) = fun k => vals.tail.getD k 0 := by
      funext k
      cases vals with
      | nil => simp
      | cons v vs => simp
    rw [hvals, ih']
    by_cases hat : a = t
    · subst hat
      have : a ∉ subs := hn.1
      simp [this]
    · have h1 : ((a :: subs).getD 0 [] == t) = false := by simpa using hat
      by_cases hm : t ∈ subs
      · have hidx : (a :: subs).idxOf t = subs.idxOf t + 1 := by
          rw [List.idxOf_cons]
          have : (a == t) = false := by simpa using hat
          simp [this]
        have hmem : t ∈ a :: subs := List.mem_cons_of_mem _ hm
        rw [h1, if_pos hm, if_pos hmem, hidx]
        cases vals with
        | nil => simp
        | cons v vs => simp
      · have hmem : t ∉ a :: subs := by
          simp only [List.mem_cons, not_or]; exact ⟨fun h => hat h.symm, hm⟩
        rw [h1, if_neg hm, if_neg hmem]
        rfl

theorem kvSum_zip_lookup (subs : List (List Nat)) (vals : List α) (hn : subs.Nodup) (hl : subs.length = vals.length)
    (t : List Nat) : (if t ∈ subs then vals.getD (subs.idxOf t) 0 else 0) = kvSum (subs.zip vals) t :=
  (kvSum_zip_eq subs vals hn hl t).symm

/-- `S[i1, …, in]` with in-range integers returns the cell as a scalar. -/
theorem Sparse.getItem_ints {S : Sparse α} {m : MArr α} (h : SRel S m) (parts : List RPart)
    (hne : parts ≠ []) (hin : intsInRange S.shape parts = true) :
    (S.getItem (.region parts)).map SpReadOut.toReadOut = m.read (.region parts) := by
  obtain ⟨hb, hrw, hidx, hrp⟩ := ints_resolve S.shape parts hin
  generalize ht : intsTarget S.shape parts = t at *
  have htl : t.length = S.shape.length := hb.length_eq
  have hpl : parts.length = S.shape.length := by
    have := regionParts_length hrp
    have h2 := congrArg List.length (regionParts_read_shape hrp)
    simp only [List.length_map] at h2
    omega
  -- specification side
  have hemp : parts.isEmpty = false := by cases parts <;> simp_all
  have hspec : m.read (.region parts) = .ok (.scalar (m.get t)) := by
    simp only [MArr.read, hemp, Bool.false_eq_true, ↓reduceIte, ← h.shape, hrp, bind, Except.bind,
      zipWith_kept, zipWith_idx S.shape t htl, outerF_singletons]
    rfl
  rw [hspec]
  -- model side
  simp only [Sparse.getItem, hpl, ne_eq, not_true_eq_false, ↓reduceIte, hrw, hidx, bind, Except.bind]
  unfold Sparse.regionRead
  have hall : (t.map fun (x : Nat) => RPart.int (x : Int)).all RPart.isInt = true := by
    rw [List.all_eq_true]
    intro q hq
    obtain ⟨x, _, rfl⟩ := List.mem_map.1 hq
    rfl
  have hlist : ((t.map fun (x : Nat) => RPart.int (x : Int)).zip S.shape).any (fun pe => pe.1.listBeyond pe.2) = false := by
    rw [List.any_eq_false]
    intro pe hpe
    have := (List.of_mem_zip (a := pe.1) (b := pe.2) hpe).1
    obtain ⟨x, _, hx⟩ := List.mem_map.1 this
    rw [← hx]
    simp [RPart.listBeyond]
  simp only [hlist, Bool.false_eq_true, and_false, ↓reduceIte, hall]
  have hloc : (if S.subs.isEmpty then [] else S.subdims (t.map fun x => [x])) =
      (List.range S.subs.length).filter fun k => S.subs.getD k [] == t := by
    split
    · next he =>
      have : S.subs = [] := by simpa using he
      rw [this]; rfl
    · unfold Sparse.subdims
      apply List.filter_congr
      intro k _
      exact inRegionB_singletons t _
  have hvals : (S.takeAt (if S.subs.isEmpty then [] else S.subdims (t.map fun x => [x]))).vals =
      if t ∈ S.subs then [S.vals.getD (S.subs.idxOf t) 0] else [] := by
    rw [hloc]
    exact filter_lookup S.subs S.vals h.wf.nodup t
  rw [hvals]
  have hget : m.get t = if t ∈ S.subs then S.vals.getD (S.subs.idxOf t) 0 else 0 := by
    rw [← h.cell t]
    exact kvSum_zip_eq S.subs S.vals h.wf.nodup h.wf.len t
  rw [hget]
  by_cases hm : t ∈ S.subs
  · simp [hm, Except.map, SpReadOut.toReadOut]
  · simp [hm, Except.map, SpReadOut.toReadOut]

end rd

end Pyttb
