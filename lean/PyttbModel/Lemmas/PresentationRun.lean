/-
C18, whole-run scale equivariance of CP-ALS (the model of C09: `Alg/CpAls.lean`).

Two runs are compared: data `D` denoting the array `X` and data `D'` denoting `c • X`, `c > 0`,
same start, same services.  The factor matrices of the two runs are NOT equal and not equal up to
the factor `c` either (the column scale is the 2-norm in pass 0 and `max(max|·|, 1)` afterwards);
they are equal up to positive per-column scalings `d m r` (mode `m`, component `r`) such that
`weights'[r] · ∏ₘ d m r = c · weights[r]` — the simulation relation `Sim`.  It is preserved by every
mode update, hence by every pass and by the loop; it forces the model TENSOR of the second run to
be `c` times the first one, the fits to be equal and the stop decisions to coincide.
-/
import PyttbModel.Lemmas.CpAlsRun
import PyttbModel.Lemmas.CpAlsKnorm
import Mathlib.Algebra.Order.Ring.Abs
import Mathlib.Algebra.BigOperators.Group.List.Lemmas
import Mathlib.Algebra.Order.BigOperators.GroupWithZero.List

set_option linter.unusedSectionVars false
set_option linter.unusedSimpArgs false
set_option linter.unnecessarySeqFocus false
set_option linter.unusedVariables false
namespace Pyttb.CpAls
open Pyttb

/-! ## 1. small helpers -/

section helpers
variable {α : Type}

theorem get_tab_row_ge [Zero α] (I R : Nat) (f : Nat → Nat → α) {i r : Nat} (hi : I ≤ i) :
    (tab I R f).get i r = 0 := by
  unfold Mat.get
  simp [tab, List.getD_eq_getElem?_getD, List.getElem?_eq_none, hi]

theorem get_tab_ite [Zero α] (I R : Nat) (f : Nat → Nat → α) (i r : Nat) :
    (tab I R f).get i r = if i < I ∧ r < R then f i r else 0 := by
  by_cases hi : i < I
  · by_cases hr : r < R
    · rw [get_tab _ _ _ hi hr, if_pos ⟨hi, hr⟩]
    · rw [get_tab_ge _ _ _ (Nat.le_of_not_lt hr), if_neg (fun h => hr h.2)]
  · rw [get_tab_row_ge _ _ _ (Nat.le_of_not_lt hi), if_neg (fun h => hi h.1)]

theorem get_nil [Zero α] (i r : Nat) : Mat.get ([] : Mat α) i r = 0 := by
  simp [Mat.get]

theorem prodOver_eq [CommMonoid α] (l : List Nat) (f : Nat → α) : prodOver l f = (l.map f).prod := by
  unfold prodOver; rw [List.prod_eq_foldr]

theorem prod_map_ite_ne [CommMonoid α] (l : List Nat) (n : Nat) (f : Nat → α) :
    (l.map fun m => if m = n then 1 else f m).prod = ((l.filter (· != n)).map f).prod := by
  induction l with
  | nil => simp
  | cons a l ih =>
    by_cases h : a = n
    · simp [List.filter_cons, h, ih]
    · simp [List.filter_cons, h, ih]

theorem prod_map_mul' [CommMonoid α] (l : List Nat) (f g : Nat → α) :
    (l.map fun m => f m * g m).prod = (l.map f).prod * (l.map g).prod := by
  induction l with
  | nil => simp
  | cons a l ih => simp only [List.map_cons, List.prod_cons, ih]; exact mul_mul_mul_comm _ _ _ _

theorem prod_filter_split [CommMonoid α] (N n : Nat) (hn : n < N) (f : Nat → α) :
    ((List.range N).map f).prod = f n * (((List.range N).filter (· != n)).map f).prod := by
  induction N with
  | zero => omega
  | succ N ih =>
    rw [List.range_succ, List.map_append, List.prod_append, List.filter_append, List.map_append,
      List.prod_append]
    by_cases h : n = N
    · subst h
      have : (List.range n).filter (· != n) = List.range n := by
        rw [List.filter_eq_self]
        intro a ha
        have := List.mem_range.1 ha
        simp; omega
      simp [this, mul_comm]
    · have hlt : n < N := by omega
      have hN : (N != n) = true := by simp; omega
      rw [ih hlt]
      simp [List.filter_cons, hN, mul_assoc]

end helpers

/-! ## 2. factors equal up to column scalings; the component products -/

section colscaled
variable {α : Type} [Field α]

/-- `∏_{m<N} e m` as a list product -/
def prodN (N : Nat) (e : Nat → α) : α := ((List.range N).map e).prod

/-- Scaling law for the component product `∏ₘ Uₘ[jₘ, r]`: if, for every mode `m`, column `r'` of
`U'ₘ` is `e m` times column `r` of `Uₘ`, the product for `U'` is `∏ₘ e m` times the one for `U`. -/
theorem compOf_scale (U U' : List (Mat α)) (j : List Nat) (r r' : Nat) (e : Nat → α)
    (hl : U'.length = U.length) (hj : j.length = U.length)
    (h : ∀ m < U.length, ∀ i, (U'.getD m []).get i r' = (U.getD m []).get i r * e m) :
    compOf U' r' j = compOf U r j * prodN U.length e := by
  induction U generalizing U' j e with
  | nil =>
    cases U' with
    | nil => simp [compOf, prodN]
    | cons _ _ => simp at hl
  | cons A U ih =>
    cases U' with
    | nil => simp at hl
    | cons A' U' =>
      cases j with
      | nil => simp at hj
      | cons i j =>
        simp only [List.length_cons, Nat.add_right_cancel_iff] at hl hj
        have h0 := h 0 (by simp) i
        simp only [List.getD_cons_zero] at h0
        have ih' := ih U' j (fun m => e (m + 1)) hl hj (fun m hm i => by
          have := h (m + 1) (by simp; omega) i
          simpa using this)
        unfold compOf at ih' ⊢
        simp only [List.zipWith_cons_cons, List.prod_cons, List.length_cons]
        rw [ih', h0]
        unfold prodN
        rw [List.range_succ_eq_map, List.map_cons, List.prod_cons, List.map_map]
        simp only [Function.comp_def, Nat.succ_eq_add_one]
        ring

/-- a column of one factor that vanishes kills the component -/
theorem compOf_zero (U : List (Mat α)) (j : List Nat) (r n : Nat) (hj : j.length = U.length)
    (hn : n < U.length) (hz : ∀ i, (U.getD n []).get i r = 0) : compOf U r j = 0 := by
  have := compOf_scale U U j r r (fun m => if m = n then 0 else 1) rfl hj (fun m hm i => by
    by_cases h : m = n
    · subst h; rw [hz, if_pos rfl, mul_zero]
    · rw [if_neg h, mul_one])
  rw [this]
  have : prodN U.length (fun m => if m = n then (0 : α) else 1) = 0 := by
    unfold prodN
    apply List.prod_eq_zero
    simp only [List.mem_map, List.mem_range]
    exact ⟨n, hn, by simp⟩
  rw [this, mul_zero]

/-- The factor lists `U`, `U'` agree up to the column scalings `d m r`. -/
def ColScaled (d : Nat → Nat → α) (U U' : List (Mat α)) : Prop :=
  ∀ m i r, (U'.getD m []).get i r = (U.getD m []).get i r * d m r

/-- the product of all scalings of component `r` -/
def dAll (d : Nat → Nat → α) (N r : Nat) : α := prodN N fun m => d m r

/-- the product of the scalings of component `r` over the modes other than `n` -/
def dOther (d : Nat → Nat → α) (N n r : Nat) : α :=
  (((List.range N).filter (· != n)).map fun m => d m r).prod

theorem dAll_split (d : Nat → Nat → α) {N n : Nat} (hn : n < N) (r : Nat) :
    dAll d N r = d n r * dOther d N n r :=
  prod_filter_split N n hn _

theorem dOther_congr (d d1 : Nat → Nat → α) (N n r : Nat) (h : ∀ m, m ≠ n → d1 m r = d m r) :
    dOther d1 N n r = dOther d N n r := by
  unfold dOther
  congr 1
  refine List.map_congr_left fun m hm => ?_
  simp only [List.mem_filter, bne_iff_ne, ne_eq] at hm
  exact h m hm.2

theorem ColScaled.comp {d : Nat → Nat → α} {U U' : List (Mat α)} (h : ColScaled d U U')
    (hl : U'.length = U.length) (j : List Nat) (hj : j.length = U.length) (r : Nat) :
    compOf U' r j = compOf U r j * dAll d U.length r :=
  compOf_scale U U' j r r (fun m => d m r) hl hj (fun m _ i => h m i r)

/-- replacing mode `n` by the same matrix on both sides: the scaling of mode `n` drops out -/
theorem ColScaled.comp_set {d : Nat → Nat → α} {U U' : List (Mat α)} (h : ColScaled d U U')
    (hl : U'.length = U.length) (n : Nat) (E : Mat α) (j : List Nat) (hj : j.length = U.length) (r : Nat) :
    compOf (U'.set n E) r j = compOf (U.set n E) r j * dOther d U.length n r := by
  have := compOf_scale (U.set n E) (U'.set n E) j r r (fun m => if m = n then 1 else d m r)
    (by simp [hl]) (by simp [hj]) (fun m hm i => by
      simp only [List.length_set] at hm
      by_cases hmn : m = n
      · subst hmn
        rw [getD_set_eq _ _ _ _ hm, getD_set_eq _ _ _ _ (by rw [hl]; exact hm)]
        simp
      · rw [getD_set_ne _ _ _ (Ne.symm hmn), getD_set_ne _ _ _ (Ne.symm hmn), if_neg hmn]
        exact h m i r)
  rw [this, List.length_set]
  unfold prodN dOther
  rw [prod_map_ite_ne]

end colscaled

/-! ## 3. an entry of `mttkrp` is an inner product (from the interface laws); its scaling -/

section mttkrp
variable {α : Type} [Field α]

/-- the `r`-th unit weight vector of length `R` -/
def unitW (R r : Nat) : List α := (List.range R).map fun a => if a = r then 1 else 0

/-- the `I × R` matrix with a single one at `(i, r)` -/
def unitMat (I R i r : Nat) : Mat α := tab I R fun i' r' => if i' = i ∧ r' = r then 1 else 0

theorem length_unitW (R r : Nat) : (unitW R r : List α).length = R := by simp [unitW]

theorem unitW_getD (R r a : Nat) (ha : a < R) : (unitW R r : List α).getD a 0 = if a = r then 1 else 0 := by
  simp [unitW, List.getD_eq_getElem?_getD, ha]

theorem ktensor_get_unit (R r : Nat) (hr : r < R) (V : List (Mat α)) (j : List Nat) :
    Ktensor.get ⟨unitW R r, V⟩ j = compOf V r j := by
  rw [ktensor_get_eq, length_unitW, Finset.sum_eq_single r]
  · rw [unitW_getD R r r hr, if_pos rfl, one_mul]
  · intro a ha hne
    rw [unitW_getD R r a (Finset.mem_range.1 ha), if_neg hne, zero_mul]
  · intro h; exact absurd (Finset.mem_range.2 hr) h

/-- An in-range entry of `mttkrp(X, U, n)` is the inner product of `X` with the rank-one array
whose mode-`n` vector is the `i`-th unit vector and whose other vectors are the `r`-th columns of
the other factors — a consequence of the two interface laws of `DataLaws`. -/
theorem mttkrp_entry {D : Data α} {X : List Nat → α} (hD : DataLaws D X) {R : Nat} {U : List (Mat α)}
    (hU : ShapeOK D.shape R U) {n i r : Nat} (hn : n < D.shape.length) (hi : i < D.shape.getD n 0)
    (hr : r < R) :
    (D.mttkrp U n).get i r =
      ip D.shape X (fun j => compOf (U.set n (unitMat (D.shape.getD n 0) R i r)) r j) := by
  have hshape : ShapeOK D.shape (unitW R r : List α).length (U.set n (unitMat (D.shape.getD n 0) R i r)) := by
    rw [length_unitW]; exact hU.set n _ (isMat_tab _ _ _)
  have law := hD.mttkrp_law (unitW R r) (U.set n (unitMat (D.shape.getD n 0) R i r)) n hn hshape
  have hfun : Ktensor.get ⟨(unitW R r : List α), U.set n (unitMat (D.shape.getD n 0) R i r)⟩ =
      fun j => compOf (U.set n (unitMat (D.shape.getD n 0) R i r)) r j := by
    funext j; exact ktensor_get_unit R r hr _ j
  rw [hfun] at law
  rw [law, length_unitW, hD.mttkrp_indep, getD_set_eq _ _ _ _ (by rw [hU.1]; exact hn)]
  simp only [sumRange_eq]
  rw [Finset.sum_eq_single r]
  · rw [Finset.sum_eq_single i]
    · rw [unitW_getD R r r hr, if_pos rfl, one_mul, unitMat, get_tab _ _ _ hi hr, if_pos ⟨rfl, rfl⟩, mul_one]
    · intro i' hi' hne
      rw [unitMat, get_tab _ _ _ (Finset.mem_range.1 hi') hr, if_neg (fun h => hne h.1), mul_zero, mul_zero]
    · intro h; exact absurd (Finset.mem_range.2 hi) h
  · intro a ha hne
    rw [unitW_getD R r a (Finset.mem_range.1 ha), if_neg hne]
    simp
  · intro h; exact absurd (Finset.mem_range.2 hr) h

theorem ip_congr (s : List Nat) (X f g : List Nat → α) (h : ∀ j, j.length = s.length → f j = g j) :
    ip s X f = ip s X g := by
  unfold ip
  congr 1
  refine List.map_congr_left fun j hj => ?_
  rw [h j (mem_allSubs.1 hj).length_eq]

theorem ip_smul_left (s : List Nat) (X f : List Nat → α) (c : α) :
    ip s (fun j => c * X j) f = c * ip s X f := by
  unfold ip
  rw [← List.sum_map_mul_left]
  congr 1
  refine List.map_congr_left fun j _ => ?_
  ring

theorem ip_smul_right (s : List Nat) (X f : List Nat → α) (c : α) :
    ip s X (fun j => c * f j) = c * ip s X f := by
  unfold ip
  rw [← List.sum_map_mul_left]
  congr 1
  refine List.map_congr_left fun j _ => ?_
  ring

/-- `mttkrp` for the data scaled by `c`, on factors whose columns are scaled by `d`: entry `(i, r)`
is `c · ∏_{m≠n} d m r` times the original entry. -/
theorem mttkrp_scaled {D D' : Data α} {X : List Nat → α} {c : α} (hD : DataLaws D X)
    (hD' : DataLaws D' (fun j => c * X j)) (hs : D'.shape = D.shape) {R : Nat} {U U' : List (Mat α)}
    (hU : ShapeOK D.shape R U) (hU' : ShapeOK D.shape R U') {d : Nat → Nat → α} (hd : ColScaled d U U')
    {n i r : Nat} (hn : n < D.shape.length) (hi : i < D.shape.getD n 0) (hr : r < R) :
    (D'.mttkrp U' n).get i r = c * dOther d D.shape.length n r * (D.mttkrp U n).get i r := by
  rw [mttkrp_entry hD hU hn hi hr, mttkrp_entry hD' (by rw [hs]; exact hU') (by rw [hs]; exact hn)
    (by rw [hs]; exact hi) hr, hs, ip_smul_left]
  have hl : U'.length = U.length := by rw [hU.1, hU'.1]
  rw [ip_congr D.shape X _ (fun j => dOther d D.shape.length n r *
      compOf (U.set n (unitMat (D.shape.getD n 0) R i r)) r j) (fun j hj => by
    rw [hd.comp_set hl n _ j (by rw [hj, hU.1]) r, hU.1, mul_comm])]
  rw [ip_smul_right]
  ring

end mttkrp

/-! ## 4. the coefficient matrix, the all-zero guard, the solve -/

section solve
variable {α : Type} [Field α] [LinearOrder α] [IsStrictOrderedRing α]

theorem gram_get (A : Mat α) (R : Nat) {a b : Nat} (ha : a < R) (hb : b < R) :
    (gram A R).get a b = sumRange A.length fun i => A.get i a * A.get i b := by
  rw [gram, get_tab _ _ _ ha hb]

theorem coef_get (UtU : List (Mat α)) (N R n : Nat) {a b : Nat} (ha : a < R) (hb : b < R) :
    (coef UtU N R n).get a b =
      (((List.range N).filter (· != n)).map fun m => (UtU.getD m []).get a b).prod := by
  rw [coef, get_tab _ _ _ ha hb, prodOver_eq]

/-- The coefficient matrix of the second run is `Δ Y Δ` with `Δ = diag(∏_{m≠n} d m ·)`. -/
theorem coef_scaled {s : List Nat} {R : Nat} {st st' : State α} (hG : GramOK R st) (hG' : GramOK R st')
    (hU : ShapeOK s R st.U) (hU' : ShapeOK s R st'.U) {d : Nat → Nat → α} (hd : ColScaled d st.U st'.U)
    (n : Nat) {a b : Nat} (ha : a < R) (hb : b < R) :
    (coef st'.UtU s.length R n).get a b =
      dOther d s.length n a * dOther d s.length n b * (coef st.UtU s.length R n).get a b := by
  rw [coef_get _ _ _ _ ha hb, coef_get _ _ _ _ ha hb]
  unfold dOther
  rw [← prod_map_mul', ← prod_map_mul']
  congr 1
  refine List.map_congr_left fun m hm => ?_
  simp only [List.mem_filter, List.mem_range] at hm
  have hm1 : m < st.U.length := by rw [hU.1]; exact hm.1
  have hm2 : m < st'.U.length := by rw [hU'.1]; exact hm.1
  rw [hG.2 m hm1, hG'.2 m hm2, gram_get _ _ ha hb, gram_get _ _ ha hb, (hU.2 m hm.1).1, (hU'.2 m hm.1).1]
  simp only [sumRange_eq]
  rw [Finset.mul_sum]
  refine Finset.sum_congr rfl fun i _ => ?_
  rw [hd m i a, hd m i b]
  ring

theorem allZero_tab {o : NumOps α} (ho : o.Lawful) (I R : Nat) (f : Nat → Nat → α) :
    allZero o (tab I R f) = true ↔ ∀ i < I, ∀ r < R, f i r = 0 := by
  simp [allZero, tab, List.all_eq_true, ho.isZero_iff]

theorem allZero_coef_iff {o : NumOps α} (ho : o.Lawful) (UtU : List (Mat α)) (N R n : Nat) :
    allZero o (coef UtU N R n) = true ↔ ∀ a < R, ∀ b < R, (coef UtU N R n).get a b = 0 := by
  unfold coef
  rw [allZero_tab ho]
  constructor
  · intro h a ha b hb; rw [get_tab _ _ _ ha hb]; exact h a ha b hb
  · intro h a ha b hb; have := h a ha b hb; rwa [get_tab _ _ _ ha hb] at this

/-- `Y` (an `R × R` matrix) is non-singular, said without matrices: a row vector that `Y` sends to
zero is zero.  This is what makes the answer of the solver unique. -/
def LeftInj (Y : Mat α) (R : Nat) : Prop :=
  ∀ v : Nat → α, (∀ r < R, sumRange R (fun a => v a * Y.get a r) = 0) → ∀ a < R, v a = 0

/-- Row `i` of the solver's answer for the system `(Δ Y Δ, c · B Δ)` is `c · (row i of the answer
for (Y, B)) · Δ⁻¹` when `Y` is non-singular. -/
theorem solve_scaled {S : Services α} (hS : SolveContract S) {n R : Nat} {Y Y' B B' A A' : Mat α}
    (hs : S.solve n Y B = .ok A) (hs' : S.solve n Y' B' = .ok A') (hY : Y.length = R) (hY' : Y'.length = R)
    {δ : Nat → α} (hδ : ∀ a < R, δ a ≠ 0) {c : α}
    (hYs : ∀ a < R, ∀ b < R, Y'.get a b = δ a * δ b * Y.get a b) (hinj : LeftInj Y R) (i : Nat)
    (hB : ∀ r < R, B'.get i r = c * δ r * B.get i r) :
    ∀ a < R, A'.get i a = c / δ a * A.get i a := by
  have hv := hinj (fun a => A'.get i a * δ a - c * A.get i a) (fun r hr => by
    have h1 := hS _ _ _ _ hs' R i r hY' hr
    have h2 := hS _ _ _ _ hs R i r hY hr
    simp only [sumRange_eq] at h1 h2 ⊢
    have h3 : δ r * (∑ a ∈ Finset.range R, A'.get i a * δ a * Y.get a r) = δ r * (c * B.get i r) := by
      rw [show δ r * (c * B.get i r) = c * δ r * B.get i r by ring, ← hB r hr, ← h1, Finset.mul_sum]
      refine Finset.sum_congr rfl fun a ha => ?_
      rw [hYs a (Finset.mem_range.1 ha) r hr]
      ring
    have h4 := mul_left_cancel₀ (hδ r hr) h3
    simp only [sub_mul]
    rw [Finset.sum_sub_distrib, h4, ← h2, Finset.mul_sum]
    rw [sub_eq_zero]
    refine Finset.sum_congr rfl fun a _ => ?_
    ring)
  intro a ha
  have := sub_eq_zero.1 (hv a ha)
  rw [div_mul_eq_mul_div, eq_div_iff (hδ a ha)]
  exact this

theorem leftInj_one_by_one {y : α} (hy : y ≠ 0) (Y : Mat α) (h : Y.get 0 0 = y) : LeftInj Y 1 := by
  intro v hv a ha
  have := hv 0 (by omega)
  simp only [sumRange_eq, Finset.sum_range_one, h] at this
  have ha0 : a = 0 := by omega
  subst ha0
  rcases mul_eq_zero.1 this with h0 | h0
  · exact h0
  · exact absurd h0 hy

end solve

/-! ## 5. the column weights of the two runs -/

section colweights
variable {α : Type} [Field α] [LinearOrder α] [IsStrictOrderedRing α]

theorem NumOps.Lawful.sqrt_unique {o : NumOps α} (ho : o.Lawful) {x y : α} (hx : 0 ≤ x) (hy : 0 ≤ y)
    (h : x * x = y) : o.sqrt y = x := by
  subst h
  have h1 := ho.sqrt_mul_self (x * x) hy
  have h0 := ho.sqrt_nonneg (x * x) hy
  rcases mul_self_eq_mul_self_iff.1 h1 with e | e
  · exact e
  · rw [e] at h0 ⊢
    linarith

theorem colSum_nonneg (I r : Nat) (A : Mat α) :
    0 ≤ ((List.range I).map fun i => A.get i r * A.get i r).sum :=
  List.sum_nonneg (by
    intro y hy; simp only [List.mem_map] at hy; obtain ⟨i, _, rfl⟩ := hy; exact mul_self_nonneg _)

theorem colWeight_zero (o : NumOps α) (I r : Nat) (A : Mat α) :
    Gen.colWeight o 0 (col A I r) = o.sqrt (((List.range I).map fun i => A.get i r * A.get i r).sum) := by
  simp [Gen.colWeight, Gen.firstIteration, Gen.colWeightFirst, col, sumL, List.map_map, Function.comp_def]

theorem colWeight_later_ge {o : NumOps α} (ho : o.Lawful) {it : Nat} (hit : it ≠ 0) (l : List α) :
    1 ≤ Gen.colWeight o it l := by
  simp only [Gen.colWeight, Gen.firstIteration, hit, decide_false, Bool.false_eq_true, if_false,
    Gen.colWeightLater, NumOps.max, ho.ofNat_eq, Nat.cast_one]
  split
  · exact le_rfl
  · rename_i h
    rw [ho.lt_iff] at h
    exact not_lt.1 h

/-- What the simulation needs to know about the column scale of the two runs, for both formulas
(2-norm in pass 0, `max(max|·|, 1)` afterwards): non-negative, zero together, and zero only for a
zero column. -/
theorem colWeight_facts {o : NumOps α} (ho : o.Lawful) (it I r : Nat) (A A' : Mat α) (κ : α) (hκ : 0 < κ)
    (h : ∀ i < I, A'.get i r = κ * A.get i r) :
    0 ≤ Gen.colWeight o it (col A I r) ∧ 0 ≤ Gen.colWeight o it (col A' I r) ∧
    (Gen.colWeight o it (col A I r) = 0 ↔ Gen.colWeight o it (col A' I r) = 0) ∧
    (Gen.colWeight o it (col A I r) = 0 → ∀ i < I, A.get i r = 0) := by
  by_cases hit : it = 0
  · subst hit
    rw [colWeight_zero, colWeight_zero]
    have hS := colSum_nonneg I r A
    have hS' : ((List.range I).map fun i => A'.get i r * A'.get i r).sum =
        κ * κ * ((List.range I).map fun i => A.get i r * A.get i r).sum := by
      rw [← sum_sq_scale]
      congr 1
      refine List.map_congr_left fun i hi => ?_
      rw [h i (List.mem_range.1 hi)]
    set T := ((List.range I).map fun i => A.get i r * A.get i r).sum with hT
    have hw := ho.sqrt_nonneg T hS
    have hww := ho.sqrt_mul_self T hS
    have hw' : o.sqrt (((List.range I).map fun i => A'.get i r * A'.get i r).sum) = κ * o.sqrt T := by
      rw [hS']
      exact ho.sqrt_unique (mul_nonneg hκ.le hw) (mul_nonneg (mul_self_nonneg κ) hS) (by
        rw [mul_mul_mul_comm, hww])
    rw [hw']
    refine ⟨hw, mul_nonneg hκ.le hw, ?_, ?_⟩
    · constructor
      · intro e; rw [e, mul_zero]
      · intro e
        rcases mul_eq_zero.1 e with e | e
        · exact absurd e hκ.ne'
        · exact e
    · intro e i hi
      have hT0 : T = 0 := by rw [← hww, e, mul_zero]
      exact sum_sq_eq_zero _ (fun i => A.get i r) hT0 i (List.mem_range.2 hi)
  · have h1 := colWeight_later_ge ho hit (col A I r)
    have h2 := colWeight_later_ge ho hit (col A' I r)
    refine ⟨by linarith, by linarith, ?_, ?_⟩
    · constructor
      · intro e; linarith
      · intro e; linarith
    · intro e; linarith

theorem colWeights_getD (o : NumOps α) (it I R : Nat) (A : Mat α) {r : Nat} (hr : r < R) :
    (colWeights o it I R A).getD r 0 = Gen.colWeight o it (col A I r) := by
  simp [colWeights, List.getD_eq_getElem?_getD, hr]

theorem colWeights_all_zero {o : NumOps α} (ho : o.Lawful) (it I R : Nat) (A : Mat α) :
    (colWeights o it I R A).all o.isZero = true ↔ ∀ r < R, Gen.colWeight o it (col A I r) = 0 := by
  simp [colWeights, List.all_eq_true, ho.isZero_iff]

theorem scaleCols_get {o : NumOps α} (I R : Nat) (A : Mat α) (w : List α) (i r : Nat) :
    (scaleCols o I R A w).get i r =
      if i < I ∧ r < R then (if w.all o.isZero = true then A.get i r else A.get i r / w.getD r 0) else 0 := by
  unfold scaleCols
  split
  · rw [get_tab_ite]
  · rw [get_tab_ite]

end colweights

/-! ## 6. the simulation relation and the mode update -/

section sim
variable {α : Type} [Field α] [LinearOrder α] [IsStrictOrderedRing α]

/-- **The simulation relation** between a state `st` of the run on `X` and a state `st'` of the run
on `c • X`: the factor matrices agree up to positive per-column scalings `d m r` whose product with
the weights accounts for the factor `c` (`weights'[r] · ∏ₘ d m r = c · weights[r]`), the stored Gram
matrices are those of the factors, the fits, the pass counters and the stop flags are equal and the
residual norm scales by `c`. -/
structure Sim (c : α) (s : List Nat) (R : Nat) (st st' : State α) : Prop where
  shape : ShapeOK s R st.U
  shape' : ShapeOK s R st'.U
  gram : GramOK R st
  gram' : GramOK R st'
  scaled : ∃ d : Nat → Nat → α, (∀ m r, 0 < d m r) ∧ ColScaled d st.U st'.U ∧
    ∀ r < R, st'.weights.getD r 0 * dAll d s.length r = c * st.weights.getD r 0
  wlen : st'.weights.length = st.weights.length
  fit : st'.fit = st.fit
  normresidual : st'.normresidual = c * st.normresidual
  iteration : st'.iteration = st.iteration
  stop : st'.stop = st.stop

theorem dOther_pos {d : Nat → Nat → α} (hd : ∀ m r, 0 < d m r) (N n r : Nat) : 0 < dOther d N n r := by
  unfold dOther
  apply List.prod_pos
  intro x hx
  simp only [List.mem_map] at hx
  obtain ⟨m, _, rfl⟩ := hx
  exact hd m r

/-- The coefficient matrix `Y` of a mode update is non-singular unless the all-zero guard fires. -/
def RegularY (o : NumOps α) (Y : Mat α) (R : Nat) : Prop := allZero o Y = false → LeftInj Y R

/-- Rows of the (guarded) solver answers of the two runs: `A0' = c · A0 · Δ⁻¹`. -/
theorem solveStep_sim {D D' : Data α} {S : Services α} {o : NumOps α} {X : List Nat → α} {c : α}
    (ho : o.Lawful) (hS : SolveContract S) (hD : DataLaws D X) (hD' : DataLaws D' (fun j => c * X j))
    (hs : D'.shape = D.shape) {rank n : Nat} (hn : n < D.shape.length) {st st' : State α}
    (hU : ShapeOK D.shape rank st.U) (hU' : ShapeOK D.shape rank st'.U)
    (hG : GramOK rank st) (hG' : GramOK rank st')
    {d : Nat → Nat → α} (hdpos : ∀ m r, 0 < d m r) (hd : ColScaled d st.U st'.U)
    (hreg : RegularY o (coef st.UtU D.shape.length rank n) rank) {A0 A0' : Mat α}
    (h : solveStep S o (D.shape.getD n 0) rank n (coef st.UtU D.shape.length rank n) (D.mttkrp st.U n) = .ok A0)
    (h' : solveStep S o (D.shape.getD n 0) rank n (coef st'.UtU D.shape.length rank n) (D'.mttkrp st'.U n) = .ok A0') :
    ∀ i < D.shape.getD n 0, ∀ a < rank,
      A0'.get i a = c / dOther d D.shape.length n a * A0.get i a := by
  have hδ : ∀ a, 0 < dOther d D.shape.length n a := fun a => dOther_pos hdpos _ _ _
  have hYs : ∀ a < rank, ∀ b < rank, (coef st'.UtU D.shape.length rank n).get a b =
      dOther d D.shape.length n a * dOther d D.shape.length n b * (coef st.UtU D.shape.length rank n).get a b :=
    fun a ha b hb => coef_scaled hG hG' hU hU' hd n ha hb
  have hzz : allZero o (coef st'.UtU D.shape.length rank n) = true ↔
      allZero o (coef st.UtU D.shape.length rank n) = true := by
    rw [allZero_coef_iff ho, allZero_coef_iff ho]
    constructor
    · intro hz a ha b hb
      have := hz a ha b hb
      rw [hYs a ha b hb] at this
      rcases mul_eq_zero.1 this with e | e
      · exact absurd e (mul_pos (hδ a) (hδ b)).ne'
      · exact e
    · intro hz a ha b hb
      rw [hYs a ha b hb, hz a ha b hb, mul_zero]
  unfold solveStep at h h'
  by_cases hz : allZero o (coef st.UtU D.shape.length rank n) = true
  · rw [if_pos hz] at h
    rw [if_pos (hzz.2 hz)] at h'
    simp only [pure, Except.pure, Except.ok.injEq] at h h'
    subst h; subst h'
    intro i hi a ha
    rw [get_tab _ _ _ hi ha, mul_zero]
  · rw [if_neg hz] at h
    rw [if_neg (fun e => hz (hzz.1 e))] at h'
    intro i hi
    exact solve_scaled hS h h' (length_coef _ _ _ _) (length_coef _ _ _ _) (fun a _ => (hδ a).ne') hYs
      (hreg (by simpa using hz)) i (fun r hr => mttkrp_scaled hD hD' hs hU hU' hd hn hi hr)

/-- **One mode update preserves the simulation.** -/
theorem modeUpdate_sim {D D' : Data α} {S : Services α} {o : NumOps α} {X : List Nat → α} {c : α}
    (ho : o.Lawful) (hS : SolveContract S) (hc : 0 < c) (hD : DataLaws D X)
    (hD' : DataLaws D' (fun j => c * X j)) (hs : D'.shape = D.shape) {rank it last n : Nat}
    (hn : n < D.shape.length) {st st' st1 st1' : State α} (hsim : Sim c D.shape rank st st')
    (hreg : RegularY o (coef st.UtU D.shape.length rank n) rank)
    (h : modeUpdate D S o rank it last n st = .ok st1)
    (h' : modeUpdate D' S o rank it last n st' = .ok st1') :
    Sim c D.shape rank st1 st1' ∧ st1.weights.length = rank := by
  have hsh := modeUpdate_shape h hsim.shape
  have hsh' := modeUpdate_shape h' (by rw [hs]; exact hsim.shape')
  rw [hs] at hsh'
  have hg := gramOK_modeUpdate h hsim.gram
  have hg' := gramOK_modeUpdate h' hsim.gram'
  obtain ⟨A0, hA0, rfl⟩ := modeUpdate_ok h
  obtain ⟨A0', hA0', rfl⟩ := modeUpdate_ok h'
  rw [hs] at hA0' hg' hsh' ⊢
  obtain ⟨d, hdpos, hd, _⟩ := hsim.scaled
  have key := solveStep_sim ho hS hD hD' hs hn hsim.shape hsim.shape' hsim.gram hsim.gram' hdpos hd hreg hA0 hA0'
  have hδ : ∀ a, 0 < dOther d D.shape.length n a := fun a => dOther_pos hdpos _ _ _
  have hκ : ∀ a, 0 < c / dOther d D.shape.length n a := fun a => div_pos hc (hδ a)
  have facts := fun r (hr : r < rank) => colWeight_facts ho it (D.shape.getD n 0) r A0 A0'
    (c / dOther d D.shape.length n r) (hκ r) (fun i hi => key i hi r hr)
  have hallz : (colWeights o it (D.shape.getD n 0) rank A0').all o.isZero = true ↔
      (colWeights o it (D.shape.getD n 0) rank A0).all o.isZero = true := by
    rw [colWeights_all_zero ho, colWeights_all_zero ho]
    exact ⟨fun hz r hr => (facts r hr).2.2.1.2 (hz r hr), fun hz r hr => (facts r hr).2.2.1.1 (hz r hr)⟩
  have hnU : n < st.U.length := by rw [hsim.shape.1]; exact hn
  have hnU' : n < st'.U.length := by rw [hsim.shape'.1]; exact hn
  refine ⟨⟨hsh.1, hsh'.1, hg, hg', ?_, by rw [hsh.2, hsh'.2], hsim.fit, hsim.normresidual, hsim.iteration,
    hsim.stop⟩, hsh.2⟩
  obtain ⟨d1, hd1⟩ : ∃ d1 : Nat → Nat → α, ∀ m r, d1 m r = if m = n then
      (if r < rank then
        (if Gen.colWeight o it (col A0 (D.shape.getD n 0) r) = 0 then 1
         else c / dOther d D.shape.length n r * Gen.colWeight o it (col A0 (D.shape.getD n 0) r) /
                Gen.colWeight o it (col A0' (D.shape.getD n 0) r))
       else 1)
    else d m r := ⟨_, fun _ _ => rfl⟩
  refine ⟨d1, ?_, ?_, ?_⟩
  · -- positivity
    intro m r
    rw [hd1]
    by_cases hmn : m = n
    · rw [if_pos hmn]
      by_cases hr : r < rank
      · rw [if_pos hr]
        obtain ⟨f1, f2, f3, _⟩ := facts r hr
        by_cases hw : Gen.colWeight o it (col A0 (D.shape.getD n 0) r) = 0
        · rw [if_pos hw]; exact zero_lt_one
        · rw [if_neg hw]
          have hw' : Gen.colWeight o it (col A0' (D.shape.getD n 0) r) ≠ 0 := fun e => hw (f3.2 e)
          exact div_pos (mul_pos (hκ r) (lt_of_le_of_ne f1 (Ne.symm hw))) (lt_of_le_of_ne f2 (Ne.symm hw'))
      · rw [if_neg hr]; exact zero_lt_one
    · rw [if_neg hmn]; exact hdpos m r
  · -- the factors
    intro m i r
    by_cases hmn : m = n
    · subst hmn
      rw [applyUpdate_U, applyUpdate_U, getD_set_eq _ _ _ _ hnU, getD_set_eq _ _ _ _ hnU', scaleCols_get,
        scaleCols_get, hd1, if_pos rfl]
      by_cases hir : i < D.shape.getD m 0 ∧ r < rank
      · rw [if_pos hir, if_pos hir, if_pos hir.2]
        obtain ⟨f1, f2, f3, f4⟩ := facts r hir.2
        by_cases hall : (colWeights o it (D.shape.getD m 0) rank A0).all o.isZero = true
        · rw [if_pos hall, if_pos (hallz.2 hall), key i hir.1 r hir.2]
          have hw := (colWeights_all_zero ho _ _ _ _).1 hall r hir.2
          rw [f4 hw i hir.1, mul_zero, zero_mul]
        · rw [if_neg hall, if_neg (fun e => hall (hallz.1 e)), colWeights_getD _ _ _ _ _ hir.2,
            colWeights_getD _ _ _ _ _ hir.2, key i hir.1 r hir.2]
          by_cases hw : Gen.colWeight o it (col A0 (D.shape.getD m 0) r) = 0
          · rw [if_pos hw, hw, f3.1 hw, div_zero, div_zero, zero_mul]
          · rw [if_neg hw]
            have hw' : Gen.colWeight o it (col A0' (D.shape.getD m 0) r) ≠ 0 := fun e => hw (f3.2 e)
            field_simp
      · rw [if_neg hir, if_neg hir, zero_mul]
    · rw [applyUpdate_U, applyUpdate_U, getD_set_ne _ _ _ (Ne.symm hmn), getD_set_ne _ _ _ (Ne.symm hmn),
        hd1, if_neg hmn]
      exact hd m i r
  · -- the weights
    intro r hr
    rw [applyUpdate_weights, applyUpdate_weights, colWeights_getD _ _ _ _ _ hr, colWeights_getD _ _ _ _ _ hr,
      dAll_split _ hn r, dOther_congr d d1 _ n r (fun m hm => by rw [hd1, if_neg hm]), hd1, if_pos rfl, if_pos hr]
    obtain ⟨f1, f2, f3, f4⟩ := facts r hr
    by_cases hw : Gen.colWeight o it (col A0 (D.shape.getD n 0) r) = 0
    · rw [if_pos hw, hw, f3.1 hw, zero_mul, mul_zero]
    · rw [if_neg hw]
      have hw' : Gen.colWeight o it (col A0' (D.shape.getD n 0) r) ≠ 0 := fun e => hw (f3.2 e)
      have hδ' := (hδ r).ne'
      field_simp

end sim

/-! ## 7. the model tensor, a sweep, a pass -/

section pass
variable {α : Type} [Field α] [LinearOrder α] [IsStrictOrderedRing α]

/-- Related states denote model tensors that differ by the factor `c`. -/
theorem Sim.tensor {c : α} {s : List Nat} {R : Nat} {st st' : State α} (h : Sim c s R st st')
    (hw : st.weights.length = R) (j : List Nat) (hj : j.length = s.length) :
    Ktensor.get ⟨st'.weights, st'.U⟩ j = c * Ktensor.get ⟨st.weights, st.U⟩ j := by
  obtain ⟨d, _, hd, hwt⟩ := h.scaled
  rw [ktensor_get_eq, ktensor_get_eq, h.wlen, hw, Finset.mul_sum]
  refine Finset.sum_congr rfl fun r hr => ?_
  have hl : st'.U.length = st.U.length := by rw [h.shape.1, h.shape'.1]
  rw [hd.comp hl j (by rw [hj, h.shape.1]) r, h.shape.1]
  have := hwt r (Finset.mem_range.1 hr)
  calc st'.weights.getD r 0 * (compOf st.U r j * dAll d s.length r)
      = (st'.weights.getD r 0 * dAll d s.length r) * compOf st.U r j := by ring
    _ = c * (st.weights.getD r 0 * compOf st.U r j) := by rw [this]; ring

theorem ip_scale_both (s : List Nat) (f f' : List Nat → α) (c : α)
    (h : ∀ j, j.length = s.length → f' j = c * f j) : ip s f' f' = c * c * ip s f f := by
  unfold ip
  rw [← List.sum_map_mul_left]
  congr 1
  refine List.map_congr_left fun j hj => ?_
  rw [h j (mem_allSubs.1 hj).length_eq]
  ring

theorem ip_scale_data_model (s : List Nat) (X f f' : List Nat → α) (c : α)
    (h : ∀ j, j.length = s.length → f' j = c * f j) : ip s (fun j => c * X j) f' = c * c * ip s X f := by
  rw [ip_smul_left, ip_congr s X f' (fun j => c * f j) h, ip_smul_right, mul_assoc]

theorem knorm_nonneg {o : NumOps α} (ho : o.Lawful) (w : List α) (U : List (Mat α)) : 0 ≤ knorm o w U :=
  (ho.sqrt_abs_sq _).1

/-- `ktensor.norm()` of the model of the second run is `c` times that of the first. -/
theorem knorm_scaled {o : NumOps α} (ho : o.Lawful) {c : α} (hc : 0 < c) (s : List Nat) (w w' : List α)
    (U U' : List (Mat α)) (hU : ShapeOK s w.length U) (hU' : ShapeOK s w'.length U')
    (h : ∀ j, j.length = s.length → Ktensor.get ⟨w', U'⟩ j = c * Ktensor.get ⟨w, U⟩ j) :
    knorm o w' U' = c * knorm o w U := by
  have h1 := knorm_mul_self ho (knormLaw s) w U hU
  have h2 := knorm_mul_self ho (knormLaw s) w' U' hU'
  rw [ip_scale_both s _ _ c h, ← h1] at h2
  have e : knorm o w' U' * knorm o w' U' = (c * knorm o w U) * (c * knorm o w U) := by rw [h2]; ring
  rcases mul_self_eq_mul_self_iff.1 e with e | e
  · exact e
  · have n1 := knorm_nonneg ho w' U'
    have n2 := mul_nonneg hc.le (knorm_nonneg ho w U)
    rw [e] at n1 ⊢
    linarith

/-- The reported pair `(normresidual, fit)` for data, model norm and inner product scaled by
`c`, `c`, `c²`: the residual scales by `c`, the fit is unchanged (data of non-zero norm). -/
theorem report_scale {o : NumOps α} (ho : o.Lawful) {c : α} (hc : 0 < c) (nx nm ipr : α) (hnz : nx ≠ 0) :
    (report o (c * nx) (c * nm) (c * c * ipr)).1 = c * (report o nx nm ipr).1 ∧
    (report o (c * nx) (c * nm) (c * c * ipr)).2 = (report o nx nm ipr).2 := by
  have hb : Gen.branchZero o nx = false := by
    rw [Gen.branchZero, Bool.eq_false_iff, Ne, ho.isZero_iff]; exact hnz
  have hb' : Gen.branchZero o (c * nx) = false := by
    rw [Gen.branchZero, Bool.eq_false_iff, Ne, ho.isZero_iff]; exact mul_ne_zero hc.ne' hnz
  simp only [report, hb, hb', Bool.false_eq_true, if_false]
  have hnr : Gen.normresidual o (c * nx) (c * nm) (c * c * ipr) = c * Gen.normresidual o nx nm ipr := by
    unfold Gen.normresidual
    rw [ho.abs_eq, ho.abs_eq]
    have hq := ho.sqrt_mul_self |nx * nx + nm * nm - o.ofNat 2 * ipr| (abs_nonneg _)
    have hq0 := ho.sqrt_nonneg |nx * nx + nm * nm - o.ofNat 2 * ipr| (abs_nonneg _)
    apply ho.sqrt_unique (mul_nonneg hc.le hq0) (abs_nonneg _)
    rw [mul_mul_mul_comm, hq]
    have e : c * nx * (c * nx) + c * nm * (c * nm) - o.ofNat 2 * (c * c * ipr) =
        c * c * (nx * nx + nm * nm - o.ofNat 2 * ipr) := by ring
    rw [e, abs_mul, abs_mul_self]
  refine ⟨hnr, ?_⟩
  rw [hnr]
  unfold Gen.fit
  rw [mul_div_mul_left _ _ hc.ne']

/-- Every coefficient matrix met during the sweep of the FIRST run (data `X`) is zero or
non-singular.  (For rank one this always holds.) -/
def RegularSweep (D : Data α) (S : Services α) (o : NumOps α) (rank it last : Nat) :
    List Nat → State α → Prop
  | [], _ => True
  | n :: rest, st => RegularY o (coef st.UtU D.shape.length rank n) rank ∧
      ∀ st1, modeUpdate D S o rank it last n st = .ok st1 → RegularSweep D S o rank it last rest st1

/-- **A sweep over the modes preserves the simulation.** -/
theorem sweep_sim {D D' : Data α} {S : Services α} {o : NumOps α} {X : List Nat → α} {c : α}
    (ho : o.Lawful) (hS : SolveContract S) (hc : 0 < c) (hD : DataLaws D X)
    (hD' : DataLaws D' (fun j => c * X j)) (hs : D'.shape = D.shape) {rank it last : Nat}
    (dims : List Nat) (hdims : ∀ n ∈ dims, n < D.shape.length) {st st' st1 st1' : State α}
    (hsim : Sim c D.shape rank st st') (hreg : RegularSweep D S o rank it last dims st)
    (h : dims.foldlM (fun s n => modeUpdate D S o rank it last n s) st = .ok st1)
    (h' : dims.foldlM (fun s n => modeUpdate D' S o rank it last n s) st' = .ok st1') :
    Sim c D.shape rank st1 st1' ∧ (dims ≠ [] → st1.weights.length = rank) := by
  induction dims generalizing st st' with
  | nil =>
    simp [List.foldlM] at h h'
    cases h; cases h'
    exact ⟨hsim, fun e => absurd rfl e⟩
  | cons n rest ih =>
    rw [List.foldlM_cons] at h h'
    cases hm : modeUpdate D S o rank it last n st with
    | error e => rw [hm] at h; cases h
    | ok s2 =>
      cases hm' : modeUpdate D' S o rank it last n st' with
      | error e => rw [hm'] at h'; cases h'
      | ok s2' =>
        rw [hm] at h; rw [hm'] at h'
        have hstep := modeUpdate_sim ho hS hc hD hD' hs (hdims n (List.mem_cons_self ..)) hsim hreg.1 hm hm'
        have hrest := ih (fun m hm => hdims m (List.mem_cons_of_mem _ hm)) hstep.1 (hreg.2 s2 hm) h h'
        refine ⟨hrest.1, fun _ => ?_⟩
        by_cases hr : rest = []
        · subst hr
          simp [List.foldlM] at h
          cases h
          exact hstep.2
        · exact hrest.2 hr

theorem getLastD_mem {l : List Nat} (hne : l ≠ []) : l.getLastD 0 ∈ l := by
  rw [List.getLastD_eq_getLast?, List.getLast?_eq_some_getLast hne]
  exact List.getLast_mem hne

/-- **One pass (`iterStep`) preserves the simulation**: related states go to related states — in
particular the fit after the pass is the same number in both runs, the residual norm scales by `c`
and the stop test gives the same answer. -/
theorem iterStep_sim {D D' : Data α} {S : Services α} {o : NumOps α} {X : List Nat → α} {c : α}
    (ho : o.Lawful) (hS : SolveContract S) (hc : 0 < c) (hD : DataLaws D X)
    (hD' : DataLaws D' (fun j => c * X j)) (hs : D'.shape = D.shape)
    (hnorm : D'.norm = c * D.norm) (hnz : D.norm ≠ 0) {rank it : Nat} {stoptol : α}
    {dims : List Nat} (hne : dims ≠ []) (hdims : ∀ n ∈ dims, n < D.shape.length) {st st' st2 st2' : State α}
    (hsim : Sim c D.shape rank st st') (hreg : RegularSweep D S o rank it (dims.getLastD 0) dims st)
    (h : iterStep D S o rank stoptol dims it st = .ok st2)
    (h' : iterStep D' S o rank stoptol dims it st' = .ok st2') :
    Sim c D.shape rank st2 st2' ∧ st2.weights.length = rank ∧ st2.iteration = it := by
  obtain ⟨st1, hf, rfl⟩ := iterStep_ok h
  obtain ⟨st1', hf', rfl⟩ := iterStep_ok h'
  obtain ⟨hsim1, hw1⟩ := sweep_sim ho hS hc hD hD' hs dims hdims hsim hreg hf hf'
  have hw := hw1 hne
  have hw' : st1'.weights.length = rank := by rw [hsim1.wlen]; exact hw
  have hlast : dims.getLastD 0 < D.shape.length := hdims _ (getLastD_mem hne)
  have hten := fun j hj => hsim1.tensor hw j hj
  have hip := sweep_iprod hD dims hne hlast hsim.shape hf
  have hip' := sweep_iprod hD' dims hne (by rw [hs]; exact hlast) (by rw [hs]; exact hsim.shape') hf'
  rw [hs, ip_scale_data_model D.shape X _ _ c hten] at hip'
  have hkn := knorm_scaled ho hc D.shape st1.weights st1'.weights st1.U st1'.U
    (by rw [hw]; exact hsim1.shape) (by rw [hw']; exact hsim1.shape') hten
  have hrep : (passReport D' o rank dims st1').1 = c * (passReport D o rank dims st1).1 ∧
      (passReport D' o rank dims st1').2 = (passReport D o rank dims st1).2 := by
    unfold passReport
    rw [hs, hip', hkn, hnorm, hip]
    exact report_scale ho hc _ _ _ hnz
  refine ⟨⟨hsim1.shape, hsim1.shape', hsim1.gram, hsim1.gram', hsim1.scaled, hsim1.wlen, ?_, ?_, rfl, ?_⟩, hw, rfl⟩
  · exact hrep.2
  · exact hrep.1
  · show Gen.stopTest o it (Gen.fitchange o st'.fit (passReport D' o rank dims st1').2) stoptol =
      Gen.stopTest o it (Gen.fitchange o st.fit (passReport D o rank dims st1).2) stoptol
    rw [hrep.2, hsim.fit]

end pass

/-! ## 8. the loop -/

section loop
variable {α : Type} [Field α] [LinearOrder α] [IsStrictOrderedRing α]

/-- Every coefficient matrix met during the FIRST run (data `X`), from pass `k` on with `fuel`
passes left, is zero or non-singular. -/
def RegularLoop (D : Data α) (S : Services α) (o : NumOps α) (rank : Nat) (stoptol : α) (dims : List Nat) :
    Nat → Nat → State α → Prop
  | 0, _, _ => True
  | fuel + 1, k, st => RegularSweep D S o rank k (dims.getLastD 0) dims st ∧
      ∀ st1, iterStep D S o rank stoptol dims k st = .ok st1 → st1.stop = false →
        RegularLoop D S o rank stoptol dims fuel (k + 1) st1

/-- **The main loop preserves the simulation**: started in related states, the two runs execute the
same number of passes (their stop tests agree pass by pass) and end in related states. -/
theorem loop_sim {D D' : Data α} {S : Services α} {o : NumOps α} {X : List Nat → α} {c : α}
    (ho : o.Lawful) (hS : SolveContract S) (hc : 0 < c) (hD : DataLaws D X)
    (hD' : DataLaws D' (fun j => c * X j)) (hs : D'.shape = D.shape)
    (hnorm : D'.norm = c * D.norm) (hnz : D.norm ≠ 0) {rank : Nat} {stoptol : α}
    {dims : List Nat} (hne : dims ≠ []) (hdims : ∀ n ∈ dims, n < D.shape.length) :
    ∀ (fuel k : Nat) {st st' stF stF' : State α}, Sim c D.shape rank st st' →
      RegularLoop D S o rank stoptol dims fuel k st →
      loopFrom (iterStep D S o rank stoptol dims) fuel k st = .ok stF →
      loopFrom (iterStep D' S o rank stoptol dims) fuel k st' = .ok stF' →
      Sim c D.shape rank stF stF' ∧ (0 < fuel → stF.weights.length = rank) := by
  intro fuel
  induction fuel with
  | zero =>
    intro k st st' stF stF' hsim _ h h'
    simp only [loopFrom, Except.ok.injEq] at h h'
    subst h; subst h'
    exact ⟨hsim, fun h => absurd h (Nat.lt_irrefl 0)⟩
  | succ fuel ih =>
    intro k st st' stF stF' hsim hreg h h'
    unfold loopFrom at h h'
    cases hs1 : iterStep D S o rank stoptol dims k st with
    | error e => rw [hs1] at h; cases h
    | ok s1 =>
      cases hs1' : iterStep D' S o rank stoptol dims k st' with
      | error e => rw [hs1'] at h'; cases h'
      | ok s1' =>
        rw [hs1] at h; rw [hs1'] at h'
        have hstep := iterStep_sim ho hS hc hD hD' hs hnorm hnz hne hdims hsim hreg.1 hs1 hs1'
        have hstopeq := hstep.1.stop
        by_cases hstop : s1.stop = true
        · have hstop' : s1'.stop = true := by rw [hstopeq]; exact hstop
          simp only [bind, Except.bind, hstop, hstop', if_true, Except.ok.injEq] at h h'
          subst h; subst h'
          exact ⟨hstep.1, fun _ => hstep.2.1⟩
        · have hstop' : ¬ s1'.stop = true := by rw [hstopeq]; exact hstop
          simp only [bind, Except.bind, hstop, hstop', if_false] at h h'
          have hrec := ih (k + 1) hstep.1 (hreg.2 s1 hs1 (by simpa using hstop)) h h'
          refine ⟨hrec.1, fun _ => ?_⟩
          by_cases hf : fuel = 0
          · subst hf
            simp [loopFrom] at h
            subst h
            exact hstep.2.1
          · exact hrec.2 (Nat.pos_of_ne_zero hf)

/-- The two runs start in related states (same start, all scalings one). -/
theorem sim_init {c : α} {D D' : Data α} (hs : D'.shape = D.shape) {rank : Nat} (dims : List Nat)
    {K : Ktensor α} (hK : ShapeOK D.shape rank K.factors) :
    Sim c D.shape rank (initState D rank dims K) (initState D' rank dims K) := by
  refine ⟨hK, hK, gramOK_init D rank dims K, gramOK_init D' rank dims K,
    ⟨fun _ _ => 1, fun _ _ => zero_lt_one, fun m i r => by simp [initState], fun r _ => by simp [initState]⟩,
    rfl, rfl, by simp [initState], rfl, rfl⟩

end loop

end Pyttb.CpAls
