/-
C18, whole-run scale equivariance of CP-ALS (the model of C09: `Alg/CpAls.lean`).

Two runs are compared: data `D` denoting the array `X` and data `D'` denoting `c • X`, `c > 0`,
same start, same services.  The factor matrices of the two runs are NOT equal and not equal up to
the factor `c` either (the column scale is the 2-norm in pass 0 and `max(max|·|, 1)` afterwards);
they are equal up to positive per-column scalings `d m r` (mode `m`, component `r`) such that
`weights'[r] · ∏ₘ d m r = c · weights[r]` — the simulation relation `Sim`.  It is preserved by every
mode update, hence by every pass and by the loop; it forces the model TENSOR of the second run to
be `c` times the first one, the fits to be equal and the stop decisions to coincide.
-/
import PyttbModel.Lemmas.CpAlsRun
import PyttbModel.Lemmas.CpAlsKnorm
import Mathlib.Algebra.Order.Ring.Abs
import Mathlib.Algebra.BigOperators.Group.List.Lemmas
import Mathlib.Algebra.Order.BigOperators.GroupWithZero.List
import Mathlib.Analysis.Real.Sqrt

set_option linter.unusedSectionVars false
set_option linter.unusedSimpArgs false
set_option linter.unnecessarySeqFocus false
set_option linter.unusedVariables false
namespace Pyttb.CpAls
open Pyttb

/-! ## 1. small helpers -/

section helpers
variable {α : Type}

theorem get_tab_row_ge [Zero α] (I R : Nat) (f : Nat → Nat → α) {i r : Nat} (hi : I ≤ i) :
    (tab I R f).get i r = 0 := by
  unfold Mat.get
  simp [tab, List.getD_eq_getElem?_getD, List.getElem?_eq_none, hi]

theorem get_tab_ite [Zero α] (I R : Nat) (f : Nat → Nat → α) (i r : Nat) :
    (tab I R f).get i r = if i < I ∧ r < R then f i r else 0 := by
  by_cases hi : i < I
  · by_cases hr : r < R
    · rw [get_tab _ _ _ hi hr, if_pos ⟨hi, hr⟩]
    · rw [get_tab_ge _ _ _ (Nat.le_of_not_lt hr), if_neg (fun h => hr h.2)]
  · rw [get_tab_row_ge _ _ _ (Nat.le_of_not_lt hi), if_neg (fun h => hi h.1)]

theorem get_nil [Zero α] (i r : Nat) : Mat.get ([] : Mat α) i r = 0 := by
  simp [Mat.get]

theorem prodOver_eq [CommMonoid α] (l : List Nat) (f : Nat → α) : prodOver l f = (l.map f).prod := by
  unfold prodOver; rw [List.prod_eq_foldr]

theorem prod_map_ite_ne [CommMonoid α] (l : List Nat) (n : Nat) (f : Nat → α) :
    (l.map fun m => if m = n then 1 else f m).prod = ((l.filter (· != n)).map f).prod := by
  induction l with
  | nil => simp
  | cons a l ih =>
    by_cases h : a = n
    · simp [List.filter_cons, h, ih]
    · simp [List.filter_cons, h, ih]

theorem prod_map_mul' [CommMonoid α] (l : List Nat) (f g : Nat → α) :
    (l.map fun m => f m * g m).prod = (l.map f).prod * (l.map g).prod := by
  induction l with
  | nil => simp
  | cons a l ih => simp only [List.map_cons, List.prod_cons, ih]; exact mul_mul_mul_comm _ _ _ _

theorem prod_filter_split [CommMonoid α] (N n : Nat) (hn : n < N) (f : Nat → α) :
    ((List.range N).map f).prod = f n * (((List.range N).filter (· != n)).map f).prod := by
  induction N with
  | zero => omega
  | succ N ih =>
    rw [List.range_succ, List.map_append, List.prod_append, List.filter_append, List.map_append,
      List.prod_append]
    by_cases h : n = N
    · subst h
      have : (List.range n).filter (· != n) = List.range n := by
        rw [List.filter_eq_self]
        intro a ha
        have := List.mem_range.1 ha
        simp; omega
      simp [this, mul_comm]
    · have hlt : n < N := by omega
      have hN : (N != n) = true := by simp; omega
      rw [ih hlt]
      simp [List.filter_cons, hN, mul_assoc]

end helpers

/-! ## 2. factors equal up to column scalings; the component products -/

section colscaled
variable {α : Type} [Field α]

/-- `∏_{m<N} e m` as a list product -/
def prodN (N : Nat) (e : Nat → α) : α := ((List.range N).map e).prod

/-- Scaling law for the component product `∏ₘ Uₘ[jₘ, r]`: if, for every mode `m`, column `r'` of
`U'ₘ` is `e m` times column `r` of `Uₘ`, the product for `U'` is `∏ₘ e m` times the one for `U`. -/
theorem compOf_scale (U U' : List (Mat α)) (j : List Nat) (r r' : Nat) (e : Nat → α)
    (hl : U'.length = U.length) (hj : j.length = U.length)
    (h : ∀ m < U.length, ∀ i, (U'.getD m []).get i r' = (U.getD m []).get i r * e m) :
    compOf U' r' j = compOf U r j * prodN U.length e := by
  induction U generalizing U' j e with
  | nil =>
    cases U' with
    | nil => simp [compOf, prodN]
    | cons _ _ => simp at hl
  | cons A U ih =>
    cases U' with
    | nil => simp at hl
    | cons A' U' =>
      cases j with
      | nil => simp at hj
      | cons i j =>
        simp only [List.length_cons, Nat.add_right_cancel_iff] at hl hj
        have h0 := h 0 (by simp) i
        simp only [List.getD_cons_zero] at h0
        have ih' := ih U' j (fun m => e (m + 1)) hl hj (fun m hm i => by
          have := h (m + 1) (by simp; omega) i
          simpa using this)
        unfold compOf at ih' ⊢
        simp only [List.zipWith_cons_cons, List.prod_cons, List.length_cons]
        rw [ih', h0]
        unfold prodN
        rw [List.range_succ_eq_map, List.map_cons, List.prod_cons, List.map_map]
        simp only [Function.comp_def, Nat.succ_eq_add_one]
        ring

/-- a column of one factor that vanishes kills the component -/
theorem compOf_zero (U : List (Mat α)) (j : List Nat) (r n : Nat) (hj : j.length = U.length)
    (hn : n < U.length) (hz : ∀ i, (U.getD n []).get i r = 0) : compOf U r j = 0 := by
  have := compOf_scale U U j r r (fun m => if m = n then 0 else 1) rfl hj (fun m hm i => by
    by_cases h : m = n
    · subst h; rw [hz, if_pos rfl, mul_zero]
    · rw [if_neg h, mul_one])
  rw [this]
  have : prodN U.length (fun m => if m = n then (0 : α) else 1) = 0 := by
    unfold prodN
    apply List.prod_eq_zero
    simp only [List.mem_map, List.mem_range]
    exact ⟨n, hn, by simp⟩
  rw [this, mul_zero]

/-- The factor lists `U`, `U'` agree up to the column scalings `d m r`. -/
def ColScaled (d : Nat → Nat → α) (U U' : List (Mat α)) : Prop :=
  ∀ m i r, (U'.getD m []).get i r = (U.getD m []).get i r * d m r

/-- the product of all scalings of component `r` -/
def dAll (d : Nat → Nat → α) (N r : Nat) : α := prodN N fun m => d m r

/-- the product of the scalings of component `r` over the modes other than `n` -/
def dOther (d : Nat → Nat → α) (N n r : Nat) : α :=
  (((List.range N).filter (· != n)).map fun m => d m r).prod

theorem dAll_split (d : Nat → Nat → α) {N n : Nat} (hn : n < N) (r : Nat) :
    dAll d N r = d n r * dOther d N n r :=
  prod_filter_split N n hn _

theorem dOther_congr (d d1 : Nat → Nat → α) (N n r : Nat) (h : ∀ m, m ≠ n → d1 m r = d m r) :
    dOther d1 N n r = dOther d N n r := by
  unfold dOther
  congr 1
  refine List.map_congr_left fun m hm => ?_
  simp only [List.mem_filter, bne_iff_ne, ne_eq] at hm
  exact h m hm.2

theorem ColScaled.comp {d : Nat → Nat → α} {U U' : List (Mat α)} (h : ColScaled d U U')
    (hl : U'.length = U.length) (j : List Nat) (hj : j.length = U.length) (r : Nat) :
    compOf U' r j = compOf U r j * dAll d U.length r :=
  compOf_scale U U' j r r (fun m => d m r) hl hj (fun m _ i => h m i r)

/-- replacing mode `n` by the same matrix on both sides: the scaling of mode `n` drops out -/
theorem ColScaled.comp_set {d : Nat → Nat → α} {U U' : List (Mat α)} (h : ColScaled d U U')
    (hl : U'.length = U.length) (n : Nat) (E : Mat α) (j : List Nat) (hj : j.length = U.length) (r : Nat) :
    compOf (U'.set n E) r j = compOf (U.set n E) r j * dOther d U.length n r := by
  have := compOf_scale (U.set n E) (U'.set n E) j r r (fun m => if m = n then 1 else d m r)
    (by simp [hl]) (by simp [hj]) (fun m hm i => by
      simp only [List.length_set] at hm
      by_cases hmn : m = n
      · subst hmn
        rw [getD_set_eq _ _ _ _ hm, getD_set_eq _ _ _ _ (by rw [hl]; exact hm)]
        simp
      · rw [getD_set_ne _ _ _ (Ne.symm hmn), getD_set_ne _ _ _ (Ne.symm hmn), if_neg hmn]
        exact h m i r)
  rw [this, List.length_set]
  unfold prodN dOther
  rw [prod_map_ite_ne]

end colscaled

/-! ## 3. an entry of `mttkrp` is an inner product (from the interface laws); its scaling -/

section mttkrp
variable {α : Type} [Field α]

/-- the `r`-th unit weight vector of length `R` -/
def unitW (R r : Nat) : List α := (List.range R).map fun a => if a = r then 1 else 0

/-- the `I × R` matrix with a single one at `(i, r)` -/
def unitMat (I R i r : Nat) : Mat α := tab I R fun i' r' => if i' = i ∧ r' = r then 1 else 0

theorem length_unitW (R r : Nat) : (unitW R r : List α).length = R := by simp [unitW]

theorem unitW_getD (R r a : Nat) (ha : a < R) : (unitW R r : List α).getD a 0 = if a = r then 1 else 0 := by
  simp [unitW, List.getD_eq_getElem?_getD, ha]

theorem ktensor_get_unit (R r : Nat) (hr : r < R) (V : List (Mat α)) (j : List Nat) :
    Ktensor.get ⟨unitW R r, V⟩ j = compOf V r j := by
  rw [ktensor_get_eq, length_unitW, Finset.sum_eq_single r]
  · rw [unitW_getD R r r hr, if_pos rfl, one_mul]
  · intro a ha hne
    rw [unitW_getD R r a (Finset.mem_range.1 ha), if_neg hne, zero_mul]
  · intro h; exact absurd (Finset.mem_range.2 hr) h

/-- An in-range entry of `mttkrp(X, U, n)` is the inner product of `X` with the rank-one array
whose mode-`n` vector is the `i`-th unit vector and whose other vectors are the `r`-th columns of
the other factors — a consequence of the two interface laws of `DataLaws`. -/
theorem mttkrp_entry {D : Data α} {X : List Nat → α} (hD : DataLaws D X) {R : Nat} {U : List (Mat α)}
    (hU : ShapeOK D.shape R U) {n i r : Nat} (hn : n < D.shape.length) (hi : i < D.shape.getD n 0)
    (hr : r < R) :
    (D.mttkrp U n).get i r =
      ip D.shape X (fun j => compOf (U.set n (unitMat (D.shape.getD n 0) R i r)) r j) := by
  have hshape : ShapeOK D.shape (unitW R r : List α).length (U.set n (unitMat (D.shape.getD n 0) R i r)) := by
    rw [length_unitW]; exact hU.set n _ (isMat_tab _ _ _)
  have law := hD.mttkrp_law (unitW R r) (U.set n (unitMat (D.shape.getD n 0) R i r)) n hn hshape
  have hfun : Ktensor.get ⟨(unitW R r : List α), U.set n (unitMat (D.shape.getD n 0) R i r)⟩ =
      fun j => compOf (U.set n (unitMat (D.shape.getD n 0) R i r)) r j := by
    funext j; exact ktensor_get_unit R r hr _ j
  rw [hfun] at law
  rw [law, length_unitW, hD.mttkrp_indep, getD_set_eq _ _ _ _ (by rw [hU.1]; exact hn)]
  simp only [sumRange_eq]
  rw [Finset.sum_eq_single r]
  · rw [Finset.sum_eq_single i]
    · rw [unitW_getD R r r hr, if_pos rfl, one_mul, unitMat, get_tab _ _ _ hi hr, if_pos ⟨rfl, rfl⟩, mul_one]
    · intro i' hi' hne
      rw [unitMat, get_tab _ _ _ (Finset.mem_range.1 hi') hr, if_neg (fun h => hne h.1), mul_zero, mul_zero]
    · intro h; exact absurd (Finset.mem_range.2 hi) h
  · intro a ha hne
    rw [unitW_getD R r a (Finset.mem_range.1 ha), if_neg hne]
    simp
  · intro h; exact absurd (Finset.mem_range.2 hr) h

theorem ip_congr (s : List Nat) (X f g : List Nat → α) (h : ∀ j, j.length = s.length → f j = g j) :
    ip s X f = ip s X g := by
  unfold ip
  congr 1
  refine List.map_congr_left fun j hj => ?_
  rw [h j (mem_allSubs.1 hj).length_eq]

theorem ip_smul_left (s : List Nat) (X f : List Nat → α) (c : α) :
    ip s (fun j => c * X j) f = c * ip s X f := by
  unfold ip
  rw [← List.sum_map_mul_left]
  congr 1
  refine List.map_congr_left fun j _ => ?_
  ring

theorem ip_smul_right (s : List Nat) (X f : List Nat → α) (c : α) :
    ip s X (fun j => c * f j) = c * ip s X f := by
  unfold ip
  rw [← List.sum_map_mul_left]
  congr 1
  refine List.map_congr_left fun j _ => ?_
  ring

/-- `mttkrp` for the data scaled by `c`, on factors whose columns are scaled by `d`: entry `(i, r)`
is `c · ∏_{m≠n} d m r` times the original entry. -/
theorem mttkrp_scaled {D D' : Data α} {X : List Nat → α} {c : α} (hD : DataLaws D X)
    (hD' : DataLaws D' (fun j => c * X j)) (hs : D'.shape = D.shape) {R : Nat} {U U' : List (Mat α)}
    (hU : ShapeOK D.shape R U) (hU' : ShapeOK D.shape R U') {d : Nat → Nat → α} (hd : ColScaled d U U')
    {n i r : Nat} (hn : n < D.shape.length) (hi : i < D.shape.getD n 0) (hr : r < R) :
    (D'.mttkrp U' n).get i r = c * dOther d D.shape.length n r * (D.mttkrp U n).get i r := by
  rw [mttkrp_entry hD hU hn hi hr, mttkrp_entry hD' (by rw [hs]; exact hU') (by rw [hs]; exact hn)
    (by rw [hs]; exact hi) hr, hs, ip_smul_left]
  have hl : U'.length = U.length := by rw [hU.1, hU'.1]
  rw [ip_congr D.shape X _ (fun j => dOther d D.shape.length n r *
      compOf (U.set n (unitMat (D.shape.getD n 0) R i r)) r j) (fun j hj => by
    rw [hd.comp_set hl n _ j (by rw [hj, hU.1]) r, hU.1, mul_comm])]
  rw [ip_smul_right]
  ring

end mttkrp

/-! ## 4. the coefficient matrix, the all-zero guard, the solve -/

section solve
variable {α : Type} [Field α] [LinearOrder α] [IsStrictOrderedRing α]

theorem gram_get (A : Mat α) (R : Nat) {a b : Nat} (ha : a < R) (hb : b < R) :
    (gram A R).get a b = sumRange A.length fun i => A.get i a * A.get i b := by
  rw [gram, get_tab _ _ _ ha hb]

theorem coef_get (UtU : List (Mat α)) (N R n : Nat) {a b : Nat} (ha : a < R) (hb : b < R) :
    (coef UtU N R n).get a b =
      (((List.range N).filter (· != n)).map fun m => (UtU.getD m []).get a b).prod := by
  rw [coef, get_tab _ _ _ ha hb, prodOver_eq]

/-- The coefficient matrix of the second run is `Δ Y Δ` with `Δ = diag(∏_{m≠n} d m ·)`. -/
theorem coef_scaled {s : List Nat} {R : Nat} {st st' : State α} (hG : GramOK R st) (hG' : GramOK R st')
    (hU : ShapeOK s R st.U) (hU' : ShapeOK s R st'.U) {d : Nat → Nat → α} (hd : ColScaled d st.U st'.U)
    (n : Nat) {a b : Nat} (ha : a < R) (hb : b < R) :
    (coef st'.UtU s.length R n).get a b =
      dOther d s.length n a * dOther d s.length n b * (coef st.UtU s.length R n).get a b := by
  rw [coef_get _ _ _ _ ha hb, coef_get _ _ _ _ ha hb]
  unfold dOther
  rw [← prod_map_mul', ← prod_map_mul']
  congr 1
  refine List.map_congr_left fun m hm => ?_
  simp only [List.mem_filter, List.mem_range] at hm
  have hm1 : m < st.U.length := by rw [hU.1]; exact hm.1
  have hm2 : m < st'.U.length := by rw [hU'.1]; exact hm.1
  rw [hG.2 m hm1, hG'.2 m hm2, gram_get _ _ ha hb, gram_get _ _ ha hb, (hU.2 m hm.1).1, (hU'.2 m hm.1).1]
  simp only [sumRange_eq]
  rw [Finset.mul_sum]
  refine Finset.sum_congr rfl fun i _ => ?_
  rw [hd m i a, hd m i b]
  ring

theorem allZero_tab {o : NumOps α} (ho : o.Lawful) (I R : Nat) (f : Nat → Nat → α) :
    allZero o (tab I R f) = true ↔ ∀ i < I, ∀ r < R, f i r = 0 := by
  simp [allZero, tab, List.all_eq_true, ho.isZero_iff]

theorem allZero_coef_iff {o : NumOps α} (ho : o.Lawful) (UtU : List (Mat α)) (N R n : Nat) :
    allZero o (coef UtU N R n) = true ↔ ∀ a < R, ∀ b < R, (coef UtU N R n).get a b = 0 := by
  unfold coef
  rw [allZero_tab ho]
  constructor
  · intro h a ha b hb; rw [get_tab _ _ _ ha hb]; exact h a ha b hb
  · intro h a ha b hb; have := h a ha b hb; rwa [get_tab _ _ _ ha hb] at this

/-- `Y` (an `R × R` matrix) is non-singular, said without matrices: a row vector that `Y` sends to
zero is zero.  This is what makes the answer of the solver unique. -/
def LeftInj (Y : Mat α) (R : Nat) : Prop :=
  ∀ v : Nat → α, (∀ r < R, sumRange R (fun a => v a * Y.get a r) = 0) → ∀ a < R, v a = 0

/-- Row `i` of the solver's answer for the system `(Δ Y Δ, c · B Δ)` is `c · (row i of the answer
for (Y, B)) · Δ⁻¹` when `Y` is non-singular. -/
theorem solve_scaled {S : Services α} (hS : SolveContract S) {n R : Nat} {Y Y' B B' A A' : Mat α}
    (hs : S.solve n Y B = .ok A) (hs' : S.solve n Y' B' = .ok A') (hY : Y.length = R) (hY' : Y'.length = R)
    {δ : Nat → α} (hδ : ∀ a < R, δ a ≠ 0) {c : α}
    (hYs : ∀ a < R, ∀ b < R, Y'.get a b = δ a * δ b * Y.get a b) (hinj : LeftInj Y R) (i : Nat)
    (hB : ∀ r < R, B'.get i r = c * δ r * B.get i r) :
    ∀ a < R, A'.get i a = c / δ a * A.get i a := by
  have hv := hinj (fun a => A'.get i a * δ a - c * A.get i a) (fun r hr => by
    have h1 := hS _ _ _ _ hs' R i r hY' hr
    have h2 := hS _ _ _ _ hs R i r hY hr
    simp only [sumRange_eq] at h1 h2 ⊢
    have h3 : δ r * (∑ a ∈ Finset.range R, A'.get i a * δ a * Y.get a r) = δ r * (c * B.get i r) := by
      rw [show δ r * (c * B.get i r) = c * δ r * B.get i r by ring, ← hB r hr, ← h1, Finset.mul_sum]
      refine Finset.sum_congr rfl fun a ha => ?_
      rw [hYs a (Finset.mem_range.1 ha) r hr]
      ring
    have h4 := mul_left_cancel₀ (hδ r hr) h3
    simp only [sub_mul]
    rw [Finset.sum_sub_distrib, h4, ← h2, Finset.mul_sum]
    rw [sub_eq_zero]
    refine Finset.sum_congr rfl fun a _ => ?_
    ring)
  intro a ha
  have := sub_eq_zero.1 (hv a ha)
  rw [div_mul_eq_mul_div, eq_div_iff (hδ a ha)]
  exact this

theorem leftInj_one_by_one {y : α} (hy : y ≠ 0) (Y : Mat α) (h : Y.get 0 0 = y) : LeftInj Y 1 := by
  intro v hv a ha
  have := hv 0 (by omega)
  simp only [sumRange_eq, Finset.sum_range_one, h] at this
  have ha0 : a = 0 := by omega
  subst ha0
  rcases mul_eq_zero.1 this with h0 | h0
  · exact h0
  · exact absurd h0 hy

end solve

/-! ## 5. the column weights of the two runs -/

section colweights
variable {α : Type} [Field α] [LinearOrder α] [IsStrictOrderedRing α]

theorem NumOps.Lawful.sqrt_unique {o : NumOps α} (ho : o.Lawful) {x y : α} (hx : 0 ≤ x) (hy : 0 ≤ y)
    (h : x * x = y) : o.sqrt y = x := by
  subst h
  have h1 := ho.sqrt_mul_self (x * x) hy
  have h0 := ho.sqrt_nonneg (x * x) hy
  rcases mul_self_eq_mul_self_iff.1 h1 with e | e
  · exact e
  · rw [e] at h0 ⊢
    linarith

theorem colSum_nonneg (I r : Nat) (A : Mat α) :
    0 ≤ ((List.range I).map fun i => A.get i r * A.get i r).sum :=
  List.sum_nonneg (by
    intro y hy; simp only [List.mem_map] at hy; obtain ⟨i, _, rfl⟩ := hy; exact mul_self_nonneg _)

theorem colWeight_zero (o : NumOps α) (I r : Nat) (A : Mat α) :
    Gen.colWeight o 0 (col A I r) = o.sqrt (((List.range I).map fun i => A.get i r * A.get i r).sum) := by
  simp [Gen.colWeight, Gen.firstIteration, Gen.colWeightFirst, col, sumL, List.map_map, Function.comp_def]

theorem colWeight_later_ge {o : NumOps α} (ho : o.Lawful) {it : Nat} (hit : it ≠ 0) (l : List α) :
    1 ≤ Gen.colWeight o it l := by
  simp only [Gen.colWeight, Gen.firstIteration, hit, decide_false, Bool.false_eq_true, if_false,
    Gen.colWeightLater, NumOps.max, ho.ofNat_eq, Nat.cast_one]
  split
  · exact le_rfl
  · rename_i h
    rw [ho.lt_iff] at h
    exact not_lt.1 h

/-- What the simulation needs to know about the column scale of the two runs, for both formulas
(2-norm in pass 0, `max(max|·|, 1)` afterwards): non-negative, zero together, and zero only for a
zero column. -/
theorem colWeight_facts {o : NumOps α} (ho : o.Lawful) (it I r : Nat) (A A' : Mat α) (κ : α) (hκ : 0 < κ)
    (h : ∀ i < I, A'.get i r = κ * A.get i r) :
    0 ≤ Gen.colWeight o it (col A I r) ∧ 0 ≤ Gen.colWeight o it (col A' I r) ∧
    (Gen.colWeight o it (col A I r) = 0 ↔ Gen.colWeight o it (col A' I r) = 0) ∧
    (Gen.colWeight o it (col A I r) = 0 → ∀ i < I, A.get i r = 0) := by
  by_cases hit : it = 0
  · subst hit
    rw [colWeight_zero, colWeight_zero]
    have hS := colSum_nonneg I r A
    have hS' : ((List.range I).map fun i => A'.get i r * A'.get i r).sum =
        κ * κ * ((List.range I).map fun i => A.get i r * A.get i r).sum := by
      rw [← sum_sq_scale]
      congr 1
      refine List.map_congr_left fun i hi => ?_
      rw [h i (List.mem_range.1 hi)]
    set T := ((List.range I).map fun i => A.get i r * A.get i r).sum with hT
    have hw := ho.sqrt_nonneg T hS
    have hww := ho.sqrt_mul_self T hS
    have hw' : o.sqrt (((List.range I).map fun i => A'.get i r * A'.get i r).sum) = κ * o.sqrt T := by
      rw [hS']
      exact ho.sqrt_unique (mul_nonneg hκ.le hw) (mul_nonneg (mul_self_nonneg κ) hS) (by
        rw [mul_mul_mul_comm, hww])
    rw [hw']
    refine ⟨hw, mul_nonneg hκ.le hw, ?_, ?_⟩
    · constructor
      · intro e; rw [e, mul_zero]
      · intro e
        rcases mul_eq_zero.1 e with e | e
        · exact absurd e hκ.ne'
        · exact e
    · intro e i hi
      have hT0 : T = 0 := by rw [← hww, e, mul_zero]
      exact sum_sq_eq_zero _ (fun i => A.get i r) hT0 i (List.mem_range.2 hi)
  · have h1 := colWeight_later_ge ho hit (col A I r)
    have h2 := colWeight_later_ge ho hit (col A' I r)
    refine ⟨by linarith, by linarith, ?_, ?_⟩
    · constructor
      · intro e; linarith
      · intro e; linarith
    · intro e; linarith

theorem colWeights_getD (o : NumOps α) (it I R : Nat) (A : Mat α) {r : Nat} (hr : r < R) :
    (colWeights o it I R A).getD r 0 = Gen.colWeight o it (col A I r) := by
  simp [colWeights, List.getD_eq_getElem?_getD, hr]

theorem colWeights_all_zero {o : NumOps α} (ho : o.Lawful) (it I R : Nat) (A : Mat α) :
    (colWeights o it I R A).all o.isZero = true ↔ ∀ r < R, Gen.colWeight o it (col A I r) = 0 := by
  simp [colWeights, List.all_eq_true, ho.isZero_iff]

theorem scaleCols_get {o : NumOps α} (I R : Nat) (A : Mat α) (w : List α) (i r : Nat) :
    (scaleCols o I R A w).get i r =
      if i < I ∧ r < R then (if w.all o.isZero = true then A.get i r else A.get i r / w.getD r 0) else 0 := by
  unfold scaleCols
  split
  · rw [get_tab_ite]
  · rw [get_tab_ite]

end colweights

/-! ## 6. the simulation relation and the mode update -/

section sim
variable {α : Type} [Field α] [LinearOrder α] [IsStrictOrderedRing α]

/-- **The simulation relation** between a state `st` of the run on `X` and a state `st'` of the run
on `c • X`: the factor matrices agree up to positive per-column scalings `d m r` whose product with
the weights accounts for the factor `c` (`weights'[r] · ∏ₘ d m r = c · weights[r]`), the stored Gram
matrices are those of the factors, the fits, the pass counters and the stop flags are equal and the
residual norm scales by `c`. -/
structure Sim (c : α) (s : List Nat) (R : Nat) (st st' : State α) : Prop where
  shape : ShapeOK s R st.U
  shape' : ShapeOK s R st'.U
  gram : GramOK R st
  gram' : GramOK R st'
  scaled : ∃ d : Nat → Nat → α, (∀ m r, 0 < d m r) ∧ ColScaled d st.U st'.U ∧
    ∀ r < R, st'.weights.getD r 0 * dAll d s.length r = c * st.weights.getD r 0
  wlen : st'.weights.length = st.weights.length
  fit : st'.fit = st.fit
  normresidual : st'.normresidual = c * st.normresidual
  iteration : st'.iteration = st.iteration
  stop : st'.stop = st.stop

theorem dOther_pos {d : Nat → Nat → α} (hd : ∀ m r, 0 < d m r) (N n r : Nat) : 0 < dOther d N n r := by
  unfold dOther
  apply List.prod_pos
  intro x hx
  simp only [List.mem_map] at hx
  obtain ⟨m, _, rfl⟩ := hx
  exact hd m r

/-- The coefficient matrix `Y` of a mode update is non-singular unless the all-zero guard fires. -/
def RegularY (o : NumOps α) (Y : Mat α) (R : Nat) : Prop := allZero o Y = false → LeftInj Y R

/-- Rows of the (guarded) solver answers of the two runs: `A0' = c · A0 · Δ⁻¹`. -/
theorem solveStep_sim {D D' : Data α} {S : Services α} {o : NumOps α} {X : List Nat → α} {c : α}
    (ho : o.Lawful) (hS : SolveContract S) (hD : DataLaws D X) (hD' : DataLaws D' (fun j => c * X j))
    (hs : D'.shape = D.shape) {rank n : Nat} (hn : n < D.shape.length) {st st' : State α}
    (hU : ShapeOK D.shape rank st.U) (hU' : ShapeOK D.shape rank st'.U)
    (hG : GramOK rank st) (hG' : GramOK rank st')
    {d : Nat → Nat → α} (hdpos : ∀ m r, 0 < d m r) (hd : ColScaled d st.U st'.U)
    (hreg : RegularY o (coef st.UtU D.shape.length rank n) rank) {A0 A0' : Mat α}
    (h : solveStep S o (D.shape.getD n 0) rank n (coef st.UtU D.shape.length rank n) (D.mttkrp st.U n) = .ok A0)
    (h' : solveStep S o (D.shape.getD n 0) rank n (coef st'.UtU D.shape.length rank n) (D'.mttkrp st'.U n) = .ok A0') :
    ∀ i < D.shape.getD n 0, ∀ a < rank,
      A0'.get i a = c / dOther d D.shape.length n a * A0.get i a := by
  have hδ : ∀ a, 0 < dOther d D.shape.length n a := fun a => dOther_pos hdpos _ _ _
  have hYs : ∀ a < rank, ∀ b < rank, (coef st'.UtU D.shape.length rank n).get a b =
      dOther d D.shape.length n a * dOther d D.shape.length n b * (coef st.UtU D.shape.length rank n).get a b :=
    fun a ha b hb => coef_scaled hG hG' hU hU' hd n ha hb
  have hzz : allZero o (coef st'.UtU D.shape.length rank n) = true ↔
      allZero o (coef st.UtU D.shape.length rank n) = true := by
    rw [allZero_coef_iff ho, allZero_coef_iff ho]
    constructor
    · intro hz a ha b hb
      have := hz a ha b hb
      rw [hYs a ha b hb] at this
      rcases mul_eq_zero.1 this with e | e
      · exact absurd e (mul_pos (hδ a) (hδ b)).ne'
      · exact e
    · intro hz a ha b hb
      rw [hYs a ha b hb, hz a ha b hb, mul_zero]
  unfold solveStep at h h'
  by_cases hz : allZero o (coef st.UtU D.shape.length rank n) = true
  · rw [if_pos hz] at h
    rw [if_pos (hzz.2 hz)] at h'
    simp only [pure, Except.pure, Except.ok.injEq] at h h'
    subst h; subst h'
    intro i hi a ha
    rw [get_tab _ _ _ hi ha, mul_zero]
  · rw [if_neg hz] at h
    rw [if_neg (fun e => hz (hzz.1 e))] at h'
    intro i hi
    exact solve_scaled hS h h' (length_coef _ _ _ _) (length_coef _ _ _ _) (fun a _ => (hδ a).ne') hYs
      (hreg (by simpa using hz)) i (fun r hr => mttkrp_scaled hD hD' hs hU hU' hd hn hi hr)

/-- **One mode update preserves the simulation.** -/
theorem modeUpdate_sim {D D' : Data α} {S : Services α} {o : NumOps α} {X : List Nat → α} {c : α}
    (ho : o.Lawful) (hS : SolveContract S) (hc : 0 < c) (hD : DataLaws D X)
    (hD' : DataLaws D' (fun j => c * X j)) (hs : D'.shape = D.shape) {rank it last n : Nat}
    (hn : n < D.shape.length) {st st' st1 st1' : State α} (hsim : Sim c D.shape rank st st')
    (hreg : RegularY o (coef st.UtU D.shape.length rank n) rank)
    (h : modeUpdate D S o rank it last n st = .ok st1)
    (h' : modeUpdate D' S o rank it last n st' = .ok st1') :
    Sim c D.shape rank st1 st1' ∧ st1.weights.length = rank := by
  have hsh := modeUpdate_shape h hsim.shape
  have hsh' := modeUpdate_shape h' (by rw [hs]; exact hsim.shape')
  rw [hs] at hsh'
  have hg := gramOK_modeUpdate h hsim.gram
  have hg' := gramOK_modeUpdate h' hsim.gram'
  obtain ⟨A0, hA0, rfl⟩ := modeUpdate_ok h
  obtain ⟨A0', hA0', rfl⟩ := modeUpdate_ok h'
  rw [hs] at hA0' hg' hsh' ⊢
  obtain ⟨d, hdpos, hd, _⟩ := hsim.scaled
  have key := solveStep_sim ho hS hD hD' hs hn hsim.shape hsim.shape' hsim.gram hsim.gram' hdpos hd hreg hA0 hA0'
  have hδ : ∀ a, 0 < dOther d D.shape.length n a := fun a => dOther_pos hdpos _ _ _
  have hκ : ∀ a, 0 < c / dOther d D.shape.length n a := fun a => div_pos hc (hδ a)
  have facts := fun r (hr : r < rank) => colWeight_facts ho it (D.shape.getD n 0) r A0 A0'
    (c / dOther d D.shape.length n r) (hκ r) (fun i hi => key i hi r hr)
  have hallz : (colWeights o it (D.shape.getD n 0) rank A0').all o.isZero = true ↔
      (colWeights o it (D.shape.getD n 0) rank A0).all o.isZero = true := by
    rw [colWeights_all_zero ho, colWeights_all_zero ho]
    exact ⟨fun hz r hr => (facts r hr).2.2.1.2 (hz r hr), fun hz r hr => (facts r hr).2.2.1.1 (hz r hr)⟩
  have hnU : n < st.U.length := by rw [hsim.shape.1]; exact hn
  have hnU' : n < st'.U.length := by rw [hsim.shape'.1]; exact hn
  refine ⟨⟨hsh.1, hsh'.1, hg, hg', ?_, by rw [hsh.2, hsh'.2], hsim.fit, hsim.normresidual, hsim.iteration,
    hsim.stop⟩, hsh.2⟩
  obtain ⟨d1, hd1⟩ : ∃ d1 : Nat → Nat → α, ∀ m r, d1 m r = if m = n then
      (if r < rank then
        (if Gen.colWeight o it (col A0 (D.shape.getD n 0) r) = 0 then 1
         else c / dOther d D.shape.length n r * Gen.colWeight o it (col A0 (D.shape.getD n 0) r) /
                Gen.colWeight o it (col A0' (D.shape.getD n 0) r))
       else 1)
    else d m r := ⟨_, fun _ _ => rfl⟩
  refine ⟨d1, ?_, ?_, ?_⟩
  · -- positivity
    intro m r
    rw [hd1]
    by_cases hmn : m = n
    · rw [if_pos hmn]
      by_cases hr : r < rank
      · rw [if_pos hr]
        obtain ⟨f1, f2, f3, _⟩ := facts r hr
        by_cases hw : Gen.colWeight o it (col A0 (D.shape.getD n 0) r) = 0
        · rw [if_pos hw]; exact zero_lt_one
        · rw [if_neg hw]
          have hw' : Gen.colWeight o it (col A0' (D.shape.getD n 0) r) ≠ 0 := fun e => hw (f3.2 e)
          exact div_pos (mul_pos (hκ r) (lt_of_le_of_ne f1 (Ne.symm hw))) (lt_of_le_of_ne f2 (Ne.symm hw'))
      · rw [if_neg hr]; exact zero_lt_one
    · rw [if_neg hmn]; exact hdpos m r
  · -- the factors
    intro m i r
    by_cases hmn : m = n
    · subst hmn
      rw [applyUpdate_U, applyUpdate_U, getD_set_eq _ _ _ _ hnU, getD_set_eq _ _ _ _ hnU', scaleCols_get,
        scaleCols_get, hd1, if_pos rfl]
      by_cases hir : i < D.shape.getD m 0 ∧ r < rank
      · rw [if_pos hir, if_pos hir, if_pos hir.2]
        obtain ⟨f1, f2, f3, f4⟩ := facts r hir.2
        by_cases hall : (colWeights o it (D.shape.getD m 0) rank A0).all o.isZero = true
        · rw [if_pos hall, if_pos (hallz.2 hall), key i hir.1 r hir.2]
          have hw := (colWeights_all_zero ho _ _ _ _).1 hall r hir.2
          rw [f4 hw i hir.1, mul_zero, zero_mul]
        · rw [if_neg hall, if_neg (fun e => hall (hallz.1 e)), colWeights_getD _ _ _ _ _ hir.2,
            colWeights_getD _ _ _ _ _ hir.2, key i hir.1 r hir.2]
          by_cases hw : Gen.colWeight o it (col A0 (D.shape.getD m 0) r) = 0
          · rw [if_pos hw, hw, f3.1 hw, div_zero, div_zero, zero_mul]
          · rw [if_neg hw]
            have hw' : Gen.colWeight o it (col A0' (D.shape.getD m 0) r) ≠ 0 := fun e => hw (f3.2 e)
            field_simp
      · rw [if_neg hir, if_neg hir, zero_mul]
    · rw [applyUpdate_U, applyUpdate_U, getD_set_ne _ _ _ (Ne.symm hmn), getD_set_ne _ _ _ (Ne.symm hmn),
        hd1, if_neg hmn]
      exact hd m i r
  · -- the weights
    intro r hr
    rw [applyUpdate_weights, applyUpdate_weights, colWeights_getD _ _ _ _ _ hr, colWeights_getD _ _ _ _ _ hr,
      dAll_split _ hn r, dOther_congr d d1 _ n r (fun m hm => by rw [hd1, if_neg hm]), hd1, if_pos rfl, if_pos hr]
    obtain ⟨f1, f2, f3, f4⟩ := facts r hr
    by_cases hw : Gen.colWeight o it (col A0 (D.shape.getD n 0) r) = 0
    · rw [if_pos hw, hw, f3.1 hw, zero_mul, mul_zero]
    · rw [if_neg hw]
      have hw' : Gen.colWeight o it (col A0' (D.shape.getD n 0) r) ≠ 0 := fun e => hw (f3.2 e)
      have hδ' := (hδ r).ne'
      field_simp

end sim

/-! ## 7. the model tensor, a sweep, a pass -/

section pass
variable {α : Type} [Field α] [LinearOrder α] [IsStrictOrderedRing α]

/-- Related states denote model tensors that differ by the factor `c`. -/
theorem Sim.tensor {c : α} {s : List Nat} {R : Nat} {st st' : State α} (h : Sim c s R st st')
    (hw : st.weights.length = R) (j : List Nat) (hj : j.length = s.length) :
    Ktensor.get ⟨st'.weights, st'.U⟩ j = c * Ktensor.get ⟨st.weights, st.U⟩ j := by
  obtain ⟨d, _, hd, hwt⟩ := h.scaled
  rw [ktensor_get_eq, ktensor_get_eq, h.wlen, hw, Finset.mul_sum]
  refine Finset.sum_congr rfl fun r hr => ?_
  have hl : st'.U.length = st.U.length := by rw [h.shape.1, h.shape'.1]
  rw [hd.comp hl j (by rw [hj, h.shape.1]) r, h.shape.1]
  have := hwt r (Finset.mem_range.1 hr)
  calc st'.weights.getD r 0 * (compOf st.U r j * dAll d s.length r)
      = (st'.weights.getD r 0 * dAll d s.length r) * compOf st.U r j := by ring
    _ = c * (st.weights.getD r 0 * compOf st.U r j) := by rw [this]; ring

theorem ip_scale_both (s : List Nat) (f f' : List Nat → α) (c : α)
    (h : ∀ j, j.length = s.length → f' j = c * f j) : ip s f' f' = c * c * ip s f f := by
  unfold ip
  rw [← List.sum_map_mul_left]
  congr 1
  refine List.map_congr_left fun j hj => ?_
  rw [h j (mem_allSubs.1 hj).length_eq]
  ring

theorem ip_scale_data_model (s : List Nat) (X f f' : List Nat → α) (c : α)
    (h : ∀ j, j.length = s.length → f' j = c * f j) : ip s (fun j => c * X j) f' = c * c * ip s X f := by
  rw [ip_smul_left, ip_congr s X f' (fun j => c * f j) h, ip_smul_right, mul_assoc]

theorem knorm_nonneg {o : NumOps α} (ho : o.Lawful) (w : List α) (U : List (Mat α)) : 0 ≤ knorm o w U :=
  (ho.sqrt_abs_sq _).1

/-- `ktensor.norm()` of the model of the second run is `c` times that of the first. -/
theorem knorm_scaled {o : NumOps α} (ho : o.Lawful) {c : α} (hc : 0 < c) (s : List Nat) (w w' : List α)
    (U U' : List (Mat α)) (hU : ShapeOK s w.length U) (hU' : ShapeOK s w'.length U')
    (h : ∀ j, j.length = s.length → Ktensor.get ⟨w', U'⟩ j = c * Ktensor.get ⟨w, U⟩ j) :
    knorm o w' U' = c * knorm o w U := by
  have h1 := knorm_mul_self ho (knormLaw s) w U hU
  have h2 := knorm_mul_self ho (knormLaw s) w' U' hU'
  rw [ip_scale_both s _ _ c h, ← h1] at h2
  have e : knorm o w' U' * knorm o w' U' = (c * knorm o w U) * (c * knorm o w U) := by rw [h2]; ring
  rcases mul_self_eq_mul_self_iff.1 e with e | e
  · exact e
  · have n1 := knorm_nonneg ho w' U'
    have n2 := mul_nonneg hc.le (knorm_nonneg ho w U)
    rw [e] at n1 ⊢
    linarith

/-- The reported pair `(normresidual, fit)` for data, model norm and inner product scaled by
`c`, `c`, `c²`: the residual scales by `c`, the fit is unchanged (data of non-zero norm). -/
theorem report_scale {o : NumOps α} (ho : o.Lawful) {c : α} (hc : 0 < c) (nx nm ipr : α) (hnz : nx ≠ 0) :
    (report o (c * nx) (c * nm) (c * c * ipr)).1 = c * (report o nx nm ipr).1 ∧
    (report o (c * nx) (c * nm) (c * c * ipr)).2 = (report o nx nm ipr).2 := by
  have hb : Gen.branchZero o nx = false := by
    rw [Gen.branchZero, Bool.eq_false_iff, Ne, ho.isZero_iff]; exact hnz
  have hb' : Gen.branchZero o (c * nx) = false := by
    rw [Gen.branchZero, Bool.eq_false_iff, Ne, ho.isZero_iff]; exact mul_ne_zero hc.ne' hnz
  simp only [report, hb, hb', Bool.false_eq_true, if_false]
  have hnr : Gen.normresidual o (c * nx) (c * nm) (c * c * ipr) = c * Gen.normresidual o nx nm ipr := by
    unfold Gen.normresidual
    rw [ho.abs_eq, ho.abs_eq]
    have hq := ho.sqrt_mul_self |nx * nx + nm * nm - o.ofNat 2 * ipr| (abs_nonneg _)
    have hq0 := ho.sqrt_nonneg |nx * nx + nm * nm - o.ofNat 2 * ipr| (abs_nonneg _)
    apply ho.sqrt_unique (mul_nonneg hc.le hq0) (abs_nonneg _)
    rw [mul_mul_mul_comm, hq]
    have e : c * nx * (c * nx) + c * nm * (c * nm) - o.ofNat 2 * (c * c * ipr) =
        c * c * (nx * nx + nm * nm - o.ofNat 2 * ipr) := by ring
    rw [e, abs_mul, abs_mul_self]
  refine ⟨hnr, ?_⟩
  rw [hnr]
  unfold Gen.fit
  rw [mul_div_mul_left _ _ hc.ne']

/-- Every coefficient matrix met during the sweep of the FIRST run (data `X`) is zero or
non-singular.  (For rank one this always holds.) -/
def RegularSweep (D : Data α) (S : Services α) (o : NumOps α) (rank it last : Nat) :
    List Nat → State α → Prop
  | [], _ => True
  | n :: rest, st => RegularY o (coef st.UtU D.shape.length rank n) rank ∧
      ∀ st1, modeUpdate D S o rank it last n st = .ok st1 → RegularSweep D S o rank it last rest st1

/-- **A sweep over the modes preserves the simulation.** -/
theorem sweep_sim {D D' : Data α} {S : Services α} {o : NumOps α} {X : List Nat → α} {c : α}
    (ho : o.Lawful) (hS : SolveContract S) (hc : 0 < c) (hD : DataLaws D X)
    (hD' : DataLaws D' (fun j => c * X j)) (hs : D'.shape = D.shape) {rank it last : Nat}
    (dims : List Nat) (hdims : ∀ n ∈ dims, n < D.shape.length) {st st' st1 st1' : State α}
    (hsim : Sim c D.shape rank st st') (hreg : RegularSweep D S o rank it last dims st)
    (h : dims.foldlM (fun s n => modeUpdate D S o rank it last n s) st = .ok st1)
    (h' : dims.foldlM (fun s n => modeUpdate D' S o rank it last n s) st' = .ok st1') :
    Sim c D.shape rank st1 st1' ∧ (dims ≠ [] → st1.weights.length = rank) := by
  induction dims generalizing st st' with
  | nil =>
    simp [List.foldlM] at h h'
    cases h; cases h'
    exact ⟨hsim, fun e => absurd rfl e⟩
  | cons n rest ih =>
    rw [List.foldlM_cons] at h h'
    cases hm : modeUpdate D S o rank it last n st with
    | error e => rw [hm] at h; cases h
    | ok s2 =>
      cases hm' : modeUpdate D' S o rank it last n st' with
      | error e => rw [hm'] at h'; cases h'
      | ok s2' =>
        rw [hm] at h; rw [hm'] at h'
        have hstep := modeUpdate_sim ho hS hc hD hD' hs (hdims n (List.mem_cons_self ..)) hsim hreg.1 hm hm'
        have hrest := ih (fun m hm => hdims m (List.mem_cons_of_mem _ hm)) hstep.1 (hreg.2 s2 hm) h h'
        refine ⟨hrest.1, fun _ => ?_⟩
        by_cases hr : rest = []
        · subst hr
          simp [List.foldlM] at h
          cases h
          exact hstep.2
        · exact hrest.2 hr

theorem getLastD_mem {l : List Nat} (hne : l ≠ []) : l.getLastD 0 ∈ l := by
  rw [List.getLastD_eq_getLast?, List.getLast?_eq_some_getLast hne]
  exact List.getLast_mem hne

/-- **One pass (`iterStep`) preserves the simulation**: related states go to related states — in
particular the fit after the pass is the same number in both runs, the residual norm scales by `c`
and the stop test gives the same answer. -/
theorem iterStep_sim {D D' : Data α} {S : Services α} {o : NumOps α} {X : List Nat → α} {c : α}
    (ho : o.Lawful) (hS : SolveContract S) (hc : 0 < c) (hD : DataLaws D X)
    (hD' : DataLaws D' (fun j => c * X j)) (hs : D'.shape = D.shape)
    (hnorm : D'.norm = c * D.norm) (hnz : D.norm ≠ 0) {rank it : Nat} {stoptol : α}
    {dims : List Nat} (hne : dims ≠ []) (hdims : ∀ n ∈ dims, n < D.shape.length) {st st' st2 st2' : State α}
    (hsim : Sim c D.shape rank st st') (hreg : RegularSweep D S o rank it (dims.getLastD 0) dims st)
    (h : iterStep D S o rank stoptol dims it st = .ok st2)
    (h' : iterStep D' S o rank stoptol dims it st' = .ok st2') :
    Sim c D.shape rank st2 st2' ∧ st2.weights.length = rank ∧ st2.iteration = it := by
  obtain ⟨st1, hf, rfl⟩ := iterStep_ok h
  obtain ⟨st1', hf', rfl⟩ := iterStep_ok h'
  obtain ⟨hsim1, hw1⟩ := sweep_sim ho hS hc hD hD' hs dims hdims hsim hreg hf hf'
  have hw := hw1 hne
  have hw' : st1'.weights.length = rank := by rw [hsim1.wlen]; exact hw
  have hlast : dims.getLastD 0 < D.shape.length := hdims _ (getLastD_mem hne)
  have hten := fun j hj => hsim1.tensor hw j hj
  have hip := sweep_iprod hD dims hne hlast hsim.shape hf
  have hip' := sweep_iprod hD' dims hne (by rw [hs]; exact hlast) (by rw [hs]; exact hsim.shape') hf'
  rw [hs, ip_scale_data_model D.shape X _ _ c hten] at hip'
  have hkn := knorm_scaled ho hc D.shape st1.weights st1'.weights st1.U st1'.U
    (by rw [hw]; exact hsim1.shape) (by rw [hw']; exact hsim1.shape') hten
  have hrep : (passReport D' o rank dims st1').1 = c * (passReport D o rank dims st1).1 ∧
      (passReport D' o rank dims st1').2 = (passReport D o rank dims st1).2 := by
    unfold passReport
    rw [hs, hip', hkn, hnorm, hip]
    exact report_scale ho hc _ _ _ hnz
  refine ⟨⟨hsim1.shape, hsim1.shape', hsim1.gram, hsim1.gram', hsim1.scaled, hsim1.wlen, ?_, ?_, rfl, ?_⟩, hw, rfl⟩
  · exact hrep.2
  · exact hrep.1
  · show Gen.stopTest o it (Gen.fitchange o st'.fit (passReport D' o rank dims st1').2) stoptol =
      Gen.stopTest o it (Gen.fitchange o st.fit (passReport D o rank dims st1).2) stoptol
    rw [hrep.2, hsim.fit]

end pass

/-! ## 8. the loop -/

section loop
variable {α : Type} [Field α] [LinearOrder α] [IsStrictOrderedRing α]

/-- Every coefficient matrix met during the FIRST run (data `X`), from pass `k` on with `fuel`
passes left, is zero or non-singular. -/
def RegularLoop (D : Data α) (S : Services α) (o : NumOps α) (rank : Nat) (stoptol : α) (dims : List Nat) :
    Nat → Nat → State α → Prop
  | 0, _, _ => True
  | fuel + 1, k, st => RegularSweep D S o rank k (dims.getLastD 0) dims st ∧
      ∀ st1, iterStep D S o rank stoptol dims k st = .ok st1 → st1.stop = false →
        RegularLoop D S o rank stoptol dims fuel (k + 1) st1

/-- **The main loop preserves the simulation**: started in related states, the two runs execute the
same number of passes (their stop tests agree pass by pass) and end in related states. -/
theorem loop_sim {D D' : Data α} {S : Services α} {o : NumOps α} {X : List Nat → α} {c : α}
    (ho : o.Lawful) (hS : SolveContract S) (hc : 0 < c) (hD : DataLaws D X)
    (hD' : DataLaws D' (fun j => c * X j)) (hs : D'.shape = D.shape)
    (hnorm : D'.norm = c * D.norm) (hnz : D.norm ≠ 0) {rank : Nat} {stoptol : α}
    {dims : List Nat} (hne : dims ≠ []) (hdims : ∀ n ∈ dims, n < D.shape.length) :
    ∀ (fuel k : Nat) {st st' stF stF' : State α}, Sim c D.shape rank st st' →
      RegularLoop D S o rank stoptol dims fuel k st →
      loopFrom (iterStep D S o rank stoptol dims) fuel k st = .ok stF →
      loopFrom (iterStep D' S o rank stoptol dims) fuel k st' = .ok stF' →
      Sim c D.shape rank stF stF' ∧ (0 < fuel → stF.weights.length = rank) := by
  intro fuel
  induction fuel with
  | zero =>
    intro k st st' stF stF' hsim _ h h'
    simp only [loopFrom, Except.ok.injEq] at h h'
    subst h; subst h'
    exact ⟨hsim, fun h => absurd h (Nat.lt_irrefl 0)⟩
  | succ fuel ih =>
    intro k st st' stF stF' hsim hreg h h'
    unfold loopFrom at h h'
    cases hs1 : iterStep D S o rank stoptol dims k st with
    | error e => rw [hs1] at h; cases h
    | ok s1 =>
      cases hs1' : iterStep D' S o rank stoptol dims k st' with
      | error e => rw [hs1'] at h'; cases h'
      | ok s1' =>
        rw [hs1] at h; rw [hs1'] at h'
        have hstep := iterStep_sim ho hS hc hD hD' hs hnorm hnz hne hdims hsim hreg.1 hs1 hs1'
        have hstopeq := hstep.1.stop
        by_cases hstop : s1.stop = true
        · have hstop' : s1'.stop = true := by rw [hstopeq]; exact hstop
          simp only [bind, Except.bind, hstop, hstop', if_true, Except.ok.injEq] at h h'
          subst h; subst h'
          exact ⟨hstep.1, fun _ => hstep.2.1⟩
        · have hstop' : ¬ s1'.stop = true := by rw [hstopeq]; exact hstop
          simp only [bind, Except.bind, hstop, hstop', if_false] at h h'
          have hrec := ih (k + 1) hstep.1 (hreg.2 s1 hs1 (by simpa using hstop)) h h'
          refine ⟨hrec.1, fun _ => ?_⟩
          by_cases hf : fuel = 0
          · subst hf
            simp [loopFrom] at h
            subst h
            exact hstep.2.1
          · exact hrec.2 (Nat.pos_of_ne_zero hf)

/-- The two runs start in related states (same start, all scalings one). -/
theorem sim_init {c : α} {D D' : Data α} (hs : D'.shape = D.shape) {rank : Nat} (dims : List Nat)
    {K : Ktensor α} (hK : ShapeOK D.shape rank K.factors) :
    Sim c D.shape rank (initState D rank dims K) (initState D' rank dims K) := by
  refine ⟨hK, hK, gramOK_init D rank dims K, gramOK_init D' rank dims K,
    ⟨fun _ _ => 1, fun _ _ => zero_lt_one, fun m i r => by simp [initState], fun r _ => by simp [initState]⟩,
    rfl, rfl, by simp [initState], rfl, rfl⟩

end loop

/-! ## 9. the final clean-up (`arrange`, `fixsigns`) does not change the array -/

section cleanup
variable {α : Type} [Field α] [LinearOrder α] [IsStrictOrderedRing α]

theorem prodN_single (N n : Nat) (hn : n < N) (x : α) : prodN N (fun m => if m = n then x else 1) = x := by
  unfold prodN
  rw [prod_filter_split N n hn, if_pos rfl, List.prod_eq_one, mul_one]
  intro y hy
  simp only [List.mem_map, List.mem_filter, bne_iff_ne, ne_eq] at hy
  obtain ⟨m, hm, rfl⟩ := hy
  rw [if_neg hm.2]

/-- replacing factor `n` by a matrix whose column `r` is `x` times the old one -/
theorem compOf_set_col (U : List (Mat α)) (n : Nat) (hn : n < U.length) (A' : Mat α) (j : List Nat)
    (hj : j.length = U.length) (r : Nat) (x : α) (h : ∀ i, A'.get i r = (U.getD n []).get i r * x) :
    compOf (U.set n A') r j = compOf U r j * x := by
  have := compOf_scale U (U.set n A') j r r (fun m => if m = n then x else 1) (by simp) hj (fun m hm i => by
    by_cases hmn : m = n
    · subst hmn; rw [getD_set_eq _ _ _ _ hm, if_pos rfl]; exact h i
    · rw [getD_set_ne _ _ _ (Ne.symm hmn), if_neg hmn, mul_one])
  rw [this, prodN_single _ _ hn]

theorem ktensor_get_congr (w w' : List α) (U U' : List (Mat α)) (j : List Nat) (hl : w'.length = w.length)
    (h : ∀ r < w.length, w'.getD r 0 * compOf U' r j = w.getD r 0 * compOf U r j) :
    Ktensor.get ⟨w', U'⟩ j = Ktensor.get ⟨w, U⟩ j := by
  rw [ktensor_get_eq, ktensor_get_eq, hl]
  exact Finset.sum_congr rfl fun r hr => h r (Finset.mem_range.1 hr)

theorem get_row_ge (A : Mat α) {i : Nat} (hi : A.length ≤ i) (r : Nat) : A.get i r = 0 := by
  simp [Mat.get, List.getD_eq_getElem?_getD, List.getElem?_eq_none hi]

/-- One mode of `normalize()` leaves the array unchanged. -/
theorem normalizeMode_get {o : NumOps α} (ho : o.Lawful) (K : Ktensor α) (n : Nat) (hn : n < K.factors.length)
    (j : List Nat) (hj : j.length = K.factors.length) :
    (normalizeMode o K n).get j = K.get j := by
  unfold normalizeMode
  apply ktensor_get_congr
  · simp
  · intro r hr
    set A := K.factors.getD n [] with hA
    have ht : ((List.range K.weights.length).map fun r => colNorm2 o A r).getD r 0 = colNorm2 o A r := by
      simp [List.getD_eq_getElem?_getD, hr]
    have hw : ((List.range K.weights.length).map fun r => K.weights.getD r 0 *
        ((List.range K.weights.length).map fun r => colNorm2 o A r).getD r 0).getD r 0 =
        K.weights.getD r 0 * colNorm2 o A r := by
      simp [List.getD_eq_getElem?_getD, hr]
    rw [hw]
    have hS : 0 ≤ colSq A r := List.sum_nonneg (by
      intro y hy; simp only [List.mem_map] at hy; obtain ⟨i, _, rfl⟩ := hy; exact mul_self_nonneg _)
    have htt := ho.sqrt_mul_self _ hS
    have htn := ho.sqrt_nonneg _ hS
    rw [← colNorm2_eq] at htt htn
    by_cases hpos : 0 < colNorm2 o A r
    · rw [compOf_set_col K.factors n hn _ j hj r (1 / colNorm2 o A r) (fun i => by
        rw [get_tab_ite]
        by_cases hi : i < A.length
        · rw [if_pos ⟨hi, hr⟩, ht, if_pos ((ho.lt_iff _ _).2 hpos), ho.ofNat_eq, Nat.cast_one, mul_comm]
        · rw [if_neg (fun h => hi h.1), get_row_ge A (Nat.le_of_not_lt hi), zero_mul])]
      have hne := hpos.ne'
      field_simp
    · have hz : colNorm2 o A r = 0 := le_antisymm (not_lt.1 hpos) htn
      have hS0 : colSq A r = 0 := by rw [← htt, hz, mul_zero]
      have hcol : ∀ i, A.get i r = 0 := by
        intro i
        by_cases hi : i < A.length
        · exact sum_sq_eq_zero _ (fun i => A.get i r) hS0 i (List.mem_range.2 hi)
        · exact get_row_ge A (Nat.le_of_not_lt hi) r
      rw [hz, mul_zero, zero_mul, compOf_zero K.factors j r n hj hn hcol, mul_zero]

theorem normFold_get {o : NumOps α} (ho : o.Lawful) (K : Ktensor α) (j : List Nat) (hj : j.length = K.factors.length)
    (k : Nat) (hk : k ≤ K.factors.length) :
    ((List.range k).foldl (normalizeMode o) K).get j = K.get j := by
  induction k with
  | zero => simp
  | succ k ih =>
    have hlen := (normFold_spec ho K k (by omega)).1
    rw [List.range_succ, List.foldl_append, List.foldl_cons, List.foldl_nil,
      normalizeMode_get ho _ k (by rw [hlen]; omega) j (by rw [hlen]; exact hj)]
    exact ih (by omega)

/-- the sign step of `normalize()`: negative weights are made positive, the column of factor 0 flips -/
theorem signFlip_get {o : NumOps α} (K1 : Ktensor α) (h0 : 0 < K1.factors.length)
    (j : List Nat) (hj : j.length = K1.factors.length) :
    Ktensor.get ⟨K1.weights.map fun w => if o.lt w 0 then - w else w,
      K1.factors.set 0 (tab (K1.factors.getD 0 []).length K1.weights.length fun i r =>
        if o.lt (K1.weights.getD r 0) 0 then - (K1.factors.getD 0 []).get i r
        else (K1.factors.getD 0 []).get i r)⟩ j = K1.get j := by
  apply ktensor_get_congr
  · simp
  · intro r hr
    have hwr : (K1.weights.map fun w => if o.lt w 0 = true then -w else w).getD r 0 =
        if o.lt (K1.weights.getD r 0) 0 = true then - K1.weights.getD r 0 else K1.weights.getD r 0 := by
      simp [List.getD_eq_getElem?_getD, hr]
    rw [hwr]
    by_cases hneg : o.lt (K1.weights.getD r 0) 0 = true
    · rw [compOf_set_col K1.factors 0 h0 _ j hj r (-1) (fun i => by
        rw [get_tab_ite]
        by_cases hi : i < (K1.factors.getD 0 []).length
        · rw [if_pos ⟨hi, hr⟩, if_pos hneg, mul_neg_one]
        · rw [if_neg (fun h => hi h.1), get_row_ge _ (Nat.le_of_not_lt hi), zero_mul]), if_pos hneg]
      ring
    · rw [compOf_set_col K1.factors 0 h0 _ j hj r 1 (fun i => by
        rw [get_tab_ite]
        by_cases hi : i < (K1.factors.getD 0 []).length
        · rw [if_pos ⟨hi, hr⟩, if_neg hneg, mul_one]
        · rw [if_neg (fun h => hi h.1), get_row_ge _ (Nat.le_of_not_lt hi), zero_mul]), if_neg hneg]
      ring

/-- `normalize()` leaves the array unchanged (at least one mode). -/
theorem normalize_get {o : NumOps α} (ho : o.Lawful) (K : Ktensor α) (h0 : 0 < K.factors.length)
    (j : List Nat) (hj : j.length = K.factors.length) :
    (normalize o K).get j = K.get j := by
  have h1 := (normFold_spec ho K K.factors.length le_rfl).1
  have hfold := normFold_get ho K j hj K.factors.length le_rfl
  rw [← hfold]
  exact signFlip_get (o := o) _ (by rw [h1]; exact h0) j (by rw [h1]; exact hj)

/-! ### sorting the components -/

theorem argsortDesc_perm (o : NumOps α) (w : List α) : (argsortDesc o w).Perm (List.range w.length) := by
  rw [argsortDesc_eq]
  have h1 : ((sortedPairsW o w).reverse.map (·.1)).Perm (((List.range w.length).zip w).map (·.1)) :=
    ((List.reverse_perm _).trans (sortedPairsW_perm o w)).map _
  have h2 : ((List.range w.length).zip w).map (·.1) = List.range w.length :=
    List.map_fst_zip (by simp)
  rw [h2] at h1
  exact h1

theorem map_getD_range {β : Type} (p : List Nat) (g : Nat → β) :
    (List.range p.length).map (fun r => g (p.getD r 0)) = p.map g := by
  apply List.ext_getElem
  · simp
  · intro i h1 h2
    simp only [List.length_map, List.length_range] at h1
    simp [List.getD_eq_getElem?_getD, h1]

theorem prodN_one (N : Nat) : prodN N (fun _ => (1 : α)) = 1 := by
  unfold prodN
  exact List.prod_eq_one (by intro x hx; simp only [List.mem_map] at hx; obtain ⟨_, _, rfl⟩ := hx; rfl)

/-- Selecting the components in the order `p`, a permutation of `0..R-1`, leaves the array unchanged. -/
theorem permuteComponents_get (K : Ktensor α) (p : List Nat) (hp : p.Perm (List.range K.weights.length))
    (j : List Nat) (hj : j.length = K.factors.length) :
    (permuteComponents K p).get j = K.get j := by
  have hterm : ∀ r < p.length,
      (p.map fun r => K.weights.getD r 0).getD r 0 *
        compOf (K.factors.map fun A => tab A.length p.length fun i r => A.get i (p.getD r 0)) r j =
      K.weights.getD (p.getD r 0) 0 * compOf K.factors (p.getD r 0) j := by
    intro r hr
    have e1 : (p.map fun r => K.weights.getD r 0).getD r 0 = K.weights.getD (p.getD r 0) 0 := by
      simp [List.getD_eq_getElem?_getD, hr]
    rw [e1, compOf_scale K.factors _ j (p.getD r 0) r (fun _ => 1) (by simp) hj (fun m hm i => by
      have : (K.factors.map fun A => tab A.length p.length fun i r => A.get i (p.getD r 0)).getD m [] =
          tab (K.factors.getD m []).length p.length fun i r => (K.factors.getD m []).get i (p.getD r 0) := by
        simp [List.getD_eq_getElem?_getD, hm]
      rw [this, get_tab_ite, mul_one]
      by_cases hi : i < (K.factors.getD m []).length
      · rw [if_pos ⟨hi, hr⟩]
      · rw [if_neg (fun h => hi h.1), get_row_ge _ (Nat.le_of_not_lt hi)]), prodN_one, mul_one]
  have h1 : (permuteComponents K p).get j =
      ((List.range p.length).map fun r => K.weights.getD (p.getD r 0) 0 * compOf K.factors (p.getD r 0) j).sum := by
    unfold Ktensor.get Ktensor.ncomp permuteComponents
    simp only [List.length_map]
    congr 1
    refine List.map_congr_left fun r hr => ?_
    exact hterm r (List.mem_range.1 hr)
  rw [h1, map_getD_range p (fun r' => K.weights.getD r' 0 * compOf K.factors r' j)]
  exact (hp.map _).sum_eq

/-- `arrange()` leaves the array unchanged, whatever the order the sort chooses among equal weights. -/
theorem arrange_get {o : NumOps α} (ho : o.Lawful) (K : Ktensor α) (h0 : 0 < K.factors.length)
    (j : List Nat) (hj : j.length = K.factors.length) :
    (arrange o K).get j = K.get j := by
  have hn := normalize_spec ho K
  unfold arrange
  simp only
  rw [permuteComponents_get _ _ (argsortDesc_perm o _) j (by rw [hn.1]; exact hj)]
  exact normalize_get ho K h0 j hj

/-! ### fixing the signs -/

theorem sign_prod (l F : List Nat) (hl : l.Nodup) (hF : F.Sublist l) :
    (l.map fun m => if F.contains m then (-1 : α) else 1).prod = (-1) ^ F.length := by
  induction hF with
  | slnil => simp
  | cons a h ih =>
    rename_i F' l'
    have hnd := List.nodup_cons.1 hl
    have ha : a ∉ F' := fun hm => hnd.1 (h.subset hm)
    rw [List.map_cons, List.prod_cons, ih hnd.2]
    simp [ha]
  | cons_cons a h ih =>
    rename_i F' l'
    have hnd := List.nodup_cons.1 hl
    rw [List.map_cons, List.prod_cons]
    have hrest : (l'.map fun m => if (a :: F').contains m then (-1 : α) else 1) =
        l'.map fun m => if F'.contains m then (-1 : α) else 1 := by
      refine List.map_congr_left fun m hm => ?_
      have hma : m ≠ a := fun e => hnd.1 (e ▸ hm)
      simp [hma]
    rw [hrest, ih hnd.2]
    simp [pow_succ]

theorem flippedModes_spec (o : NumOps α) (K : Ktensor α) (r : Nat) :
    (flippedModes o K r).Sublist (List.range K.factors.length) ∧ Even (flippedModes o K r).length := by
  unfold flippedModes
  simp only
  refine ⟨(List.take_sublist _ _).trans List.filter_sublist, ?_⟩
  rw [List.length_take, Nat.min_eq_left (by omega)]
  exact ⟨_, (Nat.two_mul _)⟩

/-- `fixsigns()` leaves the array unchanged (an even number of sign flips per component). -/
theorem fixsigns_get (o : NumOps α) (K : Ktensor α) (j : List Nat) (hj : j.length = K.factors.length) :
    (fixsigns o K).get j = K.get j := by
  unfold fixsigns
  apply ktensor_get_congr
  · rfl
  · intro r hr
    obtain ⟨hsub, heven⟩ := flippedModes_spec o K r
    rw [compOf_scale K.factors _ j r r (fun m => if (flippedModes o K r).contains m then -1 else 1) (by simp) hj
      (fun m hm i => by
        have : ((List.range K.factors.length).map fun n =>
            tab (K.factors.getD n []).length K.weights.length fun i r =>
              if (flippedModes o K r).contains n then - (K.factors.getD n []).get i r
              else (K.factors.getD n []).get i r).getD m [] =
            tab (K.factors.getD m []).length K.weights.length fun i r =>
              if (flippedModes o K r).contains m then - (K.factors.getD m []).get i r
              else (K.factors.getD m []).get i r := by
          simp [List.getD_eq_getElem?_getD, hm]
        rw [this, get_tab_ite]
        by_cases hi : i < (K.factors.getD m []).length
        · rw [if_pos ⟨hi, hr⟩]
          split <;> ring
        · rw [if_neg (fun h => hi h.1), get_row_ge _ (Nat.le_of_not_lt hi), zero_mul])]
    unfold prodN
    rw [sign_prod _ _ List.nodup_range hsub, heven.neg_one_pow, mul_one]

/-- The whole clean-up leaves the array unchanged. -/
theorem cleanup_get {o : NumOps α} (ho : o.Lawful) (fix : Bool) (K : Ktensor α) (h0 : 0 < K.factors.length)
    (j : List Nat) (hj : j.length = K.factors.length) :
    (cleanup o fix K).get j = K.get j := by
  unfold cleanup
  cases fix with
  | false => exact arrange_get ho K h0 j hj
  | true =>
    simp only [if_true]
    rw [fixsigns_get o _ j (by rw [(arrange_spec ho K).1]; exact hj)]
    exact arrange_get ho K h0 j hj

end cleanup

/-! ## 10. the whole run -/

section wholerun
variable {α : Type} [Field α] [LinearOrder α] [IsStrictOrderedRing α]

/-- Every coefficient matrix met by the FIRST run (data `X`) is zero or non-singular. -/
def RegularRun (D : Data α) (S : Services α) (o : NumOps α) (P : Params α) (init : Init α) : Prop :=
  ∀ di od dims K, setup D P init = .ok (di, od, dims, K) →
    RegularLoop D S o P.rank P.stoptol dims P.maxiters 0 (initState D P.rank dims K)

/-- The set-up looks at the data only through its shape (and `nvecs` for that kind of start). -/
theorem setup_scaled {D D' : Data α} (hs : D'.shape = D.shape) (P : Params α) (init : Init α)
    (hnv : init = .nvecs → D'.nvecs = D.nvecs) : setup D' P init = setup D P init := by
  have hri : ∀ dimorder, resolveInit D' P.rank dimorder init = resolveInit D P.rank dimorder init := by
    intro dimorder
    cases init with
    | given K => simp only [resolveInit, hs]
    | random draws => simp only [resolveInit, hs]
    | nvecs => simp only [resolveInit, hs, hnv rfl]
    | unsupported => rfl
  unfold setup
  simp only [hs, hri]

theorem cleanup_shape {o : NumOps α} (ho : o.Lawful) (fix : Bool) {s : List Nat} (K : Ktensor α)
    (hK : ShapeOK s K.weights.length K.factors) :
    ShapeOK s (cleanup o fix K).weights.length (cleanup o fix K).factors := by
  obtain ⟨c1, c2, c3, _, _, _, c7⟩ := cleanup_spec ho fix K
  refine ⟨by rw [c1]; exact hK.1, fun n hn => ⟨by rw [c3]; exact (hK.2 n hn).1, fun row hrow => ?_⟩⟩
  rw [c7 n (by rw [hK.1]; exact hn) row hrow, c2]

theorem finish_report (D : Data α) (o : NumOps α) (P : Params α) (di od : List Nat) (K : Ktensor α) (st : State α) :
    ((finish D o P di od K st).normresidual, (finish D o P di od K st).fit) =
      if P.printing then
        report o D.norm (knorm o (cleanup o P.fixsigns ⟨st.weights, st.U⟩).weights
          (cleanup o P.fixsigns ⟨st.weights, st.U⟩).factors) (D.innerprod (cleanup o P.fixsigns ⟨st.weights, st.U⟩))
      else (st.normresidual, st.fit) := by
  unfold finish cleanup
  cases P.printing <;> rfl

/-- **Whole-run scale equivariance of CP-ALS** (lemma form; see `C18_scale_cpals_run`). -/
theorem run_scaled {D D' : Data α} {S : Services α} {o : NumOps α} {X : List Nat → α} {c : α}
    (ho : o.Lawful) (hS : SolveContract S) (hc : 0 < c) (hD : DataLaws D X)
    (hD' : DataLaws D' (fun j => c * X j)) (hs : D'.shape = D.shape)
    (hnorm : D'.norm = c * D.norm) (hnz : D.norm ≠ 0) {P : Params α} {init : Init α}
    (hnv : init = .nvecs → D'.nvecs = D.nvecs) (hi : InitOK D P.rank init)
    (hreg : RegularRun D S o P init) {out out' : Output α}
    (h : run D S o P init = .ok out) (h' : run D' S o P init = .ok out') :
    out'.iters = out.iters ∧ out'.fit = out.fit ∧ out'.normresidual = c * out.normresidual ∧
    (∀ j, j.length = D.shape.length → out'.M.get j = c * out.M.get j) ∧
    out'.init = out.init ∧ out'.dimorder = out.dimorder ∧ out'.optdims = out.optdims ∧
    ∃ st st' : State α, Sim c D.shape P.rank st st' ∧
      out.M = cleanup o P.fixsigns ⟨st.weights, st.U⟩ ∧ out'.M = cleanup o P.fixsigns ⟨st'.weights, st'.U⟩ := by
  obtain ⟨di, od, dims, K, st, hsu, hm, hl, rfl⟩ := run_ok h
  obtain ⟨di', od', dims', K', st', hsu', _, hl', rfl⟩ := run_ok h'
  rw [setup_scaled hs P init hnv, hsu] at hsu'
  simp only [Except.ok.injEq, Prod.mk.injEq] at hsu'
  obtain ⟨rfl, rfl, rfl, rfl⟩ := hsu'
  obtain ⟨hK, _, hne, _, hperm, hdimsEq, _⟩ := setup_spec hsu hi
  have hdims : ∀ n ∈ dims, n < D.shape.length := by
    intro n hn
    rw [hdimsEq] at hn
    exact isPermOf_lt hperm _ (List.mem_filter.1 hn).1
  obtain ⟨hsim, hwl⟩ := loop_sim ho hS hc hD hD' hs hnorm hnz hne hdims P.maxiters 0
    (sim_init hs dims hK) (hreg di od dims K hsu) hl hl'
  have hw : st.weights.length = P.rank := hwl (Nat.pos_of_ne_zero hm)
  have hw' : st'.weights.length = P.rank := by rw [hsim.wlen]; exact hw
  have hN : 0 < D.shape.length := by
    have := hdims _ (getLastD_mem hne); omega
  have hten : ∀ j, j.length = D.shape.length →
      (cleanup o P.fixsigns ⟨st'.weights, st'.U⟩).get j = c * (cleanup o P.fixsigns ⟨st.weights, st.U⟩).get j := by
    intro j hj
    rw [cleanup_get ho _ _ (by show 0 < st'.U.length; rw [hsim.shape'.1]; exact hN) j
        (by show j.length = st'.U.length; rw [hsim.shape'.1]; exact hj),
      cleanup_get ho _ _ (by show 0 < st.U.length; rw [hsim.shape.1]; exact hN) j
        (by show j.length = st.U.length; rw [hsim.shape.1]; exact hj)]
    exact hsim.tensor hw j hj
  have hrep : ((finish D' o P di od K st').normresidual, (finish D' o P di od K st').fit) =
      (c * (finish D o P di od K st).normresidual, (finish D o P di od K st).fit) := by
    have e := finish_report D o P di od K st
    have e' := finish_report D' o P di od K st'
    cases hp : P.printing with
    | false =>
      rw [hp] at e e'
      simp only [Bool.false_eq_true, if_false, Prod.mk.injEq] at e e'
      rw [e.1, e.2, e'.1, e'.2, hsim.normresidual, hsim.fit]
    | true =>
      rw [hp] at e e'
      simp only [if_true] at e e'
      set M := cleanup o P.fixsigns ⟨st.weights, st.U⟩ with hM
      set M' := cleanup o P.fixsigns ⟨st'.weights, st'.U⟩ with hM'
      have hMs : ShapeOK D.shape M.weights.length M.factors :=
        cleanup_shape ho _ _ (by show ShapeOK D.shape st.weights.length st.U; rw [hw]; exact hsim.shape)
      have hMs' : ShapeOK D.shape M'.weights.length M'.factors :=
        cleanup_shape ho _ _ (by show ShapeOK D.shape st'.weights.length st'.U; rw [hw']; exact hsim.shape')
      have hkn := knorm_scaled ho hc D.shape M.weights M'.weights M.factors M'.factors hMs hMs' hten
      have hip : D'.innerprod M' = c * c * D.innerprod M := by
        rw [hD'.innerprod_eq M' (by rw [hs]; exact hMs'), hD.innerprod_eq M hMs, hs]
        exact ip_scale_data_model D.shape X _ _ c hten
      have hr := report_scale ho hc D.norm (knorm o M.weights M.factors) (D.innerprod M) hnz
      rw [← hnorm, ← hkn, ← hip] at hr
      have e1 := congrArg Prod.fst e
      have e2 := congrArg Prod.snd e
      have e1' := congrArg Prod.fst e'
      have e2' := congrArg Prod.snd e'
      simp only at e1 e2 e1' e2'
      rw [e1, e2, e1', e2', hr.1, hr.2]
  simp only [Prod.mk.injEq] at hrep
  refine ⟨hsim.iteration, hrep.2, hrep.1, hten, rfl, rfl, rfl, st, st', hsim, rfl, rfl⟩

end wholerun

/-! ## 11. rank one: regularity is automatic; a total solver; a concrete instance -/

section rankone
variable {α : Type} [Field α] [LinearOrder α] [IsStrictOrderedRing α]

theorem coef_one_ne_zero {o : NumOps α} (ho : o.Lawful) (UtU : List (Mat α)) (N n : Nat)
    (hz : ¬ allZero o (coef UtU N 1 n) = true) : (coef UtU N 1 n).get 0 0 ≠ 0 := by
  intro e
  apply hz
  rw [allZero_coef_iff ho]
  intro a ha b hb
  have ha0 : a = 0 := by omega
  have hb0 : b = 0 := by omega
  subst ha0; subst hb0
  exact e

/-- For rank one the coefficient matrix is `1 × 1`: zero or non-singular. -/
theorem regularY_one {o : NumOps α} (ho : o.Lawful) (UtU : List (Mat α)) (N n : Nat) :
    RegularY o (coef UtU N 1 n) 1 := by
  intro hz
  exact leftInj_one_by_one (coef_one_ne_zero ho UtU N n (by simp [hz])) _ rfl

theorem regularSweep_one {o : NumOps α} (ho : o.Lawful) (D : Data α) (S : Services α) (it last : Nat)
    (dims : List Nat) (st : State α) : RegularSweep D S o 1 it last dims st := by
  induction dims generalizing st with
  | nil => trivial
  | cons n rest ih => exact ⟨regularY_one ho _ _ _, fun st1 _ => ih st1⟩

theorem regularLoop_one {o : NumOps α} (ho : o.Lawful) (D : Data α) (S : Services α) (stoptol : α)
    (dims : List Nat) (fuel k : Nat) (st : State α) : RegularLoop D S o 1 stoptol dims fuel k st := by
  induction fuel generalizing k st with
  | zero => trivial
  | succ fuel ih => exact ⟨regularSweep_one ho D S k _ dims st, fun st1 _ _ => ih (k + 1) st1⟩

/-- For rank one the regularity hypothesis of `run_scaled` holds for every data object. -/
theorem regularRun_one {o : NumOps α} (ho : o.Lawful) (D : Data α) (S : Services α) (P : Params α)
    (init : Init α) (hr : P.rank = 1) : RegularRun D S o P init := by
  intro di od dims K _
  rw [hr]
  exact regularLoop_one ho D S _ dims _ _ _

/-- A solver for `1 × 1` systems: `B / y`; it refuses everything else. -/
def solve1 : Services α :=
  { solve := fun _ Y B =>
      if Y.length = 1 ∧ Y.get 0 0 ≠ 0 then .ok (B.map fun row => row.map (· / Y.get 0 0)) else .error .reject }

theorem get_map_div (B : Mat α) (y : α) (i r : Nat) :
    Mat.get (B.map fun row => row.map (· / y)) i r = B.get i r / y := by
  unfold Mat.get
  simp only [List.getD_eq_getElem?_getD, List.getElem?_map]
  cases B[i]? with
  | none => simp
  | some row =>
    simp only [Option.map_some, Option.getD_some, List.getElem?_map]
    cases row[r]? <;> simp

theorem solve1_contract : SolveContract (solve1 : Services α) := by
  intro n Y B A h R i r hR hr
  unfold solve1 at h
  simp only at h
  split at h
  · rename_i hc
    simp only [Except.ok.injEq] at h
    subst h
    have hR1 : R = 1 := by rw [← hR]; exact hc.1
    subst hR1
    have hr0 : r = 0 := by omega
    subst hr0
    simp only [sumRange_eq, Finset.sum_range_one]
    rw [get_map_div, div_mul_cancel₀ _ hc.2]
  · cases h

theorem solveStep_ok1 {o : NumOps α} (ho : o.Lawful) (I n : Nat) (UtU : List (Mat α)) (N : Nat) (B : Mat α) :
    ∃ A0, solveStep (solve1 : Services α) o I 1 n (coef UtU N 1 n) B = .ok A0 := by
  unfold solveStep
  by_cases hz : allZero o (coef UtU N 1 n) = true
  · rw [if_pos hz]; exact ⟨_, rfl⟩
  · rw [if_neg hz]
    unfold solve1
    simp only
    rw [if_pos ⟨length_coef _ _ _ _, coef_one_ne_zero ho UtU N n hz⟩]
    exact ⟨_, rfl⟩

theorem modeUpdate_ok1 {o : NumOps α} (ho : o.Lawful) (D : Data α) (it last n : Nat) (st : State α) :
    ∃ st1, modeUpdate D (solve1 : Services α) o 1 it last n st = .ok st1 := by
  unfold modeUpdate
  obtain ⟨A0, hA0⟩ := solveStep_ok1 ho (D.shape.getD n 0) n st.UtU D.shape.length (D.mttkrp st.U n)
  dsimp only
  rw [hA0]
  exact ⟨_, rfl⟩

theorem foldlM_ok1 {o : NumOps α} (ho : o.Lawful) (D : Data α) (it last : Nat) (dims : List Nat) (st : State α) :
    ∃ st1, dims.foldlM (fun s n => modeUpdate D (solve1 : Services α) o 1 it last n s) st = .ok st1 := by
  induction dims generalizing st with
  | nil => exact ⟨st, rfl⟩
  | cons n rest ih =>
    obtain ⟨s1, hs1⟩ := modeUpdate_ok1 ho D it last n st
    obtain ⟨s2, hs2⟩ := ih s1
    refine ⟨s2, ?_⟩
    rw [List.foldlM_cons, hs1]
    exact hs2

theorem iterStep_ok1 {o : NumOps α} (ho : o.Lawful) (D : Data α) (stoptol : α) (dims : List Nat) (it : Nat)
    (st : State α) : ∃ st2, iterStep D (solve1 : Services α) o 1 stoptol dims it st = .ok st2 := by
  unfold iterStep
  obtain ⟨s1, hs1⟩ := foldlM_ok1 ho D it (dims.getLastD 0) dims st
  dsimp only
  rw [hs1]
  exact ⟨_, rfl⟩

theorem loopFrom_ok1 (step : Nat → State α → Except Reject (State α))
    (hstep : ∀ k st, ∃ st1, step k st = .ok st1) (fuel k : Nat) (st : State α) :
    ∃ stF, loopFrom step fuel k st = .ok stF := by
  induction fuel generalizing k st with
  | zero => exact ⟨st, rfl⟩
  | succ fuel ih =>
    obtain ⟨s1, hs1⟩ := hstep k st
    unfold loopFrom
    rw [hs1]
    simp only [bind, Except.bind]
    by_cases hstop : s1.stop = true
    · rw [if_pos hstop]; exact ⟨_, rfl⟩
    · rw [if_neg hstop]; exact ih (k + 1) s1

/-- With the `1 × 1` solver a rank-one run that passes the set-up never fails. -/
theorem run_ok1 {o : NumOps α} (ho : o.Lawful) (D : Data α) (P : Params α) (init : Init α)
    {di od dims : List Nat} {K : Ktensor α} (hsu : setup D P init = .ok (di, od, dims, K))
    (hm : P.maxiters ≠ 0) (hr : P.rank = 1) : ∃ out, run D (solve1 : Services α) o P init = .ok out := by
  obtain ⟨stF, hF⟩ := loopFrom_ok1 (iterStep D (solve1 : Services α) o P.rank P.stoptol dims)
    (fun k st => by rw [hr]; exact iterStep_ok1 ho D _ dims k st) P.maxiters 0 (initState D P.rank dims K)
  refine ⟨finish D o P di od K stF, ?_⟩
  unfold run
  rw [hsu]
  have : (P.maxiters == 0) = false := by simpa using hm
  simp only [bind, Except.bind, this, Bool.false_eq_true, if_false, hF, pure, Except.pure]

end rankone

/-! ## 12. a concrete instance -/

section concrete
variable {α : Type} [Field α] [LinearOrder α] [IsStrictOrderedRing α]

/-- the `1 × 1` array with the single entry `x`, as a data object -/
def data11 (x : α) : Data α :=
  { shape := [1, 1], norm := x,
    mttkrp := fun U n => match n with
      | 0 => [((U.getD 1 []).getD 0 []).map (x * ·)]
      | 1 => [((U.getD 0 []).getD 0 []).map (x * ·)]
      | _ => [],
    innerprod := fun K => x * K.get [0, 0], nvecs := none }

theorem getD_map_mul (l : List α) (x : α) (r : Nat) : (l.map (x * ·)).getD r 0 = x * l.getD r 0 := by
  simp only [List.getD_eq_getElem?_getD, List.getElem?_map]
  cases l[r]? <;> simp

theorem data11_laws (x : α) : DataLaws (data11 x) (fun _ => x) := by
  have hall : allSubs [1, 1] = [[0, 0]] := by decide
  have hip : ∀ f : List Nat → α, ip [1, 1] (fun _ => x) f = x * f [0, 0] := by
    intro f; simp [ip, hall]
  refine ⟨fun K _ => ?_, fun w U n hn hU => ?_, fun U n A => ?_⟩
  · change x * K.get [0, 0] = ip [1, 1] _ _
    rw [hip]
  · change ip [1, 1] _ _ = _
    rw [hip, ktensor_get_eq]
    obtain ⟨hl, _⟩ := hU
    change U.length = 2 at hl
    match U, hl with
    | [U0, U1], _ =>
      change n < 2 at hn
      simp only [sumRange_eq]
      rw [Finset.mul_sum]
      refine Finset.sum_congr rfl fun r _ => ?_
      rcases n with _ | _ | n
      · change _ = ∑ i ∈ Finset.range 1, _
        rw [Finset.sum_range_one]
        simp only [data11, compOf, Mat.get, List.zipWith_cons_cons, List.zipWith_nil_right, List.prod_cons,
          List.prod_nil, List.getD_cons_zero, List.getD_cons_succ, getD_map_mul]
        ring
      · change _ = ∑ i ∈ Finset.range 1, _
        rw [Finset.sum_range_one]
        simp only [data11, compOf, Mat.get, List.zipWith_cons_cons, List.zipWith_nil_right, List.prod_cons,
          List.prod_nil, List.getD_cons_zero, List.getD_cons_succ, getD_map_mul]
        ring
      · omega
  · rcases n with _ | _ | n
    · simp only [data11]
      rw [getD_set_ne _ _ _ (by decide)]
    · simp only [data11]
      rw [getD_set_ne _ _ _ (by decide)]
    · rfl

/-- options: rank one, two passes (`stoptol = 0` never stops early), report recomputed, signs fixed -/
def params11 : Params α :=
  { rank := 1, stoptol := 0, maxiters := 2, dimorder := none, optdims := none, printing := true, fixsigns := true }

/-- start: all ones -/
def start11 : Ktensor α := ⟨[1], [[[1]], [[1]]]⟩

theorem setup11 (x : α) :
    setup (data11 x) params11 (.given start11) = .ok ([0, 1], [0, 1], [0, 1], start11) := by
  rfl

/-- ℝ-free non-vacuity: over every ordered field with a lawful `NumOps`, the `1 × 1` array `[[x]]`,
`x ≠ 0`, and its multiple `c · x` satisfy all hypotheses of `run_scaled`, and both runs succeed. -/
theorem instance11 {o : NumOps α} (ho : o.Lawful) (x c : α) (hx : x ≠ 0) :
    ∃ out out' : Output α,
      SolveContract (solve1 : Services α) ∧ DataLaws (data11 x) (fun _ => x) ∧
      DataLaws (data11 (c * x)) (fun j => c * (fun _ => x) j) ∧ (data11 (c * x)).shape = (data11 x).shape ∧
      (data11 (c * x)).norm = c * (data11 x).norm ∧ (data11 x).norm ≠ 0 ∧
      ((Init.given start11 : Init α) = .nvecs → (data11 (c * x)).nvecs = (data11 x).nvecs) ∧
      InitOK (data11 x) (params11 : Params α).rank (.given start11) ∧
      RegularRun (data11 x) solve1 o params11 (.given start11) ∧
      run (data11 x) solve1 o params11 (.given start11) = .ok out ∧
      run (data11 (c * x)) solve1 o params11 (.given start11) = .ok out' := by
  obtain ⟨out, hout⟩ := run_ok1 ho (data11 x) params11 (.given start11) (setup11 x) (Nat.succ_ne_zero 1) rfl
  obtain ⟨out', hout'⟩ := run_ok1 ho (data11 (c * x)) params11 (.given start11) (setup11 (c * x)) (Nat.succ_ne_zero 1) rfl
  exact ⟨out, out', solve1_contract, data11_laws x, data11_laws (c * x), rfl, rfl, hx, (fun h => by cases h), trivial,
    regularRun_one ho _ _ _ _ rfl, hout, hout'⟩
end concrete

/-! ### ℝ with `Real.sqrt` is a lawful number system -/

/-- ℝ with `Real.sqrt` as the number system of the model. -/
noncomputable def realNumOps : NumOps ℝ :=
  { sqrt := Real.sqrt, abs := fun x => |x|, lt := fun a b => decide (a < b),
    isZero := fun a => decide (a = 0), ofNat := fun n => (n : ℝ) }

theorem realNumOps_lawful : realNumOps.Lawful :=
  { sqrt_nonneg := fun x _ => Real.sqrt_nonneg x,
    sqrt_mul_self := fun _ hx => Real.mul_self_sqrt hx,
    abs_eq := fun _ => rfl,
    lt_iff := fun a b => by simp [realNumOps],
    isZero_iff := fun a => by simp [realNumOps],
    ofNat_eq := fun _ => rfl }

end Pyttb.CpAls
