/-
C18, whole-run scale equivariance of CP-ALS (the model of C09: `Alg/CpAls.lean`).

Two runs are compared: data `D` denoting the array `X` and data `D'` denoting `c • X`, `c > 0`,
same start, same services.  The factor matrices of the two runs are NOT equal and not equal up to
the factor `c` either (the column scale is the 2-norm in pass 0 and `max(max|·|, 1)` afterwards);
they are equal up to positive per-column scalings `d m r` (mode `m`, component `r`) such that
`weights'[r] · ∏ₘ d m r = c · weights[r]` — the simulation relation `Sim`.  It is preserved by every
mode update, hence by every pass and by the loop; it forces the model TENSOR of the second run to
be `c` times the first one, the fits to be equal and the stop decisions to coincide.
-/
import PyttbModel.Lemmas.CpAlsRun
import PyttbModel.Lemmas.CpAlsKnorm
import Mathlib.Algebra.Order.Ring.Abs
import Mathlib.Algebra.BigOperators.Group.List.Lemmas

set_option linter.unusedSectionVars false
set_option linter.unusedSimpArgs false
set_option linter.unnecessarySeqFocus false
set_option linter.unusedVariables false
namespace Pyttb.CpAls
open Pyttb

/-! ## 1. small helpers -/

section helpers
variable {α : Type}

theorem get_tab_row_ge [Zero α] (I R : Nat) (f : Nat → Nat → α) {i r : Nat} (hi : I ≤ i) :
    (tab I R f).get i r = 0 := by
  unfold Mat.get
  simp [tab, List.getD_eq_getElem?_getD, List.getElem?_eq_none, hi]

theorem get_tab_ite [Zero α] (I R : Nat) (f : Nat → Nat → α) (i r : Nat) :
    (tab I R f).get i r = if i < I ∧ r < R then f i r else 0 := by
  by_cases hi : i < I
  · by_cases hr : r < R
    · rw [get_tab _ _ _ hi hr, if_pos ⟨hi, hr⟩]
    · rw [get_tab_ge _ _ _ (Nat.le_of_not_lt hr), if_neg (fun h => hr h.2)]
  · rw [get_tab_row_ge _ _ _ (Nat.le_of_not_lt hi), if_neg (fun h => hi h.1)]

theorem get_nil [Zero α] (i r : Nat) : Mat.get ([] : Mat α) i r = 0 := by
  simp [Mat.get]

theorem prodOver_eq [CommMonoid α] (l : List Nat) (f : Nat → α) : prodOver l f = (l.map f).prod := by
  unfold prodOver; rw [List.prod_eq_foldr]

theorem prod_map_ite_ne [CommMonoid α] (l : List Nat) (n : Nat) (f : Nat → α) :
    (l.map fun m => if m = n then 1 else f m).prod = ((l.filter (· != n)).map f).prod := by
  induction l with
  | nil => simp
  | cons a l ih =>
    by_cases h : a = n
    · simp [List.filter_cons, h, ih]
    · simp [List.filter_cons, h, ih]

theorem prod_map_mul' [CommMonoid α] (l : List Nat) (f g : Nat → α) :
    (l.map fun m => f m * g m).prod = (l.map f).prod * (l.map g).prod := by
  induction l with
  | nil => simp
  | cons a l ih => simp only [List.map_cons, List.prod_cons, ih]; exact mul_mul_mul_comm _ _ _ _

theorem prod_filter_split [CommMonoid α] (N n : Nat) (hn : n < N) (f : Nat → α) :
    ((List.range N).map f).prod = f n * (((List.range N).filter (· != n)).map f).prod := by
  induction N with
  | zero => omega
  | succ N ih =>
    rw [List.range_succ, List.map_append, List.prod_append, List.filter_append, List.map_append,
      List.prod_append]
    by_cases h : n = N
    · subst h
      have : (List.range n).filter (· != n) = List.range n := by
        rw [List.filter_eq_self]
        intro a ha
        have := List.mem_range.1 ha
        simp; omega
      simp [this, mul_comm]
    · have hlt : n < N := by omega
      have hN : (N != n) = true := by simp; omega
      rw [ih hlt]
      simp [List.filter_cons, hN, mul_assoc]

end helpers

/-! ## 2. factors equal up to column scalings; the component products -/

section colscaled
variable {α : Type} [Field α]

/-- `∏_{m<N} e m` as a list product -/
def prodN (N : Nat) (e : Nat → α) : α := ((List.range N).map e).prod

/-- Scaling law for the component product `∏ₘ Uₘ[jₘ, r]`: if, for every mode `m`, column `r'` of
`U'ₘ` is `e m` times column `r` of `Uₘ`, the product for `U'` is `∏ₘ e m` times the one for `U`. -/
theorem compOf_scale (U U' : List (Mat α)) (j : List Nat) (r r' : Nat) (e : Nat → α)
    (hl : U'.length = U.length) (hj : j.length = U.length)
    (h : ∀ m < U.length, ∀ i, (U'.getD m []).get i r' = (U.getD m []).get i r * e m) :
    compOf U' r' j = compOf U r j * prodN U.length e := by
  induction U generalizing U' j e with
  | nil =>
    cases U' with
    | nil => simp [compOf, prodN]
    | cons _ _ => simp at hl
  | cons A U ih =>
    cases U' with
    | nil => simp at hl
    | cons A' U' =>
      cases j with
      | nil => simp at hj
      | cons i j =>
        simp only [List.length_cons, Nat.add_right_cancel_iff] at hl hj
        have h0 := h 0 (by simp) i
        simp only [List.getD_cons_zero] at h0
        have ih' := ih U' j (fun m => e (m + 1)) hl hj (fun m hm i => by
          have := h (m + 1) (by simp; omega) i
          simpa using this)
        unfold compOf at ih' ⊢
        simp only [List.zipWith_cons_cons, List.prod_cons, List.length_cons]
        rw [ih', h0]
        unfold prodN
        rw [List.range_succ_eq_map, List.map_cons, List.prod_cons, List.map_map]
        simp only [Function.comp_def, Nat.succ_eq_add_one]
        ring

/-- a column of one factor that vanishes kills the component -/
theorem compOf_zero (U : List (Mat α)) (j : List Nat) (r n : Nat) (hj : j.length = U.length)
    (hn : n < U.length) (hz : ∀ i, (U.getD n []).get i r = 0) : compOf U r j = 0 := by
  have := compOf_scale U U j r r (fun m => if m = n then 0 else 1) rfl hj (fun m hm i => by
    by_cases h : m = n
    · subst h; rw [hz, if_pos rfl, mul_zero]
    · rw [if_neg h, mul_one])
  rw [this]
  have : prodN U.length (fun m => if m = n then (0 : α) else 1) = 0 := by
    unfold prodN
    apply List.prod_eq_zero
    simp only [List.mem_map, List.mem_range]
    exact ⟨n, hn, by simp⟩
  rw [this, mul_zero]

/-- The factor lists `U`, `U'` agree up to the column scalings `d m r`. -/
def ColScaled (d : Nat → Nat → α) (U U' : List (Mat α)) : Prop :=
  ∀ m i r, (U'.getD m []).get i r = (U.getD m []).get i r * d m r

/-- the product of all scalings of component `r` -/
def dAll (d : Nat → Nat → α) (N r : Nat) : α := prodN N fun m => d m r

/-- the product of the scalings of component `r` over the modes other than `n` -/
def dOther (d : Nat → Nat → α) (N n r : Nat) : α :=
  (((List.range N).filter (· != n)).map fun m => d m r).prod

theorem dAll_split (d : Nat → Nat → α) {N n : Nat} (hn : n < N) (r : Nat) :
    dAll d N r = d n r * dOther d N n r :=
  prod_filter_split N n hn _

theorem dOther_congr (d d1 : Nat → Nat → α) (N n r : Nat) (h : ∀ m, m ≠ n → d1 m r = d m r) :
    dOther d1 N n r = dOther d N n r := by
  unfold dOther
  congr 1
  refine List.map_congr_left fun m hm => ?_
  simp only [List.mem_filter, bne_iff_ne, ne_eq] at hm
  exact h m hm.2

theorem ColScaled.comp {d : Nat → Nat → α} {U U' : List (Mat α)} (h : ColScaled d U U')
    (hl : U'.length = U.length) (j : List Nat) (hj : j.length = U.length) (r : Nat) :
    compOf U' r j = compOf U r j * dAll d U.length r :=
  compOf_scale U U' j r r (fun m => d m r) hl hj (fun m _ i => h m i r)

/-- replacing mode `n` by the same matrix on both sides: the scaling of mode `n` drops out -/
theorem ColScaled.comp_set {d : Nat → Nat → α} {U U' : List (Mat α)} (h : ColScaled d U U')
    (hl : U'.length = U.length) (n : Nat) (E : Mat α) (j : List Nat) (hj : j.length = U.length) (r : Nat) :
    compOf (U'.set n E) r j = compOf (U.set n E) r j * dOther d U.length n r := by
  have := compOf_scale (U.set n E) (U'.set n E) j r r (fun m => if m = n then 1 else d m r)
    (by simp [hl]) (by simp [hj]) (fun m hm i => by
      simp only [List.length_set] at hm
      by_cases hmn : m = n
      · subst hmn
        rw [getD_set_eq _ _ _ _ hm, getD_set_eq _ _ _ _ (by rw [hl]; exact hm)]
        simp
      · rw [getD_set_ne _ _ _ (Ne.symm hmn), getD_set_ne _ _ _ (Ne.symm hmn), if_neg hmn]
        exact h m i r)
  rw [this, List.length_set]
  unfold prodN dOther
  rw [prod_map_ite_ne]

end colscaled

end Pyttb.CpAls
