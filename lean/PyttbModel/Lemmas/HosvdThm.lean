/-
C10 — `hosvd`: the run-level facts from which the property theorems are read off.
-/
import PyttbModel.Lemmas.HosvdRun
namespace Pyttb
namespace Tk
open Finset

/-- `eigsumthresh` over ℝ is `tol² ‖X‖² / d`, and it is non-negative. -/
theorem thresh_eq (tol nx : ℝ) (d : Nat) :
    Gen.eigsumthresh realOps tol nx (realOps.ofNat d) = tol ^ 2 * nx / d := by
  simp [Gen.eigsumthresh, realOps, npow, pow_two]

theorem thresh_nonneg (tol nx : ℝ) (d : Nat) (h : 0 ≤ nx) : 0 ≤ Gen.eigsumthresh realOps tol nx (realOps.ofNat d) := by
  rw [thresh_eq]
  positivity

/-- Extent of a mode after projecting on the factors of a list of distinct modes. -/
theorem coreShape_getD_notin (l : List (Nat × Mat ℝ)) (s : List Nat) (k : Nat) (hk : k ∉ l.map Prod.fst) :
    (coreShape l s).getD k 0 = s.getD k 0 := by
  induction l generalizing s with
  | nil => rfl
  | cons q l ih =>
    obtain ⟨k', U'⟩ := q
    simp only [List.map_cons, List.mem_cons, not_or] at hk
    simp only [coreShape]
    rw [ih _ hk.2, getD_set_ne (Ne.symm hk.1)]

theorem coreShape_getD_mem (l : List (Nat × Mat ℝ)) (s : List Nat) (k : Nat) (U : Mat ℝ)
    (hn : (l.map Prod.fst).Nodup) (hm : (k, U) ∈ l) (hk : k < s.length) :
    (coreShape l s).getD k 0 = U.ncols := by
  induction l generalizing s with
  | nil => simp at hm
  | cons q l ih =>
    obtain ⟨k', U'⟩ := q
    simp only [List.map_cons, List.nodup_cons] at hn
    simp only [coreShape]
    rcases List.mem_cons.1 hm with he | hl
    · cases he
      rw [coreShape_getD_notin _ _ _ hn.1, getD_set_self hk]
    · exact ih _ hn.2 hl (by simpa using hk)

/-- Everything the property theorems need about a successful run. -/
structure HosvdFacts (X : Dense ℝ) (tol : ℝ) (dimorder : Option (List Nat)) (seq : Bool)
    (ranks : Option (List Nat)) (T : Ttensor ℝ) (tr : List (ModeRec ℝ)) : Prop where
  lenF : T.factors.length = X.shape.length
  order : (tr.map (·.k)) = modeOrder dimorder X.shape.length
  perm : isPermOf (modeOrder dimorder X.shape.length) X.shape.length = true
  recs : ∀ rec ∈ tr, RecOK X (reqRanks ranks X.shape.length)
    (Gen.eigsumthresh realOps tol (normSq X) (realOps.ofNat X.shape.length)) seq rec ∧
    T.factors.getD rec.k [] = rec.factor
  core : T.core = ttmFold X (ascList T.factors X.shape.length) true
  energy : seq = true → normSq X - normSq T.core = (tr.map fun r => tail r.eig r.rank).sum

theorem hosvd_facts {eigh : Nat → Mat ℝ → List ℝ × Mat ℝ} (hE : EighContract eigh) {X : Dense ℝ} (hX : X.WF)
    {tol : ℝ} {dimorder : Option (List Nat)} {seq : Bool} {ranks : Option (List Nat)} {T : Ttensor ℝ}
    {tr : List (ModeRec ℝ)} (h : hosvdRun realOps eigh X tol dimorder seq ranks = .ok (T, tr)) :
    HosvdFacts X tol dimorder seq ranks T tr := by
  obtain ⟨h1, h2, st, hf, htr, hF, hs, hns⟩ := hosvdRun_ok h
  have hI := hosvd_loop hE X hX _ h1 _ seq _ h2 st hf
  subst htr
  refine ⟨by rw [hF]; exact hI.lenF, hI.traceK, h2, ?_, ?_, ?_⟩
  · intro rec hrec
    rw [hF]
    exact hI.recs rec hrec
  · cases seq with
    | true =>
      rw [hs rfl, hF]
      have hy : st.Y = ttmFold X ((modeOrder dimorder X.shape.length).map fun k => (k, st.factors.getD k [])) true := by
        simpa using hI.yval
      rw [hy]
      apply ttmFold_perm
      · exact (isPermOf_perm' h2).map _
      · simp only [List.map_map, Function.comp_def, List.map_id']
        exact isPermOf_nodup' h2
    | false =>
      have hy : st.Y = X := by simpa using hI.yval
      have := ttmAll_ok (hns rfl)
      rw [hy] at this
      rw [this, hF]
  · intro hs'
    subst hs'
    rw [hs rfl]
    exact hI.energy rfl

section facts
variable {X : Dense ℝ} {tol : ℝ} {dimorder : Option (List Nat)} {seq : Bool} {ranks : Option (List Nat)}
  {T : Ttensor ℝ} {tr : List (ModeRec ℝ)}

/-- Every mode has a record. -/
theorem HosvdFacts.rec_of_mode (hF : HosvdFacts X tol dimorder seq ranks T tr) {k : Nat} (hk : k < X.shape.length) :
    ∃ rec ∈ tr, rec.k = k := by
  have : k ∈ tr.map (·.k) := by
    rw [hF.order]
    exact (isPermOf_perm' hF.perm).mem_iff.2 (List.mem_range.2 hk)
  obtain ⟨rec, hrec, hk'⟩ := List.mem_map.1 this
  exact ⟨rec, hrec, hk'⟩

theorem HosvdFacts.factor_ortho (hF : HosvdFacts X tol dimorder seq ranks T tr) {k : Nat} (hk : k < X.shape.length) :
    OrthoCols (T.factors.getD k []) (X.shape.getD k 0) (T.factors.getD k []).ncols := by
  obtain ⟨rec, hrec, rfl⟩ := hF.rec_of_mode hk
  obtain ⟨hok, hfac⟩ := hF.recs rec hrec
  rw [hfac]
  have := hok.ortho
  rw [this.ncols]
  exact this

theorem HosvdFacts.asc_ortho (hF : HosvdFacts X tol dimorder seq ranks T tr) :
    ∀ q ∈ ascList T.factors X.shape.length, q.1 < X.shape.length ∧ OrthoCols q.2 (X.shape.getD q.1 0) q.2.ncols := by
  intro q hq
  simp only [ascList, List.mem_map, List.mem_range] at hq
  obtain ⟨k, hk, rfl⟩ := hq
  exact ⟨hk, hF.factor_ortho hk⟩

theorem HosvdFacts.adm (hF : HosvdFacts X tol dimorder seq ranks T tr) : Adm (ascList T.factors X.shape.length) X.shape :=
  adm_of_ortho _ _ (ascList_fst_nodup _ _) hF.asc_ortho

theorem HosvdFacts.core_shape (hF : HosvdFacts X tol dimorder seq ranks T tr) {k : Nat} (hk : k < X.shape.length) :
    T.core.shape.getD k 0 = (T.factors.getD k []).ncols := by
  rw [hF.core, ttmFold_shape]
  apply coreShape_getD_mem _ _ _ _ (ascList_fst_nodup _ _) _ hk
  simp only [ascList, List.mem_map, List.mem_range]
  exact ⟨k, hk, rfl⟩

/-- The reconstruction `T.full()` and the fit identity. -/
theorem HosvdFacts.full_eq (hF : HosvdFacts X tol dimorder seq ranks T tr) {F : Dense ℝ} (h : tfull T = .ok F) :
    F = recon (ascList T.factors X.shape.length) T.core := by
  have := ttmAll_ok h
  have hl : T.core.shape.length = X.shape.length := by rw [hF.core, ttmFold_shape_length]
  rw [hl] at this
  rw [this, recon_eq_fold]
  apply ttmFold_perm (List.reverse_perm _).symm (ascList_fst_nodup _ _)

theorem HosvdFacts.err_eq (hF : HosvdFacts X tol dimorder seq ranks T tr) (hX : X.WF) {F E : Dense ℝ}
    (h : tfull T = .ok F) (hE : dsub X F = .ok E) : normSq E = normSq X - normSq T.core := by
  have hFe := hF.full_eq h
  rw [hFe, hF.core] at hE
  have := fit_identity _ X hX hF.adm E hE
  rw [this, ← hF.core]

end facts

theorem hosvd_run_of_ok {eigh : Nat → Mat ℝ → List ℝ × Mat ℝ} {X : Dense ℝ} {tol : ℝ}
    {dimorder : Option (List Nat)} {seq : Bool} {ranks : Option (List Nat)} {T : Ttensor ℝ}
    (h : hosvd realOps eigh X tol dimorder seq ranks = .ok T) :
    ∃ tr, hosvdRun realOps eigh X tol dimorder seq ranks = .ok (T, tr) := by
  unfold hosvd at h
  cases hr : hosvdRun realOps eigh X tol dimorder seq ranks with
  | error e => rw [hr] at h; cases h
  | ok p =>
    rw [hr] at h
    obtain ⟨T', tr⟩ := p
    cases h
    exact ⟨tr, rfl⟩

end Tk
end Pyttb
