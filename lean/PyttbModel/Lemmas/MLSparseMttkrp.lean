/-
C02 — sparse `mttkrp`: one `ttv` (all modes but `n`) per column.
-/
import PyttbModel.Lemmas.MLTtvUser
import PyttbModel.Lemmas.MLMttkrpW
import PyttbModel.Lemmas.MLDenseTtm
namespace Pyttb
namespace ML

variable {α : Type}

theorem getD_map_col [Zero α] (A : Mat α) (k r : Nat) :
    (A.map fun row => row.getD r 0).getD k 0 = Mat.get A k r := by
  unfold Mat.get
  rw [List.getD_eq_getElem?_getD, List.getElem?_map, List.getD_eq_getElem?_getD (l := A)]
  cases A[k]? <;> simp

theorem complDims_compl_single (N n : Nat) (hn : n < N) : complDims N (complDims N [n]) = [n] := by
  unfold complDims
  have : ∀ k ∈ List.range N, (!((List.range N).filter (fun k => !([n] : List Nat).contains k)).contains k) = (k == n) := by
    intro k hk
    by_cases h : k = n
    · subst h
      have : ¬ (k ∈ (List.range N).filter (fun k' => !([k] : List Nat).contains k')) := by
        simp
      simp [this]
    · have : k ∈ (List.range N).filter (fun k' => !([n] : List Nat).contains k') := by
        rw [List.mem_filter]; exact ⟨hk, by simpa using h⟩
      have h2 : ((List.range N).filter (fun k' => !([n] : List Nat).contains k')).contains k = true :=
        List.contains_iff_mem.2 this
      rw [h2]; simpa using h
  rw [List.filter_congr this]
  -- the only k < N with k == n
  apply List.ext_getElem
  · have : ((List.range N).filter (· == n)) = [n] := by
      have hp : ((List.range N).filter (· == n)).Perm [n] := by
        rw [List.perm_ext_iff_of_nodup (List.nodup_range.filter _) (by simp)]
        intro a; simp [List.mem_filter]; intro h; subst h; exact hn
      exact List.perm_singleton.1 hp
    rw [this]
  · intro k h1 h2
    have : ((List.range N).filter (· == n)) = [n] := by
      have hp : ((List.range N).filter (· == n)).Perm [n] := by
        rw [List.perm_ext_iff_of_nodup (List.nodup_range.filter _) (by simp)]
        intro a; simp [List.mem_filter]; intro h; subst h; exact hn
      exact List.perm_singleton.1 hp
    simp [this]

/-- **Sparse `mttkrp`** with a list of factor matrices: entry `[i, r]` is
`Σ_{k, k_n = i} X[k] ∏_{m ≠ n} U_m[k_m, r]`, whatever kind of result each per-column `ttv`
returns (sparse or densified). -/
theorem sparse_mttkrp_list_spec [CommSemiring α] [DecidableEq α] (S : Sparse α) (hS : S.WF) (U : List (Mat α))
    (n R : Nat) (hN2 : 2 ≤ S.shape.length) (hn : n < S.shape.length) (hlen : U.length = S.shape.length)
    (hrows : ∀ m, m < S.shape.length → m ≠ n → (U.getD m []).length = S.shape.getD m 0)
    (hcols : ∀ m, m < S.shape.length → m ≠ n → ∀ row ∈ U.getD m [], row.length = R)
    (hpos : ∀ e ∈ S.shape, 0 < e) :
    ∃ V, S.mttkrp (.list U) n = .ok V ∧
      ∀ i r, i < S.shape.getD n 0 → r < R →
        V.get i r = Spec.mttkrp S.den (fun m x c => (U.getD m []).get x c) (fun _ => 1) n i r := by
  set N := S.shape.length with hN
  have hposm : ∀ m, m < N → 0 < S.shape.getD m 0 := by
    intro m hm
    apply hpos
    rw [List.getD_eq_getElem?_getD, List.getElem?_eq_getElem hm]
    exact List.getElem_mem _
  have hRval : (if (n == 0) = true then (U.getD 1 []).ncols else (U.getD 0 []).ncols) = R := by
    by_cases h0 : n = 0
    · subst h0
      simp only [beq_self_eq_true, if_true]
      exact ncols_eq _ R (hcols 1 (by omega) (by omega)) (by rw [hrows 1 (by omega) (by omega)]; exact hposm 1 (by omega))
    · have : (n == 0) = false := by simpa using h0
      rw [this]
      simp only [Bool.false_eq_true, if_false]
      exact ncols_eq _ R (hcols 0 (by omega) (by omega)) (by rw [hrows 0 (by omega) (by omega)]; exact hposm 0 (by omega))
  have hgmf : getMttkrpFactors (.list U) n N = .ok U := by
    unfold getMttkrpFactors
    have : (U.length != N) = false := by rw [hlen]; exact bne_self_eq_false _
    simp [this]
  have hval : ((List.range N).any fun i => i != n && !(U.getD i []).isShape (S.shape.getD i 0) R) = false := by
    rw [List.any_eq_false]
    intro m hm
    have hm' := List.mem_range.1 hm
    by_cases hmn : m = n
    · simp [hmn]
    · have h1 : (U.getD m []).isShape (S.shape.getD m 0) R = true := by
        unfold Mat.isShape
        rw [hrows m hm' hmn]
        simp only [beq_self_eq_true, Bool.true_and, List.all_eq_true]
        intro row hrow
        simpa using hcols m hm' hmn row hrow
      rw [h1]; simp
  -- the per-column ttv
  set sel := complDims N [n] with hsel
  have hseln : ∀ d ∈ sel, d < N ∧ d ≠ n := by
    intro d hd
    have := mem_complDims.1 hd
    exact ⟨this.1, by simpa using this.2⟩
  have hselnd : sel.Nodup := List.nodup_range.filter _
  have hsellen : sel.length ≠ N := by
    have hp := isPermOf_compl_append N [n] (by simp) (by simpa using hn)
    have h := isPermOf_length_eq hp
    rw [List.length_append, List.length_singleton, ← hsel] at h
    omega
  have hcol : ∀ r, r < R → ∃ col, S.mttkrpCol U n r = .ok col ∧
      ∀ i, i < S.shape.getD n 0 → col.getD i 0 =
        Spec.mttkrp S.den (fun m x c => (U.getD m []).get x c) (fun _ => 1) n i r := by
    intro r hr
    set Z : List (List α) := (List.range N).map fun i =>
      if i != n then (U.getD i []).map (fun row => row.getD r 0) else [] with hZ
    have hZl : Z.length = N := by simp [hZ]
    have hZget : ∀ d, d < N → d ≠ n → Z[d]? = some ((U.getD d []).map fun row => row.getD r 0) := by
      intro d hd hdn
      have : (d != n) = true := by simpa using hdn
      simp only [hZ, List.getElem?_map, List.getElem?_range hd, Option.map_some, this, if_true]
    obtain ⟨pairs, e, hs, hp, hm⟩ := resolve_dims_N N Z sel hselnd (fun x hx => (hseln x hx).1) hZl hsellen
    have hres : resolveModes N Z none (some [Int.ofNat n]) = .ok pairs := by
      have := resolve_exclude N Z [n] (by simpa using hn) (by simp)
      simp only [List.map_cons, List.map_nil] at this
      rw [this, ← hsel, e]
    have hkeys : ∀ p ∈ pairs, p.1 < N ∧ p.1 ≠ n := by
      intro p hp'
      exact hseln p.1 (hp.subset (List.mem_map_of_mem hp'))
    have hp2 : ∀ p ∈ pairs, p.2 = (U.getD p.1 []).map fun row => row.getD r 0 := by
      intro p hp'
      obtain ⟨h1, h2⟩ := hkeys p hp'
      have := hm p hp'
      rw [hZget p.1 h1 h2] at this
      exact (Option.some.inj this).symm
    set w : Nat → Nat → α := fun d k => (U.getD d []).get k r with hw
    obtain ⟨res, hr1, hr2, hr3⟩ := sparse_ttvCore_spec S hS pairs (hs.imp (fun h => Nat.ne_of_lt h))
      (fun p hp' => (hkeys p hp').1)
      (by
        intro p hp'
        obtain ⟨h1, h2⟩ := hkeys p hp'
        rw [hp2 p hp', List.length_map, hrows p.1 h1 h2])
      w
      (by
        intro p hp' k
        rw [hp2 p hp', hw]
        exact (getD_map_col _ _ _).symm)
    have hrem : complDims N (pairs.map (·.1)) = [n] := by
      rw [complDims_perm hp, hsel]; exact complDims_compl_single N n hn
    have hshape : res.shape = [S.shape.getD n 0] := by
      rw [hr2]; unfold Spec.ttvShape; rw [← hN, hrem]; rfl
    have httv : S.ttv Z none (some [Int.ofNat n]) = .ok res := by
      unfold Sparse.ttv; rw [← hN, hres]; exact hr1
    have htc : res.toColumn (S.shape.getD n 0) = (List.range (S.shape.getD n 0)).map fun k => res.get [k] := by
      cases hrr : res with
      | scalar v => rw [hrr] at hshape; simp [ML.Res.shape] at hshape
      | dense t => rfl
      | sparse s => rfl
      | vec v => rfl
    refine ⟨res.toColumn (S.shape.getD n 0), by unfold Sparse.mttkrpCol; simp only [← hN, ← hZ, httv], ?_⟩
    intro i hi
    rw [htc, getD_map_range _ _ _ _ hi]
    rw [hr3 [i] (by rw [hshape]; exact ⟨hi, trivial⟩)]
    unfold Spec.ttv Spec.mttkrp Spec.sumOver Spec.fiber
    rw [one_mul]
    show (((allSubs S.shape).filter fun k => gather k (complDims N (pairs.map (·.1))) == [i]).map _).sum = _
    rw [hrem]
    have hfil : (allSubs S.shape).filter (fun k => gather k [n] == [i]) =
        (allSubs S.shape).filter (fun k => k.getD n 0 == i) := by
      apply List.filter_congr
      intro k _
      exact length_one_beq _ _
    rw [hfil]
    apply sum_congr
    intro k _
    show S.get k * _ = S.get k * _
    congr 1
    unfold Spec.selProd
    have hperm : (pairs.map (·.1)).Perm ((List.range N).filter (· != n)) := by
      refine hp.trans ?_
      rw [hsel, ← others_eq_compl]
      exact List.Perm.refl _
    exact ((hperm.map _).prod_eq)
  unfold Sparse.mttkrp
  have g0 : ¬ (n ≥ N) := by omega
  have g1 : ¬ (N < 2) := by omega
  simp only [← hN, g0, if_false, hgmf, g1, hRval, hval, Bool.false_eq_true]
  haveI : Nonempty (List α) := ⟨[]⟩
  choose! col hcolv using hcol
  have hcs : (List.range R).mapM (S.mttkrpCol U n) = .ok ((List.range R).map col) := by
    apply mapM_ok
    intro r hr
    exact (hcolv r (List.mem_range.1 hr)).1
  rw [hcs]
  refine ⟨_, rfl, ?_⟩
  intro i r hi hr
  have h1 : Mat.get ((List.range (S.shape.getD n 0)).map fun i => ((List.range R).map col).map fun c => c.getD i 0) i r
      = (col r).getD i 0 := by
    unfold Mat.get
    rw [getD_map_range _ _ _ _ hi, List.map_map, getD_map_range _ _ _ _ hr]
    rfl
  rw [h1, (hcolv r hr).2 i hi]

end ML
end Pyttb
