/-
C02 — `tensor.ttsv`: both code paths run the reshape·dot loop of `ttv` on the tensor's own data
(`version = 1` literally, through `ttv` with the trailing modes selected — the transposition it performs is
the identity; the default version with explicit powers of the common extent), so they agree, and the
loop computes `Σ_j X[i ++ j] ∏_l x[j_l]`.
-/
import PyttbModel.Ops.MultilinearTtsv
import PyttbModel.Spec.MultilinearTtsv
import PyttbModel.Lemmas.MLDenseTtv
import PyttbModel.Lemmas.MLModes
import PyttbModel.Lemmas.MLTtvUser
namespace Pyttb
namespace ML

variable {α : Type}

/-! ### lists -/

theorem numel_replicate' (L n : Nat) : numel (List.replicate L n) = n ^ L := by
  induction L with
  | zero => rfl
  | succ L ih => simp [List.replicate_succ, ih, Nat.pow_succ, Nat.mul_comm]

theorem zipWith_replicate_left {β γ δ : Type} (f : β → γ → δ) (a : β) (l : List γ) :
    List.zipWith f (List.replicate l.length a) l = l.map (f a) := by
  induction l with
  | nil => rfl
  | cons b l ih => simp [List.replicate_succ, ih]

/-- The weight of the trailing coordinates when every vector is the same `x`. -/
theorem vecProd_replicate [Mul α] [One α] [Zero α] (x : List α) (j : List Nat) :
    vecProd (List.replicate j.length x) j = (j.map fun c => x.getD c 0).prod := by
  unfold vecProd
  rw [zipWith_replicate_left]

/-- The modes `dnew, …, N-1`. -/
def trailing (N dnew : Nat) : List Nat := (List.range (N - dnew)).map (dnew + ·)

theorem range_eq_append_trailing (N dnew : Nat) (h : dnew ≤ N) : List.range N = List.range dnew ++ trailing N dnew := by
  have : N = dnew + (N - dnew) := by omega
  conv => lhs; rw [this, List.range_add]
  rfl

theorem trailing_eq_drop (N dnew : Nat) (h : dnew ≤ N) : trailing N dnew = (List.range N).drop dnew := by
  rw [range_eq_append_trailing N dnew h, List.drop_left' (by simp)]

theorem mem_trailing {N dnew k : Nat} : k ∈ trailing N dnew ↔ dnew ≤ k ∧ k < N := by
  unfold trailing
  simp only [List.mem_map, List.mem_range]
  constructor
  · rintro ⟨a, ha, rfl⟩; omega
  · rintro ⟨h1, h2⟩; exact ⟨k - dnew, by omega, by omega⟩

theorem trailing_sorted (N dnew : Nat) : (trailing N dnew).Pairwise (· < ·) := by
  unfold trailing
  rw [List.pairwise_map]
  exact List.pairwise_lt_range.imp (fun h => by omega)

theorem trailing_nodup (N dnew : Nat) : (trailing N dnew).Nodup :=
  (trailing_sorted N dnew).imp (fun h => Nat.ne_of_lt h)

theorem length_trailing (N dnew : Nat) : (trailing N dnew).length = N - dnew := by simp [trailing]

/-- The modes that are not trailing are the leading ones. -/
theorem complDims_trailing (N dnew : Nat) (h : dnew ≤ N) : complDims N (trailing N dnew) = List.range dnew := by
  unfold complDims
  rw [range_eq_append_trailing N dnew h, List.filter_append]
  have h1 : (List.range dnew).filter (fun k => !(trailing N dnew).contains k) = List.range dnew := by
    rw [List.filter_eq_self]
    intro k hk
    have hk' := List.mem_range.1 hk
    have : k ∉ trailing N dnew := fun hm => by have := (mem_trailing.1 hm).1; omega
    simpa using this
  have h2 : (trailing N dnew).filter (fun k => !(trailing N dnew).contains k) = [] := by
    rw [List.filter_eq_nil_iff]
    intro k hk
    simpa using hk
  rw [h1, h2, List.append_nil]

/-- The modes that are not leading are the trailing ones. -/
theorem complDims_leading (N dnew : Nat) (h : dnew ≤ N) : complDims N (List.range dnew) = trailing N dnew := by
  unfold complDims
  rw [range_eq_append_trailing N dnew h, List.filter_append]
  have h1 : (List.range dnew).filter (fun k => !(List.range dnew).contains k) = [] := by
    rw [List.filter_eq_nil_iff]
    intro k hk
    simpa using hk
  have h2 : (trailing N dnew).filter (fun k => !(List.range dnew).contains k) = trailing N dnew := by
    rw [List.filter_eq_self]
    intro k hk
    have := (mem_trailing.1 hk).1
    have : k ∉ List.range dnew := fun hm => by have := List.mem_range.1 hm; omega
    simpa using this
  rw [h1, h2, List.nil_append]

theorem sorted_perm_eq {a b : List Nat} (ha : a.Pairwise (· < ·)) (hb : b.Pairwise (· < ·)) (h : a.Perm b) : a = b :=
  List.Perm.eq_of_pairwise (le := fun x y => x < y) (fun x y _ _ h1 h2 => absurd h1 (by omega)) ha hb h

/-! ### the loop of the default version is the `ttv` loop -/

theorem ttsvLoop_eq_ttvLoop [Add α] [Mul α] [Zero α] (x : List α) (n dnew : Nat) :
    ∀ (i : Nat) (y : List α), Dense.ttsvLoop x n dnew i y =
      (Dense.ttvLoop y (List.replicate (dnew + i) n) (List.replicate i x)).1 := by
  intro i
  induction i with
  | zero => intro y; rfl
  | succ i ih =>
    intro y
    have hsz : List.replicate (dnew + (i + 1)) n = List.replicate (dnew + i) n ++ [n] := by
      rw [← Nat.add_assoc, List.replicate_succ']
    have hdl : (List.replicate (dnew + (i + 1)) n).dropLast = List.replicate (dnew + i) n := by
      rw [hsz, List.dropLast_concat]
    have hgl : (List.replicate (dnew + (i + 1)) n).getLastD 0 = n := by rw [hsz]; simp
    show Dense.ttsvLoop x n dnew i (Dense.dotLast y (n ^ (dnew + i)) n x) = _
    rw [ih, List.replicate_succ]
    show _ = (Dense.ttvLoop (Dense.dotLast y (numel (List.replicate (dnew + (i + 1)) n).dropLast)
      ((List.replicate (dnew + (i + 1)) n).getLastD 0) x) (List.replicate (dnew + (i + 1)) n).dropLast (List.replicate i x)).1
    rw [hdl, hgl, numel_replicate']

/-! ### what the loop computes on the tensor's own data -/

/-- The reshape·dot loop on `T.data` with the same vector for the modes `dnew, …, N-1` leaves the first
`dnew` extents and computes `Σ_j X[i ++ j] ∏_l x[j_l]`. -/
theorem ttvLoop_same_vector [CommSemiring α] (T : Dense α) (hT : T.WF) (x : List α) (dnew : Nat) :
    (Dense.ttvLoop T.data T.shape (List.replicate (T.shape.length - dnew) x)).2 = T.shape.take dnew ∧
    (Dense.ttvLoop T.data T.shape (List.replicate (T.shape.length - dnew) x)).1.length = numel (T.shape.take dnew) ∧
    ∀ i, InBounds (T.shape.take dnew) i →
      (Dense.ttvLoop T.data T.shape (List.replicate (T.shape.length - dnew) x)).1.getD
        (sub2ind (T.shape.take dnew) i) 0 = Spec.ttsv T.den x dnew i := by
  have hsplit : T.shape = T.shape.take dnew ++ T.shape.drop dnew := (List.take_append_drop dnew T.shape).symm
  have hpl : (T.shape.drop dnew).length = T.shape.length - dnew := by simp
  obtain ⟨l1, l2, l3⟩ := ttvLoop_spec (T.shape.take dnew) (List.replicate (T.shape.length - dnew) x) (T.shape.drop dnew)
    T.data (by rw [List.length_replicate, hpl]) (by rw [← hsplit]; exact hT)
  rw [← hsplit] at l1 l2 l3
  refine ⟨l1, l2, ?_⟩
  intro i hi
  rw [l3 i hi]
  unfold Spec.ttsv Spec.sumOver
  apply sum_congr
  intro j hj
  have hjl : j.length = T.shape.length - dnew := by rw [(mem_allSubs.1 hj).length_eq, hpl]
  rw [List.reverse_replicate, ← hjl, vecProd_replicate]
  rfl

/-! ### `version = 1`: `ttv` with the trailing modes selected -/

/-- The scalar / tensor wrapping of the `ttv` kernel around a loop result. -/
def wrapLoop [Zero α] (r : List α × List Nat) : ScalarOr α (Dense α) :=
  if r.2.length > 0 then .obj ⟨r.2, r.1⟩ else .scalar (r.1.getD 0 0)

/-- The dense `ttv` kernel with the same vector on the modes `dnew, …, N-1` (each of the vector's length):
the transposition is the identity, so the loop runs on the tensor's own data. -/
theorem ttvCore_trailing [Add α] [Mul α] [Zero α] (T : Dense α) (hT : T.WF) (x : List α) (dnew : Nat)
    (hd : dnew ≤ T.shape.length)
    (hx : ∀ k, dnew ≤ k → k < T.shape.length → T.shape.getD k 0 = x.length) :
    T.ttvCore ((trailing T.shape.length dnew).map fun k => (k, x)) =
      .ok (wrapLoop (Dense.ttvLoop T.data T.shape (List.replicate (T.shape.length - dnew) x))) := by
  set N := T.shape.length with hN
  set pairs : List (Nat × List α) := (trailing N dnew).map fun k => (k, x) with hpairs
  have hkeys : pairs.map (·.1) = trailing N dnew := by rw [hpairs, List.map_map]; simp [Function.comp_def]
  have hvals : pairs.reverse.map (·.2) = List.replicate (N - dnew) x := by
    rw [List.map_reverse, hpairs, List.map_map]
    have : (trailing N dnew).map ((fun p : Nat × List α => p.2) ∘ fun k => (k, x)) = List.replicate (N - dnew) x := by
      rw [List.eq_replicate_iff]
      refine ⟨by simp [length_trailing], ?_⟩
      intro b hb
      obtain ⟨k, _, rfl⟩ := List.mem_map.1 hb
      rfl
    rw [this, List.reverse_replicate]
  obtain ⟨g1, g2⟩ := ttv_guards T.shape pairs (fun d => T.shape.getD d 0) (by rw [hkeys]; exact trailing_nodup N dnew)
    (by
      intro p hp
      obtain ⟨k, hk, rfl⟩ := List.mem_map.1 hp
      have := mem_trailing.1 hk
      exact (hx k this.1 this.2).symm)
  have horder : complDims N (pairs.map (·.1)) ++ pairs.map (·.1) = List.range N := by
    rw [hkeys, complDims_trailing N dnew hd, ← range_eq_append_trailing N dnew hd]
  unfold Dense.ttvCore
  simp only [← hN, g1, g2, Bool.false_eq_true, if_false, horder, hvals]
  have hc : (if N > 1 then (T.transpose (List.range N)).data else T.data) = T.data := by
    by_cases h1 : N > 1
    · rw [if_pos h1, hN, Dense.transpose_range_c01 T hT]
    · rw [if_neg h1]
  rw [hc, hN, gather_range]
  unfold wrapLoop
  split <;> rfl

/-- How `tt_dimscheck` resolves the `ttv` request of `version = 1`: `ndims` copies of the vector, the first
`dnew` modes excluded (nothing excluded when `skip_dim` is absent). -/
theorem resolve_ttsv {β : Type} (N : Nat) (x : β) (dnew : Nat) (hd : dnew ≤ N)
    (excl : Option (List Int))
    (hexcl : (dnew = 0 ∧ excl = none) ∨ (1 ≤ dnew ∧ excl = some ((List.range dnew).map Int.ofNat))) :
    resolveModes N (List.replicate N x) none excl = .ok ((trailing N dnew).map fun k => (k, x)) := by
  have hfin : ∀ pairs : List (Nat × β), (pairs.map (·.1)).Pairwise (· < ·) → (pairs.map (·.1)).Perm (trailing N dnew) →
      (∀ p ∈ pairs, p.2 = x) → pairs = (trailing N dnew).map fun k => (k, x) := by
    intro pairs h1 h2 h3
    have hk := sorted_perm_eq h1 (trailing_sorted N dnew) h2
    rw [← hk, List.map_map]
    conv => lhs; rw [← List.map_id pairs]
    apply List.map_congr_left
    intro p hp
    have := h3 p hp
    cases p
    simp_all
  rcases hexcl with ⟨h0, rfl⟩ | ⟨h1, rfl⟩
  · subst h0
    obtain ⟨pairs, e, hs, hp⟩ := resolve_dims_P N (List.replicate N x) (List.range N) List.nodup_range
      (fun k hk => List.mem_range.1 hk) (by simp)
    rw [resolve_none, e]
    congr 1
    apply hfin pairs hs
    · have := hp.map Prod.fst
      rw [List.map_fst_zip (by simp)] at this
      rw [trailing_eq_drop N 0 (Nat.zero_le _)]
      simpa using this
    · intro p hp'
      have hm := hp.subset hp'
      have := (List.of_mem_zip hm).2
      exact List.eq_of_mem_replicate this
  · rw [resolve_exclude N (List.replicate N x) (List.range dnew) (fun k hk => by have := List.mem_range.1 hk; omega)
      List.nodup_range, complDims_leading N dnew hd]
    obtain ⟨pairs, e, hs, hp, hm⟩ := resolve_dims_N N (List.replicate N x) (trailing N dnew) (trailing_nodup N dnew)
      (fun k hk => (mem_trailing.1 hk).2) (by simp) (by rw [length_trailing]; omega)
    rw [e]
    congr 1
    apply hfin pairs hs hp
    intro p hp'
    have := hm p hp'
    have hmem : p.2 ∈ List.replicate N x := List.mem_of_getElem? this
    exact List.eq_of_mem_replicate hmem

/-- The number of modes `ttsv` keeps: `skip_dim + 1`, none when `skip_dim` is absent. -/
def ttsvKeep (skip : Option Int) : Nat :=
  match skip with
  | none => 0
  | some s => (s + 1).toNat

/-- `skip_dim` is absent or a mode of an order-`d` tensor. -/
def TtsvSkipOk (d : Nat) (skip : Option Int) : Prop :=
  match skip with
  | none => True
  | some s => 0 ≤ s ∧ s < (d : Int)

instance (d : Nat) (skip : Option Int) : Decidable (TtsvSkipOk d skip) := by
  unfold TtsvSkipOk; split <;> infer_instance

theorem ttsvSkip_ok (d : Nat) (skip : Option Int) (h : TtsvSkipOk d skip) :
    ∃ s, Dense.ttsvSkip d skip = .ok s ∧ (s + 1).toNat = ttsvKeep skip ∧ ttsvKeep skip ≤ d ∧ -1 ≤ s ∧
      (skip = none → s = -1) ∧ (∀ t, skip = some t → s = t) := by
  cases skip with
  | none => exact ⟨-1, rfl, rfl, Nat.zero_le _, by omega, fun _ => rfl, fun t ht => by cases ht⟩
  | some t =>
    obtain ⟨h0, h1⟩ := h
    refine ⟨t, ?_, rfl, ?_, by omega, (fun hh => by cases hh), (fun u hu => by cases hu; rfl)⟩
    · unfold Dense.ttsvSkip
      have : (decide (t < 0) || decide (t ≥ (d : Int))) = false := by
        simp only [Bool.or_eq_false_iff, decide_eq_false_iff_not]
        constructor <;> omega
      simp only [this, Bool.false_eq_true, if_false]
    · show (t + 1).toNat ≤ d
      omega

theorem ttsvSkip_rejects (d : Nat) (s : Int) (h : s < 0 ∨ (d : Int) ≤ s) : Dense.ttsvSkip d (some s) = .error .reject := by
  unfold Dense.ttsvSkip
  have : (decide (s < 0) || decide (s ≥ (d : Int))) = true := by
    simp only [Bool.or_eq_true, decide_eq_true_eq]
    rcases h with h | h
    · exact Or.inl h
    · exact Or.inr h
  simp only [this, if_true]

/-- The result `ttsv` builds from a loop result when `dnew` modes are kept: scalar / 1-d array / 2-d array /
tensor. -/
def ttsvResOf [Zero α] (dnew : Nat) (r : List α × List Nat) : TtsvRes α :=
  if dnew = 0 then .scalar (r.1.getD 0 0)
  else if dnew = 1 then .vec r.1
  else if dnew = 2 then .mat ⟨r.2, r.1⟩
  else .tensor ⟨r.2, r.1⟩

/-- **`ttsv`, `version = 1`** in closed form, for any shape whose multiplied modes have the vector's length. -/
theorem ttsv_v1_closed [CommSemiring α] (T : Dense α) (hT : T.WF) (x : List α)
    (skip : Option Int) (hskip : TtsvSkipOk T.shape.length skip)
    (hx : ∀ k, ttsvKeep skip ≤ k → k < T.shape.length → T.shape.getD k 0 = x.length) :
    T.ttsv x skip .v1 = .ok (ttsvResOf (ttsvKeep skip)
      (Dense.ttvLoop T.data T.shape (List.replicate (T.shape.length - ttsvKeep skip) x))) := by
  obtain ⟨s, hs, hsk, hle, hm1, hnone, hsome⟩ := ttsvSkip_ok T.shape.length skip hskip
  set dnew := ttsvKeep skip with hdnew
  set R := Dense.ttvLoop T.data T.shape (List.replicate (T.shape.length - dnew) x) with hR
  obtain ⟨r2, _, _⟩ := ttvLoop_same_vector T hT x dnew
  have hr2l : R.2.length = dnew := by rw [hR, r2, List.length_take]; omega
  have hexcl : (dnew = 0 ∧ (skip.map fun _ => (List.range (s + 1).toNat).map Int.ofNat) = none) ∨
      (1 ≤ dnew ∧ (skip.map fun _ => (List.range (s + 1).toNat).map Int.ofNat) = some ((List.range dnew).map Int.ofNat)) := by
    cases skip with
    | none => exact Or.inl ⟨rfl, rfl⟩
    | some t =>
      right
      have ht := hsome t rfl
      have h0 : 0 ≤ t := hskip.1
      refine ⟨?_, ?_⟩
      · show 1 ≤ (t + 1).toNat
        omega
      · show some _ = some _
        rw [hsk]
  have hres := resolve_ttsv T.shape.length x dnew hle _ hexcl
  have hcore := ttvCore_trailing T hT x dnew hle hx
  unfold Dense.ttsv
  rw [hs]
  show T.ttsvV1 x skip s = _
  unfold Dense.ttsvV1 Dense.ttv
  simp only [hres, hcore, ← hR]
  unfold wrapLoop ttsvResOf
  by_cases h0 : dnew = 0
  · have : ¬ R.2.length > 0 := by omega
    rw [if_neg this, if_pos h0]
    have hs0 : s = -1 := by omega
    subst hs0
    rfl
  · have : R.2.length > 0 := by omega
    rw [if_pos this, if_neg h0]
    by_cases h1 : dnew = 1
    · have hs0 : s = 0 := by omega
      subst hs0
      rw [if_pos h1]
      rfl
    · rw [if_neg h1]
      by_cases h2 : dnew = 2
      · have hs1 : s = 1 := by omega
        subst hs1
        rw [if_pos h2]
        rfl
      · rw [if_neg h2]
        have e0 : (s == 0) = false := by
          have : s ≠ 0 := by omega
          simpa using this
        have e1 : (s == 1) = false := by
          have : s ≠ 1 := by omega
          simpa using this
        simp only [e0, e1, Bool.false_eq_true, if_false]

/-! ### the default version -/

/-- **`ttsv`, default version / `version = 2`** in closed form on a cubical tensor: the same loop result as
`version = 1`. -/
theorem ttsv_v2_closed [CommSemiring α] (T : Dense α) (hT : T.WF) (d n : Nat) (hd : 1 ≤ d)
    (hshape : T.shape = List.replicate d n) (x : List α)
    (skip : Option Int) (hskip : TtsvSkipOk d skip) (hx : ttsvKeep skip < d → x.length = n) :
    T.ttsv x skip .v2 = .ok (ttsvResOf (ttsvKeep skip)
      (Dense.ttvLoop T.data T.shape (List.replicate (d - ttsvKeep skip) x))) := by
  have hlen : T.shape.length = d := by rw [hshape, List.length_replicate]
  obtain ⟨s, hs, hsk, hle, hm1, _, _⟩ := ttsvSkip_ok d skip hskip
  set dnew := ttsvKeep skip with hdnew
  set R := Dense.ttvLoop T.data T.shape (List.replicate (d - dnew) x) with hR
  obtain ⟨r2, r1, _⟩ := ttvLoop_same_vector T hT x dnew
  rw [hlen, ← hR] at r2 r1
  have htake : T.shape.take dnew = List.replicate dnew n := by
    rw [hshape, List.take_replicate, Nat.min_eq_left hle]
  rw [htake] at r2
  have hloop : Dense.ttsvLoop x n dnew (d - dnew) T.data = R.1 := by
    rw [ttsvLoop_eq_ttvLoop, hR, hshape]
    congr 3
    omega
  obtain ⟨d', rfl⟩ : ∃ d', d = d' + 1 := ⟨d - 1, by omega⟩
  have hcub : T.shape.any (· != n) = false := by
    rw [hshape, List.any_eq_false]
    intro z hz
    have : z = n := List.eq_of_mem_replicate hz
    subst this
    simp
  have hvec : (decide (d' + 1 - dnew > 0) && (x.length != n)) = false := by
    by_cases hlt : dnew < d' + 1
    · rw [hx hlt]; simp
    · have : ¬ (d' + 1 - dnew > 0) := by omega
      simp [this]
  unfold Dense.ttsv
  rw [hlen, hs]
  show T.ttsvV2 x s = _
  unfold Dense.ttsvV2
  rw [hshape, List.replicate_succ]
  simp only
  rw [← List.replicate_succ, ← hshape, hcub, hlen, hsk, hvec, hloop]
  simp only [Bool.false_eq_true, if_false]
  unfold ttsvResOf
  rcases (by omega : dnew = 0 ∨ dnew = 1 ∨ dnew = 2 ∨ 2 < dnew) with h | h | h | h
  · simp [h]
  · simp [h]
  · simp [h, r2]
  · have h2 : dnew ≠ 2 := by omega
    have h1 : dnew ≠ 1 := by omega
    have h0 : dnew ≠ 0 := by omega
    simp [h, h2, h1, h0, r2]

/-! ### what the results denote -/

theorem list_length_one [Zero α] {l : List α} (h : l.length = 1) : l = [l.getD 0 0] := by
  cases l with
  | nil => simp at h
  | cons a t =>
    cases t with
    | nil => rfl
    | cons _ _ => simp at h

theorem inBounds_singleton {a : Nat} {i : List Nat} (h : InBounds [a] i) : ∃ k, i = [k] ∧ k < a := by
  cases i with
  | nil => simp [InBounds] at h
  | cons k i =>
    cases i with
    | nil => exact ⟨k, rfl, h.1⟩
    | cons _ _ => simp [InBounds] at h

/-- The result built from the loop on the tensor's data has the kept extents as its shape, the kind that
belongs to the number of kept modes, and the entries `Σ_j X[i ++ j] ∏_l x[j_l]`. -/
theorem ttsvResOf_spec [CommSemiring α] (T : Dense α) (hT : T.WF) (x : List α) (dnew : Nat) (hd : dnew ≤ T.shape.length) :
    (ttsvResOf dnew (Dense.ttvLoop T.data T.shape (List.replicate (T.shape.length - dnew) x))).shape = T.shape.take dnew ∧
    (ttsvResOf dnew (Dense.ttvLoop T.data T.shape (List.replicate (T.shape.length - dnew) x))).kind = min dnew 3 ∧
    ∀ i, InBounds (T.shape.take dnew) i →
      (ttsvResOf dnew (Dense.ttvLoop T.data T.shape (List.replicate (T.shape.length - dnew) x))).get i =
        Spec.ttsv T.den x dnew i := by
  obtain ⟨r2, r1, r3⟩ := ttvLoop_same_vector T hT x dnew
  set R := Dense.ttvLoop T.data T.shape (List.replicate (T.shape.length - dnew) x) with hR
  unfold ttsvResOf
  rcases (by omega : dnew = 0 ∨ dnew = 1 ∨ dnew = 2 ∨ 2 < dnew) with h | h | h | h
  · subst h
    simp only [if_true]
    refine ⟨rfl, rfl, ?_⟩
    intro i hi
    have hi0 : i = [] := by
      rw [List.take_zero] at hi
      cases i <;> simp_all [InBounds]
    subst hi0
    have := r3 [] (by rw [List.take_zero]; trivial)
    rw [List.take_zero] at this
    exact this
  · subst h
    obtain ⟨a, rest, hsh⟩ : ∃ a rest, T.shape = a :: rest := by
      cases hs : T.shape with
      | nil => rw [hs] at hd; simp at hd
      | cons a rest => exact ⟨a, rest, rfl⟩
    have htk : T.shape.take 1 = [a] := by rw [hsh]; rfl
    rw [htk] at r1 r3 ⊢
    simp only [Nat.one_ne_zero, if_false, if_true]
    refine ⟨?_, rfl, ?_⟩
    · show [R.1.length] = [a]
      rw [r1]; simp
    · intro i hi
      obtain ⟨k, rfl, hk⟩ := inBounds_singleton hi
      have := r3 [k] hi
      simp only [sub2ind, Nat.mul_zero, Nat.add_zero] at this
      exact this
  · subst h
    simp only [show (2 : Nat) ≠ 0 by omega, show (2 : Nat) ≠ 1 by omega, if_false, if_true]
    refine ⟨r2, rfl, ?_⟩
    intro i hi
    show R.1.getD (sub2ind R.2 i) 0 = _
    rw [r2]
    exact r3 i hi
  · have h0 : dnew ≠ 0 := by omega
    have h1 : dnew ≠ 1 := by omega
    have h2 : dnew ≠ 2 := by omega
    simp only [h0, h1, h2, if_false]
    refine ⟨r2, ?_, ?_⟩
    · show 3 = min dnew 3
      omega
    · intro i hi
      show R.1.getD (sub2ind R.2 i) 0 = _
      rw [r2]
      exact r3 i hi

/-- **`ttsv`, `version = 1`**, any shape whose multiplied modes have the vector's length: the result has the
kept extents, the kind that belongs to `skip_dim`, and the defined entries. -/
theorem ttsv_v1_spec [CommSemiring α] (T : Dense α) (hT : T.WF) (x : List α)
    (skip : Option Int) (hskip : TtsvSkipOk T.shape.length skip)
    (hx : ∀ k, ttsvKeep skip ≤ k → k < T.shape.length → T.shape.getD k 0 = x.length) :
    ∃ r, T.ttsv x skip .v1 = .ok r ∧ r.shape = Spec.ttsvShape T.shape (ttsvKeep skip) ∧
      r.kind = min (ttsvKeep skip) 3 ∧
      ∀ i, InBounds (Spec.ttsvShape T.shape (ttsvKeep skip)) i → r.get i = Spec.ttsv T.den x (ttsvKeep skip) i := by
  obtain ⟨_, _, _, hle, _⟩ := ttsvSkip_ok T.shape.length skip hskip
  obtain ⟨h1, h2, h3⟩ := ttsvResOf_spec T hT x (ttsvKeep skip) hle
  exact ⟨_, ttsv_v1_closed T hT x skip hskip hx, h1, h2, h3⟩

/-- **`ttsv` on a cubical tensor, every version**: the defined entries, the kept extents and the kind that belongs
to `skip_dim`. -/
theorem ttsv_cubical_spec [CommSemiring α] (T : Dense α) (hT : T.WF) (d n : Nat) (hd : 1 ≤ d)
    (hshape : T.shape = List.replicate d n) (x : List α) (skip : Option Int) (hskip : TtsvSkipOk d skip)
    (hx : ttsvKeep skip < d → x.length = n) (ver : TtsvVer) (hver : ver ≠ .other) :
    ∃ r, T.ttsv x skip ver = .ok r ∧ r.shape = List.replicate (ttsvKeep skip) n ∧ r.kind = min (ttsvKeep skip) 3 ∧
      ∀ i, InBounds (List.replicate (ttsvKeep skip) n) i → r.get i = Spec.ttsv T.den x (ttsvKeep skip) i := by
  have hlen : T.shape.length = d := by rw [hshape, List.length_replicate]
  obtain ⟨_, _, _, hle, _⟩ := ttsvSkip_ok d skip hskip
  set dnew := ttsvKeep skip with hdnew
  have htake : T.shape.take dnew = List.replicate dnew n := by
    rw [hshape, List.take_replicate, Nat.min_eq_left hle]
  obtain ⟨h1, h2, h3⟩ := ttsvResOf_spec T hT x dnew (by rw [hlen]; exact hle)
  rw [hlen, htake] at h1 h3
  rw [hlen] at h2
  have hv1 : T.ttsv x skip .v1 = .ok (ttsvResOf dnew (Dense.ttvLoop T.data T.shape (List.replicate (d - dnew) x))) := by
    have := ttsv_v1_closed T hT x skip (by rw [hlen]; exact hskip) (by
      intro k hk1 hk2
      rw [hlen] at hk2
      rw [hshape, List.getD_eq_getElem?_getD, List.getElem?_replicate, if_pos hk2]
      exact (hx (by omega)).symm)
    rw [hlen] at this
    exact this
  have hv2 := ttsv_v2_closed T hT d n hd hshape x skip hskip hx
  have hdef : T.ttsv x skip .default = T.ttsv x skip .v2 := by
    unfold Dense.ttsv
    cases Dense.ttsvSkip T.shape.length skip <;> rfl
  cases ver with
  | other => exact absurd rfl hver
  | v1 => exact ⟨_, hv1, h1, h2, h3⟩
  | v2 => exact ⟨_, hv2, h1, h2, h3⟩
  | default => rw [hdef]; exact ⟨_, hv2, h1, h2, h3⟩

/-- **The two code paths agree** on a cubical tensor: literally the same result. -/
theorem ttsv_versions_agree [CommSemiring α] (T : Dense α) (hT : T.WF) (d n : Nat) (hd : 1 ≤ d)
    (hshape : T.shape = List.replicate d n) (x : List α) (skip : Option Int) (hskip : TtsvSkipOk d skip)
    (hx : ttsvKeep skip < d → x.length = n) :
    T.ttsv x skip .default = T.ttsv x skip .v2 ∧ T.ttsv x skip .v1 = T.ttsv x skip .v2 := by
  have hlen : T.shape.length = d := by rw [hshape, List.length_replicate]
  have hv1 := ttsv_v1_closed T hT x skip (by rw [hlen]; exact hskip) (by
      intro k hk1 hk2
      rw [hlen] at hk2
      rw [hshape, List.getD_eq_getElem?_getD, List.getElem?_replicate, if_pos hk2]
      exact (hx (by omega)).symm)
  rw [hlen] at hv1
  have hv2 := ttsv_v2_closed T hT d n hd hshape x skip hskip hx
  refine ⟨?_, by rw [hv1, hv2]⟩
  unfold Dense.ttsv
  cases Dense.ttsvSkip T.shape.length skip <;> rfl

/-- The tail of the default version as it was before the fix 0527d3b (`if len(y) == 1: return y.item()`), kept
for the pinned counterexample only. -/
def ttsvTailPinned [Zero α] (y : List α) : TtsvRes α :=
  if y.length == 1 then .scalar (y.getD 0 0) else .vec y

/-! ### rejections -/

theorem ttsv_rejects_skip [Add α] [Mul α] [Zero α] (T : Dense α) (x : List α) (s : Int) (ver : TtsvVer)
    (h : s < 0 ∨ (T.shape.length : Int) ≤ s) : T.ttsv x (some s) ver = .error .reject := by
  unfold Dense.ttsv
  rw [ttsvSkip_rejects T.shape.length s h]

theorem ttsv_rejects_version [Add α] [Mul α] [Zero α] (T : Dense α) (x : List α) (skip : Option Int) :
    T.ttsv x skip .other = .error .reject := by
  unfold Dense.ttsv
  cases Dense.ttsvSkip T.shape.length skip with
  | error e => cases e; rfl
  | ok s => rfl

/-- The default version refuses a tensor that is not cubical, and a vector of the wrong length when a mode is
multiplied. -/
theorem ttsv_v2_rejects [Add α] [Mul α] [Zero α] (T : Dense α) (x : List α) (skip : Option Int)
    (h : (∃ e ∈ T.shape, e ≠ T.shape.headD 0) ∨ T.shape = [] ∨
      (ttsvKeep skip < T.shape.length ∧ x.length ≠ T.shape.headD 0)) :
    T.ttsv x skip .v2 = .error .reject ∧ T.ttsv x skip .default = .error .reject := by
  have key : ∀ s : Int, (s + 1).toNat = ttsvKeep skip → T.ttsvV2 x s = .error .reject := by
    intro s hs
    unfold Dense.ttsvV2
    cases hsh : T.shape with
    | nil => rfl
    | cons sz rest =>
      simp only
      rw [hsh] at h
      rcases h with ⟨e, he, hne⟩ | h | ⟨h1, h2⟩
      · have : (sz :: rest).any (· != sz) = true := by
          rw [List.any_eq_true]
          exact ⟨e, he, by simpa using hne⟩
        rw [this, if_pos rfl]
      · cases h
      · by_cases hc : (sz :: rest).any (· != sz) = true
        · rw [hc, if_pos rfl]
        · rw [if_neg hc]
          have : (decide ((sz :: rest).length - (s + 1).toNat > 0) && (x.length != sz)) = true := by
            rw [hs]
            have h2' : x.length ≠ sz := h2
            simp only [Bool.and_eq_true, decide_eq_true_eq]
            exact ⟨by omega, by simpa using h2'⟩
          rw [this, if_pos rfl]
  unfold Dense.ttsv
  cases hsk : Dense.ttsvSkip T.shape.length skip with
  | error e => cases e; exact ⟨rfl, rfl⟩
  | ok s =>
    have hs : (s + 1).toNat = ttsvKeep skip := by
      cases skip with
      | none =>
        unfold Dense.ttsvSkip at hsk
        cases hsk; rfl
      | some t =>
        unfold Dense.ttsvSkip at hsk
        simp only at hsk
        split at hsk
        · cases hsk
        · cases hsk; rfl
    exact ⟨key s hs, key s hs⟩

/-- `version = 1` refuses (through `ttv`) a vector whose length is not the extent of a multiplied mode. -/
theorem ttsv_v1_rejects [Add α] [Mul α] [Zero α] (T : Dense α) (x : List α) (skip : Option Int)
    (hskip : TtsvSkipOk T.shape.length skip)
    (h : ∃ k, ttsvKeep skip ≤ k ∧ k < T.shape.length ∧ T.shape.getD k 0 ≠ x.length) :
    T.ttsv x skip .v1 = .error .reject := by
  obtain ⟨s, hs, hsk, hle, hm1, hnone, hsome⟩ := ttsvSkip_ok T.shape.length skip hskip
  set dnew := ttsvKeep skip with hdnew
  have hexcl : (dnew = 0 ∧ (skip.map fun _ => (List.range (s + 1).toNat).map Int.ofNat) = none) ∨
      (1 ≤ dnew ∧ (skip.map fun _ => (List.range (s + 1).toNat).map Int.ofNat) = some ((List.range dnew).map Int.ofNat)) := by
    cases skip with
    | none => exact Or.inl ⟨rfl, rfl⟩
    | some t =>
      right
      have ht := hsome t rfl
      have h0 : 0 ≤ t := hskip.1
      refine ⟨?_, ?_⟩
      · show 1 ≤ (t + 1).toNat
        omega
      · show some _ = some _
        rw [hsk]
  have hres := resolve_ttsv T.shape.length x dnew hle _ hexcl
  obtain ⟨k, hk1, hk2, hk3⟩ := h
  have hguard : (((trailing T.shape.length dnew).map fun k => (k, x)).any
      fun p => p.2.length != T.shape.getD p.1 0) = true := by
    rw [List.any_eq_true]
    refine ⟨(k, x), List.mem_map.2 ⟨k, mem_trailing.2 ⟨hk1, hk2⟩, rfl⟩, ?_⟩
    have : x.length ≠ T.shape.getD k 0 := fun e => hk3 e.symm
    simpa using this
  unfold Dense.ttsv
  rw [hs]
  show T.ttsvV1 x skip s = _
  unfold Dense.ttsvV1 Dense.ttv
  simp only [hres]
  unfold Dense.ttvCore
  simp only [hguard, if_true]

/-! ### `ttsv` is `ttv` with the same vector on the trailing modes -/

theorem gather_leading (l : List Nat) (n : Nat) (hn : n ≤ l.length) : gather l (List.range n) = l.take n := by
  unfold gather
  apply List.ext_getElem
  · simp [hn]
  · intro k h1 h2
    simp only [List.length_map, List.length_range] at h1
    simp only [List.getElem_map, List.getElem_range, List.getElem_take]
    rw [List.getD_eq_getElem?_getD, List.getElem?_eq_getElem (by omega), Option.getD_some]

theorem map_range_getD_self' (l : List Nat) : (List.range l.length).map (fun k => l.getD k 0) = l := by
  apply List.ext_getElem
  · simp
  · intro k h1 h2
    simp [List.getD_eq_getElem?_getD, List.getElem?_eq_getElem h2]

theorem gather_trailing (l : List Nat) (dnew : Nat) (h : dnew ≤ l.length) :
    gather l (trailing l.length dnew) = l.drop dnew := by
  unfold gather trailing
  rw [List.map_map]
  apply List.ext_getElem
  · simp
  · intro k h1 h2
    simp only [List.length_map, List.length_range] at h1
    simp only [List.getElem_map, List.getElem_range, Function.comp_apply, List.getElem_drop]
    rw [List.getD_eq_getElem?_getD, List.getElem?_eq_getElem (by omega), Option.getD_some]

/-- The definition of `ttsv` is the definition of `ttv` with the same vector `x` in the modes `dnew, …, N-1`. -/
theorem spec_ttsv_eq_ttv [CommSemiring α] (X : Den α) (x : List α) (dnew : Nat) (hd : dnew ≤ X.shape.length)
    (i : List Nat) (hi : InBounds (X.shape.take dnew) i) :
    Spec.ttsv X x dnew i = Spec.ttv X (trailing X.shape.length dnew) (fun _ k => x.getD k 0) i := by
  set N := X.shape.length with hN
  set sel := trailing N dnew with hsel
  have hrem : complDims N sel = List.range dnew := complDims_trailing N dnew hd
  have horder : List.range dnew ++ sel = List.range N := (range_eq_append_trailing N dnew hd).symm
  have hp : isPermOf (List.range dnew ++ sel) N = true := by rw [horder]; exact isPermOf_range N
  have hgr : gather X.shape (List.range dnew) = X.shape.take dnew := gather_leading X.shape dnew hd
  have hgs : gather X.shape sel = X.shape.drop dnew := gather_trailing X.shape dnew hd
  have hil : i.length = dnew := by rw [hi.length_eq, List.length_take]; omega
  unfold Spec.ttv
  rw [← hN, hrem]
  unfold Spec.sumOver
  rw [fiber_sum X.shape (List.range dnew) sel i hp (by rw [hgr]; exact hi), hgs]
  unfold Spec.ttsv Spec.sumOver
  apply sum_congr
  intro j hj
  have hjl : j.length = N - dnew := by rw [(mem_allSubs.1 hj).length_eq, List.length_drop]
  have hijl : (i ++ j).length = N := by rw [List.length_append, hil, hjl]; omega
  rw [horder, invPerm_range, gather_range_of_length hijl]
  congr 1
  unfold Spec.selProd
  rw [hsel]
  unfold trailing
  rw [List.map_map]
  have : j = (List.range (N - dnew)).map fun a => j.getD a 0 := by
    rw [← hjl]
    exact (map_range_getD_self' j).symm
  conv => lhs; rw [this, List.map_map]
  congr 1
  apply List.map_congr_left
  intro a ha
  have ha' := List.mem_range.1 ha
  simp only [Function.comp_apply]
  congr 1
  rw [List.getD_eq_getElem?_getD, List.getD_eq_getElem?_getD, List.getElem?_append_right (by omega), hil]
  congr 2
  omega

end ML
end Pyttb
