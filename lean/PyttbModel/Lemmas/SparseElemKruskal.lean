/-
C03: `sptensor * ktensor` (per component: weight times the gathered factor entries, accumulated).
-/
import PyttbModel.Lemmas.SparseElemArith
import Mathlib.Algebra.BigOperators.Group.List.Basic
import Mathlib.Algebra.BigOperators.Ring.List
import Mathlib.Tactic.Ring
namespace Pyttb
open SpElem
variable {α : Type}

section kruskal
variable [CommSemiring α] [DecidableEq α]

theorem foldl_mul_eq (l : List α) (a : α) : l.foldl (· * ·) a = a * l.prod := by
  induction l generalizing a with
  | nil => simp
  | cons x l ih => rw [List.foldl_cons, ih, List.prod_cons, mul_assoc]

theorem foldl_add_eq {β : Type} (l : List β) (t : β → α) (a : α) :
    l.foldl (fun acc r => acc + t r) a = a + (l.map t).sum := by
  induction l generalizing a with
  | nil => simp
  | cons x l ih => rw [List.foldl_cons, ih, List.map_cons, List.sum_cons, add_assoc]

/-- the value the component loop computes for a stored entry `(j, v)` is `v * K[j]`. -/
theorem mulK_val (K : Ktensor α) (j : List Nat) (v : α) :
    (List.range K.ncomp).foldl (fun acc r =>
        acc + (List.zipWith (fun (F : Mat α) n => Mat.get F n r) K.factors j).foldl (· * ·)
          (K.weights.getD r 0 * v)) 0 = v * K.get j := by
  rw [foldl_add_eq, zero_add]
  unfold Ktensor.get Ktensor.comp
  rw [← List.sum_map_mul_left]
  congr 1
  apply List.map_congr_left
  intro r _
  rw [foldl_mul_eq]
  ring

theorem mulK_spec (A : Sparse α) (hA : A.WF) (K : Ktensor α) (hs : A.shape = K.shape) :
    ∃ R, mulK A K = .ok R ∧ R.WF ∧ R.shape = A.shape ∧ ∀ i, R.get i = A.get i * K.get i := by
  unfold mulK
  simp only [hs, bne_self_eq_false, Bool.false_eq_true, ↓reduceIte]
  split
  · next h0 =>
    have hnil : A.subs = [] := by
      simp only [Sparse.nnz, beq_iff_eq, List.length_eq_zero_iff] at h0; exact h0
    refine ⟨A, rfl, hA, hs, fun i => ?_⟩
    have : i ∉ A.subs := by rw [hnil]; simp
    simp [A.get_of_not_mem i this]
  · refine ⟨_, rfl, ?_⟩
    have hz : A.subs.zip A.vals = A.subs.map (fun j => (j, A.get j)) := A.entries_eq_map_get hA
    rw [hz, List.map_map]
    have : ((fun e : List Nat × α => (List.range K.ncomp).foldl (fun acc r =>
        acc + (List.zipWith (fun (F : Mat α) n => Mat.get F n r) K.factors e.1).foldl (· * ·)
          (K.weights.getD r 0 * e.2)) 0) ∘ fun j => (j, A.get j)) = (fun j => A.get j * K.get j) := by
      funext j
      simp only [Function.comp]
      exact mulK_val K j (A.get j)
    rw [this, ← hs]
    exact keepNonzero_spec A hA (fun j => A.get j * K.get j) (fun i hi => by simp [A.get_of_not_mem i hi])

end kruskal
end Pyttb
