/-
Kruskal tensor (`pyttb.ktensor`): `full`, `permute` (and Tucker `permute`).
Mirrors ktensor.py / ttensor.py.  Import-free.
-/
import PyttbModel.Ops.Dense
namespace Pyttb

variable {α : Type}

/-- Position of the first minimum (`np.argmin`). -/
def argminNat : List Nat → Nat
  | [] => 0
  | x :: xs =>
    let rec go (best bi k : Nat) : List Nat → Nat
      | [] => bi
      | y :: ys => if y < best then go y k (k + 1) ys else go best bi (k + 1) ys
    go x 0 1 xs

/-- `min_split_dims(dims)` inside `ktensor.full`: the split point `1 ≤ i < d` minimising
`prod(dims[:i]) + prod(dims[i:])` (first minimiser). -/
def minSplitDims (dims : List Nat) : Nat :=
  argminNat ((List.range (dims.length - 1)).map fun k =>
    numel (dims.take (k + 1)) + numel (dims.drop (k + 1))) + 1

namespace Ktensor

/-- `ktensor.full()`.  `fixed = false`: the pinned code, which fails for a 1-way tensor
(`argmin` of an empty list); `fixed = true`: the repaired code forms `A₀ · λ` directly. -/
def fullG [Add α] [Mul α] [Zero α] (fixed : Bool) (K : Ktensor α) : Except Reject (Dense α) :=
  let shape := K.shape
  let R := K.ncomp
  if shape.length == 0 then .error .reject
  else if shape.length == 1 then
    if fixed then
      .ok ⟨shape, (K.factors.getD 0 []).map fun row =>
        ((List.zipWith (· * ·) row K.weights)).sum⟩
    else .error .reject
  else
    let i := minSplitDims shape
    match khatrirao (K.factors.take i) true, khatrirao (K.factors.drop i) true with
    | .ok L, .ok Rm =>
      let Lw := L.map fun row => List.zipWith (· * ·) row K.weights
      -- (L * weights) @ Rm.T, laid out first index fastest
      .ok ⟨shape, Rm.flatMap fun rrow => Lw.map fun lrow =>
              ((List.range R).map fun r => lrow.getD r 0 * rrow.getD r 0).sum⟩
    | _, _ => .error .reject

def full [Add α] [Mul α] [Zero α] (K : Ktensor α) := fullG true K

/-- `ktensor.permute(order)`. -/
def permute (K : Ktensor α) (order : List Nat) : Except Reject (Ktensor α) :=
  if !isPermOf order K.factors.length then .error .reject
  else .ok ⟨K.weights, gatherD K.factors order []⟩

end Ktensor

/-- `ttensor.permute(order)`. -/
def Ttensor.permute [Zero α] (T : Ttensor α) (order : List Nat) : Except Reject (Ttensor α) :=
  if !isPermOf order T.factors.length then .error .reject
  else
    match T.core.permute order with
    | .error e => .error e
    | .ok c => .ok ⟨c, gatherD T.factors order []⟩

end Pyttb
