/-
Element-wise entry points of `pyttb.sptensor` whose other operand is a Kruskal (`ktensor`) or
a Tucker (`ttensor`) tensor (sptensor.py `__mul__`, `__rmul__`, `__truediv__`,
`__rtruediv__`; ktensor.py `__mul__` / `__rmul__`, which hand a sparse operand back to
`sptensor.__mul__`), mirrored branch by branch.  `S * K` itself is `SpElem.mulK` in
Ops/SparseElem.lean.  Import-free.

`S / K` as coded:

    epsilon = np.finfo(float).eps
    subs = self.subs;  vals = np.zeros(self.vals.shape)
    for r in range(R):
        tvals = np.ones((vals.size, 1)).dot(other.weights[r])
        for n in range(N):
            tvals = tvals * other.factor_matrices[n][:, r][:, None][subs[:, n]]
        vals += tvals
    return sptensor(self.subs, self.vals / np.maximum(epsilon, vals), self.shape)

so the result has the stored pattern of `S`, and every stored value is divided by
`max(eps, K[j])`, NOT by `K[j]`.  There is no `nnz == 0` shortcut: for an empty operand (whose
subscript array has shape `(1, 0)`) `subs[:, n]` raises.
-/
import PyttbModel.Ops.SparseElem
import PyttbModel.Core.XRat
namespace Pyttb
namespace SpElem

variable {α : Type}

/-- the divisor the component loop accumulates for the stored subscript `j`:
`Σ_r (1 * λ_r) * U₀[j₀, r] * … ` with the products taken left to right. -/
def kentry [Add α] [Mul α] [One α] [Zero α] (K : Ktensor α) (j : List Nat) : α :=
  (List.range K.ncomp).foldl (fun acc r =>
    acc + (List.zipWith (fun (F : Mat α) n => Mat.get F n r) K.factors j).foldl (· * ·)
      (1 * K.weights.getD r 0)) 0

/-- `S / K` for a Kruskal tensor; `eps` is `np.finfo(float).eps`. -/
def divK [Add α] [Mul α] [One α] [Zero α] [Div α] [Max α] (eps : α) (A : Sparse α) (K : Ktensor α) :
    Except Reject (Sparse α) :=
  if A.shape != K.shape then .error .reject
  else if A.nnz == 0 then .error .reject   -- `subs[:, n]` on the (1, 0) subscript array of an empty tensor
  else
    let vals := A.subs.map (kentry K)
    .ok ⟨A.shape, A.subs, List.zipWith (fun x d => x / max eps d) A.vals vals⟩

/-- `K * S` (ktensor.py `__mul__` / `__rmul__`): `other.__mul__(self)`. -/
def kmul [Add α] [Mul α] [One α] [Zero α] [BEq α] (K : Ktensor α) (A : Sparse α) : Except Reject (Sparse α) :=
  mulK A K

/-- `K / S`: Python finds no `ktensor.__truediv__` and calls `sptensor.__rtruediv__`, which
accepts scalars only. -/
def rdivK (_K : Ktensor α) (_A : Sparse α) : Except Reject (Sparse α) := .error .reject

/-- `S * T` for a Tucker tensor: falls through every branch (no shape test) to the final assert. -/
def mulT (_A : Sparse α) (_T : Ttensor α) : Except Reject (Sparse α) := .error .reject

/-- `S / T` for a Tucker tensor: the final assert. -/
def divT (_A : Sparse α) (_T : Ttensor α) : Except Reject (Sparse α) := .error .reject

/-- `T * S`: `ttensor.__mul__` refuses everything that is not a scalar (ValueError), and
`sptensor.__rmul__` would refuse as well. -/
def tmul (_T : Ttensor α) (_A : Sparse α) : Except Reject (Sparse α) := .error .reject

/-- `T / S`: `sptensor.__rtruediv__` accepts scalars only. -/
def rdivT (_T : Ttensor α) (_A : Sparse α) : Except Reject (Sparse α) := .error .reject

end SpElem

/-- `np.maximum` on the extended rationals: a `nan` operand gives `nan`. -/
def XRat.maximum : XRat → XRat → XRat
  | .nan, _ => .nan
  | _, .nan => .nan
  | .pinf, _ => .pinf
  | _, .pinf => .pinf
  | .ninf, b => b
  | a, .ninf => a
  | .fin a, .fin b => if a < b then .fin b else .fin a

instance : Max XRat := ⟨XRat.maximum⟩

/-- a Kruskal tensor with rational entries, read at the extended rationals. -/
def Ktensor.toX (K : Ktensor Rat) : Ktensor XRat :=
  ⟨K.weights.map .fin, K.factors.map fun F => F.map fun row => row.map .fin⟩

/-- `np.finfo(float).eps = 2⁻⁵²`. -/
def floatEps : Rat := 1 / 4503599627370496

end Pyttb
