/-
The remaining public operations of the sparse matricized tensor (`pyttb/sptenmat.py`):
`copy` / `__deepcopy__` / `__pos__`, `__neg__`, `__setitem__`, `double`, `full`, `norm`
(as the sum of squares), `nnz`, `isequal`, `to_sptensor`; and `sptensor.copy` /
`sptensor.__deepcopy__`.  Mirrors the code branch by branch.  Import-free.

Representation: `Sptenmat α` (Ops/Sparse) stores the (row, column) pairs and the values exactly
as the object does; `Sptenmat.mat` is the same data seen as a 2-way sparse tensor whose shape is
the matrix shape, `Sptenmat.get` (Ops/SptenmatGet) the denoted matrix.
-/
import PyttbModel.Core.Key
import PyttbModel.Ops.SptenmatGet
import PyttbModel.Ops.SparseElem
namespace Pyttb

variable {α : Type}

namespace Sptenmat

/-- the stored triples seen as a 2-way sparse tensor of the matrix shape. -/
def mat (M : Sptenmat α) : Sparse α := ⟨M.mshape, M.subs, M.vals⟩

/-! ### copy, `+M`, `-M` -/

/-- `sptenmat.copy()` (also `__deepcopy__`): the constructor with `copy=True` on the
receiver's own components — repeated pairs are summed, zero sums dropped, rows sorted. -/
def copy [Add α] [Zero α] [BEq α] (M : Sptenmat α) : Except Reject (Sptenmat α) :=
  Sptenmat.mkCopy M.subs M.vals M.rdims M.cdims M.tshape

/-- `+M` is `M.copy()`. -/
def pos [Add α] [Zero α] [BEq α] (M : Sptenmat α) : Except Reject (Sptenmat α) := M.copy

/-- `-M`: `result = self.copy(); result.vals *= -1`. -/
def neg [Add α] [Zero α] [BEq α] [Neg α] (M : Sptenmat α) : Except Reject (Sptenmat α) :=
  match M.copy with
  | .error e => .error e
  | .ok R => .ok { R with vals := R.vals.map fun v => -v }

/-! ### scalars and conversions -/

/-- `nnz`: `self.vals.size` (0 for the component-free object, commit 03e0173). -/
def nnz (M : Sptenmat α) : Nat := M.vals.length

/-- `norm()` squared: the sum of the squares of the stored values
(`np.linalg.norm(self.vals)` is its square root). -/
def normSq [Add α] [Mul α] [Zero α] (M : Sptenmat α) : α := (M.vals.map fun v => v * v).sum

/-- `isequal(other)` (after commit 4f6568f): the canonical forms `self.copy()` / `other.copy()`
(triples sorted, repeated pairs summed, zeros dropped) are compared with `np.array_equal`, the
mode split and the tensor shape literally; a receiver or argument that `copy` refuses raises. -/
def isequal [Add α] [Zero α] [BEq α] (M N : Sptenmat α) : Except Reject Bool :=
  match M.copy, N.copy with
  | .ok A, .ok B =>
    .ok (A.vals == B.vals && A.subs == B.subs && M.tshape == N.tshape && M.cdims == N.cdims &&
      M.rdims == N.rdims)
  | _, _ => .error .reject

/-- `double()` observed as a dense matrix (`scipy.sparse.coo_matrix((vals, subs), shape)`:
values stored under one pair are summed); the shape `()` of the component-free object is
refused by SciPy. -/
def double [Add α] [Zero α] (M : Sptenmat α) : Except Reject (Dense α) :=
  if M.tshape.isEmpty then .error .reject
  else .ok (Dense.ofFn M.mshape fun i => M.mat.get i)

/-- `full()`: zeros, then `result[subs] = vals` (the last stored value of a pair wins); the
component-free object (shape `()`) is refused by the `tenmat` constructor. -/
def full? [Zero α] (M : Sptenmat α) : Except Reject (Tenmat α) :=
  if M.tshape.isEmpty then .error .reject else .ok M.full

/-- `to_sptensor()`: the expanded subscripts (`Sptenmat.toSparse`) go through the `sptensor`
constructor, which checks them against the shape. -/
def toSptensor (M : Sptenmat α) : Except Reject (Sparse α) :=
  SpElem.mk? M.toSparse.subs M.toSparse.vals M.tshape

/-! ### `M[rkey, ckey] = value` -/

/-- one element of the two-element key. -/
inductive KeyPart where
  /-- a Python integer -/
  | int (i : Int)
  /-- a list / 1-d array of integers -/
  | list (is : List Int)
  /-- a slice, applied to `np.arange(0, extent)` -/
  | slice (a b c : Option Int)
  deriving Repr, BEq, DecidableEq

/-- the assigned value: a Python number (repeated for every cell) or an array with one entry
per cell (a column, or a 1-d array that the code turns into a column — commit 74ea9de —, read in
order). -/
inductive SetRhs (α : Type) where
  | scalar (v : α)
  | arr (vs : List α)
  deriving Repr, BEq

/-- `rsubs` / `csubs` as integer arrays: a slice selects from `arange(0, extent)`, an integer
becomes a one-element array. -/
def KeyPart.resolve (ext : Nat) : KeyPart → Except Reject (List Int)
  | .int i => .ok [i]
  | .list is => .ok is
  | .slice a b c =>
    match pySlice ext a b c with
    | .ok l => .ok (l.map Int.ofNat)
    | .error e => .error e

/-- the cells in the order of the double loop (`for j in csubs: for i in rsubs:`), which is
also the order in which the values are consumed (`k += 1`). -/
def cellsOf (rs cs : List Nat) : List (List Nat) := cs.flatMap fun c => rs.map fun r => [r, c]

/-- a stored pair `s` is the cell: `subs[:, 1] == c` and `subs[indxc, 0] == r`. -/
def hits (cell s : List Nat) : Bool := s.getD 1 0 == cell.getD 1 0 && s.getD 0 0 == cell.getD 0 0

/-- `newcells` / `newsubs` / `newvals` (commit 50dcb12): a cell that is not stored is appended
once; when the key names it again, the value at its position is replaced (the last one wins). -/
def addNew (new : List (List Nat × α)) (cv : List Nat × α) : List (List Nat × α) :=
  if new.any (fun e => e.1 == cv.1) then new.map fun e => if e.1 == cv.1 then (e.1, cv.2) else e
  else new ++ [cv]

/-- one pass of the loop body.  State: the value column (written in place) and the pairs to
append.  The look-up uses `self.subs`, which does not change inside the loop. -/
def setCell (subs : List (List Nat)) (st : List α × List (List Nat × α)) (cv : List Nat × α) :
    List α × List (List Nat × α) :=
  if subs.any (hits cv.1) then
    -- `self.vals[indx] = value[k]` (every stored position of the pair)
    (List.zipWith (fun s x => if hits cv.1 s then cv.2 else x) subs st.1, st.2)
  else
    (st.1, addNew st.2 cv)

/-- the whole double loop. -/
def setLoop (subs : List (List Nat)) (vals : List α) (cvs : List (List Nat × α)) :
    List α × List (List Nat × α) :=
  cvs.foldl (setCell subs) (vals, [])

/-- `np.lexsort` on (row, column): a stable sort of the stored triples. -/
def sortEntries (es : List (List Nat × α)) : List (List Nat × α) :=
  es.mergeSort fun a b => !lexLt b.1 a.1

/-- The checks of `__setitem__` (they all come before anything is written, commit f262867) and the pairing of cells with values: the key is a 2-tuple; `rsubs` / `csubs` lie
inside the matrix (`self.shape` is `()` for the component-free object: `self.shape[0]`
raises); a Python number is repeated for every cell, an array needs one entry per cell.
Returns the (cell, value) pairs in loop order. -/
def setCells (M : Sptenmat α) (key : List KeyPart) (rhs : SetRhs α) :
    Except Reject (List (List Nat × α)) :=
  match key with
  | [rk, ck] =>
    if M.tshape.isEmpty then .error .reject
    else
      let nr := M.mshape.getD 0 0
      let nc := M.mshape.getD 1 0
      match rk.resolve nr, ck.resolve nc with
      | .ok rs, .ok cs =>
        if rs.any (fun i => decide (i < 0) || decide (i ≥ (nr : Int))) ||
            cs.any (fun i => decide (i < 0) || decide (i ≥ (nc : Int))) then .error .reject
        else
          let cells := cellsOf (rs.map Int.toNat) (cs.map Int.toNat)
          match rhs with
          | .scalar v => .ok (cells.zip (List.replicate cells.length v))
          | .arr vs => if vs.length = cells.length then .ok (cells.zip vs) else .error .reject
      | _, _ => .error .reject
  | _ => .error .reject

/-- The writing part of `__setitem__`: the double loop; then — only when pairs were appended —
`vstack` and the stable `np.lexsort` on (row, column); finally every entry whose value is 0 is
dropped (commit 83ce2cc: assigning zero removes the entry, also when only stored pairs were
overwritten). -/
def setApply [Zero α] [BEq α] (M : Sptenmat α) (cvs : List (List Nat × α)) : Sptenmat α :=
  let st := setLoop M.subs M.vals cvs
  let es := if st.2.isEmpty then M.subs.zip st.1 else sortEntries (M.subs.zip st.1 ++ st.2)
  let kept := es.filter fun e => !(e.2 == 0)
  { M with subs := kept.map (·.1), vals := kept.map (·.2) }

/-- `sptenmat.__setitem__(key, value)`. -/
def setitem [Zero α] [BEq α] (M : Sptenmat α) (key : List KeyPart) (rhs : SetRhs α) :
    Except Reject (Sptenmat α) :=
  match M.setCells key rhs with
  | .error e => .error e
  | .ok cvs => .ok (M.setApply cvs)

end Sptenmat

/-! ### `sptensor.copy()` / `__deepcopy__` -/

/-- `sptensor.copy()`: `ttb.sptensor(self.subs, self.vals, self.shape, copy=True)` — the
plain constructor on the receiver's own components. -/
def Sparse.copy (S : Sparse α) : Except Reject (Sparse α) := SpElem.mk? S.subs S.vals S.shape

end Pyttb
