/-
C01, second batch: what the matricized classes report (`shape`, `ndims`, `nnz`), the `tenmat`
constructor, `double()` / `to_tensor()` of every class, `ktensor.to_tenmat`, and chains of
conversions between the seven holder classes.  Mirrors tensor.py / sptensor.py / ktensor.py /
ttensor.py / sumtensor.py / tenmat.py / sptenmat.py branch by branch.  Import-free.
-/
import PyttbModel.Ops.Sparse
import PyttbModel.Ops.Kruskal
import PyttbModel.Ops.MultilinearKT
import PyttbModel.Ops.SptenmatOps
namespace Pyttb

variable {α : Type}

/-! ### reported properties -/

/-- `tenmat.shape`: `()` when the matrix holds no cell, else the shape of the matrix. -/
def Tenmat.shapeProp (M : Tenmat α) : List Nat :=
  if numel M.data.shape == 0 then [] else M.data.shape

/-- `tenmat.ndims`: `len(self.shape)`. -/
def Tenmat.ndims (M : Tenmat α) : Nat := M.shapeProp.length

/-- `sptenmat.shape`: `()` for the component-free object, else
`(prod tshape[rdims], prod tshape[cdims])`. -/
def Sptenmat.shapeProp (M : Sptenmat α) : List Nat :=
  if M.tshape.isEmpty then [] else M.mshape

/-! ### the `tenmat` constructor -/

/-- The first branches of the `tenmat` constructor: which matrix the data is.  `none` = the
component-free branch applies (no cell); otherwise the matrix (a vector needs `tshape` and
becomes a `1 × n` row, flagged `was_1d`), or a refusal (anything but a vector / matrix). -/
def Tenmat.dataMatrix (data : Dense α) (tshape : Option (List Nat)) : Except Reject (Dense α × Bool) :=
  match data.shape with
  | [n] => match tshape with
    | none => .error .reject
    | some _ => .ok (⟨[1, n], data.data⟩, true)
  | [_, _] => .ok (data, false)
  | _ => .error .reject

/-- The rest of the `tenmat` constructor (commit 8a75720) once the matrix `d` is known:
* `tshape` defaults to the shape of the matrix; the cell counts of matrix and tensor must agree;
* `gather_wrap_dims` (no cyclic convention here; both sides missing is refused);
* `np.array(tshape)[rdims]` / `[cdims]` refuse a mode `≥ len(tshape)`;
* `mshape = (prod tshape[rdims], prod tshape[cdims])`; 1-d data whose size fits is reshaped
  (first index fastest) to `mshape`; a matrix of any other shape is refused;
* `rdims ++ cdims` must be a permutation of the modes. -/
def Tenmat.mkCore (d : Dense α) (was1d : Bool) (rdims cdims tshape : Option (List Nat)) :
    Except Reject (Tenmat α) :=
  let ts := tshape.getD d.shape
  if numel d.shape != numel ts then .error .reject
  else
    let n := ts.length
    match gatherWrapDims n rdims cdims none with
    | .error e => .error e
    | .ok (r, c) =>
      if !(r.all (· < n)) || !(c.all (· < n)) then .error .reject
      else
        let mshape := [numel (gather ts r), numel (gather ts c)]
        let d' : Dense α := if was1d && numel mshape == numel d.shape then ⟨mshape, d.data⟩ else d
        if d'.shape != mshape then .error .reject
        else if !isPermOf (r ++ c) n then .error .reject
        else .ok ⟨ts, r, c, d'⟩

/-- `tenmat(data, rdims, cdims, tshape)` for an `ndarray` `data` (given by its shape and its
entries first index fastest): no cell — everything else must be empty too and the
component-free object results; otherwise `Tenmat.dataMatrix` then `Tenmat.mkCore`. -/
def Tenmat.mk? (data : Dense α) (rdims cdims tshape : Option (List Nat)) : Except Reject (Tenmat α) :=
  if numel data.shape == 0 then
    let rEmpty := match rdims with | none => true | some r => r.isEmpty
    let cEmpty := match cdims with | none => true | some c => c.isEmpty
    let tEmpty := match tshape with | none => true | some t => t.isEmpty
    if rEmpty && cEmpty && tEmpty then .ok ⟨[], [], [], ⟨[1, 0], []⟩⟩ else .error .reject
  else
    match Tenmat.dataMatrix data tshape with
    | .error e => .error e
    | .ok (d, was1d) => Tenmat.mkCore d was1d rdims cdims tshape

/-- An explicit copy of the constructor's test BEFORE commit 8a75720: the only test relating the
matrix to the split compared the PRODUCT of the two side sizes with the cell count (kept for the
pinned counterexample only). -/
def Tenmat.mkCorePinned (d : Dense α) (rdims cdims tshape : Option (List Nat)) : Except Reject (Tenmat α) :=
  let ts := tshape.getD d.shape
  if numel d.shape != numel ts then .error .reject
  else
    let n := ts.length
    match gatherWrapDims n rdims cdims none with
    | .error e => .error e
    | .ok (r, c) =>
      if !(r.all (· < n)) || !(c.all (· < n)) then .error .reject
      else if numel (gather ts r) * numel (gather ts c) != numel d.shape then .error .reject
      else if !isPermOf (r ++ c) n then .error .reject
      else .ok ⟨ts, r, c, d⟩

/-! ### `double()` and `to_tensor()` of every class -/

/-- `tensor.double()`: `self.data.astype(float64, copy=True)` — the same array. -/
def Dense.double (T : Dense α) : Dense α := ⟨T.shape, T.data⟩

/-- `tensor.full()`: `ttb.tensor(self.data)` — a copy. -/
def Dense.fullCopy (T : Dense α) : Dense α := ⟨T.shape, T.data⟩

/-- Sequential writes `d[k] = v` (NumPy fancy-index assignment: a later write to the same
cell wins). -/
def scatterLin (d : List α) (es : List (Nat × α)) : List α := es.foldl (fun d e => d.set e.1 e.2) d

/-- `sptensor.double()`: `a = zeros(shape)`, and when something is stored
`a[tuple(subs.T)] = vals` — a direct scatter by subscript (no linear indices, no dense setter);
NumPy refuses a subscript outside the array and a value count that differs from the
subscript count. -/
def Sparse.double [Zero α] (S : Sparse α) : Except Reject (Dense α) :=
  let zeros := List.replicate (numel S.shape) (0 : α)
  if S.subs.isEmpty then .ok ⟨S.shape, zeros⟩
  else if S.subs.length != S.vals.length then .error .reject
  else if !(S.subs.all (inBounds S.shape)) then .error .reject
  else .ok ⟨S.shape, scatterLin zeros (S.entries.map fun e => (sub2ind S.shape e.1, e.2))⟩

/-- `sptensor.to_tensor()`: `return self.full()`. -/
def Sparse.toTensor [Zero α] (S : Sparse α) : Dense α := S.full

/-- `ktensor.to_tensor()`: `return self.full()`. -/
def Ktensor.toTensor [Add α] [Mul α] [Zero α] (K : Ktensor α) : Except Reject (Dense α) := K.full

/-- `ktensor.double()`: `return self.full().double()`. -/
def Ktensor.double [Add α] [Mul α] [Zero α] (K : Ktensor α) : Except Reject (Dense α) :=
  match K.full with
  | .error e => .error e
  | .ok D => .ok D.double

/-- `ttensor.to_tensor()`: `return self.full()`. -/
def Ttensor.toTensor [Add α] [Mul α] [Zero α] (T : Ttensor α) : Except Reject (Dense α) := T.full

/-- `ttensor.double()`: `return self.full().double()`. -/
def Ttensor.double [Add α] [Mul α] [Zero α] (T : Ttensor α) : Except Reject (Dense α) :=
  match T.full with
  | .error e => .error e
  | .ok D => .ok D.double

/-- `sumtensor.to_tensor()`: `return self.full()`. -/
def ML.Sumtensor.toTensor [Add α] [Mul α] [Zero α] (S : ML.Sumtensor α) : Except Reject (Dense α) :=
  ML.Sumtensor.full S

/-- `sumtensor.double()`: `return self.full().double()`. -/
def ML.Sumtensor.double [Add α] [Mul α] [Zero α] (S : ML.Sumtensor α) : Except Reject (Dense α) :=
  match ML.Sumtensor.full S with
  | .error e => .error e
  | .ok D => .ok D.double

/-- `tenmat.double()`: a copy of the matrix. -/
def Tenmat.double (M : Tenmat α) : Dense α := ⟨M.data.shape, M.data.data⟩

/-! (`sptenmat.double()` — the SciPy COO matrix seen as a dense matrix — is `Sptenmat.double` of
Ops/SptenmatOps; `sptenmat.full()` is `Sptenmat.full` of Ops/Sparse.) -/

/-! ### `ktensor.to_tenmat` -/

/-- `ktensor.to_tenmat(rdims, cdims, cdims_cyclic)`:
`return self.full().to_tenmat(rdims, cdims, cdims_cyclic, copy)`. -/
def Ktensor.toTenmat [Add α] [Mul α] [Zero α] (K : Ktensor α) (rdims cdims : Option (List Nat))
    (cyc : Option Cyclic) : Except Reject (Tenmat α) :=
  match K.full with
  | .error e => .error e
  | .ok D => D.toTenmat rdims cdims cyc

/-! ### chains of conversions -/

/-- An object of one of the seven classes. -/
inductive Holder (α : Type) where
  | dense (T : Dense α)
  | sparse (S : Sparse α)
  | kruskal (K : Ktensor α)
  | tucker (T : Ttensor α)
  | sum (P : ML.Sumtensor α)
  | tenmat (M : Tenmat α)
  | sptenmat (M : Sptenmat α)
  deriving Repr, BEq, DecidableEq

/-- The class of a holder. -/
inductive HKind where
  | dense | sparse | kruskal | tucker | sum | tenmat | sptenmat
  deriving Repr, BEq, DecidableEq

def Holder.kind : Holder α → HKind
  | .dense _ => .dense
  | .sparse _ => .sparse
  | .kruskal _ => .kruskal
  | .tucker _ => .tucker
  | .sum _ => .sum
  | .tenmat _ => .tenmat
  | .sptenmat _ => .sptenmat

/-- The tensor shape of a holder. -/
def Holder.shape : Holder α → List Nat
  | .dense T => T.shape
  | .sparse S => S.shape
  | .kruskal K => K.shape
  | .tucker T => T.shape
  | .sum P => (P.headD (.dense ⟨[], []⟩)).shape
  | .tenmat M => M.tshape
  | .sptenmat M => M.tshape

/-- One conversion method call. -/
inductive Conv where
  /-- `X.full()` -/
  | full
  /-- `X.to_tensor()` -/
  | toTensor
  /-- `X.to_sptensor()` -/
  | toSptensor
  /-- `X.to_tenmat(rdims, cdims, cdims_cyclic)` -/
  | toTenmat (rdims cdims : Option (List Nat)) (cyc : Option Cyclic)
  /-- `X.to_sptenmat(rdims, cdims, cdims_cyclic)` -/
  | toSptenmat (rdims cdims : Option (List Nat)) (cyc : Option Cyclic)
  deriving Repr, BEq, DecidableEq

def liftDense (r : Except Reject (Dense α)) : Except Reject (Holder α) :=
  match r with
  | .error e => .error e
  | .ok D => .ok (.dense D)

def liftTenmat (r : Except Reject (Tenmat α)) : Except Reject (Holder α) :=
  match r with
  | .error e => .error e
  | .ok M => .ok (.tenmat M)

def liftSptenmat (r : Except Reject (Sptenmat α)) : Except Reject (Holder α) :=
  match r with
  | .error e => .error e
  | .ok M => .ok (.sptenmat M)

/-- Apply one conversion; a method the class does not have is an `AttributeError`
(`tensor.to_tensor`, `tenmat.full`, `sptenmat.to_tensor`, `to_sptensor` of anything but a
dense tensor or a sparse matricization, `to_tenmat` of anything but a dense or Kruskal tensor,
`to_sptenmat` of anything but a sparse tensor). -/
def Conv.apply [Add α] [Mul α] [Zero α] [BEq α] : Conv → Holder α → Except Reject (Holder α)
  | .full, .dense T => .ok (.dense T.fullCopy)
  | .full, .sparse S => .ok (.dense S.full)
  | .full, .kruskal K => liftDense K.full
  | .full, .tucker T => liftDense T.full
  | .full, .sum P => liftDense (ML.Sumtensor.full P)
  | .full, .sptenmat M => .ok (.tenmat M.full)
  | .full, .tenmat _ => .error .reject
  | .toTensor, .sparse S => .ok (.dense S.toTensor)
  | .toTensor, .kruskal K => liftDense K.toTensor
  | .toTensor, .tucker T => liftDense T.toTensor
  | .toTensor, .sum P => liftDense (ML.Sumtensor.toTensor P)
  | .toTensor, .tenmat M => .ok (.dense M.toTensor)
  | .toTensor, .dense _ => .error .reject
  | .toTensor, .sptenmat _ => .error .reject
  | .toSptensor, .dense T => .ok (.sparse T.toSparse)
  | .toSptensor, .sptenmat M => .ok (.sparse M.toSparse)
  | .toSptensor, _ => .error .reject
  | .toTenmat r c cyc, .dense T => liftTenmat (T.toTenmat r c cyc)
  | .toTenmat r c cyc, .kruskal K => liftTenmat (K.toTenmat r c cyc)
  | .toTenmat _ _ _, _ => .error .reject
  | .toSptenmat r c cyc, .sparse S => liftSptenmat (S.toSptenmat r c cyc)
  | .toSptenmat _ _ _, _ => .error .reject

/-- Run a chain of conversions, left to right; the first refusal ends it. -/
def runChain [Add α] [Mul α] [Zero α] [BEq α] : List Conv → Holder α → Except Reject (Holder α)
  | [], h => .ok h
  | c :: cs, h =>
    match c.apply h with
    | .error e => .error e
    | .ok h' => runChain cs h'

/-- The class a conversion produces from a class (`none`: the class has no such method). -/
def Conv.target : Conv → HKind → Option HKind
  | .full, .tenmat => none
  | .full, .sptenmat => some .tenmat
  | .full, _ => some .dense
  | .toTensor, .dense => none
  | .toTensor, .sptenmat => none
  | .toTensor, _ => some .dense
  | .toSptensor, .dense => some .sparse
  | .toSptensor, .sptenmat => some .sparse
  | .toSptensor, _ => none
  | .toTenmat _ _ _, .dense => some .tenmat
  | .toTenmat _ _ _, .kruskal => some .tenmat
  | .toTenmat _ _ _, _ => none
  | .toSptenmat _ _ _, .sparse => some .sptenmat
  | .toSptenmat _ _ _, _ => none

/-- The mode split named by `(rdims, cdims, cdims_cyclic)` is acceptable for an `n`-way tensor:
the listed modes are below `n` (only `to_tenmat` tests that itself), `gather_wrap_dims` yields
a pair, and its concatenation is a permutation of the modes. -/
def splitValid (n : Nat) (rdims cdims : Option (List Nat)) (cyc : Option Cyclic) : Bool :=
  (match rdims with | none => true | some l => l.all (· < n)) &&
  (match cdims with | none => true | some l => l.all (· < n)) &&
  (match gatherWrapDims n rdims cdims cyc with
   | .ok (r, c) => isPermOf (r ++ c) n
   | .error _ => false)

/-- The arguments of a conversion are acceptable for an `n`-way operand. -/
def Conv.argsValid (n : Nat) : Conv → Bool
  | .toTenmat r c cyc => splitValid n r c cyc
  | .toSptenmat r c cyc => splitValid n r c cyc
  | _ => true

/-- A chain is well-typed from class `k` on an `n`-way operand: every method exists on the
class it is called on and every mode split is acceptable. -/
def chainValid (n : Nat) : List Conv → HKind → Bool
  | [], _ => true
  | c :: cs, k =>
    match c.target k with
    | none => false
    | some k' => c.argsValid n && chainValid n cs k'

/-- `X.double()` of any holder, by class. -/
def Holder.double [Add α] [Mul α] [Zero α] : Holder α → Except Reject (Dense α)
  | .dense T => .ok T.double
  | .sparse S => S.double
  | .kruskal K => K.double
  | .tucker T => T.double
  | .sum P => ML.Sumtensor.double P
  | .tenmat M => .ok M.double
  | .sptenmat M => M.double

/-- The matrix of `(khatrirao(A[r], reverse) * λ) @ khatrirao(A[c], reverse).T` as a 2-way
array (first index fastest) — the Khatri-Rao form of the Kruskal matricization (specification
side; the code goes through `full()`). -/
def Ktensor.krTenmat [Add α] [Mul α] [Zero α] (K : Ktensor α) (r c : List Nat) : Except Reject (Dense α) :=
  match khatrirao (gatherD K.factors r []) true, khatrirao (gatherD K.factors c []) true with
  | .ok L, .ok Rm =>
    .ok ⟨[L.length, Rm.length], Rm.flatMap fun rrow => L.map fun lrow =>
      ((List.range K.ncomp).map fun q => K.weights.getD q 0 * (lrow.getD q 0 * rrow.getD q 0)).sum⟩
  | _, _ => .error .reject

end Pyttb
