/-
Histories of reads and writes on a dense / sparse tensor: one step applies
`__setitem__` / `__getitem__`; an operation the class rejects leaves the object as it
was (the harness restores a snapshot after a rejected call).  Import-free.
-/
import PyttbModel.Ops.Index
import PyttbModel.Ops.IndexSparse
namespace Pyttb

variable {α : Type}

namespace Dense

def step [Zero α] (T : Dense α) : IdxOp α → Dense α × StepOut α
  | .write k r => match T.setItem k r with
    | .ok T' => (T', .written)
    | .error _ => (T, .rejected)
  | .read k => match T.getItem k with
    | .ok v => (T, .value v)
    | .error _ => (T, .rejected)

def run [Zero α] (T : Dense α) : List (IdxOp α) → Dense α × List (StepOut α)
  | [] => (T, [])
  | op :: ops =>
    let r := T.step op
    let rs := r.1.run ops
    (rs.1, r.2 :: rs.2)

end Dense

/-- A sparse read result as the array it denotes. -/
def SpReadOut.toReadOut [Zero α] : SpReadOut α → ReadOut α
  | .scalar v => .scalar v
  | .vec vs => .vec vs
  | .tensor S => .tensor S.full

namespace Sparse

def step [Zero α] [BEq α] (S : Sparse α) : IdxOp α → Sparse α × StepOut α
  | .write k r => match S.setItem k r with
    | .ok S' => (S', .written)
    | .error _ => (S, .rejected)
  | .read k => match S.getItem k with
    | .ok v => (S, .value v.toReadOut)
    | .error _ => (S, .rejected)

def run [Zero α] [BEq α] (S : Sparse α) : List (IdxOp α) → Sparse α × List (StepOut α)
  | [] => (S, [])
  | op :: ops =>
    let r := S.step op
    let rs := r.1.run ops
    (rs.1, r.2 :: rs.2)

end Sparse
end Pyttb
