/-
C02 — sparse kernels of `pyttb/sptensor.py`: `ttv ttm mttkrp innerprod norm contract collapse
scale`, branch by branch (value scaling by gathered entries, accumulation, the 50 % densify
switch, empty and scalar results).  Import-free.
-/
import PyttbModel.Ops.Sparse
import PyttbModel.Ops.MultilinearDense
namespace Pyttb

variable {α : Type}

namespace ML

/-- `accumarray(idx, vals, size, func)`: entry `k` is `func` of the values filed under `k`
(stored order), `0` for an empty group. -/
def accumarray [Zero α] (idx : List Nat) (vals : List α) (size : Nat) (f : List α → α) : List α :=
  (List.range size).map fun k =>
    let g := ((idx.zip vals).filter (fun e => e.1 == k)).map (·.2)
    if g.isEmpty then 0 else f g

/-- `sptensor.from_aggregator(subs, vals, shape, func)`: one entry per distinct subscript row
(lexicographic order), `func` of the values stored under it, zero results dropped. -/
def fromAggregator [Zero α] [BEq α] (subs : List (List Nat)) (vals : List α) (shape : List Nat)
    (f : List α → α) : Sparse α :=
  let agg := (uniqueRowsSorted subs).map fun r => (r, f (((subs.zip vals).filter (fun e => e.1 == r)).map (·.2)))
  let nz := agg.filter fun e => !(e.2 == 0)
  ⟨shape, nz.map (·.1), nz.map (·.2)⟩

end ML

namespace Sparse

/-- `S[subs]` for one subscript (`extract`): the value of the last stored match, else 0. -/
def lookup [Zero α] (S : Sparse α) (i : List Nat) : α :=
  match (S.entries.reverse).find? (fun e => e.1 == i) with
  | some e => e.2
  | none => 0

/-- `sptensor.ttv` after `tt_dimscheck`. -/
def ttvCore [Add α] [Mul α] [Zero α] [BEq α] (S : Sparse α) (pairs : List (Nat × List α)) :
    Except Reject (ML.Res α) :=
  let N := S.shape.length
  let sdims := pairs.map (·.1)
  if pairs.any (fun p => p.2.length != S.shape.getD p.1 0) then .error .reject
  else if sdims.eraseDups.length != sdims.length then .error .reject
  else
    let rem := complDims N sdims
    -- multiply each value by the gathered vector entries, mode after mode
    let newvals := (S.subs.zip S.vals).map fun e =>
      pairs.foldl (fun v p => v * p.2.getD (e.1.getD p.1 0) 0) e.2
    let newsubs := S.subs.map fun r => gather r rem
    if rem.isEmpty then .ok (.scalar newvals.sum)
    else
      let newsiz := gather S.shape rem
      if rem.length == 1 then
        if newvals.isEmpty then .ok (.sparse ⟨newsiz, [], []⟩)
        else
          let n0 := newsiz.getD 0 0
          let c := ML.accumarray (newsubs.map (·.getD 0 0)) newvals n0 List.sum
          let cnt := (c.filter fun v => !(v == 0)).length
          if 2 * cnt ≤ n0 then
            .ok (.sparse (ML.fromAggregator ((List.range n0).map fun k => [k]) c newsiz List.sum))
          else .ok (.dense ⟨newsiz, c⟩)
      else
        let c := ML.fromAggregator newsubs newvals newsiz List.sum
        if 2 * c.nnz > numel newsiz then .ok (.dense c.full) else .ok (.sparse c)

def ttv [Add α] [Mul α] [Zero α] [BEq α] (S : Sparse α) (vs : List (List α)) (dims excl : Option (List Int)) :
    Except Reject (ML.Res α) :=
  match resolveModes S.shape.length vs dims excl with
  | .error e => .error e
  | .ok pairs => S.ttvCore pairs

/-- `sptenmat.from_array(Z, rdims, cdims, tshape)` for a dense matrix: its non-zero cells
(row-major scan of `np.nonzero`). -/
def _root_.Pyttb.Sptenmat.fromArray [Zero α] [BEq α] (Z : Mat α) (m n : Nat) (rdims cdims tshape : List Nat) :
    Sptenmat α :=
  let cells := (List.range m).flatMap fun a => (List.range n).filterMap fun b =>
    let v := Z.get a b
    if v == 0 then none else some ([a, b], v)
  ⟨tshape, rdims, cdims, cells.map (·.1), cells.map (·.2)⟩

/-- `sptensor.ttm(matrix, n, transpose)` with an `ndarray`: the product of the sparse
matricization with a dense matrix is dense, so the result is always a dense tensor. -/
def ttmMode [Add α] [Mul α] [Zero α] [BEq α] (S : Sparse α) (M : Mat α) (p q : Nat) (n : Nat) (tr : Bool) :
    Except Reject (Dense α) :=
  let N := S.shape.length
  -- flip when transposed
  let Me := if tr then M.tr p q else M
  let (pe, qe) := if tr then (q, p) else (p, q)
  if n ≥ N then .error .reject
  else if S.shape.getD n 0 != qe then .error .reject
  else
    let siz := S.shape.set n pe
    match S.toSptenmat (some [n]) none (some .t) with
    | .error e => .error e
    | .ok Xnt =>
      let rows := numel (gather S.shape Xnt.rdims)
      -- Z = Xnt.double() @ Me.T : (rows × qe) · (qe × pe)
      let Xd : Mat α := (List.range rows).map fun a => (List.range qe).map fun c =>
        Sparse.get ⟨[rows, qe], Xnt.subs, Xnt.vals⟩ [a, c]
      let Z := Xd.mulD (Me.tr pe qe) rows qe pe
      .ok (Sptenmat.fromArray Z rows pe Xnt.rdims Xnt.cdims siz).toSparse.full

def ttmList [Add α] [Mul α] [Zero α] [BEq α] (S : Sparse α) (pairs : List (Nat × Dense.MatArg α)) (tr : Bool) :
    Except Reject (Dense α) :=
  match pairs with
  | [] => .error .reject
  | p :: rest =>
    match S.ttmMode p.2.rows p.2.m p.2.n p.1 tr with
    | .error e => .error e
    | .ok Y => Y.ttmList rest tr

def ttm [Add α] [Mul α] [Zero α] [BEq α] (S : Sparse α) (Ms : List (Dense.MatArg α)) (dims excl : Option (List Int))
    (tr : Bool) : Except Reject (Dense α) :=
  match resolveModes S.shape.length Ms dims excl with
  | .error e => .error e
  | .ok pairs => S.ttmList pairs tr

/-- A result of `ttv` as the column `ttv.double()` stores into `V[:, r]`. -/
def _root_.Pyttb.ML.Res.toColumn [Add α] [Zero α] (r : ML.Res α) (len : Nat) : List α :=
  match r with
  | .scalar v => List.replicate len v
  | r => (List.range len).map fun k => r.get [k]

/-- Column `r` of `sptensor.mttkrp`: a `ttv` with column `r` of every factor but the `n`-th. -/
def mttkrpCol [Add α] [Mul α] [Zero α] [BEq α] (S : Sparse α) (fs : List (Mat α)) (n r : Nat) :
    Except Reject (List α) :=
  let Z : List (List α) := (List.range S.shape.length).map fun i =>
    if i != n then (fs.getD i []).map (fun row => row.getD r 0) else []
  match S.ttv Z none (some [Int.ofNat n]) with
  | .error e => .error e
  | .ok res => .ok (res.toColumn (S.shape.getD n 0))

/-- `sptensor.mttkrp(U, n)`: the mode and the factor shapes `(shape[i], R)` are validated up
front, then one `ttv` with all but mode `n` per column. -/
def mttkrp [Add α] [Mul α] [Zero α] [BEq α] (S : Sparse α) (U : KOperand α) (n : Nat) : Except Reject (Mat α) :=
  let N := S.shape.length
  if n ≥ N then .error .reject else
  match getMttkrpFactors U n N with
  | .error e => .error e
  | .ok fs =>
    if N < 2 then .error .reject else
    let R := if n == 0 then (fs.getD 1 []).ncols else (fs.getD 0 []).ncols
    if (List.range N).any (fun i => i != n && !(fs.getD i []).isShape (S.shape.getD i 0) R) then .error .reject else
    match (List.range R).mapM (S.mttkrpCol fs n) with
    | .error e => .error e
    | .ok cs => .ok ((List.range (S.shape.getD n 0)).map fun i => cs.map fun c => c.getD i 0)

/-- `sptensor.innerprod(sptensor)` (shapes are compared before the no-nonzeros shortcut). -/
def innerprodSparse [Add α] [Mul α] [Zero α] (S O : Sparse α) : Except Reject α :=
  if S.shape != O.shape then .error .reject
  else if S.nnz == 0 then .ok 0
  else if O.nnz == 0 then .ok 0
  else if S.nnz < O.nnz then
    .ok ((S.subs.zip S.vals).map fun e => O.lookup e.1 * e.2).sum
  else
    .ok ((O.subs.zip O.vals).map fun e => e.2 * S.lookup e.1).sum

/-- `sptensor.innerprod(tensor)` (after the fix for a single stored entry). -/
def innerprodDense [Add α] [Mul α] [Zero α] (S : Sparse α) (D : Dense α) : Except Reject α :=
  if S.shape != D.shape then .error .reject
  else if S.nnz == 0 then .ok 0
  else .ok ((S.subs.zip S.vals).map fun e => D.get e.1 * e.2).sum

/-- Square of `sptensor.norm()`. -/
def normSq [Add α] [Mul α] [Zero α] (S : Sparse α) : α := (S.vals.map fun x => x * x).sum

/-- `sptensor.contract(i0, i1)` (after the fix for a tensor without stored entries). -/
def contract [Add α] [Zero α] [BEq α] (S : Sparse α) (i0 i1 : Nat) : Except Reject (ML.Res α) :=
  let N := S.shape.length
  if i0 ≥ N || i1 ≥ N then .error .reject
  else if S.shape.getD i0 0 != S.shape.getD i1 0 then .error .reject
  else if i0 == i1 then .error .reject
  else
    let rem := complDims N [i0, i1]
    let newsize := gather S.shape rem
    if S.nnz == 0 then
      if N == 2 then .ok (.scalar 0) else .ok (.sparse ⟨newsize, [], []⟩)
    else if N == 2 then
      .ok (.scalar (((S.subs.zip S.vals).filter fun e => e.1.getD 0 0 == e.1.getD 1 0).map (·.2)).sum)
    else
      let diag := (S.subs.zip S.vals).filter fun e => e.1.getD i0 0 == e.1.getD i1 0
      let y := ML.fromAggregator (diag.map fun e => gather e.1 rem) (diag.map (·.2)) newsize List.sum
      if 2 * y.nnz > numel newsize then .ok (.dense y.full) else .ok (.sparse y)

/-- `sptensor.collapse(dims, fun)` (after the fix for collapsing an empty tensor completely). -/
def collapse [Zero α] [BEq α] (S : Sparse α) (dims : Option (List Int)) (f : List α → α) :
    Except Reject (ML.Res α) :=
  let N := S.shape.length
  match resolveDims N dims with
  | .error e => .error e
  | .ok sdims =>
    let rem := complDims N sdims
    if rem.isEmpty then .ok (.scalar (f S.vals))
    else
      let newsize := gather S.shape rem
      if rem.length == 1 then
        if S.subs.isEmpty then .ok (.vec (List.replicate (newsize.getD 0 0) 0))
        else .ok (.vec (ML.accumarray (S.subs.map fun r => r.getD (rem.getD 0 0) 0) S.vals (newsize.getD 0 0) f))
      else if S.subs.isEmpty then .ok (.sparse ⟨newsize, [], []⟩)
      else .ok (.sparse (ML.fromAggregator (S.subs.map fun r => gather r rem) S.vals newsize f))

/-- The factor of `sptensor.scale`. -/
inductive ScaleFactor (α : Type) where
  | dense (F : Dense α)
  | sparse (F : Sparse α)
  | array (v : List α)
  deriving Repr, BEq, DecidableEq

/-- The stored entries scaled by a per-cell factor, zero products dropped
(`vals = self.vals * …; nz = np.flatnonzero(vals); sptensor(subs[nz], vals[nz], shape)`). -/
def scaleWith [Mul α] [Zero α] [BEq α] (S : Sparse α) (f : List Nat → α) : Sparse α :=
  let ev := (S.subs.zip S.vals).map fun e => (e.1, e.2 * f e.1)
  let nz := ev.filter fun e => !(e.2 == 0)
  ⟨S.shape, nz.map (·.1), nz.map (·.2)⟩

/-- `sptensor.scale(factor, dims)` (after the fixes for no / one stored entry and for explicit
zeros: products that vanish are not stored). -/
def scale [Add α] [Mul α] [Zero α] [BEq α] (S : Sparse α) (F : ScaleFactor α) (dims : List Int) :
    Except Reject (Sparse α) :=
  let N := S.shape.length
  match resolveDims N (some dims) with
  | .error e => .error e
  | .ok sdims =>
    let want := gather S.shape sdims
    match F with
    | .dense F =>
      if F.shape != want then .error .reject
      else .ok (S.scaleWith fun k => F.get (gather k sdims))
    | .sparse F =>
      if F.shape != want then .error .reject
      else .ok (S.scaleWith fun k => F.lookup (gather k sdims))
    | .array v =>
      -- a plain array must be a vector of the length of the single selected mode
      if sdims.length != 1 then .error .reject
      else if [v.length] != want then .error .reject
      else .ok (S.scaleWith fun k => v.getD (k.getD (sdims.getD 0 0) 0) 0)

end Sparse
end Pyttb
