/-
C02 — Tucker tensors whose core is an `sptensor` (`pyttb/ttensor.py` with `core` sparse):
`innerprod` (with a dense tensor, a sparse tensor, a Kruskal tensor, a Tucker tensor of either core
kind), `norm`, `mttkrp`.  The code is the one of the dense-core case; what changes is the kernel every
call on the core dispatches to: `sptensor.ttm` (dense result), `sptensor.innerprod(tensor)` (reached
from `tensor.innerprod(sptensor)`, which reverses its arguments), `sptensor.ttv`, `sptensor.mttkrp`.
Import-free.
-/
import PyttbModel.Ops.MultilinearKT
namespace Pyttb

variable {α : Type}

namespace TtensorS

/-- `ttensor.shape`: the row counts of the factor matrices. -/
def shape (T : TtensorS α) : List Nat := T.factors.map List.length

/-- `ttensor.innerprod(tensor)` with a sparse core: through `full()` (sparse `ttm`) when the tensor is
smaller than the core, otherwise `Z = other.ttm(factors, transpose=True)` and `Z.innerprod(core)`,
which hands over to `core.innerprod(Z)` (sparse · dense). -/
def innerprodDense [Add α] [Mul α] [Zero α] [BEq α] (T : TtensorS α) (D : Dense α) : Except Reject α :=
  if T.shape != D.shape then .error .reject
  else if numel T.shape < numel T.core.shape then
    match T.full with
    | .error e => .error e
    | .ok Z => Z.innerprod D
  else
    match D.ttm (T.factors.map fun U => ⟨U, U.length, U.ncols⟩) none none true with
    | .error e => .error e
    | .ok Z => T.core.innerprodDense Z

/-- `ttensor.innerprod(sptensor)` with a sparse core. -/
def innerprodSparse [Add α] [Mul α] [Zero α] [BEq α] (T : TtensorS α) (S : Sparse α) : Except Reject α :=
  if T.shape != S.shape then .error .reject
  else if numel T.shape < numel T.core.shape then
    match T.full with
    | .error e => .error e
    | .ok Z => S.innerprodDense Z          -- `Z.innerprod(other)` → `other.innerprod(Z)`
  else
    match S.ttm (T.factors.map fun U => ⟨U, U.length, U.ncols⟩) none none true with
    | .error e => .error e
    | .ok Z => T.core.innerprodDense Z     -- `Z.innerprod(core)` → `core.innerprod(Z)`

/-- `ttensor.innerprod(ktensor)` = `ktensor.innerprod(ttensor)`: one full `ttv` (sparse kernel on the
core, scalar result) per component, weighted and added. -/
def innerprodKruskal [Add α] [Mul α] [Zero α] [BEq α] (T : TtensorS α) (K : Ktensor α) : Except Reject α :=
  if K.shape != T.shape then .error .reject else
  (List.range K.ncomp).foldlM (fun res r =>
    match T.ttv (K.factors.map fun A => A.colOf r) none none with
    | .ok (.scalar v) => .ok (res + K.weights.getD r 0 * v)
    | _ => .error .reject) 0

/-- Square of `ttensor.norm()` with a sparse core: Gram matrices through the sparse `ttm` (dense `Y`)
and `Y.innerprod(core)` (→ sparse · dense) when the tensor is larger than its core, else `full().norm()`. -/
def normSq [Add α] [Mul α] [Zero α] [BEq α] (T : TtensorS α) : Except Reject α :=
  if numel T.shape > numel T.core.shape then
    let V := (List.range T.factors.length).map fun i =>
      let U := T.factors.getD i []
      let c := T.core.shape.getD i 0
      (⟨U.tmul U c c, c, c⟩ : Dense.MatArg α)
    match T.core.ttm V none none false with
    | .error e => .error e
    | .ok Y => T.core.innerprodDense Y
  else
    match T.full with
    | .error e => .error e
    | .ok Z => .ok Z.normSq

/-- `ttensor.mttkrp(U, n)` with a sparse core: the matrices `UᵢᵀVᵢ` (nothing for mode `n`) go into
`sptensor.mttkrp` of the core (one sparse `ttv` per column), whose result is multiplied by `Uₙ`. -/
def mttkrp [Add α] [Mul α] [Zero α] [BEq α] (T : TtensorS α) (U : KOperand α) (n : Nat) : Except Reject (Mat α) :=
  let N := T.factors.length
  match getMttkrpFactors U n N with
  | .error e => .error e
  | .ok fs =>
    if n ≥ N then .error .reject else
    let R := if n == 0 then (fs.getD 1 []).ncols else (fs.getD 0 []).ncols
    if (List.range N).any (fun i => i != n && (fs.getD i []).length != (T.factors.getD i []).length) then .error .reject
    else
      let W := (List.range N).map fun i =>
        if i == n then [] else (T.factors.getD i []).tmul (fs.getD i []) (T.core.shape.getD i 0) (fs.getD i []).ncols
      match T.core.mttkrp (.list W) n with
      | .error e => .error e
      | .ok Y =>
        let Un := T.factors.getD n []
        .ok (Un.mulD Y Un.length (T.core.shape.getD n 0) R)

end TtensorS

namespace TuckerAny

def factors : TuckerAny α → List (Mat α)
  | .denseCore t => t.factors
  | .sparseCore t => t.factors

def coreShape : TuckerAny α → List Nat
  | .denseCore t => t.core.shape
  | .sparseCore t => t.core.shape

def shape (T : TuckerAny α) : List Nat := T.factors.map List.length

/-- `core.ttm(W)`: the dense or the sparse kernel (either returns a dense tensor). -/
def coreTtm [Add α] [Mul α] [Zero α] [BEq α] (T : TuckerAny α) (W : List (Dense.MatArg α)) : Except Reject (Dense α) :=
  match T with
  | .denseCore t => t.core.ttm W none none false
  | .sparseCore t => t.core.ttm W none none false

/-- `core.innerprod(J)` for a dense tensor `J`. -/
def coreInnerprod [Add α] [Mul α] [Zero α] (T : TuckerAny α) (J : Dense α) : Except Reject α :=
  match T with
  | .denseCore t => t.core.innerprod J
  | .sparseCore t => t.core.innerprodDense J

/-- The body of `ttensor.innerprod(ttensor)` once the operand with the smaller core is `A`: the core of
`B` is multiplied by the matrices `AᵢᵀBᵢ` and paired with the core of `A`. -/
def innerprodOrdered [Add α] [Mul α] [Zero α] [BEq α] (A B : TuckerAny α) : Except Reject α :=
  let W := (List.range A.factors.length).map fun i =>
    let Ua := A.factors.getD i []
    let Ub := B.factors.getD i []
    (⟨Ua.tmul Ub (A.coreShape.getD i 0) (B.coreShape.getD i 0), A.coreShape.getD i 0, B.coreShape.getD i 0⟩ : Dense.MatArg α)
  match B.coreTtm W with
  | .error e => .error e
  | .ok J => A.coreInnerprod J

/-- `ttensor.innerprod(ttensor)` for cores of either kind: when `self` has the larger core the call is
repeated with the arguments reversed (`return other.innerprod(self)`), so the operand with the smaller
core comes first. -/
def innerprodT [Add α] [Mul α] [Zero α] [BEq α] (T O : TuckerAny α) : Except Reject α :=
  if T.shape != O.shape then .error .reject
  else if numel T.coreShape > numel O.coreShape then innerprodOrdered O T
  else innerprodOrdered T O

end TuckerAny
end Pyttb
