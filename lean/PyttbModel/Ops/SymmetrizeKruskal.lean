/-
C15, Kruskal tensors — executable side conditions of the "keeps its value" / "symmetrising again changes
nothing" clauses of `ktensor.symmetrize` (model: `Sym.ksymmetrizeCore`, `Sym.ksymmetrize` in
Ops/Symmetrize.lean).  Import-free.

* `kaligned Kn`: the decidable hypothesis on the normalised copy `Kn` the model starts from — a cubic,
  well-formed Kruskal tensor of order >= 1 in which column `j` of every factor equals column `j` of the first
  factor or its negation ("already symmetric component by component").
* `normAllOf S`: the library's `copy().normalize("all")` built from the `normalize` model of
  Ops/KruskalReparam.lean (column 2-norms and the N-th root are the services `S`), i.e. the function that
  `ktensor.symmetrize` passes to its first step.
* `sameArray`: exact comparison of the arrays two Kruskal tensors denote (used by the driver only).
-/
import PyttbModel.Ops.Symmetrize
import PyttbModel.Ops.KruskalReparam
namespace Pyttb
namespace Sym

variable {α : Type}

/-- every factor has the row count of the first one and every row has one entry per component. -/
def kcubicWF (Kn : Ktensor α) : Bool :=
  let m := (Kn.factors.getD 0 []).length
  let R := Kn.weights.length
  Kn.factors.all fun A => A.length == m && A.all fun row => row.length == R

/-- column `j` of `A` is column `j` of `A0` or its negation. -/
def colPM [Neg α] [Zero α] [BEq α] (A0 A : Mat α) (j : Nat) : Bool :=
  A.col j == A0.col j || A.col j == (A0.col j).map (- ·)

/-- The hypothesis of the "keeps its value" clause, on the normalised copy: order >= 1, cubic and
well-formed, and column `j` of every factor is ± column `j` of the first factor, for every component `j`. -/
def kaligned [Neg α] [Zero α] [BEq α] (Kn : Ktensor α) : Bool :=
  !Kn.factors.isEmpty && kcubicWF Kn &&
  Kn.factors.all fun A => (List.range Kn.weights.length).all fun j => colPM (Kn.factors.getD 0 []) A j

/-- `K.copy().normalize("all")` as `ktensor.symmetrize` calls it (2-norm, no sorting); an order-0 object,
for which `normalize` raises, is returned unchanged (`ksymmetrize` has refused it before). -/
def normAllOf [Mul α] [Div α] [Neg α] [Zero α] [One α] [LT α] [DecidableLT α] (S : Services α)
    (K : Ktensor α) : Ktensor α :=
  match Ktensor.normalize S K.copy (some .all) false .two none with
  | .ok K1 => K1
  | .error _ => K

/-- do two Kruskal tensors of the same shape denote the same array?  (exact, entry by entry) -/
def sameArray [Add α] [Mul α] [One α] [Zero α] [BEq α] (K L : Ktensor α) : Bool :=
  K.shape == L.shape && (allSubs K.shape).all fun i => K.get i == L.get i

end Sym
end Pyttb
