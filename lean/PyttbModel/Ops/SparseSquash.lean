/-
`sptensor.squash(return_inverse)`: per mode the stored coordinates are renumbered by their rank
among the distinct values of that mode (`np.unique(col, return_inverse=True)`); every extent of
the result is the number of stored entries (`shape.append(len(subs))`).  Import-free.
-/
import PyttbModel.Ops.Sparse
namespace Pyttb
namespace SpElem

variable {α : Type}

/-- `np.unique(col)`: the distinct values in increasing order. -/
def uniqueSorted (col : List Nat) : List Nat := (col.mergeSort (fun a b => decide (a ≤ b))).eraseDups

/-- `sptensor.squash(return_inverse=True)`: the squashed tensor and, per mode, the original
coordinates in the order of the new ones.  A tensor without stored entries has no coordinate
columns to index and the call raises. -/
def squash (S : Sparse α) : Except Reject (Sparse α × List (List Nat)) :=
  if S.subs.isEmpty then .error .reject
  else
    let N := S.shape.length
    let maps := (List.range N).map fun n => uniqueSorted (S.subs.map fun r => r.getD n 0)
    let subs := S.subs.map fun r => (List.range N).map fun n => (maps.getD n []).idxOf (r.getD n 0)
    .ok (⟨List.replicate N S.subs.length, subs, S.vals⟩, maps)

end SpElem
end Pyttb
