/-
Dense `tensor.__setitem__` / `tensor.__getitem__` (tensor.py), branch by branch:
dispatch by `get_index_variant`, `_set_linear`, `_set_subscripts`, `_set_subtensor`
(with the growth rule computed from `sliceCheck`), and the four read cases.
NumPy's indexing is modelled by its logical semantics: `data[subs] = v` is a scatter
(last write wins), `data[key]` with integers / slices / index lists is NumPy basic +
advanced indexing (`npIndex`), the right-hand side is broadcast (`npBroadcast`).
Import-free.
-/
import PyttbModel.Core.Key
namespace Pyttb

variable {α : Type}

/-! ### NumPy primitives -/

/-- A key element resolved against an extent, as NumPy sees it. -/
inductive NPart where
  | int (i : Nat)
  | slice (idx : List Nat)
  | list (idx : List Nat)
  deriving Repr, DecidableEq

def NPart.isAdv : NPart → Bool
  | .slice _ => false
  | _ => true

/-- `__getitem__` keeps the mode of a slice and of an index list with more than one
entry (`newsiz`); when nothing is kept the result is a scalar. -/
def NPart.keeps : NPart → Bool
  | .slice _ => true
  | .list l => decide (l.length > 1)
  | .int _ => false

def NPart.isList : NPart → Bool
  | .list _ => true
  | _ => false

/-- Resolve one key element against extent `ext`: integers wrap once and must be in
range, slices are `range(ext)[a:b:c]`, list entries must be in range. -/
def npPart (ext : Nat) : RPart → Except Reject NPart
  | .int i =>
    let j : Int := if i < 0 then i + ext else i
    if 0 ≤ j ∧ j < ext then .ok (.int j.toNat) else .error .reject
  | .slice a b c => do
    let l ← pySlice ext a b c
    .ok (.slice l)
  | .list is => if is.all (· < ext) then .ok (.list is) else .error .reject

def npParts : List Nat → List RPart → Except Reject (List NPart)
  | [], [] => .ok []
  | e :: es, p :: ps => do
    let r ← npPart e p
    let rs ← npParts es ps
    .ok (r :: rs)
  | _, _ => .error .reject

/-- Advanced indexing, one result cell: the subscript of `data` read for broadcast
position `b` and the coordinates `js` of the slice modes (in key order): an integer gives
itself, an index list its `b`-th entry (a one-entry list is broadcast), a slice the entry
at its own coordinate. -/
def advSrc : List NPart → Nat → List Nat → List Nat
  | [], _, _ => []
  | .int i :: ps, b, js => i :: advSrc ps b js
  | .list l :: ps, b, js => l.getD (if l.length == 1 then 0 else b) 0 :: advSrc ps b js
  | .slice l :: ps, b, x :: js => l.getD x 0 :: advSrc ps b js
  | .slice l :: ps, b, [] => l.getD 0 0 :: advSrc ps b []

/-- The advanced elements (integers and lists) are adjacent: after the leading slices and
the block of advanced elements only slices follow. -/
def advAdjacent (ps : List NPart) : Bool :=
  ((ps.dropWhile (fun p => !p.isAdv)).dropWhile NPart.isAdv).all (fun p => !p.isAdv)

def NPart.sliceLen? : NPart → Option Nat
  | .slice l => some l.length
  | _ => none

def NPart.listLen? : NPart → Option Nat
  | .list l => some l.length
  | _ => none

/-- Lengths of the slice elements, in key order. -/
def sliceLens (ps : List NPart) : List Nat := ps.filterMap NPart.sliceLen?

/-- Lengths of the index lists, in key order. -/
def listLens (ps : List NPart) : List Nat := ps.filterMap NPart.listLen?

/-- `data[key]` as an index map: the shape of the result and, for every result cell in
F order, the subscript of `data` it comes from.
Without index lists this is basic indexing (integers drop their mode).  With lists it is
NumPy advanced indexing: integers and lists are broadcast together (common length `L`)
and paired element by element; the broadcast dimension sits where the block of advanced
elements is when they are adjacent, and in front otherwise. -/
def npIndex (ps : List NPart) : Except Reject (List Nat × List (List Nat)) :=
  if !ps.any NPart.isList then
    .ok (sliceLens ps, outerF (ps.map fun p => match p with | .int i => [i] | .slice l => l | .list l => l))
  else
    let big := (listLens ps).filter (· != 1)
    let L := big.headD 1
    if big.any (· != L) then .error .reject
    else
      let k := if advAdjacent ps then (ps.takeWhile fun p => !p.isAdv).length else 0
      let rshape := (sliceLens ps).insertIdx k L
      .ok (rshape, (allSubs rshape).map fun j => advSrc ps (j.getD k 0) (j.eraseIdx k))

/-- NumPy broadcast of an assigned value to the shape of the indexed result; values in
F order of that shape. -/
def npBroadcast (rhs : Rhs α) [Zero α] (rshape : List Nat) : Except Reject (List α) :=
  let go (T : Dense α) : Except Reject (List α) :=
    let extra := T.shape.length - rshape.length
    let vs := if (T.shape.take extra).all (· == 1) then T.shape.drop extra else T.shape
    if vs.length > rshape.length ∨ numel vs ≠ T.data.length then .error .reject
    else
      let pad := rshape.length - vs.length
      if (List.range vs.length).any fun d => vs.getD d 0 != rshape.getD (pad + d) 0 && vs.getD d 0 != 1 then
        .error .reject
      else
        let V : Dense α := ⟨vs, T.data⟩
        .ok ((allSubs rshape).map fun j =>
          V.get ((List.range vs.length).map fun d => if vs.getD d 0 == 1 then 0 else j.getD (pad + d) 0))
  match rhs with
  | .scalar v => .ok (List.replicate (numel rshape) v)
  | .col vs => go ⟨[vs.length], vs⟩
  | .arr T => go T
  | .tensor T => go T

/-- Broadcast of an assigned value to `p` positions (`data[subs] = value`). -/
def npValuesList (rhs : Rhs α) (p : Nat) : Except Reject (List α) :=
  let vec (vs : List α) : Except Reject (List α) :=
    match vs with
    | [v] => .ok (List.replicate p v)
    | vs => if vs.length = p then .ok vs else .error .reject
  match rhs with
  | .scalar v => .ok (List.replicate p v)
  | .col vs => vec vs
  | .arr _ => .error .reject     -- (a 1-d array right-hand side is `col`)
  | .tensor _ => .error .reject

namespace Dense

/-- `data[subs] = vals` (fancy assignment, processed in order: the last write to a
cell wins). -/
def scatter (T : Dense α) (l : List (List Nat × α)) : Dense α :=
  l.foldl (fun T p => ⟨T.shape, T.data.set (sub2ind T.shape p.1) p.2⟩) T

/-- The enlargement done by `_set_subscripts` / `_set_subtensor`:
`newData = zeros(newsiz); newData[:s0, :s1, …, 0, …, 0] = data`. -/
def growTo [Zero α] (T : Dense α) (s' : List Nat) : Dense α :=
  let n := T.shape.length
  ofFn s' fun j =>
    if (j.drop n).all (· == 0) && inBounds T.shape (j.take n) then T.get (j.take n) else 0

/-- `sliceCheck` of `_set_subtensor`: the largest index a key element needs
(`ext = some e` for an existing mode of extent `e`, `none` for a new mode). -/
def sliceCheck (ext : Option Nat) : RPart → Except Reject Int
  | .slice _ b _ =>
    match b with
    | none => .ok (match ext with | some e => (e : Int) - 1 | none => 0)
    | some b => .ok (b - 1)
  | .list is => if is.isEmpty then .error .reject else .ok (maxNat is : Int)
  | .int i => .ok i

/-- One entry of `newsiz`: `max(shape[d], bsiz[d] + 1)` for an existing mode,
`bsiz[d] + 1` for a new one; `np.zeros` refuses a negative extent. -/
def newExtent (ext : Option Nat) (p : RPart) : Except Reject Nat := do
  let c ← sliceCheck ext p
  let raw : Int := match ext with
    | some e => max (e : Int) (c + 1)
    | none => c + 1
  if raw < 0 then .error .reject else .ok raw.toNat

/-- `newsiz` of `_set_subtensor`, element by element; a key shorter than the order makes
`np.max((shape, bsiz[0:n] + 1))` fail. -/
def newSizeParts : List Nat → List RPart → Except Reject (List Nat)
  | [], [] => .ok []
  | _ :: _, [] => .error .reject
  | [], p :: ps => do
    let e ← newExtent none p
    let es ← newSizeParts [] ps
    .ok (e :: es)
  | e0 :: s, p :: ps => do
    let e ← newExtent (some e0) p
    let es ← newSizeParts s ps
    .ok (e :: es)

/-- Resize when `newsiz` differs from the shape. -/
def resize [Zero α] (T : Dense α) (newsiz : List Nat) : Dense α :=
  if newsiz == T.shape then T else T.growTo newsiz

/-- `_set_linear`: no resizing; indices through `tt_ind2sub`. -/
def setLinear [Zero α] (T : Dense α) (key : Key) (rhs : Rhs α) : Except Reject (Dense α) := do
  let n := numel T.shape
  let idx : List Int ← match key with
    | .lin i => if i > n then .error .reject else .ok [i]
    | .linList is => if is.any (· > (n : Int)) then .error .reject else .ok is
    | .linSlice a b c => do
      let l ← pySlice n a b c
      .ok (l.map Int.ofNat)
    | _ => .error .reject
  let subs ← ttInd2sub T.shape idx
  let vals ← npValuesList rhs subs.length
  .ok (T.scatter (subs.zip vals))

/-- `_set_subscripts`: grow to cover the largest subscript per mode (new modes allowed),
then scatter. -/
def setSubscripts [Zero α] (T : Dense α) (rows : List (List Nat)) (rhs : Rhs α) :
    Except Reject (Dense α) :=
  match rows with
  | [] => .error .reject
  | r0 :: _ =>
    let w := r0.length
    let n := T.shape.length
    -- bsiz = np.max(subs, axis=0); a key narrower than the order makes np.max((shape, bsiz[0:n]+1)) fail
    if w = 0 ∨ w < n ∨ rows.any (fun r => r.length != w) then .error .reject
    else do
      let bsiz : List Nat := (List.range w).map fun m => maxNat (rows.map fun r => r.getD m 0)
      let newsiz := (List.range w).map fun m =>
        if m < n then max (T.shape.getD m 0) (bsiz.getD m 0 + 1) else bsiz.getD m 0 + 1
      let T' := T.resize newsiz
      let vals ← npValuesList rhs rows.length
      .ok (T'.scatter (rows.zip vals))

/-- `_set_subtensor`: growth from `sliceCheck`, then `data[key] = value`. -/
def setSubtensor [Zero α] (T : Dense α) (parts : List RPart) (rhs : Rhs α) :
    Except Reject (Dense α) := do
  let newsiz ← newSizeParts T.shape parts
  let T' := T.resize newsiz
  let ps ← npParts T'.shape parts
  let (rshape, src) ← npIndex ps
  let vals ← npBroadcast rhs rshape
  .ok (T'.scatter (src.zip vals))

/-- `tensor.__setitem__`. -/
def setItem [Zero α] (T : Dense α) (key : Key) (rhs : Rhs α) : Except Reject (Dense α) :=
  match key with
  | .region parts => T.setSubtensor parts rhs
  | .subs rows => T.setSubscripts rows rhs
  | k => T.setLinear k rhs

/-- `tt_subsubsref(np.squeeze(values))`: one value comes back as a Python scalar. -/
def subsubsref (vals : List α) : ReadOut α :=
  match vals with
  | [v] => .scalar v
  | vs => .vec vs

/-- `tensor.__getitem__`. -/
def getItem [Zero α] (T : Dense α) (key : Key) : Except Reject (ReadOut α) :=
  let n := numel T.shape
  match key with
  | .lin i => do
    let subs ← ttInd2sub T.shape [i]
    .ok (subsubsref (subs.map T.get))
  | .linSlice a b c => do
    let l ← pySlice n a b c
    let subs ← ttInd2sub T.shape (l.map Int.ofNat)
    .ok (subsubsref (subs.map T.get))
  | .region parts =>
    if parts.length ≠ T.shape.length then .error .reject
    else do
      let ps ← npParts T.shape parts
      let (rshape, src) ← npIndex ps
      let vals := src.map T.get
      let keeps := ps.any NPart.keeps
      if keeps then .ok (.tensor ⟨rshape, vals⟩)
      else match vals with
        | [v] => .ok (.scalar v)
        | _ => .error .reject
  | .subs rows =>
    match rows with
    | [] => .error .reject
    | _ =>
      if rows.any (fun r => !inBounds T.shape r) then .error .reject
      else .ok (subsubsref (rows.map T.get))
  | .linList is => do
    let subs ← ttInd2sub T.shape is
    .ok (subsubsref (subs.map T.get))

end Dense
end Pyttb
