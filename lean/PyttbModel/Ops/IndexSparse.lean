/-
Sparse `sptensor.__setitem__` / `sptensor.__getitem__` (sptensor.py) and the index
helpers they use (`subdims`, `extract`, `tt_renumber`, `tt_irenumber`,
`tt_ismember_rows`, `tt_intersect_rows`, `tt_setdiff_rows`), branch by branch, after the
fixes 45cd67c, f882b98, c834fd5, 5c3324a, 7df40d2.  Import-free.
-/
import PyttbModel.Core.Key
import PyttbModel.Core.Rows
import PyttbModel.Ops.Sparse
namespace Pyttb

variable {α : Type}

/-- `tt_ismember_rows` location for one search row: index of the last equal row. -/
def lastIdxOfN (src : List (List Nat)) (r : List Nat) : Option Nat :=
  match (src.reverse).findIdx? (· == r) with
  | some k => some (src.length - 1 - k)
  | none => none

/-- `vals[idx] = new` on a value column (NumPy fancy assignment, in order). -/
def scatter1 {α : Type} (vals : List α) (ps : List (Nat × α)) : List α :=
  ps.foldl (fun vs p => vs.set p.1 p.2) vals

/-- Subscript rows as the integer rows of the row-set helpers. -/
def toIntRows (rows : List (List Nat)) : List Row := rows.map fun r => r.map Int.ofNat

/-- What a sparse read returns. -/
inductive SpReadOut (α : Type) where
  | scalar (v : α)
  | vec (vs : List α)
  | tensor (S : Sparse α)
  deriving Repr, BEq

namespace Sparse

/-- Index sets per mode of a region key whose negative integers were already rewritten
(`range(0, shape[i])[slice]`, the list, the integer). An integer that is still negative
selects nothing. -/
def partIdx (ext : Nat) : RPart → Except Reject (List Nat)
  | .int i => .ok (if 0 ≤ i then [i.toNat] else [])
  | .list is => .ok is
  | .slice a b c => pySlice ext a b c

/-- `__setitem__` / `__getitem__` rewrite a negative integer as `shape[dim] + entry`
(`ext = some e` for an existing mode; an `IndexError` when the mode does not exist). -/
def rewriteNegPart (ext : Option Nat) : RPart → Except Reject RPart
  | .int i =>
    if i < 0 then
      match ext with
      | some e => .ok (.int ((e : Int) + i))
      | none => .error .reject
    else .ok (.int i)
  | p => .ok p

def rewriteNeg : List Nat → List RPart → Except Reject (List RPart)
  | _, [] => .ok []
  | [], p :: ps => do
    let q ← rewriteNegPart none p
    let qs ← rewriteNeg [] ps
    .ok (q :: qs)
  | e :: es, p :: ps => do
    let q ← rewriteNegPart (some e) p
    let qs ← rewriteNeg es ps
    .ok (q :: qs)

/-- A stored subscript lies in the region: mode by mode its coordinate is one of the
selected indices (`np.isin(subs[loc, i], region[i])`). -/
def inRegionB : List (List Nat) → List Nat → Bool
  | [], [] => true
  | l :: ls, x :: xs => l.contains x && inRegionB ls xs
  | _, _ => false

/-- `subdims(region)`: positions of the stored entries inside the region. -/
def subdims (S : Sparse α) (idx : List (List Nat)) : List Nat :=
  (List.range S.subs.length).filter fun k => inRegionB idx (S.subs.getD k [])

/-- Keep the entries at the given positions (`subs[loc, :]`, `vals[loc]`). -/
def takeAt [Zero α] (S : Sparse α) (loc : List Nat) : Sparse α :=
  ⟨S.shape, loc.map (fun k => S.subs.getD k []), loc.map (fun k => S.vals.getD k 0)⟩

/-- Pad the stored subscripts with zero columns up to `w` modes. -/
def padSubs (subs : List (List Nat)) (w : Nat) : List (List Nat) :=
  subs.map fun r => r ++ List.replicate (w - r.length) 0

/-- Groups A / B / C of `_set_subscripts`.  `upd` pairs every distinct new subscript with
its value; `tt_ismember_rows(newsubs, self.subs)` locates it among the stored subscripts.
A: present and non-zero — the stored value is changed (`vals[tf[idxa]] = newvals[idxa]`);
B: present and zero — the entry is removed (`keepsubs = setdiff1d(range(nnz), tf[idxb])`);
C: absent and non-zero — appended. -/
def updateEntries [Zero α] [BEq α] (subs1 : List (List Nat)) (vals : List α)
    (upd : List (List Nat × α)) : List (List Nat) × List α :=
  let valsA := scatter1 vals (upd.filterMap fun (t : List Nat × α) =>
    match lastIdxOfN subs1 t.1 with
    | some k => if t.2 == 0 then none else some ((k, t.2) : Nat × α)
    | none => none)
  let remove : List Nat := upd.filterMap fun (t : List Nat × α) =>
    match lastIdxOfN subs1 t.1 with
    | some k => if t.2 == 0 then some k else none
    | none => none
  let keep := setdiff1d (List.range subs1.length) remove
  let subsB := keep.map fun k => subs1.getD k []
  let valsB := keep.map fun k => valsA.getD k 0
  let add := upd.filter fun (t : List Nat × α) => (lastIdxOfN subs1 t.1).isNone && !(t.2 == 0)
  (subsB ++ add.map (·.1), valsB ++ add.map (·.2))

/-- The right-hand side of `_set_subscripts` as one value per subscript: a number or a
single value is repeated, a column must have one value per subscript
(`tt_valscheck`, "Number of subscripts and number of values do not match"). -/
def subsValues (rhs : Rhs α) (p : Nat) : Except Reject (List α) :=
  match rhs with
  | .scalar v => .ok (List.replicate p v)
  | .col [v] => .ok (List.replicate p v)
  | .col vs => if vs.length = p then .ok vs else .error .reject
  | .arr _ => .error .reject    -- (a p×1 column right-hand side is `col`)
  | .tensor _ => .error .reject

/-- `_set_subscripts(key, value)`. -/
def setSubscripts [Zero α] [BEq α] (S : Sparse α) (rows : List (List Nat)) (rhs : Rhs α) :
    Except Reject (Sparse α) :=
  match rows with
  | [] => .error .reject
  | r0 :: _ =>
    let w := r0.length
    let n := S.shape.length
    if w = 0 ∨ rows.any (fun r => r.length != w) ∨ w < n then .error .reject
    else
      -- order growth: new modes of extent 1, stored subscripts padded with zeros
      let shape1 := S.shape ++ List.replicate (w - n) 1
      let subs1 := if w > n then padSubs S.subs w else S.subs
      match subsValues rhs rows.length with
      | .error e => .error e
      | .ok newvals =>
        -- np.unique(newsubs[::-1]) : distinct rows, sorted; the last given value wins
        let uniq := uniqueRowsSorted rows
        let uvals := uniq.map fun r =>
          match lastIdxOfN rows r with
          | some k => newvals.getD k 0
          | none => 0
        let ent := updateEntries subs1 S.vals (uniq.zip uvals)
        -- resize
        let shape2 := (List.range shape1.length).map fun m =>
          max (shape1.getD m 0) (maxNat (uniq.map fun r => r.getD m 0) + 1)
        .ok ⟨shape2, ent.1, ent.2⟩

/-- One entry of the new size of `_set_subtensor` for a scalar right-hand side
(`ext = some e`: existing mode; `none`: new mode, where an open slice is refused). -/
def newExtScalar (ext : Option Nat) : RPart → Except Reject Nat
  | .slice _ b _ =>
    match ext, b with
    | some e, none => .ok e
    | some e, some b => .ok (if (e : Int) < b then b.toNat else e)
    | none, none => .error .reject
    | none, some b => if 0 ≤ b then .ok b.toNat else .error .reject
  | .list is =>
    if is.isEmpty then .error .reject
    else .ok (match ext with | some e => max e (maxNat is + 1) | none => maxNat is + 1)
  | .int i =>
    if i < 0 then .error .reject
    else .ok (match ext with | some e => max e (i.toNat + 1) | none => i.toNat + 1)

/-- New size of `_set_subtensor` for a scalar right-hand side; a key shorter than the
order is an `IndexError`. -/
def newSizeScalar : List Nat → List RPart → Except Reject (List Nat)
  | [], [] => .ok []
  | _ :: _, [] => .error .reject
  | [], p :: ps => do
    let e ← newExtScalar none p
    let es ← newSizeScalar [] ps
    .ok (e :: es)
  | e0 :: s, p :: ps => do
    let e ← newExtScalar (some e0) p
    let es ← newSizeScalar s ps
    .ok (e :: es)

/-- Index lists of every mode of a (rewritten) region key against a shape of the same
length. -/
def regionIdx : List Nat → List RPart → Except Reject (List (List Nat))
  | [], [] => .ok []
  | e :: es, p :: ps => do
    let l ← partIdx e p
    let ls ← regionIdx es ps
    .ok (l :: ls)
  | _, _ => .error .reject

/-- `_set_subtensor(key, value)` for zero and scalar right-hand sides, after the new size
`shape'` and the index lists `idx` of the key are known: the stored subscripts are padded
with zero columns for new modes; zero deletes what occupies the region; a non-zero scalar
overwrites the stored entries of the region and appends the missing ones. -/
def regionScalarApply [Zero α] [BEq α] (S : Sparse α) (shape' : List Nat) (idx : List (List Nat)) (v : α) :
    Sparse α :=
  let subs' := if S.subs.isEmpty then S.subs else padSubs S.subs shape'.length
  let S' : Sparse α := ⟨shape', subs', S.vals⟩
  if v == 0 then
    -- delete what occupies the region
    let rmloc := if subs'.isEmpty then [] else S'.subdims idx
    let kploc := setdiff1d (List.range subs'.length) rmloc
    S'.takeAt kploc
  else
    -- every subscript of the region, first mode slowest (the Khatri-Rao construction)
    let addsubs := outerC idx
    if subs'.isEmpty then
      -- nothing stored: the distinct region subscripts, in order of first occurrence
      let fresh := addsubs.eraseDups
      ⟨shape', fresh, fresh.map fun _ => v⟩
    else
      let loc := intersectRows (toIntRows subs') (toIntRows addsubs)
      let vals' := scatter1 S.vals (loc.map fun k => (k, v))
      let fresh := (setdiffRows (toIntRows addsubs) (toIntRows subs')).map fun k => addsubs.getD k []
      ⟨shape', subs' ++ fresh, vals' ++ fresh.map fun _ => v⟩

/-- `_set_subtensor(key, value)` for zero and scalar right-hand sides. -/
def setSubtensorScalar [Zero α] [BEq α] (S : Sparse α) (parts : List RPart) (v : α) :
    Except Reject (Sparse α) := do
  let shape' ← newSizeScalar S.shape parts
  let idx ← regionIdx shape' parts
  .ok (regionScalarApply S shape' idx v)

/-- A (rewritten) key element is an integer. -/
def _root_.Pyttb.RPart.isInt : RPart → Bool
  | .int _ => true
  | _ => false

/-- `tt_irenumber(value, shape, key)` for one stored subscript of the value: walk the
key; a slice / list maps the next value coordinate through its index list, an integer
inserts itself. -/
def irenumberRow : List (List Nat × Bool) → List Nat → Except Reject (List Nat)
  | [], [] => .ok []
  | [], _ :: _ => .error .reject
  | (l, true) :: ps, u => do  -- integer element: inserted
    let rest ← irenumberRow ps u
    .ok (l.headD 0 :: rest)
  | (_, false) :: _, [] => .error .reject
  | (l, false) :: ps, x :: u =>
    if x < l.length then do
      let rest ← irenumberRow ps u
      .ok (l.getD x 0 :: rest)
    else .error .reject

/-- One entry of the new size of `_set_subtensor` for a sparse-tensor right-hand side.
`vm` is the extent of the value's next unused mode (`value.shape[m]`, an `IndexError` when
there is none and it is needed); the flag says whether the element uses up a value mode
(`m = m + 1`: slices and index lists). -/
def newExtSparse (ext : Option Nat) (vm : Option Nat) : RPart → Except Reject (Nat × Bool)
  | .slice _ b _ =>
    match b with
    | none =>
      match vm with
      | none => .error .reject
      | some vm => .ok (match ext with | some e => max e vm | none => vm, true)
    | some b =>
      match ext with
      | some e => .ok (if (e : Int) < b then b.toNat else e, true)
      | none => if 0 < b then .ok (b.toNat, true) else .error .reject
  | .int i =>
    if i < 0 then .error .reject
    else .ok (match ext with | some e => max e (i.toNat + 1) | none => i.toNat + 1, false)
  | .list is =>
    match vm with
    | none => .error .reject
    | some vm =>
      if is.length = vm ∧ !is.isEmpty then
        .ok (match ext with | some e => max e (maxNat is + 1) | none => maxNat is + 1, true)
      else .error .reject

/-- New size of `_set_subtensor` for a sparse-tensor right-hand side of shape `vs`
(consumed mode by mode); a key shorter than the order is refused. -/
def newSizeSparse : List Nat → List RPart → List Nat → Except Reject (List Nat)
  | [], [], _ => .ok []
  | _ :: _, [], _ => .error .reject
  | [], p :: ps, vs => do
    let ec ← newExtSparse none vs.head? p
    let es ← newSizeSparse [] ps (if ec.2 then vs.tail else vs)
    .ok (ec.1 :: es)
  | e0 :: s, p :: ps, vs => do
    let ec ← newExtSparse (some e0) vs.head? p
    let es ← newSizeSparse s ps (if ec.2 then vs.tail else vs)
    .ok (ec.1 :: es)

/-- the index list of every key element, tagged "is an integer" (for `tt_irenumber`) -/
def tagIdx : List RPart → List (List Nat) → List (List Nat × Bool)
  | p :: ps, l :: ls => (l, p.isInt) :: tagIdx ps ls
  | _, _ => []

/-- `_set_subtensor(key, value)` for a sparse-tensor right-hand side `V`: resize, pad the
stored subscripts, delete what occupies the region, append the value's entries renumbered
by `tt_irenumber`. -/
def setSubtensorSparse [Zero α] (S : Sparse α) (parts : List RPart) (V : Sparse α) :
    Except Reject (Sparse α) := do
  let shape' ← newSizeSparse S.shape parts V.shape
  let subs' := if S.subs.isEmpty then S.subs else padSubs S.subs shape'.length
  let S' : Sparse α := ⟨shape', subs', S.vals⟩
  let idx ← regionIdx shape' parts
  let rmloc := if subs'.isEmpty then [] else S'.subdims idx
  let kploc := setdiff1d (List.range subs'.length) rmloc
  let kept := S'.takeAt kploc
  let addsubs ← V.subs.mapM (irenumberRow (tagIdx parts idx))
  .ok ⟨shape', kept.subs ++ addsubs, kept.vals ++ V.vals⟩

/-- `sptensor.__setitem__`. -/
def setItem [Zero α] [BEq α] (S : Sparse α) (key : Key) (rhs : Rhs α) : Except Reject (Sparse α) :=
  -- empty tensor and empty right-hand side: nothing to do
  if S.vals.isEmpty && rhs.isEmptyValue then .ok S
  else
    match key with
    | .region parts => do
      let parts' ← rewriteNeg S.shape parts
      match rhs with
      | .tensor T => setSubtensorSparse S parts' T.toSparse
      | .scalar v => setSubtensorScalar S parts' v
      | _ =>
        -- "Invalid assignment value" (after the size bookkeeping)
        .error .reject
    | .subs rows => S.setSubscripts rows rhs
    | .lin i =>
      if S.shape.length = 1 ∧ 0 ≤ i then S.setSubscripts [[i.toNat]] rhs else .error .reject
    | .linSlice a b c =>
      if S.shape.length = 1 then do
        let l ← pySlice (S.shape.getD 0 0) a b c
        S.setSubscripts (l.map fun i => [i]) rhs
      else .error .reject
    | .linList _ => .error .reject

/-- Value stored under a full subscript: `vals[loc]` where `tt_ismember_rows` finds it,
zero otherwise. -/
def lookupIx [Zero α] (S : Sparse α) (r : List Nat) : α :=
  match lastIdxOfN S.subs r with
  | some k => S.vals.getD k 0
  | none => 0

/-- `extract(searchsubs)`: values at full subscripts (zero when nothing is stored). -/
def extract [Zero α] (S : Sparse α) (rows : List (List Nat)) : Except Reject (List α) :=
  if rows.any (fun r => !inBounds S.shape r) then .error .reject
  else .ok (rows.map S.lookupIx)

def subsubsref (vals : List α) : SpReadOut α :=
  match vals with
  | [v] => .scalar v
  | vs => .vec vs

/-- `tt_renumberdim`: new coordinate of stored coordinate `x` under the index list
`l` of its mode (the last position holding `x`; integers give 0). -/
def renumberCoord (l : List Nat) (isInt : Bool) (x : Nat) : Nat :=
  if isInt then 0
  else match (l.reverse).findIdx? (· == x) with
    | some k => l.length - 1 - k
    | none => 0

/-- The key element is the full slice `:` (`tt_renumber` leaves such a mode as it is). -/
def _root_.Pyttb.RPart.isFullSlice : RPart → Bool
  | .slice none none none => true
  | _ => false

/-- An index list with an entry beyond the extent (`tt_renumberdim` cannot build its map). -/
def _root_.Pyttb.RPart.listBeyond (ext : Nat) : RPart → Bool
  | .list is => is.any (· ≥ ext)
  | _ => false

/-- Shape of a region result: integer modes are dropped, a full slice keeps the extent,
any other slice / an index list has as many entries as it selects (`tt_renumber`). -/
def keptShapeOf : List Nat → List RPart → List (List Nat) → List Nat
  | e :: es, p :: ps, l :: ls =>
    if p.isInt then keptShapeOf es ps ls
    else (if p.isFullSlice then e else l.length) :: keptShapeOf es ps ls
  | _, _, _ => []

/-- `tt_renumber` on one stored subscript of the region, integer modes dropped
(`subs[:, kpdims]`): a full slice keeps the coordinate, otherwise it becomes its position
in the index list of its mode. -/
def renumberRow : List RPart → List (List Nat) → List Nat → List Nat
  | p :: ps, l :: ls, x :: r =>
    if p.isInt then renumberRow ps ls r
    else (if p.isFullSlice then x else renumberCoord l false x) :: renumberRow ps ls r
  | _, _, _ => []

/-- `__getitem__`, Case 1 after the key was rewritten (`parts'`) and turned into index
lists (`idx`): `subdims` selects the stored entries, `tt_renumber` renumbers them, integer
modes are dropped; with nothing kept the stored value (or 0) comes back as a scalar. -/
def regionRead [Zero α] (S : Sparse α) (parts' : List RPart) (idx : List (List Nat)) :
    Except Reject (SpReadOut α) :=
  let loc := if S.subs.isEmpty then [] else S.subdims idx
  let sel := S.takeAt loc
  -- tt_renumber: building the index map of a list fails for an entry beyond the extent
  if !sel.subs.isEmpty ∧ (parts'.zip S.shape).any (fun pe => pe.1.listBeyond pe.2) then
    .error .reject
  else if parts'.all RPart.isInt then
    match sel.vals with
    | [] => .ok (.scalar 0)
    | [v] => .ok (.scalar v)
    | vs => .ok (.vec vs)
  else
    let newshape := keptShapeOf S.shape parts' idx
    if sel.subs.isEmpty then
      if newshape.any (· == 0) then .error .reject else .ok (.tensor ⟨newshape, [], []⟩)
    else
      .ok (.tensor ⟨newshape, sel.subs.map (renumberRow parts' idx), sel.vals⟩)

/-- `sptensor.__getitem__`. -/
def getItem [Zero α] [BEq α] (S : Sparse α) (key : Key) : Except Reject (SpReadOut α) :=
  let n := S.shape.length
  match key with
  | .region parts =>
    if parts.length ≠ n then .error .reject
    else do
      let parts' ← rewriteNeg S.shape parts
      let idx ← regionIdx S.shape parts'
      S.regionRead parts' idx
  | .subs rows =>
    if rows.isEmpty then .error .reject
    else do
      let vals ← S.extract rows
      .ok (subsubsref vals)
  | .lin i => do
    let cells : Int := numel S.shape
    let i' := if i < 0 then i + cells else i
    let subs ← ttInd2sub S.shape [i']
    let vals ← S.extract subs
    .ok (subsubsref vals)
  | .linSlice a b c => do
    let l ← pySlice (numel S.shape) a b c
    let subs ← ttInd2sub S.shape (l.map Int.ofNat)
    let vals ← S.extract subs
    .ok (subsubsref vals)
  | .linList is => do
    let subs ← ttInd2sub S.shape is
    let vals ← S.extract subs
    .ok (subsubsref vals)

end Sparse
end Pyttb
