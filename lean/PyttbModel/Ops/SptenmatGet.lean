/-
Denotation of a sparse matricized tensor.  Imports model files only.
-/
import PyttbModel.Ops.Sparse
namespace Pyttb

variable {α : Type}

/-- denotation of a sparse matricized tensor at matrix cell `(a, b)`. -/
def Sptenmat.get [Add α] [Zero α] (M : Sptenmat α) (a b : Nat) : α :=
  Sparse.get ⟨M.mshape, M.subs, M.vals⟩ [a, b]

end Pyttb
