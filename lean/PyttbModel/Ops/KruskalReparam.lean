/-
Kruskal re-parameterisations (`pyttb.ktensor`): constructor, `normalize`, `arrange`,
`fixsigns` (alone / against a reference), `redistribute`, `extract`, `tovec`,
`from_vector`, `update`, `tolist`, `+`, `-`, unary `-`, unary `+`, scalar `*`, `score`,
`copy`, `isequal`.  Mirrors ktensor.py branch by branch.  Import-free.

Numerical services that are not ring operations enter through `Services`: the column norm
(`np.linalg.norm(col, ord)`), `np.argsort`, and the real N-th root `np.power(x, 1.0/N)`.
`Services.std` builds them from a square root and a root function; the driver runs the
model at `Rat` (1-norm and max-norm exact, square roots exact on rational squares and
accurate to 2^-80 otherwise).

Column updates `A[:, r] = c * A[:, r]` are written as one multiplication of every column
by a coefficient list (coefficient 1 for the columns the code leaves alone); on finite
numbers `1 * a = a` exactly, so this is the same array.
-/
import PyttbModel.Ops.Kruskal
namespace Pyttb

variable {α : Type}

/-! ### scalar helpers -/

/-- `np.abs` / `abs`. -/
def absOf [Neg α] [Zero α] [LT α] [DecidableLT α] (x : α) : α := if x < 0 then -x else x

/-- `np.sign`. -/
def signOf [Neg α] [Zero α] [One α] [LT α] [DecidableLT α] (x : α) : α :=
  if x < 0 then -1 else if 0 < x then 1 else 0

/-- `x == y` for numbers, through the order (no NaN in the model). -/
def numEq [LT α] [DecidableLT α] (x y : α) : Bool := !(decide (x < y)) && !(decide (y < x))

/-- `k in range(n)` for a Python int. -/
def inRange (k : Int) (n : Nat) : Bool := decide (0 ≤ k) && decide (k < (n : Int))

/-- Python / NumPy index with wrap-around of negative values; `none` = IndexError. -/
def wrapIdx (k : Int) (n : Nat) : Option Nat :=
  if 0 ≤ k ∧ k < (n : Int) then some k.toNat
  else if -(n : Int) ≤ k ∧ k < 0 then some (k + (n : Int)).toNat
  else none

-- `dot` (`u @ v`) is defined in Core/Arr.lean

/-! ### matrix helpers (a matrix is a list of rows) -/

/-- Column `r`: `A[:, r]`. -/
def Mat.col [Zero α] (A : Mat α) (r : Nat) : List α := A.map fun row => row.getD r 0

/-- `diag(c) applied from the left column-wise`: column `r` becomes `c[r] * A[:, r]`. -/
def Mat.scaleL [Mul α] (c : List α) (A : Mat α) : Mat α := A.map fun row => List.zipWith (· * ·) c row

/-- `A @ diag(c)` / `A * c`: column `r` becomes `A[:, r] * c[r]`. -/
def Mat.scaleR [Mul α] (A : Mat α) (c : List α) : Mat α := A.map fun row => List.zipWith (· * ·) row c

/-- `A[:, idx]`. -/
def Mat.gatherCols [Zero α] (A : Mat α) (idx : List Nat) : Mat α := A.map fun row => gatherD row idx 0

/-- `np.concatenate((A, B), axis=1)` for matrices with the same number of rows. -/
def Mat.hcat (A B : Mat α) : Mat α := List.zipWith (· ++ ·) A B

/-- `np.reshape(seg, (n, R), order="F")`. -/
def reshapeCols [Zero α] (seg : List α) (n R : Nat) : Mat α :=
  (List.range n).map fun i => (List.range R).map fun r => seg.getD (i + n * r) 0

/-! ### numerical services -/

inductive NormType where
  | one | two | inf
  deriving Repr, DecidableEq

/-- What the model needs beyond ring operations, comparison and division. -/
structure Services (α : Type) where
  /-- `np.linalg.norm(v, ord=normtype)` -/
  nrm : NormType → List α → α
  /-- `np.argsort(v)` (ascending) -/
  argsort : List α → List Nat
  /-- `np.power(x, 1.0 / N)` for `x ≥ 0` -/
  root : Nat → α → α

/-- `np.linalg.norm` of a vector for `ord` 1, 2, inf. -/
def colNorm [Add α] [Mul α] [Neg α] [Zero α] [LT α] [DecidableLT α] (sqrt : α → α) : NormType → List α → α
  | .one, v => (v.map absOf).sum
  | .two, v => sqrt ((v.map fun x => x * x).sum)
  | .inf, v => v.foldl (fun m x => if m < absOf x then absOf x else m) 0

/-- insertion step of a stable ascending sort of indices by key -/
def insertIdx [Zero α] [LT α] [DecidableLT α] (w : List α) (k : Nat) : List Nat → List Nat
  | [] => [k]
  | j :: js => if w.getD k 0 < w.getD j 0 then k :: j :: js else j :: insertIdx w k js

/-- A stable ascending argsort (what `np.argsort` returns when there are no ties). -/
def argsortStable [Zero α] [LT α] [DecidableLT α] (w : List α) : List Nat :=
  (List.range w.length).foldl (fun acc k => insertIdx w k acc) []

def Services.std [Add α] [Mul α] [Neg α] [Zero α] [LT α] [DecidableLT α]
    (sqrt : α → α) (root : Nat → α → α) : Services α :=
  ⟨colNorm sqrt, argsortStable, root⟩

namespace Ktensor

def ndims (K : Ktensor α) : Nat := K.factors.length

/-- `ktensor(factor_matrices, weights)`: at least one factor matrix, equal column counts,
weights (default ones) of that length. -/
def construct [One α] (factors : List (Mat α)) (weights : Option (List α)) : Except Reject (Ktensor α) :=
  match factors with
  | [] => .error .reject
  | A0 :: _ =>
    let R := A0.ncols
    if !(factors.all fun A => A.ncols == R) then .error .reject
    else match weights with
      | none => .ok ⟨List.replicate R 1, factors⟩
      | some w => if w.length == R then .ok ⟨w, factors⟩ else .error .reject

/-- `K.copy()` (storage is not modelled here; see C05). -/
def copy (K : Ktensor α) : Ktensor α := ⟨K.weights, K.factors⟩

/-- components `p` in that order: `weights[p]`, `A[:, p]`. -/
def permuteComps [Zero α] (K : Ktensor α) (p : List Nat) : Ktensor α :=
  ⟨gatherD K.weights p 0, K.factors.map fun A => A.gatherCols p⟩

/-- `A_n = A_n * weights; weights = 1` -/
def absorbMode [Mul α] [One α] (K : Ktensor α) (n : Nat) : Ktensor α :=
  ⟨K.weights.map fun _ => 1, K.factors.set n ((K.factors.getD n []).scaleR K.weights)⟩

/-! ### normalize -/

/-- The inner loop of `normalize` over the columns of mode `n`:
`tmp = norm(A[:, r]); if tmp > 0: A[:, r] = 1.0 / tmp * A[:, r]; weights[r] *= tmp`. -/
def normalizeMode [Mul α] [Div α] [Zero α] [One α] [LT α] [DecidableLT α]
    (nrm : List α → α) (K : Ktensor α) (n : Nat) : Ktensor α :=
  let A := K.factors.getD n []
  let ts := (List.range K.ncomp).map fun r => nrm (A.col r)
  let cs := ts.map fun t => if 0 < t then 1 / t else 1
  ⟨List.zipWith (· * ·) K.weights ts, K.factors.set n (A.scaleL cs)⟩

/-- `idx = where(weights < 0); A_0[:, idx] = -A_0[:, idx]; weights[idx] = -weights[idx]` -/
def flipNegWeights [Mul α] [Neg α] [Zero α] [One α] [LT α] [DecidableLT α] (K : Ktensor α) : Ktensor α :=
  ⟨K.weights.map fun w => if w < 0 then -w else w,
   K.factors.set 0 ((K.factors.getD 0 []).scaleL (K.weights.map fun w => if w < 0 then -1 else 1))⟩

/-- `D = diag(weights ** (1/N)); A_n = A_n @ D for all n; weights = 1` -/
def absorbAll [Mul α] [One α] (S : Services α) (K : Ktensor α) : Ktensor α :=
  let D := K.weights.map (S.root K.ndims)
  ⟨K.weights.map fun _ => 1, K.factors.map fun A => A.scaleR D⟩

inductive WeightFactor where
  | all
  | mode (k : Int)
  deriving Repr, DecidableEq

/-- `weight_factor is None or weight_factor == "all" or weight_factor in range(ndims)` -/
def wfValid (wf : Option WeightFactor) (n : Nat) : Bool :=
  match wf with
  | some (.mode k) => inRange k n
  | _ => true

/-- the double loop "ensure that all factor_matrices are normalized" -/
def normalizeAllModes [Mul α] [Div α] [Zero α] [One α] [LT α] [DecidableLT α]
    (nrm : List α → α) (K : Ktensor α) : Ktensor α :=
  (List.range K.ndims).foldl (normalizeMode nrm) K

/-- "absorb weight into factors": `'all'`, one mode in range, or nothing (anything else is
silently ignored by the code). -/
def absorbWeights [Mul α] [One α] (S : Services α) (K : Ktensor α) : Option WeightFactor → Ktensor α
  | some .all => absorbAll S K
  | some (.mode k) => if inRange k K.ndims then absorbMode K k.toNat else K
  | none => K

/-- `if sort: if ncomponents > 1: p = argsort(weights)[::-1]; arrange(permutation=p)` -/
def sortComps [Zero α] (S : Services α) (K : Ktensor α) (sort : Bool) : Ktensor α :=
  if sort && decide (K.ncomp > 1) then permuteComps K (S.argsort K.weights).reverse else K

/-- `K.normalize(weight_factor, sort, normtype, mode)` (the state of the receiver afterwards). -/
def normalize [Mul α] [Div α] [Neg α] [Zero α] [One α] [LT α] [DecidableLT α]
    (S : Services α) (K : Ktensor α) (wf : Option WeightFactor) (sort : Bool) (nt : NormType)
    (mode : Option Int) : Except Reject (Ktensor α) :=
  if !(wfValid wf K.ndims) then .error .reject   -- weight_factor must be 'all' or a mode
  else
  match mode with
  | some m =>
    if inRange m K.ndims then .ok (normalizeMode (S.nrm nt) K m.toNat) else .error .reject
  | none =>
    if K.ndims == 0 then .error .reject      -- `self.factor_matrices[0]` raises
    else
      .ok (sortComps S (absorbWeights S (flipNegWeights (normalizeAllModes (S.nrm nt) K)) wf) sort)

/-! ### arrange -/

/-- `tuple(sorted(permutation)) == tuple(range(R))`: the argument as a list of naturals when it
is a permutation of the components. -/
def asPerm (p : List Int) (R : Nat) : Option (List Nat) :=
  if p.all (fun k => decide (0 ≤ k)) && isPermOf (p.map Int.toNat) R then some (p.map Int.toNat) else none

/-- `K.arrange(weight_factor, permutation)`. -/
def arrange [Mul α] [Div α] [Neg α] [Zero α] [One α] [LT α] [DecidableLT α]
    (S : Services α) (K : Ktensor α) (wf : Option Int) (perm : Option (List Int)) :
    Except Reject (Ktensor α) :=
  match perm, wf with
  | some _, some _ => .error .reject
  | some p, none =>
    match asPerm p K.ncomp with
    | some q => .ok (permuteComps K q)
    | none => .error .reject
  | none, wf =>
    if !(match wf with | some k => inRange k K.ndims | none => true) then .error .reject
    else
    match normalize S K none false .two none with
    | .error e => .error e
    | .ok K1 =>
      let K2 := permuteComps K1 (S.argsort K1.weights).reverse
      match wf with
      | none => .ok K2
      | some k => .ok (absorbMode K2 k.toNat)

/-! ### fixsigns -/

/-- `v[np.argmax(abs(v))]`: the first entry of largest magnitude. -/
def maxAbsEntry [Neg α] [Zero α] [LT α] [DecidableLT α] : List α → α
  | [] => 0
  | x :: xs => xs.foldl (fun b y => if absOf b < absOf y then y else b) x

/-- `A_n[:, r] = -A_n[:, r]` -/
def negCol [Mul α] [Neg α] [One α] (K : Ktensor α) (n r : Nat) : Ktensor α :=
  ⟨K.weights, K.factors.set n ((K.factors.getD n []).scaleL
    ((List.range K.ncomp).map fun k => if k == r then -1 else 1))⟩

/-- One pass of the stand-alone loop for component `r`: modes whose largest-magnitude
entry is negative, flipped in pairs. -/
def fixsignsComp [Mul α] [Neg α] [Zero α] [One α] [LT α] [DecidableLT α] (K : Ktensor α) (r : Nat) :
    Ktensor α :=
  let negidx := (List.range K.ndims).filter fun n => decide (maxAbsEntry ((K.factors.getD n []).col r) < 0)
  let nflip := 2 * (negidx.length / 2)
  (negidx.take nflip).foldl (fun K n => negCol K n r) K

/-- `K.fixsigns()`. -/
def fixsigns [Mul α] [Neg α] [Zero α] [One α] [LT α] [DecidableLT α] (K : Ktensor α) : Ktensor α :=
  (List.range K.ncomp).foldl fixsignsComp K

/-- How many of the sorted scores get flipped.  `fixed = true`: the repaired code (one more or
one fewer than the odd number of negative scores); `fixed = false`: the code before 13c8da4
(0-based breakpoint used as a count, bound compared with the rank). -/
def fixsignsEndpt [Neg α] [Zero α] [LT α] [DecidableLT α] (fixed : Bool) (sorted : List α) (N RB : Nat) :
    Except Reject (Option Nat) :=
  match ((List.range sorted.length).filter fun j => decide (sorted.getD j 0 < 0)).getLast? with
  | none => .ok none
  | some breakpt =>
    if (breakpt + 1) % 2 == 0 then .ok (some (breakpt + 1))
    else if fixed then
      if decide (breakpt + 1 < N) && decide (sorted.getD (breakpt + 1) 0 < -(sorted.getD breakpt 0)) then
        .ok (some (breakpt + 2))
      else .ok (some breakpt)
    else
      if decide (breakpt < RB) then
        if decide (breakpt + 1 < sorted.length) then
          if decide (sorted.getD (breakpt + 1) 0 < -(sorted.getD breakpt 0)) then .ok (some (breakpt + 1))
          else .ok (some (breakpt - 1))
        else .error .reject                  -- `sort_sgn_score[breakpt + 1]` out of bounds
      else .ok (some (breakpt - 1))          -- `range(-1)` is empty

/-- Body of the reference loop for component `r` (both tensors already normalised). -/
def fixsignsRefComp [Add α] [Mul α] [Neg α] [Zero α] [One α] [LT α] [DecidableLT α]
    (S : Services α) (fixed : Bool) (B : Ktensor α) (A : Ktensor α) (r : Nat) : Except Reject (Ktensor α) :=
  let N := A.ndims
  if decide (A.ncomp ≤ r) then .error .reject     -- `self.factor_matrices[n][:, r]` out of range
  else if !((List.range N).all fun n => decide (n < B.ndims) &&
      (A.factors.getD n []).length == (B.factors.getD n []).length) then .error .reject
  else
    let score := (List.range N).map fun n => dot ((A.factors.getD n []).col r) ((B.factors.getD n []).col r)
    let sortIdx := S.argsort score
    let sorted := sortIdx.map fun k => score.getD k 0
    match fixsignsEndpt fixed sorted N B.ncomp with
    | .error e => .error e
    | .ok none => .ok A
    | .ok (some endpt) =>
      .ok (((List.range endpt).map fun i => sortIdx.getD i 0).foldl (fun K n => negCol K n r) A)

/-- `K.fixsigns(other)` (the receiver afterwards; `other` is copied, not touched).
`fixed = true` is the current code, which first checks
`self.shape != other.shape or other.ncomponents > self.ncomponents` (b8c1128). -/
def fixsignsRefG [Add α] [Mul α] [Div α] [Neg α] [Zero α] [One α] [LT α] [DecidableLT α]
    (S : Services α) (fixed : Bool) (K other : Ktensor α) : Except Reject (Ktensor α) :=
  if fixed && (K.shape != other.shape || decide (K.ncomp < other.ncomp)) then .error .reject
  else
  match normalize S K none false .two none, normalize S other none false .two none with
  | .ok A, .ok B => (List.range B.ncomp).foldlM (fixsignsRefComp S fixed B) A
  | _, _ => .error .reject

/-- The sign scores of component `r` against a reference: `A_n[:, r] · B_n[:, r]` for every mode. -/
def refScores [Add α] [Mul α] [Zero α] (A B : Ktensor α) (r : Nat) : List α :=
  (List.range A.ndims).map fun n => dot ((A.factors.getD n []).col r) ((B.factors.getD n []).col r)

/-- The alignment normal form of component `r` (executable): a mode whose column is negatively
correlated with the reference's column is the only such mode, and no other mode has a score of
smaller magnitude (`-s_n ≤ s_m` for every other mode `m`). -/
def alignedComp [Add α] [Mul α] [Neg α] [Zero α] [LT α] [DecidableLT α] (A B : Ktensor α) (r : Nat) : Bool :=
  let s := refScores A B r
  (List.range s.length).all fun n =>
    !(decide (s.getD n 0 < 0)) ||
      (List.range s.length).all fun m => m == n || !(decide (s.getD m 0 < -(s.getD n 0)))

def fixsignsRef [Add α] [Mul α] [Div α] [Neg α] [Zero α] [One α] [LT α] [DecidableLT α]
    (S : Services α) (K other : Ktensor α) := fixsignsRefG S true K other

/-! ### redistribute, extract -/

/-- `K.redistribute(mode)`. -/
def redistribute [Mul α] [One α] (K : Ktensor α) (mode : Int) : Except Reject (Ktensor α) :=
  if inRange mode K.ndims then .ok (absorbMode K mode.toNat) else .error .reject

inductive ExtractArg where
  | none
  | int (k : Int)
  | list (l : List Int)
  deriving Repr

/-- `K.extract(idx)`. -/
def extract [Zero α] (K : Ktensor α) (idx : ExtractArg) : Except Reject (Ktensor α) :=
  match idx with
  | .none => .ok K.copy
  | .int k => go [k]
  | .list l => go l
where
  go (comps : List Int) : Except Reject (Ktensor α) :=
    if comps.length == 0 || decide (comps.length > K.ncomp) then .error .reject
    else if !(comps.all fun c => inRange c K.ncomp) then .error .reject
    else if K.ndims == 0 then .error .reject          -- constructor
    else .ok (permuteComps K (comps.map Int.toNat))

/-! ### vectors and lists -/

/-- `K.tovec(include_weights)`: weights first (optional), then every factor matrix column by
column. -/
def tovec [Zero α] (K : Ktensor α) (includeWeights : Bool) : List α :=
  (if includeWeights then K.weights else []) ++
    K.factors.flatMap fun A => (List.range K.ncomp).flatMap fun r => A.col r

/-- `ktensor.from_vector(data, shape, contains_weights)`. -/
def fromVector [Zero α] [One α] (data : List α) (shape : List Nat) (cw : Bool) : Except Reject (Ktensor α) :=
  let tot := shape.sum + (if cw then 1 else 0)
  if tot == 0 then .error .reject                       -- division by zero
  else if data.length % tot != 0 then .error .reject
  else if shape.length == 0 then .error .reject        -- constructor without factor matrices
  else
    let R := data.length / tot
    let weights := if cw then data.take R else List.replicate R 1
    let shift := if cw then R else 0
    .ok ⟨weights, (List.range shape.length).map fun n =>
      let sn := shape.getD n 0
      reshapeCols ((data.drop (R * (shape.take n).sum + shift)).take (R * sn)) sn R⟩

/-- State of the loop of `update`: position in `data`, current tensor. -/
def updateStep [Zero α] (data : List α) (st : Nat × Ktensor α) (k : Int) : Except Reject (Nat × Ktensor α) :=
  let (loc, K) := st
  if k == -1 then
    let endloc := loc + K.ncomp
    if decide (data.length < endloc) then .error .reject
    else .ok (endloc, ⟨(data.drop loc).take K.ncomp, K.factors⟩)
  else if decide (k < (K.ndims : Int)) then
    match wrapIdx k K.ndims with
    | none => .error .reject                           -- `self.shape[k]`
    | some n =>
      let sn := (K.factors.getD n []).length
      let endloc := loc + sn * K.ncomp
      if decide (data.length < endloc) then .error .reject
      else .ok (endloc, ⟨K.weights, K.factors.set n (reshapeCols ((data.drop loc).take (sn * K.ncomp)) sn K.ncomp)⟩)
  else .error .reject

/-- `K.update(modes, data)`; `-1` stands for the weights.  Left-over data only warns. -/
def update [Zero α] (K : Ktensor α) (modes : List Int) (data : List α) : Except Reject (Ktensor α) :=
  if !((modes.zip modes.tail).all fun p => decide (p.1 ≤ p.2)) then .error .reject
  else (modes.foldlM (updateStep data) (0, K)).map (·.2)

/-- `K.tolist(mode)`. -/
def tolist [Mul α] [Div α] [Neg α] [Zero α] [One α] [LT α] [DecidableLT α]
    (S : Services α) (K : Ktensor α) (mode : Option Int) : Except Reject (List (Mat α)) :=
  match mode with
  | some m =>
    if inRange m K.ndims then (normalize S K.copy (some (.mode m)) false .two none).map (·.factors)
    else .error .reject
  | none =>
    if K.weights.all fun w => numEq w 1 then .ok K.factors
    else if K.ndims == 0 then .error .reject
    else
      let lsgn := K.weights.map signOf
      let D := K.weights.map fun w => S.root K.ndims (absOf w)
      .ok ((K.factors.set 0 ((K.factors.getD 0 []).scaleR lsgn)).map fun A => A.scaleR D)

/-! ### arithmetic -/

/-- `K + L`. -/
def add (K L : Ktensor α) : Except Reject (Ktensor α) :=
  if K.shape != L.shape then .error .reject
  else if K.ndims == 0 then .error .reject              -- constructor
  else .ok ⟨K.weights ++ L.weights, List.zipWith Mat.hcat K.factors L.factors⟩

/-- `K - L`. -/
def sub [Neg α] (K L : Ktensor α) : Except Reject (Ktensor α) :=
  if K.shape != L.shape then .error .reject
  else if K.ndims == 0 then .error .reject
  else .ok ⟨K.weights ++ L.weights.map (- ·), List.zipWith Mat.hcat K.factors L.factors⟩

/-- `-K`. -/
def neg [Neg α] (K : Ktensor α) : Except Reject (Ktensor α) :=
  if K.ndims == 0 then .error .reject else .ok ⟨K.weights.map (- ·), K.factors⟩

/-- `+K`. -/
def pos (K : Ktensor α) : Ktensor α := K.copy

/-- `K * c`, `c * K` for a Python number `c`. -/
def smul [Mul α] (c : α) (K : Ktensor α) : Except Reject (Ktensor α) :=
  if K.ndims == 0 then .error .reject else .ok ⟨K.weights.map (c * ·), K.factors⟩

/-- `K.isequal(L)` (`fixed = false`: the code before 8acb721, without the order test). -/
def isequalG [LT α] [DecidableLT α] (fixed : Bool) (K L : Ktensor α) : Except Reject Bool :=
  if K.ncomp != L.ncomp then .ok false
  else if fixed && K.ndims != L.ndims then .ok false
  else if !(K.weights.length == L.weights.length && (K.weights.zip L.weights).all fun p => numEq p.1 p.2) then .ok false
  else if decide (L.ndims < K.ndims) then .error .reject  -- `other.factor_matrices[k]` out of range
  else .ok ((List.range K.ndims).all fun k =>
    let A := K.factors.getD k []
    let B := L.factors.getD k []
    A.length == B.length && (A.zip B).all fun p =>
      p.1.length == p.2.length && (p.1.zip p.2).all fun q => numEq q.1 q.2)

def isequal [LT α] [DecidableLT α] (K L : Ktensor α) := isequalG true K L

/-! ### score -/

/-- `np.argmax` of a list (first maximum); 0 for the empty list. -/
def argmaxFirst [LT α] [DecidableLT α] : List α → Nat
  | [] => 0
  | x :: xs => (xs.foldl (fun (st : α × Nat × Nat) y =>
      if st.1 < y then (y, st.2.2, st.2.2 + 1) else (st.1, st.2.1, st.2.2 + 1)) (x, 0, 1)).2.1

/-- One round of the greedy matching on the `RA × RB` matrix `C` (list of rows):
take the first maximum in F order, add it to the score, blank its row and column with `-10`,
record the match. -/
def greedyStep [Add α] [LT α] [DecidableLT α] [Zero α] (RA RB : Nat) (blank : α)
    (st : Mat α × α × List Int) : Mat α × α × List Int :=
  let (C, sc, bp) := st
  let flat := (List.range RB).flatMap fun j => (List.range RA).map fun i => Mat.get C i j
  let idx := argmaxFirst flat
  let i := idx % RA
  let j := idx / RA
  let C' := (List.range RA).map fun a => (List.range RB).map fun b =>
    if a == i || b == j then blank else Mat.get C a b
  (C', sc + Mat.get C i j, bp.set j (i : Int))

/-- `best_perm[RB : RA + 1] = foo[~isin(foo, best_perm)]` -/
def completePerm (RA RB : Nat) (bp : List Int) : List Int :=
  bp.take RB ++ (((List.range RA).filter fun (a : Nat) => !(bp.contains (Int.ofNat a))).map Int.ofNat)

structure ScoreResult (α : Type) where
  score : α
  A : Ktensor α
  flag : Bool
  perm : List Int

/-- The set-up of `score`: both tensors normalised, and the matrix of (penalised)
congruences `C[ra][rb] = P[ra][rb] * ∏ₙ |A_n[:, ra] · B_n[:, rb]|`. -/
def scoreMatrix [Add α] [Sub α] [Mul α] [Div α] [Neg α] [Zero α] [One α] [LT α] [DecidableLT α]
    (S : Services α) (K other : Ktensor α) (weightPenalty : Bool) :
    Except Reject (Ktensor α × Ktensor α × Mat α) :=
  match normalize S K.copy none false .two none, normalize S other.copy none false .two none with
  | .ok A, .ok B =>
    let RA := A.ncomp
    let RB := B.ncomp
    let C0 : Mat α := (List.range RA).map fun ra => (List.range RB).map fun rb =>
      ((List.range A.ndims).map fun n =>
        absOf (dot ((A.factors.getD n []).col ra) ((B.factors.getD n []).col rb))).foldl (· * ·) 1
    let C1 : Mat α :=
      if weightPenalty then
        (List.range RA).map fun ra => (List.range RB).map fun rb =>
          let la := A.weights.getD ra 0
          let lb := B.weights.getD rb 0
          let P := if numEq la 0 && numEq lb 0 then 1
            else 1 - absOf (la - lb) / (if absOf la < absOf lb then absOf lb else absOf la)
          P * Mat.get C0 ra rb
      else C0
    .ok (A, B, C1)
  | _, _ => .error .reject

/-- `A.score(B, weight_penalty, threshold, greedy=True)`.  `ten`, `thrDefault`, `natCast` are
the literal `10`, `0.99 ** ndims` and the int-to-float conversion. -/
def score [Add α] [Sub α] [Mul α] [Div α] [Neg α] [Zero α] [One α] [LT α] [DecidableLT α]
    (S : Services α) (ten : α) (thrDefault : Nat → α) (natCast : Nat → α) (K other : Ktensor α)
    (weightPenalty : Bool) (threshold : Option α) : Except Reject (ScoreResult α) :=
  if K.shape != other.shape then .error .reject
  else
    let thr := threshold.getD (thrDefault K.ndims)
    if decide (thr < 0) || decide (1 < thr) then .error .reject
    else if decide (K.ncomp < other.ncomp) then .error .reject
    else
      match scoreMatrix S K other weightPenalty with
      | .error e => .error e
      | .ok (A, B, C1) =>
        let RA := A.ncomp
        let RB := B.ncomp
        if RB == 0 then .error .reject                 -- `best_score / RB`
        else
          let (_, total, bp) := (List.range RB).foldl (fun st _ => greedyStep RA RB (-ten) st)
            (C1, (0 : α), List.replicate RA (-1 : Int))
          let best := total / natCast RB
          let flag := !(decide (thr < best))
          let perm := completePerm RA RB bp
          match arrange S A none (some perm) with
          | .ok A' => .ok ⟨best, A', flag, perm⟩
          | .error e => .error e

/-- `A.score(B, weight_penalty, threshold, greedy)`: `assert greedy` is the first statement —
only the greedy matching is implemented. -/
def scoreG [Add α] [Sub α] [Mul α] [Div α] [Neg α] [Zero α] [One α] [LT α] [DecidableLT α]
    (S : Services α) (ten : α) (thrDefault : Nat → α) (natCast : Nat → α) (K other : Ktensor α)
    (weightPenalty : Bool) (threshold : Option α) (greedy : Bool) : Except Reject (ScoreResult α) :=
  if !greedy then .error .reject
  else score S ten thrDefault natCast K other weightPenalty threshold

end Ktensor
end Pyttb
