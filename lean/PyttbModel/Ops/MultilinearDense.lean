/-
C02 — dense kernels of `pyttb/tensor.py`: `ttv ttm mttkrp mttkrps ttt innerprod norm contract
collapse scale` (+ helpers `mttv_left mttv_mid min_split`, `get_mttkrp_factors`), composed, like
the code, from transpose / F-order reshape / matmul / dot.  Matrices are lists of rows
(`Mat`), vectors are lists.  Import-free.
-/
import PyttbModel.Ops.Dense
import PyttbModel.Core.Dims
namespace Pyttb

variable {α : Type}

namespace ML

/-- A result that may be a Python scalar, a dense tensor, a sparse tensor, or a bare 1-d
`ndarray`: one denotation for all of them. -/
inductive Res (α : Type) where
  | scalar (v : α)
  | dense (t : Dense α)
  | sparse (s : Sparse α)
  | vec (v : List α)
  deriving Repr, BEq, DecidableEq

/-- The entry of a result at a subscript (`[]` for a scalar). -/
def Res.get [Add α] [Zero α] : Res α → List Nat → α
  | .scalar v, _ => v
  | .dense t, i => t.get i
  | .sparse s, i => s.get i
  | .vec v, i => v.getD (i.getD 0 0) 0

def Res.shape : Res α → List Nat
  | .scalar _ => []
  | .dense t => t.shape
  | .sparse s => s.shape
  | .vec v => [v.length]

end ML

/-- A scalar-or-dense result as a `Res`. -/
def ScalarOr.toRes : ScalarOr α (Dense α) → ML.Res α
  | .scalar v => .scalar v
  | .obj t => .dense t

/-! ### NumPy primitives used by the kernels -/

/-- `Σ_{k<n} f k`. -/
def sumRange [Add α] [Zero α] (n : Nat) (f : Nat → α) : α := ((List.range n).map f).sum

/-- `np.reshape(data, (m, n), order="F")` as a list of rows: entry `[a, b] = data[a + m·b]`. -/
def reshape2 [Zero α] (data : List α) (m n : Nat) : Mat α :=
  (List.range m).map fun a => (List.range n).map fun b => data.getD (a + m * b) 0

/-- F-order ravel of an `m × n` matrix (what an F-order reshape of it starts from). -/
def Mat.flatF [Zero α] (A : Mat α) (m n : Nat) : List α :=
  (List.range n).flatMap fun b => (List.range m).map fun a => A.get a b

/-- `A @ B` with inner extent `k`, result `m × n`. -/
def Mat.mulD [Add α] [Mul α] [Zero α] (A B : Mat α) (m k n : Nat) : Mat α :=
  (List.range m).map fun a => (List.range n).map fun b => sumRange k fun c => A.get a c * B.get c b

/-- `A.dot(v)` for an `m × k` matrix. -/
def Mat.mulVec [Add α] [Mul α] [Zero α] (A : Mat α) (v : List α) (m k : Nat) : List α :=
  (List.range m).map fun a => sumRange k fun c => A.get a c * v.getD c 0

/-- `A.T` of an `m × n` matrix with explicit extents. -/
def Mat.tr [Zero α] (A : Mat α) (m n : Nat) : Mat α :=
  (List.range n).map fun b => (List.range m).map fun a => A.get a b

/-- All rows of `A` have length `n` and there are `m` of them (an `m × n` ndarray). -/
def Mat.isShape (A : Mat α) (m n : Nat) : Bool := A.length == m && A.all (fun r => r.length == n)

/-- Sorted modes paired with the multiplicand that belongs to each (the outcome of
`tt_dimscheck(N, len(mults), dims, exclude_dims)` followed by `mults[vidx[k]]`). -/
def resolveModes {β : Type} (N : Nat) (mults : List β) (dims excl : Option (List Int)) :
    Except Reject (List (Nat × β)) :=
  match dimscheck N (some mults.length) dims excl with
  | .error e => .error e
  | .ok ⟨sdims, some vidx⟩ =>
    if sdims.length != vidx.length then .error .reject else
    (sdims.zip vidx).mapM fun p =>
      match mults[p.2]? with
      | some x => if p.1 < N then .ok (p.1, x) else .error .reject
      | none => .error .reject
  | .ok ⟨_, none⟩ => .error .reject

/-- `tt_dimscheck(N, dims=dims)` alone: the sorted modes (all modes when `dims` is absent);
a mode outside `0..N-1` makes every caller fail on indexing. -/
def resolveDims (N : Nat) (dims : Option (List Int)) : Except Reject (List Nat) :=
  match dimscheck N none dims none with
  | .error e => .error e
  | .ok ⟨sdims, _⟩ => if sdims.all (· < N) && sdims.eraseDups.length == sdims.length then .ok sdims else .error .reject

namespace Dense

/-- `np.reshape(c, (P, L), order="F").dot(v)`. -/
def dotLast [Add α] [Mul α] [Zero α] (c : List α) (P L : Nat) (v : List α) : List α :=
  (reshape2 c P L).mulVec v P L

/-- The multiply loop of `tensor.ttv`: the highest remaining mode is contracted first.
`vs` lists the vectors for the trailing modes, last mode first. -/
def ttvLoop [Add α] [Mul α] [Zero α] (c : List α) (sz : List Nat) : List (List α) → List α × List Nat
  | [] => (c, sz)
  | v :: vs => ttvLoop (dotLast c (numel sz.dropLast) (sz.getLastD 0) v) sz.dropLast vs

/-- `tensor.ttv` after `tt_dimscheck`: `pairs` = sorted modes with their vectors. -/
def ttvCore [Add α] [Mul α] [Zero α] (T : Dense α) (pairs : List (Nat × List α)) :
    Except Reject (ScalarOr α (Dense α)) :=
  let N := T.shape.length
  let sdims := pairs.map (·.1)
  if pairs.any (fun p => p.2.length != T.shape.getD p.1 0) then .error .reject
  else if sdims.eraseDups.length != sdims.length then .error .reject
  else
    let rem := complDims N sdims
    let order := rem ++ sdims
    let c := if N > 1 then (T.transpose order).data else T.data
    let sz := gather T.shape order
    let r := ttvLoop c sz (pairs.reverse.map (·.2))
    if r.2.length > 0 then .ok (.obj ⟨r.2, r.1⟩) else .ok (.scalar (r.1.getD 0 0))

/-- `tensor.ttv(vectors, dims, exclude_dims)`. -/
def ttv [Add α] [Mul α] [Zero α] (T : Dense α) (vs : List (List α)) (dims excl : Option (List Int)) :
    Except Reject (ScalarOr α (Dense α)) :=
  match resolveModes T.shape.length vs dims excl with
  | .error e => .error e
  | .ok pairs => T.ttvCore pairs

/-- `tensor.ttm(matrix, n, transpose)` for one `p × q` matrix given with its extents. -/
def ttmMode [Add α] [Mul α] [Zero α] (T : Dense α) (M : Mat α) (p q : Nat) (n : Nat) (tr : Bool) :
    Except Reject (Dense α) :=
  let N := T.shape.length
  if n ≥ N then .error .reject else
  let sn := T.shape.getD n 0
  let order := n :: (List.range N).filter (· != n)
  match T.permute order with
  | .error e => .error e
  | .ok P =>
    let rest := numel (gather T.shape ((List.range N).filter (· != n)))
    let X := reshape2 P.data sn rest
    -- transpose: M.T @ X needs M to have `sn` rows; plain: M @ X needs `sn` columns
    if (if tr then p else q) != sn then .error .reject else
    let pp := if tr then q else p
    let Y := if tr then (M.tr p q).mulD X q sn rest else M.mulD X p sn rest
    let newshape := pp :: gather T.shape ((List.range N).filter (· != n))
    let Yd : Dense α := ⟨newshape, Y.flatF pp rest⟩
    .ok ⟨gather newshape (invPerm order), (Yd.transpose (invPerm order)).data⟩

/-- A matrix argument together with its NumPy shape. -/
structure MatArg (α : Type) where
  rows : Mat α
  m : Nat
  n : Nat
  deriving Repr, BEq, DecidableEq

/-- `tensor.ttm(list, dims, exclude_dims, transpose)`: one single-mode product per selected
mode, in increasing mode order. -/
def ttmList [Add α] [Mul α] [Zero α] (T : Dense α) (pairs : List (Nat × MatArg α)) (tr : Bool) :
    Except Reject (Dense α) :=
  pairs.foldlM (fun Y p => Y.ttmMode p.2.rows p.2.m p.2.n p.1 tr) T

def ttm [Add α] [Mul α] [Zero α] (T : Dense α) (Ms : List (MatArg α)) (dims excl : Option (List Int))
    (tr : Bool) : Except Reject (Dense α) :=
  match resolveModes T.shape.length Ms dims excl with
  | .error e => .error e
  | .ok [] => .error .reject          -- `matrix[vidx[0]]` on an empty selection
  | .ok pairs => T.ttmList pairs tr

end Dense

/-- `get_mttkrp_factors(U, n, ndims)` for a Kruskal operand: the weights are absorbed into
mode 1 when `n = 0`, otherwise into mode 0 (`redistribute` on a copy). -/
def absorbWeights [Mul α] (weights : List α) (factors : List (Mat α)) (n : Nat) : List (Mat α) :=
  let m := if n == 0 then 1 else 0
  (List.range factors.length).map fun k =>
    let A := factors.getD k []
    if k == m then A.map fun row => List.zipWith (· * ·) row weights else A

/-- The operand of an `mttkrp`: a plain list of factor matrices or a Kruskal tensor. -/
inductive KOperand (α : Type) where
  | list (U : List (Mat α))
  | kruskal (K : Ktensor α)
  deriving Repr, BEq, DecidableEq

def getMttkrpFactors [Mul α] (U : KOperand α) (n N : Nat) : Except Reject (List (Mat α)) :=
  let fs := match U with
    | .list U => U
    | .kruskal K => absorbWeights K.weights K.factors n
  -- `redistribute(1)` on a 1-way Kruskal tensor indexes past the factor list
  match U with
  | .kruskal K => if (if n == 0 then 1 else 0) ≥ K.factors.length then .error .reject
                  else if fs.length != N then .error .reject else .ok fs
  | .list _ => if fs.length != N then .error .reject else .ok fs

namespace Dense

/-- `tensor.mttkrp(U, n)` for factor matrices already extracted: three branches. -/
def mttkrpCore [Add α] [Mul α] [Zero α] (T : Dense α) (U : List (Mat α)) (n : Nat) :
    Except Reject (Mat α) :=
  let N := T.shape.length
  if N < 2 then .error .reject
  else if U.length != N then .error .reject
  else
    let R := if n == 0 then (U.getD 1 []).ncols else (U.getD 0 []).ncols
    if (List.range N).any (fun i => i != n && (U.getD i []).length != T.shape.getD i 0) then .error .reject
    else
      let szl := numel (T.shape.take n)
      let szr := numel (T.shape.drop (n + 1))
      let szn := T.shape.getD n 0
      if n == 0 then
        match khatrirao (U.drop 1) true with
        | .error e => .error e
        | .ok Ur => .ok ((reshape2 T.data szn szr).mulD Ur szn szr R)
      else if n == N - 1 then
        match khatrirao (U.take (N - 1)) true with
        | .error e => .error e
        | .ok Ul => .ok (((reshape2 T.data szl szn).tr szl szn).mulD Ul szn szl R)
      else
        match khatrirao (U.drop (n + 1)) true, khatrirao (U.take n) true with
        | .ok Ul, .ok Ur =>
          -- both Khatri-Rao products must have R columns for the slices to multiply
          if Ul.ncols != R || Ur.ncols != R then .error .reject else
          let Y := (reshape2 T.data (szl * szn) szr).mulD Ul (szl * szn) szr R
          -- Y reshaped (szl, szn, R); V[j, r] = Σ_a Y[a + szl·j, r] · Ur[a, r]
          .ok ((List.range szn).map fun j => (List.range R).map fun r =>
            sumRange szl fun a => Y.get (a + szl * j) r * Ur.get a r)
        | _, _ => .error .reject

def mttkrp [Add α] [Mul α] [Zero α] (T : Dense α) (U : KOperand α) (n : Nat) : Except Reject (Mat α) :=
  if T.shape.length < 2 then .error .reject else
  match getMttkrpFactors U n T.shape.length with
  | .error e => .error e
  | .ok fs => T.mttkrpCore fs n

end Dense

/-- `min_split(shape)`: modes `0..idx` go left while that lowers `m_left + m_right`. -/
def minSplit (shape : List Nat) : Nat :=
  match shape with
  | [] => 0
  | s0 :: rest =>
    let rec go (mLeft mRight idx idxMin : Nat) : List Nat → Nat
      | [] => idxMin
      | s :: ss =>
        let mRight' := mRight / s
        if mLeft < mRight' then go (mLeft * s) mRight' (idx + 1) idx ss else idxMin
    go s0 (numel rest) 1 0 rest

/-- `mttv_left(W, U1)`: `W` is `(m1·m2…, C)`; contract the leading mode with `U1` column-wise. -/
def mttvLeft [Add α] [Mul α] [Zero α] (W : Mat α) (wrows : Nat) (U1 : Mat α) (r : Nat) : Mat α × Nat :=
  let m1 := U1.length
  let rest := wrows / m1
  -- W reshaped (m1, rest, r) F order: W3[a, b, j] = W[a + m1·b, j]
  ((List.range rest).map fun b => (List.range r).map fun j =>
    sumRange m1 fun a => W.get (a + m1 * b) j * U1.get a j, rest)

/-- `mttv_mid(W, U_mid)`: contract all but the leading mode with the Khatri-Rao product. -/
def mttvMid [Add α] [Mul α] [Zero α] (W : Mat α) (wrows : Nat) (Umid : List (Mat α)) :
    Except Reject (Mat α) :=
  if Umid.isEmpty then .ok W else
  match khatrirao Umid true with
  | .error e => .error e
  | .ok K =>
    let r := K.ncols
    let kr := K.length
    let lead := wrows / kr
    -- W reshaped (lead, kr, r): W3[a, b, j] = W[a + lead·b, j]
    .ok ((List.range lead).map fun a => (List.range r).map fun j =>
      sumRange kr fun b => W.get (a + lead * b) j * K.get b j)

namespace Dense

/-- One of the two loops of `tensor.mttkrps`: for `k = k₀, k₀+1, …` (`fuel` iterations)
`V[k] = mttv_mid(W, U[k+1 : stop])`, then `W = mttv_left(W, U[k])`.  Returns the `V[k]` and the last `W`. -/
def mttkrpsLoop [Add α] [Mul α] [Zero α] (fs : List (Mat α)) (C stop : Nat) :
    Nat → Nat → Mat α → Nat → Except Reject (List (Mat α) × Mat α)
  | 0, _, W, _ => .ok ([], W)
  | fuel + 1, k, W, wr =>
    match mttvMid W wr ((fs.drop (k + 1)).take (stop - (k + 1))) with
    | .error e => .error e
    | .ok V =>
      let Uk := fs.getD k []
      if Uk.length == 0 || wr % Uk.length != 0 then .error .reject else
      match mttkrpsLoop fs C stop fuel (k + 1) (mttvLeft W wr Uk C).1 (mttvLeft W wr Uk C).2 with
      | .error e => .error e
      | .ok (Vs, Wf) => .ok (V :: Vs, Wf)

/-- `tensor.mttkrps` for factor matrices and a given split index: modes `0..split` are handled from
the partial product with the right Khatri-Rao factor, modes `split+1..N-1` from the one with the left. -/
def mttkrpsAt [Add α] [Mul α] [Zero α] (T : Dense α) (fs : List (Mat α)) (split : Nat) :
    Except Reject (List (Mat α)) :=
  let N := T.shape.length
  let total := numel T.shape
  match khatrirao (fs.drop (split + 1)) true with
  | .error e => .error e
  | .ok K =>
    let C := K.ncols
    if K.length == 0 || total % K.length != 0 then .error .reject else
    let wr0 := total / K.length
    let W0 := (reshape2 T.data wr0 K.length).mulD K wr0 K.length C
    match mttkrpsLoop fs C (split + 1) split 0 W0 wr0 with
    | .error e => .error e
    | .ok (accA, Wa) =>
      match khatrirao (fs.take (split + 1)) true with
      | .error e => .error e
      | .ok K2 =>
        if K2.length == 0 || total % K2.length != 0 || K2.ncols != C then .error .reject else
        let wr1 := total / K2.length
        let W1 := ((reshape2 T.data K2.length wr1).tr K2.length wr1).mulD K2 wr1 K2.length C
        match mttkrpsLoop fs C N (N - 1 - (split + 1)) (split + 1) W1 wr1 with
        | .error e => .error e
        | .ok (accB, Wb) => .ok (accA ++ [Wa] ++ accB ++ [Wb])

/-- `tensor.mttkrps(U)` (after the fix: the weights of a Kruskal operand scale every column). -/
def mttkrps [Add α] [Mul α] [Zero α] (T : Dense α) (U : KOperand α) : Except Reject (List (Mat α)) :=
  let fs := match U with | .list U => U | .kruskal K => K.factors
  let weights : Option (List α) := match U with | .list _ => none | .kruskal K => some K.weights
  if fs.length != T.shape.length then .error .reject else
  match T.mttkrpsAt fs (minSplit T.shape) with
  | .error e => .error e
  | .ok V =>
    match weights with
    | none => .ok V
    | some w => .ok (V.map fun M => M.map fun row => List.zipWith (· * ·) row w)

/-- `tensor.innerprod(tensor)`. -/
def innerprod [Add α] [Mul α] [Zero α] (A B : Dense α) : Except Reject α :=
  if A.shape != B.shape then .error .reject
  else .ok (List.zipWith (· * ·) A.data B.data).sum

/-- Square of `tensor.norm()` (`np.linalg.norm` = square root of the sum of squares). -/
def normSq [Add α] [Mul α] [Zero α] (A : Dense α) : α := (A.data.map fun x => x * x).sum

/-- `tensor.contract(i1, i2)`. -/
def contract [Add α] [Zero α] (T : Dense α) (i1 i2 : Nat) : Except Reject (ScalarOr α (Dense α)) :=
  let N := T.shape.length
  if i1 ≥ N || i2 ≥ N then .error .reject
  else if T.shape.getD i1 0 != T.shape.getD i2 0 then .error .reject
  else if i1 == i2 then .error .reject
  else if N == 2 then
    -- np.trace(self.data)
    let m := T.shape.getD 0 0
    .ok (.scalar (sumRange (T.shape.getD i1 0) fun k => T.data.getD (k + m * k) 0))
  else
    let rem := complDims N [i1, i2]
    let newsize := gather T.shape rem
    let m := numel newsize
    let n := T.shape.getD i1 0
    match T.permute (rem ++ [i1, i2]) with
    | .error e => .error e
    | .ok x =>
      -- data reshaped (m, n, n); add the diagonal slices
      .ok (.obj ⟨newsize, (List.range m).map fun a => sumRange n fun k => x.data.getD (a + m * k + m * n * k) 0⟩)

/-- `tensor.collapse(dims, fun)`. -/
def collapse [Zero α] (T : Dense α) (dims : Option (List Int)) (f : List α → α) :
    Except Reject (ScalarOr α (Dense α)) :=
  let N := T.shape.length
  match resolveDims N dims with
  | .error e => .error e
  | .ok sdims =>
    if sdims.isEmpty then .ok (.obj T) else
    let rem := complDims N sdims
    if rem.isEmpty then .ok (.scalar (f T.data))
    else
      match T.toTenmat (some rem) (some sdims) none with
      | .error e => .error e
      | .ok A =>
        let m := A.data.shape.getD 0 0
        let n := A.data.shape.getD 1 0
        .ok (.obj ⟨gather T.shape rem, (reshape2 A.data.data m n).map f⟩)

/-- `tensor.scale(factor, dims)`: both sides are matricized with the scaled modes as rows, the
factor column is broadcast along the rows, and the product is folded back. -/
def scale [Mul α] [Zero α] (T : Dense α) (F : Dense α) (dims : List Int) : Except Reject (Dense α) :=
  let N := T.shape.length
  match resolveDims N (some dims) with
  | .error e => .error e
  | .ok sdims =>
    let rem := complDims N sdims
    if F.shape != gather T.shape sdims then .error .reject else
    match T.toTenmat (some sdims) (some rem) none with
    | .error e => .error e
    | .ok A =>
      let m := A.data.shape.getD 0 0
      let n := A.data.shape.getD 1 0
      -- numpy broadcasting of the factor column along the rows
      let prod : Mat α := (List.range m).map fun a => (List.range n).map fun b =>
        (reshape2 A.data.data m n).get a b * F.data.getD a 0
      .ok (Tenmat.toTensor ⟨T.shape, sdims, rem, ⟨[m, n], prod.flatF m n⟩⟩)

/-- `tensor.ttt(other, selfdims, otherdims)` through two matricizations and a matrix product. -/
def ttt [Add α] [Mul α] [Zero α] (X Y : Dense α) (xd yd : List Nat) : Except Reject (ScalarOr α (Dense α)) :=
  if xd.any (· ≥ X.shape.length) || yd.any (· ≥ Y.shape.length) then .error .reject
  else if gather X.shape xd != gather Y.shape yd then .error .reject
  else
    match X.toTenmat none (some xd) none, Y.toTenmat (some yd) none none with
    | .ok A, .ok B =>
      let m := A.data.shape.getD 0 0
      let k := A.data.shape.getD 1 0
      let k' := B.data.shape.getD 0 0
      let n := B.data.shape.getD 1 0
      if k != k' then .error .reject else
      let C := (reshape2 A.data.data m k).mulD (reshape2 B.data.data k n) m k n
      let tshape := gather A.tshape A.rdims ++ gather B.tshape B.cdims
      if tshape.isEmpty then .ok (.scalar (C.get 0 0))
      else
        let nr := A.rdims.length
        .ok (.obj (Tenmat.toTensor ⟨tshape, List.range nr, (List.range B.cdims.length).map (· + nr),
                                    ⟨[m, n], C.flatF m n⟩⟩))
    | _, _ => .error .reject

end Dense
end Pyttb
