/-
C02 — `tensor.ttsv(vector, skip_dim, version)` (pyttb/tensor.py): the same vector in every mode
after the first `skip_dim + 1`.  Both code paths, branch by branch:
`version = 1` builds the list of `ndims` copies of the vector and calls `ttv(..., exclude_dims =
0..skip_dim)`; the default (`version = 2` / `None`) requires a cubical tensor and multiplies the last
mode out `ndims - skip_dim - 1` times with `reshape(y, (sz^k, sz), order="F").dot(vector)`.
The result is a Python scalar, a 1-d ndarray, a 2-d ndarray or a tensor.  Import-free.
-/
import PyttbModel.Ops.MultilinearDense
namespace Pyttb

variable {α : Type}

namespace ML

/-- The `version` argument of `ttsv`: absent, 1, 2, or anything else. -/
inductive TtsvVer where
  | default | v1 | v2 | other
  deriving Repr, BEq, DecidableEq

/-- What `ttsv` returns: a Python scalar, a 1-d `ndarray`, a 2-d `ndarray` (kept as its shape and
F-order data) or a `tensor`. -/
inductive TtsvRes (α : Type) where
  | scalar (v : α)
  | vec (v : List α)
  | mat (t : Dense α)
  | tensor (t : Dense α)
  deriving Repr, BEq, DecidableEq

/-- The entry of a `ttsv` result at a subscript (a scalar has the one entry). -/
def TtsvRes.get [Zero α] : TtsvRes α → List Nat → α
  | .scalar v, _ => v
  | .vec v, i => v.getD (i.getD 0 0) 0
  | .mat t, i => t.get i
  | .tensor t, i => t.get i

def TtsvRes.shape : TtsvRes α → List Nat
  | .scalar _ => []
  | .vec v => [v.length]
  | .mat t => t.shape
  | .tensor t => t.shape

/-- Which of the four kinds a result is: 0 scalar, 1 vector, 2 matrix, 3 tensor. -/
def TtsvRes.kind : TtsvRes α → Nat
  | .scalar _ => 0
  | .vec _ => 1
  | .mat _ => 2
  | .tensor _ => 3

end ML

namespace Dense

/-- The multiply loop of the default version, `for i in range(drem, 0, -1)`:
`y = reshape(y, (sz^(dnew+i-1), sz), order="F").dot(vector)`; the first argument counts the
iterations that are left (`i`). -/
def ttsvLoop [Add α] [Mul α] [Zero α] (x : List α) (sz dnew : Nat) : Nat → List α → List α
  | 0, y => y
  | i + 1, y => ttsvLoop x sz dnew i (dotLast y (sz ^ (dnew + i)) sz x)

/-- The head of `ttsv`: `skip_dim` absent counts as `-1`; a given `skip_dim` must be a mode. -/
def ttsvSkip (d : Nat) (skip : Option Int) : Except Reject Int :=
  match skip with
  | none => .ok (-1)
  | some s => if s < 0 || s ≥ (d : Int) then .error .reject else .ok s

/-- `version == 1`: `X = np.array([vector] * ndims)`, `self.ttv(X, exclude_dims = arange(skip_dim + 1))`
(no `exclude_dims` when `skip_dim` is absent); for `skip_dim` 0 or 1 the tensor result is turned into
an `ndarray` with `.double()` (which a scalar result does not have). -/
def ttsvV1 [Add α] [Mul α] [Zero α] (T : Dense α) (x : List α) (skip : Option Int) (s : Int) :
    Except Reject (ML.TtsvRes α) :=
  let d := T.shape.length
  let excl : Option (List Int) := skip.map fun _ => (List.range (s + 1).toNat).map Int.ofNat
  match T.ttv (List.replicate d x) none excl with
  | .error e => .error e
  | .ok (.scalar v) => if s == 0 || s == 1 then .error .reject else .ok (.scalar v)
  | .ok (.obj t) =>
    if s == 0 then .ok (.vec t.data) else if s == 1 then .ok (.mat t) else .ok (.tensor t)

/-- `version == 2` or absent: all extents equal `sz = shape[0]`, the vector has length `sz` when a
mode is multiplied; the loop; then a matrix for two result modes, a tensor for more, the single entry as a
scalar when every mode was multiplied out (`if dnew == 0`, after the fix 0527d3b), else the vector. -/
def ttsvV2 [Add α] [Mul α] [Zero α] (T : Dense α) (x : List α) (s : Int) : Except Reject (ML.TtsvRes α) :=
  let d := T.shape.length
  match T.shape with
  | [] => .error .reject            -- `self.shape[0]`
  | sz :: _ =>
    let dnew := (s + 1).toNat
    let drem := d - dnew
    if T.shape.any (· != sz) then .error .reject
    else if drem > 0 && x.length != sz then .error .reject
    else
      let y := ttsvLoop x sz dnew drem T.data
      if dnew == 2 then .ok (.mat ⟨[sz, sz], y⟩)
      else if dnew > 2 then .ok (.tensor ⟨List.replicate dnew sz, y⟩)
      else if dnew == 0 then .ok (.scalar (y.getD 0 0))
      else .ok (.vec y)

/-- `tensor.ttsv(vector, skip_dim, version)`. -/
def ttsv [Add α] [Mul α] [Zero α] (T : Dense α) (x : List α) (skip : Option Int) (ver : ML.TtsvVer) :
    Except Reject (ML.TtsvRes α) :=
  match ttsvSkip T.shape.length skip with
  | .error e => .error e
  | .ok s =>
    match ver with
    | .v1 => T.ttsvV1 x skip s
    | .v2 => T.ttsvV2 x s
    | .default => T.ttsvV2 x s
    | .other => .error .reject

end Dense
end Pyttb
