/-
The Python SPELLING of an index key, as far as `get_index_variant` (pyttb_utils.py) and the
dispatch at the top of `tensor.__setitem__` / `sptensor.__setitem__` look at it, and the two
argument conventions of `sptensor.extract` (a `p × n` array, or ONE full subscript as a 1-d
vector).  The operation models of `Ops/Index.lean` / `Ops/IndexSparse.lean` start after this
dispatch (their `Key` is already classified); this file models the step in front of them.
Import-free.
-/
import PyttbModel.Ops.Index
import PyttbModel.Ops.IndexSparse
namespace Pyttb

variable {α : Type}

/-- Python type of one element of a sequence used as a key. -/
inductive KElem where
  /-- `int` (also `bool`, a subclass of `int`) -/
  | pyInt
  /-- a NumPy integer scalar (`np.int64`, …): NOT an `int` -/
  | npInt
  /-- `float`, NumPy floating scalar -/
  | pyFloat
  /-- a list, tuple or array -/
  | seq
  /-- anything else (`None`, a `str`, …) -/
  | other
  deriving Repr, DecidableEq

/-- Python type of the key object of `X[key]`. -/
inductive KeyObj where
  /-- `int` (also `bool`) -/
  | pyInt
  /-- NumPy integer scalar -/
  | npInt
  | slice
  /-- `np.ndarray` with `ndim` axes -/
  | ndarray (ndim : Nat)
  | tuple
  /-- any other `collections.abc.Sequence` (a list, a `range`, a `str`) with its element types.
  `getIndexVariant` is exact for all of them; `setItemObj` reads it as a LIST (`__setitem__`
  converts a list with `np.array(key)`; a `range` passes the dispatcher as LINEAR and fails
  later, inside `_set_linear` - not modelled) -/
  | seq (elems : List KElem)
  /-- anything else: `float`, `None`, `Ellipsis`, a dict, a set, … -/
  | other
  deriving Repr, DecidableEq

/-- `IndexVariant`. -/
inductive Variant where
  | unknown | linear | subtensor | subscripts
  deriving Repr, DecidableEq

/-- `get_index_variant(indices)`, branch by branch.
* `isinstance(indices, (int, np.integer, slice))` → LINEAR;
* an array: 1-d → LINEAR, anything else → SUBSCRIPTS;
* a tuple → SUBTENSOR;
* another Sequence whose FIRST element is an `int` (`indices[0]` raises `IndexError` on an empty
  one): `key = np.array(indices)` raises on a ragged nesting (an element that is itself a
  sequence next to the integer), otherwise `key` is 1-d → LINEAR (the second disjunct
  `key.shape[1] == 1` is never evaluated: a sequence starting with an `int` cannot become a
  2-d array);
* everything else → UNKNOWN. -/
def getIndexVariant : KeyObj → Except Reject Variant
  | .pyInt => .ok .linear
  | .npInt => .ok .linear
  | .slice => .ok .linear
  | .ndarray d => .ok (if d = 1 then .linear else .subscripts)
  | .tuple => .ok .subtensor
  | .seq [] => .error .reject
  | .seq (.pyInt :: es) => if es.any (· == .seq) then .error .reject else .ok .linear
  | .seq (_ :: _) => .ok .unknown
  | .other => .ok .unknown

/-- The access kind an (already classified) key of the operation models belongs to. -/
def Key.variant : Key → Variant
  | .region _ => .subtensor
  | .subs _ => .subscripts
  | _ => .linear

/-- The documented spellings of a key (`IndexType = Union[int, np.integer, slice,
Sequence[int], np.ndarray]`, a tuple for a region): an integer is a Python int or a NumPy
integer scalar; linear indices are a 1-d array or a NON-EMPTY list of Python ints (also the
one-element list); subscripts are a 2-d array; a region is a tuple. -/
def Key.forms : Key → List KeyObj
  | .lin _ => [.pyInt, .npInt]
  | .linSlice _ _ _ => [.slice]
  | .linList is => .ndarray 1 :: (if is.isEmpty then [] else [.seq (is.map fun _ => .pyInt)])
  | .subs _ => [.ndarray 2]
  | .region _ => [.tuple]

namespace Dense

/-- `tensor.__setitem__(key, value)` in front of the operation model: `o` is the Python type
of the key object, `k` its content read as the kind the dispatcher decided for.  An
unrecognised key ends in `assert False, "Invalid use of tensor setitem"`. -/
def setItemObj [Zero α] (T : Dense α) (o : KeyObj) (k : Key) (rhs : Rhs α) : Except Reject (Dense α) :=
  match getIndexVariant o with
  | .error e => .error e
  | .ok .subtensor =>
    match k with
    | .region parts => T.setSubtensor parts rhs
    | _ => .error .reject
  | .ok .subscripts =>
    match k with
    | .subs rows => T.setSubscripts rows rhs
    | _ => .error .reject
  | .ok .linear =>
    match k with
    | .region _ => .error .reject
    | .subs _ => .error .reject
    | k => T.setLinear k rhs
  | .ok .unknown => .error .reject

end Dense

namespace Sparse

/-- `sptensor.__setitem__(key, value)` in front of the operation model.  The "empty tensor
and empty right-hand side" shortcut comes BEFORE the dispatch; an unrecognised key ends in
`raise ValueError("Unknown assignment type")`. -/
def setItemObj [Zero α] [BEq α] (S : Sparse α) (o : KeyObj) (k : Key) (rhs : Rhs α) :
    Except Reject (Sparse α) :=
  if S.vals.isEmpty && rhs.isEmptyValue then .ok S
  else
    match getIndexVariant o with
    | .error e => .error e
    | .ok .unknown => .error .reject
    | .ok v => if v = k.variant then S.setItem k rhs else .error .reject

end Sparse

/-- The argument of `sptensor.extract`: a `p × n` array of subscripts, or one full subscript
as a 1-d vector. -/
inductive SubsArg where
  | mat (rows : List (List Nat))
  | vec (row : List Nat)
  deriving Repr, DecidableEq

/-- `if len(searchsubs.shape) > 1: … else: searchsubs = searchsubs[np.newaxis, :]`. -/
def SubsArg.rows : SubsArg → List (List Nat)
  | .mat rows => rows
  | .vec row => [row]

/-- `sptensor.extract(searchsubs)` for both argument conventions: a column of `p` values. -/
def Sparse.extractArg [Zero α] (S : Sparse α) (a : SubsArg) : Except Reject (List α) :=
  S.extract a.rows

end Pyttb
