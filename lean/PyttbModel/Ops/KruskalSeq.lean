/-
Sequences of Kruskal re-parameterisations on a small environment of live objects (Kruskal
tensors, parameter vectors, factor lists).  Each step is one call of `ktensor.py`; the value
semantics is functional: an in-place method replaces the slot of its receiver, a method that
returns a new object appends a slot, every other slot stays as it is.  (That the real objects
are physically independent of one another is C05's subject — `C05_inplace_only_ktensor`,
`C05_fresh_ktensor_ops`; the harness checks it bit for bit on every step.)  Import-free.
-/
import PyttbModel.Ops.KruskalReparam
import PyttbModel.Ops.Symmetrize
namespace Pyttb
namespace Ktensor

variable {α : Type}

/-- live objects of a sequence -/
structure Env (α : Type) where
  ks : List (Ktensor α)
  vs : List (List α)
  ls : List (List (Mat α))

inductive SeqOp where
  -- in place on slot `k`
  | normalize (k : Nat) (wf : Option WeightFactor) (sort : Bool) (nt : NormType) (mode : Option Int)
  | arrange (k : Nat) (wf : Option Int) (perm : Option (List Int))
  | fixsigns (k : Nat)
  | fixsignsRef (k other : Nat)
  | redistribute (k : Nat) (mode : Int)
  | update (k : Nat) (modes : List Int) (v : Nat)
  -- new objects
  | tovec (k : Nat) (w : Bool)
  | fromVector (v : Nat) (shape : List Nat) (w : Bool)
  | extract (k : Nat) (idx : List Int)
  | copy (k : Nat)
  | add (a b : Nat)
  | sub (a b : Nat)
  | tolist (k : Nat) (mode : Option Int)
  | construct (l : Nat)
  | smul (k : Nat) (c : Int)          -- `c * K` / `K * c`
  | neg (k : Nat)
  | pos (k : Nat)
  | permute (k : Nat) (order : List Nat)
  | symmetrize (k : Nat)
  | reconstruct (k : Nat)             -- `ktensor(K.factor_matrices, K.weights, copy=True)`

/-- the slot an in-place step writes, if any -/
def SeqOp.target : SeqOp → Option Nat
  | .normalize k .. => some k
  | .arrange k .. => some k
  | .fixsigns k => some k
  | .fixsignsRef k _ => some k
  | .redistribute k _ => some k
  | .update k .. => some k
  | _ => none

def getK (E : Env α) (k : Nat) : Except Reject (Ktensor α) :=
  match E.ks[k]? with
  | some K => .ok K
  | none => .error .reject

def setK (E : Env α) (k : Nat) (K : Ktensor α) : Env α := ⟨E.ks.set k K, E.vs, E.ls⟩
def pushK (E : Env α) (K : Ktensor α) : Env α := ⟨E.ks ++ [K], E.vs, E.ls⟩

/-- one call -/
def runStep [Add α] [Mul α] [Div α] [Neg α] [Zero α] [One α] [NatCast α] [IntCast α] [LT α] [DecidableLT α]
    (S : Services α) (E : Env α) : SeqOp → Except Reject (Env α)
  | .normalize k wf sort nt mode => do
    let K ← getK E k
    let K' ← normalize S K wf sort nt mode
    pure (setK E k K')
  | .arrange k wf perm => do
    let K ← getK E k
    let K' ← arrange S K wf perm
    pure (setK E k K')
  | .fixsigns k => do
    let K ← getK E k
    pure (setK E k (fixsigns K))
  | .fixsignsRef k o => do
    let K ← getK E k
    let O ← getK E o
    let K' ← fixsignsRef S K O
    pure (setK E k K')
  | .redistribute k mode => do
    let K ← getK E k
    let K' ← redistribute K mode
    pure (setK E k K')
  | .update k modes v => do
    let K ← getK E k
    match E.vs[v]? with
    | none => .error .reject
    | some data =>
      let K' ← update K modes data
      pure (setK E k K')
  | .tovec k w => do
    let K ← getK E k
    pure ⟨E.ks, E.vs ++ [tovec K w], E.ls⟩
  | .fromVector v shape w =>
    match E.vs[v]? with
    | none => .error .reject
    | some data => do
      let K ← fromVector data shape w
      pure (pushK E K)
  | .extract k idx => do
    let K ← getK E k
    let K' ← extract K (.list idx)
    pure (pushK E K')
  | .copy k => do
    let K ← getK E k
    pure (pushK E K.copy)
  | .add a b => do
    let A ← getK E a
    let B ← getK E b
    let C ← add A B
    pure (pushK E C)
  | .sub a b => do
    let A ← getK E a
    let B ← getK E b
    let C ← sub A B
    pure (pushK E C)
  | .tolist k mode => do
    let K ← getK E k
    let fs ← tolist S K mode
    pure ⟨E.ks, E.vs, E.ls ++ [fs]⟩
  | .construct l =>
    match E.ls[l]? with
    | none => .error .reject
    | some fs => do
      let K ← construct fs none
      pure (pushK E K)
  | .smul k c => do
    let K ← getK E k
    let K' ← smul (c : α) K
    pure (pushK E K')
  | .neg k => do
    let K ← getK E k
    let K' ← neg K
    pure (pushK E K')
  | .pos k => do
    let K ← getK E k
    pure (pushK E K.pos)
  | .permute k order => do
    let K ← getK E k
    let K' ← permute K order
    pure (pushK E K')
  | .symmetrize k => do
    let K ← getK E k
    let K' ← Sym.ksymmetrize
      (fun K0 => match normalize S K0.copy (some .all) false .two none with | .ok K1 => K1 | .error _ => K0) K
    pure (pushK E K')
  | .reconstruct k => do
    let K ← getK E k
    let K' ← construct K.factors (some K.weights)
    pure (pushK E K')

/-- the environments after each accepted step (stops at the first rejected call) -/
def runSeq [Add α] [Mul α] [Div α] [Neg α] [Zero α] [One α] [NatCast α] [IntCast α] [LT α] [DecidableLT α]
    (S : Services α) : Env α → List SeqOp → List (Except Reject (Env α))
  | _, [] => []
  | E, op :: ops =>
    match runStep S E op with
    | .ok E' => .ok E' :: runSeq S E' ops
    | .error e => [.error e]

end Ktensor
end Pyttb
