/-
Generators and aggregating constructors (property C20): `tensor.from_function`, `tenones`,
`tenzeros`, `tenrand`, `tendiag`, `teneye` (and the `ttsv` call that exhibits the identity
action), `sptensor.from_function`, `sptenrand`, `sptendiag`, `sptensor.from_aggregator`,
`ktensor.from_function`.  Mirrors tensor.py / sptensor.py / ktensor.py branch by branch.
Everything random enters as an explicit input (the arrays `np.random.uniform` / the user's
function handed back), so each generator is a function of its draws.  Import-free.
-/
import PyttbModel.Ops.Sparse
namespace Pyttb

variable {α : Type}

/-! ### dense generators -/

namespace Dense

/-- `tensor.from_function(f, shape)` = `tensor(f(shape), shape, copy=False)`.  `out` is the array
the function returned (its own shape, values in F order).  The constructor refuses a 0-way
shape with data, refuses a wrong element count, and otherwise F-reshapes the array to
`shape` — which keeps the F-order value list whatever shape `out` had. -/
def fromFunction (shape : List Nat) (out : Dense α) : Except Reject (Dense α) :=
  if shape.isEmpty then
    if out.data.length > 0 then .error .reject else .ok ⟨[], []⟩
  else if numel shape != out.data.length then .error .reject
  else .ok ⟨shape, out.data⟩

/-- `tenones(shape)`: the function is `np.ones`. -/
def tenones [One α] (shape : List Nat) : Except Reject (Dense α) :=
  fromFunction shape (ofFn shape fun _ => 1)

/-- `tenzeros(shape)`: the function is `np.zeros`. -/
def tenzeros [Zero α] (shape : List Nat) : Except Reject (Dense α) :=
  fromFunction shape (ofFn shape fun _ => 0)

/-- `tenrand(shape)`: the function returns the flat vector `np.random.uniform(size=prod(shape))`
(`draws`); for the 0-way shape `np.prod(())` is a float and NumPy refuses it as a size. -/
def tenrand (shape : List Nat) (draws : List α) : Except Reject (Dense α) :=
  if shape.isEmpty then .error .reject
  else fromFunction shape ⟨[draws.length], draws⟩

/-- `X[subs] = vals` for a 2-d subscript array that needs no growth
(`data[tuple(subs.T)] = vals`): point-wise writes, later rows overwrite earlier ones. -/
def setSubs (T : Dense α) (subs : List (List Nat)) (vals : List α) : Dense α :=
  ⟨T.shape, (subs.zip vals).foldl (fun d e => d.set (sub2ind T.shape e.1) e.2) T.data⟩

end Dense

/-- Shape rule shared by `tendiag` and `sptendiag`: `(N,)*N` without a shape, otherwise every
requested extent is raised to at least `N = len(elements)`. -/
def diagShape (N : Nat) : Option (List Nat) → List Nat
  | none => List.replicate N N
  | some s => s.map (max N)

/-- `np.tile(arange(N)[:, None], (n,))`: row `k` is `(k, …, k)` with `n` columns. -/
def diagSubs (N n : Nat) : List (List Nat) := (List.range N).map (List.replicate n)

/-- `tendiag(elements, shape)`: zeros of the constructed shape, then `X[subs] = elements`
through the dense subscript setter (no growth: every extent is already `≥ N`).  With no
elements the setter takes `np.max` of an empty array and raises. -/
def Dense.tendiag [Zero α] (elements : List α) (shape : Option (List Nat)) : Except Reject (Dense α) :=
  let N := elements.length
  let cs := diagShape N shape
  match Dense.tenzeros cs with
  | .error e => .error e
  | .ok X =>
    if N == 0 then .error .reject
    else .ok (X.setSubs (diagSubs N cs.length) elements)

/-- All ways to insert `x` into a list. -/
def insertAll (x : α) : List α → List (List α)
  | [] => [[x]]
  | y :: ys => (x :: y :: ys) :: (insertAll x ys).map (y :: ·)

/-- `itertools.permutations(l)` as a list of rows: all `len(l)!` rearrangements by position
(repeated elements give repeated rows).  The enumeration order is irrelevant to `teneye`. -/
def perms : List α → List (List α)
  | [] => [[]]
  | x :: xs => (perms xs).flatMap (insertAll x)

/-- Non-decreasing `m`-tuples over `lo .. n-1`, lexicographic. -/
def combsFrom (n : Nat) : Nat → Nat → List (List Nat)
  | _, 0 => [[]]
  | lo, m + 1 => ((List.range n).filter (lo ≤ ·)).flatMap fun a => (combsFrom n a m).map (a :: ·)

/-- `itertools.combinations_with_replacement(range(n), m)`. -/
def combsRepl (n m : Nat) : List (List Nat) := combsFrom n 0 m

/-- `factorial`. -/
def fact : Nat → Nat
  | 0 => 1
  | n + 1 => (n + 1) * fact n

/-- The row test of `teneye`: `all_j p[2j-1] == p[2j]`, `j = 0 .. m/2-1`, with Python's
wrap-around for `j = 0` (`p[-1]` is the last entry): the positions are paired as
`{m-1, 0}, {1, 2}, {3, 4}, …, {m-3, m-2}`. -/
def pairedRow (m : Nat) (t : List Nat) : Bool :=
  (List.range (m / 2)).all fun j =>
    t.getD (if j == 0 then m - 1 else 2 * j - 1) 0 == t.getD (2 * j) 0

/-- Number of rearrangements of `idx` that pass the row test (`v` in the code). -/
def pairCount (m : Nat) (idx : List Nat) : Nat := ((perms idx).filter (pairedRow m)).length

/-- `teneye(ndims = m, size = n)`: for every sorted index tuple, all its rearrangements get
the value `v / m!`. -/
def Dense.teneye [Zero α] [NatCast α] [Div α] (m n : Nat) : Except Reject (Dense α) :=
  if m % 2 != 0 then .error .reject
  else
    match Dense.tenzeros (List.replicate m n) with
    | .error e => .error e
    | .ok A =>
      .ok ((combsRepl n m).foldl (fun (A : Dense α) idx =>
        let p := perms idx
        A.setSubs p (List.replicate p.length ((pairCount m idx : α) / (fact m : α)))) A)

/-- One pass of the `ttsv` loop: `yy = reshape(y, (rows, sz), order="F"); y = yy.dot(x)`. -/
def contractLast [Add α] [Mul α] [Zero α] (y : List α) (rows sz : Nat) (x : List α) : List α :=
  (List.range rows).map fun r =>
    ((List.range sz).map fun c => y.getD (r + rows * c) 0 * x.getD c 0).sum

/-- `T.ttsv(x, skip_dim=0)` (default version): the modes `d-1, …, 1` are multiplied out one
after the other, last mode first; the result is a vector over the first mode.  The reshape
fails unless all modes have the extent of the first one, `dot` unless `x` has that length. -/
def Dense.ttsvFirst [Add α] [Mul α] [Zero α] (T : Dense α) (x : List α) : Except Reject (List α) :=
  let d := T.shape.length
  let sz := T.shape.headD 0
  if d == 0 || T.shape.any (· != sz) || x.length != sz || T.data.length != sz ^ d then .error .reject
  else .ok ((List.range (d - 1)).foldl (fun y k => contractLast y (sz ^ (d - 1 - k)) sz x) T.data)

/-! ### sparse generators -/

/-- `(u.dot(np.diag(shape))).astype(int)`: entry `(k, j)` is `u[k,j] * shape[j]` cut to an
integer (draws are non-negative, so truncation is the floor). -/
def scaleDraw (shape : List Nat) (U : List (List Rat)) : List (List Nat) :=
  U.map fun row => List.zipWith (fun u (s : Nat) => (u * (s : Rat)).floor.toNat) row shape

/-- The request check and conversion at the head of `sptensor.from_function`: negative or
more than the number of cells is refused (`fixed = false`: the pinned code also refused
exactly the number of cells), a value below one is a density (rounded up), anything else
a count (rounded down). -/
def nonzerosRequest (fixed : Bool) (shape : List Nat) (nonzeros : Rat) : Except Reject Nat :=
  let size : Rat := (numel shape : Nat)
  if nonzeros < 0 || nonzeros > size || (!fixed && nonzeros == size) then .error .reject
  else if nonzeros < 1 then .ok (size * nonzeros).ceil.toNat
  else .ok nonzeros.floor.toNat

/-- State of the redraw loop: the current candidate, the pool of everything drawn so far,
the number of draws consumed. -/
structure DrawState where
  subs : List (List Nat)
  pooled : List (List Nat)
  cnt : Nat
  deriving Repr, BEq, DecidableEq

/-- `while len(subs) < nz and cnt < 10:` with `fuel` iterations left; `draw k` is the
subscript array computed from the `k`-th call of `np.random.uniform`. -/
def drawLoop (nz : Nat) (draw : Nat → List (List Nat)) : Nat → DrawState → DrawState
  | 0, st => st
  | fuel + 1, st =>
    if st.subs.length < nz then
      let s := uniqueRowsSorted (draw st.cnt)
      drawLoop nz draw fuel ⟨s, uniqueRowsSorted (st.pooled ++ s), st.cnt + 1⟩
    else st

/-- The subscripts `sptensor.from_function` settles on, and how many draws it consumed.
`fixed = true`: when the last draw alone is short the pool of all draws is used;
`fixed = false` (pinned code): every redraw simply replaced the previous one. -/
def chooseSubs (fixed : Bool) (nz : Nat) (draw : Nat → List (List Nat)) : List (List Nat) × Nat :=
  let st := drawLoop nz draw 10 ⟨[], [], 0⟩
  let subs := if fixed && st.subs.length < nz then st.pooled else st.subs
  (subs.take (min nz subs.length), st.cnt)

/-- `sptensor.from_function(fh, shape, nonzeros)`.  `draw k` is the array returned by the
`k`-th `np.random.uniform(size=[nz, ndims])`, `fh n` the column `function_handle((n, 1))`.
The final plain constructor call checks the subscripts against the shape (and nothing
about the values).  Also returns the number of draws consumed. -/
def Sparse.fromFunctionG (fixed : Bool) (shape : List Nat) (nonzeros : Rat)
    (draw : Nat → List (List Rat)) (fh : Nat → List α) : Except Reject (Sparse α × Nat) :=
  match nonzerosRequest fixed shape nonzeros with
  | .error e => .error e
  | .ok nz =>
    let (subs, cnt) := chooseSubs fixed nz fun k => scaleDraw shape (draw k)
    if subs.all (inBounds shape) then .ok (⟨shape, subs, fh subs.length⟩, cnt) else .error .reject

def Sparse.fromFunction (shape : List Nat) (nonzeros : Rat)
    (draw : Nat → List (List Rat)) (fh : Nat → List α) := Sparse.fromFunctionG true shape nonzeros draw fh

/-- The count `sptenrand` hands to `from_function` for a density: `fixed = true`
`max(1.0, float(prod(shape) * density))`; pinned `float(prod(shape) * density)` (which
`from_function` reads as a density once more when it is below one). -/
def densityRequest (fixed : Bool) (shape : List Nat) (density : Rat) : Rat :=
  let q := ((numel shape : Nat) : Rat) * density
  if fixed && q < 1 then 1 else q

/-- `sptenrand(shape, density, nonzeros)`: exactly one of the two must be given, the density
must lie in `(0, 1]`; the values are one more uniform draw. -/
def Sparse.sptenrandG (fixed : Bool) (shape : List Nat) (density nonzeros : Option Rat)
    (draw : Nat → List (List Rat)) (valDraw : Nat → List α) : Except Reject (Sparse α × Nat) :=
  match density, nonzeros with
  | none, none => .error .reject
  | some _, some _ => .error .reject
  | some d, none =>
    if !(0 < d && d ≤ 1) then .error .reject
    else Sparse.fromFunctionG fixed shape (densityRequest fixed shape d) draw valDraw
  | none, some nz => Sparse.fromFunctionG fixed shape nz draw valDraw

def Sparse.sptenrand (shape : List Nat) (density nonzeros : Option Rat)
    (draw : Nat → List (List Rat)) (valDraw : Nat → List α) :=
  Sparse.sptenrandG true shape density nonzeros draw valDraw

/-- The values stored under row `r`, in stored order (what `accumarray` hands the reducer). -/
def groupVals (subs : List (List Nat)) (vals : List α) (r : List Nat) : List α :=
  ((subs.zip vals).filter (fun e => e.1 == r)).map (·.2)

/-- `np.unique(subs, axis=0, return_inverse=True)` + `accumarray(loc, vals, func=reducer)`:
per distinct row (lexicographic order) the reducer applied to the values stored under it. -/
def aggregateWith (reducer : List α → α) (subs : List (List Nat)) (vals : List α) :
    List (List Nat × α) :=
  (uniqueRowsSorted subs).map fun r => (r, reducer (groupVals subs vals r))

/-- `sptensor.from_aggregator(subs, vals, shape, function_handle)`.  `subs` is a rectangular
integer array given by rows; `subs.size == 0` (no rows, or no columns) yields the empty
tensor.  Checks in the code's order: non-negative subscripts, equal lengths, shape positive
(or inferred as column maxima + 1), as many columns as modes, in range; then unique rows,
accumulation with the reducer, zero results dropped. -/
def Sparse.fromAggregator [Zero α] [BEq α] (subs : List (List Int)) (vals : List α)
    (shape : Option (List Nat)) (reducer : List α → α) : Except Reject (Sparse α) :=
  let rows := subs.length
  let ncols := (subs.headD []).length
  let empty := rows == 0 || ncols == 0
  if !empty && subs.any (fun r => r.any (· < 0)) then .error .reject
  else if rows * ncols > 1 && vals.length != rows then .error .reject
  else
    let nsubs := subs.map fun r => r.map Int.toNat
    let shape? : Except Reject (List Nat) :=
      match shape with
      | some s => if s.all (· > 0) then .ok s else .error .reject
      | none =>
        if rows == 0 then .error .reject
        else .ok ((List.range ncols).map fun j => (nsubs.map fun r => r.getD j 0).foldl max 0 + 1)
    match shape? with
    | .error e => .error e
    | .ok s =>
      if empty then .ok ⟨s, [], []⟩
      else if ncols != s.length then .error .reject
      else if !nsubs.all (inBounds s) then .error .reject
      else if vals.length != rows then .error .reject
      else
        let agg := (aggregateWith reducer nsubs vals).filter fun e => !(e.2 == 0)
        .ok ⟨s, agg.map (·.1), agg.map (·.2)⟩

/-- `sptendiag(elements, shape)`: the diagonal subscripts and the elements go through the
summing aggregator (which drops zero elements). -/
def Sparse.sptendiag [Add α] [Zero α] [BEq α] (elements : List α) (shape : Option (List Nat)) :
    Except Reject (Sparse α) :=
  let N := elements.length
  let cs := diagShape N shape
  Sparse.fromAggregator ((diagSubs N cs.length).map fun r => r.map Int.ofNat) elements (some cs) List.sum

/-! ### Kruskal generator -/

/-- `ktensor.from_function(fh, shape, R)`: `outs[k]` is what `fh((shape[k], R))` returned (one
call per mode, in mode order); unit weights.  The constructor wants at least one factor and
`R` columns everywhere; it does not look at the row counts. -/
def Ktensor.fromFunction [One α] (shape : List Nat) (R : Nat) (outs : List (Mat α)) :
    Except Reject (Ktensor α) :=
  if shape.isEmpty || outs.length != shape.length then .error .reject
  else if outs.all (fun A => A.all (fun row => row.length == R)) then
    .ok ⟨List.replicate R 1, outs⟩
  else .error .reject

end Pyttb
