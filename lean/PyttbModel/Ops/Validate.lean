/-
C19 — the validation prefix of every public operation, as the code performs it.

`validate_<op> : Args → Except Reject Unit` follows the source branch by branch, in the
source's order, down to the last point at which the real code can still raise because of
the dimensional description of its arguments: explicit `assert`/`raise` guards and the
rejections of the NumPy primitives the code relies on (tuple indexing out of range,
fancy indexing out of range, `matmul` inner-dimension mismatch, `reshape` to another
element count, `khatrirao`'s column assertion).  Values are never inspected, so the
arguments are shapes, lengths, sizes and modes (see `Spec/Preconditions.lean`).
`Props/C19.lean` proves `validate_<op> a = .ok () ↔ Pre_<op> a`.  Import-free.
-/
import PyttbModel.Spec.Preconditions
namespace Pyttb

def ok19 : Except Reject Unit := .ok ()
def rej19 : Except Reject Unit := .error .reject

/-- `if c then raise` -/
def rejectIf (c : Bool) : Except Reject Unit := if c then .error .reject else .ok ()

/-! ### `tt_dimscheck` (with the range and repetition checks) -/

/-- `np.unique(x).size != x.size` -/
def hasDupI : List Int → Bool
  | [] => false
  | x :: xs => xs.contains x || hasDupI xs

/-- the part of `tt_dimscheck` after the array of selected modes has been formed: sign,
range and repetition tests, sorting, the multiplicand count -/
def dimsTail (N : Nat) (M : Option Nat) (dimArr : List Int) (exclDup : Bool) : Except Reject DimsCheck :=
  if dimArr.any (· < 0) then .error .reject
  else if dimArr.any (fun x => decide ((N : Int) ≤ x)) then .error .reject
  else if hasDupI dimArr || exclDup then .error .reject
  else
    let P := dimArr.length
    let sidx := argsortInt dimArr
    let sdims := sidx.map (fun k => (dimArr.getD k 0).toNat)
    match M with
    | none => .ok ⟨sdims, none⟩
    | some m =>
      if m > N then .error .reject
      else if m ≠ N ∧ m ≠ P then .error .reject
      else if P = m then .ok ⟨sdims, some sidx⟩
      else .ok ⟨sdims, some sdims⟩

/-- `tt_dimscheck(N, M, dims, exclude_dims)`, branch by branch. -/
def dimscheck19 (N : Nat) (M : Option Nat) (dims excl : Option (List Int)) :
    Except Reject DimsCheck :=
  match dims, excl with
  | some _, some _ => .error .reject
  | some d, none => dimsTail N M d false
  | none, none => dimsTail N M ((List.range N).map (fun (k : Nat) => Int.ofNat k)) false
  | none, some e =>
    if e.all (fun x => decide (0 ≤ x) && decide (x < (N : Int))) then
      dimsTail N M (((List.range N).filter (fun (k : Nat) => !e.contains (Int.ofNat k))).map (fun (k : Nat) => Int.ofNat k))
        (hasDupI e)
    else .error .reject

def validate_dimscheck (N : Nat) (M : Option Nat) (dims excl : Option (List Int)) : Except Reject Unit :=
  (dimscheck19 N M dims excl).map (fun _ => ())

/-- the (multiplicand, mode) pairs the code loops over: `zip(vidx, sdims)` -/
def DimsCheck.pairs (r : DimsCheck) : List (Nat × Nat) := (r.vidx.getD []).zip r.sdims

/-! ### multilinear products -/

/-- `ttv` of every holder: mode selection, then `vector[vidx[i]].shape != (shape[dims[i]],)` -/
def validate_ttv (a : TtvArgs) : Except Reject Unit :=
  match dimscheck19 a.shape.length (some a.vecs.length) a.dims a.excl with
  | .error e => .error e
  | .ok r => rejectIf (!(r.pairs.all fun p => a.vecs.getD p.1 0 == a.shape.getD p.2 0))

/-- one `ttm` with a bare matrix along mode `n`: `dims.size == 1 and dims in range`, the
matrix product, the new extent -/
def ttmStep (tr : Bool) (mats : List MatS) (sh : List Nat) (p : Nat × Nat) : Except Reject (List Nat) :=
  let m := mats.getD p.1 (0, 0)
  if p.2 ≥ sh.length then .error .reject
  else if m.inner tr != sh.getD p.2 0 then .error .reject
  else .ok (sh.set p.2 (m.outer tr))

/-- `tensor.ttm` / `sptensor.ttm`: a list is applied one matrix at a time to the running
result; a bare matrix needs exactly one selected mode -/
def validate_ttm_seq (a : TtmArgs) : Except Reject Unit :=
  if a.single then
    match dimscheck19 a.shape.length none a.dims a.excl with
    | .error e => .error e
    | .ok r =>
      if r.sdims.length != 1 then .error .reject
      else if a.mats.length != 1 then .error .reject
      else (ttmStep a.tr a.mats a.shape (0, r.sdims.getD 0 0)).map (fun _ => ())
  else
    match dimscheck19 a.shape.length (some a.mats.length) a.dims a.excl with
    | .error e => .error e
    | .ok r =>
      -- `matrix[vidx[0]]` on an empty selection is an IndexError
      if r.pairs.isEmpty then .error .reject
      else (r.pairs.foldlM (ttmStep a.tr a.mats) a.shape).map (fun _ => ())

/-- `ttensor.ttm`: a bare matrix becomes a list of one; sizes are compared with the shape of
the Tucker tensor itself -/
def validate_ttm_tucker (a : TtmArgs) : Except Reject Unit :=
  match dimscheck19 a.shape.length (some a.mats.length) a.dims a.excl with
  | .error e => .error e
  | .ok r => rejectIf (!(r.pairs.all fun p => (a.mats.getD p.1 (0, 0)).inner a.tr == a.shape.getD p.2 0))

def validate_ttm (a : TtmArgs) : Except Reject Unit :=
  if a.rep = Rep.ttensor then validate_ttm_tucker a else validate_ttm_seq a

/-- indices of the factors that are used -/
def usedIdx (N : Nat) (n : Int) : List Nat := (List.range N).filter (fun (i : Nat) => decide (Int.ofNat i ≠ n))

/-- `khatrirao(*group)` on column counts: the common count; an empty group or unequal counts raise -/
def krCols (group : List MatS) : Except Reject Nat :=
  match group with
  | [] => .error .reject
  | m :: rest => if rest.all (fun x => x.2 == m.2) then .ok m.2 else .error .reject

/-- the Khatri-Rao products of `tensor.mttkrp` for mode `n` (first, last, or in between) and,
in between, the reshape of `Y @ Ul` to `(szl, szn, R)` -/
def krTail (U : List MatS) (N n R : Nat) : Except Reject Unit :=
  if n == 0 then (krCols (U.drop 1)).map (fun _ => ())
  else if n == N - 1 then (krCols (U.take (N - 1))).map (fun _ => ())
  else
    match krCols (U.drop (n + 1)), krCols (U.take n) with
    | .ok c2, .ok _ => rejectIf (c2 != R)
    | _, _ => .error .reject

/-- `tensor.mttkrp` -/
def validate_mttkrp_dense (a : MttkrpArgs) : Except Reject Unit :=
  let N := a.shape.length
  if N < 2 then .error .reject
  else if !(decide (0 ≤ a.n) && decide (a.n < (N : Int))) then .error .reject
  else if a.U.length != N then .error .reject
  else if !((usedIdx N a.n).all fun i => (a.U.getD i (0, 0)).1 == a.shape.getD i 0) then .error .reject
  else krTail a.U N a.n.toNat (usedR a.U a.n)

/-- `sptensor.mttkrp`: mode, list length, sizes of the used factors (then one `ttv` per column,
which cannot fail any more) -/
def validate_mttkrp_sparse (a : MttkrpArgs) : Except Reject Unit :=
  let N := a.shape.length
  if !(decide (0 ≤ a.n) && decide (a.n < (N : Int))) then .error .reject
  else if a.U.length != N then .error .reject
  -- `U[1].shape[1]` / `U[0].shape[1]`
  else if (if a.n = 0 then N < 2 else N < 1) then .error .reject
  else rejectIf (!((usedIdx N a.n).all fun i => a.U.getD i (0, 0) == (a.shape.getD i 0, usedR a.U a.n)))

/-- `ktensor.mttkrp`: mode, list length, column counts, then `A_i.T @ U_i` for every other mode -/
def validate_mttkrp_ktensor (a : MttkrpArgs) : Except Reject Unit :=
  let N := a.shape.length
  if !(decide (0 ≤ a.n) && decide (a.n < (N : Int))) then .error .reject
  else if a.U.length != N then .error .reject
  else if (if a.n = 0 then N < 2 else N < 1) then .error .reject
  else if !((usedIdx N a.n).all fun i => (a.U.getD i (0, 0)).2 == usedR a.U a.n) then .error .reject
  else rejectIf (!((usedIdx N a.n).all fun i => (a.U.getD i (0, 0)).1 == a.shape.getD i 0))

/-- `ttensor.mttkrp`: list length, `A_i.T @ U_i`, then the dense core's `mttkrp` on the products -/
def validate_mttkrp_ttensor (a : MttkrpArgs) (core : List Nat) : Except Reject Unit :=
  let N := a.shape.length
  if a.U.length != N then .error .reject
  else if !((usedIdx N a.n).all fun i => (a.U.getD i (0, 0)).1 == a.shape.getD i 0) then .error .reject
  else
    let W : List MatS := (List.range N).map fun (i : Nat) =>
      if Int.ofNat i = a.n then (0, 0) else (core.getD i 0, (a.U.getD i (0, 0)).2)
    validate_mttkrp_dense { a with shape := core, U := W }

/-- the Tucker tensors of the harness have a core of the same order as the tensor -/
def validate_mttkrp (a : MttkrpArgs) : Except Reject Unit :=
  match a.rep with
  | .dense => validate_mttkrp_dense a
  | .sparse => validate_mttkrp_sparse a
  | .ktensor => validate_mttkrp_ktensor a
  | .ttensor => validate_mttkrp_ttensor a (a.shape.map (fun e => min 2 e))
  | .sumtensor =>
    -- parts: a dense tensor, then a Kruskal tensor
    match validate_mttkrp_dense a with
    | .error e => .error e
    | .ok _ => validate_mttkrp_ktensor a

/-- inner products and element-wise operations: every path starts by comparing the shapes -/
def validate_sameShape (sa sb : List Nat) : Except Reject Unit := rejectIf (sa != sb)

def validate_tenmatAdd (sa sb : List Nat) : Except Reject Unit := rejectIf (unfold0 sa != unfold0 sb)

def validate_tenmatMul (a b : MatS) : Except Reject Unit := rejectIf (a.2 != b.1)

/-- `np.array(shape)[dims]` as a tuple: any position outside `-N .. N-1` raises -/
def pyGather (l : List Nat) (ks : List Int) : Except Reject (List Nat) :=
  ks.mapM fun k => match pyGet l k with | some v => .ok v | none => .error .reject

/-- `np.isin(dims, arange(n))` for every entry -/
def allInRange (n : Nat) (ms : List Int) : Bool := ms.all fun m => decide (0 ≤ m) && decide (m < (n : Int))

/-- `len(dims) == n and (arange(n) == sort(dims)).all()` -/
def isPermOfI (p : List Int) (n : Nat) : Bool :=
  p.length == n && (List.range n).all (fun m => p.contains (Int.ofNat m))

/-- the range test of an optional mode list -/
def optInRange (n : Nat) (o : Option (List Int)) : Bool :=
  match o with
  | none => true
  | some r => allInRange n r

/-- `tensor.to_tenmat(rdims, cdims, cdims_cyclic)` -/
def validate_toTenmat (n : Nat) (rdims cdims : Option (List Int)) (cyc : Option Cyclic) : Except Reject Unit :=
  if rdims.isNone && cdims.isNone then .error .reject
  else if !optInRange n rdims then .error .reject
  else if !optInRange n cdims then .error .reject
  else
    match wrapDimsI n rdims cdims cyc with
    | none => .error .reject
    | some rc => rejectIf (!isPermOfI (rc.1 ++ rc.2) n)

/-- `sptensor.to_sptenmat(rdims, cdims, cdims_cyclic)`: no range test of its own -/
def validate_toSptenmat (n : Nat) (rdims cdims : Option (List Int)) (cyc : Option Cyclic) : Except Reject Unit :=
  match wrapDimsI n rdims cdims cyc with
  | none => .error .reject
  | some (r, c) => rejectIf (!isPermOfI (r ++ c) n)

/-- `tensor.ttt(other, selfdims, otherdims)` -/
def validate_ttt (a : TttArgs) : Except Reject Unit :=
  match pyGather a.sa a.xd, pyGather a.sb a.yd with
  | .ok s1, .ok s2 =>
    if s1 != s2 then .error .reject
    else
      match validate_toTenmat a.sa.length none (some a.xd) none with
      | .error e => .error e
      | .ok _ => validate_toTenmat a.sb.length (some a.yd) none none
  | _, _ => .error .reject

/-- `contract(i, j)` -/
def validate_contract (shape : List Nat) (i j : Int) : Except Reject Unit :=
  let N := shape.length
  if !(decide (0 ≤ i) && decide (i < (N : Int)) && decide (0 ≤ j) && decide (j < (N : Int))) then .error .reject
  else if shape.getD i.toNat 0 != shape.getD j.toNat 0 then .error .reject
  else rejectIf (i == j)

/-- `collapse(dims)` -/
def validate_collapse (shape : List Nat) (dims : Option (List Int)) : Except Reject Unit :=
  validate_dimscheck shape.length none dims none

/-- `scale(factor, dims)` -/
def validate_scale (a : ScaleArgs) : Except Reject Unit :=
  match dimscheck19 a.shape.length none (some a.dims) none with
  | .error e => .error e
  | .ok r =>
    let want := r.sdims.map (fun d => a.shape.getD d 0)
    if a.rep = Rep.sparse ∧ a.fkind = FactorKind.array then
      rejectIf (r.sdims.length != 1 || a.fshape != [a.shape.getD (r.sdims.getD 0 0) 0])
    else rejectIf (a.fshape != want)

/-! ### index maps -/

/-- `permute(order)` of every holder -/
def validate_permute (shape : List Nat) (order : List Int) : Except Reject Unit :=
  rejectIf (!isPermOfI order shape.length)

/-- `reshape`: dense (no `old_modes`) and sparse -/
def validate_reshape (shape target : List Nat) (old : Option (List Int)) : Except Reject Unit :=
  match old with
  | none => rejectIf (numel shape != numel target)
  | some om =>
    match dimscheck19 shape.length none (some om) none with
    | .error e => .error e
    | .ok _ => rejectIf (numel target != numel (om.map (fun d => shape.getD d.toNat 0)))

/-! ### constructors -/

def validate_tensor (dshape shape : List Nat) : Except Reject Unit :=
  if shape.isEmpty then rejectIf (numel dshape > 0)
  else rejectIf (numel shape != numel dshape)

/-- the range test of one subscript row against the shape -/
def rowInShape (shape : List Nat) (row : List Int) : Bool :=
  (List.range shape.length).all fun k => decide (0 ≤ row.getD k 0) && decide (row.getD k 0 < (shape.getD k 0 : Int))

/-- `sptensor(subs, vals, shape)` -/
def validate_sptensor (a : SubsArgs) : Except Reject Unit :=
  if a.subs.isEmpty then rejectIf (a.nvals > 0)
  else if a.nvals != a.subs.length then .error .reject
  else if a.width != a.shape.length then .error .reject
  else rejectIf (!(a.subs.all (rowInShape a.shape)))

/-- `sptensor.from_aggregator(subs, vals, shape)` -/
def validate_fromAggregator (a : SubsArgs) : Except Reject Unit :=
  -- tt_subscheck: non-negative integers
  if !(a.subs.all fun row => row.all (fun x => decide (0 ≤ x))) then .error .reject
  -- number of values (explicit test, or `accumarray` on arrays of different length)
  else if a.nvals != a.subs.length then .error .reject
  else if !a.subs.isEmpty && a.width > a.shape.length then .error .reject
  -- `subs[:, j]` for every mode j: IndexError when there are fewer columns
  else if !a.subs.isEmpty && a.width < a.shape.length then .error .reject
  else rejectIf (!(a.subs.all (rowInShape a.shape)))

/-- `sptensor.extract(subs)` -/
def validate_extract (a : SubsArgs) : Except Reject Unit :=
  if a.width != a.shape.length then .error .reject
  else rejectIf (!(a.subs.all (rowInShape a.shape)))

def validate_ktensor (fs : List MatS) (nw : Option Nat) : Except Reject Unit :=
  match fs with
  | [] => .error .reject   -- `factor_matrices[0]`
  | f0 :: _ =>
    if !(fs.all fun f => f.2 == f0.2) then .error .reject
    else match nw with
      | none => .ok ()
      | some w => rejectIf (w != f0.2)

def validate_ttensor (core : List Nat) (fs : List MatS) : Except Reject Unit :=
  if core.length != fs.length then .error .reject
  else rejectIf (!((List.range fs.length).all fun k => (fs.getD k (0, 0)).2 == core.getD k 0))

def validate_sumtensor (shapes : List (List Nat)) : Except Reject Unit :=
  rejectIf (!((shapes.drop 1).all fun s => shapes.getD 0 [] == s))

/-- `tenmat(data, rdims, cdims, tshape)` (after commit 8a75720): cell counts, `gather_wrap_dims`,
`mshape = (prod tshape[rdims], prod tshape[cdims])`, 1-d data whose size fits is reshaped to
`mshape`, a matrix of any other shape is refused, then the permutation test -/
def validate_tenmat (a : TenmatArgs) : Except Reject Unit :=
  let n := a.tshape.length
  if a.dshape.1 * a.dshape.2 != numel a.tshape then .error .reject
  else
    match wrapDimsI n a.rdims a.cdims none with
    | none => .error .reject
    | some (r, c) =>
      match pyGather a.tshape r, pyGather a.tshape c with
      | .ok sr, .ok sc =>
        let mshape : MatS := (numel sr, numel sc)
        let dshape : MatS := if a.vec && mshape.1 * mshape.2 == a.dshape.1 * a.dshape.2 then mshape else a.dshape
        if dshape != mshape then .error .reject
        else rejectIf (!isPermOfI (r ++ c) n)
      | _, _ => .error .reject

/-- the checks of the `sptenmat` constructor once the row and column modes are known -/
def sptenmatTail (a : SptenmatArgs) (r c : List Int) : Except Reject Unit :=
  if !isPermOfI (r ++ c) a.tshape.length then .error .reject
  else if !a.subs.isEmpty && a.width != 2 then .error .reject
  else if !(a.subs.all fun row => decide (0 ≤ row.getD 0 0) && decide (0 ≤ row.getD 1 0)) then .error .reject
  else if !(a.subs.all fun row => decide (row.getD 0 0 < (sideSize a.tshape r : Int))) then .error .reject
  else if !(a.subs.all fun row => decide (row.getD 1 0 < (sideSize a.tshape c : Int))) then .error .reject
  else rejectIf (a.nvals != a.subs.length)

/-- `sptenmat(subs, vals, rdims, cdims, tshape)` -/
def validate_sptenmat (a : SptenmatArgs) : Except Reject Unit :=
  match wrapDimsI a.tshape.length a.rdims a.cdims none with
  | none => .error .reject
  | some rc => sptenmatTail a rc.1 rc.2

def validate_fromVector (shape : List Nat) (n : Nat) (cw : Bool) : Except Reject Unit :=
  let d := shape.sum + (if cw then 1 else 0)
  -- `len(data) / d` is a ZeroDivisionError for d = 0; `round(q) != q` otherwise
  if d == 0 then .error .reject else rejectIf (n % d != 0)

/-! ### Kruskal operations taking a mode; in-place operations -/

def validate_kmode (N : Nat) (m : Int) : Except Reject Unit :=
  rejectIf (!(decide (0 ≤ m) && decide (m < (N : Int))))

def validate_karrange (R : Nat) (p : List Int) : Except Reject Unit := rejectIf (!isPermOfI p R)

def validate_kextract (R : Nat) (idx : List Int) : Except Reject Unit :=
  if idx.length == 0 || idx.length > R then .error .reject
  else rejectIf (!allInRange R idx)

/-- an in-place operation: the arguments are validated first; only then is the receiver
touched.  Returns the receiver's state afterwards and the outcome. -/
def inPlace {σ : Type} (v : Except Reject Unit) (step : σ → σ) (s : σ) : σ × Except Reject Unit :=
  match v with
  | .error e => (s, .error e)
  | .ok _ => (step s, .ok ())

/-! ### masks, Khatri-Rao -/

def validate_mask (shape wshape : List Nat) : Except Reject Unit :=
  if wshape.length != shape.length then .error .reject
  else rejectIf ((List.range shape.length).any fun k => decide (wshape.getD k 0 > shape.getD k 0))

def validate_khatrirao (ms : List MatS) (rev : Bool) : Except Reject Unit :=
  (krCols (if rev then ms.reverse else ms)).map (fun _ => ())

/-! ### algorithm options -/

/-- `tuple(range(N)) != tuple(sorted(dimorder))` when an order is given -/
def optPerm (N : Nat) (o : Option (List Int)) : Bool :=
  match o with
  | none => true
  | some p => isPermOfI p N

/-- distinct modes of the tensor, when given -/
def optModes (N : Nat) (o : Option (List Int)) : Bool :=
  match o with
  | none => true
  | some d => allInRange N d && !hasDupI d

def optEmpty (o : Option (List Int)) : Bool :=
  match o with
  | none => false
  | some d => d.isEmpty

/-- `init.ndims == N` and every mode of the guess has the tensor's extent -/
def shapeEq (s shape : List Nat) : Bool :=
  s.length == shape.length && (List.range shape.length).all (fun k => s.getD k 0 == shape.getD k 0)

def initCpAls (i : InitSpec) (shape : List Nat) (rank : Int) : Bool :=
  match i with
  | .ktensor s R _ _ => shapeEq s shape && decide ((R : Int) = rank)
  | .random => true
  | .nvecs => true
  | _ => false

def validate_cpAls (a : CpAlsArgs) : Except Reject Unit :=
  let N := a.shape.length
  if !optPerm N a.dimorder then .error .reject
  else if !optModes N a.optdims then .error .reject
  else if !(decide (0 < a.rank)) then .error .reject
  else if !initCpAls a.init a.shape a.rank then .error .reject
  -- `dimorder[-1]` of the modes kept for optimisation
  else rejectIf (optEmpty a.optdims || N == 0)

def initCpApr (i : InitSpec) (shape : List Nat) (rank : Int) : Bool :=
  match i with
  | .ktensor s R nf nw => shapeEq s shape && decide ((R : Int) = rank) && !nf && !nw
  | .random => true
  | _ => false

def validate_cpApr (a : CpAprArgs) : Except Reject Unit :=
  if !(decide (0 < a.rank)) then .error .reject
  else if !a.dataNonneg then .error .reject
  else if !initCpApr a.init a.shape a.rank then .error .reject
  else rejectIf a.algorithm.isNone

def initTucker (i : InitSpec) (shape : List Nat) (rank order : List Int) : Bool :=
  match i with
  | .mats ms =>
    ms.length == shape.length && (order.drop 1).all fun d =>
      decide (((ms.getD d.toNat (0, 0)).1 : Int) = shape.getD d.toNat 0) &&
      decide (((ms.getD d.toNat (0, 0)).2 : Int) = rankAt rank d.toNat)
  | .random => true
  | .nvecs => true
  | _ => false

/-- the length test of a rank vector, then `np.any(rank < lo) or np.any(rank > shape)` -/
def ranksWithin (shape : List Nat) (ranks : List Int) (lo : Int) : Bool :=
  ranks.length == shape.length &&
    (List.range shape.length).all fun k => decide (lo ≤ ranks.getD k 0) && decide (ranks.getD k 0 ≤ (shape.getD k 0 : Int))

def validate_tucker (a : TuckerArgs) : Except Reject Unit :=
  let N := a.shape.length
  if !a.maxitersNonneg then .error .reject
  else if !ranksWithin a.shape (expandRank N a.rank) 1 then .error .reject
  else if !optPerm N a.dimorder then .error .reject
  else if !initTucker a.init a.shape a.rank (a.dimorder.getD ((List.range N).map Int.ofNat)) then .error .reject
  else rejectIf (N == 0)

def optRanks (shape : List Nat) (o : Option (List Int)) : Bool :=
  match o with
  | none => true
  | some r => ranksWithin shape r 0

def validate_hosvd (shape : List Nat) (ranks : Option (List Int)) (dimorder : Option (List Int)) : Except Reject Unit :=
  if !optRanks shape ranks then .error .reject
  else rejectIf (!optPerm shape.length dimorder)

def maskFits (shape : List Nat) (o : Option (List Nat)) : Bool :=
  match o with
  | none => true
  | some m => m == shape

def initGcp (i : InitSpec) (shape : List Nat) (rank : Int) : Bool :=
  match i with
  | .ktensor s R _ _ => s == shape && decide ((R : Int) = rank)
  | .mats ms =>
    -- `ktensor(init)` (equal column counts) then the shape / component test
    !ms.isEmpty && ms.all (fun m => m.2 == (ms.getD 0 (0, 0)).2) &&
      ms.map (·.1) == shape && decide ((((ms.getD 0 (0, 0)).2 : Nat) : Int) = rank)
  | .random => true
  | _ => false

def validate_gcp (a : GcpArgs) : Except Reject Unit :=
  if !a.objectiveOk then .error .reject
  -- dense data with a tensor mask: `data *= mask`
  else if !a.sparse && !maskFits a.shape a.mask then .error .reject
  else if a.sparse && a.mask.isSome then .error .reject
  else if !initGcp a.init a.shape a.rank then .error .reject
  else if !(a.solver == 0 || a.solver == 1) then .error .reject
  else if a.sparse && a.solver == 0 then .error .reject
  else rejectIf (a.solver == 1 && a.mask.isSome)

/-! ### importer -/

def validate_import : ImportArgs → Except Reject Unit
  | .tensor h s n =>
    if s.length != h then .error .reject
    -- `np.fromfile(count = prod(shape))` returns what is there; the constructor compares counts
    else rejectIf (n < numel s)
  | .sptensor h s nnz lines =>
    if s.length != h then .error .reject
    else if lines.length < nnz then .error .reject
    else if !((lines.take nnz).all fun ln => ln.length == s.length) then .error .reject
    else rejectIf (!((lines.take nnz).all fun ln => rowInShape s (ln.map (· - 1))))
  | .ktensor h s R nw fs =>
    if s.length != h then .error .reject
    else if fs.length < s.length then .error .reject
    else if !((List.range s.length).all fun k => fs.getD k (0, 0) == (s.getD k 0, R)) then .error .reject
    else if fs.length != s.length then .error .reject
    else if nw < R then .error .reject
    else rejectIf s.isEmpty
  | .unknown => .error .reject
  | .missing => .error .reject

/-! ### the remaining public operations -/

/-- `tensor.mttkrps(U)`: list length, factor sizes; `khatrirao()` of nothing for fewer than two modes -/
def validate_mttkrps (shape : List Nat) (U : List MatS) : Except Reject Unit :=
  if U.length != shape.length then .error .reject
  else if !((List.range shape.length).all fun i => U.getD i (0, 0) == (shape.getD i 0, (U.getD 0 (0, 0)).2)) then .error .reject
  else rejectIf (shape.length < 2)

/-- an optional argument is a mode -/
def optMode (N : Nat) (o : Option Int) : Bool :=
  match o with
  | none => true
  | some s => decide (0 ≤ s) && decide (s < (N : Int))

/-- the direct computation of `ttsv` -/
def validate_ttsvDirect (a : TtsvArgs) : Except Reject Unit :=
  if a.shape.isEmpty then .error .reject            -- `self.shape[0]`
  else if a.shape.any (fun e => e != a.shape.getD 0 0) then .error .reject
  else rejectIf (decide ((a.skip.getD (-1)) + 1 < (a.shape.length : Int)) && a.veclen != a.shape.getD 0 0)

/-- `tensor.ttsv(vector, skip_dim, version)` -/
def validate_ttsv (a : TtsvArgs) : Except Reject Unit :=
  if !optMode a.shape.length a.skip then .error .reject
  else
    match a.version with
    | .v1 => validate_ttv a.asTtv
    | .v2 => validate_ttsvDirect a
    | .default => validate_ttsvDirect a
    | .other => .error .reject

/-- every group lists distinct modes of the tensor -/
def groupsValid (N : Nat) (G : List (List Int)) : Bool := G.all fun g => allInRange N g && !hasDupI g

def sameExt (shape : List Nat) (g : List Int) : Bool :=
  g.all fun m => shape.getD m.toNat 0 == shape.getD (g.getD 0 0).toNat 0

/-- `np.intersect1d(g, h).size != 0` -/
def overlaps (g h : List Int) : Bool := g.any fun x => h.contains x

/-- the default `symmetrize`: per group, the extents, then the overlap with the later groups -/
def symNewGo (shape : List Nat) : List (List Int) → Except Reject Unit
  | [] => .ok ()
  | g :: rest =>
    if !sameExt shape g then .error .reject
    else if rest.any (overlaps g) then .error .reject
    else symNewGo shape rest

/-- the double loop over pairs of groups of the original `symmetrize` -/
def overlapAny : List (List Int) → Bool
  | [] => false
  | g :: rest => rest.any (overlaps g) || overlapAny rest

/-- `tensor.symmetrize(grps, version)` -/
def validate_symmetrize (shape : List Nat) (grps : Option (List (List Int))) (old : Bool) : Except Reject Unit :=
  let G := symGroups shape.length grps
  if !groupsValid shape.length G then .error .reject
  else if old then
    if !(G.all (sameExt shape)) then .error .reject else rejectIf (overlapAny G)
  else symNewGo shape G

/-- `tensor.issymmetric(grps, ...)` -/
def validate_issymmetric (shape : List Nat) (grps : Option (List (List Int))) : Except Reject Unit :=
  rejectIf (!groupsValid shape.length (symGroups shape.length grps))

/-- `ktensor.symmetrize()` -/
def validate_ksymmetrize (shape : List Nat) : Except Reject Unit :=
  if shape.isEmpty then .error .reject   -- `self.shape[0]`
  else rejectIf (!(shape.all fun e => e == shape.getD 0 0))

/-- `ktensor.fixsigns(other)`, `ktensor.score(other)` -/
def validate_kmatch (sa sb : List Nat) (ra rb : Nat) : Except Reject Unit :=
  if sa != sb then .error .reject else rejectIf (ra < rb)

/-- `ktensor.update(modes, data)`: everything is checked before the first write -/
def validate_update (a : UpdateArgs) : Except Reject Unit :=
  if !((List.range (a.modes.length - 1)).all fun i => decide (a.modes.getD i 0 < a.modes.getD (i + 1) 0)) then .error .reject
  else if a.modes.any (fun k => decide (k < -1) || decide ((a.shape.length : Int) ≤ k)) then .error .reject
  else rejectIf (a.datalen < a.needed)

def SampleS.fitsB (s : SampleS) (extent : Nat) : Bool :=
  match s with
  | .idx m => decide (m < extent)
  | .mat _ c => c == extent

/-- `ttensor.reconstruct(samples, modes)` -/
def validate_reconstruct (shape : List Nat) (samples : Option (List SampleS)) (modes : Option (List Int)) :
    Except Reject Unit :=
  match samples with
  | none => rejectIf modes.isSome
  | some ss =>
    let ms := modes.getD ((List.range shape.length).map Int.ofNat)
    if !(allInRange shape.length ms && !hasDupI ms) then .error .reject
    else if ss.length > 0 && ss.length != ms.length then .error .reject
    else rejectIf (!((ss.zip ms).all fun p => p.1.fitsB (shape.getD p.2.toNat 0)))

/-- `ktensor.from_function(f, shape, R)` -/
def validate_kfromFunction (shape : List Nat) (R : Nat) (returned : List MatS) : Except Reject Unit :=
  rejectIf (returned != shape.map (fun e => (e, R)))

/-- `sptenmat[rows, cols] = values`: both tests precede the first write -/
def validate_sptenmatSet (a : SpSetArgs) : Except Reject Unit :=
  if a.rsubs.any (fun r => decide (r < 0) || decide ((a.mshape.1 : Int) ≤ r)) ||
     a.csubs.any (fun c => decide (c < 0) || decide ((a.mshape.2 : Int) ≤ c)) then .error .reject
  else match a.nvals with
    | none => .ok ()
    | some n => rejectIf (n != a.rsubs.length * a.csubs.length)

/-- `tenmat[i, j]`: NumPy's own bounds test -/
def validate_tenmatIndex (mshape : MatS) (i j : Int) : Except Reject Unit :=
  rejectIf (!(decide (-(mshape.1 : Int) ≤ i) && decide (i < mshape.1) && decide (-(mshape.2 : Int) ≤ j) && decide (j < mshape.2)))

/-- `nvecs(n, r)` of every holder -/
def validate_nvecs (shape : List Nat) (n r : Int) : Except Reject Unit :=
  rejectIf (!(decide (0 ≤ n) && decide (n < (shape.length : Int)) && decide (0 < r) && decide (r ≤ (shape.getD n.toNat 0 : Int))))

def validate_tenfunUnary (shape : List Nat) (others : List (List Nat)) : Except Reject Unit :=
  rejectIf (others.any fun s => s != shape)

def validate_viz (N : Nat) (lens : List Nat) : Except Reject Unit := rejectIf (lens.any fun l => l != N)

def validate_spmatrix (shape : List Nat) : Except Reject Unit := rejectIf (shape.length != 2)

/-- `sptensor.from_function`: the range of the request, then the constructor's value count -/
def validate_spFromFunction (shape : List Nat) (nonzeros : Int) (returnsRequested : Bool) : Except Reject Unit :=
  if decide (nonzeros < 0) || decide ((numel shape : Int) < nonzeros) then .error .reject
  else rejectIf (!returnsRequested)

/-- `sptenmat.from_array` of an array without zero entries: the `sptenmat` constructor on its subscripts -/
def validate_fromArray (ashape : MatS) (rdims cdims : Option (List Int)) (tshape : List Nat) : Except Reject Unit :=
  match wrapDimsI tshape.length rdims cdims none with
  | none => .error .reject
  | some rc =>
    if !isPermOfI (rc.1 ++ rc.2) tshape.length then .error .reject
    else rejectIf (decide (0 < ashape.1) && decide (0 < ashape.2) &&
      (decide (sideSize tshape rc.1 < ashape.1) || decide (sideSize tshape rc.2 < ashape.2)))

/-! ### input classes added after the mutation study -/

/-- `sptensor.from_aggregator(subs, vals, shape)` with the extents as written: `tt_subscheck`,
the value count, `tt_sizecheck(shape)` (every extent a positive integer), then the width and
range tests of `validate_fromAggregator` -/
def validate_fromAggregatorI (a : SubsArgsI) : Except Reject Unit :=
  if !(a.subs.all fun row => row.all (fun x => decide (0 ≤ x))) then .error .reject
  else if a.nvals != a.subs.length then .error .reject
  else if a.shape.any (fun e => decide (e ≤ 0)) then .error .reject
  else validate_fromAggregator a.toNat

/-- `sptensor(subs, vals, shape)` (after commit eaa8284): `tt_sizecheck(shape)` right after
`parse_shape` (every extent a positive integer), then the count, width and range tests of
`validate_sptensor` -/
def validate_sptensorI (a : SubsArgsI) : Except Reject Unit :=
  if a.shape.any (fun e => decide (e ≤ 0)) then .error .reject
  else validate_sptensor a.toNat

/-- `parse_one_d`: an ndarray is squeezed and must then have at most one dimension (a 0-d
result is made 1-d); anything else goes through `np.array` unchanged.  The shape afterwards. -/
def parseOneD (vshape : List Nat) (isList : Bool) : Except Reject (List Nat) :=
  if isList then .ok vshape
  else if (vshape.filter (fun e => e != 1)).length ≤ 1 then .ok [numel vshape] else .error .reject

/-- `tensor.ttsv(vector, skip_dim, version)`: `parse_one_d` first; the size comparisons that
follow (`vector.shape != (sz,)`, and `ttv`'s `vector[i].shape != (shape[n],)` for version 1) fail
for every mode when the parsed multiplicand is not 1-d, which is what a length that no mode has
(`TtsvArgs.withMultiplicand`) expresses -/
def validate_ttsvM (a : TtsvArgs) (vshape : List Nat) (isList : Bool) : Except Reject Unit :=
  match parseOneD vshape isList with
  | .error e => .error e
  | .ok _ => validate_ttsv (a.withMultiplicand vshape isList)

/-- `ttensor(core, factors)`: neither is the empty constructor; exactly one raises -/
def validate_ttensorGiven (core factors : Bool) : Except Reject Unit :=
  if !core && !factors then .ok ()
  else rejectIf (!core || !factors)

/-- `ktensor(factors, weights)`: `all(isinstance(fm, np.ndarray) and fm.dtype == float)` precedes
the column counts; the weights' dtype is tested in the same assert as their length -/
def validate_ktensorTyped (fs : List MatS) (nw : Option Nat) (factorsFloat weightsFloat : Bool) : Except Reject Unit :=
  if !factorsFloat then .error .reject
  else if nw.isSome && !weightsFloat then .error .reject
  else validate_ktensor fs nw

/-- `sptensor.subdims(region)`: `len(region) != self.ndims` -/
def validate_subdims (N len : Nat) : Except Reject Unit := rejectIf (len != N)

/-- the size-match loop of `sptensor._set_subtensor` for a sparse right-hand side: `m` counts the
modes of the right-hand side met so far; an open slice reads `value.shape[m]`, an index list is
compared with it (`IndexError` when there is no such mode) -/
def spAssignGo (rhs : List Nat) : List KeyEntry → Nat → Except Reject Unit
  | [], _ => .ok ()
  | .int :: ks, m => spAssignGo rhs ks m
  | .slice stop :: ks, m =>
    if !stop && decide (rhs.length ≤ m) then .error .reject else spAssignGo rhs ks (m + 1)
  | .list len :: ks, m =>
    if decide (rhs.length ≤ m) then .error .reject
    else if len != rhs.getD m 0 then .error .reject
    else spAssignGo rhs ks (m + 1)

def validate_spAssign (key : List KeyEntry) (rhs : List Nat) : Except Reject Unit := spAssignGo rhs key 0

/-! ### explicit copies of three guards as they were at the pinned commit (for the record) -/

/-! ### argument forms (second mutation study) -/

/-- `ktensor.ttv`: `tt_dimscheck`, then `np.atleast_1d(v.squeeze()).shape != (shape[d],)` for every used multiplicand -/
def validate_ttvM (a : TtvMArgs) : Except Reject Unit :=
  match dimscheck19 a.shape.length (some a.vshapes.length) a.dims a.excl with
  | .error e => .error e
  | .ok r => rejectIf (!(r.pairs.all fun p => squeezed1 (a.vshapes.getD p.1 []) == [a.shape.getD p.2 0]))

/-- `khatrirao` of arrays of any order: after the optional reversal `all(len(m.shape) == 2)`, then the column test -/
def validate_khatriraoND (shapes : List (List Nat)) (rev : Bool) : Except Reject Unit :=
  if !((if rev then shapes.reverse else shapes).all fun s => s.length == 2) then .error .reject
  else validate_khatrirao (shapesAsMats shapes) rev

/-- `sptensor.__init__`: `subs is None and vals is None` is the empty tensor, `subs is None or vals is None` raises -/
def validate_sptensorGiven (subs vals : Bool) : Except Reject Unit :=
  if !subs && !vals then .ok () else rejectIf (!subs || !vals)

/-- `sptenmat.__init__` (non-empty arrays): without a mode split nothing else may be given; with one a missing
array is replaced by an empty one and the count test `vals.size == nsubs` refuses the other -/
def validate_sptenmatGiven (subs vals dims : Bool) : Except Reject Unit :=
  if !dims then rejectIf (!(!subs && !vals)) else rejectIf (subs != vals)

/-- `isvector(a)`: `a.ndim == 1 or (a.ndim == 2 and (a.shape[0] == 1 or a.shape[1] == 1))`, asserted by `from_vector` -/
def validate_isVector (s : List Nat) : Except Reject Unit :=
  rejectIf (!(s.length == 1 || (s.length == 2 && (s.getD 0 0 == 1 || s.getD 1 0 == 1))))

/-- `parse_shape(ndarray)`: `shape.squeeze().ndim > 1` raises (order 0 is the single number, order 1 the tuple) -/
def validate_shapeArray (s : List Nat) : Except Reject Unit :=
  rejectIf (decide ((s.filter fun e => e != 1).length > 1))


/-- `tensor.tenfun`: `len(inputs) == 1 and nfunin == 2` is the binary case; otherwise `nfunin != 1` raises -/
def validate_tenfunArity (nargs others : Nat) : Except Reject Unit :=
  if others == 1 && nargs == 2 then .ok () else rejectIf (nargs != 1)

/-- `sptensor._set_subscripts`: `newsubs.shape[1] < self.ndims` raises before anything is matched or written -/
def validate_setSubsWidth (N width : Nat) : Except Reject Unit := rejectIf (decide (width < N))


namespace Pinned

/-- pinned `tt_dimscheck` after forming the array: only the sign test -/
def dimsAccepted (dimArr : List Int) : Bool := !dimArr.any (· < 0)

/-- pinned `sptenmat` index test: `prod(tshape[rdims]) >= max(subs[:, 0])` -/
def rowIndexAccepted (nrows : Nat) (idx : Int) : Bool := decide ((nrows : Int) ≥ idx)

/-- the plain `sptensor` constructor before commit eaa8284: the sign of an extent was never
tested (with entries present the range test did it implicitly) -/
def sptensorI (a : SubsArgsI) : Except Reject Unit := validate_sptensor a.toNat

/-- pinned dense `permute`: the length test, then `np.transpose`, which also takes axes counted
from the end -/
def permuteAccepted (N : Nat) (order : List Int) : Bool :=
  order.length == N && isPermOfI (order.map fun k => if k < 0 then k + N else k) N

end Pinned

end Pyttb
