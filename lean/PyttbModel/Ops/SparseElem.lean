/-
Element-wise arithmetic, logic and comparison of `pyttb.sptensor` (sptensor.py:
`__add__ __sub__ __neg__ __pos__ __mul__ __rmul__ __truediv__ __rtruediv__ __eq__ __ne__
_compare logical_and logical_or logical_xor logical_not elemfun ones mask extract
from_aggregator`), mirrored branch by branch, with the NumPy idioms the code uses as small
primitives (`a[mask]`, `a[idx]`, scatter into a mask, `np.where`).  Import-free.

Subscripts are naturals here and integer rows in `Core/Rows`; `toRows` is the (injective)
embedding under which the row helpers `tt_ismember_rows`, `tt_intersect_rows`,
`tt_setdiff_rows`, `tt_union_rows` are called exactly where the code calls them.
-/
import PyttbModel.Ops.Sparse
import PyttbModel.Ops.Generators
import PyttbModel.Core.Rows
namespace Pyttb
namespace SpElem

variable {α : Type}

/-! ### NumPy idioms -/

def toRow (r : List Nat) : Row := r.map Int.ofNat
def toRows (subs : List (List Nat)) : List Row := subs.map toRow

/-- `a[mask]` for a boolean mask. -/
def maskSel {β : Type} (mask : List Bool) (l : List β) : List β :=
  ((l.zip mask).filter (·.2)).map (·.1)

/-- `subs[idx, :]`. -/
def rowsAt (subs : List (List Nat)) (idx : List Nat) : List (List Nat) :=
  idx.map fun k => subs.getD k []

/-- `mask[idx] = vals` on an all-`False` mask of length `n` (last write wins). -/
def scatterMask (n : Nat) (idx : List Nat) (vals : List Bool) : List Bool :=
  (List.range n).map fun k =>
    match (idx.zip vals).reverse.find? (fun p => p.1 == k) with
    | some p => p.2
    | none => false

/-- a column of ones. -/
def onesCol [One α] (n : Nat) : List α := List.replicate n 1

/-- `sptensor.allsubs()`: every subscript of the shape, LAST subscript fastest. -/
def allSubsC (s : List Nat) : List (List Nat) := (allSubs s.reverse).map List.reverse

/-- `A[tt_setdiff_rows(A, B)]`. -/
def diffRows (A B : List (List Nat)) : List (List Nat) := rowsAt A (setdiffRows (toRows A) (toRows B))

/-- `A[tt_intersect_rows(A, B)]`. -/
def interRows (A B : List (List Nat)) : List (List Nat) := rowsAt A (intersectRows (toRows A) (toRows B))

/-- `tenfun_binary(f, scalar)` / a unary numpy ufunc on the data. -/
def mapData {β : Type} (f : α → β) (T : Dense α) : Dense β := ⟨T.shape, T.data.map f⟩

/-- `tenfun_binary(f, tensor)` for operands of equal shape (NumPy would broadcast or raise
for other shapes; not modelled). -/
def zipData (f : α → α → α) (X Y : Dense α) : Except Reject (Dense α) :=
  if X.shape != Y.shape then .error .reject else .ok ⟨X.shape, List.zipWith f X.data Y.data⟩

/-- `(p(T)).find()[0]`: the subscripts (first subscript fastest) where `p` holds. -/
def findWhere [Zero α] (p : α → Bool) (T : Dense α) : List (List Nat) :=
  ((List.range T.data.length).filter (fun k => p (T.data.getD k 0))).map (ind2sub T.shape)

/-- `np.array(np.where(p(T.data))).transpose()`: the same cells, LAST subscript fastest. -/
def whereC [Zero α] (p : α → Bool) (T : Dense α) : List (List Nat) :=
  (allSubsC T.shape).filter (fun i => p (T.get i))

/-- What an element-wise operation hands back: a sparse or a dense tensor. -/
inductive SpOrDense (α : Type) where
  | sp (S : Sparse α)
  | dn (T : Dense α)
  deriving Repr, BEq, DecidableEq

/-- One denotation for both kinds of result. -/
def SpOrDense.get [Add α] [Zero α] : SpOrDense α → List Nat → α
  | .sp S, i => S.get i
  | .dn T, i => T.get i

def SpOrDense.shape : SpOrDense α → List Nat
  | .sp S => S.shape
  | .dn T => T.shape

/-- Right-hand side of a binary sparse operation. -/
inductive ERhs (α : Type) where
  | scalar (c : α)
  | sparse (B : Sparse α)
  | dense (D : Dense α)
  deriving Repr

/-! ### constructors -/

/-- The plain constructor `sptensor(subs, vals, shape)`: stores what it is given.  It checks
that there is exactly one value per subscript row (no values without subscripts) and that
every row has one non-negative entry per mode inside the shape; it does NOT look for
repeated subscripts or zero values. -/
def mk? (subs : List (List Nat)) (vals : List α) (shape : List Nat) : Except Reject (Sparse α) :=
  if subs.isEmpty then (if vals.isEmpty then .ok ⟨shape, [], []⟩ else .error .reject)
  else if vals.length != subs.length then .error .reject
  else if !subs.all (inBounds shape) then .error .reject
  else .ok ⟨shape, subs, vals⟩

/-- `sptensor.from_aggregator(subs, vals, shape, f)` on natural-number rows (the model of the
constructor itself is `Sparse.fromAggregator` in Ops/Generators). -/
def fromAgg [Zero α] [BEq α] (f : List α → α) (subs : List (List Nat)) (vals : List α)
    (shape : List Nat) : Except Reject (Sparse α) :=
  Sparse.fromAggregator (toRows subs) vals (some shape) f

/-- `sptensor(shape=shape)`. -/
def empty (shape : List Nat) : Sparse α := ⟨shape, [], []⟩

/-! ### look-ups -/

/-- `extract(searchsubs)`: rejects subscripts outside the shape; value of the (last) matching
stored entry, `0` when there is none. -/
def extract [Zero α] (S : Sparse α) (q : List (List Nat)) : Except Reject (List α) :=
  if !q.all (inBounds S.shape) then .error .reject
  else
    .ok ((ismemberRows (toRows q) (toRows S.subs)).map fun m =>
      if m.1 then S.vals.getD m.2.toNat 0 else 0)

/-- `X.mask(W)`: the values of `X` at the nonzeros of `W`, in `W`'s stored order. -/
def mask [Zero α] (X W : Sparse α) : Except Reject (List α) :=
  if W.shape.length != X.shape.length then .error .reject
  else if (W.shape.zip X.shape).any (fun p => p.1 > p.2) then .error .reject
  else
    .ok ((ismemberRows (toRows W.subs) (toRows X.subs)).map fun m =>
      if m.1 then X.vals.getD m.2.toNat 0 else 0)

/-- zero cells: `allsubs()[tt_setdiff_rows(allsubs(), subs)]`. -/
def zeroSubs (S : Sparse α) : List (List Nat) := diffRows (allSubsC S.shape) S.subs

/-! ### unary -/

def pos (S : Sparse α) : Sparse α := S

/-- `-S`: `sptensor(subs, -1 * vals, shape)`. -/
def neg [Neg α] [One α] [Mul α] (S : Sparse α) : Sparse α := ⟨S.shape, S.subs, S.vals.map (fun v => -1 * v)⟩

/-- `S.ones()`. -/
def ones [One α] (S : Sparse α) : Sparse α := ⟨S.shape, S.subs, S.vals.map (fun _ => 1)⟩

/-- `S.logical_not()`. -/
def logicalNot [One α] (S : Sparse α) : Sparse α :=
  let z := (zeroSubs S)
  ⟨S.shape, z, onesCol z.length⟩

/-- `S.elemfun(f)` for a function applied value by value: results equal to zero are dropped. -/
def elemfun [Zero α] [BEq α] (f : α → α) (S : Sparse α) : Sparse α :=
  let v := S.vals.map f
  let m := v.map (fun x => !(x == 0))
  if !m.any id then empty S.shape else ⟨S.shape, maskSel m S.subs, maskSel m v⟩

/-! ### `-` and `+` -/

section addsub
variable [Add α] [Sub α] [Neg α] [One α] [Mul α] [Zero α] [BEq α]

/-- `S - other`. -/
def sub (A : Sparse α) : ERhs α → Except Reject (SpOrDense α)
  | .scalar c => .ok (.dn (mapData (fun x => x - c) A.full))
  | .dense D => (zipData (fun x y => x - y) A.full D).map .dn
  | .sparse B =>
    if A.shape != B.shape then .error .reject
    else if A.nnz == 0 then .ok (.sp (neg B))
    else if B.nnz == 0 then .ok (.sp A)
    else (fromAgg List.sum (A.subs ++ B.subs) (A.vals ++ B.vals.map (fun v => -1 * v)) A.shape).map .sp

/-- `-other` for each kind of operand. -/
def negRhs : ERhs α → ERhs α
  | .scalar c => .scalar (-c)
  | .dense D => .dense (mapData (fun v => -1 * v) D)
  | .sparse B => .sparse (neg B)

/-- `S + other` is `S.__sub__(-other)`. -/
def add (A : Sparse α) (r : ERhs α) : Except Reject (SpOrDense α) := sub A (negRhs r)

end addsub

/-! ### `*` -/

section mul
variable [Mul α] [Zero α] [BEq α]

/-- keep the entries whose (new) value is not zero: `nz = np.flatnonzero(v); subs[nz], v[nz]`. -/
def keepNonzero (shape : List Nat) (subs : List (List Nat)) (v : List α) : Sparse α :=
  let m := v.map (fun x => !(x == 0))
  ⟨shape, maskSel m subs, maskSel m v⟩

/-- `S * other` (also `other * S` for a scalar). -/
def mul (A : Sparse α) : ERhs α → Except Reject (Sparse α)
  | .scalar c => .ok (keepNonzero A.shape A.subs (A.vals.map (fun v => v * c)))
  | .sparse B =>
    if A.shape != B.shape then .error .reject
    else if A.nnz == 0 || B.nnz == 0 then .ok (empty A.shape)
    else
      let m := ismemberRows (toRows A.subs) (toRows B.subs)
      let valid := m.map (·.1)
      let loc := (maskSel valid (m.map (·.2))).map Int.toNat
      .ok ⟨A.shape, maskSel valid A.subs,
           List.zipWith (· * ·) (maskSel valid A.vals) (loc.map fun k => B.vals.getD k 0)⟩
  | .dense D =>
    if A.shape != D.shape then .error .reject
    else if A.nnz == 0 then .ok A
    else if !A.subs.all (inBounds D.shape) then .error .reject
    else .ok (keepNonzero A.shape A.subs (List.zipWith (· * ·) A.vals (A.subs.map D.get)))

/-- `S * K` for a Kruskal tensor: per component, the weight times the gathered factor
entries, accumulated; zero results dropped. -/
def mulK [Add α] [One α] (A : Sparse α) (K : Ktensor α) : Except Reject (Sparse α) :=
  if A.shape != K.shape then .error .reject
  else if A.nnz == 0 then .ok A
  else
    let cvals := (A.subs.zip A.vals).map fun e =>
      (List.range K.ncomp).foldl (fun acc r =>
        acc + (List.zipWith (fun (F : Mat α) n => Mat.get F n r) K.factors e.1).foldl (· * ·)
          (K.weights.getD r 0 * e.2)) 0
    .ok (keepNonzero A.shape A.subs cvals)

end mul

/-! ### `/` -/

section div
variable [Div α] [Zero α] [BEq α]

/-- `S / S2` for two sparse tensors of the same shape: stored entries of `S` are divided by
the value of `S2` at the same subscript (an implicit zero gives `x/0`); cells where both are
zero get `nan`; cells where only `S` is zero hold `0/y = 0` and are not stored. -/
def divSp (nan : α) (A B : Sparse α) : Except Reject (Sparse α) :=
  let top : Except Reject (List (List Nat) × List α) :=
    if A.nnz > 0 then
      match extract B A.subs with
      | .ok ov => .ok (A.subs, List.zipWith (· / ·) A.vals ov)
      | .error e => .error e
    else .ok ([], [])
  match top with
  | .error e => .error e
  | .ok (ns, nv) =>
    let nansubs := diffRows (zeroSubs A) B.subs
    .ok ⟨A.shape, ns ++ nansubs, nv ++ List.replicate nansubs.length nan⟩

/-- `S / other`; `nan` is the value NumPy's `0/0` produces. -/
def div (nan : α) (A : Sparse α) : ERhs α → Except Reject (Sparse α)
  | .scalar c =>
    let v := A.vals.map (fun x => x / c)
    if c == 0 then
      let z := (zeroSubs A)
      .ok ⟨A.shape, A.subs ++ z, v ++ List.replicate z.length nan⟩
    else .ok ⟨A.shape, A.subs, v⟩
  | .sparse B => if A.shape != B.shape then .error .reject else divSp nan A B
  | .dense D =>
    -- `self / other.to_sptensor()`
    if A.shape != D.shape then .error .reject else divSp nan A D.toSparse

/-- `c / S`: dense. -/
def rdiv (c : α) (A : Sparse α) : Dense α := mapData (fun x => c / x) A.full

end div

/-! ### `==` and `!=` -/

section eqne
variable [Zero α] [One α] [BEq α]

/-- subscripts → a 0/1 sparse tensor. -/
def ofSubs (shape : List Nat) (subs : List (List Nat)) : Sparse α := ⟨shape, subs, onesCol subs.length⟩

/-- `extract` that cannot fail inside the operators (rows come from the operands). -/
def extractD (S : Sparse α) (q : List (List Nat)) : List α :=
  (ismemberRows (toRows q) (toRows S.subs)).map fun m => if m.1 then S.vals.getD m.2.toNat 0 else 0

/-- `S == other`. -/
def eq (A : Sparse α) : ERhs α → Except Reject (Sparse α)
  | .scalar c =>
    if c == 0 then .ok (logicalNot A)
    else .ok (ofSubs A.shape (maskSel (A.vals.map (fun v => v == c)) A.subs))
  | .sparse B =>
    if A.shape != B.shape then .error .reject
    else
      let xz := (zeroSubs A)
      let yz := (zeroSubs B)
      let zz := interRows xz yz
      let znz :=
        if A.nnz > 0 && B.nnz > 0 then
          let nz := interRows A.subs B.subs
          maskSel (List.zipWith (fun a b => a == b) (extractD A nz) (extractD B nz)) nz
        else []
      .ok (ofSubs A.shape (zz ++ znz))
  | .dense D =>
    if A.shape != D.shape then .error .reject
    else
      let oz := findWhere (fun v => v == 0) D
      let zz := maskSel ((extractD A oz).map (fun v => v == 0)) oz
      let znz :=
        if A.nnz > 0 then
          maskSel (List.zipWith (fun o v => o == v) (A.subs.map D.get) A.vals) A.subs
        else []
      .ok (ofSubs A.shape (zz ++ znz))

/-- `S != other`. -/
def ne (A : Sparse α) : ERhs α → Except Reject (Sparse α)
  | .scalar c =>
    if c == 0 then .ok (ofSubs A.shape A.subs)
    else
      let s1 := maskSel (A.vals.map (fun v => !(v == c))) A.subs
      .ok (ofSubs A.shape (s1 ++ (zeroSubs A)))
  | .sparse B =>
    if A.shape != B.shape then .error .reject
    else
      let nuSelf := intersectRows (toRows A.subs) (toRows B.subs)
      let selfIdx := (List.range A.subs.length).map (fun k => !nuSelf.contains k)
      let nuOther := intersectRows (toRows B.subs) (toRows A.subs)
      let otherIdx := (List.range B.subs.length).map (fun k => !nuOther.contains k)
      let s1 := maskSel selfIdx A.subs ++ maskSel otherIdx B.subs
      let s2 :=
        if A.nnz != 0 && B.nnz != 0 then
          let idx := intersectRows (toRows A.subs) (toRows B.subs)
          let rows := rowsAt A.subs idx
          let neq := List.zipWith (fun a b => !(a == b)) (extractD A rows) (extractD B rows)
          maskSel (scatterMask A.subs.length idx neq) A.subs
        else []
      .ok (ofSubs A.shape (s1 ++ s2))
  | .dense D =>
    if A.shape != D.shape then .error .reject
    else
      let all := allSubsC A.shape
      let union := unionRows (toRows A.subs) (toRows (whereC (fun v => v == 0) D))
      let s1 :=
        if union.length != numel A.shape then rowsAt all (setdiffRows (toRows all) union) else []
      let s2 :=
        if A.nnz > 0 then
          maskSel (List.zipWith (fun v o => !(v == o)) A.vals (A.subs.map D.get)) A.subs
        else []
      .ok (ofSubs A.shape (s1 ++ s2))

/-! ### `<  <=  >  >=` -/

/-- `_compare(other, op, opp, include_zero)`. -/
def compare (op opp : α → α → Bool) (includeZero : Bool) (A : Sparse α) : ERhs α → Except Reject (Sparse α)
  | .scalar c =>
    let s1 := if A.nnz > 0 then maskSel (A.vals.map (fun v => op v c)) A.subs else []
    if opp c 0 then .ok (ofSubs A.shape (s1 ++ (zeroSubs A))) else .ok (ofSubs A.shape s1)
  | .sparse B =>
    if A.shape != B.shape then .error .reject
    else
      -- self not zero, other zero
      let s1 :=
        if A.nnz > 0 then
          let d := diffRows A.subs B.subs
          if d.length > 0 then maskSel ((extractD A d).map (fun v => !(opp v 0))) d else d
        else []
      -- self zero, other not zero
      let s2 :=
        if B.nnz > 0 then
          let d := diffRows B.subs A.subs
          if d.length > 0 then maskSel ((extractD B d).map (fun v => !(op v 0))) d else d
        else []
      -- both not zero
      let s3 :=
        if A.nnz > 0 then
          let d := interRows A.subs B.subs
          if d.length > 0 then maskSel (List.zipWith op (extractD A d) (extractD B d)) d else d
        else []
      if includeZero then
        .ok (ofSubs A.shape (s1 ++ s2 ++ s3 ++ interRows (zeroSubs A) (zeroSubs B)))
      else .ok (ofSubs A.shape (s1 ++ s2 ++ s3))
  | .dense D =>
    if A.shape != D.shape then .error .reject
    else
      let f := findWhere (fun v => opp v 0) D
      let s1 := diffRows f A.subs
      let s2 :=
        if A.nnz > 0 then maskSel (List.zipWith op A.vals (A.subs.map D.get)) A.subs else []
      .ok (ofSubs A.shape (s1 ++ s2))

end eqne

section order
variable [Zero α] [One α] [BEq α] [LT α] [LE α] [DecidableLT α] [DecidableLE α]

def lt (A : Sparse α) (r : ERhs α) := compare (fun a b => decide (a < b)) (fun a b => decide (b < a)) false A r
def le (A : Sparse α) (r : ERhs α) := compare (fun a b => decide (a ≤ b)) (fun a b => decide (b ≤ a)) true A r
def gt (A : Sparse α) (r : ERhs α) := compare (fun a b => decide (b < a)) (fun a b => decide (a < b)) false A r
def ge (A : Sparse α) (r : ERhs α) := compare (fun a b => decide (b ≤ a)) (fun a b => decide (a ≤ b)) true A r

end order

/-! ### logic -/

section logic
variable [Zero α] [One α] [BEq α]

/-- truth value as a number. -/
def b2n (b : Bool) : α := if b then 1 else 0

/-- dense `logical_or` / `logical_xor` against a scalar or a dense tensor (`tenfun`). -/
def denseLogic (g : Bool → Bool → Bool) (T : Dense α) : ERhs α → Except Reject (SpOrDense α)
  | .scalar c => .ok (.dn (mapData (fun x => b2n (g (!(x == 0)) (!(c == 0)))) T))
  | .dense D => (zipData (fun x y => b2n (g (!(x == 0)) (!(y == 0)))) T D).map .dn
  | .sparse _ => .error .reject

/-- `S.logical_and(S2)` for two sparse tensors. -/
def andSp (A B : Sparse α) : Except Reject (Sparse α) :=
  if A.shape != B.shape then .error .reject
  else fromAgg (fun x => b2n (x.length == 2)) (A.subs ++ B.subs)
    (onesCol (A.nnz + B.nnz)) A.shape

/-- `S.logical_and(other)`. -/
def logicalAnd (A : Sparse α) : ERhs α → Except Reject (Sparse α)
  | .scalar c => if c == 0 then .ok (empty A.shape) else .ok ⟨A.shape, A.subs, A.vals.map (fun _ => 1)⟩
  | .sparse B => andSp A B
  | .dense D => andSp A D.toSparse  -- `self.logical_and(other.to_sptensor())`

/-- `S.logical_or(other)`. -/
def logicalOr (A : Sparse α) : ERhs α → Except Reject (SpOrDense α)
  | .sparse B =>
    if A.shape != B.shape then .error .reject
    else (fromAgg (fun x => b2n (x.length ≥ 1)) (A.subs ++ B.subs)
      (onesCol (A.nnz + B.nnz)) A.shape).map .sp
  | r => denseLogic (fun a b => a || b) A.full r

/-- `S.logical_xor(other)`. -/
def logicalXor (A : Sparse α) : ERhs α → Except Reject (SpOrDense α)
  | .sparse B =>
    if A.shape != B.shape then .error .reject
    else (fromAgg (fun x => b2n (x.length == 1)) (A.subs ++ B.subs)
      (onesCol (A.nnz + B.nnz)) A.shape).map .sp
  | r => denseLogic (fun a b => a != b) A.full r

end logic

end SpElem
end Pyttb
