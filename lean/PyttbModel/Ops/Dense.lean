/-
Dense tensor (`pyttb.tensor`): construction checks, index maps (permute / reshape /
squeeze), conversions (find / to_sptensor / to_tenmat).  Mirrors tensor.py.  Import-free.
-/
import PyttbModel.Core.Arr
import PyttbModel.Core.Perm
import PyttbModel.Core.Denote
namespace Pyttb

variable {α : Type}

/-- Result of an operation that may hand back a Python scalar instead of a tensor. -/
inductive ScalarOr (α : Type) (τ : Type) where
  | scalar (v : α)
  | obj (t : τ)
  deriving Repr, BEq, DecidableEq

namespace Dense

/-- `tensor(data, shape)`: the element count must match. -/
def mk? (shape : List Nat) (data : List α) : Except Reject (Dense α) :=
  if data.length == numel shape then .ok ⟨shape, data⟩ else .error .reject

/-- `np.transpose(data, order)` re-laid out in F order: `shape'[k] = shape[order[k]]`,
`result[j] = T[i]` with `i[order[k]] = j[k]`, i.e. `i = j[argsort order]`. -/
def transpose [Zero α] (T : Dense α) (order : List Nat) : Dense α :=
  ofFn (gather T.shape order) (fun j => T.get (gather j (invPerm order)))

/-- `tensor.permute(order)`.  `fixed = false` reproduces the pinned code's shortcut
`(order == 1).all() → copy`, `fixed = true` the repaired code (shortcut only for the
empty order). -/
def permuteG [Zero α] (fixed : Bool) (T : Dense α) (order : List Nat) : Except Reject (Dense α) :=
  if T.shape.length != order.length then .error .reject
  else if order.isEmpty then .ok T
  else if !fixed && order.all (· == 1) then .ok T
  else if !isPermOf order T.shape.length then .error .reject
  else .ok (T.transpose order)

def permute [Zero α] (T : Dense α) (order : List Nat) : Except Reject (Dense α) := permuteG true T order

/-- `tensor.reshape(shape)`: F-order reshape keeps the F-order value list. -/
def reshape (T : Dense α) (shape : List Nat) : Except Reject (Dense α) :=
  if numel T.shape != numel shape then .error .reject else .ok ⟨shape, T.data⟩

/-- `tensor.squeeze()`: drop the modes of extent ≤ 1; a scalar when nothing is left. -/
def squeeze [Zero α] (T : Dense α) : ScalarOr α (Dense α) :=
  if T.shape.all (· > 1) then .obj T
  else
    let keep := T.shape.filter (· > 1)
    if keep.isEmpty then .scalar (T.data.getD 0 0) else .obj ⟨keep, T.data⟩

/-- `tensor.find()`: F-order scan for non-zeros, subscripts by `tt_ind2sub`, values gathered. -/
def find [Zero α] [BEq α] (T : Dense α) : List (List Nat) × List α :=
  let idx := (List.range T.data.length).filter (fun k => !(T.data.getD k 0 == 0))
  (idx.map (ind2sub T.shape), idx.map (fun k => T.data.getD k 0))

/-- `tensor.to_sptensor()`. -/
def toSparse [Zero α] [BEq α] (T : Dense α) : Sparse α :=
  let f := T.find
  ⟨T.shape, f.1, f.2⟩

/-- `tensor.nnz`. -/
def nnz [Zero α] [BEq α] (T : Dense α) : Nat := (T.data.filter (fun v => !(v == 0))).length

end Dense

/-- Matricized dense tensor (`tenmat`): original shape, row modes, column modes and the
matrix as a 2-way dense array. -/
structure Tenmat (α : Type) where
  tshape : List Nat
  rdims : List Nat
  cdims : List Nat
  data : Dense α
  deriving Repr, BEq, DecidableEq

/-- The single-row-mode conventions of `gather_wrap_dims`. -/
inductive Cyclic where
  | fc | bc | t
  deriving Repr, DecidableEq, BEq

/-- `gather_wrap_dims(ndims, rdims, cdims, cdims_cyclic)`. -/
def gatherWrapDims (n : Nat) (rdims cdims : Option (List Nat)) (cyc : Option Cyclic) :
    Except Reject (List Nat × List Nat) :=
  match rdims, cdims with
  | some r, none =>
    match r, cyc with
    | [r0], some .t => .ok (complDims n [r0], [r0])
    | [r0], some .fc => .ok ([r0], (List.range n).drop (r0 + 1) ++ List.range r0)
    | [r0], some .bc => .ok ([r0], (List.range r0).reverse ++ ((List.range n).drop (r0 + 1)).reverse)
    | _, _ => .ok (r, complDims n r)
  | none, some c => .ok (complDims n c, c)
  | some r, some c => .ok (r, c)
  | none, none => .error .reject

/-- `tensor.to_tenmat(rdims, cdims, cdims_cyclic)`: range checks, wrap conventions, the
concatenation must be a permutation of the modes, permute, F-reshape. -/
def Dense.toTenmat [Zero α] (T : Dense α) (rdims cdims : Option (List Nat)) (cyc : Option Cyclic) :
    Except Reject (Tenmat α) :=
  let n := T.shape.length
  let inRange (l : Option (List Nat)) : Bool :=
    match l with | none => true | some l => l.all (· < n)
  if rdims.isNone && cdims.isNone then .error .reject
  else if !inRange rdims || !inRange cdims then .error .reject
  else
    match gatherWrapDims n rdims cdims cyc with
    | .error e => .error e
    | .ok (r, c) =>
      let dims := r ++ c
      if !isPermOf dims n then .error .reject
      else
        match T.permute dims with
        | .error e => .error e
        | .ok P =>
          .ok ⟨T.shape, r, c, ⟨[numel (gather T.shape r), numel (gather T.shape c)], P.data⟩⟩

/-- `tenmat.to_tensor()`: F-reshape to `tshape[order]`, then transpose by `argsort(order)`. -/
def Tenmat.toTensor [Zero α] (M : Tenmat α) : Dense α :=
  let order := M.rdims ++ M.cdims
  let D : Dense α := ⟨gather M.tshape order, M.data.data⟩
  if order.length > 1 then ⟨M.tshape, (D.transpose (invPerm order)).data⟩ else ⟨M.tshape, D.data⟩

end Pyttb
