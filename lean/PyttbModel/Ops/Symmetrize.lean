/-
C15 — `tensor.symmetrize` / `tensor.issymmetric` (both algorithm versions, with the detail
outputs) and `ktensor.symmetrize` / `ktensor.issymmetric`, as the code computes them
(tensor.py / ktensor.py after the fixes dce0022, ea31d59 and adf6713).  Import-free.

A group list `grps` is the list of rows of the 2-d integer array the code receives (so in the
real code all groups have the same length; the model does not need that).
-/
import PyttbModel.Ops.Dense
import PyttbModel.Ops.Kruskal
namespace Pyttb
namespace Sym

variable {α : Type}

/-! ### NumPy / itertools primitives used by the two routines -/

/-- all ways of taking one element out of a list, in order of position. -/
def picks {β : Type} : List β → List (β × List β)
  | [] => []
  | x :: xs => (x, xs) :: (picks xs).map fun yr => (yr.1, x :: yr.2)

def permsFuel {β : Type} : Nat → List β → List (List β)
  | 0, _ => [[]]
  | n + 1, l => (picks l).flatMap fun yr => (permsFuel n yr.2).map (yr.1 :: ·)

/-- `itertools.permutations(l)`: lexicographic in the positions of `l`. -/
def permsLex {β : Type} (l : List β) : List (List β) := permsFuel l.length l

/-- `a[idx] = vals` for a 1-d integer array (NumPy fancy assignment; a later write to the same
position wins).  The callers check that `idx` is in range (NumPy raises otherwise). -/
def scatter (a idx vals : List Nat) : List Nat :=
  (idx.zip vals).foldl (fun acc kv => acc.set kv.1 kv.2) a

def insertNat (a : Nat) : List Nat → List Nat
  | [] => [a]
  | b :: l => if a ≤ b then a :: b :: l else b :: insertNat a l

/-- `np.sort` of one row (the increasing rearrangement; written as an insertion sort). -/
def sortNat (l : List Nat) : List Nat := l.foldr insertNat []

/-- one row of `classidx`: `classidx[:, g] = np.sort(idx[:, g], axis=1)` – the coordinates of
the modes in `g` are replaced by their sorted values (smallest into `g[0]`, …). -/
def classSub (g i : List Nat) : List Nat := scatter i g (sortNat (gather i g))

/-- entry `k` of `numpy_groupies.aggregate(idx, vals)` (sum, fill 0). -/
def accumAt [Add α] [Zero α] (idx : List Nat) (vals : List α) (k : Nat) : α :=
  (((idx.zip vals).filter (fun e => e.1 == k)).map (·.2)).sum

/-- `accumarray(idx, vals)`: one entry per index `0 .. max(idx)`. -/
def accumarray [Add α] [Zero α] (idx : List Nat) (vals : List α) : List α :=
  (List.range (idx.foldl max 0 + 1)).map (accumAt idx vals)

/-- `np.all(sz[g[0]] == sz[g])`. -/
def sameSizes (s g : List Nat) : Bool := g.all fun m => s.getD m 0 == s.getD (g.headD 0) 0

/-- `np.intersect1d(g, later groups)` is non-empty for some group. -/
def overlapping : List (List Nat) → Bool
  | [] => false
  | g :: gs => gs.any (fun h => h.any g.contains) || overlapping gs

def inRange (n : Nat) (g : List Nat) : Bool := g.all (· < n)

/-- `np.unique(grp).size == grp.size`: no mode listed twice. -/
def distinct : List Nat → Bool
  | [] => true
  | a :: l => !l.contains a && distinct l

/-- the argument check both routines make right after `grps` has been made 2-d (adf6713):
`not (np.any(grps < 0) or np.any(grps >= n) or any(np.unique(grp).size != grp.size for grp in grps))`.
Modes are naturals here; a negative entry is refused before the model is reached (driver). -/
def groupsCheck (n : Nat) (grps : List (List Nat)) : Bool :=
  grps.all fun g => inRange n g && distinct g

/-! ### element-wise helpers on dense tensors -/

def zerosD [Zero α] (s : List Nat) : Dense α := ⟨s, List.replicate (numel s) 0⟩
def addD [Add α] (A B : Dense α) : Dense α := ⟨A.shape, List.zipWith (· + ·) A.data B.data⟩
def divNatD [Div α] [NatCast α] (A : Dense α) (k : Nat) : Dense α := ⟨A.shape, A.data.map (· / (k : α))⟩
def maxD [Max α] (A B : Dense α) : Dense α := ⟨A.shape, List.zipWith max A.data B.data⟩

/-- `np.all(data.ravel(order="F") == data[tuple(classidx.T)])`: every entry equals the entry
at its class exemplar (both sides enumerated first index fastest). -/
def classCheck [BEq α] [Zero α] (T : Dense α) (g : List Nat) : Bool :=
  (List.zipWith (· == ·) T.data ((allSubs T.shape).map fun i => T.get (classSub g i))).all id

/-! ### `tensor.symmetrize`, default (class based) version -/

/-- the body of the loop for one group: nothing to do when every entry already equals its
exemplar, otherwise class sums and class counts by `accumarray` over the linear index of the
exemplar, their quotient, gathered back by the same linear indices and F-reshaped. -/
def symStepNew [Add α] [Zero α] [One α] [Div α] [BEq α] (T : Dense α) (g : List Nat) : Dense α :=
  let classidx := (allSubs T.shape).map (classSub g)
  let lin := classidx.map (sub2ind T.shape)
  if classCheck T g then T
  else
    let classSum := accumarray lin T.data
    let classNum := accumarray lin (lin.map fun _ => (1 : α))
    let avg := List.zipWith (· / ·) classSum classNum
    ⟨T.shape, lin.map fun k => avg.getD k 0⟩

/-- `tensor.symmetrize(grps)` with `version=None`: per group, in order – sizes of the group's
modes equal, no overlap with a later group, then the class average of the current data. -/
def symmetrizeNewGo [Add α] [Zero α] [One α] [Div α] [BEq α] (D : Dense α) :
    List (List Nat) → Except Reject (Dense α)
  | [] => .ok D
  | g :: rest =>
    -- `thisgrp[0]` of an empty row and `sz[thisgrp]` out of range raise IndexError (the latter is
    -- caught earlier by the argument check since adf6713; the indexing is still in the source)
    if g.isEmpty || !inRange D.shape.length g then .error .reject
    else if !sameSizes D.shape g then .error .reject
    else if rest.any (fun h => h.any g.contains) then .error .reject
    else symmetrizeNewGo (symStepNew D g) rest

/-! ### `tensor.symmetrize`, original (all permutations) version -/

/-- rows of `sym_perms`: the identity order with, for every group, the group's positions
overwritten by one permutation of the group; all combinations, the first group slowest. -/
def symPermsFrom (base : List Nat) : List (List Nat) → List (List Nat)
  | [] => [base]
  | g :: gs => (permsLex g).flatMap fun c => symPermsFrom (scatter base g c) gs

/-- `Y += self.permute(p)` over the rows. -/
def sumPermuted [Add α] [Zero α] (T : Dense α) : Dense α → List (List Nat) → Except Reject (Dense α)
  | Y, [] => .ok Y
  | Y, p :: ps =>
    match T.permute p with
    | .error e => .error e
    | .ok Z => sumPermuted T (addD Y Z) ps

/-- the closing loop `Y = maximum(Y, Y.permute(p))` over the rows. -/
def maxFix [Max α] [Zero α] : Dense α → List (List Nat) → Except Reject (Dense α)
  | Y, [] => .ok Y
  | Y, p :: ps =>
    match Y.permute p with
    | .error e => .error e
    | .ok Z => maxFix (maxD Y Z) ps

def symmetrizeOld [Add α] [Zero α] [Div α] [NatCast α] [Max α] (T : Dense α) (grps : List (List Nat)) :
    Except Reject (Dense α) :=
  let n := T.shape.length
  -- a mode out of range raises IndexError in the size loop or when the rows are written
  -- (caught earlier by the argument check since adf6713)
  if !grps.all (inRange n) then .error .reject
  else if !grps.all (sameSizes T.shape) then .error .reject
  else if overlapping grps then .error .reject
  else
    let rows := symPermsFrom (List.range n) grps
    let total := (grps.map fun g => (permsLex g).length).foldl (· * ·) 1
    match sumPermuted T (zerosD T.shape) rows with
    | .error e => .error e
    | .ok Y => maxFix (divNatD Y total) rows

/-- `tensor.symmetrize(grps, version)`; `grps = None` is the single group of all modes. -/
def symmetrize [Add α] [Zero α] [One α] [Div α] [NatCast α] [Max α] [BEq α] (T : Dense α)
    (grps : Option (List (List Nat))) (versionGiven : Bool) : Except Reject (Dense α) :=
  let grps := grps.getD [List.range T.shape.length]
  if !groupsCheck T.shape.length grps then .error .reject
  else if versionGiven then symmetrizeOld T grps else symmetrizeNewGo T grps

/-! ### `tensor.issymmetric` -/

/-- what `issymmetric` hands back: a bare bool, or `(bool, all_diffs, all_perms)`. -/
inductive TestOut (α : Type) where
  | plain (b : Bool)
  | details (b : Bool) (diffs : List α) (perms : List (List Nat))
  deriving Repr, BEq, DecidableEq

/-- the yes/no part of the answer. -/
def TestOut.answer : TestOut α → Bool
  | .plain b => b
  | .details b _ _ => b

/-- `data.ravel()` (NumPy's default: last index fastest). -/
def ravelC [Zero α] (T : Dense α) : List α :=
  (allSubs T.shape.reverse).map fun r => T.get r.reverse

/-- the exemplar comparison of the code before the fix dce0022: first-index-fastest class
indices against a last-index-fastest `data.ravel()`.  Kept only for the pinned counterexample. -/
def classCheckPinned [BEq α] [Zero α] (T : Dense α) (g : List Nat) : Bool :=
  (List.zipWith (· == ·) (ravelC T) ((allSubs T.shape).map fun i => T.get (classSub g i))).all id

/-- default version (no `version`, no details): per group – sizes (unequal: `False`), then
every entry against its class exemplar. -/
def issymmetricNewGo [BEq α] [Zero α] (T : Dense α) : List (List Nat) → Except Reject Bool
  | [] => .ok true
  | g :: rest =>
    if g.isEmpty || !inRange T.shape.length g then .error .reject
    else if !sameSizes T.shape g then .ok false
    else if !classCheck T g then .ok false
    else issymmetricNewGo T rest

/-- the size loop of the original version for one group: `for j in dims[1:]: sz[j] != sz[dims[0]]`. -/
def sizeLoopGroup (s : List Nat) (d0 : Nat) : List Nat → Except Reject Bool
  | [] => .ok true
  | j :: js =>
    if j ≥ s.length || d0 ≥ s.length then .error .reject
    else if s.getD j 0 != s.getD d0 0 then .ok false
    else sizeLoopGroup s d0 js

def sizeLoop (s : List Nat) : List (List Nat) → Except Reject Bool
  | [] => .ok true
  | g :: gs =>
    match sizeLoopGroup s (g.headD 0) g.tail with
    | .error e => .error e
    | .ok false => .ok false
    | .ok true => sizeLoop s gs

def absV [Neg α] [LT α] [DecidableLT α] [Zero α] (x : α) : α := if x < 0 then -x else x

/-- `np.max(np.abs(a - b))` (only evaluated for non-empty arrays). -/
def maxAbsDiff [Sub α] [Neg α] [LT α] [DecidableLT α] [Zero α] [Max α] (a b : List α) : α :=
  match List.zipWith (fun x y => absV (x - y)) a b with
  | [] => 0
  | d :: ds => ds.foldl max d

/-- one row of the original check: the group permutation embedded in the identity order, the
permuted tensor, `0` when it equals the tensor and the largest absolute difference otherwise. -/
def symRowOld [Sub α] [Neg α] [LT α] [DecidableLT α] [Zero α] [Max α] [BEq α] (T : Dense α)
    (g c : List Nat) : Except Reject (α × List Nat) :=
  if !inRange T.shape.length g then .error .reject
  else
    let full := scatter (List.range T.shape.length) g c
    match T.permute full with
    | .error e => .error e
    | .ok Y =>
      .ok (if T.shape == Y.shape && T.data == Y.data then 0 else maxAbsDiff T.data Y.data, full)

def symRowsOld [Sub α] [Neg α] [LT α] [DecidableLT α] [Zero α] [Max α] [BEq α] (T : Dense α) :
    List (List Nat × List Nat) → Except Reject (List (α × List Nat))
  | [] => .ok []
  | gc :: rest =>
    match symRowOld T gc.1 gc.2 with
    | .error e => .error e
    | .ok r =>
      match symRowsOld T rest with
      | .error e => .error e
      | .ok rs => .ok (r :: rs)

/-- original version (`version` given or details requested). -/
def issymmetricOld [Sub α] [Neg α] [LT α] [DecidableLT α] [Zero α] [Max α] [BEq α] (T : Dense α)
    (grps : List (List Nat)) (details : Bool) : Except Reject (TestOut α) :=
  match sizeLoop T.shape grps with
  | .error e => .error e
  | .ok false => .ok (.plain false)
  | .ok true =>
    match symRowsOld T (grps.flatMap fun g => (permsLex g).map fun c => (g, c)) with
    | .error e => .error e
    | .ok rows =>
      let diffs := rows.map (·.1)
      let b := diffs.all (· == 0)
      .ok (if details then .details b diffs (rows.map (·.2)) else .plain b)

/-- `tensor.issymmetric(grps, version, return_details)`. -/
def issymmetric [Sub α] [Neg α] [LT α] [DecidableLT α] [Zero α] [Max α] [BEq α] (T : Dense α)
    (grps : Option (List (List Nat))) (versionGiven details : Bool) : Except Reject (TestOut α) :=
  let grps := grps.getD [List.range T.shape.length]
  if !groupsCheck T.shape.length grps then .error .reject
  else if !versionGiven && !details then
    match issymmetricNewGo T grps with
    | .error e => .error e
    | .ok b => .ok (.plain b)
  else issymmetricOld T grps details

end Sym

/-! ### Kruskal tensors -/

namespace Sym

variable {α : Type}

def matAdd [Add α] (A B : Mat α) : Mat α := List.zipWith (List.zipWith (· + ·)) A B

/-- `fm0[:, j].T @ fmi[:, j]`. -/
def colDot [Add α] [Mul α] [Zero α] (A B : Mat α) (j : Nat) : α :=
  (List.zipWith (fun ra rb => ra.getD j 0 * rb.getD j 0) A B).sum

def flipCols [Neg α] (flips : List Bool) (A : Mat α) : Mat α :=
  A.map fun row => List.zipWith (fun (f : Bool) x => if f then -x else x) flips row

def flipVec [Neg α] (flips : List Bool) (w : List α) : List α :=
  List.zipWith (fun (f : Bool) x => if f then -x else x) flips w

/-- the loop over the modes `1 .. N-1`: columns of the mode's factor that point away from the
first factor's column are negated together with the weight, the factor is added to `V`. -/
def ksymLoop [Add α] [Mul α] [Neg α] [Zero α] [LT α] [DecidableLT α] (fm0 : Mat α) (R : Nat) :
    Mat α → List α → List (Mat α) → Mat α × List α
  | V, w, [] => (V, w)
  | V, w, fmi :: rest =>
    let flips := (List.range R).map fun j => decide (colDot fm0 fmi j < 0)
    ksymLoop fm0 R (matAdd V (flipCols flips fmi)) (flipVec flips w) rest

/-- `ktensor.symmetrize()` after the copy has been normalised with `normalize("all")`
(`Kn` is that normalised copy). -/
def ksymmetrizeCore [Add α] [Mul α] [Neg α] [Zero α] [Div α] [NatCast α] [LT α] [DecidableLT α]
    (Kn : Ktensor α) : Ktensor α :=
  let N := Kn.factors.length
  let fm0 := Kn.factors.getD 0 []
  let R := fm0.ncols
  let (V, w) := ksymLoop fm0 R fm0 Kn.weights (Kn.factors.drop 1)
  let V := V.map fun row => row.map (· / (N : α))
  let neg := if N % 2 == 1 then w.map fun x => decide (x < 0) else w.map fun _ => false
  ⟨flipVec neg w, List.replicate N (flipCols neg V)⟩

/-- `ktensor.symmetrize()`: the tensor must be cubic; `normalizeAll` stands for the library's
`copy().normalize("all")` (square roots and N-th roots: an external numerical service). -/
def ksymmetrize [Add α] [Mul α] [Neg α] [Zero α] [Div α] [NatCast α] [LT α] [DecidableLT α]
    (normalizeAll : Ktensor α → Ktensor α) (K : Ktensor α) : Except Reject (Ktensor α) :=
  match K.shape with
  | [] => .error .reject
  | s0 :: rest => if rest.all (· == s0) then .ok (ksymmetrizeCore (normalizeAll K)) else .error .reject

/-- one entry of the `diffs` matrix of `ktensor.issymmetric`: exact zero (`array_equal`),
`inf` (different shapes) or the Frobenius norm, of which the model carries the square. -/
inductive KDiff (α : Type) where
  | zero
  | inf
  | normSq (x : α)
  deriving Repr, BEq, DecidableEq

def frobSq [Add α] [Mul α] [Sub α] [Zero α] (A B : Mat α) : α :=
  ((List.zipWith (fun ra rb => (List.zipWith (fun x y => (x - y) * (x - y)) ra rb).sum) A B)).sum

def kdiff [Add α] [Mul α] [Sub α] [Zero α] [BEq α] (A B : Mat α) : KDiff α :=
  if !(A.length == B.length && A.ncols == B.ncols) then .inf
  else if A == B then .zero
  else .normSq (frobSq A B)

def KDiff.isZero [Zero α] [BEq α] : KDiff α → Bool
  | .zero => true
  | .inf => false
  | .normSq x => x == 0

/-- `ktensor.issymmetric(return_diffs=True)`: the strictly upper triangle of `diffs`, row by
row (all other entries of the matrix stay 0), and `(diffs == 0).all()`. -/
def kissymmetric [Add α] [Mul α] [Sub α] [Zero α] [BEq α] (K : Ktensor α) : Bool × List (List (KDiff α)) :=
  let N := K.factors.length
  let upper := (List.range N).map fun i => ((List.range N).drop (i + 1)).map fun j =>
    kdiff (K.factors.getD i []) (K.factors.getD j [])
  (upper.all fun row => row.all KDiff.isZero, upper)

end Sym
end Pyttb
