/-
Sparse tensor (`pyttb.sptensor`) and sparse matricized tensor (`sptenmat`): index maps
and conversions.  Mirrors sptensor.py / sptenmat.py.  Import-free.
-/
import PyttbModel.Ops.Dense
namespace Pyttb

variable {α : Type}

/-- Lexicographic strict order on subscript rows (the order of `np.unique(axis=0)`). -/
def lexLt : List Nat → List Nat → Bool
  | [], [] => false
  | [], _ :: _ => true
  | _ :: _, [] => false
  | a :: as, b :: bs => decide (a < b) || (a == b && lexLt as bs)

/-- `np.unique(subs, axis=0)`: distinct rows in lexicographic order. -/
def uniqueRowsSorted (subs : List (List Nat)) : List (List Nat) :=
  (subs.mergeSort (fun a b => !lexLt b a)).eraseDups

/-- `np.unique(return_inverse)` + `accumarray(sum)`: per distinct row the sum of the values
stored under it (in stored order). -/
def aggregateSum [Add α] [Zero α] (subs : List (List Nat)) (vals : List α) : List (List Nat × α) :=
  (uniqueRowsSorted subs).map fun r =>
    (r, (((subs.zip vals).filter (fun e => e.1 == r)).map (·.2)).sum)

namespace Sparse

/-- `sptensor.full()`: zeros, then `B[sub2ind(subs)] = vals` (later duplicates overwrite). -/
def full [Zero α] (S : Sparse α) : Dense α :=
  Dense.ofFn S.shape fun i =>
    match (S.entries.reverse).find? (fun e => e.1 == i) with
    | some e => e.2
    | none => 0

/-- `sptensor.permute(order)`. -/
def permute (S : Sparse α) (order : List Nat) : Except Reject (Sparse α) :=
  if !isPermOf order S.shape.length then .error .reject
  else .ok ⟨gather S.shape order, S.subs.map (fun r => gather r order), S.vals⟩

/-- `sptensor.reshape(new_shape, old_modes)`: the selected modes are linearised and
re-expanded; kept modes come first.  `old_modes = none` means all modes. -/
def reshape (S : Sparse α) (newShape : List Nat) (oldModes : Option (List Nat)) :
    Except Reject (Sparse α) :=
  let n := S.shape.length
  let om := oldModes.getD (List.range n)
  let keep := match oldModes with | none => [] | some m => complDims n m
  let oldShape := gather S.shape om
  let keepShape := gather S.shape keep
  if numel newShape != numel oldShape then .error .reject
  else if om.any (· ≥ n) then .error .reject
  else if om.eraseDups.length != om.length then .error .reject
  else
    .ok ⟨keepShape ++ newShape,
         S.subs.map (fun r => gather r keep ++ ind2sub newShape (sub2ind oldShape (gather r om))),
         S.vals⟩

/-- `sptensor.squeeze()`.  With every mode singleton the code returns `vals.item()`,
which raises when nothing is stored (`fixed = false`); the repaired code returns 0. -/
def squeezeG [Zero α] (fixed : Bool) (S : Sparse α) : Except Reject (ScalarOr α (Sparse α)) :=
  if S.shape.all (· > 1) then .ok (.obj S)
  else
    let idx := (List.range S.shape.length).filter (fun k => S.shape.getD k 0 > 1)
    if idx.isEmpty then
      match S.vals with
      | [v] => .ok (.scalar v)
      | [] => if fixed then .ok (.scalar 0) else .error .reject
      | _ => .error .reject
    else .ok (.obj ⟨gather S.shape idx, S.subs.map (fun r => gather r idx), S.vals⟩)

def squeeze [Zero α] (S : Sparse α) := squeezeG true S

end Sparse

/-- `sptenmat`: matrix subscripts (row, column), values, mode split, original shape. -/
structure Sptenmat (α : Type) where
  tshape : List Nat
  rdims : List Nat
  cdims : List Nat
  subs : List (List Nat)
  vals : List α
  deriving Repr, BEq, DecidableEq

/-- `sptenmat(subs, vals, rdims, cdims, tshape)` with copying: duplicates are summed, zeros
dropped, rows sorted. -/
def Sptenmat.mkCopy [Add α] [Zero α] [BEq α] (subs : List (List Nat)) (vals : List α)
    (rdims cdims tshape : List Nat) : Except Reject (Sptenmat α) :=
  let n := tshape.length
  if !isPermOf (rdims ++ cdims) n then .error .reject
  else if subs.any (fun r => r.length != 2) then .error .reject
  else if subs.length != vals.length then .error .reject
  else if subs.any (fun r => r.getD 0 0 ≥ numel (gather tshape rdims)) then .error .reject
  else if subs.any (fun r => r.getD 1 0 ≥ numel (gather tshape cdims)) then .error .reject
  else
    let agg := (aggregateSum subs vals).filter (fun e => !(e.2 == 0))
    .ok ⟨tshape, rdims, cdims, agg.map (·.1), agg.map (·.2)⟩

/-- `sptensor.to_sptenmat(rdims, cdims, cdims_cyclic)`. -/
def Sparse.toSptenmat [Add α] [Zero α] [BEq α] (S : Sparse α) (rdims cdims : Option (List Nat))
    (cyc : Option Cyclic) : Except Reject (Sptenmat α) :=
  let n := S.shape.length
  match gatherWrapDims n rdims cdims cyc with
  | .error e => .error e
  | .ok (r, c) =>
    if !isPermOf (r ++ c) n then .error .reject
    else
      let rsize := gather S.shape r
      let csize := gather S.shape c
      let ms := S.subs.map fun row => [sub2ind rsize (gather row r), sub2ind csize (gather row c)]
      Sptenmat.mkCopy ms S.vals r c S.shape

/-- `sptenmat.to_sptensor()`: each side is expanded by `tt_ind2sub` and scattered into the
columns named by `rdims` / `cdims`. -/
def Sptenmat.toSparse (M : Sptenmat α) : Sparse α :=
  let rsize := gather M.tshape M.rdims
  let csize := gather M.tshape M.cdims
  let n := M.tshape.length
  let subs := M.subs.map fun rc =>
    let ri := ind2sub rsize (rc.getD 0 0)
    let ci := ind2sub csize (rc.getD 1 0)
    (List.range n).map fun m =>
      match M.rdims.idxOf? m with
      | some k => ri.getD k 0
      | none => ci.getD (M.cdims.idxOf m) 0
  ⟨M.tshape, subs, M.vals⟩

/-- Matrix shape of a sparse matricized tensor. -/
def Sptenmat.mshape (M : Sptenmat α) : List Nat :=
  [numel (gather M.tshape M.rdims), numel (gather M.tshape M.cdims)]

/-- `sptenmat.full()` as a dense matricized tensor. -/
def Sptenmat.full [Zero α] (M : Sptenmat α) : Tenmat α :=
  ⟨M.tshape, M.rdims, M.cdims, (Sparse.full ⟨M.mshape, M.subs, M.vals⟩)⟩

end Pyttb
