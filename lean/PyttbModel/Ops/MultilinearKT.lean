/-
C02 — Kruskal (`ktensor.py`), Tucker (`ttensor.py`) and sum (`sumtensor.py`) kernels:
`ttv mttkrp innerprod norm` / `full ttv ttm mttkrp innerprod norm` / each mapped over the parts.
Import-free.
-/
import PyttbModel.Ops.Kruskal
import PyttbModel.Ops.MultilinearSparse
namespace Pyttb

variable {α : Type}

/-- `A.T @ v` for a factor matrix with `R` columns. -/
def Mat.tmulVec [Add α] [Mul α] [Zero α] (A : Mat α) (v : List α) (R : Nat) : List α :=
  (List.range R).map fun r => sumRange A.length fun a => A.get a r * v.getD a 0

/-- `A.T @ B` for matrices with the same number of rows, `Ra × Rb`. -/
def Mat.tmul [Add α] [Mul α] [Zero α] (A B : Mat α) (Ra Rb : Nat) : Mat α :=
  (List.range Ra).map fun r => (List.range Rb).map fun q => sumRange A.length fun a => A.get a r * B.get a q

/-- Column `r` of a matrix. -/
def Mat.colOf [Zero α] (A : Mat α) (r : Nat) : List α := A.map fun row => row.getD r 0

namespace Ktensor

/-- `ktensor.ttv` after `tt_dimscheck` (after the fix for modes of extent 1). -/
def ttvCore [Add α] [Mul α] [Zero α] (K : Ktensor α) (pairs : List (Nat × List α)) :
    Except Reject (ScalarOr α (Ktensor α)) :=
  let N := K.factors.length
  let R := K.ncomp
  let sdims := pairs.map (·.1)
  if pairs.any (fun p => p.2.length != (K.factors.getD p.1 []).length) then .error .reject
  else if sdims.eraseDups.length != sdims.length then .error .reject
  else
    let rem := complDims N sdims
    let neww := pairs.foldl (fun w p => List.zipWith (· * ·) w ((K.factors.getD p.1 []).tmulVec p.2 R)) K.weights
    if rem.isEmpty then .ok (.scalar neww.sum)
    else .ok (.obj ⟨neww, gatherD K.factors rem []⟩)

def ttv [Add α] [Mul α] [Zero α] (K : Ktensor α) (vs : List (List α)) (dims excl : Option (List Int)) :
    Except Reject (ScalarOr α (Ktensor α)) :=
  match resolveModes K.factors.length vs dims excl with
  | .error e => .error e
  | .ok pairs => K.ttvCore pairs

/-- `ktensor.mttkrp(U, n)`. -/
def mttkrp [Add α] [Mul α] [Zero α] (K : Ktensor α) (U : KOperand α) (n : Nat) : Except Reject (Mat α) :=
  let N := K.factors.length
  match getMttkrpFactors U n N with
  | .error e => .error e
  | .ok fs =>
    if n ≥ N then .error .reject
    else if N < 2 then .error .reject      -- `U[1]` / `U[0]` of the missing mode
    else
      let R := if n == 0 then (fs.getD 1 []).ncols else (fs.getD 0 []).ncols
      let Rk := K.ncomp
      -- matmul needs equal row counts and, for the running product, R columns everywhere
      if (List.range N).any (fun i => i != n &&
            ((fs.getD i []).length != (K.factors.getD i []).length || !(fs.getD i []).isShape (fs.getD i []).length R)) then
        .error .reject
      else
        let W : Mat α := (List.range Rk).map fun r' => (List.range R).map fun r =>
          ((List.range N).filter (· != n)).foldl
            (fun acc i => acc * ((K.factors.getD i []).tmul (fs.getD i []) Rk R).get r' r) (K.weights.getD r' 0)
        let An := K.factors.getD n []
        .ok (An.mulD W An.length Rk R)

/-- `ktensor.innerprod(ktensor)`: Hadamard product of the Gram matrices. -/
def innerprodK [Add α] [Mul α] [Zero α] (K L : Ktensor α) : Except Reject α :=
  if K.shape != L.shape then .error .reject
  else
    let Ra := K.ncomp
    let Rb := L.ncomp
    .ok (sumRange Ra fun r => sumRange Rb fun q =>
      (List.range K.factors.length).foldl
        (fun acc i => acc * ((K.factors.getD i []).tmul (L.factors.getD i []) Ra Rb).get r q)
        (K.weights.getD r 0 * L.weights.getD q 0))

/-- Square of `ktensor.norm()` before `abs`/`sqrt`: the sum of the coefficient matrix. -/
def normSq [Add α] [Mul α] [Zero α] (K : Ktensor α) : α :=
  let R := K.ncomp
  sumRange R fun r => sumRange R fun q =>
    K.factors.foldl (fun acc A => acc * (A.tmul A R R).get r q) (K.weights.getD r 0 * K.weights.getD q 0)

end Ktensor

namespace Ttensor

/-- `ttensor.full()`: `core.ttm(factor_matrices)`. -/
def full [Add α] [Mul α] [Zero α] (T : Ttensor α) : Except Reject (Dense α) :=
  T.core.ttm (T.factors.map fun U => ⟨U, U.length, U.ncols⟩) none none false

/-- `ttensor.ttv`. -/
def ttvCore [Add α] [Mul α] [Zero α] (T : Ttensor α) (pairs : List (Nat × List α)) :
    Except Reject (ScalarOr α (Ttensor α)) :=
  let N := T.factors.length
  if pairs.any (fun p => p.2.length != (T.factors.getD p.1 []).length) then .error .reject
  else
    let rem := complDims N (pairs.map (·.1))
    let W := pairs.map fun p => (p.1, (T.factors.getD p.1 []).tmulVec p.2 (T.core.shape.getD p.1 0))
    match T.core.ttvCore W with
    | .error e => .error e
    | .ok (.scalar v) => if rem.isEmpty then .ok (.scalar v) else .error .reject
    | .ok (.obj c) => if rem.isEmpty then .error .reject else .ok (.obj ⟨c, gatherD T.factors rem []⟩)

def ttv [Add α] [Mul α] [Zero α] (T : Ttensor α) (vs : List (List α)) (dims excl : Option (List Int)) :
    Except Reject (ScalarOr α (Ttensor α)) :=
  match resolveModes T.factors.length vs dims excl with
  | .error e => .error e
  | .ok pairs => T.ttvCore pairs

/-- `ttensor.ttm(list, dims, exclude_dims, transpose)`: the matrices multiply the factors. -/
def ttm [Add α] [Mul α] [Zero α] (T : Ttensor α) (Ms : List (Dense.MatArg α)) (dims excl : Option (List Int))
    (tr : Bool) : Except Reject (Ttensor α) :=
  let N := T.factors.length
  match resolveModes N Ms dims excl with
  | .error e => .error e
  | .ok pairs =>
    if pairs.any (fun p => (if tr then p.2.m else p.2.n) != (T.factors.getD p.1 []).length) then .error .reject
    else
      .ok ⟨T.core, (List.range N).map fun d =>
        let U := T.factors.getD d []
        match pairs.reverse.lookup d with      -- a later pair for the same mode overwrites
        | none => U
        | some M =>
          let c := T.core.shape.getD d 0
          if tr then (M.rows.tr M.m M.n).mulD U M.n M.m c else M.rows.mulD U M.m M.n c⟩

/-- `ttensor.mttkrp(U, n)` (after the fix: Kruskal weights absorbed by `get_mttkrp_factors`). -/
def mttkrp [Add α] [Mul α] [Zero α] (T : Ttensor α) (U : KOperand α) (n : Nat) : Except Reject (Mat α) :=
  let N := T.factors.length
  match getMttkrpFactors U n N with
  | .error e => .error e
  | .ok fs =>
    if n ≥ N then .error .reject else
    let R := if n == 0 then (fs.getD 1 []).ncols else (fs.getD 0 []).ncols
    if (List.range N).any (fun i => i != n && (fs.getD i []).length != (T.factors.getD i []).length) then .error .reject
    else
      let W := (List.range N).map fun i =>
        if i == n then [] else (T.factors.getD i []).tmul (fs.getD i []) (T.core.shape.getD i 0) (fs.getD i []).ncols
      match T.core.mttkrpCore W n with
      | .error e => .error e
      | .ok Y =>
        let Un := T.factors.getD n []
        .ok (Un.mulD Y Un.length (T.core.shape.getD n 0) R)

/-- `ttensor.innerprod(tensor)`: through `full()` when the tensor is smaller than the core,
otherwise through `other.ttm(factors, transpose=True)` against the core. -/
def innerprodDense [Add α] [Mul α] [Zero α] (T : Ttensor α) (D : Dense α) : Except Reject α :=
  if T.shape != D.shape then .error .reject
  else if numel T.shape < numel T.core.shape then
    match T.full with
    | .error e => .error e
    | .ok Z => Z.innerprod D
  else
    match D.ttm (T.factors.map fun U => ⟨U, U.length, U.ncols⟩) none none true with
    | .error e => .error e
    | .ok Z => Z.innerprod T.core

/-- `ttensor.innerprod(sptensor)`. -/
def innerprodSparse [Add α] [Mul α] [Zero α] [BEq α] (T : Ttensor α) (S : Sparse α) : Except Reject α :=
  if T.shape != S.shape then .error .reject
  else if numel T.shape < numel T.core.shape then
    match T.full with
    | .error e => .error e
    | .ok Z => S.innerprodDense Z    -- `Z.innerprod(other)` dispatches to the sparse code
  else
    match S.ttm (T.factors.map fun U => ⟨U, U.length, U.ncols⟩) none none true with
    | .error e => .error e
    | .ok Z => Z.innerprod T.core

/-- `ttensor.innerprod(ttensor)`: the one with the smaller core comes first. -/
def innerprodT [Add α] [Mul α] [Zero α] (T O : Ttensor α) : Except Reject α :=
  if T.shape != O.shape then .error .reject
  else
    let (A, B) := if numel T.core.shape > numel O.core.shape then (O, T) else (T, O)
    let W := (List.range A.factors.length).map fun i =>
      let Ua := A.factors.getD i []
      let Ub := B.factors.getD i []
      (⟨Ua.tmul Ub (A.core.shape.getD i 0) (B.core.shape.getD i 0), A.core.shape.getD i 0, B.core.shape.getD i 0⟩ : Dense.MatArg α)
    match B.core.ttm W none none false with
    | .error e => .error e
    | .ok J => A.core.innerprod J

/-- Square of `ttensor.norm()`: through the Gram matrices when the tensor is larger than its
core, otherwise through `full()`. -/
def normSq [Add α] [Mul α] [Zero α] (T : Ttensor α) : Except Reject α :=
  if numel T.shape > numel T.core.shape then
    let V := (List.range T.factors.length).map fun i =>
      let U := T.factors.getD i []
      let c := T.core.shape.getD i 0
      (⟨U.tmul U c c, c, c⟩ : Dense.MatArg α)
    match T.core.ttm V none none false with
    | .error e => .error e
    | .ok Y => Y.innerprod T.core
  else
    match T.full with
    | .error e => .error e
    | .ok Z => .ok Z.normSq

end Ttensor

/-- `ktensor.mask(W)`: the values of the Kruskal tensor at the subscripts where the mask `W` is
non-zero (`W.find()` order), component by component: `λ_j · A₀[i₀,j] · A₁[i₁,j] ⋯`, summed over `j`.
The mask must have the same order and no larger extents.  (An empty list of subscripts gives an
empty result.) -/
def Ktensor.mask [Add α] [Mul α] [Zero α] (K : Ktensor α) (wshape : List Nat) (wsubs : List (List Nat)) :
    Except Reject (List α) :=
  if wshape.length != K.factors.length then .error .reject
  else if (wshape.zip K.shape).any (fun p => p.1 > p.2) then .error .reject
  else .ok (wsubs.map fun sub =>
    (List.range K.ncomp).foldl (fun acc j =>
      acc + (List.range K.factors.length).foldl
        (fun t k => t * (K.factors.getD k []).get (sub.getD k 0) j) (K.weights.getD j 0)) 0)

/-- One entry of the `samples` argument of `ttensor.reconstruct`: an index vector (rows of the factor
are gathered) or a matrix with as many columns as the mode has entries (multiplied onto the factor). -/
inductive ReconSample (α : Type) where
  | idx (l : List Nat)
  | mat (M : Dense.MatArg α)
  deriving Repr, BEq, DecidableEq

/-- The factor `reconstruct` uses for a mode given its sample (if any): the factor itself, the rows
picked by an index vector, or the mixing matrix times the factor. -/
def ReconSample.apply [Add α] [Mul α] [Zero α] (U : Mat α) (c : Nat) : Option (ReconSample α) → Except Reject (Mat α)
  | none => .ok U
  | some (.idx l) =>
    if l.isEmpty then .ok U
    else if l.any (· ≥ U.length) then .error .reject
    else .ok (l.map fun a => U.getD a [])
  | some (.mat M) =>
    if M.m == 0 then .ok U
    else if M.n == U.length then .ok (M.rows.mulD U M.m M.n c)
    else .error .reject     -- a 2-d float array used as an index

/-- New factor of mode `k`: the LAST sample listed for `k` wins (`full_samples[mode] = sample`). -/
def Ttensor.reconFactor [Add α] [Mul α] [Zero α] (T : Ttensor α) (zs : List (ReconSample α × Nat)) (k : Nat) :
    Except Reject (Mat α) :=
  ReconSample.apply (T.factors.getD k []) (T.core.shape.getD k 0)
    ((zs.reverse.find? (fun p => p.2 == k)).map (·.1))

/-- `ttensor.reconstruct(samples, modes)`. -/
def Ttensor.reconstruct [Add α] [Mul α] [Zero α] (T : Ttensor α) (samples : Option (List (ReconSample α)))
    (modes : Option (List Nat)) : Except Reject (Dense α) :=
  let N := T.factors.length
  match samples, modes with
  | none, none => T.full
  | none, some _ => .error .reject
  | some ss, ms =>
    let md := ms.getD (List.range N)
    if ss.length > 0 && ss.length != md.length then .error .reject
    else if (ss.zip md).any (fun p => p.2 ≥ N) then .error .reject
    else
      match (List.range N).mapM (T.reconFactor (ss.zip md)) with
      | .error e => .error e
      | .ok fs => Ttensor.full ⟨T.core, fs⟩

/-- Tucker tensor whose core is a sparse tensor. -/
structure TtensorS (α : Type) where
  core : Sparse α
  factors : List (Mat α)
  deriving Repr, BEq, DecidableEq

/-- A Tucker result whose core came back dense or sparse. -/
inductive TuckerAny (α : Type) where
  | denseCore (t : Ttensor α)
  | sparseCore (t : TtensorS α)
  deriving Repr, BEq, DecidableEq

namespace TtensorS

/-- `ttensor.full()` with a sparse core: `core.ttm(factors)` through the sparse kernel (dense result). -/
def full [Add α] [Mul α] [Zero α] [BEq α] (T : TtensorS α) : Except Reject (Dense α) :=
  T.core.ttm (T.factors.map fun U => ⟨U, U.length, U.ncols⟩) none none false

/-- `ttensor.ttv` with a sparse core: the core is multiplied through the sparse `ttv` kernel, so the
new core may come back as a scalar, a dense tensor or a sparse tensor. -/
def ttvCore [Add α] [Mul α] [Zero α] [BEq α] (T : TtensorS α) (pairs : List (Nat × List α)) :
    Except Reject (ScalarOr α (TuckerAny α)) :=
  let N := T.factors.length
  if pairs.any (fun p => p.2.length != (T.factors.getD p.1 []).length) then .error .reject
  else
    let rem := complDims N (pairs.map (·.1))
    let W := pairs.map fun p => (p.1, (T.factors.getD p.1 []).tmulVec p.2 (T.core.shape.getD p.1 0))
    let fs := gatherD T.factors rem []
    match T.core.ttvCore W with
    | .error e => .error e
    | .ok (.scalar v) => if rem.isEmpty then .ok (.scalar v) else .error .reject
    | .ok (.dense c) => if rem.isEmpty then .error .reject else .ok (.obj (.denseCore ⟨c, fs⟩))
    | .ok (.sparse c) => if rem.isEmpty then .error .reject else .ok (.obj (.sparseCore ⟨c, fs⟩))
    | .ok (.vec v) => if rem.isEmpty then .error .reject else .ok (.obj (.denseCore ⟨⟨[v.length], v⟩, fs⟩))

def ttv [Add α] [Mul α] [Zero α] [BEq α] (T : TtensorS α) (vs : List (List α)) (dims excl : Option (List Int)) :
    Except Reject (ScalarOr α (TuckerAny α)) :=
  match resolveModes T.factors.length vs dims excl with
  | .error e => .error e
  | .ok pairs => T.ttvCore pairs

end TtensorS

namespace ML

/-- One part of a sum tensor (also: any tensor object, for cross-representation statements). -/
inductive Part (α : Type) where
  | dense (t : Dense α)
  | sparse (s : Sparse α)
  | kruskal (k : Ktensor α)
  | tucker (t : Ttensor α)
  deriving Repr, BEq, DecidableEq

namespace Part

def shape : Part α → List Nat
  | .dense t => t.shape
  | .sparse s => s.shape
  | .kruskal k => k.shape
  | .tucker t => t.shape

/-- The array a part denotes. -/
def get [Add α] [Mul α] [One α] [Zero α] : Part α → List Nat → α
  | .dense t, i => t.get i
  | .sparse s, i => s.get i
  | .kruskal k, i => k.get i
  | .tucker t, i => t.get i

/-- `part.full()`. -/
def full [Add α] [Mul α] [Zero α] : Part α → Except Reject (Dense α)
  | .dense t => .ok t
  | .sparse s => .ok s.full
  | .kruskal k => k.full
  | .tucker t => t.full

/-- `part.ttv(...)`: a scalar or again a tensor object (sparse results may densify). -/
def ttv [Add α] [Mul α] [Zero α] [BEq α] (p : Part α) (vs : List (List α)) (dims excl : Option (List Int)) :
    Except Reject (ScalarOr α (Part α)) :=
  match p with
  | .dense t => match t.ttv vs dims excl with
    | .error e => .error e
    | .ok (.scalar v) => .ok (.scalar v)
    | .ok (.obj o) => .ok (.obj (.dense o))
  | .sparse s => match s.ttv vs dims excl with
    | .error e => .error e
    | .ok (.scalar v) => .ok (.scalar v)
    | .ok (.dense o) => .ok (.obj (.dense o))
    | .ok (.sparse o) => .ok (.obj (.sparse o))
    | .ok (.vec v) => .ok (.obj (.dense ⟨[v.length], v⟩))
  | .kruskal k => match k.ttv vs dims excl with
    | .error e => .error e
    | .ok (.scalar v) => .ok (.scalar v)
    | .ok (.obj o) => .ok (.obj (.kruskal o))
  | .tucker t => match t.ttv vs dims excl with
    | .error e => .error e
    | .ok (.scalar v) => .ok (.scalar v)
    | .ok (.obj o) => .ok (.obj (.tucker o))

def mttkrp [Add α] [Mul α] [Zero α] [BEq α] (p : Part α) (U : KOperand α) (n : Nat) : Except Reject (Mat α) :=
  match p with
  | .dense t => t.mttkrp U n
  | .sparse s => s.mttkrp U n
  | .kruskal k => k.mttkrp U n
  | .tucker t => t.mttkrp U n

/-- `ktensor.innerprod(other)` for a non-Kruskal `other`: one full `ttv` per component. -/
def kruskalVia [Add α] [Mul α] [Zero α] [BEq α] (K : Ktensor α) (other : Part α) : Except Reject α :=
  if K.shape != other.shape then .error .reject else
  (List.range K.ncomp).foldlM (fun res r =>
    match other.ttv (K.factors.map fun A => A.colOf r) none none with
    | .ok (.scalar v) => .ok (res + K.weights.getD r 0 * v)
    | _ => .error .reject) 0

/-- `x.innerprod(y)` with the dispatch of the five classes. -/
def innerprod [Add α] [Mul α] [Zero α] [BEq α] (x y : Part α) : Except Reject α :=
  match x, y with
  | .dense a, .dense b => a.innerprod b
  | .dense a, .sparse b => b.innerprodDense a
  | .dense a, .kruskal b => kruskalVia b (.dense a)
  | .dense a, .tucker b => b.innerprodDense a
  | .sparse a, .dense b => a.innerprodDense b
  | .sparse a, .sparse b => a.innerprodSparse b
  | .sparse a, .kruskal b => kruskalVia b (.sparse a)
  | .sparse a, .tucker b => b.innerprodSparse a
  | .kruskal a, .kruskal b => a.innerprodK b
  | .kruskal a, o => kruskalVia a o
  | .tucker a, .dense b => a.innerprodDense b
  | .tucker a, .sparse b => a.innerprodSparse b
  | .tucker a, .kruskal b => kruskalVia b (.tucker a)
  | .tucker a, .tucker b => a.innerprodT b

end Part

/-- `sumtensor`: a list of parts of one shape. -/
abbrev Sumtensor (α : Type) := List (Part α)

namespace Sumtensor

/-- Cell-wise sum of two dense tensors of the same shape (`result += part`). -/
def addDense [Add α] (A B : Dense α) : Except Reject (Dense α) :=
  if A.shape != B.shape then .error .reject else .ok ⟨A.shape, List.zipWith (· + ·) A.data B.data⟩

/-- `result += part`: the part is expanded and added. -/
def addPart [Add α] [Mul α] [Zero α] (acc : Dense α) (q : Part α) : Except Reject (Dense α) :=
  match q.full with
  | .error e => .error e
  | .ok d => addDense acc d

/-- `sumtensor.full()`: the first part expanded, the others added one by one. -/
def full [Add α] [Mul α] [Zero α] (S : Sumtensor α) : Except Reject (Dense α) :=
  match S with
  | [] => .error .reject
  | p :: ps =>
    match p.full with
    | .error e => .error e
    | .ok r0 => ps.foldlM addPart r0

/-- `sumtensor.innerprod(other)`. -/
def innerprod [Add α] [Mul α] [Zero α] [BEq α] (S : Sumtensor α) (o : Part α) : Except Reject α :=
  match S with
  | [] => .error .reject
  | p :: ps =>
    match p.innerprod o with
    | .error e => .error e
    | .ok r0 => ps.foldlM (fun acc q => match q.innerprod o with
        | .error e => .error e
        | .ok v => .ok (acc + v)) r0

/-- Entry-wise sum of two matrices. -/
def addMat [Add α] (A B : Mat α) : Mat α := List.zipWith (List.zipWith (· + ·)) A B

/-- `sumtensor.mttkrp(U, n)`. -/
def mttkrp [Add α] [Mul α] [Zero α] [BEq α] (S : Sumtensor α) (U : KOperand α) (n : Nat) : Except Reject (Mat α) :=
  match S with
  | [] => .error .reject
  | p :: ps =>
    match p.mttkrp U n with
    | .error e => .error e
    | .ok r0 => ps.foldlM (fun acc q => match q.mttkrp U n with
        | .error e => .error e
        | .ok v => .ok (addMat acc v)) r0

/-- `sumtensor.ttv(...)`: scalars are summed, tensor results collected into a new sum tensor. -/
def ttv [Add α] [Mul α] [Zero α] [BEq α] (S : Sumtensor α) (vs : List (List α)) (dims excl : Option (List Int)) :
    Except Reject (ScalarOr α (Sumtensor α)) :=
  match S.mapM (fun p => p.ttv vs dims excl) with
  | .error e => .error e
  | .ok rs =>
    let scal := (rs.filterMap fun r => match r with | .scalar v => some v | .obj _ => none).sum
    let parts := rs.filterMap fun r => match r with | .scalar _ => none | .obj o => some o
    if parts.isEmpty then .ok (.scalar scal) else .ok (.obj parts)

end Sumtensor
end ML
end Pyttb
