#!/venv/bin/python
"""Write the seeded-change table (DESIGN.md section 12 body) from /verif/seeded/*/meta.json (+ MATRIX.json)."""
import glob, json, os
rows = []
M = json.load(open('/verif/seeded/MATRIX.json')) if os.path.exists('/verif/seeded/MATRIX.json') else {}
for f in sorted(glob.glob('/verif/seeded/*/meta.json')):
    k = os.path.basename(os.path.dirname(f))
    m = json.load(open(f))
    mat = M.get(k, {}).get('seeds', {})
    det = ' '.join(('V' if v.get('violation_lines') else '-') for _, v in sorted(mat.items())) if mat else 'n/a'
    rows.append((k, m.get('breaks_property', m.get('property')), m.get('summary', '').replace('|', '/').replace('\n', ' '),
                 m.get('needs', '').replace('|', '/').replace('\n', ' '), m.get('note', '').replace('|', '/'), det))
out = ["| id | property | change (one sentence) | needs, to manifest | how the check fares | quick, VERIF_SEED 0 1 2 |", "|---|---|---|---|---|---|"]
for r in rows:
    out.append("| " + " | ".join(r) + " |")
open('/verif/seeded/TABLE.md', 'w').write("\n".join(out) + "\n")
print(len(rows), "seeded changes")
