#!/bin/sh
# tools/runall.sh <tier> <seed...> : run every claimed check, print one line each
tier=${1:-quick}; shift
seeds=${@:-0}
cd /verif
for s in $seeds; do
  for p in $(/venv/bin/python -c "import json;print(' '.join(c['property_id'] for c in json.load(open('MANIFEST.json'))['checks']))"); do
    out=$(VERIF_SEED=$s timeout 1800 ./check $p --tier $tier 2>&1); rc=$?
    echo "seed=$s $p rc=$rc $(echo "$out" | grep -E '^\[C|VIOLATION|KNOWN-FINDING' | tr '\n' ' ' | cut -c1-300)"
  done
done
