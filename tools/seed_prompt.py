#!/venv/bin/python
"""tools/seed_prompt.py <key> <worktree> <angle...> : print the prompt for a seeded-breakage sub-agent."""
import json, sys
props = {json.loads(l)['id']: json.loads(l) for l in open('/verif/properties.jsonl')}
key, wt = sys.argv[1], sys.argv[2]
angle = " ".join(sys.argv[3:])
pid = key[:3]
p = props[pid]
print(f'''You are testing a verification effort by playing a careless-but-plausible maintainer of the Python package pyttb (sandialabs/pyttb, a port of the MATLAB Tensor Toolbox). You have your own scratch git worktree of the repository at {wt} (work ONLY there; never touch /repo or /verif; do not read /verif). Python: `/venv/bin/python` with `PYTHONPATH={wt}` so that `import pyttb` picks up YOUR copy (check with `PYTHONPATH={wt} /venv/bin/python -c "import pyttb; print(pyttb.__file__)"`). No network.

## The property your change must break
Title: {p['title']}
Statement: {p['statement']}
Quantifier: {p['quantifier']['text']}

## Your task
Produce ONE small, realistic change to the package source under {wt}/pyttb (the kind of thing a refactoring, an "optimisation", a MATLAB-to-Python porting slip, an off-by-one, a swapped argument, a dropped copy, a changed default, a wrong index space, a condition that is slightly too weak or too strong could introduce) such that:
1. the package still imports and the existing test suite still passes unchanged: `cd {wt} && PYTHONPATH={wt} /venv/bin/python -m pytest -q -p no:cacheprovider` must report the same 208 passed;
2. the property above is violated on SOME inputs, but NOT in a way ordinary use would expose at once: it must need something specific to manifest (a particular shape such as non-square / singleton mode / 4-way, a particular mode order or subset, unsorted or repeated stored subscripts, a particular value or sign pattern, a rank > 1, a boundary size, a multi-step sequence of operations, a second call on the same object, two cooperating sites that each look fine alone, …), and everyday inputs (like the ones in the doctests: small cubical/palindromic shapes, sorted subscripts, positive values, default options) must still give right answers;
3. you provide a demonstration: a small standalone script `demo.py` (run as `PYTHONPATH=<root> /venv/bin/python demo.py`, where <root> is either your worktree or a pristine checkout) that exits 0 on the UNCHANGED code and exits 1 (printing what went wrong) on the CHANGED code, checking the property directly through the public API (independent reference computed with plain numpy).
Angle to explore for this particular assignment (pick something in this area, be creative, do not just do the first thing that comes to mind): {angle}

## Deliverables — write them into {wt}/_out/ (create it)
- `patch.diff`: output of `git -C {wt} diff -- pyttb` (only source changes under pyttb/);
- `demo.py`;
- `meta.json`: {{"property": "{pid}", "summary": "...one sentence...", "needs": "...what specific input/sequence is needed to manifest...", "files": [...], "tests_pass": true}}.
Verify yourself: run the test suite with the change (208 passed), run demo.py with the change (exit 1) and against the pristine tree (do NOT use `git stash` — the stash is shared between worktrees and other people use it concurrently; instead `git -C {wt} diff -- pyttb > /tmp/{key}.p; git -C {wt} apply -R /tmp/{key}.p; run; git -C {wt} apply /tmp/{key}.p`, exit 0). Leave the change applied in the worktree when you finish. In your final message: the one-sentence summary, what is needed to manifest it, and the outputs of those three runs.''')
