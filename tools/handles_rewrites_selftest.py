#!/venv/bin/python
"""Self-test of the C12 translator (harness/translate/gen_handles.py) and of the robustness of the
C12 Part-A proofs against rewrites of pyttb/gcp/handles.py and pyttb/gcp/fg_setup.py.

    /venv/bin/python tools/handles_rewrites_selftest.py [--fast] [--only NAME[,NAME…]] [--keep]

A scratch copy of /repo is made under /tmp (removed afterwards).  One rewrite at a time is applied to
the scratch copy as an in-memory source transformation, and

  HARMLESS rewrites (mathematically the same functions; checked numerically against the unchanged
  source first): is the source still READ by the translator (no lost anchor)?  do the C12 theorems
  still BUILD about the regenerated definitions?  does `./check C12 --tier quick` stay quiet (rc 0)?

  HARMFUL rewrites (the property is broken; checked numerically too): `./check C12 --tier quick` must
  exit 1 — because a theorem stops building and / or a family reports a failing input.

  CONSTRUCTS: small handle bodies exercising one accepted AST form each; the translated term is
  compared with the expected one (no Lean involved).

Exit status 0 iff every harmless rewrite is read, every harmful rewrite raises the alarm, every
construct is read as expected (a harmless rewrite whose theorems do not build is reported in the
table, it does not fail the self-test: robustness of the proofs is best effort).
`--fast` skips the end-to-end `./check` runs of the harmless rewrites.
The generated file and evidence/C12.json of the working tree are restored at the end.
"""
from __future__ import annotations

import argparse
import json
import os
import shutil
import subprocess
import sys
import tempfile
import time
from fractions import Fraction
from pathlib import Path

ROOT = Path(__file__).resolve().parent.parent
REPO = Path(os.environ.get("PYTTB_REPO", "/repo"))
PY = "/venv/bin/python"
HANDLES = "pyttb/gcp/handles.py"
SETUP = "pyttb/gcp/fg_setup.py"


def rep(src: str, old: str, new: str, count: int = 1) -> str:
    """exact textual replacement; the pinned text must be there (so that the self-test notices when
    the source under test has moved on)"""
    if src.count(old) != count:
        raise AssertionError(f"expected {count} occurrence(s) of {old!r}, found {src.count(old)}")
    return src.replace(old, new)


def fn_body(src: str, name: str, new_def: str) -> str:
    """replace the whole top-level function `name` by `new_def` (text of a complete def)"""
    import ast
    tree = ast.parse(src)
    for st in tree.body:
        if isinstance(st, ast.FunctionDef) and st.name == name:
            lines = src.split("\n")
            start = st.lineno - 1
            # comments directly above the def stay
            end = st.end_lineno
            return "\n".join(lines[:start] + new_def.rstrip("\n").split("\n") + lines[end:])
    raise AssertionError(f"no function {name}")


# ----------------------------------------------------------------------------------------------------------
# HARMLESS rewrites: name -> (description, transformation (handles_src, setup_src) -> (handles_src, setup_src))
# ----------------------------------------------------------------------------------------------------------
def h_where(h, s):
    h = fn_body(h, "huber", '''def huber(data, model, threshold):
    """Return objective function for huber loss."""
    abs_diff = np.abs(data - model)
    return np.where(abs_diff < threshold, abs_diff**2, 2 * threshold * abs_diff - threshold**2)
''')
    h = fn_body(h, "huber_grad", '''def huber_grad(data, model, threshold):
    """Return gradient function for huber loss."""
    abs_diff = np.abs(data - model)
    return np.where(
        abs_diff < threshold, -2 * (data - model), -(2 * threshold * np.sign(data - model))
    )
''')
    return h, s


def h_le(h, s):
    return rep(h, "below_threshold = abs_diff < threshold", "below_threshold = abs_diff <= threshold", 2), s


def h_flip(h, s):
    return rep(h, "below_threshold = abs_diff < threshold", "below_threshold = threshold > abs_diff", 2), s


def h_min_form(h, s):
    h = fn_body(h, "huber", '''def huber(data, model, threshold):
    """Return objective function for huber loss."""
    abs_diff = np.abs(data - model)
    capped = np.minimum(abs_diff, threshold)
    return capped * (2 * abs_diff - capped)
''')
    return h, s


def h_clip_grad(h, s):
    h = fn_body(h, "huber_grad", '''def huber_grad(data, model, threshold):
    """Return gradient function for huber loss."""
    return -2 * np.clip(data - model, -threshold, threshold)
''')
    return h, s


def h_sqrt_abs(h, s):
    return rep(h, "abs_diff = np.abs(data - model)", "abs_diff = np.sqrt((data - model) ** 2)", 2), s


def h_log1p(h, s):
    h = rep(h, "return np.log(model + 1) - data * np.log(model + EPS)",
            "return np.log1p(model) - data * np.log(model + EPS)")
    h = rep(h, "return (num_trials + data) * np.log(model + 1) - data * np.log(model + EPS)",
            "return (num_trials + data) * np.log1p(model) - data * np.log(model + EPS)")
    return h, s


def h_commuted(h, s):
    h = rep(h, "return np.log(model + 1) - data * np.log(model + EPS)",
            "return np.log(1 + model) - np.log(EPS + model) * data")
    h = rep(h, "return 1.0 / (model + 1) - data / (model + EPS)",
            "return -(data / (EPS + model)) + 1.0 / (1 + model)")
    h = rep(h, "return model - data * np.log(model + EPS)", "return -(np.log(model + EPS) * data) + model")
    h = rep(h, "return 2 * (model - data)", "return (model - data) * 2")
    return h, s


def h_intermediates(h, s):
    h = rep(h, "    return 2 * np.log(model + EPS) + (np.pi / 4) * (data / (model + EPS)) ** 2",
            "    shifted = model + EPS\n    return 2 * np.log(shifted) + (np.pi / 4) * (data / shifted) ** 2")
    h = rep(h, "    return 2 / (model + EPS) - (np.pi / 2) * data**2 / (model + EPS) ** 3",
            "    shifted = model + EPS\n    return 2 / shifted - (np.pi / 2) * data**2 / shifted**3")
    h = rep(h, "    return data / (model + EPS) + np.log(model + EPS)",
            "    shifted = model + EPS\n    return data / shifted + np.log(shifted)")
    h = rep(h, "    return -data / (model + EPS) ** 2 + 1 / (model + EPS)",
            "    negated = -data\n    shifted: np.ndarray = model + EPS\n    return negated / shifted**2 + 1 / shifted")
    h = rep(h, "    return (model + EPS) ** (b - 1) - data * (model + EPS) ** (b - 2)",
            "    shifted = model + EPS\n    return shifted ** (b - 1) - data * shifted ** (b - 2)")
    return h, s


def h_helper(h, s):
    h = rep(h, "class Objectives(Enum):",
            "def _shifted(values, shift=EPS):\n    return values + shift\n\n\n"
            "_ratio = lambda num, den: num / den  # noqa: E731\n\n\nclass Objectives(Enum):")
    h = rep(h, "return model - data * np.log(model + EPS)", "return model - data * np.log(_shifted(model))")
    h = rep(h, "return 1 - data / (model + EPS)", "return 1 - _ratio(data, _shifted(values=model))")
    h = rep(h, "return data / (model + EPS) + np.log(model + EPS)",
            "return _ratio(den=_shifted(model, shift=EPS), num=data) + np.log(_shifted(model))")
    return h, s


def h_power(h, s):
    h = rep(h, "return (model - data) ** 2", "return np.square(model - data)")
    h = rep(h, "(np.pi / 4) * (data / (model + EPS)) ** 2", "(np.pi / 4) * np.power(data / (model + EPS), 2)")
    h = rep(h, "(np.pi / 2) * data**2 / (model + EPS) ** 3", "(np.pi / 2) * np.square(data) / np.power(model + EPS, 3)")
    h = rep(h, "return (1 / b) * (model + EPS) ** b - (1 / (b - 1)) * data * (model + EPS) ** (\n        b - 1\n    )",
            "return (1 / b) * np.power(model + EPS, b) - (1 / (b - 1)) * data * np.power(model + EPS, b - 1)")
    return h, s


def h_constants(h, s):
    h = rep(h, "import numpy as np", "import math\n\nimport numpy as np")
    h = rep(h, "EPS = 1e-10", "EPS = float(1e-10)\n_QUARTER_PI = math.pi / 4")
    h = rep(h, "(np.pi / 4) * (data / (model + EPS)) ** 2", "_QUARTER_PI * (data / (model + EPS)) ** 2")
    h = rep(h, "(np.pi / 2) * data**2", "(math.pi / float(2)) * data**2")
    h = rep(h, "return 2 * (model - data)", "return float(2) * (model - data)")
    h = rep(h, "return 1 - data / (model + EPS)", "return +1.0 - data / (model + EPS)")
    return h, s


def h_sigmoid(h, s):
    return rep(h, "return np.exp(model) / (np.exp(model) + 1) - data", "return 1 / (1 + np.exp(-model)) - data"), s


def h_augassign(h, s):
    h = rep(h, "    return np.log(model + 1) - data * np.log(model + EPS)",
            "    value = np.log(model + 1)\n    value -= data * np.log(model + EPS)\n    return value")
    h = rep(h, "    return 2 * (model - data)", "    slope = model - data\n    slope *= 2\n    return slope")
    return h, s


def h_lambda_binding(h, s):
    s = rep(s, "function_handle = partial(handles.huber, threshold=additional_parameter)",
            "function_handle = lambda data, model, threshold=additional_parameter: handles.huber(  # noqa: E731\n"
            "            data, model, threshold\n        )")
    s = rep(s, "gradient_handle = partial(handles.huber_grad, threshold=additional_parameter)",
            "gradient_handle = lambda d, m: handles.huber_grad(d, m, threshold=additional_parameter)  # noqa: E731")
    s = rep(s, "function_handle = partial(handles.beta, b=additional_parameter)",
            "function_handle = functools.partial(handles.beta, b=float(additional_parameter))")
    s = rep(s, "from functools import partial", "import functools\nfrom functools import partial")
    s = rep(s, "        function_handle = partial(\n            handles.negative_binomial, num_trials=additional_parameter\n        )",
            "        def function_handle(data, model):\n"
            "            return handles.negative_binomial(model=model, data=data, num_trials=additional_parameter)")
    return h, s


def h_setup_shape(h, s):
    s = rep(s, "import numpy as np", "import math\n\nimport numpy as np")
    s = rep(s, "    if objective == Objectives.GAUSSIAN:\n        function_handle = handles.gaussian\n"
               "        gradient_handle = handles.gaussian_grad\n        lower_bound = -np.inf\n"
               "    elif objective == Objectives.BERNOULLI_ODDS:",
            "    if objective is Objectives.GAUSSIAN:\n"
            "        return handles.gaussian, handles.gaussian_grad, float(\"-inf\")\n"
            "    if Objectives.BERNOULLI_ODDS == objective:")
    s = rep(s, "        function_handle = handles.poisson\n        gradient_handle = handles.poisson_grad\n        lower_bound = 0.0",
            "        function_handle, gradient_handle, lower_bound = (\n            handles.poisson,\n"
            "            handles.poisson_grad,\n            float(0),\n        )")
    s = rep(s, "        gradient_handle = handles.poisson_log_grad\n        lower_bound = -np.inf",
            "        gradient_handle = handles.poisson_log_grad\n        lower_bound = -math.inf")
    s = rep(s, "from pyttb.gcp.handles import Objectives", "from pyttb.gcp.handles import Objectives, gamma, gamma_grad")
    s = rep(s, "        function_handle = handles.gamma\n        gradient_handle = handles.gamma_grad",
            "        function_handle = gamma\n        loss_slope = gamma_grad\n        gradient_handle = loss_slope")
    return h, s


def h_renamed_args(h, s):
    h = fn_body(h, "gaussian", '''def gaussian(x: np.ndarray, m: np.ndarray) -> np.ndarray:
    """Return objective function for gaussian distributions."""
    return (m - x) ** 2
''')
    h = fn_body(h, "beta_grad", '''def beta_grad(observed: np.ndarray, estimate: np.ndarray, b: float = 2.0) -> np.ndarray:
    """Return gradient function for beta distributions."""
    base = estimate + EPS
    return base ** (b - 1) - observed * base ** (b - 2)
''')
    return h, s


def h_products(h, s):
    h = rep(h, "    return 2 / (model + EPS) - (np.pi / 2) * data**2 / (model + EPS) ** 3",
            "    shifted = model + EPS\n    return 2 / shifted - (np.pi / 2) * data**2 * (1 / shifted**3)")
    h = rep(h, "    return abs_diff**2 * below_threshold + (", "    return abs_diff * abs_diff * below_threshold + (")
    h = rep(h, "    return np.exp(model) / (np.exp(model) + 1) - data",
            "    growth = np.exp(model)\n    return growth / (growth + 1) - data")
    h = rep(h, "    return (model - data) ** 2", "    residual = model - data\n    return residual * residual")
    h = rep(h, "    return -data / (model + EPS) ** 2 + 1 / (model + EPS)",
            "    shifted = model + EPS\n    return (1 - data / shifted) / shifted")
    return h, s


def h_softplus(h, s):
    h = rep(h, "return np.log(np.exp(model) + 1) - data * model",
            "return np.maximum(model, 0) + np.log1p(np.exp(-np.abs(model))) - data * model")
    return h, s


HARMLESS = [
    ("where", "Huber pair written with np.where(mask, a, b) instead of mask products", h_where),
    ("huber_le", "Huber masks use <= (same value at the kink)", h_le),
    ("huber_flipped", "Huber masks written threshold > abs_diff", h_flip),
    ("huber_min_form", "Huber loss as c(2a - c), c = np.minimum(a, threshold)", h_min_form),
    ("huber_clip_grad", "Huber gradient as -2 np.clip(data - model, -t, t)", h_clip_grad),
    ("sqrt_abs", "abs_diff = np.sqrt((data - model)**2)", h_sqrt_abs),
    ("log1p", "np.log(model + 1) -> np.log1p(model)", h_log1p),
    ("commuted", "operands commuted, unary minus, sums reordered", h_commuted),
    ("intermediates", "named intermediates (shifted = model + EPS), annotated assignment", h_intermediates),
    ("helper", "module-level helper function and lambda, called positionally / by keyword / with defaults", h_helper),
    ("power", "np.square / np.power instead of **", h_power),
    ("constants", "math.pi, float(2), float(1e-10), module-level constant, unary plus", h_constants),
    ("sigmoid", "exp(m)/(exp(m)+1) -> 1/(1+exp(-m))", h_sigmoid),
    ("augassign", "value = …; value -= …; return value", h_augassign),
    ("lambda_binding", "lambda-with-default / keyword lambda / functools.partial / local def bind the parameter", h_lambda_binding),
    ("setup_shape", "setup: `is`, early return, tuple assignment, float('-inf'), -math.inf, imported names, alias", h_setup_shape),
    ("renamed_args", "handle arguments renamed, a default for the parameter", h_renamed_args),
    ("products", "x**2 -> x*x, a/b -> a*(1/b), common factors pulled out, exp(model) formed once", h_products),
    ("softplus", "overflow-safe softplus max(m,0)+log1p(exp(-|m|)) (kink at 0: proved through its closed form)", h_softplus),
]


# ----------------------------------------------------------------------------------------------------------
# HARMFUL rewrites
# ----------------------------------------------------------------------------------------------------------
def x_sign(h, s):
    return rep(h, "return 2 * (model - data)", "return 2 * (data - model)"), s


def x_eps(h, s):
    return rep(h, "return 1 - data / (model + EPS)", "return 1 - data / model"), s


def x_swapped(h, s):
    return h, rep(s, "gradient_handle = handles.gamma_grad", "gradient_handle = handles.rayleigh_grad")


def x_bound(h, s):
    return h, rep(s, "        gradient_handle = handles.poisson_grad\n        lower_bound = 0.0",
                  "        gradient_handle = handles.poisson_grad\n        lower_bound = -np.inf")


def x_binding(h, s):
    return h, rep(s, "gradient_handle = partial(handles.huber_grad, threshold=additional_parameter)",
                  "gradient_handle = partial(handles.huber_grad, threshold=2 * additional_parameter)")


def x_strict(h, s):
    h = fn_body(h, "huber_grad", '''def huber_grad(data, model, threshold):
    """Return gradient function for huber loss."""
    abs_diff = np.abs(data - model)
    return -2 * (data - model) * (abs_diff <= threshold) - (
        2 * threshold * np.sign(data - model)
    ) * np.logical_not(abs_diff < threshold)
''')
    return h, s


HARMFUL = [
    ("wrong_sign", "gaussian_grad = 2 (data - model)", x_sign),
    ("dropped_eps", "poisson_grad = 1 - data / model", x_eps),
    ("swapped_gradient", "GAMMA is paired with rayleigh_grad", x_swapped),
    ("wrong_bound", "POISSON lower bound -inf", x_bound),
    ("wrong_binding", "HUBER gradient bound to 2 * additional_parameter", x_binding),
    ("strictness", "huber_grad: both masks are 1 at the kink (<= and not <)", x_strict),
]


# ----------------------------------------------------------------------------------------------------------
# CONSTRUCTS: handle body -> expected tree (Fractions written as ints)
# ----------------------------------------------------------------------------------------------------------
V, X, P = ("var",), ("data",), ("param",)


def C(n):
    return ("const", Fraction(n))


CONSTRUCTS = [
    ("conditional expression", "def f(data, model, t):\n    return model if model < t else t", ("ite", ("lt", V, P), V, P)),
    ("np.where + >=", "def f(data, model):\n    return np.where(model >= data, model, data)",
     ("ite", ("lnot", ("lt", V, X)), V, X)),
    ("<= reversed", "def f(data, model):\n    return (data <= model) * model", ("mul", ("lnot", ("lt", V, X)), V)),
    ("> / np.greater", "def f(data, model):\n    return (model > data) * np.greater(model, data)",
     ("mul", ("lt", X, V), ("lt", X, V))),
    ("np.maximum / np.minimum", "def f(data, model):\n    return np.maximum(model, data) - np.minimum(model, data)",
     ("sub", ("ite", ("lt", V, X), X, V), ("ite", ("lt", V, X), V, X))),
    ("abs / np.abs / np.sign", "def f(data, model):\n    return abs(model) + np.abs(data) * np.sign(model)",
     ("add", ("abs", V), ("mul", ("abs", X), ("sign", V)))),
    ("np.power / ** / np.square / np.sqrt", "def f(data, model, b):\n    return np.power(model, 3) + model ** b + np.square(data) + np.sqrt(model) + model ** -2 + model ** 2.0",
     ("add", ("add", ("add", ("add", ("add", ("powNat", V, 3), ("powReal", V, P)), ("powNat", X, 2)), ("sqrt", V)),
              ("div", C(1), ("powNat", V, 2))), ("powNat", V, 2))),
    ("np.log1p / np.exp / np.log / np.expm1", "def f(data, model):\n    return np.log1p(model) + np.exp(data) * np.log(model) - np.expm1(model)",
     ("sub", ("add", ("log", ("add", C(1), V)), ("mul", ("exp", X), ("log", V))), ("sub", ("exp", V), C(1)))),
    ("math.pi / np.pi / unary minus / float()", "def f(data, model):\n    return -(math.pi * model) + np.pi * float(3) - -2.5",
     ("sub", ("add", ("neg", ("mul", ("pi",), V)), ("mul", ("pi",), C(3))), ("const", Fraction(-5, 2)))),
    ("keyword-only parameter, tuple assignment, pass", "def f(data, model, *, scale):\n    pass\n    a, b = model * scale, data\n    return (a) - ((b))",
     ("sub", ("mul", V, P), X)),
    ("~ & | on comparisons", "def f(data, model, t):\n    return ((model < t) & ~(data < t)) * model + ((model < t) | (data < t))",
     ("add", ("mul", ("mul", ("lt", V, P), ("lnot", ("lt", X, P))), V),
      ("lnot", ("mul", ("lnot", ("lt", V, P)), ("lnot", ("lt", X, P)))))),
    ("chained comparison, np.clip", "def f(data, model, t):\n    return (data < model < t) * np.clip(model, 0, a_max=t)",
     ("mul", ("mul", ("lt", X, V), ("lt", V, P)),
      ("ite", ("lt", ("ite", ("lt", V, C(0)), C(0), V), P), ("ite", ("lt", V, C(0)), C(0), V), P))),
]

REJECTED = [
    ("in-place update of an argument", "def f(data, model):\n    model += 1\n    return model"),
    ("np.where on a non-comparison", "def f(data, model):\n    return np.where(model, data, model)"),
    ("unknown function", "def f(data, model):\n    return np.tanh(model)"),
    ("out= keyword", "def f(data, model):\n    return np.log(model, out=data)"),
    ("statement with control flow", "def f(data, model):\n    if model > 0:\n        return model\n    return data"),
]


# ----------------------------------------------------------------------------------------------------------
NUMERIC = r'''
import importlib.util, json, sys, warnings
import numpy as np
warnings.simplefilter("ignore")
orig_root, new_root = sys.argv[1], sys.argv[2]
sys.path.insert(0, new_root)
import pyttb  # the scratch copy
from pyttb.gcp import fg_setup as S1, handles as H1
assert H1.__file__.startswith(new_root), H1.__file__
def load(name, path):
    spec = importlib.util.spec_from_file_location(name, path)
    m = importlib.util.module_from_spec(spec); sys.modules[name] = m; spec.loader.exec_module(m); return m
H0 = load("orig_handles", orig_root + "/pyttb/gcp/handles.py")
src = open(orig_root + "/pyttb/gcp/fg_setup.py").read().replace("from pyttb.gcp import handles", "import orig_handles as handles").replace("from pyttb.gcp.handles import Objectives", "from orig_handles import Objectives")
S0 = type(sys)("orig_setup"); exec(compile(src, "orig_fg_setup.py", "exec"), S0.__dict__)
PARAMS = {"HUBER": [0.5, 1.0, 2.5], "NEGATIVE_BINOMIAL": [1.0, 2.0, 7.5], "BETA": [0.5, 1.5, 2.0, 3.0, -1.0]}
LOWER0 = {"BERNOULLI_ODDS", "POISSON", "RAYLEIGH", "GAMMA", "NEGATIVE_BINOMIAL", "BETA"}
worst, where, bound_diff, raised = 0.0, None, [], []
for o in H0.Objectives:
    for p in PARAMS.get(o.name, [None]):
        try:
            f0, g0, l0 = S0.setup(o, None, p)
            f1, g1, l1 = S1.setup(H1.Objectives[o.name], None, p)
        except Exception as e:
            raised.append(f"{o.name}: {type(e).__name__}: {e}"); continue
        if float(l0) != float(l1):
            bound_diff.append(o.name)
        ms = np.array([0.0, 1e-6, 0.05, 0.25, 0.5, 1.0, 1.5, 2.0, 3.5, 10.0] + ([] if o.name in LOWER0 else [-3.0, -1.0, -0.5, -0.25]))
        xs = np.array([0.0, 0.25, 0.75, 1.0, 2.0, 3.0, -1.0])
        XX, MM = np.meshgrid(xs, ms)
        with np.errstate(all="ignore"):
            for a, b, nm in ((f0, f1, "loss"), (g0, g1, "grad")):
                va, vb = np.asarray(a(XX.copy(), MM.copy()), float), np.asarray(b(XX.copy(), MM.copy()), float)
                both = np.isfinite(va) & np.isfinite(vb)
                d = np.where(both, np.abs(va - vb) / (1.0 + np.abs(va)), np.where((va == vb) | (np.isnan(va) & np.isnan(vb)), 0.0, np.inf))
                if d.max() > worst:
                    worst = float(d.max()); i = np.unravel_index(d.argmax(), d.shape)
                    where = f"{o.name} {nm} p={p} x={XX[i]} m={MM[i]}: {va[i]!r} vs {vb[i]!r}"
print(json.dumps({"worst": worst, "where": where, "bound_diff": bound_diff, "raised": raised}))
'''


def run(cmd, env=None, timeout=1800, cwd=None):
    e = dict(os.environ)
    if env:
        e.update(env)
    p = subprocess.run(cmd, capture_output=True, text=True, env=e, timeout=timeout, cwd=cwd or str(ROOT))
    return p.returncode, p.stdout, p.stderr


def translate(scratch: Path):
    code = ("import json\nfrom harness.translate import gen_handles as g\n"
            "text, lost, desc = g.build()\n"
            "if text is not None and (not g.OUT.exists() or g.OUT.read_text() != text):\n    g.OUT.write_text(text)\n"
            "print(json.dumps(lost))\n")
    rc, out, err = run([PY, "-c", code], env={"PYTTB_REPO": str(scratch), "PYTHONPATH": f"{scratch}:{ROOT}",
                                              "PYTHONDONTWRITEBYTECODE": "1"})
    if rc != 0:
        return [f"translator crashed: {err.strip().splitlines()[-1] if err.strip() else rc}"]
    return json.loads(out.strip().splitlines()[-1])


def lake_build():
    rc, out, err = run(["lake", "build", "PyttbModel.Props.C12"], cwd=str(ROOT / "lean"))
    errs = [ln for ln in (out + err).splitlines() if ln.startswith("error:")]
    return rc == 0, errs


def check(scratch: Path, seed="0"):
    rc, out, err = run([str(ROOT / "check"), "C12", "--tier", "quick"],
                       env={"PYTTB_REPO": str(scratch), "VERIF_SEED": seed})
    lines = [ln for ln in (out + err).splitlines() if ln.startswith(("VIOLATION", "KNOWN", "ANCHOR-LOST", "[C12] tier"))]
    return rc, lines


def numeric(scratch: Path):
    rc, out, err = run([PY, "-c", NUMERIC, str(REPO), str(scratch)], env={"PYTHONPATH": "", "PYTHONDONTWRITEBYTECODE": "1"})
    if rc != 0:
        return {"worst": float("inf"), "where": (err.strip().splitlines() or ["?"])[-1], "bound_diff": [], "raised": ["crash"]}
    return json.loads(out.strip().splitlines()[-1])


def constructs():
    sys.path.insert(0, str(ROOT))
    import ast
    from harness.translate import gen_handles as g
    rows = []
    for name, src, want in CONSTRUCTS:
        try:
            fn = ast.parse(src).body[0]
            mod = g.Module({}, {}, {"EPS": ("eps",)}, True)
            _p, got = g.tr_function(fn, mod)
            rows.append((name, got == want, "" if got == want else f"got {got}"))
        except g.Lost as e:
            rows.append((name, False, f"lost: {e}"))
    for name, src in REJECTED:
        try:
            fn = ast.parse(src).body[0]
            g.tr_function(fn, g.Module({}, {}, {"EPS": ("eps",)}, True))
            rows.append(("rejects: " + name, False, "was accepted"))
        except g.Lost:
            rows.append(("rejects: " + name, True, ""))
    return rows


def main():
    ap = argparse.ArgumentParser()
    ap.add_argument("--fast", action="store_true", help="skip the end-to-end ./check runs of the harmless rewrites")
    ap.add_argument("--only", default="", help="comma-separated rewrite names")
    ap.add_argument("--keep", action="store_true", help="keep the scratch copy")
    ap.add_argument("--json", default="", help="write the outcome table to this file")
    args = ap.parse_args()
    only = {n for n in args.only.split(",") if n}
    tmp = Path(tempfile.mkdtemp(prefix="handles_selftest_", dir="/tmp"))
    scratch = tmp / "repo"
    shutil.copytree(REPO, scratch, ignore=shutil.ignore_patterns(".git", "__pycache__", "*.pyc", ".pytest_cache"))
    h0, s0 = (REPO / HANDLES).read_text(), (REPO / SETUP).read_text()
    ev = ROOT / "evidence" / "C12.json"
    ev0 = ev.read_text() if ev.exists() else None
    rows_h, rows_x, failed = [], [], []
    t00 = time.time()
    try:
        for name, desc, tf in HARMLESS:
            if only and name not in only:
                continue
            t0 = time.time()
            h1, s1 = tf(h0, s0)
            (scratch / HANDLES).write_text(h1)
            (scratch / SETUP).write_text(s1)
            num = numeric(scratch)
            same = num["worst"] <= 1e-9 and not num["bound_diff"] and not num["raised"]
            lost = translate(scratch)
            built, errs = (False, []) if lost else lake_build()
            rc, lines = (None, [])
            if not args.fast:
                rc, lines = check(scratch)
            row = {"name": name, "what": desc, "numerically_same": same, "max_rel_diff": num["worst"],
                   "translated": not lost, "lost": lost, "theorems_build": built, "build_errors": errs[:3],
                   "check_rc": rc, "check_lines": lines, "wall_s": round(time.time() - t0, 1)}
            rows_h.append(row)
            if not same:
                failed.append(f"{name}: the rewrite is not harmless numerically ({num})")
            if lost:
                failed.append(f"{name}: not read: {lost}")
            print(f"harmless {name:16s} same={same} translated={not lost} build={built} check_rc={rc} "
                  f"({row['wall_s']} s)" + (f"  lost: {lost}" if lost else "") + (f"  {errs[:1]}" if errs else ""), flush=True)
        for name, desc, tf in HARMFUL:
            if only and name not in only:
                continue
            t0 = time.time()
            h1, s1 = tf(h0, s0)
            (scratch / HANDLES).write_text(h1)
            (scratch / SETUP).write_text(s1)
            num = numeric(scratch)
            differs = num["worst"] > 1e-6 or bool(num["bound_diff"])
            lost = translate(scratch)
            built, errs = (None, []) if lost else lake_build()
            rc, lines = check(scratch)
            concrete = any(ln.startswith("VIOLATION") and "no-failing-input-found" not in ln for ln in lines)
            row = {"name": name, "what": desc, "numerically_differs": differs, "where": num["where"],
                   "bound_diff": num["bound_diff"], "translated": not lost, "lost": lost, "theorems_build": built,
                   "build_errors": errs[:3], "check_rc": rc, "failing_input": concrete, "check_lines": lines,
                   "wall_s": round(time.time() - t0, 1)}
            rows_x.append(row)
            if not differs:
                failed.append(f"{name}: the harmful rewrite changes nothing numerically")
            if rc != 1 or not (concrete or built is False):
                failed.append(f"{name}: no alarm (rc={rc}, build={built}, lines={lines})")
            print(f"harmful  {name:16s} differs={differs} translated={not lost} build={built} check_rc={rc} "
                  f"failing_input={concrete} ({row['wall_s']} s)", flush=True)
        rows_c = [] if only else constructs()
        for name, ok, note in rows_c:
            print(f"construct {name:45s} {'ok' if ok else 'FAILED ' + note}")
            if not ok:
                failed.append(f"construct {name}: {note}")
    finally:
        # restore the working tree: regenerate from the real source, put the evidence back
        (scratch / HANDLES).write_text(h0)
        (scratch / SETUP).write_text(s0)
        translate(REPO)
        if ev0 is not None:
            ev.write_text(ev0)
        if not args.keep:
            shutil.rmtree(tmp, ignore_errors=True)
    print()
    print("| rewrite | kind | read | theorems build | ./check quick |")
    print("|---|---|---|---|---|")
    for r in rows_h:
        print(f"| {r['name']} | harmless | {'yes' if r['translated'] else 'NO'} | {'yes' if r['theorems_build'] else 'no'} | "
              f"{'-' if r['check_rc'] is None else 'rc ' + str(r['check_rc'])} |")
    for r in rows_x:
        b = "anchor lost" if r["theorems_build"] is None else ("yes" if r["theorems_build"] else "NO (as it must)")
        print(f"| {r['name']} | harmful | {'yes' if r['translated'] else 'no'} | {b} | rc {r['check_rc']}"
              f"{', failing input' if r['failing_input'] else ''} |")
    print(f"\n{len(rows_h)} harmless, {len(rows_x)} harmful rewrites, {time.time() - t00:.0f} s")
    if args.json:
        Path(args.json).write_text(json.dumps({"harmless": rows_h, "harmful": rows_x,
                                                "constructs": [list(r) for r in rows_c]}, indent=1))
    if failed:
        print("SELF-TEST FAILED:\n  " + "\n  ".join(failed))
        return 1
    print("SELF-TEST OK")
    return 0


if __name__ == "__main__":
    sys.exit(main())
