#!/venv/bin/python
"""tools/harmless_prompt.py <key> <worktree> <angle...> : print the prompt for a harmless-refactoring sub-agent
(the counterpart of tools/seed_prompt.py: a change after which the property STILL holds; the checks must stay quiet)."""
import json, sys
props = {json.loads(l)['id']: json.loads(l) for l in open('/verif/properties.jsonl')}
key, wt = sys.argv[1], sys.argv[2]
angle = " ".join(sys.argv[3:])
pid = key[:3]
p = props[pid]
print(f'''You are playing a careful maintainer of the Python package pyttb (sandialabs/pyttb, a port of the MATLAB Tensor Toolbox) who refactors code WITHOUT changing what it computes. You have your own scratch git worktree of the repository at {wt} (work ONLY there; never touch /repo or /verif; do not read /verif). Python: `/venv/bin/python` with `PYTHONPATH={wt}` so that `import pyttb` picks up YOUR copy. No network.

## The property that must keep holding
Title: {p['title']}
Statement: {p['statement']}
Quantifier: {p['quantifier']['text']}
Code it is anchored in: {", ".join(p['anchors']['files'])}

## Your task
Produce a realistic, NON-TRIVIAL refactoring (15-80 changed lines in total, possibly several related edits) of the code this property is about, of the kind maintainers really do, after which the package behaves the same for EVERY input: same values (bit for bit where the original arithmetic is kept; for kind B below equal up to a few units of rounding), same shapes, same dtype, same objects mutated / not mutated, same aliasing between results and operands, and an exception raised in exactly the same situations (the exception message may change; prefer to keep the exception class). Pick ONE of the two kinds and say which in meta.json:
- kind A, structural: rename local variables / private helpers, extract or inline a helper function, replace a loop by an equivalent comprehension or vectorised call that performs the SAME floating-point operations in the same order, reorder independent statements, replace `assert cond, msg` by `if not cond: raise AssertionError(msg)` (or vice versa), restructure if/elif chains without changing which branch runs, add type hints, comments or blank lines, split a long expression into named intermediates, rewrite `a - b` as `a + (-b)` only where that is bit-identical, change `np.array(x).shape` spellings, etc.
- kind B, numerically equivalent: compute the same mathematical quantity by a different but equally valid floating-point route (e.g. `np.dot` -> `@` or `np.einsum`, `x**2` -> `x*x`, `np.sqrt(np.sum(v**2))` -> `np.linalg.norm(v)`, a different association of a sum or product, `np.linalg.solve(A.T, B.T).T` -> `scipy.linalg.solve`, `1 - a/b` -> `(b - a)/b`), so results may differ in the last bits but nowhere else, and no tolerance, threshold, branch condition, default, index convention, dtype or copy/aliasing behaviour changes.
Angle for this particular assignment (pick something in this area): {angle}

It must NOT change behaviour for any input class: think about empty operands, singleton modes, 1-way tensors, unsorted or repeated stored subscripts, non-contiguous / C-ordered / integer-typed arrays, zero or negative values, rank 1, options at their extremes, printing on/off, repeated calls on the same object. If in doubt, choose a more conservative refactoring.

## Deliverables — write them into {wt}/_out/ (create it)
- `patch.diff`: output of `git -C {wt} diff -- pyttb`;
- `probe.py`: a standalone script (run as `PYTHONPATH=<root> /venv/bin/python probe.py out.json`) that exercises the refactored code paths through the public API on a broad battery of deterministic inputs (all the input classes listed above that apply; >= 200 calls; fixed seeds), records every result (values as float hex strings or exact lists, shapes, dtypes, whether an exception was raised and its class, whether operands were mutated, np.shares_memory between results and operands) into out.json;
- `meta.json`: {{"property": "{pid}", "kind": "A" or "B", "summary": "...", "files": [...], "tests_pass": true, "probe_equal": true, "max_rel_diff": 0.0}}.
Verify yourself: (1) `cd {wt} && PYTHONPATH={wt} /venv/bin/python -m pytest -q -p no:cacheprovider` reports the same 208 passed; (2) run probe.py on the changed tree and on the pristine tree (do NOT use `git stash`; use `git -C {wt} diff -- pyttb > /tmp/{key}.p; git -C {wt} apply -R /tmp/{key}.p; run; git -C {wt} apply /tmp/{key}.p`) and compare the two JSON files: kind A must be identical, kind B may differ only in float values by a relative 1e-12 (of the largest magnitude in that result); put the outcome into meta.json. Leave the change applied in the worktree when you finish. Final message: summary, kind, and the outcome of (1) and (2).''')
