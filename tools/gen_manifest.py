#!/venv/bin/python
"""Regenerates /verif/MANIFEST.json from the table below (run after adding a property)."""
import json
from pathlib import Path

ROOT = Path(__file__).resolve().parent.parent
props = {json.loads(l)["id"]: json.loads(l) for l in (ROOT / "properties.jsonl").read_text().splitlines() if l.strip()}

# id -> (technique, level text, level note)
CLAIMED = {}
exec((ROOT / "tools" / "claims.py").read_text())

checks = []
for pid in sorted(CLAIMED):
    tech, text, note, ref = CLAIMED[pid]
    checks.append({
        "property_id": pid,
        "quick_cmd": f"./check {pid} --tier quick",
        "thorough_cmd": f"./check {pid} --tier thorough",
        "evidence_file": f"/verif/evidence/{pid}.json",
        "replay_cmd_template": f"./check {pid} --replay {{path}}",
        "engine": "lean-model+correspondence",
        "level_claimed": {"category": "proof", "text": text, "design_ref": ref},
        "level_note": note,
        "technique": tech,
    })
na = [{"property_id": pid, "reason": NOT_YET.get(pid, "check not built yet in this session (see DESIGN.md section 11 build order); the technique applies")}
      for pid in sorted(props) if pid not in CLAIMED]
m = {
    "version": 1,
    "setup_cmd": "cd lean && lake build driver " + " ".join(f"PyttbModel.Props.{p}" for p in sorted(CLAIMED)),
    "hooks": {
        "guard": "PYTTB_VERIF",
        "enable": "none needed: observation is done by harness-side wrappers around the public API; no guarded source changes exist",
        "baseline_off_cmd": "cd /repo && /venv/bin/python -m pytest -ra -q -p no:cacheprovider --timeout=900 --continue-on-collection-errors",
        "source_commits": [],
        "add_only": True,
    },
    "engines": [
        {"name": "lean-model+correspondence", "path": "lean/ , harness/",
         "serves_properties": sorted(CLAIMED),
         "kind_free_text": "hand-written executable Lean 4 model with machine-checked theorems (lake build + #print axioms audit), tied to /repo by a differential correspondence harness driving the real pyttb and the compiled model on the same generated inputs; translators regenerate formula-level definitions from the Python AST where the property is about a closed-form expression"},
    ],
    "checks": checks,
    "not_applicable": na,
    "notes": "Fix commits to /repo and known findings are listed in /verif/known_findings.json; see DESIGN.md.",
}
(ROOT / "MANIFEST.json").write_text(json.dumps(m, indent=1) + "\n")
print(f"{len(checks)} checks, {len(na)} not yet claimed")
